import Fuota.Lemmas.RingLifeSteps
/-!
# Ring lemmas, part 13: the second invariant bundle (`Inv2`): who wrote which slot, live sessions, orphan parity headers

`Inv2` is what makes `try_recover` return only sessions written by one successful start (`no_chimera`) and return the
latest successful start while it is live. Its delicate part is `Orph`: an in-progress parity header whose firmware
partner was erased is (almost) the oldest header of the ring, so it can never be paired with an older firmware header.
-/
namespace Fuota.Ring
open Fuota.Layout Fuota.Fs Fuota.Updater Fuota.Slots

/-- start attempt that wrote slot `i` -/
abbrev atA (att : List (Option Nat)) (i : Nat) : Option Nat := att.getD i none

abbrev InProg (h : Header) : Prop := totalStatus h = TotalStatus.appWriteInProgress

/-- the pair `(f, p)` is (second newest, newest) -/
def Top2 (hs : Hdrs) (m : Nat × Nat) : Prop :=
  ∃ hf hp, twoNewest (indexed hs) = (some (m.2, hp), some (m.1, hf))

/-- who wrote what: attempt ids are consistent with sequence numbers; one attempt = at most one firmware slot and the
    parity slot right after it; every header has the geometry of the updates -/
structure SkelOK (n : Nat) (g : Geom) (hs : Hdrs) (att : List (Option Nat)) : Prop where
  alen : att.length = n
  attUsed : ∀ i, (∃ k, atA att i = some k) ↔ ∃ h, Used hs i h
  mono : ∀ i h j h' k k', Used hs i h → Used hs j h' → atA att i = some k → atA att j = some k' → k < k' →
    h.seq < h'.seq
  pair : ∀ i h j h' k, Used hs i h → Used hs j h' → i ≠ j → atA att i = some k → atA att j = some k →
    (h.kind = Kind.firmware ∧ h'.kind = Kind.parity ∧ j = (i + 1) % n ∧ h.seq < h'.seq) ∨
    (h'.kind = Kind.firmware ∧ h.kind = Kind.parity ∧ i = (j + 1) % n ∧ h'.seq < h.seq)
  geom : ∀ i h, Used hs i h → h.size = g.segSize ∧ (h.kind = Kind.firmware → h.n = g.nseg) ∧
    (h.kind = Kind.parity → h.n = g.maxL)

/-- `live` = exactly the in-progress firmware / parity pairs written by one start -/
def LiveOK (hs : Hdrs) (att : List (Option Nat)) (live : List (Nat × Nat)) : Prop :=
  ∀ f p, (f, p) ∈ live ↔ ∃ hf hp k, Used hs f hf ∧ hf.kind = Kind.firmware ∧ InProg hf ∧
    Used hs p hp ∧ hp.kind = Kind.parity ∧ InProg hp ∧ atA att f = some k ∧ atA att p = some k

/-- a remembered pair (`must`, `sess`) is live and is the two newest headers -/
def TopOK (hs : Hdrs) (live : List (Nat × Nat)) (o : Option (Nat × Nat)) : Prop :=
  ∀ m, o = some m → m ∈ live ∧ Top2 hs m

/-- an in-progress parity header whose firmware partner is gone has nothing below it — or just the oldest header,
    two slots before it with the slot in between blank; and if that oldest header is an in-progress firmware header,
    the ring is full behind it and a confirmed image exists (so `alloc_slotpair` will take these two oldest slots) -/
def Orph (n : Nat) (hs : Hdrs) (att : List (Option Nat)) : Prop :=
  ∀ j hj k, Used hs j hj → hj.kind = Kind.parity → InProg hj → atA att j = some k →
    (¬ ∃ i hi, Used hs i hi ∧ hi.kind = Kind.firmware ∧ atA att i = some k) →
    (∀ x hx, Used hs x hx → ¬ hx.seq < hj.seq) ∨
    (∃ low ls, lowOf hs = some (low, ls) ∧ (∀ x hx, Used hs x hx → hx.seq < hj.seq → x = low) ∧
      j = (low + 2) % n ∧ (∀ h, ¬ Used hs ((low + 1) % n) h) ∧
      (∀ hl, Used hs low hl → hl.kind = Kind.firmware → InProg hl →
        (∃ h, Used hs ((low + n - 1) % n) h) ∧ fallbackSlot hs ≠ none))

structure Inv2F (n : Nat) (g : Geom) (hs : Hdrs) (att : List (Option Nat)) (live : List (Nat × Nat))
    (must sess : Option (Nat × Nat)) : Prop where
  skel : SkelOK n g hs att
  lv : LiveOK hs att live
  mu : TopOK hs live must
  se : TopOK hs live sess
  orph : Orph n hs att

abbrev Inv2 (c : Cfg) (s : State) : Prop := Inv2F c.n c.geom s.hs s.att s.live s.must s.sess

/-- the geometry the machine starts its updates with passes the sanity checks of recovery -/
def GeomOK (g : Geom) : Prop := reasonablySized g.slotSize g.segSize g.nseg = .ok () ∧ g.maxL ≤ VBITS

/-! ## no chimera -/

theorem pred_ne {n low : Nat} (hn : 4 ≤ n) (hl : low < n) :
    (low + n - 1) % n ≠ low ∧ (low + n - 1) % n ≠ (low + 2) % n := by
  have a := pred_cases n low hl
  have b := succ2_cases n low hl (by omega)
  omega

/-- **no chimera** (from the invariants): if the newest header is a parity header with a write in progress and the
    second newest a firmware header with a write in progress, both were written by the same start attempt -/
theorem noChim {n : Nat} {g : Geom} {hs : Hdrs} {att : List (Option Nat)} (hn : 4 ≤ n) (hinv : RingInv n hs)
    (hsk : SkelOK n g hs att) (ho : Orph n hs att) {nw sn : Nat × Header}
    (htn : twoNewest (indexed hs) = (some nw, some sn))
    (hk1 : nw.2.kind = Kind.parity) (hst1 : InProg nw.2) (hk2 : sn.2.kind = Kind.firmware) (hst2 : InProg sn.2) :
    ∃ k, atA att sn.1 = some k ∧ atA att nw.1 = some k := by
  obtain ⟨⟨hu1, hall1⟩, ⟨hu2, hne, hall2⟩⟩ := twoNewest_indexed_iff.mp htn
  obtain ⟨kn, hkn⟩ := (hsk.attUsed nw.1).mpr ⟨nw.2, hu1⟩
  obtain ⟨ks, hks⟩ := (hsk.attUsed sn.1).mpr ⟨sn.2, hu2⟩
  have hn0 : 0 < n := by omega
  -- the second newest is strictly below the newest, everything else strictly below the second newest
  have hsn_lt : sn.2.seq < nw.2.seq := by
    have hne' := ring_seq_ne hn0 hinv hu2 hu1 hne
    have := hall1 sn.1 sn.2 hu2
    rcases Nat.lt_or_gt_of_ne hne with h3 | h3
    · exact this.1 h3
    · have := this.2 h3; omega
  have hother : ∀ x hx, Used hs x hx → x ≠ nw.1 → x ≠ sn.1 → hx.seq < sn.2.seq := by
    intro x hx hux hx1 hx2
    have hne' := ring_seq_ne hn0 hinv hux hu2 hx2
    have := hall2 x hx hux hx1
    rcases Nat.lt_or_gt_of_ne hx2 with h3 | h3
    · exact this.1 h3
    · have := this.2 h3; omega
  by_cases hkk : ks = kn
  · exact ⟨kn, hkk ▸ hks, hkn⟩
  exfalso
  -- the newest header has no firmware partner
  have horph : ¬ ∃ i hi, Used hs i hi ∧ hi.kind = Kind.firmware ∧ atA att i = some kn := by
    rintro ⟨x, hx, hux, hkx, hax⟩
    have hx1 : x ≠ nw.1 := by
      intro e; subst e
      rw [used_unique hux hu1, hk1] at hkx; cases hkx
    have hx2 : x ≠ sn.1 := by
      intro e; subst e
      rw [hks] at hax
      simp only [Option.some.injEq] at hax
      exact hkk hax
    have hlt := hother x hx hux hx1 hx2
    rcases Nat.lt_or_gt_of_ne hkk with h3 | h3
    · have := hsk.mono sn.1 sn.2 x hx ks kn hu2 hux hks hax h3
      omega
    · have := hsk.mono nw.1 nw.2 sn.1 sn.2 kn ks hu1 hu2 hkn hks h3
      omega
  rcases ho nw.1 nw.2 kn hu1 hk1 hst1 hkn horph with h2 | ⟨low, ls, hl, hbelow, hj, hempty, hclause⟩
  · exact h2 sn.1 sn.2 hu2 hsn_lt
  · have hsl : sn.1 = low := hbelow sn.1 sn.2 hu2 hsn_lt
    obtain ⟨hlo, hlou, -⟩ := lowOf_eq_some.mp hl
    have hlown : low < n := hinv.1 ▸ used_lt hlou
    obtain ⟨⟨y, huy⟩, -⟩ := hclause sn.2 (hsl ▸ hu2) hk2 hst2
    obtain ⟨p1, p2⟩ := pred_ne hn hlown
    have hy1 : (low + n - 1) % n ≠ nw.1 := by rw [hj]; exact p2
    have hy2 : (low + n - 1) % n ≠ sn.1 := by rw [hsl]; exact p1
    have hlt := hother _ y huy hy1 hy2
    have := hbelow _ y huy (by omega)
    exact p1 this

/-! ## what recovery returns, from the invariants -/


/-- what a returned session is, from the invariants: a live pair, written by one start attempt, and the remembered
    latest start if there is one -/
theorem recover_some_of_inv {n : Nat} {g : Geom} {hs : Hdrs} {att : List (Option Nat)} {live : List (Nat × Nat)}
    {must sess : Option (Nat × Nat)} (hn : 4 ≤ n) (hinv : RingInv n hs) (h : Inv2F n g hs att live must sess)
    {r : Nat × Nat} (hr : (recoverEffs g hs).1 = some r) :
    r ∈ live ∧ (∃ k, atA att r.1 = some k ∧ atA att r.2 = some k) ∧ ∀ m, must = some m → m = r := by
  unfold recoverEffs at hr
  cases hd : recoverDecision g hs with
  | none => rw [hd] at hr; cases hr
  | some d =>
    obtain ⟨nw, sn⟩ := d
    rw [hd] at hr
    simp only [Option.some.injEq] at hr
    subst hr
    obtain ⟨htn, hst1, hk1, hst2, hk2⟩ := recoverDecision_some hd
    obtain ⟨hu1, hu2, _⟩ := twoNewest_mem htn
    obtain ⟨k, ha2, ha1⟩ := noChim hn hinv h.skel h.orph htn hk1 hst1 hk2 hst2
    refine ⟨(h.lv sn.1 nw.1).mpr ⟨sn.2, nw.2, k, hu2, hk2, hst2, hu1, hk1, hst1, ha2, ha1⟩, ⟨k, ha2, ha1⟩, ?_⟩
    intro m hm
    obtain ⟨_, hf, hp, htop⟩ := h.mu m hm
    rw [htn] at htop
    simp only [Prod.mk.injEq, Option.some.injEq] at htop
    obtain ⟨e1, e2⟩ := htop
    rw [e1, e2]

/-- the remembered latest successful start is what recovery returns -/
theorem recover_must_of_inv {n : Nat} {g : Geom} {hs : Hdrs} {att : List (Option Nat)} {live : List (Nat × Nat)}
    {must sess : Option (Nat × Nat)} (hg : GeomOK g) (h : Inv2F n g hs att live must sess)
    {m : Nat × Nat} (hm : must = some m) : (recoverEffs g hs).1 = some m := by
  obtain ⟨hlive, hf, hp, htop⟩ := h.mu m hm
  obtain ⟨hf', hp', k, huf, hkf, hstf, hup, hkp, hstp, _, _⟩ := (h.lv m.1 m.2).mp hlive
  obtain ⟨hu1, hu2, _⟩ := twoNewest_mem htop
  have e1 := used_unique hu1 hup
  have e2 := used_unique hu2 huf
  simp only at e1 e2
  subst e1; subst e2
  obtain ⟨gs1, _, gn1⟩ := h.skel.geom m.2 hp hup
  obtain ⟨gs2, gn2, _⟩ := h.skel.geom m.1 hf huf
  have hd : recoverDecision g hs = some ((m.2, hp), (m.1, hf)) := by
    unfold recoverDecision
    rw [htop]
    have a1 : totalStatus hp = TotalStatus.appWriteInProgress := hstp
    have a2 : totalStatus hf = TotalStatus.appWriteInProgress := hstf
    simp only [a1, a2, hkp, hkf, gs1, gs2, gn1 hkp, gn2 hkf, ne_eq, not_true_eq_false, ↓reduceIte]
    have : ¬ g.maxL > VBITS := by have := hg.2; omega
    simp only [this, ↓reduceIte, hg.1]
  unfold recoverEffs
  rw [hd]


end Fuota.Ring
