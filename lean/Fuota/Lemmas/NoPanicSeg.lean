import Fuota.Lemmas.NoPanicUpd
/-!
# `handle_segment` never panics on a well-formed updater (calculus for `MU`, `handleBlock`)
-/
namespace Fuota.NoPanic
open Fuota.Nor Fuota.Fs Fuota.Layout Fuota.Updater

def runU {α} (x : MU α) (s : Upd × Dev) : Except MErr α × (Upd × Dev) := x.run s

/-- `Q` on success; on an error: not the panic, and `E` of the state left behind -/
def wpU {α} (x : MU α) (Q : α → Upd × Dev → Prop) (E : Upd × Dev → Prop) (s : Upd × Dev) : Prop :=
  match runU x s with
  | (.ok a, s') => Q a s'
  | (.error e, s') => e ≠ .panic ∧ E s'

theorem runU_bind {α β} (x : MU α) (f : α → MU β) (s : Upd × Dev) :
    runU (x >>= f) s = match runU x s with
      | (.ok a, s') => runU (f a) s'
      | (.error e, s') => (.error e, s') := by
  simp only [runU, bind, ExceptT.bind, ExceptT.run, ExceptT.mk, StateT.bind, ExceptT.bindCont]
  cases h : x s with
  | mk r s' => cases r <;> rfl

theorem wpU_pure {α} (a : α) (Q : α → Upd × Dev → Prop) (E) (s) : wpU (pure a : MU α) Q E s ↔ Q a s := Iff.rfl
theorem wpU_throw {α} (e : MErr) (Q : α → Upd × Dev → Prop) (E) (s) :
    wpU (throw e : MU α) Q E s ↔ (e ≠ .panic ∧ E s) := Iff.rfl
theorem wpU_bind {α β} (x : MU α) (f : α → MU β) (Q : β → Upd × Dev → Prop) (E) (s) :
    wpU (x >>= f) Q E s ↔ wpU x (fun a s' => wpU (f a) Q E s') E s := by
  unfold wpU; rw [runU_bind]
  cases h : runU x s with
  | mk r s' => cases r <;> simp
theorem wpU_getU (Q : Upd → Upd × Dev → Prop) (E) (s) : wpU getU Q E s ↔ Q s.1 s := Iff.rfl
theorem wpU_setU (u : Upd) (Q : Unit → Upd × Dev → Prop) (E) (s) : wpU (setU u) Q E s ↔ Q () (u, s.2) := Iff.rfl

theorem wpU_liftM {α} {x : M α} {Q : α → Upd × Dev → Prop} {E : Upd × Dev → Prop} {u : Upd} {d : Dev}
    (h : wp x (fun a d' => Q a (u, d')) d) (he : ∀ d', E (u, d')) : wpU (liftM x) Q E (u, d) := by
  unfold wp at h
  unfold wpU
  have : runU (liftM x) (u, d) = ((run' x d).1, (u, (run' x d).2)) := rfl
  rw [this]
  cases hr : run' x d with
  | mk r d' =>
    rw [hr] at h
    cases r with
    | ok a => exact h
    | error e => exact ⟨h, he _⟩

theorem wpU_mono {α} {x : MU α} {Q Q' : α → Upd × Dev → Prop} {E : Upd × Dev → Prop} {s : Upd × Dev}
    (h : wpU x Q E s) (hq : ∀ a s', Q a s' → Q' a s') : wpU x Q' E s := by
  unfold wpU at *
  cases hr : runU x s with
  | mk r s' =>
    rw [hr] at h
    cases r with
    | ok a => exact hq _ _ h
    | error e => exact h

/-- what `wpU` with the same invariant on both exits says about a run -/
theorem wpU_run {α} {x : MU α} {I : Upd × Dev → Prop} {s : Upd × Dev} (h : wpU x (fun _ s' => I s') I s) :
    (runU x s).1 ≠ .error .panic ∧ I (runU x s).2 := by
  unfold wpU at h
  cases hr : runU x s with
  | mk r s' =>
    rw [hr] at h
    cases r with
    | ok a => exact ⟨by simp, h⟩
    | error e => exact ⟨by simpa using h.1, h.2⟩

/-- `handleBlock` after the stage switch (same text as the model) -/
def hbTail (ffr : Bool) (index : Nat) (data : List Nat) (u : Upd) : MU (Option Bool) := do
  setU u
  if u.l = 0 then
    if u.done.testBit index then return some (rcComplete u)
    let fw ← Updater.liftM (u.fw.writeSegment index data)
    let u := { u with fw := fw, done := u.done ||| 2 ^ index }
    setU u
    return some (rcComplete u)
  else
    let row ← match updaterRow ffr u.n index with
      | none => throw MErr.panic
      | some r => pure r
    let d ← Updater.liftM (strip u row (List.range u.n) data)
    let used ← Updater.liftM (elim u u.l (Recon.project u.done u.n row) d)
    let u := { u with used := used }
    setU u
    if rcComplete u then
      let u' ← Updater.liftM (finishOuter (Recon.unknowns u.done u.n) (List.range u.l) u)
      setU u'
      return some true
    else return some false

theorem handleBlock_eq (ffr : Bool) (index : Nat) (data : List Nat) :
    handleBlock ffr index data = (do
      let u ← getU
      if data.length ≠ u.bs then throw .panic
      if rcComplete u then return some true
      let l0 := (Recon.unknowns u.done u.n).length
      if u.n ≤ index ∧ u.l = 0 ∧ (VBITS < l0 ∨ u.maxL < l0) then return none
      hbTail ffr index data (if u.n ≤ index ∧ u.l = 0 then { u with l := l0 } else u)) := rfl

theorem updaterRow_isSome (ffr : Bool) (n index : Nat) (hrows : RowsDefined ffr n) (hidx : index + 1 < 2 ^ 32) :
    (updaterRow ffr n index).isSome := by
  unfold updaterRow Lfdbt.updaterRow
  split
  · rfl
  · apply hrows
    · rw [Nat.mod_eq_of_lt (by omega)]; omega
    · exact Nat.mod_lt _ (by omega)

/-- the invariant of a session: well-formed, and block count / block size are those of the session -/
def Inv (n0 bs0 : Nat) (s : Upd × Dev) : Prop := UpdWF s.1 ∧ s.1.n = n0 ∧ s.1.bs = bs0

theorem hbTail_spec (ffr : Bool) (index : Nat) (data : List Nat) (u : Upd) (hwf : UpdWF u)
    (hrows : RowsDefined ffr u.n) (hidx : index + 1 < 2 ^ 32) (s : Upd × Dev) :
    wpU (hbTail ffr index data u) (fun _ s' => Inv u.n u.bs s') (Inv u.n u.bs) s := by
  obtain ⟨w1, w2, w3⟩ := hwf
  have hI : ∀ d', Inv u.n u.bs (u, d') := fun _ => ⟨⟨w1, w2, w3⟩, rfl, rfl⟩
  unfold hbTail
  simp only [wpU_bind, wpU_setU]
  split
  · rename_i hl
    split
    · simp only [wpU_pure]; exact hI _
    · simp only [wpU_bind]
      apply wpU_liftM
      · apply (np_writeSegment _ _ _).wp
        intro fw d'
        simp only [wpU_setU, wpU_pure]
        refine ⟨⟨?_, ?_, ?_⟩, rfl, rfl⟩ <;> simp only [hl, Nat.zero_le]
      · exact hI
  · rename_i hl
    have hs := updaterRow_isSome ffr u.n index hrows hidx
    split
    · rename_i hnone; rw [hnone] at hs; cases hs
    · simp only [wpU_bind, wpU_pure]
      apply wpU_liftM
      · apply (np_strip _ _ _ _).wp
        intro dd d1
        apply wpU_liftM
        · apply (np_elim u u.l _ _ w1 w2).wp
          intro used d2
          simp only [wpU_setU]
          split
          · simp only [wpU_bind]
            apply wpU_liftM
            · apply finishOuter_spec
              · intro i hi
                simp only [List.mem_range] at hi
                exact ⟨Nat.lt_of_lt_of_le hi w1, Nat.lt_of_lt_of_le hi w2, Nat.lt_of_lt_of_le hi w3⟩
              · intro fw d3
                simp only [wpU_setU, wpU_pure]
                exact ⟨⟨w1, w2, w3⟩, rfl, rfl⟩
            · intro d3; exact ⟨⟨w1, w2, w3⟩, rfl, rfl⟩
          · simp only [wpU_pure]; exact ⟨⟨w1, w2, w3⟩, rfl, rfl⟩
        · exact hI
      · exact hI

theorem handleBlock_spec (ffr : Bool) (index : Nat) (data : List Nat) (u : Upd) (d : Dev)
    (hwf : UpdWF u) (hlen : data.length = u.bs) (hrows : RowsDefined ffr u.n) (hidx : index + 1 < 2 ^ 32) :
    wpU (handleBlock ffr index data) (fun _ s' => Inv u.n u.bs s') (Inv u.n u.bs) (u, d) := by
  have hI : Inv u.n u.bs (u, d) := ⟨hwf, rfl, rfl⟩
  rw [handleBlock_eq]
  simp only [wpU_bind, wpU_getU]
  split
  · contradiction
  split
  · exact hI
  split
  · exact hI
  rename_i hg
  by_cases hc : u.n ≤ index ∧ u.l = 0
  · rw [if_pos hc]
    have : ¬ (VBITS < (Recon.unknowns u.done u.n).length ∨ u.maxL < (Recon.unknowns u.done u.n).length) :=
      fun h => hg ⟨hc.1, hc.2, h⟩
    exact hbTail_spec ffr index data { u with l := (Recon.unknowns u.done u.n).length } ⟨Nat.le_of_not_lt (fun h => this (Or.inr h)), Nat.le_of_not_lt (fun h => this (Or.inl h)), Nat.le_refl _⟩ hrows hidx _
  · rw [if_neg hc]
    exact hbTail_spec ffr index data u hwf hrows hidx _

theorem handleSegment_spec (ffr : Bool) (idx : Nat) (bytes : List Nat) (u : Upd) (d : Dev)
    (hwf : UpdWF u) (hlen : bytes.length = u.bs) (hrows : RowsDefined ffr u.n) (hidx : idx < 2 ^ 32) :
    wpU (handleSegment ffr idx bytes) (fun _ s' => Inv u.n u.bs s') (Inv u.n u.bs) (u, d) := by
  unfold handleSegment
  split
  · simp only [wpU_bind, wpU_throw]
    exact ⟨by decide, hwf, rfl, rfl⟩
  · rename_i h0
    simp only [wpU_bind]
    apply wpU_mono (handleBlock_spec ffr (idx - 1) bytes u d hwf hlen hrows (by omega))
    intro r s' hs'
    split
    · simp only [wpU_bind, wpU_getU, wpU_setU, wpU_pure]; exact hs'
    · simp only [wpU_pure]; exact hs'

end Fuota.NoPanic
