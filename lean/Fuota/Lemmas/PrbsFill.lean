import Fuota.Lemmas.PrbsRow
/-!
# The row-filling loops against the specification (helper lemmas of C10)
-/
namespace Fuota.Lfdbt

theorem fillLoop_done {ffr : Bool} {M S f nb x row : Nat} (h : ¬ nb < M / 2) :
    fillLoop ffr M S f nb x row = some row := by
  cases f <;> simp [fillLoop, h]

theorem fillLoop_zero {ffr : Bool} {M S nb x row : Nat} (h : nb < M / 2) :
    fillLoop ffr M S 0 nb x row = none := by
  simp [fillLoop, h]

theorem fillLoop_succ {ffr : Bool} {M S f nb x row : Nat} (h : nb < M / 2) :
    fillLoop ffr M S (f + 1) nb x row =
      match drawLoop M S drawFuel x (1 <<< 16) with
      | none => none
      | some (x', r) =>
        if !ffr || !row.testBit r then fillLoop ffr M S f (nb + 1) x' (row ||| 2 ^ r)
        else fillLoop ffr M S f nb x' row := by
  rw [fillLoop, if_pos h]
  cases drawLoop M S drawFuel x (1 <<< 16) with
  | none => rfl
  | some p => obtain ⟨a, b⟩ := p; rfl

theorem maskFrom_cons (row r : Nat) (l : List Nat) :
    Spec.maskFrom row (r :: l) = Spec.maskFrom (row ||| 2 ^ r) l := rfl

/-- what one terminating draw looks like on both sides (any specification fuel `38 + g`) -/
theorem draw_both {M : Nat} (h2 : 2 ≤ M) (h16 : M ≤ 2 ^ 16) {x : Nat} (hx : x < 2 ^ 32) (g : Nat) :
    ∃ x' r, drawLoop M (M + jig M) drawFuel x (1 <<< 16) = some (x', r) ∧
      Spec.drawFrom M (jig M) (38 + g) x (2 ^ 16) = (x', r) ∧ r < M ∧ x' < 2 ^ 32 := by
  obtain ⟨x', r, e, hr, hx'⟩ := draw_terminates h2 h16 hx
  exact ⟨x', r, e 2, drawLoop_spec (e g), hr, hx'⟩

/-- without `force-full-r` the loop sets exactly the specification's draws -/
theorem fill_std {M : Nat} (h16 : M ≤ 2 ^ 16) (g : Nat) :
    ∀ c fuel nb x row, x < 2 ^ 32 → nb + c = M / 2 → c ≤ fuel →
      fillLoop false M (M + jig M) fuel nb x row = some (Spec.maskFrom row (Spec.draws (38 + g) M (jig M) c x)) := by
  intro c
  induction c with
  | zero =>
    intro fuel nb x row _ hc _
    rw [fillLoop_done (by omega)]; rfl
  | succ c ih =>
    intro fuel nb x row hx hc hf
    obtain ⟨f, rfl⟩ : ∃ f, fuel = f + 1 := ⟨fuel - 1, by omega⟩
    obtain ⟨x', r, e1, e2, -, hx'⟩ := draw_both (M := M) (by omega) h16 hx g
    rw [fillLoop_succ (by omega), e1]
    simp only [Bool.not_false, Bool.true_or, if_true]
    rw [ih f (nb + 1) x' _ hx' (by omega) (by omega)]
    simp only [Spec.draws, e2, maskFrom_cons]

/-- rows never address a fragment `≥ M` (both cfgs) -/
theorem fill_bound {ffr : Bool} {M S : Nat} :
    ∀ fuel nb x row res, fillLoop ffr M S fuel nb x row = some res → row < 2 ^ M → res < 2 ^ M := by
  intro fuel
  induction fuel with
  | zero =>
    intro nb x row res h hb
    by_cases hn : nb < M / 2
    · rw [fillLoop_zero hn] at h; simp at h
    · rw [fillLoop_done hn] at h; simp at h; omega
  | succ f ih =>
    intro nb x row res h hb
    by_cases hn : nb < M / 2
    · rw [fillLoop_succ hn] at h
      split at h
      · simp at h
      · rename_i x' r e
        have hr := drawLoop_lt e
        split at h
        · exact ih _ _ _ _ h (Nat.or_lt_two_pow hb (Nat.pow_lt_pow_right (by decide) hr))
        · exact ih _ _ _ _ h hb
    · rw [fillLoop_done hn] at h; simp at h; omega

/-- a row that had to take at least one more fragment, or was already non-empty, is non-empty -/
theorem fill_nonzero {ffr : Bool} {M S : Nat} :
    ∀ fuel nb x row res, fillLoop ffr M S fuel nb x row = some res → (row ≠ 0 ∨ nb < M / 2) → res ≠ 0 := by
  intro fuel
  induction fuel with
  | zero =>
    intro nb x row res h hb
    by_cases hn : nb < M / 2
    · rw [fillLoop_zero hn] at h; simp at h
    · rw [fillLoop_done hn] at h; simp at h; subst h; exact hb.resolve_right hn
  | succ f ih =>
    intro nb x row res h hb
    by_cases hn : nb < M / 2
    · rw [fillLoop_succ hn] at h
      split at h
      · simp at h
      · rename_i x' r e
        split at h
        · exact ih _ _ _ _ h (Or.inl (or_two_pow_ne_zero row r))
        · rename_i hc
          refine ih _ _ _ _ h (Or.inl ?_)
          intro h0; subst h0; simp at hc
    · rw [fillLoop_done hn] at h; simp at h; subst h; exact hb.resolve_right hn

/-- with `force-full-r` the loop counts distinct fragments -/
theorem fill_card {M S : Nat} :
    ∀ fuel nb x row res, fillLoop true M S fuel nb x row = some res → popcount row = nb → nb ≤ M / 2 →
      popcount res = M / 2 := by
  intro fuel
  induction fuel with
  | zero =>
    intro nb x row res h hp hle
    by_cases hn : nb < M / 2
    · rw [fillLoop_zero hn] at h; simp at h
    · rw [fillLoop_done hn] at h; simp at h; subst h; omega
  | succ f ih =>
    intro nb x row res h hp hle
    by_cases hn : nb < M / 2
    · rw [fillLoop_succ hn] at h
      split at h
      · simp at h
      · rename_i x' r e
        split at h
        · rename_i hc
          have hc' : row.testBit r = false := by simpa using hc
          exact ih _ _ _ _ h (by rw [popcount_or_two_pow r row hc', hp]) (by omega)
        · exact ih _ _ _ _ h hp hle
    · rw [fillLoop_done hn] at h; simp at h; subst h; omega

/-- with `force-full-r` the loop ends as soon as the specification's draw sequence has shown `M / 2` distinct
    fragments, provided that happens within the outer fuel -/
theorem fill_ffr_terminates {M : Nat} (h2 : 2 ≤ M) (h16 : M ≤ 2 ^ 16) (g : Nat) :
    ∀ fuel nb x row, x < 2 ^ 32 → popcount row = nb →
      (∃ c, c ≤ fuel ∧ M / 2 ≤ popcount (Spec.maskFrom row (Spec.draws (38 + g) M (jig M) c x))) →
      ∃ c res, fillLoop true M (M + jig M) fuel nb x row = some res ∧
        res = Spec.maskFrom row (Spec.draws (38 + g) M (jig M) c x) := by
  intro fuel
  induction fuel with
  | zero =>
    intro nb x row _ hp ⟨c, hc, hm⟩
    have : c = 0 := by omega
    subst this
    refine ⟨0, row, fillLoop_done ?_, rfl⟩
    have : Spec.maskFrom row (Spec.draws (38 + g) M (jig M) 0 x) = row := rfl
    rw [this] at hm; omega
  | succ f ih =>
    intro nb x row hx hp ⟨c, hc, hm⟩
    by_cases hn : nb < M / 2
    · cases c with
      | zero =>
        have : Spec.maskFrom row (Spec.draws (38 + g) M (jig M) 0 x) = row := rfl
        rw [this] at hm; omega
      | succ c =>
        obtain ⟨x', r, e1, e2, -, hx'⟩ := draw_both h2 h16 hx g
        have hd : Spec.draws (38 + g) M (jig M) (c + 1) x = r :: Spec.draws (38 + g) M (jig M) c x' := by
          simp only [Spec.draws, e2]
        rw [hd, maskFrom_cons] at hm
        rw [fillLoop_succ hn, e1]
        by_cases hb : row.testBit r = true
        · simp only [hb, Bool.not_true, Bool.or_false, Bool.false_eq_true, if_false]
          rw [or_two_pow_eq_self hb] at hm
          obtain ⟨c', res, e, hres⟩ := ih nb x' row hx' hp ⟨c, by omega, hm⟩
          refine ⟨c' + 1, res, e, ?_⟩
          have hd' : Spec.draws (38 + g) M (jig M) (c' + 1) x = r :: Spec.draws (38 + g) M (jig M) c' x' := by
            simp only [Spec.draws, e2]
          rw [hd', maskFrom_cons, or_two_pow_eq_self hb]; exact hres
        · have hb' : row.testBit r = false := by simpa using hb
          simp only [hb', Bool.not_false, Bool.or_true, if_true]
          obtain ⟨c', res, e, hres⟩ := ih (nb + 1) x' (row ||| 2 ^ r) hx'
            (by rw [popcount_or_two_pow r row hb', hp]) ⟨c, by omega, hm⟩
          refine ⟨c' + 1, res, e, ?_⟩
          have hd' : Spec.draws (38 + g) M (jig M) (c' + 1) x = r :: Spec.draws (38 + g) M (jig M) c' x' := by
            simp only [Spec.draws, e2]
          rw [hd', maskFrom_cons]; exact hres
    · exact ⟨0, row, fillLoop_done hn, rfl⟩

/-- the `for` loop of `lfdbt.rs` -/
theorem lfdbtFill_spec {M : Nat} (h16 : M ≤ 2 ^ 16) (g : Nat) :
    ∀ c x row, x < 2 ^ 32 → (c ≠ 0 → 2 ≤ M) →
      lfdbtFill M (M + jig M) c x row = some (Spec.maskFrom row (Spec.draws (38 + g) M (jig M) c x)) := by
  intro c
  induction c with
  | zero => intro x row _ _; rfl
  | succ c ih =>
    intro x row hx h2
    obtain ⟨x', r, e1, e2, -, hx'⟩ := draw_both (M := M) (h2 (by omega)) h16 hx g
    rw [← lfdbtDraw_eq drawFuel x (1 <<< 16) (show M ≤ 1 <<< 16 from h16)] at e1
    simp only [lfdbtFill, e1]
    rw [ih x' _ hx' (fun _ => h2 (by omega))]
    simp only [Spec.draws, e2, maskFrom_cons]

end Fuota.Lfdbt
