import Fuota.Lemmas.FaultCongr
/-!
# `handleBlock` split into its stages, and its congruence under `Eqv`
-/
namespace Fuota.Fault
open Fuota.Recon

/-- the state after the stage switch ("first parity-range block freezes the unknown set") -/
def adj (s : St) (i : Nat) : St :=
  if s.n ≤ i ∧ s.l = 0 then { s with l := (unknowns s.done s.n).length } else s

/-- stage 1 of `handleBlock` (`handle_data_block`), verbatim -/
def stage1 (V : Variant) (F : Nat → Bool) (s : St) (index data : Nat) : St × Res :=
  if s.done.testBit index then (s, if isComplete s then .done (s.n * s.bs) else .needMore) else
  if V.bitBeforeStore then
    let s := { s with done := s.done ||| 2 ^ index }
    let (s1, ok) := call F s (.dStore index data)
    if !ok then (s1, .err .data) else
    let s2 := { s1 with ds := (index, data) :: s1.ds }
    (s2, if isComplete s2 then .done (s2.n * s2.bs) else .needMore)
  else
    let (s1, ok) := call F s (.dStore index data)
    if !ok then (s1, .err .data) else
    let s2 := { s1 with ds := (index, data) :: s1.ds, done := s1.done ||| 2 ^ index }
    (s2, if isComplete s2 then .done (s2.n * s2.bs) else .needMore)

/-- what `handleBlock` does with the outcome of `handleParity`, verbatim -/
def tail2 (F : Nat → Bool) (r : St × Out) : St × Res :=
  let (s1, o1) := r
  match o1 with
  | .ok =>
    if isComplete s1 then
      let (s2, o2) := finish F s1
      match o2 with
      | .ok => (s2, .done (s2.n * s2.bs))
      | o => (s2, resOfOut o)
    else (s1, .needMore)
  | o => (s1, resOfOut o)

theorem handleBlock_eq (V : Variant) (F : Nat → Bool) (P : Nat → Nat) (vb nr : Nat) (s : St) (i d len : Nat) :
    handleBlock V F P vb nr s i d len =
      if len ≠ s.bs then (s, .panic) else
      if isComplete s then (s, .done (s.n * s.bs)) else
      if s.n ≤ i ∧ s.l = 0 ∧ (vb < (unknowns s.done s.n).length ∨ nr < (unknowns s.done s.n).length) then
        (s, .tooMany) else
      if (adj s i).l = 0 then stage1 V F (adj s i) i d else tail2 F (handleParity F (adj s i) (P i) d) := by
  rfl

theorem adj_congr {a b : St} (i : Nat) (h : Eqv a b) : Eqv (adj a i) (adj b i) := by
  obtain ⟨h1, h2, h3, h4, h5, h6, h7, h8⟩ := h
  unfold adj
  by_cases hb : b.n ≤ i ∧ b.l = 0
  · have ha : a.n ≤ i ∧ a.l = 0 := by rw [h1, h3]; exact hb
    simp only [ha, hb, and_self, ↓reduceIte]
    exact ⟨h1, h2, by simp [h1, h4], h4, h5, h6, h7, h8⟩
  · have ha : ¬ (a.n ≤ i ∧ a.l = 0) := by rw [h1, h3]; exact hb
    simp only [ha, hb, ↓reduceIte]
    exact ⟨h1, h2, h3, h4, h5, h6, h7, h8⟩

theorem stage1_congr {a b : St} (V : Variant) (i d : Nat) (h : Eqv a b) :
    PEqv (stage1 V noFault a i d) (stage1 V noFault b i d) := by
  obtain ⟨h1, h2, h3, h4, h5, h6, h7, h8⟩ := h
  unfold PEqv
  simp only [stage1, call_noFault, Bool.not_true, Bool.false_eq_true, ↓reduceIte, h4]
  split
  · simp [isComplete, Eqv, *]
  · split <;> simp [isComplete, Eqv, get_cons, *]

theorem tail2_congr {r r' : St × Out} (h : PEqv r r') : PEqv (tail2 noFault r) (tail2 noFault r') := by
  obtain ⟨s1, o1⟩ := r
  obtain ⟨t1, o1'⟩ := r'
  obtain ⟨ho, hs⟩ := h
  simp only at ho hs
  subst ho
  cases o1 with
  | ok =>
    simp only [tail2]
    rw [hs.isComplete]
    split
    · have hf := finish_congr hs
      generalize finish noFault s1 = x at hf ⊢
      generalize finish noFault t1 = y at hf ⊢
      obtain ⟨s2, o2⟩ := x
      obtain ⟨t2, o2'⟩ := y
      obtain ⟨ho, hs2⟩ := hf
      simp only at ho hs2
      subst ho
      cases o2 with
      | ok => exact ⟨by simp [hs2.1, hs2.2.1], hs2⟩
      | err e => exact ⟨rfl, hs2⟩
      | panic => exact ⟨rfl, hs2⟩
    · exact ⟨rfl, hs⟩
  | err e => exact ⟨rfl, hs⟩
  | panic => exact ⟨rfl, hs⟩

/-- `handleBlock` (fault free) depends on the state only through `Eqv` -/
theorem handleBlock_congr {a b : St} (V : Variant) (P : Nat → Nat) (vb nr i d len : Nat) (h : Eqv a b) :
    PEqv (handleBlock V noFault P vb nr a i d len) (handleBlock V noFault P vb nr b i d len) := by
  rw [handleBlock_eq, handleBlock_eq]
  have hc := h.isComplete
  have hadj := adj_congr i h
  have hl : (adj a i).l = (adj b i).l := hadj.2.2.1
  obtain ⟨h1, h2, h3, h4, h5, h6, h7, h8⟩ := h
  rw [hc, h1, h2, h3, h4, hl]
  split
  · exact ⟨rfl, h1, h2, h3, h4, h5, h6, h7, h8⟩
  · split
    · exact ⟨rfl, h1, h2, h3, h4, h5, h6, h7, h8⟩
    · split
      · exact ⟨rfl, h1, h2, h3, h4, h5, h6, h7, h8⟩
      · split
        · exact stage1_congr V i d hadj
        · exact tail2_congr (handleParity_congr _ _ hadj)

end Fuota.Fault
