import Fuota.Lemmas.RefineMonad
import Fuota.Lemmas.RefineBytes
import Fuota.Props.C15
/-!
# The three flash-backed stores of the updater are lawful stores (on a device without armed injection)

Addresses of the regions, their disjointness, and for each store: what a read returns, what a write does,
write-then-read round trip on an erased region, and the frame property (other indices / other stores unchanged).
-/
namespace Fuota.Updater
open Fuota.Nor Fuota.Fs Fuota.FlashAdapters

/-! ## flash facts: round trip on erased bytes, frame -/

/-- programming bytes onto an erased in-range region stores exactly these bytes -/
theorem read_prog_same (f : Flash) (a : Nat) (bs : List Nat) (hb : IsBytes bs) (hin : a + bs.length ≤ f.size)
    (he : Erased f a (a + bs.length)) : (f.apply (.program a bs)).read a bs.length = bs := by
  apply List.ext_getElem?
  intro i
  rw [getElem?_read]
  by_cases hi : i < bs.length
  · rw [if_pos hi, byte_apply_program_of_mem f a bs (a + i) hin (by omega) (by omega), he (a + i) (by omega) (by omega)]
    have : a + i - a = i := by omega
    simp only [this]
    rw [ff_and_of_lt (hb _ (List.getElem_mem hi)), List.getElem?_eq_getElem hi]
  · rw [if_neg hi, List.getElem?_eq_none (by omega)]

/-- a program leaves every read of a disjoint region unchanged -/
theorem read_prog_other (f : Flash) (a : Nat) (bs : List Nat) (b len : Nat)
    (h : b + len ≤ a ∨ a + bs.length ≤ b) : (f.apply (.program a bs)).read b len = f.read b len := by
  apply read_congr
  intro x h1 h2
  exact byte_apply_program_of_not_mem f a bs x (by omega)

/-- a program keeps a disjoint region erased -/
theorem erased_prog_other {f : Flash} {b e : Nat} (he : Erased f b e) (a : Nat) (bs : List Nat)
    (h : e ≤ a ∨ a + bs.length ≤ b) : Erased (f.apply (.program a bs)) b e := by
  intro x h1 h2
  rw [byte_apply_program_of_not_mem f a bs x (by omega)]
  exact he x h1 h2

/-- reads of a well-formed flash are byte lists -/
theorem isBytes_read {f : Flash} (h : WF f) (a len : Nat) : IsBytes (f.read a len) := by
  intro b hb
  simp only [Flash.read, List.mem_map] at hb
  obtain ⟨i, _, rfl⟩ := hb
  exact h _

/-! ## geometry of a session -/

/-- first address of the firmware slot -/
def fwBase (u : Upd) : Nat := u.fw.idx * u.fw.size
/-- first address of the parity slot -/
def parBase (u : Upd) : Nat := u.par.idx * u.par.size
/-- address of data segment `i` -/
def segAddr (u : Upd) (i : Nat) : Nat := fwBase u + 17408 + i * u.bs
/-- address of the written-status byte of segment `i` -/
def statAddr (u : Upd) (i : Nat) : Nat := fwBase u + 1024 + i
/-- address of parity block `m` -/
def pAddr (u : Upd) (m : Nat) : Nat := parBase u + 1024 + m * u.bs
/-- address of matrix row `m` -/
def rAddr (u : Upd) (m : Nat) : Nat := parBase u + 1024 + u.matrixOffset + rowOff m

/-- the static part of a session: an accepted geometry, two different slots inside a device of `fsz` bytes, the
    capacity and matrix offset `start_update` computes, the firmware slot's cached segment size -/
structure Geo (u : Upd) (fsz : Nat) : Prop where
  hbs : 1 ≤ u.bs ∧ u.bs ≤ 256
  hn : 1 ≤ u.n ∧ u.n ≤ 16384
  hfit : u.bs * u.n ≤ u.fw.size - 17408
  hsz : u.par.size = u.fw.size
  hmaxL : u.maxL = capacity u.fw.size u.bs
  hmo : u.matrixOffset = u.maxL * u.bs
  hne : u.fw.idx ≠ u.par.idx
  hfwin : (u.fw.idx + 1) * u.fw.size ≤ fsz
  hparin : (u.par.idx + 1) * u.par.size ≤ fsz
  hseg : u.fw.segSize = some u.bs

/-- the linear facts about the slots that everything else is derived from -/
theorem Geo.slots {u : Upd} {fsz : Nat} (g : Geo u fsz) :
    17408 < u.fw.size ∧ u.par.size = u.fw.size ∧ fwBase u + u.fw.size ≤ fsz ∧ parBase u + u.fw.size ≤ fsz ∧
    (fwBase u + u.fw.size ≤ parBase u ∨ parBase u + u.fw.size ≤ fwBase u) ∧ u.maxL < 2048 ∧
    u.maxL * u.bs + rowOff u.maxL ≤ u.fw.size - 17408 := by
  have h1 : 1 ≤ u.bs * u.n := Nat.mul_le_mul g.hbs.1 g.hn.1
  have hfit := g.hfit
  have hfw := g.hfwin
  have hpar := g.hparin
  rw [g.hsz] at hpar
  have e1 : (u.fw.idx + 1) * u.fw.size = fwBase u + u.fw.size := by simp [fwBase, Nat.add_mul]
  have e2 : (u.par.idx + 1) * u.fw.size = parBase u + u.fw.size := by simp [parBase, Nat.add_mul, g.hsz]
  have hcap := C15.capacity_spec u.fw.size u.bs
  have hfits : C15.need u.bs (capacity u.fw.size u.bs) ≤ u.fw.size - 17408 :=
    (hcap.2 _ hcap.1).2 (Nat.le_refl _)
  refine ⟨by omega, g.hsz, by omega, by omega, ?_, by rw [g.hmaxL]; exact hcap.1, ?_⟩
  · rcases Nat.lt_or_gt_of_ne g.hne with h | h
    · left
      have : (u.fw.idx + 1) * u.fw.size ≤ u.par.idx * u.fw.size := Nat.mul_le_mul_right _ h
      simp only [parBase, g.hsz]; omega
    · right
      have : (u.par.idx + 1) * u.fw.size ≤ u.fw.idx * u.fw.size := Nat.mul_le_mul_right _ h
      simp only [fwBase]; omega
  · rw [g.hmaxL]; unfold C15.need at hfits; omega

/-- data segment `i < n` lies inside the data region of the firmware slot -/
theorem Geo.seg {u : Upd} {fsz : Nat} (g : Geo u fsz) {i : Nat} (hi : i < u.n) :
    i * u.bs + u.bs ≤ u.fw.size - 17408 ∧ i ≤ 16384 := by
  have h1 : (i + 1) * u.bs ≤ u.n * u.bs := Nat.mul_le_mul_right _ hi
  have h2 := g.hfit
  have h3 := g.hn
  rw [Nat.mul_comm u.bs u.n] at h2
  rw [Nat.add_mul] at h1
  omega

/-- two different segments do not overlap -/
theorem seg_disjoint (bs : Nat) {i j : Nat} (h : i ≠ j) : i * bs + bs ≤ j * bs ∨ j * bs + bs ≤ i * bs := by
  rcases Nat.lt_or_gt_of_ne h with h | h
  · left; have : (i + 1) * bs ≤ j * bs := Nat.mul_le_mul_right _ h
    rw [Nat.add_mul] at this; omega
  · right; have : (j + 1) * bs ≤ i * bs := Nat.mul_le_mul_right _ h
    rw [Nat.add_mul] at this; omega

/-- parity block `m < maxL` lies below the matrix area -/
theorem Geo.pblock {u : Upd} {fsz : Nat} (_g : Geo u fsz) {m : Nat} (hm : m < u.maxL) :
    m * u.bs + u.bs ≤ u.maxL * u.bs := by
  have h1 : (m + 1) * u.bs ≤ u.maxL * u.bs := Nat.mul_le_mul_right _ hm
  rw [Nat.add_mul] at h1
  omega

/-- matrix row `m < maxL` lies inside the matrix area and is at most 256 bytes long -/
theorem Geo.row {u : Upd} {fsz : Nat} (g : Geo u fsz) {m : Nat} (hm : m < u.maxL) :
    rowOff m + (m / 8 + 1) ≤ rowOff u.maxL ∧ m / 8 + 1 ≤ 256 := by
  have := C15.rowOff_mono (show m + 1 ≤ u.maxL from hm)
  rw [C15.rowOff_succ] at this
  have := g.slots.2.2.2.2.2.1
  omega

/-- two different rows do not overlap -/
theorem row_disjoint {i j : Nat} (h : i ≠ j) :
    rowOff i + (i / 8 + 1) ≤ rowOff j ∨ rowOff j + (j / 8 + 1) ≤ rowOff i := by
  rcases Nat.lt_or_gt_of_ne h with h | h
  · left; have := C15.rowOff_mono (show i + 1 ≤ j from h); rw [C15.rowOff_succ] at this; omega
  · right; have := C15.rowOff_mono (show j + 1 ≤ i from h); rw [C15.rowOff_succ] at this; omega

/-! ## the data store: `read_segment` / `write_segment` -/

/-- `read_segment i` returns the `bs` bytes at the segment's address -/
theorem readSegment_run {u : Upd} {d : Dev} (g : Geo u d.flash.size) (hG : Good d) {i : Nat} (hi : i < u.n) :
    (u.fw.readSegment i u.bs).run d = (.ok (d.flash.read (segAddr u i) u.bs), d) := by
  obtain ⟨h1, h2, h3, _⟩ := g.slots
  obtain ⟨h4, h5⟩ := g.seg hi
  have hbs := g.hbs
  unfold Slot.readSegment Slot.segmentSize
  have e1 : ¬ i > MAX_SEGMENTS := by show ¬ i > 16384; omega
  have e2 : ¬ (DATA_REGION_OFFSET + i * u.bs > u.fw.size) := by show ¬ (17408 + i * u.bs > u.fw.size); omega
  have e3 : ¬ u.bs = 0 := by omega
  have ea : u.fw.idx * u.fw.size + (DATA_REGION_OFFSET + i * u.bs) = segAddr u i := by
    simp only [segAddr, fwBase]; show _ + (17408 + _) = _; omega
  simp only [g.hseg, run_bind, run_pure, e1, e2, e3, ↓reduceIte, Nat.min_self, ea]
  rw [readTo_run hG _ _ (by simp only [segAddr]; omega)]

/-- the device after `write_segment i buf`: the bytes, then the written mark -/
def afterWriteSegment (u : Upd) (d : Dev) (i : Nat) (buf : List Nat) : Dev :=
  (d.prog (segAddr u i) buf).prog (statAddr u i) [0x33]

/-- `write_segment i buf` programs the bytes at the segment's address and then the written mark; the slot handle
    is returned unchanged -/
theorem writeSegment_run {u : Upd} {d : Dev} (g : Geo u d.flash.size) (hG : Good d) {i : Nat} (hi : i < u.n)
    (buf : List Nat) (hlen : buf.length = u.bs) :
    (u.fw.writeSegment i buf).run d = (.ok u.fw, afterWriteSegment u d i buf) := by
  obtain ⟨h1, h2, h3, _⟩ := g.slots
  obtain ⟨h4, h5⟩ := g.seg hi
  have hbs := g.hbs
  have hn := g.hn
  unfold Slot.writeSegment Slot.segmentSizeMut Slot.markSegmentWritten
  have e1 : ¬ i > MAX_SEGMENTS := by show ¬ i > 16384; omega
  have e2 : ¬ (DATA_REGION_OFFSET + i * u.bs > u.fw.size) := by show ¬ (17408 + i * u.bs > u.fw.size); omega
  have e3 : ¬ u.bs = 0 := by omega
  have e4 : ¬ (WRITTEN_OFFSET + i > u.fw.size) := by show ¬ (1024 + i > u.fw.size); omega
  have e5 : ¬ u.bs ≠ buf.length := by omega
  have ea : u.fw.idx * u.fw.size + (DATA_REGION_OFFSET + i * u.bs) = segAddr u i := by
    simp only [segAddr, fwBase]; show _ + (17408 + _) = _; omega
  have eb : u.fw.idx * u.fw.size + (WRITTEN_OFFSET + i) = statAddr u i := by
    simp only [statAddr, fwBase]; show _ + (1024 + _) = _; omega
  simp only [g.hseg, run_bind, run_pure, e1, e2, e3, e4, e5, ↓reduceIte, ea, eb]
  rw [writeFrom_run hG _ _ (by simp only [segAddr]; omega)]
  simp only
  rw [writeFrom_run (hG.prog _ _) _ _ (by rw [Dev.prog_size]; simp only [statAddr, List.length_singleton]; omega)]
  rfl

/-! ## the parity store: `pGet` / `pStore` -/

/-- `pGet m` returns the `bs` bytes at the block's address -/
theorem pGet_run {u : Upd} {d : Dev} (g : Geo u d.flash.size) (hG : Good d) {m : Nat} (hm : m < u.maxL) :
    (pGet u m u.bs).run d = (.ok (d.flash.read (pAddr u m) u.bs), d) := by
  obtain ⟨h1, h2, _, h3, _, _, h4⟩ := g.slots
  have h5 := g.pblock hm
  unfold pGet Slot.readRaw
  have e1 : ¬ (u.par.size - HEADER_SIZE < m * u.bs + u.bs) := by
    show ¬ (u.par.size - 1024 < m * u.bs + u.bs); omega
  have ea : u.par.idx * u.par.size + HEADER_SIZE + m * u.bs = pAddr u m := by
    simp only [pAddr, parBase]; rfl
  simp only [hm, not_true_eq_false, e1, ↓reduceIte, ea]
  rw [readTo_run hG _ _ (by simp only [pAddr]; omega)]

/-- `pStore m buf` programs the bytes at the block's address -/
theorem pStore_run {u : Upd} {d : Dev} (g : Geo u d.flash.size) (hG : Good d) {m : Nat} (hm : m < u.maxL)
    (buf : List Nat) (hlen : buf.length = u.bs) :
    (pStore u m buf).run d = (.ok (), d.prog (pAddr u m) buf) := by
  obtain ⟨h1, h2, _, h3, _, _, h4⟩ := g.slots
  have h5 := g.pblock hm
  unfold pStore Slot.writeRaw
  have e1 : ¬ (u.par.size - HEADER_SIZE < m * buf.length + buf.length) := by
    rw [hlen]; show ¬ (u.par.size - 1024 < m * u.bs + u.bs); omega
  have ea : u.par.idx * u.par.size + HEADER_SIZE + m * buf.length = pAddr u m := by
    rw [hlen]; simp only [pAddr, parBase]; rfl
  simp only [hm, not_true_eq_false, e1, ↓reduceIte, ea]
  rw [writeFrom_run hG _ _ (by simp only [pAddr]; omega)]

/-! ## the matrix store: `mRow` / `mSetRow` -/

/-- the bytes `mSetRow m row` programs: the low `m/8+1` bytes of the row with bit `m` inverted -/
def rowBytes (m row : Nat) : List Nat := flipBit (natToBytes (row % 2 ^ (8 * (m / 8 + 1))) (m / 8 + 1)) m

/-- `mRow m` returns the number stored in the `m/8+1` bytes at the row's address, bit `m` inverted back -/
theorem mRow_run {u : Upd} {d : Dev} (g : Geo u d.flash.size) (hG : Good d) {m : Nat} (hm : m < u.maxL) :
    (mRow u m).run d = (.ok (bytesToNat (flipBit (d.flash.read (rAddr u m) (m / 8 + 1)) m)), d) := by
  obtain ⟨h1, h2, _, h3, _, _, h4⟩ := g.slots
  obtain ⟨h5, h6⟩ := g.row hm
  have hmo := g.hmo
  unfold mRow Slot.readRaw
  have e0 : ¬ (m / 8 + 1 > 256) := by omega
  have e1 : ¬ (u.par.size - HEADER_SIZE < u.matrixOffset + rowOff m + (m / 8 + 1)) := by
    show ¬ (u.par.size - 1024 < _); omega
  have ea : u.par.idx * u.par.size + HEADER_SIZE + (u.matrixOffset + rowOff m) = rAddr u m := by
    simp only [rAddr, parBase]; show _ + 1024 + _ = _; omega
  simp only [hm, not_true_eq_false, run_bind, run_pure, e0, e1, ↓reduceIte, ea]
  rw [readTo_run hG _ _ (by simp only [rAddr]; omega)]

/-- `mSetRow m row` programs `rowBytes m row` at the row's address -/
theorem mSetRow_run {u : Upd} {d : Dev} (g : Geo u d.flash.size) (hG : Good d) {m : Nat} (hm : m < u.maxL)
    (row : Nat) : (mSetRow u m row).run d = (.ok (), d.prog (rAddr u m) (rowBytes m row)) := by
  obtain ⟨h1, h2, _, h3, _, _, h4⟩ := g.slots
  obtain ⟨h5, h6⟩ := g.row hm
  have hmo := g.hmo
  have hlen : (rowBytes m row).length = m / 8 + 1 := by simp [rowBytes, length_flipBit, length_natToBytes]
  unfold mSetRow Slot.writeRaw
  have e0 : ¬ (m / 8 + 1 > 256) := by omega
  have e1 : ¬ (u.par.size - HEADER_SIZE < u.matrixOffset + rowOff m + (rowBytes m row).length) := by
    rw [hlen]; show ¬ (u.par.size - 1024 < _); omega
  have ea : u.par.idx * u.par.size + HEADER_SIZE + (u.matrixOffset + rowOff m) = rAddr u m := by
    simp only [rAddr, parBase]; show _ + 1024 + _ = _; omega
  unfold rowBytes at e1
  simp only [hm, not_true_eq_false, e0, e1, ↓reduceIte, ea]
  show ExceptT.run (writeFrom (rAddr u m) (rowBytes m row)) d = _
  rw [writeFrom_run hG _ _ (by rw [hlen]; simp only [rAddr]; omega)]

/-- a row without bits above `m` is read back unchanged from the bytes `mSetRow` writes -/
theorem bytesToNat_rowBytes (m row : Nat) (h : ∀ j, m < j → row.testBit j = false) :
    bytesToNat (flipBit (rowBytes m row) m) = row := by
  unfold rowBytes
  rw [flipBit_flipBit, bytesToNat_natToBytes]
  have e : (256 : Nat) ^ (m / 8 + 1) = 2 ^ (8 * (m / 8 + 1)) := by
    rw [show (256 : Nat) = 2 ^ 8 by rfl, ← Nat.pow_mul]
  rw [e, Nat.mod_mod]
  apply Nat.mod_eq_of_lt
  apply Nat.lt_pow_two_of_testBit
  intro i hi
  exact h i (by omega)

/-- the bytes `mSetRow` writes are bytes, `m/8+1` of them -/
theorem rowBytes_spec (m row : Nat) : IsBytes (rowBytes m row) ∧ (rowBytes m row).length = m / 8 + 1 :=
  ⟨(isBytes_natToBytes _ _).flipBit m, by simp [rowBytes, length_flipBit, length_natToBytes]⟩

end Fuota.Updater
