import Fuota.Model.Slots
/-!
# Ring lemmas, part 1: `indexed`, and the "replace when better" scans

Every scan of the slot ring in the Rust code (`low`, `high`, `fallback_firmware_slot`, newest / second newest of
`try_recover_inner`) is a left fold that replaces its accumulator when the new entry is strictly better.
`bestBy r` is that fold; it is characterised pointwise here, and the model's scans are shown to be instances.
-/
namespace Fuota.Ring
open Fuota.Layout Fuota.Fs Fuota.Updater Fuota.Slots

/-- slot `i` is used and reads `h` -/
abbrev Used (hs : Hdrs) (i : Nat) (h : Header) : Prop := hs[i]? = some (some h)

/-! ## `indexed` -/

theorem mem_indexed {hs : Hdrs} {p : Nat × Header} : p ∈ indexed hs ↔ Used hs p.1 p.2 := by
  unfold indexed
  rw [List.mem_filterMap]
  constructor
  · rintro ⟨⟨o, i⟩, hm, hf⟩
    rw [List.mem_zipIdx_iff_getElem?] at hm
    cases o with
    | none => simp at hf
    | some h =>
      simp only [Option.map_some, Option.some.injEq] at hf
      subst hf
      exact hm
  · intro h
    refine ⟨(some p.2, p.1), ?_, by simp⟩
    rw [List.mem_zipIdx_iff_getElem?]
    exact h

theorem indexed_sorted (hs : Hdrs) : (indexed hs).Pairwise (fun p q => p.1 < q.1) := by
  unfold indexed
  have h1 : (hs.zipIdx).Pairwise (fun a b => a.2 < b.2) := by
    have := List.pairwise_lt_range' (s := 0) (n := hs.length) 1
    rw [← List.zipIdx_map_snd 0 hs, List.pairwise_map] at this
    exact this
  refine List.Pairwise.filterMap _ ?_ h1
  intro a a' hlt b hb b' hb'
  obtain ⟨o, i⟩ := a
  obtain ⟨o', i'⟩ := a'
  cases o <;> cases o' <;> simp at hb hb'
  subst hb; subst hb'
  exact hlt

theorem used_lt {hs : Hdrs} {i : Nat} {h : Header} (hu : Used hs i h) : i < hs.length := by
  have := (List.getElem?_eq_some_iff.mp hu).1
  exact this

/-- `Used` after one header-level effect -/
theorem used_set {hs : Hdrs} {i j : Nat} {v : Option Header} {h : Header} :
    Used (hs.set i v) j h ↔ (j = i ∧ i < hs.length ∧ v = some h) ∨ (j ≠ i ∧ Used hs j h) := by
  unfold Used
  rw [List.getElem?_set]
  by_cases hij : i = j
  · subst hij
    by_cases hl : i < hs.length
    · simp [hl]
    · simp [hl]
  · have : j ≠ i := fun h => hij h.symm
    simp [hij, this]

/-! ## the generic scan -/

/-- the step of a "replace when `r old new`" scan -/
def bestStep (r : Nat → Nat → Prop) [DecidableRel r] (acc : Option (Nat × Header)) (p : Nat × Header) :
    Option (Nat × Header) :=
  match acc with
  | none => some p
  | some q => if r q.2.seq p.2.seq then some p else acc

def bestBy (r : Nat → Nat → Prop) [DecidableRel r] (l : List (Nat × Header)) : Option (Nat × Header) :=
  l.foldl (bestStep r) none

/-- what the scans need of the comparison (`<` and `>` on `Nat` have both) -/
structure Scan (r : Nat → Nat → Prop) : Prop where
  trans : ∀ a b c, r a b → r b c → r a c
  neg : ∀ a b c, ¬ r a b → r a c → r b c

theorem scan_lt : Scan (fun a b : Nat => a < b) := ⟨by omega, by omega⟩
theorem scan_gt : Scan (fun a b : Nat => a > b) := ⟨by omega, by omega⟩

section
variable {r : Nat → Nat → Prop} [DecidableRel r]

theorem fold_some_ne_none (a : Nat × Header) (l : List (Nat × Header)) :
    l.foldl (bestStep r) (some a) ≠ none := by
  induction l generalizing a with
  | nil => simp
  | cons x l ih =>
    simp only [List.foldl_cons, bestStep]
    split
    · exact ih x
    · exact ih a

theorem bestBy_eq_none {l : List (Nat × Header)} : bestBy r l = none ↔ l = [] := by
  cases l with
  | nil => simp [bestBy]
  | cons x l =>
    simp only [bestBy, List.foldl_cons, bestStep, reduceCtorEq, iff_false]
    exact fold_some_ne_none x l

theorem fold_some_sound (hr : Scan r) (a p : Nat × Header) (l : List (Nat × Header))
    (h : l.foldl (bestStep r) (some a) = some p) :
    (p = a ∧ ∀ q ∈ l, ¬ r a.2.seq q.2.seq) ∨
    (∃ pre post, l = pre ++ p :: post ∧ r a.2.seq p.2.seq ∧ (∀ q ∈ pre, r q.2.seq p.2.seq) ∧
      ∀ q ∈ post, ¬ r p.2.seq q.2.seq) := by
  induction l generalizing a with
  | nil =>
    simp only [List.foldl_nil, Option.some.injEq] at h
    exact Or.inl ⟨h.symm, by simp⟩
  | cons x l ih =>
    simp only [List.foldl_cons, bestStep] at h
    by_cases hx : r a.2.seq x.2.seq
    · simp only [hx, ↓reduceIte] at h
      rcases ih x h with ⟨rfl, hall⟩ | ⟨pre, post, rfl, hxp, hpre, hpost⟩
      · exact Or.inr ⟨[], l, rfl, hx, by simp, hall⟩
      · refine Or.inr ⟨x :: pre, post, rfl, hr.trans _ _ _ hx hxp, ?_, hpost⟩
        intro q hq
        rcases List.mem_cons.mp hq with rfl | hq
        · exact hxp
        · exact hpre q hq
    · simp only [hx, ↓reduceIte] at h
      rcases ih a h with ⟨rfl, hall⟩ | ⟨pre, post, rfl, hap, hpre, hpost⟩
      · refine Or.inl ⟨rfl, ?_⟩
        intro q hq
        rcases List.mem_cons.mp hq with rfl | hq
        · exact hx
        · exact hall q hq
      · refine Or.inr ⟨x :: pre, post, rfl, hap, ?_, hpost⟩
        intro q hq
        rcases List.mem_cons.mp hq with rfl | hq
        · exact hr.neg _ _ _ hx hap
        · exact hpre q hq

/-- soundness: the answer of a scan is the first best entry -/
theorem bestBy_sound (hr : Scan r) {l : List (Nat × Header)} {p : Nat × Header} (h : bestBy r l = some p) :
    ∃ pre post, l = pre ++ p :: post ∧ (∀ q ∈ pre, r q.2.seq p.2.seq) ∧ ∀ q ∈ post, ¬ r p.2.seq q.2.seq := by
  cases l with
  | nil => simp [bestBy] at h
  | cons x l =>
    simp only [bestBy, List.foldl_cons, bestStep] at h
    rcases fold_some_sound hr x p l h with ⟨rfl, hall⟩ | ⟨pre, post, rfl, hxp, hpre, hpost⟩
    · exact ⟨[], l, rfl, by simp, hall⟩
    · refine ⟨x :: pre, post, rfl, ?_, hpost⟩
      intro q hq
      rcases List.mem_cons.mp hq with rfl | hq
      · exact hxp
      · exact hpre q hq

theorem fold_mem (acc : Option (Nat × Header)) (l : List (Nat × Header)) (q : Nat × Header)
    (h : l.foldl (bestStep r) acc = some q) : acc = some q ∨ q ∈ l := by
  induction l generalizing acc with
  | nil => exact Or.inl h
  | cons x l ih =>
    simp only [List.foldl_cons] at h
    rcases ih _ h with h' | h'
    · unfold bestStep at h'
      split at h'
      · simp only [Option.some.injEq] at h'; subst h'; exact Or.inr (by simp)
      · split at h'
        · simp only [Option.some.injEq] at h'; subst h'; exact Or.inr (by simp)
        · exact Or.inl h'
    · exact Or.inr (List.mem_cons_of_mem _ h')

theorem bestBy_mem {l : List (Nat × Header)} {p : Nat × Header} (h : bestBy r l = some p) : p ∈ l := by
  rcases fold_mem none l p h with h | h
  · cases h
  · exact h

theorem fold_stay (p : Nat × Header) (l : List (Nat × Header)) (h : ∀ q ∈ l, ¬ r p.2.seq q.2.seq) :
    l.foldl (bestStep r) (some p) = some p := by
  induction l with
  | nil => rfl
  | cons x l ih =>
    have hx := h x (by simp)
    simp only [List.foldl_cons, bestStep, hx, ↓reduceIte]
    exact ih (fun q hq => h q (List.mem_cons_of_mem _ hq))

/-- completeness: a first best entry is the answer -/
theorem bestBy_complete {pre post : List (Nat × Header)} {p : Nat × Header}
    (hpre : ∀ q ∈ pre, r q.2.seq p.2.seq) (hpost : ∀ q ∈ post, ¬ r p.2.seq q.2.seq) :
    bestBy r (pre ++ p :: post) = some p := by
  unfold bestBy
  rw [List.foldl_append, List.foldl_cons]
  have h1 : bestStep r (pre.foldl (bestStep r) none) p = some p := by
    cases hq : pre.foldl (bestStep r) none with
    | none => rfl
    | some q =>
      have hm : q ∈ pre := by
        rcases fold_mem none pre q hq with h | h
        · cases h
        · exact h
      simp [bestStep, hpre q hm]
  rw [h1]
  exact fold_stay p post hpost

/-- pointwise characterisation on a list sorted by slot index -/
theorem bestBy_iff (hr : Scan r) {l : List (Nat × Header)} (hs : l.Pairwise (fun p q => p.1 < q.1))
    {p : Nat × Header} :
    bestBy r l = some p ↔
      p ∈ l ∧ ∀ q ∈ l, (q.1 < p.1 → r q.2.seq p.2.seq) ∧ (p.1 < q.1 → ¬ r p.2.seq q.2.seq) := by
  constructor
  · intro h
    obtain ⟨pre, post, rfl, hpre, hpost⟩ := bestBy_sound hr h
    refine ⟨by simp, ?_⟩
    rw [List.pairwise_append] at hs
    obtain ⟨_, hs2, hs3⟩ := hs
    rw [List.pairwise_cons] at hs2
    intro q hq
    rcases List.mem_append.mp hq with hq | hq
    · have := hs3 q hq p (by simp)
      exact ⟨fun _ => hpre q hq, fun h' => by omega⟩
    · rcases List.mem_cons.mp hq with rfl | hq
      · exact ⟨fun h' => by omega, fun h' => by omega⟩
      · have := hs2.1 q hq
        exact ⟨fun h' => by omega, fun _ => hpost q hq⟩
  · rintro ⟨hm, hall⟩
    obtain ⟨pre, post, rfl⟩ := List.append_of_mem hm
    rw [List.pairwise_append] at hs
    obtain ⟨_, hs2, hs3⟩ := hs
    rw [List.pairwise_cons] at hs2
    apply bestBy_complete
    · intro q hq
      exact (hall q (by simp [hq])).1 (hs3 q hq p (by simp))
    · intro q hq
      exact (hall q (by simp [hq])).2 (hs2.1 q hq)

/-- the scans of the model keep `(index, seq)` instead of the entry: same fold, projected -/
theorem fold_proj (acc : Option (Nat × Header)) (l : List (Nat × Header)) :
    l.foldl (fun (a : Option (Nat × Nat)) (p : Nat × Header) =>
      match a with
      | none => some (p.1, p.2.seq)
      | some (_, s) => if r s p.2.seq then some (p.1, p.2.seq) else a) (acc.map fun p => (p.1, p.2.seq))
    = (l.foldl (bestStep r) acc).map fun p => (p.1, p.2.seq) := by
  induction l generalizing acc with
  | nil => rfl
  | cons x l ih =>
    simp only [List.foldl_cons]
    rw [← ih]
    congr 1
    cases acc with
    | none => rfl
    | some q =>
      simp only [Option.map_some, bestStep]
      split <;> rfl

end

/-! ## the scans of the model as instances -/

theorem highOf_eq (hs : Hdrs) :
    highOf hs = (bestBy (fun a b => a < b) (indexed hs)).map fun p => (p.1, p.2.seq) := by
  unfold highOf bestBy
  exact fold_proj (r := fun a b => a < b) none (indexed hs)

theorem lowOf_eq (hs : Hdrs) :
    lowOf hs = (bestBy (fun a b => a > b) (indexed hs)).map fun p => (p.1, p.2.seq) := by
  unfold lowOf bestBy
  exact fold_proj (r := fun a b => a > b) none (indexed hs)

/-- `high`: the first slot carrying the largest sequence number -/
theorem highOf_eq_some {hs : Hdrs} {i s : Nat} :
    highOf hs = some (i, s) ↔ ∃ h, Used hs i h ∧ h.seq = s ∧
      ∀ j h', Used hs j h' → (j < i → h'.seq < s) ∧ (i < j → h'.seq ≤ s) := by
  rw [highOf_eq]
  constructor
  · intro h
    rw [Option.map_eq_some_iff] at h
    obtain ⟨p, hp, he⟩ := h
    rw [bestBy_iff scan_lt (indexed_sorted hs)] at hp
    obtain ⟨hm, hall⟩ := hp
    simp only [Prod.mk.injEq] at he
    obtain ⟨rfl, rfl⟩ := he
    refine ⟨p.2, mem_indexed.mp hm, rfl, ?_⟩
    intro j h' hu
    have := hall (j, h') (mem_indexed.mpr hu)
    exact ⟨this.1, fun hlt => Nat.le_of_not_lt (this.2 hlt)⟩
  · rintro ⟨h, hu, rfl, hall⟩
    rw [Option.map_eq_some_iff]
    refine ⟨(i, h), ?_, rfl⟩
    rw [bestBy_iff scan_lt (indexed_sorted hs)]
    refine ⟨mem_indexed.mpr hu, ?_⟩
    intro q hq
    have := hall q.1 q.2 (mem_indexed.mp hq)
    exact ⟨this.1, fun hlt => Nat.not_lt.mpr (this.2 hlt)⟩

/-- `low`: the first slot carrying the smallest sequence number -/
theorem lowOf_eq_some {hs : Hdrs} {i s : Nat} :
    lowOf hs = some (i, s) ↔ ∃ h, Used hs i h ∧ h.seq = s ∧
      ∀ j h', Used hs j h' → (j < i → s < h'.seq) ∧ (i < j → s ≤ h'.seq) := by
  rw [lowOf_eq]
  constructor
  · intro h
    rw [Option.map_eq_some_iff] at h
    obtain ⟨p, hp, he⟩ := h
    rw [bestBy_iff scan_gt (indexed_sorted hs)] at hp
    obtain ⟨hm, hall⟩ := hp
    simp only [Prod.mk.injEq] at he
    obtain ⟨rfl, rfl⟩ := he
    refine ⟨p.2, mem_indexed.mp hm, rfl, ?_⟩
    intro j h' hu
    have := hall (j, h') (mem_indexed.mpr hu)
    exact ⟨this.1, fun hlt => Nat.le_of_not_lt (this.2 hlt)⟩
  · rintro ⟨h, hu, rfl, hall⟩
    rw [Option.map_eq_some_iff]
    refine ⟨(i, h), ?_, rfl⟩
    rw [bestBy_iff scan_gt (indexed_sorted hs)]
    refine ⟨mem_indexed.mpr hu, ?_⟩
    intro q hq
    have := hall q.1 q.2 (mem_indexed.mp hq)
    exact ⟨this.1, fun hlt => Nat.not_lt.mpr (this.2 hlt)⟩

theorem highOf_eq_none {hs : Hdrs} : highOf hs = none ↔ ∀ i h, ¬ Used hs i h := by
  rw [highOf_eq, Option.map_eq_none_iff, bestBy_eq_none]
  constructor
  · intro h i hd hu
    have := (mem_indexed (p := (i, hd))).mpr hu
    rw [h] at this
    cases this
  · intro h
    apply List.eq_nil_iff_forall_not_mem.mpr
    intro p hp
    exact h p.1 p.2 (mem_indexed.mp hp)

theorem lowOf_eq_none {hs : Hdrs} : lowOf hs = none ↔ ∀ i h, ¬ Used hs i h := by
  rw [lowOf_eq, Option.map_eq_none_iff, bestBy_eq_none]
  constructor
  · intro h i hd hu
    have := (mem_indexed (p := (i, hd))).mpr hu
    rw [h] at this
    cases this
  · intro h
    apply List.eq_nil_iff_forall_not_mem.mpr
    intro p hp
    exact h p.1 p.2 (mem_indexed.mp hp)

end Fuota.Ring
