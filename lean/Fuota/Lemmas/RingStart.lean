import Fuota.Lemmas.RingArc
/-!
# Ring lemmas, part 8: `start_update` preserves the ring invariant (all five branches of `choosePair`)
-/
namespace Fuota.Ring
open Fuota.Layout Fuota.Fs Fuota.Updater Fuota.Slots

/-! ## ring-offset arithmetic -/

theorem off_succ {n low high : Nat} (hl : low < n) (hh : high < n) (h : off n low high + 1 < n) :
    off n low ((high + 1) % n) = off n low high + 1 := by
  unfold off at *
  have a := succ_cases n high hh
  have b := off_cases n low high hh hl
  have c := off_cases n low ((high + 1) % n) (Nat.mod_lt _ (by omega)) hl
  omega

theorem off_succ_wrap {n low high : Nat} (hl : low < n) (hh : high < n) (h : off n low high + 1 = n) :
    (high + 1) % n = low := by
  unfold off at *
  have a := succ_cases n high hh
  have b := off_cases n low high hh hl
  omega

theorem off_succ2 {n low high : Nat} (hl : low < n) (hh : high < n) (h : off n low high + 2 < n) :
    off n low ((high + 2) % n) = off n low high + 2 := by
  unfold off at *
  have a := succ2_cases n high hh (by omega)
  have b := off_cases n low high hh hl
  have c := off_cases n low ((high + 2) % n) (Nat.mod_lt _ (by omega)) hl
  omega

theorem off_succ2_wrap {n low high : Nat} (hl : low < n) (hh : high < n) (h : off n low high + 2 = n) :
    (high + 2) % n = low := by
  unfold off at *
  have a := succ2_cases n high hh (by omega)
  have b := off_cases n low high hh hl
  omega

theorem off_succ2_wrap1 {n low high : Nat} (hn : 2 ≤ n) (hl : low < n) (hh : high < n) (h : off n low high + 1 = n) :
    (high + 2) % n = (low + 1) % n := by
  unfold off at *
  have a := succ2_cases n high hh (by omega)
  have a' := succ_cases n low hl
  have b := off_cases n low high hh hl
  omega

theorem off_pred {n low high : Nat} (hl : low < n) (hh : high < n) (h : 1 ≤ off n low high) :
    off n low ((high + n - 1) % n) + 1 = off n low high := by
  unfold off at *
  have a := pred_cases n high hh
  have b := off_cases n low high hh hl
  have c := off_cases n low ((high + n - 1) % n) (Nat.mod_lt _ (by omega)) hl
  omega

theorem off_self {n low : Nat} (hl : low < n) : off n low low = 0 := by
  unfold off
  have b := off_cases n low low hl hl
  omega

theorem off_one {n low : Nat} (hn : 2 ≤ n) (hl : low < n) : off n low ((low + 1) % n) = 1 := by
  unfold off
  have a := succ_cases n low hl
  have c := off_cases n low ((low + 1) % n) (Nat.mod_lt _ (by omega)) hl
  omega

theorem off_two {n low : Nat} (hn : 3 ≤ n) (hl : low < n) : off n low ((low + 2) % n) = 2 := by
  unfold off
  have a := succ2_cases n low hl (by omega)
  have c := off_cases n low ((low + 2) % n) (Nat.mod_lt _ (by omega)) hl
  omega

/-- offset of `j` seen from `c'`, when `c'` lies `m` after `low` -/
theorem off_back {n low c' j : Nat} (hl : low < n) (hc : c' < n) (hj : j < n)
    (h : off n low j < off n low c') : off n c' j + off n low c' = off n low j + n := by
  unfold off at *
  have a := off_cases n low c' hc hl
  have b := off_cases n low j hj hl
  have d := off_cases n c' j hj hc
  omega


/-! ## writing a header beyond all used slots; moving the cut -/

/-- a header written into slot `i`, beyond every used slot as seen from the cut, with a large enough number -/
theorem GapSorted.write {n : Nat} {hs : Hdrs} {c i : Nat} {h : Header} (hg : GapSorted n hs c)
    (hall : ∀ j h', Used hs j h' → j ≠ i → off n c j < off n c i ∧ h'.seq + (off n c i - off n c j) ≤ h.seq) :
    GapSorted n (hs.set i (some h)) c := by
  intro j1 h1 j2 h2 hu1 hu2 hlt
  rcases used_set.mp hu1 with ⟨rfl, _, e1⟩ | ⟨hne1, hu1'⟩ <;>
    rcases used_set.mp hu2 with ⟨rfl, _, e2⟩ | ⟨hne2, hu2'⟩
  · omega
  · have := (hall j2 h2 hu2' hne2).1; omega
  · simp only [Option.some.injEq] at e2
    subst e2
    exact (hall j1 h1 hu1' hne1).2
  · exact hg j1 h1 j2 h2 hu1' hu2' hlt

/-- moving the cut forward past no used slot -/
theorem GapSorted.recut {n : Nat} {hs : Hdrs} {c c' : Nat} (hlen : hs.length = n) (hc : c < n) (hc' : c' < n)
    (hg : GapSorted n hs c) (hall : ∀ j h, Used hs j h → off n c c' ≤ off n c j) : GapSorted n hs c' := by
  intro i h j h' hu hu' hlt
  have hin : i < n := hlen ▸ used_lt hu
  have hjn : j < n := hlen ▸ used_lt hu'
  have e1 := off_recut hc hc' hin (hall i h hu)
  have e2 := off_recut hc hc' hjn (hall j h' hu')
  have := hg i h j h' hu hu' (by omega)
  omega

/-- what `start_update` needs of the arrangement after its two erases -/
structure StartOK (n : Nat) (hs2 : Hdrs) (a b sa sb : Nat) : Prop where
  ab : a ≠ b
  an : a < n
  bn : b < n
  cut : ∃ c, c < n ∧ GapSorted n hs2 c ∧
    (∀ j h', Used hs2 j h' → off n c j < off n c a ∧ h'.seq + (off n c a - off n c j) ≤ sa) ∧
    off n c a < off n c b ∧ sa + (off n c b - off n c a) ≤ sb

theorem seqNext_eq {s : Nat} (h : s + 1 < 0xFFFFFFFF) : seqNext s = s + 1 := by
  unfold seqNext
  have : ¬ (s + 1 = 0xFFFFFFFF) := by omega
  simp [this]

theorem used_erase2 {hs : Hdrs} {a b j : Nat} {h : Header} (hu : Used ((hs.set b none).set a none) j h) :
    j ≠ a ∧ j ≠ b ∧ Used hs j h := by
  rcases used_set.mp hu with ⟨_, _, e⟩ | ⟨hne, hu'⟩
  · cases e
  · rcases used_set.mp hu' with ⟨_, _, e⟩ | ⟨hne', hu''⟩
    · cases e
    · exact ⟨hne, hne', hu''⟩

theorem getD_eq_some {hs : Hdrs} {i : Nat} {h : Header} : hs.getD i none = some h ↔ Used hs i h := by
  unfold Used
  rw [List.getD_eq_getElem?_getD]
  cases hs[i]? with
  | none => simp
  | some o => simp

theorem getD_eq_none {hs : Hdrs} {i : Nat} : hs.getD i none = none ↔ ∀ h, ¬ Used hs i h := by
  unfold Used
  rw [List.getD_eq_getElem?_getD]
  cases hs[i]? with
  | none => simp
  | some o => cases o <;> simp

theorem start_ok {n : Nat} (hn : 4 ≤ n) {hs : Hdrs} (hinv : RingInv n hs) (hroom : SeqRoom 2 hs)
    {a b sa sb : Nat} (hc : choosePair n hs = .ok (a, b, sa, sb)) :
    StartOK n ((hs.set b none).set a none) a b sa sb := by
  obtain ⟨hlen, harc, hseq⟩ := hinv
  have hlen2 : ((hs.set b none).set a none).length = n := by simp [hlen]
  rw [choosePair_unfold] at hc
  cases hl : lowOf hs with
  | none =>
    rw [hl] at hc
    simp only [Except.ok.injEq, Prod.mk.injEq] at hc
    obtain ⟨rfl, rfl, rfl, rfl⟩ := hc
    refine ⟨by omega, by omega, by omega, 0, by omega, ?_, ?_, ?_, ?_⟩
    · intro i h _ _ hu
      exact absurd (used_erase2 hu).2.2 (lowOf_eq_none.mp hl i h)
    · intro j h' hu
      exact absurd (used_erase2 hu).2.2 (lowOf_eq_none.mp hl j h')
    · unfold off; simp; rw [Nat.mod_eq_of_lt (by omega)]; omega
    · unfold off; simp
      rw [Nat.mod_eq_of_lt (by omega : 1 < n)]
      exact Nat.le_refl _
  | some p =>
    obtain ⟨low, ls⟩ := p
    obtain ⟨hlo, hlou, hls, hmin⟩ := lowOf_eq_some.mp hl
    obtain ⟨-, ⟨high, hsq, hh⟩⟩ := scans_of_used hlou
    obtain ⟨hhi, hhiu, hhs, hmax⟩ := highOf_eq_some.mp hh
    have hlown : low < n := hlen ▸ used_lt hlou
    have hhighn : high < n := hlen ▸ used_lt hhiu
    have harc' := (arcInv_iff hl hh).mp harc
    have hgl : GapSorted n hs low := (seqInv_iff' hl).mp hseq
    have hgl2 : GapSorted n ((hs.set b none).set a none) low :=
      hgl.mono (fun j h' hu => ⟨h', (used_erase2 hu).2.2, rfl⟩)
    have hroomh : hsq + 2 < 0xFFFFFFFF := by
      have := hroom (high, hhi) (mem_indexed.mpr hhiu)
      simp only [hhs] at this
      exact this
    have hn1 : seqNext hsq = hsq + 1 := seqNext_eq (by omega)
    have hn2 : seqNext (hsq + 1) = hsq + 2 := seqNext_eq (by omega)
    -- every used slot: on the arc, and its number is far enough below the newest one
    have hbelow : ∀ j h', Used hs j h' → j ≠ high →
        off n low j < off n low high ∧ h'.seq + (off n low high - off n low j) ≤ hsq := by
      intro j h' hu hne
      have h1 := harc' j h' hu
      have hjn : j < n := hlen ▸ used_lt hu
      have h2 : off n low j ≠ off n low high := fun e => hne (off_inj' hlown hjn hhighn e)
      have h3 : off n low j < off n low high := by omega
      have := hgl j h' high hhi hu hhiu h3
      rw [hhs] at this
      exact ⟨h3, this⟩
    have hdn : off n low high < n := off_lt hlown hhighn
    have hbelow' : ∀ j h', Used hs j h' →
        off n low j ≤ off n low high ∧ h'.seq + (off n low high - off n low j) ≤ hsq ∧
        (j ≠ high → off n low j < off n low high) := by
      intro j h' hu
      by_cases hj : j = high
      · subst hj
        have e : hs[j]? = some (some h') := hu
        rw [show hs[j]? = some (some hhi) from hhiu] at e
        simp only [Option.some.injEq] at e
        subst e
        refine ⟨Nat.le_refl _, by omega, fun h => absurd rfl h⟩
      · have := hbelow j h' hu hj
        exact ⟨by omega, this.2, fun _ => this.1⟩
    rw [hl, hh] at hc
    simp only at hc
    have hoff : (high + n - low) % n = off n low high := rfl
    rw [hoff] at hc
    by_cases c1 : off n low high + 3 ≤ n
    · -- two free slots after the newest
      simp only [c1, ↓reduceIte, Except.ok.injEq, Prod.mk.injEq] at hc
      obtain ⟨rfl, rfl, rfl, rfl⟩ := hc
      have ea := off_succ hlown hhighn (by omega)
      have eb := off_succ2 hlown hhighn (by omega)
      rw [hn1, hn2]
      refine ⟨?_, Nat.mod_lt _ (by omega), Nat.mod_lt _ (by omega), low, hlown, hgl2, ?_, by omega, by omega⟩
      · intro e; rw [e] at ea; omega
      · intro j h' hu
        have := hbelow' j h' (used_erase2 hu).2.2
        omega
    · simp only [c1, ↓reduceIte] at hc
      by_cases c2 : off n low high + 2 = n
      · simp only [c2, ↓reduceIte] at hc
        by_cases c3 : (fallbackSlot hs).getD low = low
        · -- one free slot, fallback is the oldest: reuse the newest slot and the free one
          simp only [c3, ↓reduceIte, Except.ok.injEq, Prod.mk.injEq] at hc
          obtain ⟨rfl, rfl, rfl, rfl⟩ := hc
          have eb := off_succ hlown hhighn (by omega)
          rw [hn1]
          refine ⟨?_, hhighn, Nat.mod_lt _ (by omega), low, hlown, hgl2, ?_, by omega, by omega⟩
          · intro e; rw [← e] at eb; omega
          · intro j h' hu
            obtain ⟨hja, _, hu0⟩ := used_erase2 hu
            have := hbelow' j h' hu0
            have := this.2.2 hja
            omega
        · -- one free slot, the oldest slot may go
          simp only [c3, ↓reduceIte, Except.ok.injEq, Prod.mk.injEq] at hc
          obtain ⟨rfl, rfl, rfl, rfl⟩ := hc
          have ea := off_succ hlown hhighn (by omega)
          have eb := off_succ2_wrap hlown hhighn c2
          rw [hn1, hn2]
          have hc'n : (low + 1) % n < n := Nat.mod_lt _ (by omega)
          have e1 := off_one (by omega : 2 ≤ n) hlown
          have hlowj : ∀ j h', Used ((hs.set ((high + 2) % n) none).set ((high + 1) % n) none) j h' →
              1 ≤ off n low j := by
            intro j h' hu
            obtain ⟨_, hjb, hu0⟩ := used_erase2 hu
            rw [eb] at hjb
            have hjn : j < n := hlen ▸ used_lt hu0
            apply Nat.pos_of_ne_zero
            intro e0
            exact hjb (off_inj' hlown hjn hlown (by rw [e0, off_self hlown]))
          have hg' : GapSorted n ((hs.set ((high + 2) % n) none).set ((high + 1) % n) none) ((low + 1) % n) := by
            apply hgl2.recut hlen2 hlown hc'n
            intro j h' hu
            rw [e1]; exact hlowj j h' hu
          have han : (high + 1) % n < n := Nat.mod_lt _ (by omega)
          have ea' := off_recut hlown hc'n han (by omega)
          have eb' := off_back hlown hc'n hlown (by rw [off_self hlown]; omega)
          rw [off_self hlown] at eb'
          refine ⟨?_, han, Nat.mod_lt _ (by omega), (low + 1) % n, hc'n, hg', ?_, ?_, ?_⟩
          · intro e; rw [e, eb, off_self hlown] at ea; omega
          · intro j h' hu
            have h1 := hlowj j h' hu
            obtain ⟨_, _, hu0⟩ := used_erase2 hu
            have hjn : j < n := hlen ▸ used_lt hu0
            have ej := off_recut hlown hc'n hjn (by omega)
            have := hbelow' j h' hu0
            omega
          · rw [eb]; omega
          · rw [eb]; omega
      · simp only [c2, ↓reduceIte] at hc
        have c3 : off n low high + 1 = n := by omega
        by_cases c4 : (high + 1) % n = (fallbackSlot hs).getD low ∨ (high + 2) % n = (fallbackSlot hs).getD low
        · -- full ring, fallback in one of the two oldest slots: reuse the newest pair
          simp only [c4, ↓reduceIte] at hc
          have ea := off_pred hlown hhighn (by omega)
          have han : (high + n - 1) % n < n := Nat.mod_lt _ (by omega)
          have hcommon : ∀ x, (∀ j h', Used hs j h' → j ≠ (high + n - 1) % n → j ≠ high →
              h'.seq + (off n low ((high + n - 1) % n) - off n low j) ≤ x) → x + 1 ≤ hsq →
              StartOK n ((hs.set high none).set ((high + n - 1) % n) none) ((high + n - 1) % n) high x hsq := by
            intro x hx hx1
            refine ⟨?_, han, hhighn, low, hlown, ?_, ?_, by omega, by omega⟩
            · intro e; rw [e] at ea; omega
            · exact hgl.mono (fun j h' hu => ⟨h', (used_erase2 hu).2.2, rfl⟩)
            · intro j h' hu
              obtain ⟨hja, hjb, hu0⟩ := used_erase2 hu
              have hjn : j < n := hlen ▸ used_lt hu0
              have h1 := hbelow' j h' hu0
              have h2 := h1.2.2 hjb
              have h3 : off n low j ≠ off n low ((high + n - 1) % n) := fun e => hja (off_inj' hlown hjn han e)
              have := hx j h' hu0 hja hjb
              omega
          split at hc
          · rename_i hnone
            simp only [Except.ok.injEq, Prod.mk.injEq] at hc
            obtain ⟨rfl, rfl, rfl, rfl⟩ := hc
            have hlowseq := hbelow' low hlo hlou
            rw [off_self hlown] at hlowseq
            apply hcommon
            · intro j h' hu hja hjb
              have h1 := hbelow' j h' hu
              have h2 := h1.2.2 hjb
              omega
            · omega
          · rename_i hfirst hsome
            simp only [Except.ok.injEq, Prod.mk.injEq] at hc
            obtain ⟨rfl, rfl, rfl, rfl⟩ := hc
            have hua := getD_eq_some.mp hsome
            apply hcommon
            · intro j h' hu hja hjb
              have h1 := hbelow' j h' hu
              have h2 := h1.2.2 hjb
              have hjn : j < n := hlen ▸ used_lt hu
              have h3 : off n low j ≠ off n low ((high + n - 1) % n) := fun e => hja (off_inj' hlown hjn han e)
              exact hgl j h' _ hfirst hu hua (by omega)
            · have := hgl _ hfirst high hhi hua hhiu (by omega)
              rw [hhs] at this
              omega
        · -- full ring, the two oldest slots may go
          simp only [c4, ↓reduceIte, Except.ok.injEq, Prod.mk.injEq] at hc
          obtain ⟨rfl, rfl, rfl, rfl⟩ := hc
          have ea := off_succ_wrap hlown hhighn c3
          have eb := off_succ2_wrap1 (by omega : 2 ≤ n) hlown hhighn c3
          rw [hn1, hn2, ea, eb]
          have hc'n : (low + 2) % n < n := Nat.mod_lt _ (by omega)
          have hbn : (low + 1) % n < n := Nat.mod_lt _ (by omega)
          have e1 := off_one (by omega : 2 ≤ n) hlown
          have e2 := off_two (by omega : 3 ≤ n) hlown
          have hlowj : ∀ j h', Used ((hs.set ((low + 1) % n) none).set low none) j h' → 2 ≤ off n low j := by
            intro j h' hu
            obtain ⟨hja, hjb, hu0⟩ := used_erase2 hu
            have hjn : j < n := hlen ▸ used_lt hu0
            have h0 : off n low j ≠ 0 := fun e0 => hja (off_inj' hlown hjn hlown (by rw [e0, off_self hlown]))
            have h1 : off n low j ≠ 1 := fun e0 => hjb (off_inj' hlown hjn hbn (by rw [e0, e1]))
            omega
          have hgl2' : GapSorted n ((hs.set ((low + 1) % n) none).set low none) low :=
            hgl.mono (fun j h' hu => ⟨h', (used_erase2 hu).2.2, rfl⟩)
          have hlen2' : ((hs.set ((low + 1) % n) none).set low none).length = n := by simp [hlen]
          have hg' : GapSorted n ((hs.set ((low + 1) % n) none).set low none) ((low + 2) % n) := by
            apply hgl2'.recut hlen2' hlown hc'n
            intro j h' hu
            rw [e2]; exact hlowj j h' hu
          have ea' := off_back hlown hc'n hlown (by rw [off_self hlown]; omega)
          rw [off_self hlown] at ea'
          have eb' := off_back hlown hc'n hbn (by omega)
          refine ⟨?_, hlown, hbn, (low + 2) % n, hc'n, hg', ?_, by omega, by omega⟩
          · intro e; rw [← e, off_self hlown] at e1; omega
          · intro j h' hu
            have h1 := hlowj j h' hu
            obtain ⟨_, _, hu0⟩ := used_erase2 hu
            have hjn : j < n := hlen ▸ used_lt hu0
            have ej := off_recut hlown hc'n hjn (by omega)
            have := hbelow' j h' hu0
            omega

/-- **`start_update` preserves the ring invariant**: after every crash prefix of its four header-level effects
    (erase second, erase first, firmware header appears, parity header appears). `SeqRoom 2` is the explicit
    no-wrap-around assumption: two more sequence numbers are available below the reserved value. -/
theorem start_preserved {n : Nat} (hn : 4 ≤ n) {hs : Hdrs} (hinv : RingInv n hs) (hroom : SeqRoom 2 hs)
    {a b sa sb : Nat} (hc : choosePair n hs = .ok (a, b, sa, sb)) (ha hb : Header)
    (hsa : ha.seq = sa) (hsb : hb.seq = sb) (k : Nat) :
    RingInv n (applyAll hs ([(b, none), (a, none), (a, some ha), (b, some hb)].take k)) := by
  have hn0 : 0 < n := by omega
  have hlen := hinv.1
  obtain ⟨hab, han, hbn, c, hcn, hg, hall, hlt, hle⟩ := start_ok hn hinv hroom hc
  have h1 : RingInv n (hs.set b none) :=
    hinv.sub hn0 (by simp [hlen]) (set_sub (by intro h' e; cases e))
  have h2 : RingInv n ((hs.set b none).set a none) :=
    h1.sub hn0 (by simp [hlen]) (set_sub (by intro h' e; cases e))
  have hg3 : GapSorted n (((hs.set b none).set a none).set a (some ha)) c := by
    apply hg.write
    intro j h' hu _
    rw [hsa]
    exact hall j h' hu
  have h3 : RingInv n (((hs.set b none).set a none).set a (some ha)) :=
    cut_ringInv (by simp [hlen]) hcn hg3
  have hg4 : GapSorted n ((((hs.set b none).set a none).set a (some ha)).set b (some hb)) c := by
    apply hg3.write
    intro j h' hu hjb
    rw [hsb]
    rcases used_set.mp hu with ⟨rfl, _, e⟩ | ⟨hne, hu'⟩
    · simp only [Option.some.injEq] at e
      subst e
      rw [hsa]
      exact ⟨hlt, hle⟩
    · have := hall j h' hu'
      omega
  have h4 : RingInv n ((((hs.set b none).set a none).set a (some ha)).set b (some hb)) :=
    cut_ringInv (by simp [hlen]) hcn hg4
  match k with
  | 0 => exact hinv
  | 1 => exact h1
  | 2 => exact h2
  | 3 => exact h3
  | k + 4 =>
    have e : [(b, none), (a, none), (a, some ha), (b, some hb)].take (k + 4) =
        [(b, none), (a, none), (a, some ha), (b, some hb)] := by simp
    rw [e]
    exact h4

end Fuota.Ring
