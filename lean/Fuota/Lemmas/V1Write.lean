import Fuota.Lemmas.V1Monad
/-!
# Which flash operations a fragment write of the deprecated manager issues (C20 `write_in_slot`)
-/
set_option linter.unusedSimpArgs false
namespace Fuota.V1
open Fuota.Fs Fuota.Nor

theorem set_run (s d : Dev) : (set s : M Unit).run d = (.ok (), s) := rfl

theorem tear_length (p keep a : Nat) (bs : List Nat) :
    ∃ bs', tear p keep (.program a bs) = .program a bs' ∧ bs'.length ≤ bs.length := by
  refine ⟨_, rfl, ?_⟩
  simp only [List.length_append, List.length_take]
  cases h : bs[p]? with
  | none =>
    have : bs.length ≤ p := by
      rcases Nat.lt_or_ge p bs.length with hl | hl
      · rw [List.getElem?_eq_getElem hl] at h; cases h
      · exact hl
    simp; omega
  | some b =>
    have : p < bs.length := by
      rcases Nat.lt_or_ge p bs.length with hl | hl
      · exact hl
      · rw [List.getElem?_eq_none hl] at h; cases h
    simp; omega

/-- a program request appends at most one operation to the log: the requested program, possibly torn to a prefix
    by an injected power loss -/
theorem mutate_program_ops (a : Nat) (bs : List Nat) (d : Dev) :
    ((mutate (.program a bs)).run d).2.ops = d.ops ∨
      ∃ bs', bs'.length ≤ bs.length ∧ ((mutate (.program a bs)).run d).2.ops = Op.program a bs' :: d.ops := by
  unfold mutate
  simp only [M.run_bind, get_run]
  cases hc : d.crashAt with
  | none =>
    simp only [M.run_pure]
    by_cases hf : d.failAt = some d.nmut
    · simp [hf, M.run_bind, set_run, M.run_throw]
    · simp only [hf, ↓reduceIte, set_run]
      right
      exact ⟨bs, Nat.le_refl _, rfl⟩
  | some kt =>
    obtain ⟨k, tr⟩ := kt
    simp only
    by_cases hk : d.nmut = k
    · simp only [hk, ↓reduceIte]
      cases tr with
      | none => simp [M.run_bind, set_run, M.run_throw]
      | some pk =>
        obtain ⟨p, keep⟩ := pk
        simp only [M.run_bind, set_run, M.run_throw]
        right
        obtain ⟨bs', e, hl⟩ := tear_length p keep a bs
        exact ⟨bs', hl, by rw [e]⟩
    · simp only [hk, ↓reduceIte, M.run_pure]
      by_cases hf : d.failAt = some d.nmut
      · simp [hf, M.run_bind, set_run, M.run_throw]
      · simp only [hf, ↓reduceIte, set_run]
        right
        exact ⟨bs, Nat.le_refl _, rfl⟩

theorem writeFrom_ops (a : Nat) (bs : List Nat) (d : Dev) :
    ((writeFrom a bs).run d).2.ops = d.ops ∨
      ∃ bs', bs'.length ≤ bs.length ∧ ((writeFrom a bs).run d).2.ops = Op.program a bs' :: d.ops := by
  unfold writeFrom
  simp only [M.run_bind, get_run]
  by_cases hd : d.dead = true
  · simp [hd, M.run_bind, M.run_throw]
  · simp only [hd, Bool.false_eq_true, ↓reduceIte]
    by_cases hc : (!d.flash.canProgram a bs.length) = true
    · simp [hc, M.run_bind, M.run_throw]
    · simp only [hc, Bool.false_eq_true, ↓reduceIte]
      exact mutate_program_ops a bs d

/-- a program at `a` of at most `len` bytes -/
def ProgAt (a len : Nat) (op : Op) : Prop := ∃ bs', op = Op.program a bs' ∧ bs'.length ≤ len

/-- the two programs of an accepted, new fragment: nothing else reaches the log -/
theorem commitWrite_ops (p : Orig.WPlan) (bytes : List Nat) (d : Dev) :
    ∃ new, ((Orig.commitWrite p bytes).run d).2.ops = new ++ d.ops ∧
      ∀ op ∈ new, ProgAt p.dataStart bytes.length op ∨ ProgAt p.writtenAddr 1 op := by
  unfold Orig.commitWrite
  rw [M.run_bind]
  have h1 := writeFrom_ops p.dataStart bytes d
  cases hr : (writeFrom p.dataStart bytes).run d with
  | mk r d1 =>
    rw [hr] at h1
    simp only at h1
    cases r with
    | error e =>
      simp only
      rcases h1 with h1 | ⟨bs', hl, h1⟩
      · exact ⟨[], by simpa using h1, by simp⟩
      · exact ⟨[Op.program p.dataStart bs'], by simpa using h1, by
          intro op hop; simp at hop; subst hop; exact Or.inl ⟨bs', rfl, hl⟩⟩
    | ok u =>
      simp only
      have h2 := writeFrom_ops p.writtenAddr [Consts.O_DATA_WRITTEN] d1
      rcases h1 with h1 | ⟨bs', hl, h1⟩ <;> rcases h2 with h2 | ⟨bs2, hl2, h2⟩
      · exact ⟨[], by rw [h2, h1]; rfl, by simp⟩
      · refine ⟨[Op.program p.writtenAddr bs2], by rw [h2, h1]; rfl, ?_⟩
        intro op hop; simp at hop; subst hop; exact Or.inr ⟨bs2, rfl, by simpa using hl2⟩
      · refine ⟨[Op.program p.dataStart bs'], by rw [h2, h1]; rfl, ?_⟩
        intro op hop; simp at hop; subst hop; exact Or.inl ⟨bs', rfl, hl⟩
      · refine ⟨[Op.program p.writtenAddr bs2, Op.program p.dataStart bs'], by rw [h2, h1]; rfl, ?_⟩
        intro op hop
        simp at hop
        rcases hop with rfl | rfl
        · exact Or.inr ⟨bs2, rfl, by simpa using hl2⟩
        · exact Or.inl ⟨bs', rfl, hl⟩

/-- every operation `write_segment_internal` adds to the log is one of the two programs of the plan the range check
    accepted -/
theorem writeSegmentInternal_ops (cfg : Orig.Cfg) (scratchLen idx1 : Nat) (bytes : List Nat) (a : Orig.Act) (d : Dev) :
    ∃ new, ((Orig.writeSegmentInternal cfg scratchLen idx1 bytes).run (a, d)).2.2.ops = new ++ d.ops ∧
      ∀ op ∈ new, ∃ p, Orig.planWrite cfg a idx1 bytes.length = .ok p ∧
        (ProgAt p.dataStart bytes.length op ∨ ProgAt p.writtenAddr 1 op) := by
  unfold Orig.writeSegmentInternal
  simp only [OrigRun.run_bind, OrigRun.getA_run]
  cases hp : Orig.planWrite cfg a idx1 bytes.length with
  | error e => exact ⟨[], rfl, by simp⟩
  | ok p =>
    simp only [OrigRun.run_bind, OrigRun.liftM_run]
    have hs := readTo_state p.writtenAddr 1 d
    cases hr : (readTo p.writtenAddr 1).run d with
    | mk r d1 =>
      rw [hr] at hs; simp only at hs; subst hs
      cases r with
      | error e => exact ⟨[], rfl, by simp⟩
      | ok st =>
        simp only
        generalize st.getD 0 0xFF = b
        by_cases hw : b = Consts.O_DATA_WRITTEN
        · simp only [hw, ↓reduceIte, OrigRun.run_bind, OrigRun.liftM_run]
          by_cases c1 : bytes.length > scratchLen
          · exact ⟨[], by simp [c1, OrigRun.run_throw, OrigRun.run_bind], by simp⟩
          · simp only [c1, ↓reduceIte, OrigRun.run_bind, OrigRun.liftM_run, OrigRun.run_pure]
            have hs2 := readTo_state p.dataStart bytes.length d1
            cases hr2 : (readTo p.dataStart bytes.length).run d1 with
            | mk r2 d2 =>
              rw [hr2] at hs2; simp only at hs2; subst hs2
              cases r2 with
              | error e => exact ⟨[], rfl, by simp⟩
              | ok got =>
                simp only
                by_cases c3 : got.take bytes.length = bytes
                · exact ⟨[], by simp [c3, OrigRun.run_pure, OrigRun.run_bind], by simp⟩
                · exact ⟨[], by simp [c3, OrigRun.run_throw, OrigRun.run_bind], by simp⟩
        · simp only [hw, ↓reduceIte, OrigRun.run_bind, OrigRun.run_pure]
          by_cases hn : b ≠ Consts.O_DATA_NOT_WRITTEN
          · exact ⟨[], by simp [hn, OrigRun.run_throw, OrigRun.run_bind], by simp⟩
          · simp only [hn, ↓reduceIte, OrigRun.run_bind, OrigRun.run_pure, OrigRun.liftM_run]
            obtain ⟨new, h1, h2⟩ := commitWrite_ops p bytes d1
            cases hc : (Orig.commitWrite p bytes).run d1 with
            | mk r3 d3 =>
              rw [hc] at h1
              simp only at h1
              cases r3 with
              | error e => exact ⟨new, h1, fun op hop => ⟨p, rfl, h2 op hop⟩⟩
              | ok u => exact ⟨new, h1, fun op hop => ⟨p, rfl, h2 op hop⟩⟩

end Fuota.V1
