import Fuota.Lemmas.RefineRecoverRun
import Fuota.Lemmas.OpsUpd
/-!
# `handle_segment` never touches the header area of the two session slots
(so the invariant with headers `LawfulH` is kept along a session)
-/
namespace Fuota.Updater
open Fuota.Nor Fuota.Fs Fuota.FlashAdapters Fuota.Recon Fuota.Layout

/-- a body operation of slot `i` leaves every byte outside `[i*size + 0x400, i*size + size)` alone -/
theorem bodyOp_byte {size i : Nat} {op : Op} (h : Ops.BodyOp size i op) (f : Flash) (x : Nat)
    (hx : x < i * size + 0x400 ∨ i * size + size ≤ x) : (f.apply op).byte x = f.byte x := by
  obtain ⟨op0, h0, e⟩ := h
  cases op0 with
  | erase a => exact h0.elim
  | program a bs =>
    obtain ⟨off, ea, h1, h2⟩ := h0
    rcases e with rfl | ⟨p, keep, rfl⟩
    · exact byte_apply_program_of_not_mem f a bs x (by omega)
    · obtain ⟨bs', e', hl, _⟩ := Ops.tear_program p keep a bs
      rw [e']
      exact byte_apply_program_of_not_mem f a bs' x (by omega)

/-- a list of body operations of the two session slots leaves the header areas alone -/
theorem pairBody_bytes {u : Upd} (f : Flash) : ∀ (ops : List Op), (∀ op ∈ ops, Ops.PairBody u op) → ∀ x,
    (x < u.fw.idx * u.fw.size + 0x400 ∨ u.fw.idx * u.fw.size + u.fw.size ≤ x) →
    (x < u.par.idx * u.par.size + 0x400 ∨ u.par.idx * u.par.size + u.par.size ≤ x) →
    (f.applyAll ops).byte x = f.byte x := by
  intro ops
  induction ops generalizing f with
  | nil => intro _ x _ _; rfl
  | cons op ops ih =>
    intro h x h1 h2
    show ((f.apply op).applyAll ops).byte x = _
    rw [ih (f.apply op) (fun o ho => h o (List.mem_cons_of_mem _ ho)) x h1 h2]
    rcases h op List.mem_cons_self with hb | hb
    · exact bodyOp_byte hb f x h1
    · exact bodyOp_byte hb f x h2

/-- **`handle_segment` leaves the first `0x400` bytes of both session slots alone** (any fragment number and
    payload, any in-memory updater with the session's slot geometry) -/
theorem handleSegment_hdr_frame (ffr : Bool) (idx : Nat) (bytes : List Nat) (u : Upd) (d : Dev)
    (hg : Ops.SlotGeom u)
    (hdis : u.fw.idx * u.fw.size + u.fw.size ≤ u.par.idx * u.par.size ∨
      u.par.idx * u.par.size + u.par.size ≤ u.fw.idx * u.fw.size) :
    ∀ x, (u.fw.idx * u.fw.size ≤ x ∧ x < u.fw.idx * u.fw.size + 0x400) ∨
         (u.par.idx * u.par.size ≤ x ∧ x < u.par.idx * u.par.size + 0x400) →
      ((handleSegment ffr idx bytes).run (u, d)).2.2.flash.byte x = d.flash.byte x := by
  intro x hx
  have h := Ops.handleSegment_emits (B := d.flash.block) (u.l ≤ u.maxL) u hg ffr idx bytes u d rfl
    ⟨Ops.SameSess.refl u, fun h => h⟩
  obtain ⟨new, hrep, hops⟩ := h.2.1
  rw [hrep.flash]
  have hf := hg.fwSize
  have hp := hg.parSize
  apply pairBody_bytes d.flash new.reverse (fun op hop => hops op (List.mem_reverse.1 hop)) x
  · rcases hx with hx | hx <;> omega
  · rcases hx with hx | hx <;> omega

/-- the header a slot carries only depends on its first 28 bytes -/
theorem hdrAt_congr {f g : Flash} {a : Nat} (h : ∀ x, a ≤ x → x < a + 28 → g.byte x = f.byte x) :
    NoPanic.hdrAt g a = NoPanic.hdrAt f a := by
  unfold NoPanic.hdrAt
  rw [read_congr g f a Consts.SLOT_HEADER_SIZE h]

/-- the geometry of an open session in the vocabulary of the footprint calculus -/
theorem Geo.slotGeom {u : Upd} {fsz : Nat} (g : Geo u fsz) : Ops.SlotGeom u := by
  obtain ⟨h1, h2, _⟩ := g.slots
  exact ⟨h1, by rw [h2]; exact h1, g.hfit⟩

/-- **`handle_segment` keeps the invariant with headers** -/
theorem handleSegment_lawfulH (ffr : Bool) (idx1 : Nat) (bytes : List Nat) {u : Upd} {d : Dev} {sa sb : Nat}
    (LH : LawfulH u d sa sb) (hL' : Lawful ((handleSegment ffr idx1 bytes).run (u, d)).2.1
      ((handleSegment ffr idx1 bytes).run (u, d)).2.2)
    (hS : Static u ((handleSegment ffr idx1 bytes).run (u, d)).2.1) :
    LawfulH ((handleSegment ffr idx1 bytes).run (u, d)).2.1 ((handleSegment ffr idx1 bytes).run (u, d)).2.2 sa sb := by
  have g := LH.law.base.geo
  obtain ⟨h1, h2, h3, h4, h5, h6, h7⟩ := g.slots
  have hfr := handleSegment_hdr_frame ffr idx1 bytes u d g.slotGeom (by
    simp only [fwBase, parBase] at h5
    rcases h5 with h5 | h5
    · left; exact h5
    · right; rw [h2] at h5 ⊢; exact h5)
  obtain ⟨k1, k2, k3, k4, k5, k6⟩ := hS
  refine ⟨hL', ?_, ?_⟩
  · rw [k1, hdrAt_congr (f := d.flash) (fun x hx1 hx2 => hfr x (Or.inl ⟨hx1, by omega⟩)), LH.hfw]
    simp only [fwHdr, k3, k4]
  · rw [k2, hdrAt_congr (f := d.flash) (fun x hx1 hx2 => hfr x (Or.inr ⟨hx1, by omega⟩)), LH.hpar]
    simp only [parHdr, k4, k5]

end Fuota.Updater
