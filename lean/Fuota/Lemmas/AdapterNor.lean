import Fuota.Model.FlashAdapters
/-!
# Byte-level facts about the NOR model used by the adapter proofs (C16)

`Flash.byte` after a program / an erase, well-formedness (`every byte < 256`), erased regions.
-/
set_option linter.unusedSimpArgs false
namespace Fuota.FlashAdapters
open Fuota.Nor

/-- every byte of the medium is a byte -/
def WF (f : Flash) : Prop := ∀ x, f.byte x < 256

/-- the bytes `a ≤ x < b` read `0xFF` -/
def Erased (f : Flash) (a b : Nat) : Prop := ∀ x, a ≤ x → x < b → f.byte x = 0xFF

theorem size_programBytes (mem : Array Nat) (a : Nat) (bs : List Nat) : (programBytes mem a bs).size = mem.size := by
  induction bs generalizing mem a with
  | nil => rfl
  | cons b bs ih => simp [programBytes, ih]

theorem getD_programBytes (mem : Array Nat) (a : Nat) (bs : List Nat) (x : Nat) :
    (programBytes mem a bs).getD x 0xFF =
      if a ≤ x ∧ x < a + bs.length ∧ x < mem.size then mem.getD x 0xFF &&& (bs[x - a]?).getD 0xFF else mem.getD x 0xFF := by
  induction bs generalizing mem a with
  | nil => simp only [programBytes, List.length_nil, Nat.add_zero]; rw [if_neg (by omega)]
  | cons b bs ih =>
    simp only [programBytes, ih, Array.size_setIfInBounds, List.length_cons]
    simp only [Array.getD_eq_getD_getElem?, Array.getElem?_setIfInBounds]
    by_cases hx : a = x
    · subst hx
      simp only [show ¬ (a + 1 ≤ a) by omega, false_and, if_false, Nat.le_refl, true_and, if_true, Nat.sub_self,
        List.getElem?_cons_zero, Option.getD_some]
      by_cases hs : a < mem.size
      · simp [hs]
      · simp [hs]
    · simp only [hx, if_false]
      by_cases h1 : a + 1 ≤ x ∧ x < a + 1 + bs.length ∧ x < mem.size
      · have h2 : a ≤ x ∧ x < a + (bs.length + 1) ∧ x < mem.size := by omega
        rw [if_pos h1, if_pos h2]
        have : x - a = (x - (a + 1)) + 1 := by omega
        rw [this, List.getElem?_cons_succ]
      · have h2 : ¬ (a ≤ x ∧ x < a + (bs.length + 1) ∧ x < mem.size) := by omega
        rw [if_neg h1, if_neg h2]

theorem size_fillFF (mem : Array Nat) (a k : Nat) : (fillFF mem a k).size = mem.size := by
  induction k generalizing mem a with
  | zero => rfl
  | succ k ih => simp [fillFF, ih]

theorem getD_fillFF (mem : Array Nat) (a k x : Nat) :
    (fillFF mem a k).getD x 0xFF = if a ≤ x ∧ x < a + k then 0xFF else mem.getD x 0xFF := by
  induction k generalizing mem a with
  | zero => simp only [fillFF, Nat.add_zero]; rw [if_neg (by omega)]
  | succ k ih =>
    simp only [fillFF, ih]
    simp only [Array.getD_eq_getD_getElem?, Array.getElem?_setIfInBounds]
    by_cases hx : a = x
    · subst hx
      simp only [show ¬ (a + 1 ≤ a) by omega, false_and, if_false, if_true, Nat.le_refl, true_and,
        show a < a + (k + 1) by omega]
      by_cases hs : a < mem.size
      · simp [hs]
      · simp only [hs, if_false, Option.getD_none]
    · simp only [hx, if_false]
      by_cases h1 : a + 1 ≤ x ∧ x < a + 1 + k
      · rw [if_pos h1, if_pos (by omega)]
      · rw [if_neg h1, if_neg (by omega)]

/-! ### one program -/

theorem size_apply_program (f : Flash) (a : Nat) (bs : List Nat) : (f.apply (.program a bs)).size = f.size := by
  simp [Flash.apply, Flash.size, size_programBytes]

theorem block_apply (f : Flash) (op : Op) : (f.apply op).block = f.block := by
  cases op <;> rfl

theorem byte_apply_program (f : Flash) (a : Nat) (bs : List Nat) (x : Nat) :
    (f.apply (.program a bs)).byte x =
      if a ≤ x ∧ x < a + bs.length ∧ x < f.size then f.byte x &&& (bs[x - a]?).getD 0xFF else f.byte x := by
  exact getD_programBytes f.mem a bs x

/-- outside the programmed bytes nothing changes -/
theorem byte_apply_program_of_not_mem (f : Flash) (a : Nat) (bs : List Nat) (x : Nat)
    (h : x < a ∨ a + bs.length ≤ x) : (f.apply (.program a bs)).byte x = f.byte x := by
  rw [byte_apply_program, if_neg (by omega)]

theorem byte_apply_program_of_mem (f : Flash) (a : Nat) (bs : List Nat) (x : Nat) (hs : a + bs.length ≤ f.size)
    (h1 : a ≤ x) (h2 : x < a + bs.length) :
    (f.apply (.program a bs)).byte x = f.byte x &&& bs[x - a]'(by omega) := by
  rw [byte_apply_program, if_pos (by omega), List.getElem?_eq_getElem (by omega), Option.getD_some]

theorem and_ff_of_lt {a : Nat} (h : a < 256) : a &&& 0xFF = a := by
  have : (0xFF : Nat) = 2 ^ 8 - 1 := by decide
  rw [this, Nat.and_two_pow_sub_one_eq_mod]; omega

theorem ff_and_of_lt {a : Nat} (h : a < 256) : 0xFF &&& a = a := by
  rw [Nat.and_comm]; exact and_ff_of_lt h

theorem and_lt_256 {a b : Nat} (h : a < 256) : a &&& b < 256 := Nat.lt_of_le_of_lt Nat.and_le_left h

theorem WF_apply_program {f : Flash} (h : WF f) (a : Nat) (bs : List Nat) : WF (f.apply (.program a bs)) := by
  intro x
  rw [byte_apply_program]
  split
  · exact and_lt_256 (h x)
  · exact h x

theorem programBytes_append (mem : Array Nat) (a : Nat) (xs ys : List Nat) :
    programBytes mem a (xs ++ ys) = programBytes (programBytes mem a xs) (a + xs.length) ys := by
  induction xs generalizing mem a with
  | nil => simp [programBytes]
  | cons x xs ih => simp only [List.cons_append, programBytes, ih, List.length_cons]; congr 1; omega

theorem apply_program_nil (f : Flash) (a : Nat) : f.apply (.program a []) = f := rfl

/-- two programs of adjacent chunks are one program of the concatenation -/
theorem apply_program_append (f : Flash) (a : Nat) (xs ys : List Nat) :
    (f.apply (.program a xs)).apply (.program (a + xs.length) ys) = f.apply (.program a (xs ++ ys)) := by
  simp only [Flash.apply, programBytes_append]

theorem Flash.ext_byte {f g : Flash} (hs : f.size = g.size) (hb : f.block = g.block) (h : ∀ x, f.byte x = g.byte x) :
    f = g := by
  obtain ⟨fm, fb⟩ := f
  obtain ⟨gm, gb⟩ := g
  simp only [Flash.size, Flash.byte] at hs hb h
  subst hb
  congr 1
  apply Array.ext hs
  intro i h1 h2
  have := h i
  simp only [Array.getD, h1, h2, dif_pos] at this
  exact this

/-- programming is a pointwise AND: any two programs commute, overlapping or not -/
theorem apply_program_comm (f : Flash) (a b : Nat) (xs ys : List Nat) :
    (f.apply (.program a xs)).apply (.program b ys) = (f.apply (.program b ys)).apply (.program a xs) := by
  apply Flash.ext_byte
  · simp only [size_apply_program]
  · rfl
  · intro x
    simp only [byte_apply_program, size_apply_program]
    by_cases h1 : a ≤ x ∧ x < a + xs.length ∧ x < f.size <;> by_cases h2 : b ≤ x ∧ x < b + ys.length ∧ x < f.size
    · rw [if_pos h2, if_pos h1, if_pos h1, if_pos h2, Nat.and_assoc, Nat.and_comm (xs[x - a]?.getD 255), ← Nat.and_assoc]
    · rw [if_neg h2, if_pos h1, if_pos h1, if_neg h2]
    · rw [if_pos h2, if_neg h1, if_neg h1, if_pos h2]
    · rw [if_neg h2, if_neg h1, if_neg h1, if_neg h2]

/-! ### erase -/

theorem byte_apply_erase (f : Flash) (a x : Nat) :
    (f.apply (.erase a)).byte x = if a ≤ x ∧ x < a + f.block then 0xFF else f.byte x := by
  simp only [Flash.apply, Flash.byte, getD_fillFF]

theorem size_apply (f : Flash) (op : Op) : (f.apply op).size = f.size := by
  cases op with
  | erase a => simp [Flash.apply, Flash.size, size_fillFF]
  | program a bs => exact size_apply_program f a bs

theorem WF_apply_erase {f : Flash} (h : WF f) (a : Nat) : WF (f.apply (.erase a)) := by
  intro x
  rw [byte_apply_erase]
  split
  · decide
  · exact h x

theorem size_applyAll (f : Flash) (ops : List Op) : (f.applyAll ops).size = f.size := by
  induction ops generalizing f with
  | nil => rfl
  | cons op ops ih => simp only [Flash.applyAll, List.foldl_cons] at ih ⊢; rw [ih, size_apply]

theorem block_applyAll (f : Flash) (ops : List Op) : (f.applyAll ops).block = f.block := by
  induction ops generalizing f with
  | nil => rfl
  | cons op ops ih => simp only [Flash.applyAll, List.foldl_cons] at ih ⊢; rw [ih, block_apply]

/-- bytes of a sequence of block erases: erased if some erase covers it, untouched otherwise -/
theorem byte_applyAll_erases (f : Flash) (as : List Nat) (x : Nat) :
    (f.applyAll (as.map Op.erase)).byte x = if ∃ a ∈ as, a ≤ x ∧ x < a + f.block then 0xFF else f.byte x := by
  induction as generalizing f with
  | nil => simp [Flash.applyAll]
  | cons a as ih =>
    simp only [Flash.applyAll, List.map_cons, List.foldl_cons] at ih ⊢
    rw [ih, block_apply, byte_apply_erase]
    by_cases h1 : ∃ a' ∈ as, a' ≤ x ∧ x < a' + f.block
    · rw [if_pos h1, if_pos]
      obtain ⟨a', ha', h⟩ := h1
      exact ⟨a', List.mem_cons_of_mem _ ha', h⟩
    · rw [if_neg h1]
      by_cases h2 : a ≤ x ∧ x < a + f.block
      · rw [if_pos h2, if_pos]
        exact ⟨a, List.mem_cons_self, h2⟩
      · rw [if_neg h2, if_neg]
        rintro ⟨a', ha', h⟩
        rcases List.mem_cons.mp ha' with rfl | ha'
        · exact h2 h
        · exact h1 ⟨a', ha', h⟩

theorem eraseOps_eq (a b : Nat) :
    eraseOps a b = ((List.range ((b - a) / ERASE_SIZE)).map (fun i => a + i * ERASE_SIZE)).map Op.erase := by
  simp [eraseOps, List.map_map, Function.comp_def]

/-- `erase(a, b)` on a device with erase size `ERASE_SIZE`, `a` and `b` aligned: the range reads `0xFF`, the rest is
    untouched -/
theorem byte_applyAcc_erase (f : Flash) (hb : f.block = ERASE_SIZE) (a b : Nat) (hab : a ≤ b)
    (hal : (b - a) % ERASE_SIZE = 0) (x : Nat) :
    (applyAcc f (.erase a b)).byte x = if a ≤ x ∧ x < b then 0xFF else f.byte x := by
  simp only [applyAcc, eraseOps_eq, byte_applyAll_erases, hb]
  have hE : ERASE_SIZE = 256 := rfl
  simp only [hE] at hal ⊢
  by_cases h : a ≤ x ∧ x < b
  · rw [if_pos h, if_pos]
    refine ⟨a + (x - a) / 256 * 256, ?_, ?_⟩
    · simp only [List.mem_map, List.mem_range]
      refine ⟨(x - a) / 256, ?_, rfl⟩
      omega
    · omega
  · rw [if_neg h, if_neg]
    rintro ⟨a', ha', h1, h2⟩
    simp only [List.mem_map, List.mem_range] at ha'
    obtain ⟨i, hi, rfl⟩ := ha'
    omega

theorem WF_applyAll_erases {f : Flash} (h : WF f) (as : List Nat) : WF (f.applyAll (as.map Op.erase)) := by
  intro x; rw [byte_applyAll_erases]; split
  · decide
  · exact h x

theorem size_applyAcc (f : Flash) (a : Acc) : (applyAcc f a).size = f.size := by
  cases a with
  | erase a b => exact size_applyAll _ _
  | read a n => rfl
  | program a bs => exact size_apply_program f a bs

theorem block_applyAcc (f : Flash) (a : Acc) : (applyAcc f a).block = f.block := by
  cases a with
  | erase a b => exact block_applyAll _ _
  | read a n => rfl
  | program a bs => rfl

theorem WF_applyAcc {f : Flash} (h : WF f) (a : Acc) : WF (applyAcc f a) := by
  cases a with
  | erase a b => simp only [applyAcc, eraseOps_eq]; exact WF_applyAll_erases h _
  | read a n => exact h
  | program a bs => exact WF_apply_program h a bs

theorem size_applyAccs (f : Flash) (accs : List Acc) : (applyAccs f accs).size = f.size := by
  induction accs generalizing f with
  | nil => rfl
  | cons a accs ih => simp only [applyAccs, List.foldl_cons] at ih ⊢; rw [ih, size_applyAcc]

theorem block_applyAccs (f : Flash) (accs : List Acc) : (applyAccs f accs).block = f.block := by
  induction accs generalizing f with
  | nil => rfl
  | cons a accs ih => simp only [applyAccs, List.foldl_cons] at ih ⊢; rw [ih, block_applyAcc]

theorem WF_applyAccs {f : Flash} (h : WF f) (accs : List Acc) : WF (applyAccs f accs) := by
  induction accs generalizing f with
  | nil => exact h
  | cons a accs ih => simp only [applyAccs, List.foldl_cons] at ih ⊢; exact ih (WF_applyAcc h a)

theorem applyAccs_cons (f : Flash) (a : Acc) (accs : List Acc) : applyAccs f (a :: accs) = applyAccs (applyAcc f a) accs := rfl
theorem applyAccs_nil (f : Flash) : applyAccs f [] = f := rfl
theorem applyAccs_append (f : Flash) (l1 l2 : List Acc) : applyAccs f (l1 ++ l2) = applyAccs (applyAccs f l1) l2 := by
  simp [applyAccs, List.foldl_append]

/-! ### reads -/
theorem length_read (f : Flash) (a n : Nat) : (f.read a n).length = n := by simp [Flash.read]

theorem getElem?_read (f : Flash) (a n i : Nat) : (f.read a n)[i]? = if i < n then some (f.byte (a + i)) else none := by
  simp only [Flash.read, List.getElem?_map]
  by_cases h : i < n
  · simp [h]
  · simp [h]

theorem read_append (f : Flash) (a n k : Nat) : f.read a n ++ f.read (a + n) k = f.read a (n + k) := by
  apply List.ext_getElem?
  intro i
  simp only [List.getElem?_append, getElem?_read, length_read]
  by_cases h : i < n
  · simp [h, show i < n + k by omega]
  · simp only [h, if_false]
    by_cases h2 : i - n < k
    · simp only [h2, if_true, show i < n + k by omega]; congr 2; omega
    · simp [h2, show ¬ i < n + k by omega]

theorem read_zero (f : Flash) (a : Nat) : f.read a 0 = [] := rfl

theorem take_read (f : Flash) (a n k : Nat) (h : k ≤ n) : (f.read a n).take k = f.read a k := by
  apply List.ext_getElem?
  intro i
  simp only [List.getElem?_take, getElem?_read]
  by_cases h1 : i < k
  · simp [h1, show i < n by omega]
  · simp [h1]

theorem drop_read (f : Flash) (a n k : Nat) : (f.read a n).drop k = f.read (a + k) (n - k) := by
  apply List.ext_getElem?
  intro i
  simp only [List.getElem?_drop, getElem?_read]
  by_cases h1 : k + i < n
  · simp [h1, show i < n - k by omega, Nat.add_assoc]
  · simp [h1, show ¬ i < n - k by omega]

/-- two flashes agreeing on the bytes read give the same read -/
theorem read_congr (f g : Flash) (a n : Nat) (h : ∀ x, a ≤ x → x < a + n → f.byte x = g.byte x) : f.read a n = g.read a n := by
  simp only [Flash.read]
  apply List.map_congr_left
  intro i hi
  exact h _ (by omega) (by have := List.mem_range.mp hi; omega)

end Fuota.FlashAdapters
