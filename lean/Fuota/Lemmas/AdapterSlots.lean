import Fuota.Lemmas.AdapterNor
/-!
# Index-addressed stores on NOR: round trip and frame for any store order (C16)

The three adapters share one argument. Every index `m` owns a byte region `lo m ≤ x < hi m`; regions of distinct
indices are disjoint; `store m d` changes no byte outside the region of `m` (the data adapter programs `0xFF` onto the
neighbours' bytes of a shared word, which leaves them alone); `get m` depends on the region of `m` only; a store into an
erased region reads back. From these the round trip after *any sequence* of stores of distinct indices (hence for every
store order) and the frame property follow.
-/
set_option linter.unusedSimpArgs false
namespace Fuota.FlashAdapters
open Fuota.Nor

structure SlotSys where
  lo : Nat → Nat
  hi : Nat → Nat
  store : Flash → Nat → List Nat → Flash
  get : Flash → Nat → List Nat
  /-- admissible (index, value) pairs: value shape, index below the capacity -/
  ok : Nat → List Nat → Prop
  /-- admissible read index (below the capacity) -/
  okIdx : Nat → Prop
  /-- device invariant: well-formed bytes, large enough -/
  good : Flash → Prop
  good_store : ∀ {f m d}, good f → ok m d → good (store f m d)
  disjoint : ∀ {m j}, m ≠ j → hi m ≤ lo j ∨ hi j ≤ lo m
  frame_byte : ∀ {f m d x}, good f → ok m d → (x < lo m ∨ hi m ≤ x) → (store f m d).byte x = f.byte x
  get_congr : ∀ {f g m}, okIdx m → (∀ x, lo m ≤ x → x < hi m → f.byte x = g.byte x) → get f m = get g m
  ok_idx : ∀ {m d}, ok m d → okIdx m
  roundtrip1 : ∀ {f m d}, good f → ok m d → Erased f (lo m) (hi m) → get (store f m d) m = d

namespace SlotSys
variable (S : SlotSys)

def storeAll (f : Flash) : List (Nat × List Nat) → Flash
  | [] => f
  | (m, d) :: rest => storeAll (S.store f m d) rest

/-- storing one index never changes what any other index reads back -/
theorem frame {f : Flash} {m j : Nat} {d : List Nat} (hg : S.good f) (hok : S.ok m d) (hj : S.okIdx j) (hne : j ≠ m) :
    S.get (S.store f m d) j = S.get f j := by
  apply S.get_congr hj
  intro x h1 h2
  apply S.frame_byte hg hok
  have := S.disjoint (m := m) (j := j) (Ne.symm hne)
  omega

theorem good_storeAll {f : Flash} {stores : List (Nat × List Nat)} (hg : S.good f)
    (hok : ∀ s ∈ stores, S.ok s.1 s.2) : S.good (S.storeAll f stores) := by
  induction stores generalizing f with
  | nil => exact hg
  | cons s rest ih =>
    obtain ⟨m, d⟩ := s
    exact ih (S.good_store hg (hok (m, d) List.mem_cons_self)) (fun s hs => hok s (List.mem_cons_of_mem _ hs))

/-- bytes outside the regions of the stored indices are untouched -/
theorem storeAll_byte {f : Flash} {stores : List (Nat × List Nat)} (hg : S.good f)
    (hok : ∀ s ∈ stores, S.ok s.1 s.2) (x : Nat) (hx : ∀ s ∈ stores, x < S.lo s.1 ∨ S.hi s.1 ≤ x) :
    (S.storeAll f stores).byte x = f.byte x := by
  induction stores generalizing f with
  | nil => rfl
  | cons s rest ih =>
    obtain ⟨m, d⟩ := s
    have hokm : S.ok m d := hok (m, d) List.mem_cons_self
    simp only [storeAll]
    rw [ih (S.good_store hg hokm) (fun s hs => hok s (List.mem_cons_of_mem _ hs))
      (fun s hs => hx s (List.mem_cons_of_mem _ hs))]
    exact S.frame_byte hg hokm (hx (m, d) List.mem_cons_self)

/-- an index that is not stored reads back the same after any sequence of stores -/
theorem frame_all {f : Flash} {stores : List (Nat × List Nat)} {j : Nat} (hg : S.good f)
    (hok : ∀ s ∈ stores, S.ok s.1 s.2) (hj : S.okIdx j) (hne : ∀ s ∈ stores, s.1 ≠ j) :
    S.get (S.storeAll f stores) j = S.get f j := by
  apply S.get_congr hj
  intro x h1 h2
  apply S.storeAll_byte hg hok
  intro s hs
  have := S.disjoint (hne s hs)
  omega

/-- round trip after any sequence of stores of distinct indices into erased regions: every stored index reads back
    what was stored for it -/
theorem roundtrip_all {f : Flash} {stores : List (Nat × List Nat)} (hg : S.good f)
    (hok : ∀ s ∈ stores, S.ok s.1 s.2) (hnd : (stores.map Prod.fst).Nodup)
    (her : ∀ s ∈ stores, Erased f (S.lo s.1) (S.hi s.1)) :
    ∀ s ∈ stores, S.get (S.storeAll f stores) s.1 = s.2 := by
  induction stores generalizing f with
  | nil => intro s hs; cases hs
  | cons s0 rest ih =>
    obtain ⟨m0, d0⟩ := s0
    have hok0 : S.ok m0 d0 := hok (m0, d0) List.mem_cons_self
    have hokr : ∀ s ∈ rest, S.ok s.1 s.2 := fun s hs => hok s (List.mem_cons_of_mem _ hs)
    simp only [List.map_cons, List.nodup_cons, List.mem_map, not_exists, not_and] at hnd
    have hg' := S.good_store hg hok0
    intro s hs
    simp only [storeAll]
    rcases List.mem_cons.mp hs with rfl | hs
    · rw [S.frame_all hg' hokr (S.ok_idx hok0) (fun s hs h => hnd.1 s hs h)]
      exact S.roundtrip1 hg hok0 (her _ List.mem_cons_self)
    · apply ih hg' hokr hnd.2 _ s hs
      intro s' hs' x h1 h2
      have hne : m0 ≠ s'.1 := fun h => hnd.1 s' hs' h.symm
      rw [S.frame_byte hg hok0 (by have := S.disjoint hne; omega)]
      exact her s' (List.mem_cons_of_mem _ hs') x h1 h2

/-- when single stores commute (they are AND-programs), the medium after a sequence of stores does not depend on the
    order of the sequence -/
theorem storeAll_perm (P : Nat → List Nat → Prop)
    (hcomm : ∀ f m d m' d', P m d → P m' d' → S.store (S.store f m d) m' d' = S.store (S.store f m' d') m d)
    {l1 l2 : List (Nat × List Nat)} (hp : l1.Perm l2) (hP : ∀ s ∈ l1, P s.1 s.2) (f : Flash) :
    S.storeAll f l1 = S.storeAll f l2 := by
  induction hp generalizing f with
  | nil => rfl
  | cons x _ ih =>
    obtain ⟨m, d⟩ := x
    simp only [storeAll]
    exact ih (fun s hs => hP s (List.mem_cons_of_mem _ hs)) _
  | swap x y l =>
    obtain ⟨m, d⟩ := x
    obtain ⟨m', d'⟩ := y
    simp only [storeAll]
    rw [hcomm f m' d' m d (hP (m', d') List.mem_cons_self) (hP (m, d) (List.mem_cons_of_mem _ List.mem_cons_self))]
  | trans h1 _ ih1 ih2 => rw [ih1 hP, ih2 (fun s hs => hP s (h1.mem_iff.mpr hs))]

end SlotSys

/-! ## programs that need no 0 → 1 transition -/

/-- every programmed byte lands on an erased cell or is `0xFF` (which leaves the cell as it is: `a &&& 0xFF = a`) -/
def ProgramOk (f : Flash) (a : Nat) (bs : List Nat) : Prop :=
  ∀ i, i < bs.length → f.byte (a + i) = 0xFF ∨ bs[i]? = some 0xFF

/-- `ProgramOk` for every program of an access sequence, each judged on the medium as it is when issued -/
def SeqOk : Flash → List Acc → Prop
  | _, [] => True
  | f, .program a bs :: rest => ProgramOk f a bs ∧ SeqOk (applyAcc f (.program a bs)) rest
  | f, acc :: rest => SeqOk (applyAcc f acc) rest

/-- what `ProgramOk` buys: afterwards every cell holds the programmed byte, or (for a `0xFF`) what it held before -/
theorem ProgramOk.sound {f : Flash} {a : Nat} {bs : List Nat} (h : ProgramOk f a bs) (hwf : WF f)
    (hb : ∀ b ∈ bs, b < 256) (hs : a + bs.length ≤ f.size) (i : Nat) (hi : i < bs.length) :
    (f.apply (.program a bs)).byte (a + i) = bs[i] ∨
      (bs[i] = 0xFF ∧ (f.apply (.program a bs)).byte (a + i) = f.byte (a + i)) := by
  rw [byte_apply_program_of_mem f a bs (a + i) hs (by omega) (by omega)]
  have e : a + i - a = i := by omega
  simp only [e]
  rcases h i hi with h | h
  · left; rw [h]; exact ff_and_of_lt (hb _ (List.getElem_mem _))
  · right
    rw [List.getElem?_eq_getElem hi] at h
    have h' : bs[i] = 0xFF := Option.some.inj h
    exact ⟨h', by rw [h']; exact and_ff_of_lt (hwf _)⟩

theorem SeqOk_append (f : Flash) (l1 l2 : List Acc) : SeqOk f (l1 ++ l2) ↔ SeqOk f l1 ∧ SeqOk (applyAccs f l1) l2 := by
  induction l1 generalizing f with
  | nil => simp [SeqOk, applyAccs_nil]
  | cons a l1 ih =>
    cases a with
    | erase x y => simp only [List.cons_append, SeqOk, applyAccs_cons, ih]
    | read x y => simp only [List.cons_append, SeqOk, applyAccs_cons, ih]
    | program x y => simp only [List.cons_append, SeqOk, applyAccs_cons, ih, and_assoc]

/-- no program of a whole sequence of stores of distinct indices into erased regions needs a 0 → 1 transition -/
theorem SlotSys.seqOk_all (S : SlotSys) (accs : Nat → List Nat → List Acc)
    (hst : ∀ f m d, S.store f m d = applyAccs f (accs m d))
    (h1 : ∀ f m d, S.good f → S.ok m d → Erased f (S.lo m) (S.hi m) → SeqOk f (accs m d))
    {f : Flash} {stores : List (Nat × List Nat)} (hg : S.good f)
    (hok : ∀ s ∈ stores, S.ok s.1 s.2) (hnd : (stores.map Prod.fst).Nodup)
    (her : ∀ s ∈ stores, Erased f (S.lo s.1) (S.hi s.1)) :
    SeqOk f (stores.flatMap (fun s => accs s.1 s.2)) := by
  induction stores generalizing f with
  | nil => trivial
  | cons s0 rest ih =>
    obtain ⟨m0, d0⟩ := s0
    have hok0 : S.ok m0 d0 := hok (m0, d0) List.mem_cons_self
    have hokr : ∀ s ∈ rest, S.ok s.1 s.2 := fun s hs => hok s (List.mem_cons_of_mem _ hs)
    simp only [List.map_cons, List.nodup_cons, List.mem_map, not_exists, not_and] at hnd
    rw [List.flatMap_cons, SeqOk_append]
    refine ⟨h1 f m0 d0 hg hok0 (her _ List.mem_cons_self), ?_⟩
    rw [← hst]
    apply ih (S.good_store hg hok0) hokr hnd.2
    intro s' hs' x hx1 hx2
    have hne : m0 ≠ s'.1 := fun h => hnd.1 s' hs' h.symm
    rw [S.frame_byte hg hok0 (by have := S.disjoint hne; omega)]
    exact her s' (List.mem_cons_of_mem _ hs') x hx1 hx2

/-! ## legality of accesses -/

/-- address and length are multiples of the device's write size (programs), read size (reads), erase size (erases) -/
def Acc.aligned (c : Cfg) : Acc → Prop
  | .program a bs => a % c.W = 0 ∧ bs.length % c.W = 0
  | .read a n => a % c.R = 0 ∧ n % c.R = 0
  | .erase a b => a % ERASE_SIZE = 0 ∧ b % ERASE_SIZE = 0

/-- the access stays inside the configured `flash_range` -/
def Acc.inRange (c : Cfg) : Acc → Prop
  | .program a bs => c.start ≤ a ∧ a + bs.length ≤ c.stop
  | .read a n => c.start ≤ a ∧ a + n ≤ c.stop
  | .erase a b => c.start ≤ a ∧ a ≤ b ∧ b ≤ c.stop

theorem Acc.check_eq_none {c : Cfg} {size : Nat} {a : Acc} (hal : a.aligned c) (hin : a.inRange c) (hs : c.stop ≤ size) :
    a.check c size = none := by
  cases a with
  | erase x y =>
    simp only [Acc.aligned, Acc.inRange] at hal hin
    simp only [Acc.check]
    rw [if_neg (by omega), if_neg (by omega)]
  | read x n =>
    simp only [Acc.aligned, Acc.inRange] at hal hin
    simp only [Acc.check]
    rw [if_neg (by omega), if_neg (by omega)]
  | program x bs =>
    simp only [Acc.aligned, Acc.inRange] at hal hin
    simp only [Acc.check]
    rw [if_neg (by omega), if_neg (by omega)]

/-- legal accesses all take effect: the device-checked execution `run` coincides with the pure model -/
theorem run_eq_of_legal (c : Cfg) (f : Flash) (accs : List Acc) (hs : c.stop ≤ f.size)
    (h : ∀ a ∈ accs, a.aligned c ∧ a.inRange c) : run c f accs = (accs, applyAccs f accs, none) := by
  induction accs generalizing f with
  | nil => rfl
  | cons a rest ih =>
    have ha := h a List.mem_cons_self
    simp only [run, Acc.check_eq_none ha.1 ha.2 hs]
    rw [ih (applyAcc f a) (by rw [size_applyAcc]; exact hs) (fun a' h' => h a' (List.mem_cons_of_mem _ h'))]
    rfl

theorem mod_of_mod_of_dvd {a W R : Nat} (hd : R ∣ W) (h : a % W = 0) : a % R = 0 := by
  rw [← Nat.mod_mod_of_dvd a hd, h, Nat.zero_mod]

end Fuota.FlashAdapters
