import Fuota.Lemmas.RefineSession
import Fuota.Lemmas.OpsStart
/-!
# Under the session invariant every program `handle_block` emits targets erased bytes
(so no program needs a 0 → 1 transition, and each reads back as written)
-/
namespace Fuota.Updater
open Fuota.Nor Fuota.Fs Fuota.FlashAdapters Fuota.Recon

/-- `d'` arose from `d` by programs only, each inside the device and obeying the write-once discipline at the moment
    it was applied; the 0 → 1 counter did not move -/
def Clean (d d' : Dev) : Prop :=
  ∃ new : List Op, d'.ops = new ++ d.ops ∧ d'.flash = d.flash.applyAll new.reverse ∧
    d'.needsSet = d.needsSet ∧ Ops.Discipline d.flash new.reverse ∧
    ∀ op ∈ new, ∃ a bs, op = .program a bs ∧ a + bs.length ≤ d.flash.size

/-- nothing emitted -/
theorem Clean.refl (d : Dev) : Clean d d := ⟨[], rfl, rfl, rfl, trivial, fun _ h => by simp at h⟩

/-- composition -/
theorem Clean.trans {d d' d'' : Dev} (h1 : Clean d d') (h2 : Clean d' d'') : Clean d d'' := by
  obtain ⟨n1, a1, a2, a3, a4, a5⟩ := h1
  obtain ⟨n2, b1, b2, b3, b4, b5⟩ := h2
  refine ⟨n2 ++ n1, by rw [b1, a1, List.append_assoc], ?_, b3.trans a3, ?_, ?_⟩
  · rw [b2, a2, List.reverse_append, Ops.applyAll_append]
  · rw [List.reverse_append, Ops.discipline_append]
    exact ⟨a4, by rw [← a2]; exact b4⟩
  · intro op hop
    rcases List.mem_append.1 hop with h | h
    · obtain ⟨a, bs, e, hin⟩ := b5 op h
      exact ⟨a, bs, e, by rw [a2, size_applyAll] at hin; exact hin⟩
    · exact a5 op h

/-- one program of bytes onto an erased in-range region is clean -/
theorem Clean.prog (d : Dev) (a : Nat) (bs : List Nat) (hb : IsBytes bs) (hin : a + bs.length ≤ d.flash.size)
    (he : Erased d.flash a (a + bs.length)) : Clean d (d.prog a bs) := by
  have hget : ∀ i, i < bs.length → bs.getD i 0 < 256 := by
    intro i hi
    rw [List.getD_eq_getElem?_getD, List.getElem?_eq_getElem hi]
    exact hb _ (List.getElem_mem hi)
  have hns : d.flash.needsSet a bs = false :=
    Ops.needsSet_erased d.flash a bs (fun i hi => he (a + i) (by omega) (by omega)) hget
  refine ⟨[.program a bs], rfl, rfl, ?_, ⟨fun i hi => ⟨hget i hi, Or.inl (he (a + i) (by omega) (by omega))⟩, trivial⟩,
    fun op hop => ?_⟩
  · show d.needsSet + (if d.flash.needsSet a bs then 1 else 0) = d.needsSet
    rw [hns]; rfl
  · simp only [List.mem_singleton] at hop
    exact ⟨a, bs, hop, hin⟩

/-- `write_segment` on an erased segment is clean -/
theorem clean_writeSegment {E : Nat → Prop} {u : Upd} {d : Dev} (L : Lawful' E u d) {i : Nat} (hi : i < u.n)
    (hE : E i) (buf : List Nat) (hb : IsBytes buf) (hlen : buf.length = u.bs) :
    Clean d (afterWriteSegment u d i buf) := by
  obtain ⟨e1, e2⟩ := L.herD i hi hE
  obtain ⟨h1, h2, h3, h4, h5, h6, h7⟩ := L.geo.slots
  obtain ⟨r1, r2, r3, r4⟩ := L.geo.regions.1 i hi
  have c1 := Clean.prog d (segAddr u i) buf hb (by omega) (by rw [hlen]; exact e1)
  have c2 := Clean.prog (d.prog (segAddr u i) buf) (statAddr u i) [0x33] (fun b hb => by simp at hb; omega)
    (by rw [Dev.prog_size]; simp; omega) (by
      intro x hx1 hx2
      simp only [List.length_singleton] at hx2
      have : x = statAddr u i := by omega
      subst this
      rw [Dev.prog_flash, byte_apply_program_of_not_mem _ _ _ _ (by omega)]
      exact e2)
  exact c1.trans c2

/-- storing a pivot (parity block, then matrix row) on erased places is clean -/
theorem clean_storePivot {E : Nat → Prop} {u : Upd} {d : Dev} (L : Lawful' E u d) {q : Nat} (hq : q < u.maxL)
    (hqu : u.used.testBit q = false) (row : Nat) (data : List Nat) (hb : IsBytes data) (hlen : data.length = u.bs) :
    Clean d ((d.prog (pAddr u q) data).prog (rAddr u q) (rowBytes q row)) := by
  obtain ⟨e1, e2⟩ := L.herP q hq hqu
  obtain ⟨hrB, hrL⟩ := rowBytes_spec q row
  obtain ⟨h1, h2, h3, h4, h5, h6, h7⟩ := L.geo.slots
  obtain ⟨r1, r2, r3, r4⟩ := L.geo.regions.2 q hq
  have c1 := Clean.prog d (pAddr u q) data hb (by omega) (by rw [hlen]; exact e1)
  have c2 := Clean.prog (d.prog (pAddr u q) data) (rAddr u q) (rowBytes q row) hrB
    (by rw [Dev.prog_size, hrL]; omega)
    (by rw [hrL, Dev.prog_flash]; exact erased_prog_other e2 _ _ (by omega))
  exact c1.trans c2

/-- the elimination loop is clean: it only reads, or stores one fresh pivot -/
theorem elim_clean {E : Nat → Prop} {u : Upd} {d : Dev} (L : Lawful' E u d) (wh : Nat) :
    ∀ (row : Nat) (data : List Nat), wh ≤ u.l → IsBytes data → data.length = u.bs →
    Clean d ((Updater.elim u wh row data).run d).2 := by
  induction wh with
  | zero => intro row data _ _ _; exact Clean.refl d
  | succ wh ih =>
    intro row data hwh hb hlen
    have hwm : wh < u.maxL := by have := L.hl; omega
    unfold Updater.elim
    by_cases h1 : row.testBit wh = true ∧ u.used.testBit wh = true
    · obtain ⟨hr, hu⟩ := h1
      have htb : IsBytes (d.flash.read (pAddr u wh) u.bs) := isBytes_read L.wf _ _
      simp only [hr, hu, Bool.and_self, ↓reduceIte, run_bind, hlen, pGet_run L.geo L.good hwm,
        mRow_run L.geo L.good hwm]
      exact ih _ _ (by omega) (hb.xorBytes htb) (by rw [length_xorBytes]; exact hlen)
    · by_cases hr : row.testBit wh = true
      · have hu : u.used.testBit wh = false := by
          cases hh : u.used.testBit wh <;> simp_all
        have g1 : Geo u (d.prog (pAddr u wh) data).flash.size := by rw [Dev.prog_size]; exact L.geo
        simp only [hr, hu, Bool.and_false, Bool.false_eq_true, ↓reduceIte, run_bind,
          pStore_run L.geo L.good hwm data hlen, mSetRow_run g1 (L.good.prog _ _) hwm, run_pure]
        exact clean_storePivot L hwm hu row data hb hlen
      · have hr' : row.testBit wh = false := by simpa using hr
        simp only [hr', Bool.false_and, Bool.false_eq_true, ↓reduceIte]
        exact ih row data (by omega) hb hlen

/-- `finish` is clean: every rebuilt block goes to a still-erased segment -/
theorem finishOuter_clean {u : Upd} (hlen : u.l = (unknowns u.done u.n).length) :
    ∀ (k i : Nat) (d : Dev), FinL u d (unknowns u.done u.n) i → i + k ≤ u.l →
    Clean d ((finishOuter (unknowns u.done u.n) (List.range' i k) u).run d).2 := by
  intro k
  induction k with
  | zero => intro i d _ _; exact Clean.refl d
  | succ k ih =>
    intro i d hF hik
    have L := hF.law
    have hil : i < u.l := by omega
    have him : i < u.maxL := Nat.lt_of_lt_of_le hil L.hl
    have hiU : i < (unknowns u.done u.n).length := by rw [← hlen]; exact hil
    have hfmem := Gf2.nth_mem _ i hiU
    rw [Gf2.mem_unknowns] at hfmem
    obtain ⟨hfn, hfd⟩ := hfmem
    have hnd := Gf2.nodup_unknowns u.done u.n
    have hfnot : Gf2.nth (unknowns u.done u.n) i ∉ (unknowns u.done u.n).take i := nth_not_mem_take _ hnd i hiU
    have htb : IsBytes (d.flash.read (pAddr u i) u.bs) := isBytes_read L.wf _ _
    have htl : (d.flash.read (pAddr u i) u.bs).length = u.bs := length_read _ _ _
    have hjs : ∀ j ∈ List.range i, j < (unknowns u.done u.n).length ∧ Gf2.nth (unknowns u.done u.n) j < u.n ∧
        d.flash.byte (statAddr u (Gf2.nth (unknowns u.done u.n) j)) = 0x33 := by
      intro j hj
      have hji := List.mem_range.1 hj
      have hjU : j < (unknowns u.done u.n).length := by omega
      have := Gf2.nth_mem _ j hjU
      rw [Gf2.mem_unknowns] at this
      exact ⟨hjU, this.1, hF.marked j hji⟩
    obtain ⟨out, hrun, hob, hol, _⟩ := finishInner_run L (unknowns u.done u.n)
      (bytesToNat (flipBit (d.flash.read (rAddr u i) (i / 8 + 1)) i)) (List.range i) hjs _ htb htl
    have hUi : (unknowns u.done u.n)[i]? = some (Gf2.nth (unknowns u.done u.n) i) :=
      Gf2.getElem?_eq_some_nth _ i hiU
    rw [List.range'_succ]
    unfold finishOuter
    simp only [run_bind, pGet_run L.geo L.good him, mRow_run L.geo L.good him, hrun, hUi,
      writeSegment_run L.geo L.good hfn out hol]
    have hL' : Lawful' (fun k => u.done.testBit k = false ∧ k ∉ (unknowns u.done u.n).take (i + 1)) u
        (afterWriteSegment u d (Gf2.nth (unknowns u.done u.n) i) out) :=
      L.writeSegment hfn ⟨hfd, hfnot⟩ out hob hol u.done
        (fun k hk => ⟨⟨hk.1, fun hm => hk.2 ((mem_take_succ _ i k hiU).2 (Or.inl hm))⟩,
          fun e => hk.2 ((mem_take_succ _ i k hiU).2 (Or.inr e))⟩)
        (fun k hk => Or.inl hk) L.hl2
    obtain ⟨_, _, hst, _, hfr⟩ := seg_write_effect L.geo L.wf hfn (L.herD _ hfn ⟨hfd, hfnot⟩) out hob hol
    have hF' : FinL u (afterWriteSegment u d (Gf2.nth (unknowns u.done u.n) i) out) (unknowns u.done u.n) (i + 1) := by
      refine ⟨hL', fun j hj => ?_⟩
      by_cases hji : j = i
      · subst hji; exact hst
      · have hjU : j < (unknowns u.done u.n).length := by omega
        have hne : Gf2.nth (unknowns u.done u.n) j ≠ Gf2.nth (unknowns u.done u.n) i :=
          fun e => hji (Gf2.nth_inj _ hnd j i hjU hiU e)
        have hjm := Gf2.nth_mem _ j hjU
        rw [Gf2.mem_unknowns] at hjm
        obtain ⟨q1, q2, q3, q4⟩ := L.geo.regions.1 _ hjm.1
        obtain ⟨r1, r2, r3, r4⟩ := L.geo.regions.1 _ hfn
        have hfl : (afterWriteSegment u d (Gf2.nth (unknowns u.done u.n) i) out).flash =
            (d.flash.apply (.program (segAddr u (Gf2.nth (unknowns u.done u.n) i)) out)).apply
              (.program (statAddr u (Gf2.nth (unknowns u.done u.n) i)) [0x33]) := rfl
        rw [hfl, hfr _ (by omega) (by simp only [statAddr]; omega)]
        exact hF.marked j (by omega)
    exact (clean_writeSegment L hfn ⟨hfd, hfnot⟩ out hob hol).trans (ih (i + 1) _ hF' (by omega))

/-- stage 2 of `handle_block` is clean -/
theorem stage2U_clean (ffr : Bool) {u : Upd} {d : Dev} (L : Lawful' (fun i => u.done.testBit i = false) u d)
    (hl0 : u.l ≠ 0) (index : Nat) (bytes : List Nat) (hb : IsBytes bytes) (hlen : bytes.length = u.bs) :
    Clean d ((stage2U ffr u index bytes).run (u, d)).2.2 := by
  have hlU := L.hl2 hl0
  unfold stage2U
  cases hrow : updaterRow ffr u.n index with
  | none =>
    simp only [runU_bind, runU_throw]
    exact Clean.refl d
  | some r =>
    obtain ⟨out1, hrun1, hob1, hol1, _⟩ := strip_run L r (List.range u.n) bytes hb hlen
    have hrowbits : ∀ j, u.l ≤ j → (project u.done u.n r).testBit j = false := by
      intro j hj
      rw [Gf2.testBit_project]
      have : ¬ j < (unknowns u.done u.n).length := by omega
      simp [this]
    obtain ⟨used', d', s', hrunE, _, _, hL'⟩ := elim_sim L u.l (abs (u, d)) (project u.done u.n r) out1
      (sim_abs u d) (Nat.le_refl _) hrowbits hob1 hol1
    have hc1 : Clean d d' := by
      have := elim_clean L u.l (project u.done u.n r) out1 (Nat.le_refl _) hob1 hol1
      rw [hrunE] at this; exact this
    simp only [runU_bind, runU_pure, runU_liftM, hrun1, hrunE, runU_setU]
    by_cases hc : rcComplete { u with used := used' } = true
    · rw [if_pos hc]
      have hF0 : FinL { u with used := used' } d' (unknowns u.done u.n) 0 :=
        ⟨hL'.mono (fun k hk => hk.1), fun j hj => by omega⟩
      have hc2 := finishOuter_clean (u := { u with used := used' }) hlU u.l 0 d' hF0 (by simp)
      rw [← List.range_eq_range'] at hc2
      simp only [runU_bind, runU_liftM]
      generalize (finishOuter (unknowns u.done u.n) (List.range u.l) { u with used := used' }).run d' = p at hc2 ⊢
      obtain ⟨res, d''⟩ := p
      cases res <;> exact hc1.trans hc2
    · rw [if_neg hc]
      exact hc1

/-- stage 1 of `handle_block` is clean (while the session is incomplete) -/
theorem stage1U_clean {u : Upd} {d : Dev} (L : Lawful u d) (hinc : rcComplete u = false) (index : Nat)
    (hi : index < u.n) (bytes : List Nat) (hb : IsBytes bytes) (hlen : bytes.length = u.bs) :
    Clean d ((stage1U u index bytes).run (u, d)).2.2 := by
  unfold stage1U
  by_cases hd : u.done.testBit index = true
  · simp only [hd, ↓reduceIte, runU_pure]
    exact Clean.refl d
  · have hd' : u.done.testBit index = false := by simpa using hd
    simp only [hd', Bool.false_eq_true, ↓reduceIte, runU_bind, runU_liftM,
      writeSegment_run L.base.geo L.base.good hi bytes hlen, runU_setU, runU_pure]
    exact clean_writeSegment L.base hi ⟨hinc, hd'⟩ bytes hb hlen

/-- **`handle_block` is clean under the session invariant**: whatever it answers, the device afterwards arose from
    the device before by programs inside the device that each targeted erased bytes; the 0 → 1 counter is unchanged -/
theorem handleBlock_clean (ffr : Bool) {u : Upd} {d : Dev} (L : Lawful u d) (index : Nat) (bytes : List Nat)
    (hb : IsBytes bytes) : Clean d ((handleBlock ffr index bytes).run (u, d)).2.2 := by
  by_cases hlen : bytes.length = u.bs
  · rw [handleBlock_eqU ffr u d index bytes hlen]
    by_cases hc : rcComplete u = true
    · rw [if_pos hc]; exact Clean.refl d
    have hinc : rcComplete u = false := by simpa using hc
    rw [if_neg hc]
    by_cases hpar : u.n ≤ index ∧ u.l = 0
    · by_cases hcap : VBITS < (unknowns u.done u.n).length ∨ u.maxL < (unknowns u.done u.n).length
      · have hr2 : u.n ≤ index ∧ u.l = 0 ∧
            (VBITS < (unknowns u.done u.n).length ∨ u.maxL < (unknowns u.done u.n).length) := ⟨hpar.1, hpar.2, hcap⟩
        rw [if_pos hr2]; exact Clean.refl d
      · have hr2 : ¬ (u.n ≤ index ∧ u.l = 0 ∧
            (VBITS < (unknowns u.done u.n).length ∨ u.maxL < (unknowns u.done u.n).length)) := fun h => hcap h.2.2
        rw [if_neg hr2]
        simp only [if_pos hpar]
        have hne : (unknowns u.done u.n).length ≠ 0 := by
          have := unknowns_length_ne_zero (abs (u, d)) hpar.2 (by rw [← rcComplete_eq]; exact hinc)
          exact this
        rw [if_neg hne]
        have hnoused : ∀ p, u.used.testBit p = true → False := fun p hp => by
          have := (L.base.hech p hp).1; omega
        have L1 : Lawful' (fun i => u.done.testBit i = false) { u with l := (unknowns u.done u.n).length } d := {
          geo := ⟨L.base.geo.hbs, L.base.geo.hn, L.base.geo.hfit, L.base.geo.hsz, L.base.geo.hmaxL, L.base.geo.hmo,
            L.base.geo.hne, L.base.geo.hfwin, L.base.geo.hparin, L.base.geo.hseg⟩
          good := L.base.good, wf := L.base.wf
          hl := by show (unknowns u.done u.n).length ≤ u.maxL; omega
          hl2 := fun _ => rfl
          hdone := L.base.hdone, hstat := L.base.hstat
          herD := fun i hi he => L.base.herD i hi ⟨hinc, he⟩
          hech := fun p hp => (hnoused p hp).elim
          herP := L.base.herP }
        exact stage2U_clean (u := { u with l := (unknowns u.done u.n).length }) ffr L1 hne index bytes hb hlen
    · have hr2 : ¬ (u.n ≤ index ∧ u.l = 0 ∧
          (VBITS < (unknowns u.done u.n).length ∨ u.maxL < (unknowns u.done u.n).length)) :=
        fun h => hpar ⟨h.1, h.2.1⟩
      rw [if_neg hr2]
      simp only [if_neg hpar]
      by_cases hl0 : u.l = 0
      · rw [if_pos hl0]
        have hi : index < u.n := by
          have : ¬ u.n ≤ index := fun h => hpar ⟨h, hl0⟩
          omega
        exact stage1U_clean L hinc index hi bytes hb hlen
      · rw [if_neg hl0]
        exact stage2U_clean ffr (L.base.mono (fun i hi => ⟨hinc, hi⟩)) hl0 index bytes hb hlen
  · unfold handleBlock
    simp only [runU_bind, runU_getU, ne_eq, hlen, not_false_eq_true, ↓reduceIte, runU_throw]
    exact Clean.refl d

/-- `handle_segment` is clean under the session invariant -/
theorem handleSegment_clean (ffr : Bool) {u : Upd} {d : Dev} (L : Lawful u d) (idx1 : Nat) (bytes : List Nat)
    (hb : IsBytes bytes) : Clean d ((handleSegment ffr idx1 bytes).run (u, d)).2.2 := by
  by_cases h : idx1 = 0
  · unfold handleSegment
    simp only [h, ↓reduceIte]
    exact Clean.refl d
  · have hc := handleBlock_clean ffr L (idx1 - 1) bytes hb
    rw [handleSegment_run ffr idx1 bytes h]
    generalize (handleBlock ffr (idx1 - 1) bytes).run (u, d) = p at hc ⊢
    obtain ⟨res, u', d'⟩ := p
    cases res with
    | error e => exact hc
    | ok o =>
      cases o with
      | none => exact hc
      | some b => cases b <;> exact hc

/-- `handle_segment` keeps the session invariant (block of the right length, made of bytes, row generator defined
    at this fragment number) -/
theorem handleSegment_lawful (ffr : Bool) (idx1 : Nat) (bytes : List Nat) {u : Upd} {d : Dev} (L : Lawful u d)
    (hb : IsBytes bytes) (hlen : bytes.length = u.bs) (hrow : (updaterRow ffr u.n (idx1 - 1)).isSome = true) :
    Lawful ((handleSegment ffr idx1 bytes).run (u, d)).2.1 ((handleSegment ffr idx1 bytes).run (u, d)).2.2 ∧
    Static u ((handleSegment ffr idx1 bytes).run (u, d)).2.1 := by
  by_cases h : idx1 = 0
  · unfold handleSegment
    simp only [h, ↓reduceIte]
    exact ⟨L, Static.refl u⟩
  · obtain ⟨_, c2, _, c4⟩ := handleBlock_sim ⟨false⟩ ffr L (idx1 - 1) bytes hb hlen hrow
    rw [handleSegment_run ffr idx1 bytes h]
    generalize (handleBlock ffr (idx1 - 1) bytes).run (u, d) = p at c2 c4 ⊢
    obtain ⟨res, u', d'⟩ := p
    cases res with
    | error e => exact ⟨c2, c4⟩
    | ok o =>
      cases o with
      | none => exact ⟨c2, c4⟩
      | some b =>
        cases b with
        | false => exact ⟨c2, c4⟩
        | true => exact ⟨c2.setComplete true, c4⟩

end Fuota.Updater
