import Fuota.Lemmas.RefineTornWitness
/-!
# The torn matrix-row scenario: recovery accepts the wrong row, the redelivery completes with a wrong block
-/
namespace Fuota.Updater
open Fuota.Nor Fuota.Fs Fuota.FlashAdapters Fuota.Recon Fuota.Layout Fuota.Gf2 Fuota.C07b

/-- the model's answer to the redelivered fragment 3 from `wrongSt`: `Done`, with block 0 rebuilt as `0` -/
theorem wrongSt_step :
    (Recon.handleBlock ⟨false⟩ noFault (fun m => (updaterRow false 2 m).getD 0) 2048 483 wrongSt 2 9 1).2 = .done 2 ∧
    Recon.get (Recon.handleBlock ⟨false⟩ noFault (fun m => (updaterRow false 2 m).getD 0) 2048 483 wrongSt 2 9 1).1.ds 0
      = 0 ∧
    isComplete (Recon.handleBlock ⟨false⟩ noFault (fun m => (updaterRow false 2 m).getD 0) 2048 483 wrongSt 2 9 1).1
      = true := by
  decide +kernel

/-- **steps 3 and 4: recovery, then the same fragment again.** On the rebooted device holding `tornFlash`,
`try_recover_inner` succeeds without touching the device, and delivering coded fragment 3 again answers
`FirmwareComplete`; the final device carries the written mark of block 0, and block 0 reads `0`. -/
theorem witness_resume {u0 : Upd} {d0 : Dev} {sa sb : Nat} (F : Fresh2 u0 d0 sa sb)
    (hin : 2 * u0.fw.size ≤ d0.flash.size) (hnew : NewestPair 2 u0 d0 sa sb) (hoth : OthersSettled 2 u0 d0)
    {e : Dev} (hG : Good e) (hf : e.flash = tornFlash u0 d0) :
    ∃ u', (tryRecoverInner 2 u0.fw.size).run e = (.ok (some u'), e) ∧
      ((handleSegment false 3 [9]).run (u', e)).1 = .ok .complete ∧
      ((handleSegment false 3 [9]).run (u', e)).2.2.flash.byte (statAddr u0 0) = 0x33 ∧
      ((handleSegment false 3 [9]).run (u', e)).2.2.flash.byte (segAddr u0 0) = 0 := by
  obtain ⟨Lw, hS⟩ := witness_wrong_state F hG hf
  obtain ⟨hsz, hwf, hfr, hba, hbr⟩ := tornFlash_bytes F
  obtain ⟨LH, hl, hd, hu, hn, hbs, hm⟩ := F
  have g := LH.law.base.geo
  obtain ⟨h1, h2, h3, h4, h5, h6, h7⟩ := g.slots
  obtain ⟨q1, q2, q3, q4⟩ := g.regions.2 1 (by rw [hm]; omega)
  have hfb : fwBase u0 = u0.fw.idx * u0.fw.size := rfl
  have hpb : parBase u0 = u0.par.idx * u0.par.size := rfl
  have hps : parBase u0 = u0.par.idx * u0.fw.size := by rw [hpb, h2]
  -- headers are untouched
  have hfr' : ∀ x, ¬ (parBase u0 + 1024 ≤ x ∧ x < parBase u0 + u0.fw.size) → e.flash.byte x = d0.flash.byte x := by
    intro x hx; rw [hf]; exact hfr x (by omega) (by omega)
  have hhd : NoPanic.hdrs e.flash 2 u0.fw.size = NoPanic.hdrs d0.flash 2 u0.fw.size :=
    hdrs_frame_slot 2 u0.fw.size u0.par.idx (fun x hx => hfr' x (by omega))
  have LH2 : LawfulH (wrongUpd u0) e sa sb := by
    refine ⟨Lw, ?_, ?_⟩
    · show NoPanic.hdrAt e.flash (u0.fw.idx * u0.fw.size) = some (fwHdr u0 sa)
      rw [← LH.hfw]; exact hdrAt_congr (fun x hx1 hx2 => hfr' x (by omega))
    · show NoPanic.hdrAt e.flash (u0.par.idx * u0.par.size) = some (parHdr u0 sb)
      rw [← LH.hpar]; exact hdrAt_congr (fun x hx1 hx2 => hfr' x (by omega))
  have hincw : rcComplete (wrongUpd u0) = false :=
    rcComplete_stage2_false (p := 0) (by show (2 : Nat) ≠ 0; omega) (by show 0 < 2; omega)
      (by show Nat.testBit 2 0 = false; decide)
  obtain ⟨u', hrun, c1, c2, c3, c4, c5, c6, c7, c8, cused, _, cl, hI, _⟩ :=
    recover_refines 2 LH2 (by show 2 * u0.fw.size ≤ e.flash.size; rw [hf, hsz]; exact hin)
      (by show twoNewest (indexed (NoPanic.hdrs e.flash 2 u0.fw.size)) = _; rw [hhd]; exact hnew)
      (by show ∀ q ∈ indexed (NoPanic.hdrs e.flash 2 u0.fw.size), _; rw [hhd]; exact hoth)
  obtain ⟨hdone', _, hLw', hc', _⟩ := hI hincw
  refine ⟨u', hrun, ?_⟩
  have hR : SameRegions (wrongUpd u0) (warm u') := ⟨c1, c2, c3, c4, c5, c6, c7, c8⟩
  have hn' : (warm u').n = 2 := by show u'.n = 2; rw [c5]; exact hn
  have hbs' : (warm u').bs = 1 := by show u'.bs = 1; rw [c6]; exact hbs
  have hm' : (warm u').maxL = 483 := by show u'.maxL = 483; rw [c7]; exact hm
  have hl' : (warm u').l = (wrongUpd u0).l := by
    show u'.l = 2
    rw [cl, if_neg (by show (2 : Nat) ≠ 0; omega), hdone']
    show (unknowns u0.done u0.n).length = 2
    rw [hd, hn]; decide
  have hSw : Sim wrongSt (warm u') e.flash := hS.transfer hR hl' hdone' cused
  have hbytes : IsBytes [9] := fun x hx => by rw [List.mem_singleton.1 hx]; decide
  -- the empty cache is transparent
  obtain ⟨⟨w1, w2, _⟩, _⟩ := handleSegment_warm false hLw' hc' 3 [9] hbytes (by show 1 = u'.bs; rw [c6]; exact hbs.symm)
  rw [w1, w2]
  -- the warm run simulates the model from `wrongSt`
  obtain ⟨k1, k2, k3, k4⟩ := handleBlock_sim_gen ⟨false⟩ false hLw' 2 [9] hbytes (by rw [hbs']; rfl)
    (by rw [hn']; decide +kernel) wrongSt hSw
  rw [hn', hm', show bytesToNat [9] = 9 from by decide, show wrongSt.bs = 1 from rfl] at k1 k3
  obtain ⟨t1, t2, t3⟩ := wrongSt_step
  rw [t1] at k1
  have hcomp : rcComplete ((handleBlock false 2 [9]).run (warm u', e)).2.1 = true := by
    rw [← Sim.complete k3]; exact t3
  have hds := (k3.2.2.2.2.2.1 0).symm
  rw [t2] at hds
  obtain ⟨s1, s2, s3, s4, _, _⟩ := k4
  have hmark := k2.marked hcomp 0 (by rw [s3, hn']; omega)
  rw [handleSegment_run false 3 [9] (by omega), show 3 - 1 = 2 from rfl]
  generalize (handleBlock false 2 [9]).run (warm u', e) = q at k1 k2 hds hmark s1 s2 s3 s4 hcomp
  obtain ⟨res, uf, df⟩ := q
  simp only at k1 hds hmark s1 s2 s3 s4
  have hst : statAddr uf 0 = statAddr u0 0 := by
    simp only [statAddr, fwBase, s1]; show u'.fw.idx * u'.fw.size + 1024 + 0 = _; rw [c1, c2]; rfl
  have hsg : segAddr uf 0 = segAddr u0 0 := by
    simp only [segAddr, fwBase, s1, s4]; show u'.fw.idx * u'.fw.size + 17408 + 0 * u'.bs = _; rw [c1, c2, c6]; rfl
  rw [hst] at hmark
  have hbyte : df.flash.byte (segAddr u0 0) = 0 := by
    unfold dsVal at hds
    rw [if_pos ⟨by rw [s3, hn']; omega, by rw [hst]; exact hmark⟩, hsg, s4, hbs', read_one] at hds
    simpa [bytesToNat] using hds
  cases res with
  | error er => exact k1.elim
  | ok o =>
    cases o with
    | none => exact k1.elim
    | some b =>
      cases b with
      | false => exact k1.elim
      | true => exact ⟨rfl, hmark, hbyte⟩

/-- the model state of the fresh session -/
def freshSt : St := { n := 2, bs := 1 }

/-- the model's answer to fragment 3 delivered first to the fresh session: `NeedMore` -/
theorem freshSt_step :
    (Recon.handleBlock ⟨false⟩ noFault (fun m => (updaterRow false 2 m).getD 0) 2048 483 freshSt 2 9 1).2 = .needMore := by
  decide +kernel

/-- **the uninterrupted delivery** of coded fragment 3 to the fresh session answers `Consumed` -/
theorem witness_uninterrupted {u0 : Upd} {d0 : Dev} {sa sb : Nat} (F : Fresh2 u0 d0 sa sb) :
    ((handleSegment false 3 [9]).run (u0, d0)).1 = .ok .consumed := by
  obtain ⟨LH, hl, hd, hu, hn, hbs, hm⟩ := F
  have L := LH.law
  have g := L.base.geo
  have hinc0 : rcComplete u0 = false := by
    cases hc : rcComplete u0 with
    | false => rfl
    | true =>
      have := (rcComplete_stage1 u0 hl).1 hc 0 (by omega)
      rw [hd] at this; simp at this
  have hS : Sim freshSt u0 d0.flash := by
    refine ⟨hn.symm, hbs.symm, hl.symm, hd.symm, hu.symm, fun k => ?_, fun k => ?_, fun k => ?_⟩
    · show Recon.get [] k = _
      unfold dsVal
      by_cases hk : k < u0.n
      · rw [if_neg (by rw [(L.base.herD k hk ⟨hinc0, by rw [hd]; simp⟩).2]; simp)]; rfl
      · rw [if_neg (fun h => hk h.1)]; rfl
    · show Recon.get [] k = _
      simp [psVal, hu]; rfl
    · show Recon.get [] k = _
      simp [msVal, hu]; rfl
  have hbytes : IsBytes [9] := fun x hx => by rw [List.mem_singleton.1 hx]; decide
  obtain ⟨k1, _, _, _⟩ := handleBlock_sim_gen ⟨false⟩ false L 2 [9] hbytes (by rw [hbs]; rfl)
    (by rw [hn]; decide +kernel) freshSt hS
  rw [hn, hm, show bytesToNat [9] = 9 from by decide, show freshSt.bs = 1 from rfl, freshSt_step] at k1
  rw [handleSegment_run false 3 [9] (by omega), show 3 - 1 = 2 from rfl]
  generalize (handleBlock false 2 [9]).run (u0, d0) = q at k1
  obtain ⟨res, s'⟩ := q
  cases res with
  | error er => exact k1.elim
  | ok o =>
    cases o with
    | none => exact k1.elim
    | some b =>
      cases b with
      | false => rfl
      | true => exact k1.elim

end Fuota.Updater
