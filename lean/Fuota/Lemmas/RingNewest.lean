import Fuota.Lemmas.RingList
/-!
# Ring lemmas, part 5: `twoNewest` (newest / second newest of `try_recover_inner`)

`twoNewest l = (first largest of l, first largest of l without that entry)`; it only looks at sequence numbers, so
it is stable under erasing or re-marking other slots (`twoNewest_stable`).
-/
namespace Fuota.Ring
open Fuota.Layout Fuota.Fs Fuota.Updater Fuota.Slots

abbrev ltN : Nat → Nat → Prop := fun a b => a < b

/-- the fold step of `twoNewest` -/
def tnStep (acc : Option (Nat × Header) × Option (Nat × Header)) (p : Nat × Header) :
    Option (Nat × Header) × Option (Nat × Header) :=
  match acc.1 with
  | none => (some p, acc.2)
  | some nw =>
    if nw.2.seq < p.2.seq then (some p, some nw)
    else match acc.2 with
      | none => (acc.1, some p)
      | some sn => if sn.2.seq < p.2.seq then (acc.1, some p) else acc

theorem twoNewest_eq (l : List (Nat × Header)) : twoNewest l = l.foldl tnStep (none, none) := rfl

theorem tnStep_fst (acc : Option (Nat × Header) × Option (Nat × Header)) (p : Nat × Header) :
    (tnStep acc p).1 = bestStep ltN acc.1 p := by
  unfold tnStep bestStep
  cases h1 : acc.1 with
  | none => rfl
  | some nw =>
    simp only
    by_cases hlt : nw.2.seq < p.2.seq
    · simp [hlt, ltN]
    · simp only [hlt, ↓reduceIte, ltN]
      cases h2 : acc.2 with
      | none => simp
      | some sn =>
        simp only
        split <;> simp [h1]

theorem tn_fst (acc : Option (Nat × Header) × Option (Nat × Header)) (l : List (Nat × Header)) :
    (l.foldl tnStep acc).1 = l.foldl (bestStep ltN) acc.1 := by
  induction l generalizing acc with
  | nil => rfl
  | cons x l ih =>
    simp only [List.foldl_cons]
    rw [ih, tnStep_fst]

theorem twoNewest_fst (l : List (Nat × Header)) : (twoNewest l).1 = bestBy ltN l := by
  rw [twoNewest_eq, tn_fst]; rfl

theorem snoc_ind {α : Type} {P : List α → Prop} (h0 : P []) (hs : ∀ l x, P l → P (l ++ [x])) : ∀ l, P l := by
  intro l
  have key : ∀ l : List α, P l.reverse := by
    intro l
    induction l with
    | nil => exact h0
    | cons x l ih => rw [List.reverse_cons]; exact hs _ _ ih
  have := key l.reverse
  rwa [List.reverse_reverse] at this

theorem bestBy_snoc (l : List (Nat × Header)) (x : Nat × Header) :
    bestBy ltN (l ++ [x]) = bestStep ltN (bestBy ltN l) x := by
  unfold bestBy
  rw [List.foldl_append]; rfl

/-- the second component: the first largest among the entries other than the newest -/
theorem twoNewest_snd (l : List (Nat × Header)) (hs : l.Pairwise (fun p q => p.1 < q.1)) :
    (twoNewest l).2 =
      match bestBy ltN l with
      | none => none
      | some nw => bestBy ltN (l.filter fun q => decide (q.1 ≠ nw.1)) := by
  revert hs
  refine snoc_ind (P := fun l => l.Pairwise (fun p q => p.1 < q.1) → (twoNewest l).2 =
      match bestBy ltN l with
      | none => none
      | some nw => bestBy ltN (l.filter fun q => decide (q.1 ≠ nw.1))) ?_ ?_ l
  · intro _; rfl
  · intro l x ih hs
    rw [List.pairwise_append] at hs
    obtain ⟨hs1, _, hs3⟩ := hs
    have hlx : ∀ q ∈ l, q.1 < x.1 := fun q hq => hs3 q hq x (by simp)
    have ih := ih hs1
    have hstep : twoNewest (l ++ [x]) = tnStep (twoNewest l) x := by
      rw [twoNewest_eq, twoNewest_eq, List.foldl_append]; rfl
    rw [hstep, bestBy_snoc]
    have hfst := twoNewest_fst l
    cases hb : bestBy ltN l with
    | none =>
      have : l = [] := bestBy_eq_none.mp hb
      subst this
      simp [twoNewest, tnStep, bestStep, bestBy]
    | some nw =>
      rw [hb] at hfst ih
      have hnwl : nw ∈ l := bestBy_mem hb
      have hnwx : nw.1 < x.1 := hlx nw hnwl
      unfold tnStep
      rw [hfst]
      simp only [bestStep]
      by_cases hlt : nw.2.seq < x.2.seq
      · simp only [hlt, ↓reduceIte, ltN]
        have hfil : (l ++ [x]).filter (fun q => decide (q.1 ≠ x.1)) = l := by
          rw [List.filter_append]
          have h1 : l.filter (fun q => decide (q.1 ≠ x.1)) = l := by
            rw [List.filter_eq_self]
            intro q hq
            have := hlx q hq
            simp; omega
          rw [h1]
          simp
        rw [hfil, hb]
      · simp only [hlt, ↓reduceIte, ltN]
        have hfil : (l ++ [x]).filter (fun q => decide (q.1 ≠ nw.1)) =
            l.filter (fun q => decide (q.1 ≠ nw.1)) ++ [x] := by
          rw [List.filter_append]
          congr 1
          have : x.1 ≠ nw.1 := by omega
          simp [this]
        have ih' : (twoNewest l).2 = bestBy ltN (l.filter fun q => decide (q.1 ≠ nw.1)) := ih
        rw [hfil, bestBy_snoc, ← ih']
        cases h2 : (twoNewest l).2 with
        | none => rfl
        | some sn =>
          simp only [bestStep]
          split <;> simp_all

theorem twoNewest_eq_some_iff {l : List (Nat × Header)} (hs : l.Pairwise (fun p q => p.1 < q.1))
    {nw sn : Nat × Header} :
    twoNewest l = (some nw, some sn) ↔
      bestBy ltN l = some nw ∧ bestBy ltN (l.filter fun q => decide (q.1 ≠ nw.1)) = some sn := by
  have h1 := twoNewest_fst l
  have h2 := twoNewest_snd l hs
  constructor
  · intro h
    rw [h] at h1 h2
    simp only at h1 h2
    rw [← h1] at h2
    exact ⟨h1.symm, h2.symm⟩
  · rintro ⟨ha, hb⟩
    rw [ha] at h1 h2
    simp only at h2
    rw [hb] at h2
    exact Prod.ext h1 h2

/-- pointwise: the newest is the first slot with the largest sequence number, the second newest the first slot
    with the largest sequence number among the others -/
theorem twoNewest_indexed_iff {hs : Hdrs} {nw sn : Nat × Header} :
    twoNewest (indexed hs) = (some nw, some sn) ↔
      (Used hs nw.1 nw.2 ∧
        ∀ j h, Used hs j h → (j < nw.1 → h.seq < nw.2.seq) ∧ (nw.1 < j → h.seq ≤ nw.2.seq)) ∧
      (Used hs sn.1 sn.2 ∧ sn.1 ≠ nw.1 ∧
        ∀ j h, Used hs j h → j ≠ nw.1 → (j < sn.1 → h.seq < sn.2.seq) ∧ (sn.1 < j → h.seq ≤ sn.2.seq)) := by
  have hsorted := indexed_sorted hs
  have hsorted2 : ((indexed hs).filter fun q => decide (q.1 ≠ nw.1)).Pairwise (fun p q => p.1 < q.1) :=
    List.Pairwise.sublist List.filter_sublist hsorted
  rw [twoNewest_eq_some_iff hsorted, bestBy_iff scan_lt hsorted, bestBy_iff scan_lt hsorted2]
  constructor
  · rintro ⟨⟨hm1, hall1⟩, ⟨hm2, hall2⟩⟩
    rw [List.mem_filter] at hm2
    refine ⟨⟨mem_indexed.mp hm1, ?_⟩, ⟨mem_indexed.mp hm2.1, by simpa using hm2.2, ?_⟩⟩
    · intro j h hu
      have := hall1 (j, h) (mem_indexed.mpr hu)
      exact ⟨this.1, fun hlt => Nat.le_of_not_lt (this.2 hlt)⟩
    · intro j h hu hne
      have := hall2 (j, h) (by
        rw [List.mem_filter]
        exact ⟨mem_indexed.mpr hu, by simpa using hne⟩)
      exact ⟨this.1, fun hlt => Nat.le_of_not_lt (this.2 hlt)⟩
  · rintro ⟨⟨hu1, hall1⟩, ⟨hu2, hne, hall2⟩⟩
    refine ⟨⟨mem_indexed.mpr hu1, ?_⟩, ⟨?_, ?_⟩⟩
    · intro q hq
      have := hall1 q.1 q.2 (mem_indexed.mp hq)
      exact ⟨this.1, fun hlt => Nat.not_lt.mpr (this.2 hlt)⟩
    · rw [List.mem_filter]
      exact ⟨mem_indexed.mpr hu2, by simpa using hne⟩
    · intro q hq
      rw [List.mem_filter] at hq
      have := hall2 q.1 q.2 (mem_indexed.mp hq.1) (by simpa using hq.2)
      exact ⟨this.1, fun hlt => Nat.not_lt.mpr (this.2 hlt)⟩

/-- **`twoNewest` is stable** under erasing other slots and changing anything but the sequence number of other
    slots -/
theorem twoNewest_stable {hs hs' : Hdrs} {nw sn : Nat × Header}
    (h : twoNewest (indexed hs) = (some nw, some sn))
    (hnw : Used hs' nw.1 nw.2) (hsn : Used hs' sn.1 sn.2)
    (hsub : ∀ j h', Used hs' j h' → ∃ h0, Used hs j h0 ∧ h0.seq = h'.seq) :
    twoNewest (indexed hs') = (some nw, some sn) := by
  rw [twoNewest_indexed_iff] at h ⊢
  obtain ⟨⟨_, hall1⟩, ⟨_, hne, hall2⟩⟩ := h
  refine ⟨⟨hnw, ?_⟩, ⟨hsn, hne, ?_⟩⟩
  · intro j h' hu
    obtain ⟨h0, hu0, hseq⟩ := hsub j h' hu
    rw [← hseq]
    exact hall1 j h0 hu0
  · intro j h' hu hj
    obtain ⟨h0, hu0, hseq⟩ := hsub j h' hu
    rw [← hseq]
    exact hall2 j h0 hu0 hj

/-- both answers of `twoNewest` are entries of the list -/
theorem twoNewest_mem {hs : Hdrs} {nw sn : Nat × Header} (h : twoNewest (indexed hs) = (some nw, some sn)) :
    Used hs nw.1 nw.2 ∧ Used hs sn.1 sn.2 ∧ sn.1 ≠ nw.1 := by
  rw [twoNewest_indexed_iff] at h
  exact ⟨h.1.1, h.2.1, h.2.2.1⟩

/-- the first answer of `twoNewest`, when there is one, is an entry of the list -/
theorem twoNewest_fst_mem {l : List (Nat × Header)} {nw : Nat × Header} (h : (twoNewest l).1 = some nw) : nw ∈ l := by
  rw [twoNewest_fst] at h
  exact bestBy_mem h

end Fuota.Ring
