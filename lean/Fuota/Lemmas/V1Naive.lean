import Fuota.Lemmas.V1View
import Fuota.Lemmas.V1Monad
import Fuota.Lemmas.V1Same
/-!
# The naive updater refines the mask-level machine `Abs` (C19)

`NInv cfg u d a D seg`: the session `u` on the device `d` (no injection armed) *is* the abstract state `a` for the
image `D`: the two status tables encode `a.fw` / `a.par`, fragments marked written hold the originals / the XOR of the
originals their row covers, the others are still erased, the in-memory counters count the missing ones.
-/
set_option linter.unusedSimpArgs false
namespace Fuota.V1
open Fuota.Nor Fuota.Fs Fuota.Layout Fuota.FlashAdapters Fuota.Updater Fuota.Naive

/-- static facts of a naive session with `n` data and `parLen` parity fragments of `seg` bytes -/
structure NGeo (u : Naive.Upd) (fsz n parLen seg : Nat) : Prop where
  fwc : u.fw.segSize = some seg
  parc : u.par.segSize = some seg
  size_eq : u.par.size = u.fw.size
  ne : u.fw.idx ≠ u.par.idx
  fw_in : u.fw.idx * u.fw.size + u.fw.size ≤ fsz
  par_in : u.par.idx * u.par.size + u.par.size ≤ fsz
  seg_pos : 1 ≤ seg
  seg_le : seg ≤ 256
  n_le : n ≤ 16384
  p_le : parLen ≤ 16384
  fw_fit : 17408 + n * seg ≤ u.fw.size
  par_fit : 17408 + parLen * seg ≤ u.par.size
  tf : u.totalFw = n
  tp : u.totalPar = parLen

/-- what coded fragment `p` must hold -/
def parVal (rowOf : Nat → Option Nat) (D : Nat → List Nat) (n seg : Nat) : Nat → List Nat :=
  fun p => match rowOf p with
    | some row => coded D row n seg
    | none => []

structure NInv (cfg : Naive.Cfg) (u : Naive.Upd) (d : Dev) (a : Abs) (D : Nat → List Nat) (seg : Nat) : Prop where
  good : Good d
  wf : WF d.flash
  geo : NGeo u d.flash.size a.n a.parLen seg
  rowEq : a.rowOf = fun p => Lfdbt.getParityMatrixRow cfg.ffr ((p + 1) % 2 ^ 32) a.n
  rows : ∀ p, p < a.parLen → (a.rowOf p).isSome = true
  fwV : SlotView u.fw d.flash seg a.n a.fw D
  parV : SlotView u.par d.flash seg a.parLen a.par (parVal a.rowOf D a.n seg)
  cntF : u.remFw = a.n - countBits a.fw a.n
  cntP : u.remPar = a.parLen - countBits a.par a.parLen
  Dlen : ∀ i, i < a.n → (D i).length = seg
  Dbytes : ∀ i, i < a.n → IsBytes (D i)

/-! ## counting -/

theorem countBits_lt_of_unset (a n i : Nat) (hi : i < n) (hb : a.testBit i = false) : countBits a n < n := by
  have h1 := countBits_or_pow a i n hi hb
  have h2 := countBits_le (a ||| 2 ^ i) n
  omega

theorem countBits_full (a : Nat) : ∀ n, countBits a n = n → ∀ i, i < n → a.testBit i = true := by
  intro n
  induction n with
  | zero => intro _ i hi; omega
  | succ k ih =>
    intro h i hi
    unfold countBits at h
    have hle := countBits_le a k
    by_cases hk : a.testBit k = true
    · simp only [hk, ↓reduceIte] at h
      by_cases hik : i = k
      · subst hik; exact hk
      · exact ih (by omega) i (by omega)
    · simp only [hk, Bool.false_eq_true, ↓reduceIte] at h
      omega

theorem countBits_zero (a : Nat) : ∀ n, countBits a n = 0 → ∀ i, i < n → a.testBit i = false := by
  intro n
  induction n with
  | zero => intro _ i hi; omega
  | succ k ih =>
    intro h i hi
    unfold countBits at h
    by_cases hk : a.testBit k = true
    · simp only [hk, ↓reduceIte] at h; omega
    · simp only [hk, Bool.false_eq_true, ↓reduceIte, Nat.add_zero] at h
      by_cases hik : i = k
      · subst hik; simpa using hk
      · exact ih h i (by omega)

theorem or_pow_of_set (a i : Nat) (h : a.testBit i = true) : a ||| 2 ^ i = a := by
  apply Nat.eq_of_testBit_eq
  intro j
  rw [testBit_or_pow]
  by_cases hj : j = i
  · subst hj; simp [h]
  · simp [hj]

theorem below_or_pow {a n i : Nat} (h : Below a n) (hi : i < n) : Below (a ||| 2 ^ i) n := by
  intro j hj
  rw [testBit_or_pow, h j hj]
  have : ¬ j = i := by omega
  simp [this]

/-! ## `write_segment_internal` under the invariant -/

theorem readSegment_run' (s : Slot) (seg i len : Nat) (d : Dev) (hG : Good d) (hc : s.segSize = some seg) (hseg : seg ≠ 0)
    (hl : seg ≤ len) (hi : i ≤ 16384) (hfit : 17408 + i * seg + seg ≤ s.size)
    (hin : s.idx * s.size + s.size ≤ d.flash.size) :
    (s.readSegment i len).run d = (.ok (d.flash.read (dAddr s seg i) seg), d) := by
  unfold Slot.readSegment Slot.segmentSize
  have c1 : Fs.MAX_SEGMENTS = 16384 := rfl
  have c2 : Fs.DATA_REGION_OFFSET = 17408 := rfl
  have h1 : ¬ i > 16384 := by omega
  have h2 : ¬ 17408 + i * seg > s.size := by omega
  have h3 : min len seg = seg := Nat.min_eq_right hl
  simp only [c1, c2, h1, ↓reduceIte, hc, run_bind, run_pure, hseg, h2, h3]
  rw [Fs.readTo_run hG _ _ (by omega)]
  rfl

theorem frag_fit {n seg size i : Nat} (hi : i < n) (h : 17408 + n * seg ≤ size) : 17408 + i * seg + seg ≤ size := by
  have : (i + 1) * seg ≤ n * seg := Nat.mul_le_mul_right seg hi
  rw [Nat.add_mul, Nat.one_mul] at this
  omega

/-- re-delivery of a data fragment that is present -/
theorem wsi_fw_dup {cfg : Naive.Cfg} {u : Naive.Upd} {d : Dev} {a : Abs} {D : Nat → List Nat} {seg : Nat}
    (I : NInv cfg u d a D seg) (scratchLen idx1 : Nat) (h1 : 1 ≤ idx1) (hn : idx1 ≤ a.n)
    (hbit : a.fw.testBit (idx1 - 1) = true) (hs : seg ≤ scratchLen) :
    (writeSegmentInternal scratchLen idx1 (D (idx1 - 1))).run (u, d) = (.ok .consumed, (u, d)) := by
  have g := I.geo
  have hi : idx1 - 1 < a.n := by omega
  have hfit := frag_fit hi g.fw_fit
  have hlen := I.Dlen _ hi
  have hnle := g.n_le
  have hsp := g.seg_pos
  unfold writeSegmentInternal
  have h0 : ¬ idx1 = 0 := by omega
  have hfw : idx1 ≤ u.totalFw := by rw [g.tf]; exact hn
  simp only [NaiveRun.run_bind, NaiveRun.getU_run, h0, ↓reduceIte, hfw, decide_true, Bool.not_true, Bool.false_and,
    Bool.false_eq_true, NaiveRun.liftM_run]
  rw [segmentStatus_run u.fw (idx1 - 1) d I.good (by omega) (by omega) g.fw_in]
  have hst : d.flash.byte (tAddr u.fw (idx1 - 1)) = Consts.DATA_WRITTEN := by
    have := I.fwV.tab (idx1 - 1) hi
    rw [Nat.zero_add, hbit] at this
    simp only [↓reduceIte] at this
    unfold tAddr
    rw [← Nat.add_assoc, this]; rfl
  simp only [hst, ↓reduceIte, NaiveRun.run_bind, NaiveRun.liftM_run]
  rw [readSegment_run' u.fw seg (idx1 - 1) scratchLen d I.good g.fwc (by omega) hs (by omega) hfit g.fw_in]
  rw [I.fwV.data _ hi hbit]
  have c1 : ¬ (D (idx1 - 1)).length > scratchLen := by omega
  simp only [c1, ↓reduceIte, Nat.lt_irrefl, List.take_length, NaiveRun.run_pure, NaiveRun.run_bind]

theorem decU32_pos (x : Nat) (h1 : 1 ≤ x) (h2 : x < 2 ^ 32) : decU32 x = x - 1 := by
  unfold decU32; omega

/-- a new data fragment: the bytes are programmed, the status byte is set, the counter drops; the invariant holds for
    the state with the bit set -/
theorem wsi_fw_new {cfg : Naive.Cfg} {u : Naive.Upd} {d : Dev} {a : Abs} {D : Nat → List Nat} {seg : Nat}
    (I : NInv cfg u d a D seg) (scratchLen idx1 : Nat) (h1 : 1 ≤ idx1) (hn : idx1 ≤ a.n)
    (hbit : a.fw.testBit (idx1 - 1) = false) :
    ∃ u' d', (writeSegmentInternal scratchLen idx1 (D (idx1 - 1))).run (u, d) =
        (.ok (classify u'.remFw u'.remPar u'.totalPar), (u', d')) ∧
      NInv cfg u' d' { a with fw := a.fw ||| 2 ^ (idx1 - 1) } D seg := by
  have g := I.geo
  have hi : idx1 - 1 < a.n := by omega
  have hfit := frag_fit hi g.fw_fit
  have hlen := I.Dlen _ hi
  have hnle := g.n_le
  have hsp := g.seg_pos
  have hcnt := countBits_lt_of_unset a.fw a.n _ hi hbit
  have hcnt2 := countBits_or_pow a.fw (idx1 - 1) a.n hi hbit
  refine ⟨{ u with remFw := decU32 u.remFw }, afterWrite u.fw seg (idx1 - 1) (D (idx1 - 1)) d, ?_, ?_⟩
  · unfold writeSegmentInternal
    have h0 : ¬ idx1 = 0 := by omega
    have hfw : idx1 ≤ u.totalFw := by rw [g.tf]; exact hn
    simp only [NaiveRun.run_bind, NaiveRun.getU_run, h0, ↓reduceIte, hfw, decide_true, Bool.not_true, Bool.false_and,
      Bool.false_eq_true, NaiveRun.liftM_run]
    rw [segmentStatus_run u.fw (idx1 - 1) d I.good (by omega) (by omega) g.fw_in]
    have hst : d.flash.byte (tAddr u.fw (idx1 - 1)) = Consts.DATA_NOT_WRITTEN := by
      have := I.fwV.tab (idx1 - 1) hi
      rw [Nat.zero_add, hbit] at this
      simp only [Bool.false_eq_true, ↓reduceIte] at this
      unfold tAddr
      rw [← Nat.add_assoc, this]; rfl
    have hne : ¬ Consts.DATA_NOT_WRITTEN = Consts.DATA_WRITTEN := by decide
    simp only [hst, hne, ↓reduceIte, ne_eq, not_true_eq_false, NaiveRun.run_bind, NaiveRun.liftM_run, NaiveRun.run_pure]
    rw [writeSegment_run u.fw seg (idx1 - 1) (D (idx1 - 1)) d I.good g.fwc (by omega) hlen (by omega) hfit g.fw_in]
    rfl
  · have hpar_out : ∀ x, InSlotB u.par x → ¬ InSlotB u.fw x := by
      intro x hx hx'
      unfold InSlotB at hx hx'
      rw [g.size_eq] at hx
      have := seg_disjoint u.fw.size g.ne
      omega
    refine ⟨(I.good.prog _ _).prog _ _, WF_apply_program (WF_apply_program I.wf _ _) _ _, ?_, I.rowEq, I.rows, ?_, ?_,
      ?_, I.cntP, I.Dlen, I.Dbytes⟩
    · have e : (afterWrite u.fw seg (idx1 - 1) (D (idx1 - 1)) d).flash.size = d.flash.size := by
        unfold afterWrite; rw [Dev.prog_size, Dev.prog_size]
      rw [e]
      exact ⟨g.fwc, g.parc, g.size_eq, g.ne, g.fw_in, g.par_in, g.seg_pos, g.seg_le, g.n_le, g.p_le, g.fw_fit,
        g.par_fit, g.tf, g.tp⟩
    · rw [afterWrite_flash]
      exact I.fwV.write g.seg_pos g.n_le g.fw_fit g.fw_in _ hi hbit _ hlen (I.Dbytes _ hi) rfl
    · rw [afterWrite_flash]
      apply I.parV.frame g.par_fit g.p_le
      intro x hx
      exact fAfter_outside u.fw seg (idx1 - 1) _ d.flash x (by rw [hlen]; exact hfit) (by omega) (hpar_out x hx)
    · show decU32 u.remFw = a.n - countBits (a.fw ||| 2 ^ (idx1 - 1)) a.n
      rw [I.cntF, hcnt2, decU32_pos _ (by omega) (by omega)]
      omega

theorem isBytes_xorBytesV : ∀ {a b : List Nat}, IsBytes a → IsBytes b → IsBytes (V1.xorBytes a b)
  | [], [], _, _ => IsBytes.nil
  | [], _ :: _, _, _ => IsBytes.nil
  | _ :: _, [], ha, _ => ha
  | x :: as, y :: bs, ha, hb => by
    rw [isBytes_cons] at ha hb
    simp only [V1.xorBytes, isBytes_cons]
    exact ⟨Nat.xor_lt_two_pow (n := 8) ha.1 hb.1, isBytes_xorBytesV ha.2 hb.2⟩

theorem isBytes_xorFold (keep : Nat → Bool) (frag : Nat → List Nat) (is acc : List Nat)
    (hf : ∀ i ∈ is, IsBytes (frag i)) (ha : IsBytes acc) : IsBytes (xorFold keep frag is acc) := by
  induction is generalizing acc with
  | nil => exact ha
  | cons i is ih =>
    unfold xorFold
    split
    · exact ih _ (fun j hj => hf j (by simp [hj])) (isBytes_xorBytesV ha (hf i (by simp)))
    · exact ih _ (fun j hj => hf j (by simp [hj])) ha

theorem coded_spec (D : Nat → List Nat) (row n seg : Nat) (hl : ∀ i, i < n → (D i).length = seg)
    (hb : ∀ i, i < n → IsBytes (D i)) : (coded D row n seg).length = seg ∧ IsBytes (coded D row n seg) := by
  unfold coded
  constructor
  · exact xorFold_length _ _ seg _ _ (fun i hi => hl i (List.mem_range.mp hi)) (by simp)
  · apply isBytes_xorFold _ _ _ _ (fun i hi => hb i (List.mem_range.mp hi))
    intro b hb'
    simp only [List.mem_replicate] at hb'
    omega

/-- re-delivery of a coded fragment that is present -/
theorem wsi_par_dup {cfg : Naive.Cfg} {u : Naive.Upd} {d : Dev} {a : Abs} {D : Nat → List Nat} {seg : Nat}
    (I : NInv cfg u d a D seg) (scratchLen idx1 : Nat) (h1 : a.n < idx1) (hn : idx1 ≤ a.n + a.parLen)
    (hbit : a.par.testBit (idx1 - 1 - a.n) = true) (hs : seg ≤ scratchLen) :
    (writeSegmentInternal scratchLen idx1 (parVal a.rowOf D a.n seg (idx1 - 1 - a.n))).run (u, d) =
      (.ok .consumed, (u, d)) := by
  have g := I.geo
  have hi : idx1 - 1 - a.n < a.parLen := by omega
  have hfit := frag_fit hi g.par_fit
  have hnle := g.n_le
  have hple := g.p_le
  have hsp := g.seg_pos
  obtain ⟨row, hrow⟩ := Option.isSome_iff_exists.mp (I.rows _ hi)
  have hv : parVal a.rowOf D a.n seg (idx1 - 1 - a.n) = coded D row a.n seg := by simp [parVal, hrow]
  obtain ⟨hlen, _⟩ := coded_spec D row a.n seg I.Dlen I.Dbytes
  unfold writeSegmentInternal
  have h0 : ¬ idx1 = 0 := by omega
  have hfw : ¬ idx1 ≤ a.n := by omega
  have hr : idx1 ≤ (a.n + a.parLen) % 2 ^ 32 := by rw [Nat.mod_eq_of_lt (by omega)]; exact hn
  simp only [NaiveRun.run_bind, NaiveRun.getU_run, h0, ↓reduceIte, g.tf, g.tp, hfw, hr, decide_true, decide_false,
    Bool.not_true, Bool.not_false, Bool.and_false, Bool.false_eq_true, NaiveRun.liftM_run]
  rw [segmentStatus_run u.par (idx1 - 1 - a.n) d I.good (by omega) (by rw [g.size_eq] at hfit ⊢; omega) g.par_in]
  have hst : d.flash.byte (tAddr u.par (idx1 - 1 - a.n)) = Consts.DATA_WRITTEN := by
    have := I.parV.tab (idx1 - 1 - a.n) hi
    rw [Nat.zero_add, hbit] at this
    simp only [↓reduceIte] at this
    unfold tAddr
    rw [← Nat.add_assoc, this]; rfl
  simp only [hst, ↓reduceIte, NaiveRun.run_bind, NaiveRun.liftM_run]
  rw [readSegment_run' u.par seg (idx1 - 1 - a.n) scratchLen d I.good g.parc (by omega) hs (by omega) hfit g.par_in]
  rw [I.parV.data _ hi hbit, hv]
  have c1 : ¬ (coded D row a.n seg).length > scratchLen := by omega
  simp only [c1, ↓reduceIte, Nat.lt_irrefl, List.take_length, NaiveRun.run_pure, NaiveRun.run_bind]

/-- a new coded fragment -/
theorem wsi_par_new {cfg : Naive.Cfg} {u : Naive.Upd} {d : Dev} {a : Abs} {D : Nat → List Nat} {seg : Nat}
    (I : NInv cfg u d a D seg) (scratchLen idx1 : Nat) (h1 : a.n < idx1) (hn : idx1 ≤ a.n + a.parLen)
    (hbit : a.par.testBit (idx1 - 1 - a.n) = false) :
    ∃ u' d', (writeSegmentInternal scratchLen idx1 (parVal a.rowOf D a.n seg (idx1 - 1 - a.n))).run (u, d) =
        (.ok (classify u'.remFw u'.remPar u'.totalPar), (u', d')) ∧
      NInv cfg u' d' { a with par := a.par ||| 2 ^ (idx1 - 1 - a.n) } D seg := by
  have g := I.geo
  have hi : idx1 - 1 - a.n < a.parLen := by omega
  have hfit := frag_fit hi g.par_fit
  have hnle := g.n_le
  have hple := g.p_le
  have hsp := g.seg_pos
  obtain ⟨row, hrow⟩ := Option.isSome_iff_exists.mp (I.rows _ hi)
  have hv : parVal a.rowOf D a.n seg (idx1 - 1 - a.n) = coded D row a.n seg := by simp [parVal, hrow]
  obtain ⟨hlen, hby⟩ := coded_spec D row a.n seg I.Dlen I.Dbytes
  have hcnt := countBits_lt_of_unset a.par a.parLen _ hi hbit
  have hcnt2 := countBits_or_pow a.par (idx1 - 1 - a.n) a.parLen hi hbit
  refine ⟨{ u with remPar := decU32 u.remPar }, afterWrite u.par seg (idx1 - 1 - a.n) (coded D row a.n seg) d, ?_, ?_⟩
  · unfold writeSegmentInternal
    have h0 : ¬ idx1 = 0 := by omega
    have hfw : ¬ idx1 ≤ a.n := by omega
    have hr : idx1 ≤ (a.n + a.parLen) % 2 ^ 32 := by rw [Nat.mod_eq_of_lt (by omega)]; exact hn
    simp only [NaiveRun.run_bind, NaiveRun.getU_run, h0, ↓reduceIte, g.tf, g.tp, hfw, hr, decide_true, decide_false,
      Bool.not_true, Bool.not_false, Bool.and_false, Bool.false_eq_true, NaiveRun.liftM_run]
    rw [segmentStatus_run u.par (idx1 - 1 - a.n) d I.good (by omega) (by rw [g.size_eq] at hfit ⊢; omega) g.par_in]
    have hst : d.flash.byte (tAddr u.par (idx1 - 1 - a.n)) = Consts.DATA_NOT_WRITTEN := by
      have := I.parV.tab (idx1 - 1 - a.n) hi
      rw [Nat.zero_add, hbit] at this
      simp only [Bool.false_eq_true, ↓reduceIte] at this
      unfold tAddr
      rw [← Nat.add_assoc, this]; rfl
    have hne : ¬ Consts.DATA_NOT_WRITTEN = Consts.DATA_WRITTEN := by decide
    simp only [hst, hne, ↓reduceIte, ne_eq, not_true_eq_false, NaiveRun.run_bind, NaiveRun.liftM_run, NaiveRun.run_pure, hv]
    rw [writeSegment_run u.par seg (idx1 - 1 - a.n) _ d I.good g.parc (by omega) hlen (by omega) hfit g.par_in]
    rfl
  · have hfw_out : ∀ x, InSlotB u.fw x → ¬ InSlotB u.par x := by
      intro x hx hx'
      unfold InSlotB at hx hx'
      rw [g.size_eq] at hx'
      have := seg_disjoint u.fw.size g.ne
      omega
    refine ⟨(I.good.prog _ _).prog _ _, WF_apply_program (WF_apply_program I.wf _ _) _ _, ?_, I.rowEq, I.rows, ?_, ?_,
      I.cntF, ?_, I.Dlen, I.Dbytes⟩
    · have e : (afterWrite u.par seg (idx1 - 1 - a.n) (coded D row a.n seg) d).flash.size = d.flash.size := by
        unfold afterWrite; rw [Dev.prog_size, Dev.prog_size]
      rw [e]
      exact ⟨g.fwc, g.parc, g.size_eq, g.ne, g.fw_in, g.par_in, g.seg_pos, g.seg_le, g.n_le, g.p_le, g.fw_fit,
        g.par_fit, g.tf, g.tp⟩
    · rw [afterWrite_flash]
      apply I.fwV.frame g.fw_fit g.n_le
      intro x hx
      exact fAfter_outside u.par seg _ _ d.flash x (by rw [hlen]; exact hfit) (by omega) (hfw_out x hx)
    · rw [afterWrite_flash]
      exact I.parV.write g.seg_pos g.p_le g.par_fit g.par_in _ hi hbit _ hlen hby hv
    · show decU32 u.remPar = a.parLen - countBits (a.par ||| 2 ^ (idx1 - 1 - a.n)) a.parLen
      rw [I.cntP, hcnt2, decU32_pos _ (by omega) (by omega)]
      omega
/-! ## `repair_step`, the repair loop, `handle_segment`, delivery sequences -/

/-- **`repair_step` up to its write, evaluated under the invariant**: it is the abstract pick, and the bytes it
    recovers are the original fragment -/
theorem repairCompute_run {cfg : Naive.Cfg} {u : Naive.Upd} {d : Dev} {a : Abs} {D : Nat → List Nat} {seg : Nat}
    (I : NInv cfg u d a D seg) (h1 : u.remFw ≠ 0) (h2 : u.remPar ≠ u.totalPar) :
    (repairCompute cfg).run (u, d) =
      match pickRepair a.rowOf a.fw a.par a.n (List.range a.parLen) with
      | .ok (some (_, m, _)) => (.ok (some (m, seg, D m)), (u, d))
      | .ok none => (.ok none, (u, d))
      | .error () => (.error .panic, (u, d)) := by
  have g := I.geo
  have hnle := g.n_le
  have hple := g.p_le
  have hsp := g.seg_pos
  have hseg : (u.fw.segmentSize).run d = (.ok seg, d) := by
    unfold Slot.segmentSize; rw [g.fwc]; rfl
  have hfw : (loadStatus u.fw).run d = (.ok (a.fw, a.n), d) :=
    loadStatus_run u.fw a.n a.fw d I.good g.n_le (by have := g.fw_fit; omega) g.fw_in I.fwV.nword I.fwV.tab I.fwV.below
  have hpar : (loadStatus u.par).run d = (.ok (a.par, a.parLen), d) :=
    loadStatus_run u.par a.parLen a.par d I.good g.p_le (by have := g.par_fit; omega) g.par_in I.parV.nword I.parV.tab
      I.parV.below
  unfold repairCompute
  have h3 : ¬ seg > MAX_SEGMENT_SIZE := by have : MAX_SEGMENT_SIZE = 256 := rfl; have := g.seg_le; omega
  simp only [NaiveRun.run_bind, NaiveRun.getU_run, h1, h2, ↓reduceIte, NaiveRun.liftM_run, hseg, h3, hfw, hpar,
    g.tf, Nat.min_self, ← I.rowEq]
  cases hp : pickRepair a.rowOf a.fw a.par a.n (List.range a.parLen) with
  | error e => cases e; rfl
  | ok r =>
    cases r with
    | none => rfl
    | some t =>
      obtain ⟨p, m, row⟩ := t
      obtain ⟨hp1, hp2, hp3, hp4⟩ := pickRepair_some hp
      have hpl := List.mem_range.mp hp1
      obtain ⟨e1, e2, e3, e4⟩ := (exactlyOne_iff row a.fw a.n m).mp hp4
      simp only [NaiveRun.run_bind, NaiveRun.liftM_run]
      rw [readSegment_run' u.par seg p seg d I.good g.parc (by omega) (Nat.le_refl _) (by omega)
        (frag_fit hpl g.par_fit) g.par_in, I.parV.data p hpl hp2]
      have hv : parVal a.rowOf D a.n seg p = coded D row a.n seg := by simp [parVal, hp3]
      simp only [hv, NaiveRun.run_bind, NaiveRun.liftM_run]
      rw [NaiveRun.xorLoop_eq u.fw row m seg D d (List.range a.n) _ (fun i hi hne hr => by
        have hin := List.mem_range.mp hi
        rw [readSegment_run' u.fw seg i seg d I.good g.fwc (by omega) (Nat.le_refl _) (by omega)
          (frag_fit hin g.fw_fit) g.fw_in, I.fwV.data i hin (e4 i hin hne hr)])]
      simp only [NaiveRun.run_pure]
      have := V1.repair_exact D D row a.n seg m I.Dlen e1 e2 (fun _ _ _ _ => rfl)
      unfold repaired at this
      rw [this]
end Fuota.V1

namespace Fuota.V1
open Fuota.Nor Fuota.Fs Fuota.Layout Fuota.FlashAdapters Fuota.Updater Fuota.Naive

theorem step_none_of_full {a : Abs} (h : ∀ i, i < a.n → a.fw.testBit i = true) : a.step = none := by
  cases hs : a.step with
  | none => rfl
  | some a' =>
    obtain ⟨p, row, m, _, _, _, he, _⟩ := step_spec hs
    obtain ⟨h1, _, h3, _⟩ := (exactlyOne_iff row a.fw a.n m).mp he
    rw [h m h1] at h3; cases h3

theorem step_none_of_nopar {a : Abs} (h : ∀ p, p < a.parLen → a.par.testBit p = false) : a.step = none := by
  cases hs : a.step with
  | none => rfl
  | some a' =>
    obtain ⟨p, row, m, hp, hb, _, _, _⟩ := step_spec hs
    rw [h p hp] at hb; cases hb

/-- **one `repair_step` of the naive model is one abstract step**, and keeps the invariant -/
theorem repairStep_run {cfg : Naive.Cfg} {u : Naive.Upd} {d : Dev} {a : Abs} {D : Nat → List Nat} {seg : Nat}
    (I : NInv cfg u d a D seg) :
    match a.step with
    | none => (repairStep cfg).run (u, d) = (.ok none, (u, d))
    | some a' => ∃ m u' d', (repairStep cfg).run (u, d) = (.ok (some m), (u', d')) ∧ NInv cfg u' d' a' D seg := by
  have g := I.geo
  have hcF := countBits_le a.fw a.n
  have hcP := countBits_le a.par a.parLen
  by_cases h1 : u.remFw = 0
  · have hfull : ∀ i, i < a.n → a.fw.testBit i = true := countBits_full a.fw a.n (by have := I.cntF; omega)
    rw [step_none_of_full hfull]
    unfold repairStep repairCompute
    simp only [NaiveRun.run_bind, NaiveRun.getU_run, h1, ↓reduceIte]
    rfl
  by_cases h2 : u.remPar = u.totalPar
  · have hno : ∀ p, p < a.parLen → a.par.testBit p = false :=
      countBits_zero a.par a.parLen (by have := I.cntP; have := g.tp; omega)
    rw [step_none_of_nopar hno]
    unfold repairStep repairCompute
    simp only [NaiveRun.run_bind, NaiveRun.getU_run, h1, h2, ↓reduceIte]
    rfl
  have hrc := repairCompute_run I h1 h2
  obtain ⟨r, hr⟩ := pickRepair_ok (rowOf := a.rowOf) (recvFw := a.fw) (recvPar := a.par) (planLen := a.n)
    (ps := List.range a.parLen) (fun p hp _ => I.rows p (List.mem_range.mp hp))
  rw [hr] at hrc
  cases r with
  | none =>
    have hs : a.step = none := by unfold Abs.step; rw [hr]
    rw [hs]
    unfold repairStep
    simp only [NaiveRun.run_bind, hrc]
    rfl
  | some t =>
    obtain ⟨p, m, row⟩ := t
    have hs : a.step = some { a with fw := a.fw ||| 2 ^ m } := by unfold Abs.step; rw [hr]
    rw [hs]
    obtain ⟨_, _, _, hp4⟩ := pickRepair_some hr
    obtain ⟨e1, _, e3, _⟩ := (exactlyOne_iff row a.fw a.n m).mp hp4
    have hnle := g.n_le
    have hmod : (m + 1) % 2 ^ 32 = m + 1 := Nat.mod_eq_of_lt (by omega)
    obtain ⟨u', d', hw, I'⟩ := wsi_fw_new I seg (m + 1) (by omega) (by omega) (by simpa using e3)
    simp only [Nat.add_sub_cancel] at hw I'
    refine ⟨m, u', d', ?_, I'⟩
    unfold repairStep
    simp only [NaiveRun.run_bind, hrc, hmod, hw, NaiveRun.run_pure]

/-- **the repair loop of the naive model is the abstract loop** -/
theorem repairLoop_run {cfg : Naive.Cfg} {D : Nat → List Nat} {seg : Nat} : ∀ (fuel : Nat) (u : Naive.Upd) (d : Dev)
    (a : Abs), NInv cfg u d a D seg →
    ∃ u' d', (repairLoop cfg fuel).run (u, d) = (.ok (), (u', d')) ∧ NInv cfg u' d' (Abs.loop fuel a) D seg := by
  intro fuel
  induction fuel with
  | zero => intro u d a I; exact ⟨u, d, rfl, I⟩
  | succ f ih =>
    intro u d a I
    have hs := repairStep_run I
    cases hst : a.step with
    | none =>
      rw [hst] at hs
      rw [loop_succ_none hst]
      refine ⟨u, d, ?_, I⟩
      unfold repairLoop
      simp only [NaiveRun.run_bind, hs]
      rfl
    | some a' =>
      rw [hst] at hs
      obtain ⟨m, u1, d1, hrun, I1⟩ := hs
      rw [loop_succ_some hst]
      obtain ⟨u', d', hrun', I'⟩ := ih u1 d1 a' I1
      refine ⟨u', d', ?_, I'⟩
      unfold repairLoop
      simp only [NaiveRun.run_bind, hrun]
      exact hrun'
end Fuota.V1

namespace Fuota.V1
open Fuota.Nor Fuota.Fs Fuota.Layout Fuota.Naive

theorem loop_fixed {a : Abs} (h : a.step = none) : ∀ f, Abs.loop f a = a
  | 0 => rfl
  | _ + 1 => loop_succ_none h

theorem loop_add (g : Nat) : ∀ (f : Nat) (a : Abs), Abs.loop (f + g) a = Abs.loop g (Abs.loop f a) := by
  intro f
  induction f with
  | zero => intro a; simp [Abs.loop]
  | succ f ih =>
    intro a
    have e : f + 1 + g = (f + g) + 1 := by omega
    rw [e]
    cases hs : a.step with
    | none => rw [loop_succ_none hs, loop_succ_none hs, loop_fixed hs]
    | some a' => rw [loop_succ_some hs, loop_succ_some hs]; exact ih a'

/-- past the fixpoint more fuel changes nothing -/
theorem loop_stable (a : Abs) (f1 f2 : Nat) (h1 : missing a.fw a.n < f1) (h2 : f1 ≤ f2) :
    Abs.loop f2 a = Abs.loop f1 a := by
  have e : f2 = f1 + (f2 - f1) := by omega
  rw [e, loop_add, loop_fixed (loop_step_none f1 a h1)]

theorem countBits_of_full (a : Nat) : ∀ n, (∀ i, i < n → a.testBit i = true) → countBits a n = n := by
  intro n
  induction n with
  | zero => intro _; rfl
  | succ k ih =>
    intro h
    unfold countBits
    rw [ih (fun i hi => h i (by omega)), h k (by omega)]
    simp

/-- the genuine bytes of fragment `idx1` (1-based): the data fragment, or the XOR of the fragments its row covers -/
def genuine (a : Abs) (D : Nat → List Nat) (seg idx1 : Nat) : List Nat :=
  if idx1 ≤ a.n then D (idx1 - 1) else parVal a.rowOf D a.n seg (idx1 - 1 - a.n)

/-- the delivery as the status tables see it -/
def toDlv (n idx1 : Nat) : Dlv := if idx1 ≤ n then .data (idx1 - 1) else .coded (idx1 - 1 - n)

/-- the fragment is already present (delivered or repaired) -/
def present (a : Abs) (idx1 : Nat) : Bool :=
  if idx1 ≤ a.n then a.fw.testBit (idx1 - 1) else a.par.testBit (idx1 - 1 - a.n)

theorem abs_fw_eq (a : Abs) (x : Nat) (h : x = a.fw) : { a with fw := x } = a := by subst h; rfl
theorem abs_par_eq (a : Abs) (x : Nat) (h : x = a.par) : { a with par := x } = a := by subst h; rfl

/-- after a write that left the invariant for `a1`, the tail of `handle_segment` (classification, repair loop, final
    completeness test) yields the invariant for the fixpoint of the abstract loop -/
theorem handle_tail {cfg : Naive.Cfg} {u1 : Naive.Upd} {d1 : Dev} {a1 : Abs} {D : Nat → List Nat} {seg : Nat}
    (I1 : NInv cfg u1 d1 a1 D seg) :
    ∃ out u' d',
      (match classify u1.remFw u1.remPar u1.totalPar with
        | WOutcome.consumed => (pure Outcome.consumed : MU Outcome)
        | WOutcome.complete => pure Outcome.complete
        | WOutcome.maybeParity => do
          let u ← getU
          repairLoop cfg (u.remFw + 1)
          let u ← getU
          pure (if u.remFw = 0 then Outcome.complete else Outcome.consumed)).run (u1, d1) = (.ok out, (u', d')) ∧
      NInv cfg u' d' (Abs.loop (a1.n + 1) a1) D seg ∧ (Abs.loop (a1.n + 1) a1).step = none ∧
      (out = Outcome.complete ↔ ∀ i, i < a1.n → (Abs.loop (a1.n + 1) a1).fw.testBit i = true) := by
  have g := I1.geo
  have hcF := countBits_le a1.fw a1.n
  have hcP := countBits_le a1.par a1.parLen
  have hclosed : (Abs.loop (a1.n + 1) a1).step = none := loop_step_none _ _ (missing_lt _ _)
  unfold classify
  by_cases h1 : u1.remFw = 0
  · have hfull : ∀ i, i < a1.n → a1.fw.testBit i = true := countBits_full a1.fw a1.n (by have := I1.cntF; omega)
    have hfix := loop_fixed (step_none_of_full hfull) (a1.n + 1)
    simp only [h1, ↓reduceIte]
    rw [hfix] at hclosed ⊢
    exact ⟨.complete, u1, d1, rfl, I1, hclosed, ⟨fun _ => hfull, fun _ => rfl⟩⟩
  · by_cases h2 : u1.remPar = u1.totalPar
    · have hno : ∀ p, p < a1.parLen → a1.par.testBit p = false :=
        countBits_zero a1.par a1.parLen (by have := I1.cntP; have := g.tp; omega)
      have hfix := loop_fixed (step_none_of_nopar hno) (a1.n + 1)
      simp only [h1, h2, ↓reduceIte]
      rw [hfix] at hclosed ⊢
      refine ⟨.consumed, u1, d1, rfl, I1, hclosed, ?_⟩
      constructor
      · intro h; cases h
      · intro h
        have := countBits_of_full a1.fw a1.n h
        have := I1.cntF
        omega
    · simp only [h1, h2, ↓reduceIte]
      obtain ⟨u', d', hrun, I'⟩ := repairLoop_run (u1.remFw + 1) u1 d1 a1 I1
      have hmiss : missing a1.fw a1.n < u1.remFw + 1 := by unfold missing; have := I1.cntF; omega
      have hst := loop_stable a1 (u1.remFw + 1) (a1.n + 1) hmiss (by have := I1.cntF; omega)
      rw [← hst] at I'
      have hn' : (Abs.loop (a1.n + 1) a1).n = a1.n := (loop_fields _ _).1
      refine ⟨if u'.remFw = 0 then .complete else .consumed, u', d', ?_, I', hclosed, ?_⟩
      · simp only [NaiveRun.run_bind, NaiveRun.getU_run, hrun, NaiveRun.run_pure]
      · have hc := I'.cntF
        rw [hn'] at hc
        have hle := countBits_le (Abs.loop (a1.n + 1) a1).fw a1.n
        constructor
        · intro h
          by_cases hz : u'.remFw = 0
          · exact countBits_full _ a1.n (by omega)
          · simp [hz] at h
        · intro h
          have := countBits_of_full _ a1.n h
          have hz : u'.remFw = 0 := by omega
          simp [hz]
end Fuota.V1

namespace Fuota.V1
open Fuota.Nor Fuota.Fs Fuota.Layout Fuota.Naive

/-- **`handle_segment` of the naive model refines `Abs.deliver`** for genuine fragments on a device without armed
    injection: it succeeds, the invariant holds for the delivered abstract state (which is closed again), and it answers
    `FirmwareComplete` exactly when the fragment was new and every data fragment is now present. -/
theorem handleSegment_run {cfg : Naive.Cfg} {u : Naive.Upd} {d : Dev} {a : Abs} {D : Nat → List Nat} {seg : Nat}
    (I : NInv cfg u d a D seg) (hcl : a.step = none) (idx1 : Nat) (h1 : 1 ≤ idx1) (hn : idx1 ≤ a.n + a.parLen) :
    ∃ out u' d', (handleSegment cfg idx1 (genuine a D seg idx1)).run (u, d) = (.ok out, (u', d')) ∧
      NInv cfg u' d' (a.deliver (toDlv a.n idx1)) D seg ∧ (a.deliver (toDlv a.n idx1)).step = none ∧
      (out = Naive.Outcome.complete ↔
        (present a idx1 = false ∧ ∀ i, i < a.n → (a.deliver (toDlv a.n idx1)).fw.testBit i = true)) := by
  have g := I.geo
  have hsl : seg ≤ MAX_SEGMENT_SIZE := by have : MAX_SEGMENT_SIZE = 256 := rfl; have := g.seg_le; omega
  by_cases hd : idx1 ≤ a.n
  · -- a data fragment
    have eg : genuine a D seg idx1 = D (idx1 - 1) := by simp [genuine, hd]
    have ed : toDlv a.n idx1 = .data (idx1 - 1) := by simp [toDlv, hd]
    have ep : present a idx1 = a.fw.testBit (idx1 - 1) := by simp [present, hd]
    rw [eg, ed, ep]
    cases hb : a.fw.testBit (idx1 - 1) with
    | true =>
      have hw := wsi_fw_dup I MAX_SEGMENT_SIZE idx1 h1 hd hb hsl
      have ea : ({ a with fw := a.fw ||| 2 ^ (idx1 - 1) } : Abs) = a := abs_fw_eq a _ (or_pow_of_set _ _ hb)
      have hdel : a.deliver (.data (idx1 - 1)) = a := by
        show Abs.loop (a.n + 1) { a with fw := a.fw ||| 2 ^ (idx1 - 1) } = a
        rw [ea, loop_fixed hcl]
      rw [hdel]
      refine ⟨.consumed, u, d, ?_, I, hcl, ?_⟩
      · unfold handleSegment
        simp only [NaiveRun.run_bind, hw]
        rfl
      · constructor
        · intro h; cases h
        · intro h; cases h.1
    | false =>
      obtain ⟨u1, d1, hw, I1⟩ := wsi_fw_new I MAX_SEGMENT_SIZE idx1 h1 hd hb
      obtain ⟨out, u', d', hrun, I', hcl', hiff⟩ := handle_tail I1
      refine ⟨out, u', d', ?_, I', hcl', ?_⟩
      · unfold handleSegment
        simp only [NaiveRun.run_bind, hw]
        exact hrun
      · rw [hiff]
        constructor
        · intro h; exact ⟨rfl, h⟩
        · intro h; exact h.2
  · -- a coded fragment
    have eg : genuine a D seg idx1 = parVal a.rowOf D a.n seg (idx1 - 1 - a.n) := by simp [genuine, hd]
    have ed : toDlv a.n idx1 = .coded (idx1 - 1 - a.n) := by simp [toDlv, hd]
    have ep : present a idx1 = a.par.testBit (idx1 - 1 - a.n) := by simp [present, hd]
    rw [eg, ed, ep]
    cases hb : a.par.testBit (idx1 - 1 - a.n) with
    | true =>
      have hw := wsi_par_dup I MAX_SEGMENT_SIZE idx1 (by omega) hn hb hsl
      have ea : ({ a with par := a.par ||| 2 ^ (idx1 - 1 - a.n) } : Abs) = a := abs_par_eq a _ (or_pow_of_set _ _ hb)
      have hdel : a.deliver (.coded (idx1 - 1 - a.n)) = a := by
        show Abs.loop (a.n + 1) { a with par := a.par ||| 2 ^ (idx1 - 1 - a.n) } = a
        rw [ea, loop_fixed hcl]
      rw [hdel]
      refine ⟨.consumed, u, d, ?_, I, hcl, ?_⟩
      · unfold handleSegment
        simp only [NaiveRun.run_bind, hw]
        rfl
      · constructor
        · intro h; cases h
        · intro h; cases h.1
    | false =>
      obtain ⟨u1, d1, hw, I1⟩ := wsi_par_new I MAX_SEGMENT_SIZE idx1 (by omega) hn hb
      obtain ⟨out, u', d', hrun, I', hcl', hiff⟩ := handle_tail I1
      refine ⟨out, u', d', ?_, I', hcl', ?_⟩
      · unfold handleSegment
        simp only [NaiveRun.run_bind, hw]
        exact hrun
      · rw [hiff]
        constructor
        · intro h; exact ⟨rfl, h⟩
        · intro h; exact h.2
end Fuota.V1

namespace Fuota.V1
open Fuota.Nor Fuota.Fs Fuota.Layout Fuota.Naive

/-- deliver the genuine fragments with the 1-based indices `idxs`, one `handle_segment` each -/
def deliverAll (cfg : Naive.Cfg) (a0 : Abs) (D : Nat → List Nat) (seg : Nat) : List Nat → Naive.MU (List Naive.Outcome)
  | [] => pure []
  | i :: is => do
    let o ← handleSegment cfg i (genuine a0 D seg i)
    let os ← deliverAll cfg a0 D seg is
    pure (o :: os)

theorem genuine_congr (a b : Abs) (D : Nat → List Nat) (seg i : Nat) (hn : b.n = a.n) (hr : b.rowOf = a.rowOf) :
    genuine b D seg i = genuine a D seg i := by
  unfold genuine; rw [hn, hr]

/-- **a whole delivery sequence on the naive model is the abstract run** -/
theorem deliverAll_run {cfg : Naive.Cfg} {D : Nat → List Nat} {seg : Nat} (a0 : Abs) : ∀ (idxs : List Nat) (u : Naive.Upd)
    (d : Dev) (a : Abs), NInv cfg u d a D seg → a.step = none → a.n = a0.n → a.parLen = a0.parLen → a.rowOf = a0.rowOf →
    (∀ i ∈ idxs, 1 ≤ i ∧ i ≤ a0.n + a0.parLen) →
    ∃ outs u' d', (deliverAll cfg a0 D seg idxs).run (u, d) = (.ok outs, (u', d')) ∧ outs.length = idxs.length ∧
      NInv cfg u' d' (a.run (idxs.map (toDlv a0.n))) D seg ∧ (a.run (idxs.map (toDlv a0.n))).step = none := by
  intro idxs
  induction idxs with
  | nil => intro u d a I hcl _ _ _ _; exact ⟨[], u, d, rfl, rfl, I, hcl⟩
  | cons i is ih =>
    intro u d a I hcl hn hp hr hall
    obtain ⟨h1, h2⟩ := hall i (by simp)
    obtain ⟨o, u1, d1, hrun1, I1, hcl1, _⟩ := handleSegment_run I hcl i h1 (by rw [hn, hp]; exact h2)
    rw [genuine_congr a0 a D seg i hn hr] at hrun1
    rw [hn] at I1 hcl1
    obtain ⟨e1, e2, e3⟩ := deliver_fields a (toDlv a0.n i)
    obtain ⟨os, u', d', hrun2, hlen, I2, hcl2⟩ := ih u1 d1 _ I1 hcl1 (by rw [e1, hn]) (by rw [e2, hp]) (by rw [e3, hr])
      (fun j hj => hall j (by simp [hj]))
    refine ⟨o :: os, u', d', ?_, by simp [hlen], I2, hcl2⟩
    unfold deliverAll
    simp only [NaiveRun.run_bind, hrun1, hrun2, NaiveRun.run_pure]
end Fuota.V1
