import Fuota.Lemmas.OpsCalc
/-!
# Footprints of the slot accessors (`fs.rs`, `manager.rs`)

`SlotWrite B size i op` classifies the operations the library *means* to issue on slot `i`:
an erase of one block inside the slot, a 4-byte program of one of the seven header words, or a program that
lies entirely at or after offset `0x400` of the slot. `SlotOp` adds the torn versions.
-/
namespace Fuota.Ops
open Fuota.Nor Fuota.Fs Fuota.Layout

variable {α β : Type}

/-- the byte range of `op` (erase: `[a, a+B)`, program: `[a, a+len)`) lies inside slot `i` of size `size` -/
def InSlot (B size i : Nat) : Op → Prop
  | .erase a => i * size ≤ a ∧ a + B ≤ i * size + size
  | .program a bs => i * size ≤ a ∧ a + bs.length ≤ i * size + size

instance (B size i : Nat) (op : Op) : Decidable (InSlot B size i op) := by
  cases op <;> (unfold InSlot; infer_instance)

/-- an intended (untorn) operation on slot `i`: inside the slot, and below offset `0x400` only a whole header word -/
def SlotWrite (B size i : Nat) : Op → Prop
  | .erase a => i * size ≤ a ∧ a + B ≤ i * size + size
  | .program a bs => ∃ off, a = i * size + off ∧ off + bs.length ≤ size ∧
      (off < 0x400 → bs.length = 4 ∧ off % 4 = 0 ∧ off ≤ 24)

/-- `Q` or a torn version of an operation satisfying `Q` -/
def OrTorn (Q : Op → Prop) (op : Op) : Prop := ∃ op0, Q op0 ∧ (op = op0 ∨ ∃ p keep, op = tear p keep op0)

theorem OrTorn.self {Q : Op → Prop} {op : Op} (h : Q op) : OrTorn Q op := ⟨op, h, Or.inl rfl⟩
theorem OrTorn.torn {Q : Op → Prop} {op : Op} (h : Q op) (p keep : Nat) : OrTorn Q (tear p keep op) :=
  ⟨op, h, Or.inr ⟨p, keep, rfl⟩⟩
theorem OrTorn.mono {Q Q' : Op → Prop} (h : ∀ op, Q op → Q' op) {op : Op} : OrTorn Q op → OrTorn Q' op := by
  rintro ⟨op0, h0, h1⟩; exact ⟨op0, h _ h0, h1⟩

/-- what the library actually issues on slot `i` -/
def SlotOp (B size i : Nat) : Op → Prop := OrTorn (SlotWrite B size i)

theorem InSlot.tear {B size i : Nat} {op : Op} (p keep : Nat) (h : InSlot B size i op) :
    InSlot B size i (tear p keep op) := by
  cases op with
  | erase a => exact h
  | program a bs =>
    obtain ⟨bs', e, hl, _⟩ := tear_program p keep a bs
    rw [e]
    obtain ⟨h1, h2⟩ := h
    exact ⟨h1, by omega⟩

theorem SlotWrite.inSlot {B size i : Nat} {op : Op} (h : SlotWrite B size i op) : InSlot B size i op := by
  cases op with
  | erase a => exact h
  | program a bs =>
    obtain ⟨off, e, h1, _⟩ := h
    exact ⟨by omega, by omega⟩

/-- **in-slot**: every issued operation, torn or not, lies inside its slot -/
theorem SlotOp.inSlot {B size i : Nat} {op : Op} (h : SlotOp B size i op) : InSlot B size i op := by
  obtain ⟨op0, h0, rfl | ⟨p, keep, rfl⟩⟩ := h
  · exact h0.inSlot
  · exact h0.inSlot.tear p keep

/-- offsets inside a slot are recovered by `% size` -/
theorem slot_off_mod (i size off : Nat) (h : off < size) : (i * size + off) % size = off := by
  rw [Nat.add_comm, Nat.add_mul_mod_self_right, Nat.mod_eq_of_lt h]

/-- an intended program that starts in the header area of its slot is one whole header word
    (a program of zero bytes touches nothing and is not constrained) -/
def HdrWord (size : Nat) : Op → Prop
  | .erase _ => True
  | .program a bs => bs ≠ [] → a % size < 0x400 → bs.length = 4 ∧ a % size % 4 = 0 ∧ a % size ≤ 24

/-- the header area is only ever programmed with header words (or torn header words) -/
def HdrClean (size : Nat) : Op → Prop := OrTorn (HdrWord size)

theorem SlotWrite.hdrWord {B size i : Nat} {op : Op} (h : SlotWrite B size i op) : HdrWord size op := by
  cases op with
  | erase a => trivial
  | program a bs =>
    obtain ⟨off, e, h1, h2⟩ := h
    intro hne hlt
    have hpos : 0 < bs.length := List.length_pos_iff.2 hne
    have ho : off < size := by omega
    rw [e, slot_off_mod _ _ _ ho] at hlt ⊢
    exact h2 hlt

theorem SlotOp.hdrClean {B size i : Nat} {op : Op} (h : SlotOp B size i op) : HdrClean size op :=
  OrTorn.mono (fun _ h => h.hdrWord) h

/-- reading of `HdrClean` for a concrete program: at most 4 bytes at one of the seven word offsets -/
theorem HdrClean.program {size a : Nat} {bs : List Nat} (h : HdrClean size (.program a bs)) (hne : bs ≠ [])
    (hlt : a % size < 0x400) : bs.length ≤ 4 ∧ a % size % 4 = 0 ∧ a % size ≤ 24 := by
  obtain ⟨op0, h0, e | ⟨p, keep, e⟩⟩ := h
  · subst e
    have := h0 hne hlt
    omega
  · cases op0 with
    | erase a0 => cases e
    | program a0 bs0 =>
      obtain ⟨bs', e', hl, _⟩ := tear_program p keep a0 bs0
      rw [e'] at e
      cases e
      have hne0 : bs0 ≠ [] := by
        intro h00; subst h00
        have : bs.length = 0 := by simpa using hl
        exact hne (List.length_eq_zero_iff.1 this)
      have := h0 hne0 hlt
      omega

/-! ## the primitives, specialised to `SlotOp` -/

theorem program_slotOp {B size i a : Nat} {bs : List Nat} (h : SlotWrite B size i (.program a bs)) :
    Emits B (SlotOp B size i) (writeFrom a bs) :=
  writeFrom_emits a bs (OrTorn.self h) (fun p keep => OrTorn.torn h p keep)

/-- an intended program that lies entirely at or after offset `0x400` of slot `i` (status table, data region,
    parity blocks, matrix rows) -/
def BodyWrite (size i : Nat) : Op → Prop
  | .erase _ => False
  | .program a bs => ∃ off, a = i * size + off ∧ 0x400 ≤ off ∧ off + bs.length ≤ size

/-- … or a torn version of one -/
def BodyOp (size i : Nat) : Op → Prop := OrTorn (BodyWrite size i)

theorem BodyWrite.slotWrite {B size i : Nat} {op : Op} (h : BodyWrite size i op) : SlotWrite B size i op := by
  cases op with
  | erase a => exact h.elim
  | program a bs =>
    obtain ⟨off, e, h1, h2⟩ := h
    exact ⟨off, e, h2, fun hlt => by omega⟩

theorem BodyOp.slotOp {B size i : Nat} {op : Op} (h : BodyOp size i op) : SlotOp B size i op :=
  OrTorn.mono (fun _ h => h.slotWrite) h

theorem program_bodyOp {B size i a : Nat} {bs : List Nat} (h : BodyWrite size i (.program a bs)) :
    Emits B (BodyOp size i) (writeFrom a bs) :=
  writeFrom_emits a bs (OrTorn.self h) (fun p keep => OrTorn.torn h p keep)

theorem eraseFrom_emits {B : Nat} (size i : Nat) : ∀ (k cur : Nat), i * size ≤ cur → cur + k * B ≤ i * size + size →
    Emits B (SlotOp B size i) (eraseFrom cur B k) := by
  intro k
  induction k with
  | zero => intro cur _ _; exact EmitsR.pure True.intro
  | succ k ih =>
    intro cur h1 h2
    unfold eraseFrom
    have e : (k + 1) * B = k * B + B := Nat.succ_mul k B
    refine EmitsR.seq (R := fun _ => True) ?_ ?_
    · apply eraseBlock_emits
      intro _
      exact OrTorn.self (show SlotWrite B size i (.erase cur) from ⟨h1, by omega⟩)
    · exact ih (cur + B) (by omega) (by omega)

/-- `Slot::clear` — no hypothesis: the divisibility checks it makes itself are enough -/
theorem clear_emits {B : Nat} (s : Slot) : Emits B (SlotOp B s.size s.idx) s.clear := by
  unfold Slot.clear
  dsimp only
  simp only [throw_bind]
  apply EmitsR.get_bind
  intro d0 hB
  rw [hB]
  split
  · exact EmitsR.throw
  · split
    · exact EmitsR.throw
    · apply eraseFrom_emits
      · exact Nat.le_refl _
      · have := Nat.div_mul_le_self s.size B
        omega

/-- `Slot::write_word` at one of the seven header offsets -/
theorem writeWord_emits {B : Nat} (s : Slot) (off w : Nat) (h4 : off % 4 = 0) (h24 : off ≤ 24)
    (hs : 28 ≤ s.size) : Emits B (SlotOp B s.size s.idx) (s.writeWord off w) := by
  unfold Slot.writeWord
  apply program_slotOp
  refine ⟨off, rfl, ?_, fun _ => ⟨rfl, h4, h24⟩⟩
  show off + 4 ≤ s.size
  omega

theorem writeSeqNo_emits {B : Nat} (s : Slot) (w : Nat) (hs : 28 ≤ s.size) :
    Emits B (SlotOp B s.size s.idx) (s.writeSeqNo w) := writeWord_emits s _ w (by decide) (by decide) hs
theorem setKind_emits {B : Nat} (s : Slot) (k : Kind) (hs : 28 ≤ s.size) :
    Emits B (SlotOp B s.size s.idx) (s.setKind k) := writeWord_emits s _ _ (by decide) (by decide) hs
theorem markExtAborted_emits {B : Nat} (s : Slot) (hs : 28 ≤ s.size) :
    Emits B (SlotOp B s.size s.idx) s.markExtAborted := writeWord_emits s _ _ (by decide) (by decide) hs
theorem markExtComplete_emits {B : Nat} (s : Slot) (hs : 28 ≤ s.size) :
    Emits B (SlotOp B s.size s.idx) s.markExtComplete := writeWord_emits s _ _ (by decide) (by decide) hs
theorem markIntComplete_emits {B : Nat} (s : Slot) (hs : 28 ≤ s.size) :
    Emits B (SlotOp B s.size s.idx) s.markIntComplete := writeWord_emits s _ _ (by decide) (by decide) hs
theorem markBootOk_emits {B : Nat} (s : Slot) (hs : 28 ≤ s.size) :
    Emits B (SlotOp B s.size s.idx) s.markBootOk := writeWord_emits s _ _ (by decide) (by decide) hs
theorem markBootBad_emits {B : Nat} (s : Slot) (hs : 28 ≤ s.size) :
    Emits B (SlotOp B s.size s.idx) s.markBootBad := writeWord_emits s _ _ (by decide) (by decide) hs

/-- same slot position (index and size); the cached segment size may differ -/
def SamePos (s s' : Slot) : Prop := s'.idx = s.idx ∧ s'.size = s.size

/-- `Slot::set_layout` -/
theorem setLayout_emits {B : Nat} (s : Slot) (nseg segsz : Nat) (hs : 28 ≤ s.size) :
    EmitsR B (SlotOp B s.size s.idx) (fun s' => SamePos s s' ∧ s'.segSize = if segsz = 0 then none else some segsz)
      (s.setLayout nseg segsz) := by
  unfold Slot.setLayout
  dsimp only
  simp only [throw_bind]
  apply EmitsR.ite
  · intro _; exact EmitsR.throw
  · intro _
    refine EmitsR.seq (writeWord_emits s _ _ (by decide) (by decide) hs) ?_
    refine EmitsR.seq (writeWord_emits s _ _ (by decide) (by decide) hs) ?_
    exact EmitsR.pure ⟨⟨rfl, rfl⟩, rfl⟩

theorem readSegSize_emits {B Q} (s : Slot) : EmitsR B Q (fun _ => True) s.readSegSize := by
  unfold Slot.readSegSize
  exact (readTo_emits _ _).bind (fun _ _ => EmitsR.pure True.intro)

theorem segmentSizeMut_emits {B Q} (s : Slot) : EmitsR B Q (fun r => SamePos s r.2) s.segmentSizeMut := by
  unfold Slot.segmentSizeMut
  split
  · exact EmitsR.pure ⟨rfl, rfl⟩
  · exact (readSegSize_emits s).bind (fun _ _ => EmitsR.pure ⟨rfl, rfl⟩)

theorem segmentSize_emits {B Q} (s : Slot) : EmitsR B Q (fun _ => True) s.segmentSize := by
  unfold Slot.segmentSize
  split
  · exact EmitsR.pure True.intro
  · exact readSegSize_emits s

theorem numSegments_emits {B Q} (s : Slot) : EmitsR B Q (fun _ => True) s.numSegments := by
  unfold Slot.numSegments
  exact (readTo_emits _ _).bind (fun _ _ => EmitsR.pure True.intro)

/-- `Slot::mark_segment_written`. Its own check is `offset > size` (not `≥`), so the status byte is inside the slot
    only when `WRITTEN_OFFSET + idx < size`; every accepted slot size (`> 17408`) gives that, because the index
    check leaves `idx ≤ 16384`. -/
theorem markSegmentWritten_emits {B : Nat} (s : Slot) (idx : Nat) (h : WRITTEN_OFFSET + idx < s.size) :
    Emits B (BodyOp s.size s.idx) (s.markSegmentWritten idx) := by
  unfold Slot.markSegmentWritten
  dsimp only
  simp only [throw_bind]
  split
  · exact EmitsR.throw
  · split
    · exact EmitsR.throw
    · apply program_bodyOp
      have : WRITTEN_OFFSET = 1024 := rfl
      refine ⟨WRITTEN_OFFSET + idx, rfl, by omega, ?_⟩
      show WRITTEN_OFFSET + idx + 1 ≤ s.size
      omega

/-- the same from the minimum slot size alone -/
theorem markSegmentWritten_emits' {B : Nat} (s : Slot) (idx : Nat) (h : 17408 < s.size) :
    Emits B (BodyOp s.size s.idx) (s.markSegmentWritten idx) := by
  by_cases hi : idx > MAX_SEGMENTS
  · unfold Slot.markSegmentWritten
    dsimp only
    simp only [throw_bind, hi, ↓reduceIte]
    exact EmitsR.throw
  · apply markSegmentWritten_emits
    have : WRITTEN_OFFSET = 1024 := rfl
    have : MAX_SEGMENTS = 16384 := rfl
    omega

/-- `Slot::write_segment`. Its bound check is `DATA_REGION_OFFSET + idx·seg > size` — it does **not** include the
    buffer length — so the last bytes are inside the slot only when
    `DATA_REGION_OFFSET + (idx+1)·len ≤ size`, which is the hypothesis here (`len = seg` is enforced by the
    function itself). In a session this follows from the accepted geometry `seg·n ≤ size − 17408` and `idx < n`. -/
theorem writeSegment_emits {B : Nat} (s : Slot) (idx : Nat) (buf : List Nat)
    (h : DATA_REGION_OFFSET + (idx + 1) * buf.length ≤ s.size) :
    EmitsR B (BodyOp s.size s.idx) (fun s' => SamePos s s') (s.writeSegment idx buf) := by
  unfold Slot.writeSegment
  dsimp only
  simp only [throw_bind]
  have hD : DATA_REGION_OFFSET = 17408 := rfl
  have hW : WRITTEN_OFFSET = 1024 := rfl
  have hM : MAX_SEGMENTS = 16384 := rfl
  split
  · exact EmitsR.throw
  · rename_i hidx
    refine EmitsR.bind (segmentSizeMut_emits s) ?_
    rintro ⟨seg, s'⟩ ⟨hi, hsz⟩
    dsimp only at hi hsz ⊢
    split
    · exact EmitsR.throw
    · split
      · exact EmitsR.throw
      · rename_i hseg0 hseg
        have hseg' : seg = buf.length := by
          by_cases hh : seg = buf.length
          · exact hh
          · exact absurd hh hseg
        split
        · exact EmitsR.throw
        · rw [hi, hsz]
          have hmul : (idx + 1) * buf.length = idx * buf.length + buf.length := Nat.succ_mul _ _
          refine EmitsR.seq (R := fun _ => True) ?_ ?_
          · apply program_bodyOp
            refine ⟨DATA_REGION_OFFSET + idx * seg, rfl, by omega, ?_⟩
            rw [hseg']; omega
          · refine EmitsR.seq (R := fun _ => True) ?_ (EmitsR.pure ⟨hi, hsz⟩)
            have := markSegmentWritten_emits (B := B) s' idx (by rw [hsz]; omega)
            rw [hi, hsz] at this
            exact this

/-- `Slot::read_segment`: no operation; a successful read returns `min len seg` bytes -/
theorem readSegment_emits {B Q} (s : Slot) (idx len : Nat) :
    EmitsR B Q (fun bs => bs.length ≤ len) (s.readSegment idx len) := by
  unfold Slot.readSegment
  dsimp only
  simp only [throw_bind]
  split
  · exact EmitsR.throw
  · refine EmitsR.bind (segmentSize_emits s) ?_
    intro seg _
    split
    · exact EmitsR.throw
    · split
      · exact EmitsR.throw
      · refine (readTo_emits _ _).post ?_
        intro bs hbs
        rw [hbs]; exact Nat.min_le_left _ _

/-- `Slot::write_raw` — its own check includes the buffer length, so it needs only `HEADER_SIZE ≤ size` -/
theorem writeRaw_emits {B : Nat} (s : Slot) (off : Nat) (buf : List Nat) (hs : HEADER_SIZE ≤ s.size) :
    Emits B (BodyOp s.size s.idx) (s.writeRaw off buf) := by
  unfold Slot.writeRaw
  dsimp only
  simp only [throw_bind]
  have hH : HEADER_SIZE = 1024 := rfl
  split
  · exact EmitsR.throw
  · apply program_bodyOp
    refine ⟨HEADER_SIZE + off, by rw [Nat.add_assoc], by omega, ?_⟩
    omega

theorem readRaw_emits {B Q} (s : Slot) (off len : Nat) :
    EmitsR B Q (fun bs => bs.length = len) (s.readRaw off len) := by
  unfold Slot.readRaw
  dsimp only
  simp only [throw_bind]
  split
  · exact EmitsR.throw
  · exact readTo_emits _ _

/-! ## header loading and the status array -/

theorem loadHeaderAt_emits {B Q} (a : Nat) : EmitsR B Q (fun _ => True) (loadHeaderAt a) := by
  unfold loadHeaderAt
  exact (readTo_emits _ _).bind (fun _ _ => EmitsR.pure True.intro)

theorem loadHeadersFrom_emits {B Q} (slotSize : Nat) (is : List Nat) :
    EmitsR B Q (fun hs => hs.length = is.length) (loadHeadersFrom slotSize is) := by
  induction is with
  | nil => exact EmitsR.pure rfl
  | cons i is ih =>
    unfold loadHeadersFrom
    refine (loadHeaderAt_emits _).bind (fun h _ => ?_)
    refine ih.bind (fun rest hrest => ?_)
    apply EmitsR.pure
    simp [hrest]

/-- `load_headers` emits nothing and returns one entry per slot -/
theorem loadHeaders_emits {B Q} (n slotSize : Nat) :
    EmitsR B Q (fun hs => hs.length = n) (loadHeaders n slotSize) := by
  unfold loadHeaders
  exact (loadHeadersFrom_emits slotSize _).post (fun hs h => by simpa using h)

theorem fillBitcache_emits {B Q} (startAddr stride : Nat) : ∀ (fuel addr remain mask : Nat),
    EmitsR B Q (fun _ => True) (fillBitcache startAddr stride fuel addr remain mask) := by
  intro fuel
  induction fuel with
  | zero => intro _ _ _; exact EmitsR.pure True.intro
  | succ fuel ih =>
    intro addr remain mask
    unfold fillBitcache
    dsimp only
    simp only [throw_bind]
    split
    · exact EmitsR.pure True.intro
    · refine (readTo_emits _ _).bind (fun buf _ => ?_)
      split
      · exact EmitsR.throw
      · split
        · exact EmitsR.throw
        · exact ih _ _ _

theorem loadStatusArray_emits {B Q} (s : Slot) (stride : Nat) :
    EmitsR B Q (fun _ => True) (s.loadStatusArray stride) := by
  unfold Slot.loadStatusArray
  exact (numSegments_emits s).bind (fun _ _ => fillBitcache_emits _ _ _ _ _ _)

end Fuota.Ops
