import Fuota.Lemmas.Span
import Fuota.Lemmas.ReconStep
/-!
# Stage 2 of the reconstructor keeps the stored rows in echelon form with the same span as the accepted rows
-/
namespace Fuota.Recon
open Fuota.Gf2

/-- the stored matrix rows, by ascending pivot -/
def storedRows (l used : Nat) (ms : Store) : List Nat := ((List.range l).filter used.testBit).map (get ms)

/-- the row of a used pivot below `l` is among the stored rows -/
theorem mem_storedRows {l used : Nat} {ms : Store} {p : Nat} (hp : p < l) (hu : used.testBit p = true) :
    get ms p ∈ storedRows l used ms :=
  List.mem_map.2 ⟨p, List.mem_filter.2 ⟨List.mem_range.2 hp, hu⟩, rfl⟩

/-- storing a row with pivot bit `q` and nothing above keeps echelon form -/
theorem Ech.store {l used : Nat} {ms : Store} (h : Ech l used ms) (q row' : Nat) (hq : q < l)
    (hb : row'.testBit q = true) (ha : ∀ j, q < j → row'.testBit j = false) :
    Ech l (used ||| 2 ^ q) ((q, row') :: ms) := by
  intro p hp
  simp only [testBit_or_two_pow] at hp
  simp only [get_cons]
  by_cases hpq : p = q
  · subst hpq; simp only [↓reduceIte]; exact ⟨hq, hb, ha⟩
  · have hp' : used.testBit p = true := by
      have : decide (q = p) = false := by simp; omega
      simpa [this] using hp
    simp only [hpq, ↓reduceIte]; exact h p hp'

/-- storing at a fresh pivot only adds to the list of stored rows -/
theorem storedRows_sublist_store (l used : Nat) (ms : Store) (q row' : Nat) (hu : used.testBit q = false) :
    (storedRows l used ms).Sublist (storedRows l (used ||| 2 ^ q) ((q, row') :: ms)) := by
  unfold storedRows
  have h1 : ((List.range l).filter used.testBit).map (get ms) =
      ((List.range l).filter used.testBit).map (get ((q, row') :: ms)) := by
    apply List.map_congr_left
    intro p hp
    have hpu := (List.mem_filter.1 hp).2
    have : p ≠ q := fun e => by rw [e, hu] at hpu; cases hpu
    simp [get_cons, this]
  have h2 : (List.range l).filter used.testBit =
      ((List.range l).filter (used ||| 2 ^ q).testBit).filter used.testBit := by
    rw [List.filter_filter]
    apply List.filter_congr
    intro p _
    simp only [testBit_or_two_pow]
    cases used.testBit p <;> simp
  rw [h1, h2]
  exact List.Sublist.map _ List.filter_sublist

/-- a XOR of stored rows is in their span -/
theorem inSpan_stored_xorAll (l used : Nat) (ms : Store) (sel : List Nat)
    (hsel : ∀ p ∈ sel, p < l ∧ used.testBit p = true) :
    InSpan (storedRows l used ms) (xorAll (sel.map (get ms))) := by
  apply InSpan.xorAll
  intro r hr
  obtain ⟨p, hp, rfl⟩ := List.mem_map.1 hr
  exact InSpan.mem (mem_storedRows (hsel p hp).1 (hsel p hp).2)

/-- echelon invariant of stage 2: `acc` are the projected rows of the blocks handled so far -/
structure EchInv (acc : List Nat) (s : St) : Prop where
  hl : s.l = (unknowns s.done s.n).length
  hl0 : s.l ≠ 0
  hech : Ech s.l s.used s.ms
  hin : ∀ p, s.used.testBit p = true → InSpan acc (get s.ms p)
  hout : ∀ r ∈ acc, InSpan (storedRows s.l s.used s.ms) r

/-- the echelon invariant only depends on `n`, `l`, `done`, `used` and the matrix store -/
theorem EchInv.congr {acc : List Nat} {s s' : St} (h : EchInv acc s) (en : s'.n = s.n) (el : s'.l = s.l)
    (ed : s'.done = s.done) (eu : s'.used = s.used) (em : s'.ms = s.ms) : EchInv acc s' := by
  obtain ⟨h1, h2, h3, h4, h5⟩ := h
  exact ⟨by rw [el, ed, en]; exact h1, by rw [el]; exact h2, by rw [el, eu, em]; exact h3,
    by rw [eu, em]; exact h4, by rw [el, eu, em]; exact h5⟩

/-- complete exactly when the accepted rows span every unit vector of the unknown space -/
theorem EchInv.complete_iff {acc : List Nat} {s : St} (h : EchInv acc s) :
    isComplete s = true ↔ ∀ u, u < s.l → InSpan acc (2 ^ u) := by
  rw [isComplete_stage2 s h.hl0]
  constructor
  · intro hall
    exact units_of_full_echelon acc (get s.ms) s.l (fun p hp =>
      ⟨(h.hech p (hall p hp)).2.1, (h.hech p (hall p hp)).2.2, h.hin p (hall p hp)⟩)
  · intro hspan p hp
    cases hu : s.used.testBit p with
    | true => rfl
    | false =>
      exfalso
      obtain ⟨sel, hsub, hx⟩ := InSpan.trans h.hout (hspan p hp)
      obtain ⟨idx, hidx, rfl⟩ := List.sublist_map_iff.1 hsub
      have hne : idx ≠ [] := by
        rintro rfl
        have := Nat.two_pow_pos p
        simp [xorAll] at hx
        omega
      have hmem : ∀ q ∈ idx, q < s.l ∧ s.used.testBit q = true := by
        intro q hq
        have := List.mem_filter.1 (hidx.subset hq)
        exact ⟨List.mem_range.1 this.1, this.2⟩
      obtain ⟨t, ht, htb, _, _⟩ := top_bit_of_echelon (get s.ms) idx
        (List.Pairwise.sublist hidx (List.Pairwise.filter _ List.pairwise_lt_range))
        (fun q hq => (h.hech q (hmem q hq).2).2) hne
      rw [hx, Nat.testBit_two_pow] at htb
      have : p = t := by simpa using htb
      subst this
      rw [(hmem p ht).2] at hu
      cases hu

/-- one fault-free `handle_block` call in stage 2: the echelon invariant is kept with the new projected row
accepted, the frozen fields stay, and the result is `Done` exactly when the new state is complete -/
theorem step_stage2 (V : Variant) (P : Nat → Nat) (vbits numRows : Nat) {acc : List Nat} {s : St}
    (h : EchInv acc s) (i d : Nat) :
    EchInv (acc ++ [project s.done s.n (P i)]) (handleBlock V noFault P vbits numRows s i d s.bs).1 ∧
    (handleBlock V noFault P vbits numRows s i d s.bs).1.n = s.n ∧
    (handleBlock V noFault P vbits numRows s i d s.bs).1.done = s.done ∧
    (handleBlock V noFault P vbits numRows s i d s.bs).1.l = s.l ∧
    (handleBlock V noFault P vbits numRows s i d s.bs).1.bs = s.bs ∧
    (handleBlock V noFault P vbits numRows s i d s.bs).2 =
      if isComplete (handleBlock V noFault P vbits numRows s i d s.bs).1 then .done (s.n * s.bs) else .needMore := by
  have hrowlt : project s.done s.n (P i) < 2 ^ s.l := by
    apply Nat.lt_pow_two_of_testBit
    intro j hj
    rw [testBit_project]
    have : ¬ j < (unknowns s.done s.n).length := by rw [← h.hl]; omega
    simp [this]
  have hmono : ∀ {v}, InSpan acc v → InSpan (acc ++ [project s.done s.n (P i)]) v :=
    fun hv => InSpan.mono (List.sublist_append_left _ _) hv
  have hnew : InSpan (acc ++ [project s.done s.n (P i)]) (project s.done s.n (P i)) :=
    InSpan.mem (by simp)
  rw [handleBlock_eq]
  by_cases hc : isComplete s = true
  · -- sticky: state unchanged; the new row is in the span because the stored rows span everything
    rw [if_pos hc]
    refine ⟨⟨h.hl, h.hl0, h.hech, fun p hp => hmono (h.hin p hp), ?_⟩, rfl, rfl, rfl, rfl, by simp [hc]⟩
    intro r hr
    rcases List.mem_append.1 hr with hr | hr
    · exact h.hout r hr
    · simp only [List.mem_cons, List.not_mem_nil, or_false] at hr
      subst hr
      have hall := (isComplete_stage2 s h.hl0).1 hc
      have hunits := units_of_full_echelon (storedRows s.l s.used s.ms) (get s.ms) s.l (fun p hp =>
        ⟨(h.hech p (hall p hp)).2.1, (h.hech p (hall p hp)).2.2, InSpan.mem (mem_storedRows hp (hall p hp))⟩)
      exact span_of_units _ s.l hunits _ hrowlt
  · have hc' : isComplete s = false := by simpa using hc
    have hl0 := h.hl0
    have hnr : ¬ (s.n ≤ i ∧ s.l = 0 ∧
        (vbits < (unknowns s.done s.n).length ∨ numRows < (unknowns s.done s.n).length)) :=
      fun hh => hl0 hh.2.1
    have hnp : ¬ (s.n ≤ i ∧ s.l = 0) := fun hh => hl0 hh.2
    rw [if_neg (by simp [hc']), if_neg hnr]
    simp only [if_neg hnp]
    rw [if_neg hl0]
    obtain ⟨sel, R, hsel, hR, hcase⟩ := stage2_cases P s i d h.hech h.hl
    have hselspan : InSpan (acc ++ [project s.done s.n (P i)]) (xorAll (sel.map (get s.ms))) := by
      apply InSpan.xorAll
      intro r hr
      obtain ⟨p, hp, rfl⟩ := List.mem_map.1 hr
      exact hmono (h.hin p (hsel p hp).2)
    -- whatever state `s2` the elimination produced, `finishIf s2` keeps the row data and reports accordingly
    have hfin : ∀ s2 : St, EchInv (acc ++ [project s.done s.n (P i)]) s2 → s2.n = s.n → s2.done = s.done →
        s2.l = s.l → s2.bs = s.bs →
        EchInv (acc ++ [project s.done s.n (P i)]) (finishIf s2).1 ∧ (finishIf s2).1.n = s.n ∧
        (finishIf s2).1.done = s.done ∧ (finishIf s2).1.l = s.l ∧ (finishIf s2).1.bs = s.bs ∧
        (finishIf s2).2 = if isComplete (finishIf s2).1 then .done (s.n * s.bs) else .needMore := by
      intro s2 h2 en ed el eb
      unfold finishIf
      by_cases hc2 : isComplete s2 = true
      · obtain ⟨e1, e2, e3, e4, e5, _, e7⟩ := foldl_finStep_frame (unknowns s2.done s2.n) (List.range s2.l) s2
        simp only [hc2, ↓reduceIte]
        have hc3 := isComplete_congr e3 e1 e4 e5
        refine ⟨h2.congr e1 e3 e4 e5 e7, by rw [e1, en], by rw [e4, ed], by rw [e3, el], by rw [e2, eb], ?_⟩
        rw [hc3, hc2, en, eb]; rfl
      · have hc2' : isComplete s2 = false := by simpa using hc2
        simp only [hc2', Bool.false_eq_true, ↓reduceIte]
        exact ⟨h2, en, ed, el, eb, trivial⟩
    rcases hcase with ⟨h0, he⟩ | ⟨q, hq, hqu, hqb, hqa, he⟩
    · rw [he]
      have hrow : project s.done s.n (P i) = xorAll (sel.map (get s.ms)) := by
        have := congrArg (· ^^^ xorAll (sel.map (get s.ms))) h0
        simpa [xor_xor_cancel_right] using this
      refine hfin _ ?_ rfl rfl rfl rfl
      refine ⟨h.hl, h.hl0, h.hech, fun p hp => hmono (h.hin p hp), ?_⟩
      intro r hr
      rcases List.mem_append.1 hr with hr | hr
      · exact h.hout r hr
      · simp only [List.mem_cons, List.not_mem_nil, or_false] at hr
        subst hr
        show InSpan (storedRows s.l s.used s.ms) (project s.done s.n (P i))
        rw [hrow]
        exact inSpan_stored_xorAll _ _ _ sel hsel
    · rw [he]
      refine hfin _ ?_ rfl rfl rfl rfl
      refine ⟨h.hl, h.hl0, h.hech.store q _ hq hqb hqa, ?_, ?_⟩
      · intro p hp
        simp only [testBit_or_two_pow] at hp
        simp only [get_cons]
        by_cases hpq : p = q
        · subst hpq
          simp only [↓reduceIte]
          exact InSpan.xor hnew hselspan
        · have hp' : s.used.testBit p = true := by
            have : decide (q = p) = false := by simp; omega
            simpa [this] using hp
          simp only [hpq, ↓reduceIte]
          exact hmono (h.hin p hp')
      · intro r hr
        have hsub := storedRows_sublist_store s.l s.used s.ms q
          (project s.done s.n (P i) ^^^ xorAll (sel.map (get s.ms))) hqu
        show InSpan (storedRows s.l (s.used ||| 2 ^ q)
          ((q, project s.done s.n (P i) ^^^ xorAll (sel.map (get s.ms))) :: s.ms)) r
        rcases List.mem_append.1 hr with hr | hr
        · exact InSpan.mono hsub (h.hout r hr)
        · simp only [List.mem_cons, List.not_mem_nil, or_false] at hr
          subst hr
          have hq' : InSpan (storedRows s.l (s.used ||| 2 ^ q)
              ((q, project s.done s.n (P i) ^^^ xorAll (sel.map (get s.ms))) :: s.ms))
              (project s.done s.n (P i) ^^^ xorAll (sel.map (get s.ms))) := by
            have := @mem_storedRows s.l (s.used ||| 2 ^ q)
              ((q, project s.done s.n (P i) ^^^ xorAll (sel.map (get s.ms))) :: s.ms) q hq
              (by simp)
            simp only [get_cons, ↓reduceIte] at this
            exact InSpan.mem this
          have hs' := InSpan.mono hsub (inSpan_stored_xorAll s.l s.used s.ms sel hsel)
          have := InSpan.xor hq' hs'
          rwa [xor_xor_cancel_right] at this

/-- a whole fault-free stage-2 run: the invariant holds at the end with all projected rows accepted, and the last
result (if any) is `Done` exactly when the final state is complete -/
theorem runBlocks_stage2 (V : Variant) (P : Nat → Nat) (vbits numRows : Nat) (blk : Nat → Nat) :
    ∀ (js : List Nat) (acc : List Nat) (s : St), EchInv acc s →
      EchInv (acc ++ js.map (fun i => project s.done s.n (P i))) (runBlocks V noFault P vbits numRows blk s js).1 ∧
      (runBlocks V noFault P vbits numRows blk s js).1.l = s.l ∧
      (js ≠ [] → (runBlocks V noFault P vbits numRows blk s js).2.getLast? =
        some (if isComplete (runBlocks V noFault P vbits numRows blk s js).1 then .done (s.n * s.bs)
              else .needMore)) := by
  intro js
  induction js with
  | nil => intro acc s h; simpa [runBlocks] using h
  | cons i js ih =>
    intro acc s h
    obtain ⟨h1, en, ed, el, eb, hres⟩ := step_stage2 V P vbits numRows h i (blk i)
    obtain ⟨h2, el2, hlast⟩ := ih _ _ h1
    rw [en, ed] at h2
    rw [en, eb] at hlast
    simp only [runBlocks, List.map_cons]
    refine ⟨by simpa [List.append_assoc] using h2, by rw [el2, el], fun _ => ?_⟩
    cases js with
    | nil => exact congrArg some hres
    | cons j js =>
      have := hlast (by simp)
      simp only [runBlocks] at this ⊢
      rw [List.getLast?_cons_cons]
      exact this

end Fuota.Recon
