import Fuota.Lemmas.RingEff
import Fuota.Lemmas.RingNewest
/-!
# Ring lemmas, part 6: what cancel and recovery leave behind, slot by slot
-/
namespace Fuota.Ring
open Fuota.Layout Fuota.Fs Fuota.Updater Fuota.Slots

/-- slot-by-slot result of running the effects `φ` decides on the headers `hs0`, on any `hs` of the same length -/
theorem applyAll_effsOf_get (φ : Nat × Header → Option (Option Header)) (hs0 hs : Hdrs)
    (hlen : hs.length = hs0.length) (j : Nat) :
    (applyAll hs (effsOf φ (indexed hs0)))[j]? =
      match hs0[j]? with
      | some (some h0) => (match φ (j, h0) with | some v => some v | none => hs[j]?)
      | _ => hs[j]? := by
  have hnd := effsOf_nodup φ (indexed_sorted hs0)
  have hnone : (∀ h0, Used hs0 j h0 → φ (j, h0) = none) →
      (applyAll hs (effsOf φ (indexed hs0)))[j]? = hs[j]? := by
    intro hall
    apply applyAll_get_of_not_mem
    intro e he hej
    obtain ⟨h, hm, hφ⟩ := mem_effsOf.mp he
    rw [hej] at hm hφ
    have := hall h (mem_indexed.mp hm)
    rw [this] at hφ
    cases hφ
  cases h0j : hs0[j]? with
  | none =>
    simp only
    apply hnone
    intro h0 hu
    have hu' : hs0[j]? = some (some h0) := hu
    rw [h0j] at hu'; cases hu'
  | some o =>
    cases o with
    | none =>
      simp only
      apply hnone
      intro h0 hu
      have hu' : hs0[j]? = some (some h0) := hu
      rw [h0j] at hu'; cases hu'
    | some h0 =>
      simp only
      cases hφ : φ (j, h0) with
      | none =>
        simp only
        apply hnone
        intro h1 hu
        have hu' : hs0[j]? = some (some h1) := hu
        rw [h0j] at hu'
        simp only [Option.some.injEq] at hu'
        subst hu'
        exact hφ
      | some v =>
        simp only
        have he : ((j, v) : Eff) ∈ effsOf φ (indexed hs0) :=
          mem_effsOf.mpr ⟨h0, (mem_indexed (p := (j, h0))).mpr h0j, hφ⟩
        have hlt : j < hs.length := by
          rw [hlen]; exact used_lt (h := h0) h0j
        exact applyAll_get_of_mem hs _ hnd (j, v) he hlt

theorem effsOf_eq_nil {φ : Nat × Header → Option (Option Header)} {l : List (Nat × Header)}
    (h : ∀ p ∈ l, φ p = none) : effsOf φ l = [] := by
  unfold effsOf
  rw [List.filterMap_eq_nil_iff]
  intro p hp
  simp [h p hp]

/-! ## cancel -/

/-- what `cancel_all_ext_pending` does to one header -/
def abortH (h : Header) : Header := if h.ext = Ext.inProgress then { h with ext := .aborted } else h

theorem cancel_get (hs : Hdrs) (j : Nat) : (cancel hs)[j]? = (hs[j]?).map (Option.map abortH) := by
  unfold cancel cancelEffs
  rw [cancelEffsOf_eq, applyAll_effsOf_get cancelPhi hs hs rfl j]
  cases h0j : hs[j]? with
  | none => rfl
  | some o =>
    cases o with
    | none => rfl
    | some h0 =>
      simp only [cancelPhi, Option.map_some, abortH]
      split <;> simp_all

theorem abortH_ext (h : Header) : (abortH h).ext ≠ Ext.inProgress := by
  unfold abortH
  split
  · simp
  · assumption

/-! ## status facts -/

theorem status_abort {h : Header} (hst : totalStatus h = TotalStatus.appWriteInProgress) :
    totalStatus { h with ext := Ext.aborted } = TotalStatus.appWriteAborted := by
  obtain ⟨k, s, sz, n, e, i, b⟩ := h
  unfold totalStatus at hst ⊢
  generalize (s != 0xFFFFFFFF) = v at hst ⊢
  cases v <;> cases e <;> cases i <;> cases b <;> simp at hst ⊢

theorem status_inProgress_ext {h : Header} (hst : totalStatus h = TotalStatus.appWriteInProgress) :
    h.ext = Ext.inProgress := by
  obtain ⟨k, s, sz, n, e, i, b⟩ := h
  unfold totalStatus at hst
  generalize (s != 0xFFFFFFFF) = v at hst
  cases v <;> cases e <;> cases i <;> cases b <;> simp at hst ⊢

/-- a parsed header (sequence number not the reserved one) whose ext status reads in progress is either a
    write in progress or invalid -/
theorem ext_inProgress_status {h : Header} (hv : h.seq ≠ 0xFFFFFFFF) (he : h.ext = Ext.inProgress) :
    totalStatus h = TotalStatus.appWriteInProgress ∨ totalStatus h = TotalStatus.invalidNeedsErase := by
  obtain ⟨k, s, sz, n, e, i, b⟩ := h
  simp only at hv he
  subst he
  unfold totalStatus
  have : (s != 0xFFFFFFFF) = true := by simpa using hv
  simp only [this]
  cases i <;> cases b <;> simp

/-- confirmed, rejected and acknowledgement-pending images -/
def Protected (h : Header) : Prop :=
  totalStatus h = TotalStatus.confirmedImage ∨ totalStatus h = TotalStatus.rejectedImage ∨
    totalStatus h = TotalStatus.firstBootPendingAck

theorem protected_ext {h : Header} (hp : Protected h) : h.ext = Ext.complete := by
  obtain ⟨k, s, sz, n, e, i, b⟩ := h
  unfold Protected totalStatus at hp
  generalize (s != 0xFFFFFFFF) = v at hp
  cases v <;> cases e <;> cases i <;> cases b <;> simp at hp ⊢

/-! ## remediation -/

/-- what the (two-pass) remediation around the pair `(a, b)` does to the header of slot `j` -/
def remH (a b j : Nat) (h : Header) : Option Header :=
  if j = a ∨ j = b then some h
  else if totalStatus h = TotalStatus.appWriteInProgress then some { h with ext := .aborted }
  else if totalStatus h = TotalStatus.bootloadWriteInProgress ∨ totalStatus h = TotalStatus.invalidNeedsErase then none
  else some h

theorem remediate_get (a b : Nat) (hs : Hdrs) (j : Nat) :
    (applyAll hs (remediateEffs a b (indexed hs)))[j]? = (hs[j]?).map fun o => o.bind (remH a b j) := by
  unfold remediateEffs applyAll
  rw [List.foldl_append]
  change (applyAll (applyAll hs (remediateAbortEffs a b (indexed hs))) (remediateEraseEffs a b (indexed hs)))[j]? = _
  rw [remediateAbortEffs_eq, remediateEraseEffs_eq]
  rw [applyAll_effsOf_get (erasePhi a b) hs _ (applyAll_length _ _) j,
    applyAll_effsOf_get (abortPhi a b) hs hs rfl j]
  cases h0j : hs[j]? with
  | none => rfl
  | some o =>
    cases o with
    | none => rfl
    | some h0 =>
      simp only [Option.map_some, Option.bind_some, remH, erasePhi, abortPhi]
      by_cases hab : j = a ∨ j = b
      · simp [hab]
      · simp only [hab, ↓reduceIte]
        by_cases h1 : totalStatus h0 = TotalStatus.appWriteInProgress
        · simp [h1]
        · simp only [h1, ↓reduceIte]
          by_cases h2 : totalStatus h0 = TotalStatus.bootloadWriteInProgress ∨ totalStatus h0 = TotalStatus.invalidNeedsErase
          · simp [h2]
          · simp [h2]

/-- the single-pass remediation ends in the same arrangement -/
theorem remediatePinned_get (a b : Nat) (hs : Hdrs) (j : Nat) :
    (applyAll hs (remediateEffsPinned a b (indexed hs)))[j]? = (hs[j]?).map fun o => o.bind (remH a b j) := by
  rw [remediateEffsPinned_eq, applyAll_effsOf_get (pinnedPhi a b) hs hs rfl j]
  cases h0j : hs[j]? with
  | none => rfl
  | some o =>
    cases o with
    | none => rfl
    | some h0 =>
      simp only [Option.map_some, Option.bind_some, remH, pinnedPhi, erasePhi, abortPhi]
      by_cases hab : j = a ∨ j = b
      · simp [hab]
      · simp only [hab, ↓reduceIte]
        by_cases h1 : totalStatus h0 = TotalStatus.appWriteInProgress
        · simp [h1]
        · simp only [h1, ↓reduceIte]
          by_cases h2 : totalStatus h0 = TotalStatus.bootloadWriteInProgress ∨ totalStatus h0 = TotalStatus.invalidNeedsErase
          · simp [h2]
          · simp [h2]

/-! ## the decision of `try_recover_inner` -/

theorem recoverDecision_some {g : Geom} {hs : Hdrs} {nw sn : Nat × Header}
    (h : recoverDecision g hs = some (nw, sn)) :
    twoNewest (indexed hs) = (some nw, some sn) ∧
      totalStatus nw.2 = TotalStatus.appWriteInProgress ∧ nw.2.kind = Kind.parity ∧
      totalStatus sn.2 = TotalStatus.appWriteInProgress ∧ sn.2.kind = Kind.firmware := by
  unfold recoverDecision at h
  split at h
  · rename_i nw' sn' htn
    split at h; · cases h
    split at h; · cases h
    split at h; · cases h
    split at h; · cases h
    split at h; · cases h
    split at h; · cases h
    split at h
    · cases h
    · simp only [Option.some.injEq, Prod.mk.injEq] at h
      obtain ⟨rfl, rfl⟩ := h
      simp_all
  · cases h

theorem recoverDecision_congr {g : Geom} {hs hs' : Hdrs}
    (h : twoNewest (indexed hs') = twoNewest (indexed hs)) : recoverDecision g hs' = recoverDecision g hs := by
  unfold recoverDecision
  rw [h]

end Fuota.Ring
