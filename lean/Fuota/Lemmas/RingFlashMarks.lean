import Fuota.Lemmas.RingFlash
/-!
# Ring ↔ flash, part 2: status-word programs as header effects
-/
open Fuota.Nor Fuota.Fs Fuota.Layout Fuota.Updater Fuota.Slots
namespace Fuota.RingFlash
open Fuota.Crash (word)



/-- a status word that is still erased is programmed: it reads as the value programmed, the other six words of
    the header are untouched -/
theorem words_after_mark {f : Flash} (hwf : Crash.WF f) (base off w : Nat) (hoff : off + 4 ≤ 28)
    (hff : word f (base + off) = 0xFFFFFFFF) (hw : w < 2 ^ 32) (hin : base + 28 ≤ f.size) :
    word (f.apply (.program (base + off) (writeU32 w))) (base + off) = w ∧
    ∀ o', (o' + 4 ≤ off ∨ off + 4 ≤ o') →
      word (f.apply (.program (base + off) (writeU32 w))) (base + o') = word f (base + o') := by
  constructor
  · have hb : f.byte (base + off) = 255 ∧ f.byte (base + off + 1) = 255 ∧ f.byte (base + off + 2) = 255 ∧
        f.byte (base + off + 3) = 255 := by
      have := Crash.le32_inj (f.byte (base + off)) (f.byte (base + off + 1)) (f.byte (base + off + 2))
        (f.byte (base + off + 3)) 255 255 255 255 ⟨hwf _, hwf _, hwf _, hwf _⟩ (by decide) hff
      exact this
    unfold word
    have pb : ∀ j, j < 4 → (f.apply (.program (base + off) (writeU32 w))).byte (base + off + j) =
        f.byte (base + off + j) &&& (writeU32 w).getD j 0 := by
      intro j hj
      rw [Crash.byte_program f _ _ _ (by omega) ⟨by omega, by rw [Crash.writeU32_length]; omega⟩]
      congr 2; omega
    have p0 := pb 0 (by omega); have p1 := pb 1 (by omega); have p2 := pb 2 (by omega); have p3 := pb 3 (by omega)
    rw [Nat.add_zero] at p0
    rw [p0, p1, p2, p3, hb.1, hb.2.1, hb.2.2.1, hb.2.2.2,
      Ops.ff_and _ (Ops.writeU32_byte_lt w 0), Ops.ff_and _ (Ops.writeU32_byte_lt w 1),
      Ops.ff_and _ (Ops.writeU32_byte_lt w 2), Ops.ff_and _ (Ops.writeU32_byte_lt w 3)]
    exact Crash.le32_writeU32 w hw
  · intro o' ho'
    apply Crash.word_apply_untouched
    intro j hj ht
    obtain ⟨h1, h2⟩ := ht
    rw [Crash.writeU32_length] at h2
    omega



theorem parse_of_hdrAt {f : Flash} {base : Nat} {h : Header} (hh : NoPanic.hdrAt f base = some h) :
    ∃ rest, parseHeader Codec.new (f.read base 28) = some (h, rest) := by
  unfold NoPanic.hdrAt at hh
  rw [Option.map_eq_some_iff] at hh
  obtain ⟨⟨h', r⟩, hp, rfl⟩ := hh
  exact ⟨r, hp⟩

theorem hdrAt_of_words {f : Flash} {base : Nat} {h : Header}
    (h0 : parseKind Codec.new (word f base) = some h.kind) (h1 : parseSeq Codec.new (word f (base + 4)) = some h.seq)
    (h2 : parseSize Codec.new (word f (base + 8)) = some h.size)
    (h3 : parseNseg Codec.new (word f (base + 12)) = some h.n)
    (h4 : parseExt Codec.new (word f (base + 16)) = some h.ext)
    (h5 : parseInt Codec.new (word f (base + 20)) = some h.ist)
    (h6 : parseBoot Codec.new (word f (base + 24)) = some h.boot) : NoPanic.hdrAt f base = some h := by
  unfold NoPanic.hdrAt
  have : parseHeader Codec.new (f.read base 28) = some (h, []) :=
    (C11.parseHeader_eq_some _ _ _ _).2 ⟨_, _, _, _, _, _, _, Crash.words7_read f base, h0, h1, h2, h3, h4, h5, h6⟩
  show (parseHeader Codec.new (f.read base 28)).map (·.1) = some h
  rw [this]; rfl

theorem parseExt_enc (e : Ext) : parseExt Codec.new (encExt Codec.new e) = some e := by cases e <;> decide
theorem parseInt_enc (e : IntSt) : parseInt Codec.new (encInt Codec.new e) = some e := by cases e <;> decide
theorem parseBoot_enc (e : Boot) : parseBoot Codec.new (encBoot Codec.new e) = some e := by cases e <;> decide
theorem encExt_lt (e : Ext) : encExt Codec.new e < 2 ^ 32 := by cases e <;> decide
theorem encInt_lt (e : IntSt) : encInt Codec.new e < 2 ^ 32 := by cases e <;> decide
theorem encBoot_lt (e : Boot) : encBoot Codec.new e < 2 ^ 32 := by cases e <;> decide

/-- `mark_ext_status_*` on a header whose ext status reads in progress -/
theorem hdrAt_mark_ext {f : Flash} (hwf : Crash.WF f) {base : Nat} {h : Header} (hh : NoPanic.hdrAt f base = some h)
    (hext : h.ext = Ext.inProgress) (e : Ext) (hin : base + 28 ≤ f.size) :
    NoPanic.hdrAt (f.apply (.program (base + 16) (writeU32 (encExt C e)))) base = some { h with ext := e } := by
  obtain ⟨rest, hp⟩ := parse_of_hdrAt hh
  obtain ⟨h0, h1, h2, h3, h4, h5, h6⟩ := Crash.parse_words f base h rest hp
  have hff : word f (base + 16) = 0xFFFFFFFF := by
    rw [hext] at h4
    exact (C11.parseExt_some _ _ _ h4).symm
  obtain ⟨w1, w2⟩ := words_after_mark hwf base 16 (encExt C e) (by omega) hff (encExt_lt e) hin
  apply hdrAt_of_words
  · have := w2 0 (by omega); simp only [Nat.add_zero] at this; rw [this]; exact h0
  · rw [w2 4 (by omega)]; exact h1
  · rw [w2 8 (by omega)]; exact h2
  · rw [w2 12 (by omega)]; exact h3
  · rw [w1]; exact parseExt_enc e
  · rw [w2 20 (by omega)]; exact h5
  · rw [w2 24 (by omega)]; exact h6

/-- `mark_int_status_complete` on a header whose int status reads in progress -/
theorem hdrAt_mark_int {f : Flash} (hwf : Crash.WF f) {base : Nat} {h : Header} (hh : NoPanic.hdrAt f base = some h)
    (hist : h.ist = IntSt.inProgress) (e : IntSt) (hin : base + 28 ≤ f.size) :
    NoPanic.hdrAt (f.apply (.program (base + 20) (writeU32 (encInt C e)))) base = some { h with ist := e } := by
  obtain ⟨rest, hp⟩ := parse_of_hdrAt hh
  obtain ⟨h0, h1, h2, h3, h4, h5, h6⟩ := Crash.parse_words f base h rest hp
  have hff : word f (base + 20) = 0xFFFFFFFF := by
    rw [hist] at h5
    exact (C11.parseInt_some _ _ _ h5).symm
  obtain ⟨w1, w2⟩ := words_after_mark hwf base 20 (encInt C e) (by omega) hff (encInt_lt e) hin
  apply hdrAt_of_words
  · have := w2 0 (by omega); simp only [Nat.add_zero] at this; rw [this]; exact h0
  · rw [w2 4 (by omega)]; exact h1
  · rw [w2 8 (by omega)]; exact h2
  · rw [w2 12 (by omega)]; exact h3
  · rw [w2 16 (by omega)]; exact h4
  · rw [w1]; exact parseInt_enc e
  · rw [w2 24 (by omega)]; exact h6

/-- `mark_boot_outcome_*` on a header whose boot outcome reads untested -/
theorem hdrAt_mark_boot {f : Flash} (hwf : Crash.WF f) {base : Nat} {h : Header} (hh : NoPanic.hdrAt f base = some h)
    (hboot : h.boot = Boot.untested) (e : Boot) (hin : base + 28 ≤ f.size) :
    NoPanic.hdrAt (f.apply (.program (base + 24) (writeU32 (encBoot C e)))) base = some { h with boot := e } := by
  obtain ⟨rest, hp⟩ := parse_of_hdrAt hh
  obtain ⟨h0, h1, h2, h3, h4, h5, h6⟩ := Crash.parse_words f base h rest hp
  have hff : word f (base + 24) = 0xFFFFFFFF := by
    rw [hboot] at h6
    exact (C11.parseBoot_some _ _ _ h6).symm
  obtain ⟨w1, w2⟩ := words_after_mark hwf base 24 (encBoot C e) (by omega) hff (encBoot_lt e) hin
  apply hdrAt_of_words
  · have := w2 0 (by omega); simp only [Nat.add_zero] at this; rw [this]; exact h0
  · rw [w2 4 (by omega)]; exact h1
  · rw [w2 8 (by omega)]; exact h2
  · rw [w2 12 (by omega)]; exact h3
  · rw [w2 16 (by omega)]; exact h4
  · rw [w2 20 (by omega)]; exact h5
  · rw [w1]; exact parseBoot_enc e

/-- a status-word program of slot `i` as a header effect on the ring -/
theorem mark_refines {f : Flash} {n S i off : Nat} {bs : List Nat} {v : Option Header} (hi : i < n) (hS : 28 ≤ S)
    (hoff : off + bs.length ≤ 28)
    (hat : NoPanic.hdrAt (f.apply (.program (i * S + off) bs)) (i * S) = v) :
    hdrsOf (f.apply (.program (i * S + off) bs)) n S = (hdrsOf f n S).set i v := by
  apply hdrsOf_set hi hat
  intro j _ hji
  exact hdrAt_frame hS (t := i) ⟨by omega, by omega⟩ hji


end Fuota.RingFlash
