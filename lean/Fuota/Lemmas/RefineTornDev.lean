import Fuota.Lemmas.RefineCrashResume
/-!
# A torn program: what it leaves on flash, and the device with a tear armed
-/
namespace Fuota.Fs
open Fuota.Nor Fuota.FlashAdapters

/-- the bytes a torn program really programs -/
def tornBytes (p keep : Nat) (bs : List Nat) : List Nat :=
  bs.take p ++ (match bs[p]? with | some b => [b ||| keep] | none => [])

/-- `tear` on a program -/
theorem tear_program (p keep a : Nat) (bs : List Nat) : tear p keep (.program a bs) = .program a (tornBytes p keep bs) :=
  rfl

/-- a torn program touches at most the bytes of the whole one -/
theorem length_tornBytes (p keep : Nat) (bs : List Nat) : (tornBytes p keep bs).length ≤ bs.length := by
  unfold tornBytes
  by_cases h : p < bs.length
  · rw [List.getElem?_eq_getElem h]
    simp only [List.length_append, List.length_take, List.length_singleton]
    omega
  · rw [List.getElem?_eq_none (by omega)]
    simp only [List.append_nil, List.length_take]
    omega

/-- what a torn program asks of byte `j`: the bits of the whole program, a superset of them, or nothing -/
theorem tornBytes_get (p keep : Nat) (bs : List Nat) (j : Nat) (hj : j < bs.length) :
    ((tornBytes p keep bs)[j]?).getD 0xFF = bs[j] ∨
    ((tornBytes p keep bs)[j]?).getD 0xFF = bs[j] ||| keep ∨
    ((tornBytes p keep bs)[j]?).getD 0xFF = 0xFF := by
  unfold tornBytes
  by_cases hp : p < bs.length
  · rw [List.getElem?_eq_getElem hp]
    show ((bs.take p ++ [bs[p] ||| keep])[j]?).getD 0xFF = _ ∨ ((bs.take p ++ [bs[p] ||| keep])[j]?).getD 0xFF = _ ∨
      ((bs.take p ++ [bs[p] ||| keep])[j]?).getD 0xFF = _
    have hl : (bs.take p).length = p := by rw [List.length_take]; omega
    rcases Nat.lt_trichotomy j p with h | h | h
    · left
      rw [List.getElem?_append_left (by omega), List.getElem?_take_of_lt h, List.getElem?_eq_getElem hj]; rfl
    · right; left
      subst h
      rw [List.getElem?_append_right (by omega), hl, Nat.sub_self]; rfl
    · right; right
      rw [List.getElem?_eq_none (by simp only [List.length_append, hl, List.length_singleton]; omega)]; rfl
  · have hn : bs[p]? = none := List.getElem?_eq_none (by omega)
    rw [hn]
    show ((bs.take p ++ [])[j]?).getD 0xFF = _ ∨ _
    left
    rw [List.append_nil, List.take_of_length_le (by omega), List.getElem?_eq_getElem hj]; rfl

/-- clearing a superset first and the exact bits then is clearing the exact bits -/
theorem and_or_and (y b k : Nat) : (y &&& (b ||| k)) &&& b = y &&& b := by
  apply Nat.eq_of_testBit_eq
  intro i
  simp only [Nat.testBit_and, Nat.testBit_or]
  cases y.testBit i <;> cases b.testBit i <;> cases k.testBit i <;> rfl

/-- **completing a torn program gives the whole program** -/
theorem apply_torn_then_whole (f : Flash) (a : Nat) (bs : List Nat) (hwf : WF f) (p keep : Nat) :
    (f.apply (tear p keep (.program a bs))).apply (.program a bs) = f.apply (.program a bs) := by
  rw [tear_program]
  apply Flash.ext_byte
  · simp only [size_apply_program]
  · rfl
  · intro x
    rw [byte_apply_program, byte_apply_program f a bs x]
    simp only [size_apply_program]
    by_cases hx : a ≤ x ∧ x < a + bs.length ∧ x < f.size
    · rw [if_pos hx, if_pos hx, byte_apply_program]
      have hj : x - a < bs.length := by omega
      have hlen := length_tornBytes p keep bs
      rw [List.getElem?_eq_getElem hj, Option.getD_some]
      by_cases hx' : a ≤ x ∧ x < a + (tornBytes p keep bs).length ∧ x < f.size
      · rw [if_pos hx']
        rcases tornBytes_get p keep bs (x - a) hj with h | h | h
        · rw [h, Nat.and_assoc, Nat.and_self]
        · rw [h, and_or_and]
        · rw [h]
          have : f.byte x &&& 0xFF = f.byte x :=
            Nat.and_two_pow_sub_one_of_lt_two_pow (n := 8) (hwf x)
          rw [this]
      · rw [if_neg hx']
    · have hlen := length_tornBytes p keep bs
      rw [if_neg hx, if_neg hx, byte_apply_program, if_neg (fun h => hx ⟨h.1, by omega, h.2.2⟩)]

/-- a torn program changes nothing outside the bytes of the whole program -/
theorem torn_frame (f : Flash) (a : Nat) (bs : List Nat) (p keep x : Nat) (h : x < a ∨ a + bs.length ≤ x) :
    (f.apply (tear p keep (.program a bs))).byte x = f.byte x := by
  have := length_tornBytes p keep bs
  rw [tear_program, byte_apply_program_of_not_mem _ _ _ _ (by omega)]

/-- a torn program keeps the size -/
theorem torn_size (f : Flash) (a : Nat) (bs : List Nat) (p keep : Nat) :
    (f.apply (tear p keep (.program a bs))).size = f.size := by
  rw [tear_program, size_apply_program]

/-- a torn program keeps bytes bytes -/
theorem torn_wf {f : Flash} (h : WF f) (a : Nat) (bs : List Nat) (p keep : Nat) :
    WF (f.apply (tear p keep (.program a bs))) := by
  rw [tear_program]; exact WF_apply_program h _ _

/-- programming bytes over a region that already holds the result of programming them changes nothing -/
theorem apply_program_absorb (e g : Flash) (a : Nat) (bs : List Nat)
    (h : ∀ x, a ≤ x → x < a + bs.length → e.byte x = (g.apply (.program a bs)).byte x) (hs : e.size = g.size) :
    e.apply (.program a bs) = e := by
  apply Flash.ext_byte
  · rw [size_apply_program]
  · rfl
  · intro x
    rw [byte_apply_program]
    by_cases hx : a ≤ x ∧ x < a + bs.length ∧ x < e.size
    · rw [if_pos hx]
      have := h x hx.1 hx.2.1
      rw [byte_apply_program, if_pos ⟨hx.1, hx.2.1, by rw [← hs]; exact hx.2.2⟩] at this
      rw [this, Nat.and_assoc, Nat.and_self]
    · rw [if_neg hx]

/-! ## the device with a tear armed -/

/-- the device with a power loss armed *inside* the `j`-th mutating operation from now: that operation, if it is a
    program, programs only `tear p keep` of itself -/
def Dev.withTear (d : Dev) (j p keep : Nat) : Dev := { d with crashAt := some (d.nmut + j, some (p, keep)) }

/-- one torn power loss is pending on the `j`-th mutating operation from now, nothing else -/
structure ArmedT (j p keep : Nat) (d : Dev) : Prop where
  crash : d.crashAt = some (d.nmut + j, some (p, keep))
  alive : d.dead = false
  fail : d.failAt = none

/-- arming a tear on a good device -/
theorem Good.withTear {d : Dev} (h : Good d) (j p keep : Nat) : ArmedT j p keep (d.withTear j p keep) :=
  ⟨rfl, h.alive, h.fail⟩

/-- the pending tear is for a later operation: this program succeeds -/
theorem writeFrom_run_armedT {d : Dev} {j p keep : Nat} (h : ArmedT (j + 1) p keep d) (a : Nat) (bs : List Nat)
    (hb : a + bs.length ≤ d.flash.size) :
    (writeFrom a bs).run d = (.ok (), d.prog a bs) ∧ ArmedT j p keep (d.prog a bs) := by
  have hb' : ¬ d.flash.size < a + bs.length := by omega
  refine ⟨?_, ⟨?_, h.alive, h.fail⟩⟩
  · unfold writeFrom mutate
    simp [run_bind, run_get, run_set, h.alive, Flash.canProgram, hb', h.crash, h.fail, Dev.prog]
  · show d.crashAt = some (d.nmut + 1 + j, some (p, keep))
    rw [h.crash]; congr 2; omega

/-- the pending tear hits this program: the torn bytes are programmed, the device is dead; rebooted it is free of
    injection and holds the torn program -/
theorem writeFrom_run_torn {d : Dev} {p keep : Nat} (h : ArmedT 0 p keep d) (a : Nat) (bs : List Nat)
    (hb : a + bs.length ≤ d.flash.size) :
    ∃ e, (writeFrom a bs).run d = (.error (.spi .custom), e) ∧ e.dead = true ∧ Good e.reboot ∧
      e.reboot.flash = d.flash.apply (tear p keep (.program a bs)) := by
  have hb' : ¬ d.flash.size < a + bs.length := by omega
  have hc : d.crashAt = some (d.nmut, some (p, keep)) := by rw [h.crash, Nat.add_zero]
  let t : Op := tear p keep (Op.program a bs)
  refine ⟨{ d with dead := true, flash := d.flash.apply t, ops := t :: d.ops }, ?_, rfl, ⟨rfl, h.fail, rfl⟩, rfl⟩
  unfold writeFrom mutate
  simp [run_bind, run_get, run_set, run_throw, h.alive, Flash.canProgram, hb', hc]
  rfl

end Fuota.Fs
