import Fuota.Lemmas.CrashRecover
/-!
# The gate of `check_and_mark_done` in the log vocabulary, the bootloader status, erased headers
-/
namespace Fuota.Crash
open Fuota.Nor Fuota.Fs Fuota.Layout Fuota.Ops Fuota.Updater Fuota.C14

variable {nslots s B : Nat}

/-! ## what one mutating primitive appends to the log -/

/-- outcome of one `write_from`: nothing, a torn program, or the program; only the last one returns `ok` -/
inductive WriteOutcome (d d' : Dev) (r : Except MErr Unit) (op : Op) : Prop
  | nothing (e : MErr) (hr : r = .error e) (h : Replay d d' [])
  | torn (e : MErr) (p keep : Nat) (hr : r = .error e) (h : Replay d d' [tear p keep op])
  | done (hr : r = .ok ()) (h : Replay d d' [op])

theorem mutate_outcome (op : Op) (d : Dev) :
    WriteOutcome d ((mutate op).run d).2 ((mutate op).run d).1 op := by
  unfold mutate
  dsimp only
  simp only [throw_bind]
  rw [run_bind, run_get]
  dsimp only
  have tail : ∀ x : M Unit, x = (if d.failAt = some d.nmut then do
          set { d with failAt := none }
          throw (MErr.spi SpiErr.custom)
        else
          set { d with flash := d.flash.apply op, ops := op :: d.ops, nmut := d.nmut + 1,
                       needsSet := d.needsSet + (match op with
                          | .program a bs => if d.flash.needsSet a bs then 1 else 0
                          | .erase _ => 0) }) →
      WriteOutcome d (x.run d).2 (x.run d).1 op := by
    intro x hx
    subst hx
    split
    · exact .nothing _ rfl (Replay.same rfl rfl rfl)
    · refine .done rfl (Replay.one rfl rfl (Nat.le_add_right _ _) ?_)
      cases op <;> exact Nat.le_refl _
  split
  · split
    · split
      · exact .torn _ _ _ rfl (Replay.one rfl rfl (Nat.le_refl _) (Nat.le_add_right _ _))
      · exact .nothing _ rfl (Replay.same rfl rfl rfl)
    · exact tail _ rfl
  · exact tail _ rfl

theorem writeFrom_outcome (a : Nat) (bs : List Nat) (d : Dev) :
    WriteOutcome d ((writeFrom a bs).run d).2 ((writeFrom a bs).run d).1 (.program a bs) := by
  unfold Fs.writeFrom
  dsimp only
  simp only [throw_bind]
  rw [run_bind, run_get]
  dsimp only
  split
  · exact .nothing _ rfl (Replay.refl d)
  · split
    · exact .nothing _ rfl (Replay.refl d)
    · exact mutate_outcome _ d

/-! ## reads leave the device alone -/

theorem loadHeaderAt_ro (a : Nat) (d : Dev) : ((loadHeaderAt a).run d).2 = d := by
  cases hd : d.dead with
  | false => rw [loadHeaderAt_run hd]
  | true =>
    unfold loadHeaderAt
    rw [run_bind, readTo_run_dead hd]

theorem loadHeaderAt_ok {a : Nat} {d : Dev} {h : Option Header} (e : ((loadHeaderAt a).run d).1 = .ok h) :
    d.dead = false ∧ Firmware.loadHeader d.flash a = some h := by
  cases hd : d.dead with
  | false =>
    rw [loadHeaderAt_run hd] at e
    refine ⟨rfl, ?_⟩
    rcases hl : Firmware.loadHeader d.flash a with _ | h'
    · rw [hl] at e; cases e
    · rw [hl] at e; cases e; rfl
  | true =>
    unfold loadHeaderAt at e
    rw [run_bind, readTo_run_dead hd] at e
    cases e

theorem crcValid_ro {d : Dev} (hwf : WF d.flash) (sl : Slot) (h : Header) :
    ((Updater.crcValid sl h).run d).2 = d ∧
      (((Updater.crcValid sl h).run d).1 = .ok () →
        d.dead = false ∧ (Firmware.crcValid d.flash (sl.idx * sl.size) h []).1 = .ok) := by
  cases hd : d.dead with
  | false =>
    rw [crcValid_bridge hd hwf sl h []]
    exact ⟨rfl, fun e => ⟨rfl, (Res.toM_ok _).1 e⟩⟩
  | true =>
    obtain ⟨e, he⟩ := crcValid_dead hd sl h
    rw [he]
    exact ⟨rfl, fun e => by cases e⟩

/-! ## the gate -/

/-- the two programs of `check_and_mark_done` -/
def markFw (u : Upd) : Op := .program (u.fw.idx * u.fw.size + 16) (writeU32 (encExt C .complete))
def markPar (u : Upd) : Op := .program (u.par.idx * u.par.size + 16) (writeU32 (encExt C .complete))

/-- the possible logs of `check_and_mark_done`, newest first: a prefix of the two marks, the last one possibly torn -/
def CheckLog (u : Upd) (new : List Op) : Prop :=
  new = [] ∨ (∃ p keep, new = [tear p keep (markFw u)]) ∨ new = [markFw u] ∨
  (∃ p keep, new = [tear p keep (markPar u), markFw u]) ∨ new = [markPar u, markFw u]

/-- **`check_gate_L2`**: whatever the device state (crash point, fault, dead), `check_and_mark_done` appends to the
    log a prefix of `[Complete → firmware slot, Complete → parity slot]`, the last one possibly torn; and if it
    appends anything at all then, on the flash **as it was when the call started**, the session was complete, the
    device alive, the firmware slot's header parsed, and `crc_valid` said `ok` for that header. -/
theorem check_gate_L2 (u : Upd) (d : Dev) (hwf : WF d.flash) :
    ∃ new, Replay d ((checkAndMarkDone u).run d).2 new ∧ CheckLog u new ∧
      (new ≠ [] → u.complete = true ∧ d.dead = false ∧
        ∃ hd, Firmware.loadHeader d.flash (u.fw.idx * u.fw.size) = some (some hd) ∧
          (Firmware.crcValid d.flash (u.fw.idx * u.fw.size) hd []).1 = .ok) := by
  have none_case : ∀ d', d' = d → ∃ new, Replay d d' new ∧ CheckLog u new ∧
      (new ≠ [] → u.complete = true ∧ d.dead = false ∧
        ∃ hd, Firmware.loadHeader d.flash (u.fw.idx * u.fw.size) = some (some hd) ∧
          (Firmware.crcValid d.flash (u.fw.idx * u.fw.size) hd []).1 = .ok) := by
    intro d' e; subst e
    exact ⟨[], Replay.refl _, Or.inl rfl, fun h => absurd rfl h⟩
  unfold checkAndMarkDone
  dsimp only
  simp only [throw_bind]
  by_cases hc : (!u.complete) = true
  · rw [if_pos hc]; exact none_case _ rfl
  · rw [if_neg hc]
    have hcomp : u.complete = true := by simpa using hc
    rw [run_bind]
    have hro := loadHeaderAt_ro (u.fw.idx * u.fw.size) d
    rcases hl : (loadHeaderAt (u.fw.idx * u.fw.size)).run d with ⟨r1, d1⟩
    rw [hl] at hro
    dsimp only at hro
    subst hro
    rcases r1 with e | (_ | hd)
    · exact none_case _ rfl
    · exact none_case _ rfl
    · have hok := loadHeaderAt_ok (by rw [hl])
      dsimp only
      rw [run_bind]
      obtain ⟨hro2, hgate⟩ := crcValid_ro hwf u.fw hd
      rcases hv : (Updater.crcValid u.fw hd).run d1 with ⟨r2, d2⟩
      rw [hv] at hro2 hgate
      dsimp only at hro2 hgate
      subst hro2
      rcases r2 with e | ⟨⟩
      · exact none_case _ rfl
      · have facts := hgate rfl
        have gate : u.complete = true ∧ d2.dead = false ∧
            ∃ hd, Firmware.loadHeader d2.flash (u.fw.idx * u.fw.size) = some (some hd) ∧
              (Firmware.crcValid d2.flash (u.fw.idx * u.fw.size) hd []).1 = .ok :=
          ⟨hcomp, hok.1, hd, hok.2, facts.2⟩
        dsimp only
        rw [run_bind]
        have o1 := writeFrom_outcome (u.fw.idx * u.fw.size + 16) (writeU32 (encExt C .complete)) d2
        have e1 : (Slot.markExtComplete u.fw) = writeFrom (u.fw.idx * u.fw.size + 16)
            (writeU32 (encExt C .complete)) := rfl
        rw [e1]
        rcases hw1 : (writeFrom (u.fw.idx * u.fw.size + 16) (writeU32 (encExt C .complete))).run d2 with ⟨r3, d3⟩
        rw [hw1] at o1
        dsimp only at o1
        cases o1 with
        | nothing e hr h => subst hr; exact ⟨[], h, Or.inl rfl, fun hne => absurd rfl hne⟩
        | torn e p keep hr h => subst hr; exact ⟨_, h, Or.inr (Or.inl ⟨p, keep, rfl⟩), fun _ => gate⟩
        | done hr h =>
          subst hr
          dsimp only
          rw [run_bind]
          have o2 := writeFrom_outcome (u.par.idx * u.par.size + 16) (writeU32 (encExt C .complete)) d3
          have e2 : (Slot.markExtComplete u.par) = writeFrom (u.par.idx * u.par.size + 16)
              (writeU32 (encExt C .complete)) := rfl
          rw [e2]
          rcases hw2 : (writeFrom (u.par.idx * u.par.size + 16) (writeU32 (encExt C .complete))).run d3
            with ⟨r4, d4⟩
          rw [hw2] at o2
          dsimp only at o2
          cases o2 with
          | nothing e hr h2 =>
            subst hr
            exact ⟨_, Replay.trans h h2, Or.inr (Or.inr (Or.inl rfl)), fun _ => gate⟩
          | torn e p keep hr h2 =>
            subst hr
            exact ⟨_, Replay.trans h h2, Or.inr (Or.inr (Or.inr (Or.inl ⟨p, keep, rfl⟩))), fun _ => gate⟩
          | done hr h2 =>
            subst hr
            exact ⟨_, Replay.trans h h2, Or.inr (Or.inr (Or.inr (Or.inr rfl))), fun _ => gate⟩

/-! ## erased headers do not parse -/

theorem parse_erased : parseHeader Codec.new (List.replicate 28 0xFF) = none := by decide

/-- **`clear_kills_header_first`, explicit part**: an erased header reads as 28 bytes `0xFF` and does not parse -/
theorem hdrFF_no_parse {f : Flash} {base : Nat} (h : HdrFF f base) : parseHeader Codec.new (f.read base 28) = none := by
  have : f.read base 28 = List.replicate 28 0xFF := by
    apply List.ext_getElem
    · simp [Flash.read]
    · intro j h1 h2
      simp only [Flash.read, List.getElem_map, List.getElem_range, List.getElem_replicate]
      exact h j (by simpa [Flash.read] using h1)
  rw [this]; exact parse_erased

/-! ## the bootloader status -/

theorem blStatus_ext {h : Header}
    (e : totalStatus h = .bootloadWriteInProgress ∨ totalStatus h = .firstBootPendingAck) : h.ext = .complete := by
  unfold totalStatus at e
  cases hv : (h.seq != 0xFFFFFFFF) <;> cases hext : h.ext <;> cases hi : h.ist <;> cases hb : h.boot <;>
    simp_all

/-- the slot `bl_boot_status` designates -/
def blIdx : Sum Nat Nat → Nat
  | .inl i => i
  | .inr i => i

/-- **`bl_designates_valid`**: on a flash satisfying the invariant, the slot the bootloader status designates (copy
    incomplete, or load unacknowledged) has a header of kind firmware with external status Complete, and passes
    `is_valid_firmware` -/
theorem bl_designates_valid {f : Flash} (hJ : CVW nslots s B f) (r : Sum Nat Nat)
    (h : blStatus ((List.range nslots).map (hdrAt f s)) = some r) :
    blIdx r < nslots ∧ (∃ hd, hdrAt f s (blIdx r) = some hd ∧ hd.kind = .firmware ∧ hd.ext = .complete) ∧
      (Firmware.isValidFirmware f s (blIdx r)).1 = .ok := by
  unfold blStatus at h
  obtain ⟨⟨i, hd⟩, hmem, hf⟩ := List.exists_of_findSome?_eq_some h
  dsimp only at hf
  split at hf
  · rename_i hk
    obtain ⟨hi, hg⟩ := indexed_spec nslots _ _ hmem
    have key : ∀ r', r' = r → blIdx r' = i →
        (totalStatus hd = .bootloadWriteInProgress ∨ totalStatus hd = .firstBootPendingAck) →
        blIdx r < nslots ∧ (∃ hd, hdrAt f s (blIdx r) = some hd ∧ hd.kind = .firmware ∧ hd.ext = .complete) ∧
          (Firmware.isValidFirmware f s (blIdx r)).1 = .ok := by
      intro r' e1 e2 hst
      subst e1
      rw [e2]
      have hext := blStatus_ext hst
      obtain ⟨rest, hp⟩ := hdrAt_some hg
      exact ⟨hi, ⟨hd, hg, hk, hext⟩, hJ.completeValid i hi hd rest hp hk hext⟩
    split at hf
    · rename_i hst; cases hf; exact key _ rfl rfl (Or.inl hst)
    · rename_i hst; cases hf; exact key _ rfl rfl (Or.inr hst)
    · cases hf
  · cases hf

/-- the same for the call `bl_boot_status` on a device: it changes nothing, and what it designates validates -/
theorem blBootStatus_keeps :
    Keeps (CVW nslots s B) (blBootStatus nslots s)
      (fun r f => CVW nslots s B f ∧ ∀ x, r = some x → blIdx x < nslots ∧
        (Firmware.isValidFirmware f s (blIdx x)).1 = .ok) (CVW nslots s B) := by
  unfold blBootStatus
  refine Keeps.bind (loadHeaders_keeps nslots s _) (fun hs' => Keeps.pure ?_)
  intro f hf
  obtain ⟨hJ, rfl⟩ := hf
  refine ⟨hJ, hJ, fun x hx => ?_⟩
  obtain ⟨h1, _, h3⟩ := bl_designates_valid hJ x hx
  exact ⟨h1, h3⟩

end Fuota.Crash
