import Fuota.Lemmas.V1Slot
import Fuota.Lemmas.RefineStores
/-!
# What a slot of a naive session holds, as the accessors see it, and how `write_segment` changes it (C19)
-/
set_option linter.unusedSimpArgs false
namespace Fuota.V1
open Fuota.Nor Fuota.Fs Fuota.Layout Fuota.FlashAdapters Fuota.Updater

/-- the view of one slot: its header announces `cnt` fragments, its status table encodes `mask`, the fragments marked
    written read as `val i`, the others are still erased -/
structure SlotView (s : Slot) (f : Flash) (seg cnt mask : Nat) (val : Nat → List Nat) : Prop where
  nword : parseNseg Fs.C (Nor.le32 (f.read (s.size * s.idx + 12) 4)) = some cnt
  tab : TableIs f (s.idx * s.size + 1024) cnt 0 mask
  below : Below mask cnt
  data : ∀ i, i < cnt → mask.testBit i = true → f.read (dAddr s seg i) seg = val i
  free : ∀ i, i < cnt → mask.testBit i = false → Erased f (dAddr s seg i) (dAddr s seg i + seg)

/-- the bytes of the slot -/
def InSlotB (s : Slot) (x : Nat) : Prop := s.idx * s.size ≤ x ∧ x < s.idx * s.size + s.size

/-- a view only depends on the bytes of its slot -/
theorem SlotView.frame {s : Slot} {f f' : Flash} {seg cnt mask : Nat} {val : Nat → List Nat}
    (v : SlotView s f seg cnt mask val) (hfit : 17408 + cnt * seg ≤ s.size) (hcnt : cnt ≤ 16384)
    (h : ∀ x, InSlotB s x → f'.byte x = f.byte x) : SlotView s f' seg cnt mask val := by
  have e : s.size * s.idx = s.idx * s.size := Nat.mul_comm _ _
  have hcs : ∀ i, i < cnt → i * seg + seg ≤ cnt * seg := by
    intro i hi
    have : (i + 1) * seg ≤ cnt * seg := Nat.mul_le_mul_right seg hi
    rw [Nat.add_mul, Nat.one_mul] at this; exact this
  refine ⟨?_, ?_, v.below, ?_, ?_⟩
  · rw [read_congr f' f _ 4 (fun x h1 h2 => h x ⟨by omega, by omega⟩)]
    exact v.nword
  · intro j hj
    rw [h _ ⟨by omega, by omega⟩]
    exact v.tab j hj
  · intro i hi hb
    have := hcs i hi
    rw [read_congr f' f _ seg (fun x h1 h2 => h x ⟨by unfold dAddr at h1; omega, by unfold dAddr at h2; omega⟩)]
    exact v.data i hi hb
  · intro i hi hb x h1 h2
    have := hcs i hi
    rw [h x ⟨by unfold dAddr at h1; omega, by unfold dAddr at h2; omega⟩]
    exact v.free i hi hb x h1 h2

/-- the flash after `write_segment(i, buf)` -/
def fAfter (s : Slot) (seg i : Nat) (buf : List Nat) (f : Flash) : Flash :=
  (f.apply (.program (dAddr s seg i) buf)).apply (.program (tAddr s i) [0x33])

theorem afterWrite_flash (s : Slot) (seg i : Nat) (buf : List Nat) (d : Dev) :
    (afterWrite s seg i buf d).flash = fAfter s seg i buf d.flash := rfl

theorem fAfter_byte_other (s : Slot) (seg i : Nat) (buf : List Nat) (f : Flash) (x : Nat)
    (h1 : x < dAddr s seg i ∨ dAddr s seg i + buf.length ≤ x) (h2 : x ≠ tAddr s i) :
    (fAfter s seg i buf f).byte x = f.byte x := by
  unfold fAfter
  rw [byte_apply_program_of_not_mem _ _ _ _ (by simp only [List.length_cons, List.length_nil]; omega),
    byte_apply_program_of_not_mem _ _ _ _ (by omega)]

/-- writes inside slot `s` leave every byte outside it alone -/
theorem fAfter_outside (s : Slot) (seg i : Nat) (buf : List Nat) (f : Flash) (x : Nat)
    (hfit : 17408 + i * seg + buf.length ≤ s.size) (hi : i < 16384) (hx : ¬ InSlotB s x) :
    (fAfter s seg i buf f).byte x = f.byte x := by
  apply fAfter_byte_other
  · unfold dAddr; unfold InSlotB at hx; omega
  · unfold tAddr; unfold InSlotB at hx; omega

/-- **`write_segment` on the view**: a fragment that was not written becomes written with the bytes programmed -/
theorem SlotView.write {s : Slot} {f : Flash} {seg cnt mask : Nat} {val : Nat → List Nat}
    (v : SlotView s f seg cnt mask val) (hseg : 1 ≤ seg) (hcnt : cnt ≤ 16384)
    (hfit : 17408 + cnt * seg ≤ s.size) (hin : s.idx * s.size + s.size ≤ f.size)
    (i : Nat) (hi : i < cnt) (hb : mask.testBit i = false) (buf : List Nat) (hlen : buf.length = seg)
    (hbytes : IsBytes buf) (hval : val i = buf) :
    SlotView s (fAfter s seg i buf f) seg cnt (mask ||| 2 ^ i) val := by
  have e : s.size * s.idx = s.idx * s.size := Nat.mul_comm _ _
  have hcs : ∀ j, j < cnt → j * seg + seg ≤ cnt * seg := by
    intro j hj
    have : (j + 1) * seg ≤ cnt * seg := Nat.mul_le_mul_right seg hj
    rw [Nat.add_mul, Nat.one_mul] at this; exact this
  have hci := hcs i hi
  have hdis : ∀ j, j ≠ i → j * seg + seg ≤ i * seg ∨ i * seg + seg ≤ j * seg := fun j hj => seg_disjoint seg hj
  refine ⟨?_, ?_, ?_, ?_, ?_⟩
  · rw [read_congr (fAfter s seg i buf f) f _ 4 (fun x h1 h2 =>
      fAfter_byte_other s seg i buf f x (by unfold dAddr; omega) (by unfold tAddr; omega))]
    exact v.nword
  · intro j hj
    rw [Nat.zero_add, testBit_or_pow]
    by_cases hji : j = i
    · subst hji
      simp only [decide_true, Bool.or_true, ↓reduceIte]
      unfold fAfter
      have hlt : s.idx * s.size + 1024 + j = tAddr s j := by unfold tAddr; omega
      rw [hlt, byte_apply_program_of_mem _ (tAddr s j) [0x33] (tAddr s j)
        (by simp only [List.length_cons, List.length_nil, size_apply_program]; unfold tAddr; omega) (Nat.le_refl _)
        (by simp)]
      rw [byte_apply_program_of_not_mem _ _ _ _ (by unfold dAddr tAddr; omega)]
      have := v.tab j hj
      rw [Nat.zero_add, hb] at this
      simp only [Bool.false_eq_true, ↓reduceIte] at this
      rw [← hlt, this]
      simp
    · simp only [hji, decide_false, Bool.or_false]
      rw [fAfter_byte_other s seg i buf f _ (by unfold dAddr; omega) (by unfold tAddr; omega)]
      have := v.tab j hj
      rw [Nat.zero_add] at this
      exact this
  · intro j hj
    rw [testBit_or_pow, v.below j hj]
    have : ¬ j = i := by omega
    simp [this]
  · intro j hj hbit
    rw [testBit_or_pow] at hbit
    by_cases hji : j = i
    · subst hji
      unfold fAfter
      rw [read_prog_other _ _ _ _ _ (by unfold dAddr tAddr; simp only [List.length_cons, List.length_nil]; omega)]
      have he : Erased f (dAddr s seg j) (dAddr s seg j + buf.length) := by rw [hlen]; exact v.free j hj hb
      have := read_prog_same f (dAddr s seg j) buf hbytes (by unfold dAddr; omega) he
      rw [hlen] at this
      rw [this, hval]
    · simp only [hji, decide_false, Bool.or_false] at hbit
      have := hdis j hji
      have hcj := hcs j hj
      rw [read_congr (fAfter s seg i buf f) f _ seg (fun x h1 h2 =>
        fAfter_byte_other s seg i buf f x (by unfold dAddr at h1 h2 ⊢; omega) (by unfold dAddr at h1; unfold tAddr; omega))]
      exact v.data j hj hbit
  · intro j hj hbit x h1 h2
    rw [testBit_or_pow] at hbit
    have hji : j ≠ i := by
      intro e; subst e; simp at hbit
    simp only [hji, decide_false, Bool.or_false] at hbit
    have := hdis j hji
    have hcj := hcs j hj
    rw [fAfter_byte_other s seg i buf f x (by unfold dAddr at h1 h2 ⊢; omega) (by unfold dAddr at h1; unfold tAddr; omega)]
    exact v.free j hj hbit x h1 h2

end Fuota.V1
