import Fuota.Lemmas.AdapterSlots
import Fuota.Lemmas.AdapterArith
import Fuota.Lemmas.AdapterParity
/-!
# `FlashMatrixStorage` (C16)

Row `m` owns the `flashRowSize m` bytes at `start + flashRowAddressOffset m`; rows are adjacent
(`flashRowAddressOffset_succ`). `set_row` programs the first `flashRowSize m` bytes of the row (zero padded when the
bit array is shorter); `row` reads them back and fills the rest with zeros, which is the row itself when it obeys the
`set_row` contract (bit `m` set, none above).
-/
set_option linter.unusedSimpArgs false
namespace Fuota.FlashAdapters
open Fuota.Nor

def rowAddr (c : Cfg) (m : Nat) : Nat := c.start + flashRowAddressOffset c m

/-- bit `i` of a raw row (`BitArray<[u8; N]>`, `Lsb0`) -/
def rowBit (raw : List Nat) (i : Nat) : Bool := ((raw[i / 8]?).getD 0).testBit (i % 8)

/-- the contract of `MatrixStorage::set_row`: bit `m` set, none above -/
def RowContract (m : Nat) (raw : List Nat) : Prop := rowBit raw m = true ∧ ∀ i, m < i → rowBit raw i = false

theorem byte_eq_zero_of_bits {b : Nat} (hb : b < 256) (h : ∀ j, j < 8 → b.testBit j = false) : b = 0 := by
  apply Nat.eq_of_testBit_eq
  intro j
  rw [Nat.zero_testBit]
  by_cases hj : j < 8
  · exact h j hj
  · exact Nat.testBit_lt_two_pow (Nat.lt_of_lt_of_le hb (Nat.pow_le_pow_right (n := 2) (by decide) (show 8 ≤ j by omega)))

/-- under the contract every byte above byte `m / 8` is zero -/
theorem RowContract.bytes_zero {m : Nat} {raw : List Nat} (h : RowContract m raw) (hb : ∀ b ∈ raw, b < 256)
    (i : Nat) (hi : m / 8 < i) : (raw[i]?).getD 0 = 0 := by
  by_cases hl : i < raw.length
  · apply byte_eq_zero_of_bits
    · rw [List.getElem?_eq_getElem hl]; exact hb _ (List.getElem_mem _)
    · intro j hj
      have := h.2 (8 * i + j) (by omega)
      unfold rowBit at this
      rwa [show (8 * i + j) / 8 = i by omega, show (8 * i + j) % 8 = j by omega] at this
  · rw [List.getElem?_eq_none (by omega)]; rfl

/-- the image programmed by `set_row` -/
def rowImage (c : Cfg) (m : Nat) (raw : List Nat) : List Nat :=
  raw.take (flashRowSize c m) ++ List.replicate (flashRowSize c m - raw.length) 0

theorem length_rowImage (c : Cfg) (m : Nat) (raw : List Nat) : (rowImage c m raw).length = flashRowSize c m := by
  simp only [rowImage, List.length_append, List.length_take, List.length_replicate]; omega

/-- facts about the split when the row is longer than the bit array -/
theorem row_long (c : Cfg) (hW : 0 < c.W) (m : Nat) (hm : m < 8 * c.N) (h : flashRowSize c m > c.N) :
    flashRowSize c m - c.W < c.N ∧ c.W ≤ flashRowSize c m ∧ c.N - (flashRowSize c m - c.W) < c.W := by
  have h1 := flashRowSize_lt c hW m
  have h2 := flashRowSize_ge c m
  have h3 : flashRowSize c m = c.W * (m / (c.W * 8) + 1) := flashRowSize_eq c hW m
  have h4 : c.W ≤ flashRowSize c m := by
    rw [h3]; exact Nat.le_mul_of_pos_right _ (Nat.succ_pos _)
  omega

theorem setRow_apply (c : Cfg) (hW : 0 < c.W) (hW32 : c.W ≤ MAX_WORD_SIZE) (f : Flash) (m : Nat) (raw : List Nat)
    (hN : raw.length = c.N) (hm : m < 8 * c.N) :
    applyAccs f (setRowAccs c m raw) = f.apply (.program (rowAddr c m) (rowImage c m raw)) := by
  simp only [setRowAccs, rowAddr, rowImage]
  by_cases h : flashRowSize c m > c.N
  · obtain ⟨h1, h2, h3⟩ := row_long c hW m hm h
    simp only [if_pos h]
    have hne : List.drop (flashRowSize c m - c.W) raw ≠ [] := by
      intro h0
      have := congrArg List.length h0
      simp only [List.length_drop, List.length_nil] at this
      omega
    rw [if_pos hne]
    simp only [List.singleton_append, applyAccs_cons, applyAccs_nil, applyAcc]
    rw [tail_buffer c.W hW32 _ _ (by rw [List.length_drop]; omega), apply_program_append, ← List.append_assoc,
      List.take_append_drop, List.length_drop, List.take_of_length_le (by omega)]
    congr 4
    omega
  · simp only [if_neg h, ne_eq, not_true_eq_false, if_false, List.append_nil, applyAccs_cons, applyAccs_nil, applyAcc]
    have : flashRowSize c m - raw.length = 0 := by omega
    rw [this, List.replicate_zero, List.append_nil]

theorem byte_setRow (c : Cfg) (hW : 0 < c.W) (hW32 : c.W ≤ MAX_WORD_SIZE) (f : Flash) (m : Nat) (raw : List Nat)
    (hN : raw.length = c.N) (hm : m < 8 * c.N) (x : Nat) :
    (applyAccs f (setRowAccs c m raw)).byte x =
      if rowAddr c m ≤ x ∧ x < rowAddr c m + flashRowSize c m ∧ x < f.size
      then f.byte x &&& ((rowImage c m raw)[x - rowAddr c m]?).getD 0xFF else f.byte x := by
  rw [setRow_apply c hW hW32 f m raw hN hm, byte_apply_program, length_rowImage]

/-- `row` reads the row's bytes (as many as the bit array holds) and zero-fills -/
theorem rowVal_eq (c : Cfg) (hW : 0 < c.W) (f : Flash) (m : Nat) (hm : m < 8 * c.N) :
    rowVal c f m = f.read (rowAddr c m) (min (flashRowSize c m) c.N) ++ List.replicate (c.N - flashRowSize c m) 0 := by
  simp only [rowVal, rowBodyLen, rowPaddedLen, rowAddr]
  by_cases h : flashRowSize c m > c.N
  · obtain ⟨h1, h2, h3⟩ := row_long c hW m hm h
    simp only [if_pos h]
    rw [if_pos (by omega), List.take_append_of_le_length (by rw [length_read]; omega), take_read _ _ _ _ (by omega),
      read_append, show c.N - flashRowSize c m = 0 by omega, List.replicate_zero, List.append_nil]
    congr 1; omega
  · simp only [if_neg h, ne_eq, not_true_eq_false, if_false]
    rw [Nat.min_eq_left (by omega)]

theorem rowAddr_disjoint (c : Cfg) (hW : 0 < c.W) {m j : Nat} (h : m ≠ j) :
    rowAddr c m + flashRowSize c m ≤ rowAddr c j ∨ rowAddr c j + flashRowSize c j ≤ rowAddr c m := by
  unfold rowAddr
  rcases Nat.lt_or_gt_of_ne h with h | h
  · left; have := flashRowAddressOffset_mono c hW h; omega
  · right; have := flashRowAddressOffset_mono c hW h; omega

theorem rowAddr_mod (c : Cfg) (hW : 0 < c.W) (hs : c.start % c.W = 0) (m : Nat) : rowAddr c m % c.W = 0 := by
  unfold rowAddr; rw [Nat.add_mod, hs, flashRowAddressOffset_mod c hW]; simp

def matrixSys (c : Cfg) (hW : 0 < c.W) (hW32 : c.W ≤ MAX_WORD_SIZE) : SlotSys where
  lo m := rowAddr c m
  hi m := rowAddr c m + flashRowSize c m
  store f m d := applyAccs f (setRowAccs c m d)
  get f m := rowVal c f m
  ok m d := d.length = c.N ∧ (∀ b ∈ d, b < 256) ∧ RowContract m d ∧ m < 8 * c.N ∧ rowAddr c m + flashRowSize c m ≤ c.stop
  okIdx m := m < 8 * c.N
  good f := WF f ∧ c.stop ≤ f.size
  good_store := by
    intro f m d hg _
    exact ⟨WF_applyAccs hg.1 _, by rw [size_applyAccs]; exact hg.2⟩
  disjoint := by
    intro m j h
    exact rowAddr_disjoint c hW h
  frame_byte := by
    intro f m d x _ hok hx
    rw [byte_setRow c hW hW32 f m d hok.1 hok.2.2.2.1, if_neg (by omega)]
  get_congr := by
    intro f g m hm h
    rw [rowVal_eq c hW f m hm, rowVal_eq c hW g m hm]
    congr 1
    apply read_congr
    intro x h1 h2
    exact h x h1 (by omega)
  ok_idx := fun h => h.2.2.2.1
  roundtrip1 := by
    intro f m d hg hok her
    obtain ⟨hl, hb, hct, hm, hcap⟩ := hok
    rw [rowVal_eq c hW _ m hm]
    apply List.ext_getElem?
    intro i
    have hge := flashRowSize_ge c m
    rw [List.getElem?_append, length_read, getElem?_read]
    by_cases hi : i < min (flashRowSize c m) c.N
    · rw [if_pos hi, if_pos hi, byte_setRow c hW hW32 f m d hl hm,
        if_pos ⟨by omega, by omega, by have := hg.2; omega⟩, her _ (by omega) (by omega)]
      have e : rowAddr c m + i - rowAddr c m = i := by omega
      rw [e, rowImage, List.getElem?_append_left (by rw [List.length_take]; omega), List.getElem?_take,
        if_pos (by omega), List.getElem?_eq_getElem (by omega)]
      simp only [Option.getD_some]
      rw [ff_and_of_lt (hb _ (List.getElem_mem _))]
    · rw [if_neg hi, List.getElem?_replicate]
      by_cases hi2 : i < c.N
      · rw [if_pos (by omega)]
        have := hct.bytes_zero hb i (by omega)
        rw [List.getElem?_eq_getElem (by omega)] at this ⊢
        simp only [Option.getD_some] at this
        rw [this]
      · rw [if_neg (by omega), List.getElem?_eq_none (by omega)]

/-! ## accesses -/

theorem sub_mod_of_mod {a W : Nat} (h : a % W = 0) (hle : W ≤ a) : (a - W) % W = 0 := by
  obtain ⟨k, hk⟩ := Nat.dvd_of_mod_eq_zero h
  subst hk
  cases k with
  | zero => simp
  | succ k => rw [Nat.mul_succ, Nat.add_sub_cancel, Nat.mul_mod_right]

theorem setRow_accs (c : Cfg) (hW : 0 < c.W) (hW32 : c.W ≤ MAX_WORD_SIZE) (hs : c.start % c.W = 0) (m : Nat)
    (raw : List Nat) (hN : raw.length = c.N) (hm : m < 8 * c.N) (hcap : rowAddr c m + flashRowSize c m ≤ c.stop) :
    ∀ a ∈ setRowAccs c m raw, (∃ addr bs, a = .program addr bs) ∧ a.aligned c ∧ a.inRange c := by
  have ham := rowAddr_mod c hW hs m
  have hlm := flashRowSize_mod c hW m
  have hge : c.start ≤ rowAddr c m := by unfold rowAddr; omega
  intro a ha
  simp only [setRowAccs, List.mem_append, List.mem_singleton] at ha
  unfold rowAddr at ham hcap hge
  by_cases h : flashRowSize c m > c.N
  · obtain ⟨h1, h2, h3⟩ := row_long c hW m hm h
    simp only [if_pos h] at ha
    have hl0 : (List.take (flashRowSize c m - c.W) raw).length = flashRowSize c m - c.W := by
      rw [List.length_take]; omega
    rcases ha with rfl | ha
    · refine ⟨⟨_, _, rfl⟩, ⟨ham, by rw [hl0]; exact sub_mod_of_mod hlm h2⟩, ?_⟩
      simp only [Acc.inRange, hl0]; omega
    · split at ha
      · rw [List.mem_singleton] at ha
        subst ha
        have hlt : ((List.drop (flashRowSize c m - c.W) raw ++
            List.replicate (MAX_WORD_SIZE - (List.drop (flashRowSize c m - c.W) raw).length) 0).take c.W).length = c.W := by
          rw [tail_buffer c.W hW32 _ _ (by rw [List.length_drop]; omega), List.length_append, List.length_replicate,
            List.length_drop]; omega
        refine ⟨⟨_, _, rfl⟩, ⟨?_, by rw [hlt]; exact Nat.mod_self _⟩, ?_⟩
        · rw [hl0, Nat.add_mod, ham, sub_mod_of_mod hlm h2]; simp
        · simp only [Acc.inRange, hlt, hl0]; omega
      · cases ha
  · simp only [if_neg h, ne_eq, not_true_eq_false, if_false, List.not_mem_nil, or_false] at ha
    subst ha
    have hl0 : (List.take (flashRowSize c m) raw).length = flashRowSize c m := by
      rw [List.length_take]; omega
    refine ⟨⟨_, _, rfl⟩, ⟨ham, by rw [hl0]; exact hlm⟩, ?_⟩
    simp only [Acc.inRange, hl0]; omega

theorem setRow_seqOk (c : Cfg) (hW : 0 < c.W) (f : Flash) (m : Nat) (raw : List Nat)
    (hN : raw.length = c.N) (hm : m < 8 * c.N)
    (her : Erased f (rowAddr c m) (rowAddr c m + flashRowSize c m)) : SeqOk f (setRowAccs c m raw) := by
  simp only [setRowAccs]
  rw [SeqOk_append]
  unfold rowAddr at her
  by_cases h : flashRowSize c m > c.N
  · obtain ⟨h1, h2, h3⟩ := row_long c hW m hm h
    simp only [if_pos h]
    have hl0 : (List.take (flashRowSize c m - c.W) raw).length = flashRowSize c m - c.W := by
      rw [List.length_take]; omega
    refine ⟨⟨?_, trivial⟩, ?_⟩
    · intro i hi
      left
      rw [hl0] at hi
      exact her _ (by omega) (by omega)
    · split
      · refine ⟨?_, trivial⟩
        intro i hi
        left
        rw [List.length_take] at hi
        simp only [applyAccs_cons, applyAccs_nil, applyAcc]
        rw [byte_apply_program_of_not_mem _ _ _ _ (by omega)]
        exact her _ (by omega) (by rw [hl0]; omega)
      · trivial
  · simp only [if_neg h, ne_eq, not_true_eq_false, if_false]
    refine ⟨⟨?_, trivial⟩, trivial⟩
    intro i hi
    left
    rw [List.length_take] at hi
    exact her _ (by omega) (by omega)

theorem row_accs (c : Cfg) (hW : 0 < c.W) (hR : c.R ∣ c.W) (hs : c.start % c.W = 0) (m : Nat)
    (hm : m < 8 * c.N) (hcap : rowAddr c m + flashRowSize c m ≤ c.stop) :
    ∀ a ∈ rowAccs c m, (∃ addr n, a = .read addr n) ∧ a.aligned c ∧ a.inRange c := by
  have ham := rowAddr_mod c hW hs m
  have hlm := flashRowSize_mod c hW m
  have hge : c.start ≤ rowAddr c m := by unfold rowAddr; omega
  intro a ha
  simp only [rowAccs, rowBodyLen, rowPaddedLen, List.mem_append, List.mem_singleton] at ha
  unfold rowAddr at ham hcap hge
  by_cases h : flashRowSize c m > c.N
  · obtain ⟨h1, h2, h3⟩ := row_long c hW m hm h
    simp only [if_pos h] at ha
    rcases ha with rfl | ha
    · refine ⟨⟨_, _, rfl⟩, ⟨mod_of_mod_of_dvd hR ham, mod_of_mod_of_dvd hR (sub_mod_of_mod hlm h2)⟩, ?_⟩
      simp only [Acc.inRange]; omega
    · split at ha
      · rw [List.mem_singleton] at ha
        subst ha
        have hadd : (c.start + flashRowAddressOffset c m + (flashRowSize c m - c.W)) % c.W = 0 := by
          rw [Nat.add_mod, ham, sub_mod_of_mod hlm h2]; simp
        refine ⟨⟨_, _, rfl⟩, ⟨mod_of_mod_of_dvd hR hadd, Nat.mod_eq_zero_of_dvd hR⟩, ?_⟩
        simp only [Acc.inRange]; omega
      · cases ha
  · simp only [if_neg h, ne_eq, not_true_eq_false, if_false, List.not_mem_nil, or_false] at ha
    subst ha
    refine ⟨⟨_, _, rfl⟩, ⟨mod_of_mod_of_dvd hR ham, mod_of_mod_of_dvd hR hlm⟩, ?_⟩
    simp only [Acc.inRange]; omega

end Fuota.FlashAdapters
