import Fuota.Lemmas.RefineCrashStage1
/-!
# `try_recover_inner` on a device that lost power inside a `handle_segment` call
-/
namespace Fuota.Updater
open Fuota.Nor Fuota.Fs Fuota.FlashAdapters Fuota.Recon Fuota.Layout

/-- the status scan on a device whose marks are `done` exactly (unmarked bytes erased) returns `done` -/
theorem loadStatusArray_marks {u : Upd} {d : Dev} (g : Geo u d.flash.size) (hG : Good d)
    (hdone : ∀ i, u.done.testBit i = true → i < u.n)
    (hst : ∀ j, j < u.n → d.flash.byte (statAddr u j) = if u.done.testBit j = true then 0x33 else 0xFF)
    (s : Slot) (hidx : s.idx = u.fw.idx) (hsize : s.size = u.fw.size)
    (hn : NoPanic.nsegAt d.flash (s.size * s.idx + Consts.NSEG_OFFSET) = u.n) :
    (s.loadStatusArray MAX_SEGMENT_SIZE).run d = (.ok u.done, d) := by
  obtain ⟨h1, h2, h3, h4, h5, h6, h7⟩ := g.slots
  have hnn := g.hn
  have hstat : ∀ j, j < u.n → d.flash.byte (statAddr u j) = 0x33 ∨ d.flash.byte (statAddr u j) = 0xFF := by
    intro j hj
    rw [hst j hj]
    by_cases hd : u.done.testBit j = true
    · simp [hd]
    · simp [hd]
  have hbase : s.idx * s.size + WRITTEN_OFFSET = fwBase u + 1024 := by rw [hidx, hsize]; rfl
  obtain ⟨m, hrun, hbits⟩ := fillBitcache_run hG (fwBase u + 1024) MAX_SEGMENT_SIZE (by decide) (u.n + 1)
    (fwBase u + 1024) u.n 0 (Nat.le_refl _) (by omega) (by omega) (by omega)
    (by
      intro x hx1 hx2
      have := hstat (x - (fwBase u + 1024)) (by omega)
      simp only [statAddr] at this
      rwa [show fwBase u + 1024 + (x - (fwBase u + 1024)) = x by omega] at this)
    (fun j _ => by simp)
  simp only [Nat.sub_self, Nat.zero_add, Nat.not_lt_zero, ↓reduceIte] at hbits
  have hbits' : ∀ j, m.testBit j = (decide (j < u.n) && decide (d.flash.byte (statAddr u j) = 0x33)) := by
    intro j; rw [hbits j]; rfl
  have hm : m = u.done := by
    apply Nat.eq_of_testBit_eq
    intro j
    rw [hbits' j]
    by_cases hj : j < u.n
    · rw [hst j hj]
      cases hd : u.done.testBit j <;> simp [hj]
    · cases hd : u.done.testBit j with
      | false => simp [hj]
      | true => exact absurd (hdone j hd) hj
  subst hm
  unfold Slot.loadStatusArray
  rw [run_bind, numSegments_run s hG (by rw [hsize, hidx, Nat.mul_comm]; unfold fwBase at h3; omega), hn]
  simp only [hbase]
  exact hrun

/-- **`try_recover_inner` from explicit facts about the device** (no session invariant needed): accepted geometry,
no injection armed, the session incomplete, the written marks are exactly `done`, the diagonal scan reads `used`,
the stage bound, the two session headers newest (parity newest) and all other headers settled. Recovery succeeds,
only reads, and returns the updater rebuilt from `done` and `used`. -/
theorem recover_run_core (nslots : Nat) {u : Upd} {d : Dev} {sa sb : Nat} (g : Geo u d.flash.size) (hG : Good d)
    (hdone : ∀ i, u.done.testBit i = true → i < u.n)
    (hst : ∀ j, j < u.n → d.flash.byte (statAddr u j) = if u.done.testBit j = true then 0x33 else 0xFF)
    (hU : (loadUsed { idx := u.par.idx, size := u.fw.size } (u.maxL * u.bs) (List.range u.maxL) 0).run d =
      (.ok u.used, d))
    (hlb : u.used ≠ 0 → u.n - pop u.done u.n ≤ u.maxL)
    (hfw : NoPanic.hdrAt d.flash (u.fw.idx * u.fw.size) = some (fwHdr u sa))
    (hpar : NoPanic.hdrAt d.flash (u.par.idx * u.par.size) = some (parHdr u sb))
    (hin : nslots * u.fw.size ≤ d.flash.size) (hnew : C07b.NewestPair nslots u d sa sb)
    (hoth : C07b.OthersSettled nslots u d) :
    (tryRecoverInner nslots u.fw.size).run d = (.ok (some (recovered u u.fw.size u.done)), d) := by
  obtain ⟨h1, h2, h3, h4, h5, h6, h7⟩ := g.slots
  have hsa := hdrAt_seq_valid hfw
  have hsb := hdrAt_seq_valid hpar
  have tsf : totalStatus (fwHdr u sa) = .appWriteInProgress := by
    have : (sa != 0xFFFFFFFF) = true := by simpa [fwHdr] using hsa
    simp [totalStatus, fwHdr, this]
  have tsp : totalStatus (parHdr u sb) = .appWriteInProgress := by
    have : (sb != 0xFFFFFFFF) = true := by simpa [parHdr] using hsb
    simp [totalStatus, parHdr, this]
  have hnseg : NoPanic.nsegAt d.flash (u.fw.size * u.fw.idx + Consts.NSEG_OFFSET) = u.n := by
    rw [Nat.mul_comm]; exact NoPanic.hdrAt_nseg hfw
  have hrunD := loadStatusArray_marks g hG hdone hst { idx := u.fw.idx, size := u.fw.size } rfl rfl hnseg
  have hdn : ∀ i, u.n ≤ i → u.done.testBit i = false := by
    intro i hi
    cases hb : u.done.testBit i with
    | false => rfl
    | true => have := hdone i hb; omega
  have hcnt : popcount u.done MAX_SEGMENTS = pop u.done u.n := by
    rw [popcount_eq_pop]; exact pop_of_lt _ _ _ g.hn.2 hdn
  have hcntle := pop_le u.done u.n
  have hl' : ¬ ((if u.used ≠ 0 then u.n - popcount u.done MAX_SEGMENTS else 0) > u.maxL) := by
    by_cases hu : u.used = 0
    · simp [hu]
    · rw [if_pos hu, hcnt]
      have := hlb hu
      omega
  unfold tryRecoverInner
  rw [run_bind, loadHeaders_run nslots u.fw.size hG (by omega) hin]
  have hnew' : twoNewest (indexed (NoPanic.hdrs d.flash nslots u.fw.size)) =
      (some (u.par.idx, parHdr u sb), some (u.fw.idx, fwHdr u sa)) := hnew
  simp only [hnew', tsf, tsp, ne_eq, not_true_eq_false, ↓reduceIte]
  simp only [fwHdr, parHdr, not_true_eq_false, ↓reduceIte, show ¬ u.maxL > VBITS by show ¬ u.maxL > 2048; omega,
    reasonablySized_of_geo g, run_bind, remediate_silent _ _ _ d _ hoth, hrunD, hU, hl',
    show ¬ (¬ u.used = 0 ∧ u.n < popcount u.done MAX_SEGMENTS) by rw [hcnt]; omega]
  rfl

/-! ## headers do not move when only slot bodies change -/

/-- the header list is unchanged when all bytes that changed lie in the body of one slot `b` -/
theorem hdrs_frame_slot {f f' : Flash} (n S b : Nat)
    (h : ∀ x, ¬ (b * S + 28 ≤ x ∧ x < b * S + S) → f'.byte x = f.byte x) :
    NoPanic.hdrs f' n S = NoPanic.hdrs f n S := by
  unfold NoPanic.hdrs
  apply List.map_congr_left
  intro j _
  apply hdrAt_congr
  intro x hx1 hx2
  apply h
  rcases Nat.lt_trichotomy j b with hjb | hjb | hjb
  · have := Nat.mul_le_mul_right S (show j + 1 ≤ b from hjb)
    rw [Nat.succ_mul] at this
    omega
  · subst hjb; omega
  · have := Nat.mul_le_mul_right S (show b + 1 ≤ j from hjb)
    rw [Nat.succ_mul] at this
    omega

/-- **recovery after an interruption that only changed bytes of the firmware slot's data region.** `(u, d)` satisfies
the session invariant with headers and is incomplete; `e` is a device without injection, of the same size, that
agrees with `d` outside the firmware data region and satisfies the invariant with some set of segments required
erased. Then `try_recover_inner` on `e` only reads and rebuilds the updater from `done` and `used`; its empty cache
can be filled from the header. -/
theorem recover_run_fwdata (nslots : Nat) {u : Upd} {d e : Dev} {sa sb : Nat} (LH : LawfulH u d sa sb)
    (hinc : rcComplete u = false) {E' : Nat → Prop} (L' : Lawful' E' u e) (hsz : e.flash.size = d.flash.size)
    (hfr : ∀ x, ¬ (fwBase u + 17408 ≤ x ∧ x < fwBase u + u.fw.size) → e.flash.byte x = d.flash.byte x)
    (hin : nslots * u.fw.size ≤ d.flash.size) (hnew : C07b.NewestPair nslots u d sa sb)
    (hoth : C07b.OthersSettled nslots u d) :
    (tryRecoverInner nslots u.fw.size).run e = (.ok (some (recovered u u.fw.size u.done)), e) ∧
    CacheOK (recovered u u.fw.size u.done) e := by
  have L := LH.law
  have g := L.base.geo
  obtain ⟨h1, h2, h3, h4, h5, h6, h7⟩ := g.slots
  have hfb : fwBase u = u.fw.idx * u.fw.size := rfl
  have hpb : parBase u = u.par.idx * u.par.size := rfl
  have hfw' : NoPanic.hdrAt e.flash (u.fw.idx * u.fw.size) = some (fwHdr u sa) := by
    rw [← LH.hfw]
    apply hdrAt_congr
    intro x hx1 hx2
    exact hfr x (by omega)
  have hpar' : NoPanic.hdrAt e.flash (u.par.idx * u.par.size) = some (parHdr u sb) := by
    rw [← LH.hpar]
    apply hdrAt_congr
    intro x hx1 hx2
    exact hfr x (by omega)
  have hhd : NoPanic.hdrs e.flash nslots u.fw.size = NoPanic.hdrs d.flash nslots u.fw.size :=
    hdrs_frame_slot nslots u.fw.size u.fw.idx (fun x hx => hfr x (by omega))
  refine ⟨recover_run_core nslots L'.geo L'.good L'.hdone ?_ ?_ ?_ hfw' hpar' (by rw [hsz]; exact hin) ?_ ?_, ?_⟩
  · intro j hj
    obtain ⟨q1, q2, q3, q4⟩ := g.regions.1 j hj
    rw [hfr _ (by omega)]
    cases hd : u.done.testBit j with
    | true => simpa using L.base.hstat j hd
    | false => simpa using (L.base.herD j hj ⟨hinc, hd⟩).2
  · exact loadUsed_lawful L' { idx := u.par.idx, size := u.fw.size } (u.maxL * u.bs) rfl h2.symm g.hmo.symm
  · intro hu
    have hl0 : u.l ≠ 0 := by
      intro h0
      apply hu
      apply Nat.eq_of_testBit_eq
      intro p
      cases hb : u.used.testBit p with
      | false => simp
      | true => have := (L.base.hech p hb).1; omega
    have := L.base.hl2 hl0
    have := pop_add_unknowns u.done u.n
    have := L.base.hl
    omega
  · show twoNewest (indexed (NoPanic.hdrs e.flash nslots u.fw.size)) = _
    rw [hhd]; exact hnew
  · show ∀ p ∈ indexed (NoPanic.hdrs e.flash nslots u.fw.size), _
    rw [hhd]; exact hoth
  · refine Or.inr ⟨rfl, ?_⟩
    have := hdrAt_size hfw'
    show sizeAt e.flash (u.fw.size * u.fw.idx + Consts.SEGSIZE_OFFSET) = u.bs
    rw [Nat.mul_comm]
    exact this

/-! ## a stage-1 store interrupted by a power loss: recovery, then redelivery -/

/-- the session invariant on another device without injection and with the same flash -/
theorem Lawful'.sameFlash {E : Nat → Prop} {u : Upd} {d e : Dev} (L : Lawful' E u d) (hG : Good e)
    (hf : e.flash = d.flash) : Lawful' E u e :=
  { geo := by rw [hf]; exact L.geo, good := hG, wf := by rw [hf]; exact L.wf, hl := L.hl, hl2 := L.hl2,
    hdone := L.hdone, hstat := by rw [hf]; exact L.hstat, herD := by rw [hf]; exact L.herD,
    hech := by rw [hf]; exact L.hech, herP := by rw [hf]; exact L.herP }

/-- **recovery and redelivery after a stage-1 store was cut short.** `(u, d)` is the state before the interrupted
call (session invariant with headers, newest pair, others settled); `e` is the rebooted device: no injection, flash
of `d`, possibly with the data of segment `i` programmed and its mark not set. Then `try_recover_inner` on `e` only
reads and returns the rebuilt updater, and delivering the fragment again is answered as the uninterrupted delivery
on `(u, d)`, re-establishes the session invariant and ends with the same abstraction. -/
theorem stage1_recover_redeliver (ffr : Bool) (nslots : Nat) {u : Upd} {d : Dev} {sa sb : Nat} {i : Nat}
    {buf : List Nat} (LH : LawfulH u d sa sb) (S : Stage1Store u d i buf)
    (hrow : (updaterRow ffr u.n i).isSome = true) (hin : nslots * u.fw.size ≤ d.flash.size)
    (hnew : C07b.NewestPair nslots u d sa sb) (hoth : C07b.OthersSettled nslots u d) {e : Dev} (hG : Good e)
    (hf : e.flash = d.flash ∨ e.flash = d.flash.apply (.program (segAddr u i) buf)) :
    (tryRecoverInner nslots u.fw.size).run e = (.ok (some (recovered u u.fw.size u.done)), e) ∧
    ((handleSegment ffr (i + 1) buf).run (recovered u u.fw.size u.done, e)).1 =
      ((handleSegment ffr (i + 1) buf).run (u, d)).1 ∧
    Lawful ((handleSegment ffr (i + 1) buf).run (recovered u u.fw.size u.done, e)).2.1
      ((handleSegment ffr (i + 1) buf).run (recovered u u.fw.size u.done, e)).2.2 ∧
    Lawful ((handleSegment ffr (i + 1) buf).run (u, d)).2.1 ((handleSegment ffr (i + 1) buf).run (u, d)).2.2 ∧
    Fault.Eqv (abs ((handleSegment ffr (i + 1) buf).run (recovered u u.fw.size u.done, e)).2)
      (abs ((handleSegment ffr (i + 1) buf).run (u, d)).2) ∧
    ((handleSegment ffr (i + 1) buf).run (recovered u u.fw.size u.done, e)).2.1.maxL =
      ((handleSegment ffr (i + 1) buf).run (u, d)).2.1.maxL := by
  have L := LH.law
  have g := L.base.geo
  obtain ⟨r1, r2, r3, r4⟩ := g.regions.1 i S.hi
  have hrec : (tryRecoverInner nslots u.fw.size).run e = (.ok (some (recovered u u.fw.size u.done)), e) ∧
      CacheOK (recovered u u.fw.size u.done) e := by
    rcases hf with h | h
    · exact recover_run_fwdata nslots LH S.inc (L.base.sameFlash hG h) (by rw [h]) (fun x _ => by rw [h]) hin hnew hoth
    · obtain ⟨hfr, L', _⟩ := progSeg_frame L.base S.hi hG buf S.len h
      exact recover_run_fwdata nslots LH S.inc L' (by rw [h, size_apply_program]) (fun x hx => hfr x (by omega))
        hin hnew hoth
  have hused : u.used = 0 := by
    apply Nat.eq_of_testBit_eq
    intro p
    cases hb : u.used.testBit p with
    | false => simp
    | true => have := (L.base.hech p hb).1; have := S.l0; omega
  have hl : (recovered u u.fw.size u.done).l = u.l := by
    rw [recovered_l L, if_pos hused, S.l0]
  exact ⟨hrec.1, redeliver_stage1 ffr S hrow hG hf ⟨rfl, rfl, rfl, g.hsz.symm, rfl, rfl, rfl, g.hmo.symm⟩ hl rfl rfl
    hrec.2⟩

end Fuota.Updater
