import Fuota.Lemmas.PersistStage
import Fuota.Lemmas.PersistSpan
import Fuota.Props.C03
/-!
# A reboot in the corner `l ≠ 0 ∧ used = 0` does not change on which fragment the session completes

In the corner the rehydrated state is a stage-1 state. `stage1_done_iff` characterises `Done` for runs from *any*
stage-1 state by a condition on unprojected rows (`FullRank`), `span_project_iff` turns `C03.done_iff_span` into the
same condition, and the two meet in `corner_done_iff`.
-/
namespace Fuota.Fault
open Fuota.Recon Fuota.Gf2

/-- together with the unit rows of the blocks present, the rows of the fragments `js` span every unit vector below `n` -/
def FullRank (done n : Nat) (P : Nat → Nat) (js : List Nat) : Prop :=
  ∀ m, m < n → InSpan (knownUnits done n ++ js.map P) (2 ^ m)

theorem fullRank_nil (done n : Nat) (P : Nat → Nat) :
    FullRank done n P [] ↔ ∀ m, m < n → done.testBit m = true := by
  constructor
  · intro h m hm
    cases hd : done.testBit m with
    | true => rfl
    | false =>
      exfalso
      have := (h m hm).testBit_false (m := m) (fun r hr => by
        simp only [List.map_nil, List.append_nil] at hr
        obtain ⟨d, -, hdd, rfl⟩ := knownUnits_bit hr
        rw [Nat.testBit_two_pow]
        have : d ≠ m := by rintro rfl; rw [hd] at hdd; cases hdd
        simpa using this)
      simp at this
  · intro h m hm
    exact InSpan.mem (List.mem_append_left _ (mem_knownUnits done n m hm (h m hm)))

theorem fullRank_cons_known (done n : Nat) (P : Nat → Nat) (j : Nat) (js : List Nat) (hj : j < n)
    (hd : done.testBit j = true) (hP : P j = 2 ^ j) : FullRank done n P (j :: js) ↔ FullRank done n P js := by
  unfold FullRank
  have : ∀ r, r ∈ knownUnits done n ++ (j :: js).map P ↔ r ∈ knownUnits done n ++ js.map P := by
    intro r
    simp only [List.map_cons, List.mem_append, List.mem_cons, hP]
    constructor
    · rintro (h | h | h)
      · exact Or.inl h
      · exact Or.inl (h ▸ mem_knownUnits done n j hj hd)
      · exact Or.inr h
    · rintro (h | h)
      · exact Or.inl h
      · exact Or.inr (Or.inr h)
  constructor
  · intro h m hm; exact (inSpan_congr_set this _).1 (h m hm)
  · intro h m hm; exact (inSpan_congr_set this _).2 (h m hm)

theorem mem_knownUnits_or (done n j : Nat) (hj : j < n) (r : Nat) :
    r ∈ knownUnits (done ||| 2 ^ j) n ↔ r ∈ knownUnits done n ∨ r = 2 ^ j := by
  simp only [knownUnits, List.mem_map, List.mem_filter, List.mem_range, testBit_or_two_pow, Bool.or_eq_true,
    decide_eq_true_eq]
  constructor
  · rintro ⟨d, ⟨h1, h2 | h2⟩, rfl⟩
    · exact Or.inl ⟨d, ⟨h1, h2⟩, rfl⟩
    · exact Or.inr (by rw [h2])
  · rintro (⟨d, ⟨h1, h2⟩, rfl⟩ | rfl)
    · exact ⟨d, ⟨h1, Or.inl h2⟩, rfl⟩
    · exact ⟨j, ⟨hj, Or.inr rfl⟩, rfl⟩

theorem fullRank_cons_new (done n : Nat) (P : Nat → Nat) (j : Nat) (js : List Nat) (hj : j < n)
    (hP : P j = 2 ^ j) : FullRank done n P (j :: js) ↔ FullRank (done ||| 2 ^ j) n P js := by
  unfold FullRank
  have : ∀ r, r ∈ knownUnits done n ++ (j :: js).map P ↔ r ∈ knownUnits (done ||| 2 ^ j) n ++ js.map P := by
    intro r
    simp only [List.map_cons, List.mem_append, List.mem_cons, hP, mem_knownUnits_or done n j hj]
    constructor
    · rintro (h | h | h)
      · exact Or.inl (Or.inl h)
      · exact Or.inl (Or.inr h)
      · exact Or.inr h
    · rintro ((h | h) | h)
      · exact Or.inl h
      · exact Or.inr (Or.inl h)
      · exact Or.inr (Or.inr h)
  constructor
  · intro h m hm; exact (inSpan_congr_set this _).1 (h m hm)
  · intro h m hm; exact (inSpan_congr_set this _).2 (h m hm)

theorem length_filter_mono {α : Type} (p q : α → Bool) (h : ∀ x, p x = true → q x = true) (l : List α) :
    (l.filter p).length ≤ (l.filter q).length := by
  induction l with
  | nil => simp
  | cons a l ih =>
    simp only [List.filter_cons]
    cases hp : p a with
    | true => simp [h a hp, ih]
    | false =>
      cases hq : q a <;> simp <;> omega

theorem unknowns_or_le (done n j : Nat) : (unknowns (done ||| 2 ^ j) n).length ≤ (unknowns done n).length := by
  unfold unknowns
  apply length_filter_mono
  intro x hx
  simp only [testBit_or_two_pow, Bool.not_eq_true', Bool.or_eq_false_iff] at hx ⊢
  simp [hx.1]

/-! ## single steps from a stage-1 state -/

theorem hb_stage1_dup (V : Variant) (P : Nat → Nat) (vb nr : Nat) (r : St) (j d : Nat) (hl : r.l = 0)
    (hc : isComplete r = false) (hj : j < r.n) (hd : r.done.testBit j = true) :
    handleBlock V noFault P vb nr r j d r.bs = (r, .needMore) := by
  have hadj : adj r j = r := by unfold adj; rw [if_neg (by omega)]
  rw [handleBlock_run V noFault P vb nr r j d r.bs rfl hc (by omega), hadj, if_pos hl]
  simp [Fault.stage1, hd, hc]

theorem hb_stage1_new (V : Variant) (P : Nat → Nat) (vb nr : Nat) (r : St) (j d : Nat) (hl : r.l = 0)
    (hc : isComplete r = false) (hj : j < r.n) (hd : r.done.testBit j = false) :
    ∃ r', handleBlock V noFault P vb nr r j d r.bs =
        (r', if isComplete r' then .done (r.n * r.bs) else .needMore) ∧
      r'.n = r.n ∧ r'.bs = r.bs ∧ r'.l = 0 ∧ r'.used = r.used ∧ r'.done = r.done ||| 2 ^ j := by
  have hadj : adj r j = r := by unfold adj; rw [if_neg (by omega)]
  rw [handleBlock_run V noFault P vb nr r j d r.bs rfl hc (by omega), hadj, if_pos hl]
  refine ⟨{ r with done := r.done ||| 2 ^ j, ds := (j, d) :: r.ds, log := Call.dStore j d :: r.log,
                   calls := r.calls + 1 }, ?_, rfl, rfl, hl, rfl, rfl⟩
  obtain ⟨b⟩ := V
  cases b <;> simp [Fault.stage1, hd, Fault.call_noFault] <;> rfl

theorem runBlocks_complete (V : Variant) (P : Nat → Nat) (vb nr : Nat) (blk : Nat → Nat) (s : St)
    (hc : isComplete s = true) :
    ∀ js : List Nat, runBlocks V noFault P vb nr blk s js = (s, js.map (fun _ => Res.done (s.n * s.bs))) := by
  intro js
  induction js with
  | nil => rfl
  | cons j js ih =>
    have : handleBlock V noFault P vb nr s j (blk j) s.bs = (s, .done (s.n * s.bs)) := by
      rw [Fault.handleBlock_eq]; simp [hc]
    simp only [runBlocks, this, ih, List.map_cons]

/-! ## `Done` from a stage-1 state -/

theorem runBlocks_snd_cons (V : Variant) (P : Nat → Nat) (vb nr : Nat) (blk : Nat → Nat) (s : St) (j : Nat)
    (js : List Nat) :
    (runBlocks V noFault P vb nr blk s (j :: js)).2 =
      (handleBlock V noFault P vb nr s j (blk j) s.bs).2 ::
        (runBlocks V noFault P vb nr blk (handleBlock V noFault P vb nr s j (blk j) s.bs).1 js).2 := rfl

/-- **`Done` from any stage-1 state**: the last answer of a fault-free run is `Done` iff the run is not empty and the
    rows of its fragments, together with the unit rows of the blocks already present, have full rank. (Identity rows
    for data fragments and no row bits at or above `n`: the `ParityMatrix` contract. Capacity: the refusal test
    passes.) -/
theorem stage1_done_iff (V : Variant) (P : Nat → Nat) (vb nr : Nat) (blk : Nat → Nat) (n : Nat)
    (hP1 : ∀ m, m < n → P m = 2 ^ m) (hP2 : ∀ m, P m < 2 ^ n) :
    ∀ (js : List Nat) (r : St), r.n = n → r.l = 0 → r.used = 0 →
      (unknowns r.done r.n).length ≤ vb → (unknowns r.done r.n).length ≤ nr →
      ((∃ b, (runBlocks V noFault P vb nr blk r js).2.getLast? = some (Res.done b)) ↔
        (js ≠ [] ∧ FullRank r.done n P js)) := by
  intro js
  induction js with
  | nil => intro r _ _ _ _ _; simp [runBlocks]
  | cons j js ih =>
    intro r hn hl hu hvb hnr
    subst hn
    by_cases hc : isComplete r = true
    · rw [runBlocks_complete V P vb nr blk r hc]
      constructor
      · intro _
        refine ⟨by simp, fun m hm => ?_⟩
        exact InSpan.mem (List.mem_append_left _
          (mem_knownUnits r.done r.n m hm ((isComplete_stage1 r hl).1 hc m (by omega))))
      · intro _
        refine ⟨r.n * r.bs, ?_⟩
        simp only [List.map_cons, List.getLast?_cons, List.getLast?_map]
        cases js.getLast? <;> rfl
    · have hc' : isComplete r = false := by simpa using hc
      have hU := Recon.unknowns_length_ne_zero r hl hc'
      by_cases hj : r.n ≤ j
      · -- a parity-range fragment: stage 2 begins, `C03.done_iff_span` applies to the whole rest
        have hadj : adj r j = { r with l := (unknowns r.done r.n).length } := by
          unfold adj; rw [if_pos ⟨by omega, hl⟩]
        have hstep : handleBlock V noFault P vb nr r j (blk j) r.bs
            = handleBlock V noFault P vb nr { r with l := (unknowns r.done r.n).length } j (blk j) r.bs := by
          rw [← hadj]
          exact (handleBlock_adj V noFault P vb nr r j (blk j) r.bs rfl hc' (by omega)
            (by rw [hadj]; exact incomplete_of_corner hU hu)).symm
        have hrun : (runBlocks V noFault P vb nr blk r (j :: js)).2
            = (runBlocks V noFault P vb nr blk { r with l := (unknowns r.done r.n).length } (j :: js)).2 := by
          rw [runBlocks_snd_cons, runBlocks_snd_cons, hstep]
        rw [hrun, C03.done_iff_span V P vb nr blk { r with l := (unknowns r.done r.n).length } rfl hU hu (j :: js)]
        have hsp := span_project_iff r.done r.n ((j :: js).map P)
          (fun x hx => by obtain ⟨i, -, rfl⟩ := List.mem_map.1 hx; exact hP2 i)
        rw [List.map_map] at hsp
        constructor
        · intro h
          refine ⟨by simp, ?_⟩
          intro m hm
          exact hsp.1 h m (by omega)
        · intro h
          exact hsp.2 (fun m hm => h.2 m (by omega))
      · -- a data-range fragment: stage 1 goes on
        have hjn : j < r.n := by omega
        have hPj := hP1 j (by omega)
        cases hd : r.done.testBit j with
        | true =>
          have hstep := hb_stage1_dup V P vb nr r j (blk j) hl hc' hjn hd
          rw [runBlocks_snd_cons, hstep, fullRank_cons_known r.done r.n P j js (by omega) hd hPj]
          cases js with
          | nil =>
            simp only [runBlocks, List.getLast?_singleton]
            constructor
            · rintro ⟨b, hb⟩; cases hb
            · rintro ⟨-, h⟩
              exfalso
              have : isComplete r = true :=
                (isComplete_stage1 r hl).2 (fun m hm => (fullRank_nil r.done r.n P).1 h m (by omega))
              rw [this] at hc'; cases hc'
          | cons j' js' =>
            rw [runBlocks_snd_cons, List.getLast?_cons_cons, ← runBlocks_snd_cons,
              ih r rfl hl hu hvb hnr]
            simp
        | false =>
          obtain ⟨r', hstep, e1, e2, e3, e4, e5⟩ := hb_stage1_new V P vb nr r j (blk j) hl hc' hjn hd
          have hle : (unknowns r'.done r'.n).length ≤ (unknowns r.done r.n).length := by
            rw [e1, e5]; exact unknowns_or_le _ _ _
          have ih' := ih r' e1 e3 (e4.trans hu) (by omega) (by omega)
          rw [runBlocks_snd_cons, hstep, fullRank_cons_new r.done r.n P j js (by omega) hPj, ← e5]
          cases js with
          | nil =>
            simp only [runBlocks, List.getLast?_singleton, fullRank_nil]
            rw [show (∀ m, m < r.n → r'.done.testBit m = true) ↔ isComplete r' = true from by
              rw [isComplete_stage1 r' e3, e1]]
            by_cases hc2 : isComplete r' = true
            · simp [hc2]
            · simp [hc2]
          | cons j' js' =>
            rw [runBlocks_snd_cons, List.getLast?_cons_cons, ← runBlocks_snd_cons, ih']
            simp

/-- **in the corner, a reboot does not change on which fragment the session completes**: for every continuation the
    last answer is `Done` from the rehydrated state iff it is from the state before the reboot -/
theorem corner_done_iff (V : Variant) (P : Nat → Nat) (vb nr : Nat) (blk : Nat → Nat) (s : St)
    (hP1 : ∀ m, m < s.n → P m = 2 ^ m) (hP2 : ∀ m, P m < 2 ^ s.n)
    (hs : SInv s) (hl : s.l ≠ 0) (hu : s.used = 0) (hcap : s.l ≤ vb ∧ s.l ≤ nr) (js : List Nat) :
    (∃ b, (runBlocks V noFault P vb nr blk (reh s) js).2.getLast? = some (Res.done b)) ↔
    (∃ b, (runBlocks V noFault P vb nr blk s js).2.getLast? = some (Res.done b)) := by
  have hlU := hs.2 hl
  have hr1 : (reh s).l = 0 := by simp [reh, hu]
  rw [stage1_done_iff V P vb nr blk s.n hP1 hP2 js (reh s) rfl hr1 hu
      (by show (unknowns s.done s.n).length ≤ vb; omega) (by show (unknowns s.done s.n).length ≤ nr; omega),
    C03.done_iff_span V P vb nr blk s hlU hl hu js]
  have hsp := span_project_iff s.done s.n (js.map P)
    (fun x hx => by obtain ⟨i, -, rfl⟩ := List.mem_map.1 hx; exact hP2 i)
  rw [List.map_map] at hsp
  show (js ≠ [] ∧ FullRank s.done s.n P js) ↔ _
  constructor
  · intro h u hu'
    exact hsp.2 h.2 u (by omega)
  · intro h
    have hfr : FullRank s.done s.n P js := hsp.1 (fun u hu' => h u (by omega))
    refine ⟨?_, hfr⟩
    rintro rfl
    have hall := (fullRank_nil s.done s.n P).1 hfr
    have : isComplete (reh s) = true := (isComplete_stage1 (reh s) hr1).2 hall
    have hinc : isComplete (reh s) = false :=
      incomplete_of_unknowns hr1 (by show (unknowns s.done s.n).length ≠ 0; omega)
    rw [this] at hinc; cases hinc

end Fuota.Fault
