import Fuota.Lemmas.RingScan
/-!
# Ring lemmas, part 3: `choosePair` (`alloc_slotpair`) under the arc invariant
-/
namespace Fuota.Ring
open Fuota.Layout Fuota.Fs Fuota.Updater Fuota.Slots

/-- `x % n` for `x < 2n`, in a form `omega` can use -/
theorem mod_cases (x n : Nat) (h : x < 2 * n) : (x % n = x ∧ x < n) ∨ (x % n = x - n ∧ n ≤ x) := by
  by_cases hx : x < n
  · exact Or.inl ⟨Nat.mod_eq_of_lt hx, hx⟩
  · right
    refine ⟨?_, by omega⟩
    rw [Nat.mod_eq_sub_mod (by omega)]
    exact Nat.mod_eq_of_lt (by omega)

/-- ring offset, without subtraction or `%` -/
theorem off_cases (n low i : Nat) (hi : i < n) (hl : low < n) :
    (low ≤ i ∧ (i + n - low) % n + low = i) ∨ (i < low ∧ (i + n - low) % n + low = i + n) := by
  rcases mod_cases (i + n - low) n (by omega) with ⟨h, _⟩ | ⟨h, _⟩ <;> omega

theorem succ_cases (n i : Nat) (hi : i < n) :
    (i + 1 < n ∧ (i + 1) % n = i + 1) ∨ (i + 1 = n ∧ (i + 1) % n = 0) := by
  rcases mod_cases (i + 1) n (by omega) with ⟨h, _⟩ | ⟨h, _⟩ <;> omega

theorem succ2_cases (n i : Nat) (hi : i < n) (hn : 2 ≤ n) :
    (i + 2 < n ∧ (i + 2) % n = i + 2) ∨ (n ≤ i + 2 ∧ (i + 2) % n + n = i + 2) := by
  rcases mod_cases (i + 2) n (by omega) with ⟨h, _⟩ | ⟨h, _⟩ <;> omega

theorem pred_cases (n i : Nat) (hi : i < n) :
    (1 ≤ i ∧ (i + n - 1) % n + 1 = i) ∨ (i = 0 ∧ (i + n - 1) % n + 1 = n) := by
  rcases mod_cases (i + n - 1) n (by omega) with ⟨h, _⟩ | ⟨h, _⟩ <;> omega

/-- `choosePair` in terms of the two scans `lowOf`, `highOf` (definitional) -/
theorem choosePair_unfold (n : Nat) (hs : Hdrs) : choosePair n hs =
  match lowOf hs, highOf hs with
  | some (low, _), some (high, highSeq) =>
    if (high + n - low) % n + 3 ≤ n then
      .ok ((high + 1) % n, (high + 2) % n, seqNext highSeq, seqNext (seqNext highSeq))
    else if (high + n - low) % n + 2 = n then
      let fw := (fallbackSlot hs).getD low
      if fw = low then .ok (high, (high + 1) % n, highSeq, seqNext highSeq)
      else .ok ((high + 1) % n, (high + 2) % n, seqNext highSeq, seqNext (seqNext highSeq))
    else
      let fw := (fallbackSlot hs).getD low
      if (high + 1) % n = fw ∨ (high + 2) % n = fw then
        let first := (high + n - 1) % n
        match hs.getD first none with
        | none => .ok (first, high, highSeq - 1, highSeq)
        | some h => .ok (first, high, h.seq, highSeq)
      else .ok ((high + 1) % n, (high + 2) % n, seqNext highSeq, seqNext (seqNext highSeq))
  | _, _ => .ok (0, 1, 0, 1) := rfl

/-- the repaired `alloc_slotpair` has no failing path left (the third branch no longer unwraps) -/
theorem choosePair_ok (n : Nat) (hs : Hdrs) : ∃ r, choosePair n hs = .ok r := by
  rw [choosePair_unfold]
  split
  · split
    · exact ⟨_, rfl⟩
    · split
      · dsimp only
        split <;> exact ⟨_, rfl⟩
      · dsimp only
        split
        · split <;> exact ⟨_, rfl⟩
        · exact ⟨_, rfl⟩
  · exact ⟨_, rfl⟩

/-- the arc invariant, pointwise -/
theorem arcInv_iff {n : Nat} {hs : Hdrs} {low ls high hsq : Nat}
    (hl : lowOf hs = some (low, ls)) (hh : highOf hs = some (high, hsq)) :
    ArcInv n hs ↔ ∀ i h, Used hs i h → off n low i ≤ off n low high := by
  unfold ArcInv
  rw [hl, hh]
  constructor
  · intro h i hd hu
    exact h (i, hd) (mem_indexed.mpr hu)
  · intro h p hp
    exact h p.1 p.2 (mem_indexed.mp hp)

/-- a used slot makes both scans answer -/
theorem scans_of_used {hs : Hdrs} {i : Nat} {h : Header} (hu : Used hs i h) :
    (∃ low ls, lowOf hs = some (low, ls)) ∧ ∃ high hsq, highOf hs = some (high, hsq) := by
  constructor
  · cases hl : lowOf hs with
    | none => exact absurd hu (lowOf_eq_none.mp hl i h)
    | some p => exact ⟨p.1, p.2, rfl⟩
  · cases hh : highOf hs with
    | none => exact absurd hu (highOf_eq_none.mp hh i h)
    | some p => exact ⟨p.1, p.2, rfl⟩

end Fuota.Ring
