import Fuota.Lemmas.RefineEffects
/-!
# The loops of the flash-backed reconstructor simulate the loops of the model
-/
namespace Fuota.Updater
open Fuota.Nor Fuota.Fs Fuota.FlashAdapters Fuota.Recon Fuota.Gf2

/-! ## strip -/

/-- `strip` on the flash reads the present blocks selected by the row and XORs them into the buffer; the device is
    unchanged and the result, as a number, is what the model computes -/
theorem strip_run {E : Nat → Prop} {u : Upd} {d : Dev} (L : Lawful' E u d) (row : Nat) (is : List Nat) :
    ∀ (data : List Nat), IsBytes data → data.length = u.bs →
    ∃ out, (strip u row is data).run d = (.ok out, d) ∧ IsBytes out ∧ out.length = u.bs ∧
      bytesToNat out = bytesToNat data ^^^
        comboL (dsVal u d.flash) (fun i => row.testBit i && u.done.testBit i) is := by
  induction is with
  | nil => intro data hb hlen; exact ⟨data, rfl, hb, hlen, by simp [comboL]⟩
  | cons i is ih =>
    intro data hb hlen
    unfold strip
    by_cases h : (row.testBit i && u.done.testBit i) = true
    · have hd : u.done.testBit i = true := by simp at h; exact h.2
      have hin := L.hdone i hd
      simp only [h, ↓reduceIte, run_bind, readSegment_run L.geo L.good hin]
      have htb : IsBytes (d.flash.read (segAddr u i) u.bs) := isBytes_read L.wf _ _
      have htl : (d.flash.read (segAddr u i) u.bs).length = u.bs := length_read _ _ _
      obtain ⟨out, hrun, hob, hol, hov⟩ := ih (xorBytes data (d.flash.read (segAddr u i) u.bs))
        (hb.xorBytes htb) (by rw [length_xorBytes]; exact hlen)
      refine ⟨out, hrun, hob, hol, ?_⟩
      rw [hov, bytesToNat_xorBytes (by rw [hlen, htl]) hb htb]
      have hv : dsVal u d.flash i = bytesToNat (d.flash.read (segAddr u i) u.bs) := by
        simp [dsVal, hin, L.hstat i hd]
      simp only [comboL, h, ↓reduceIte, hv, Nat.xor_assoc]
    · have h' : (row.testBit i && u.done.testBit i) = false := by simpa using h
      simp only [h', Bool.false_eq_true, ↓reduceIte]
      obtain ⟨out, hrun, hob, hol, hov⟩ := ih data hb hlen
      exact ⟨out, hrun, hob, hol, by simp [comboL, h', hov]⟩

/-! ## elim -/

/-- `Sim` does not look at the call log -/
theorem Sim.pushLog {s : St} {u : Upd} {f : Flash} (h : Sim s u f) (Lg : List Call) : Sim (pushLog s Lg) u f := h

/-- the elimination loop on the flash simulates the model's: same pivot decision, same reads, and when a pivot is
    stored the new device again satisfies the invariant and holds the model's new contents -/
theorem elim_sim {E : Nat → Prop} {u : Upd} {d : Dev} (L : Lawful' E u d) (wh : Nat) :
    ∀ (s : St) (row : Nat) (data : List Nat), Sim s u d.flash → wh ≤ u.l →
    (∀ j, wh ≤ j → row.testBit j = false) → IsBytes data → data.length = u.bs →
    ∃ used' d' s', (Updater.elim u wh row data).run d = (.ok used', d') ∧
      Recon.elim noFault wh s row (bytesToNat data) = (s', .ok) ∧
      Sim s' { u with used := used' } d'.flash ∧ Lawful' E { u with used := used' } d' := by
  induction wh with
  | zero =>
    intro s row data hS _ _ _ _
    exact ⟨u.used, d, s, rfl, rfl, hS, L⟩
  | succ wh ih =>
    intro s row data hS hwh hrow hb hlen
    obtain ⟨s1, s2, s3, s4, s5, s6, s7, s8⟩ := hS
    have hwm : wh < u.maxL := by have := L.hl; omega
    unfold Updater.elim Recon.elim
    by_cases h1 : row.testBit wh = true ∧ u.used.testBit wh = true
    · obtain ⟨hr, hu⟩ := h1
      obtain ⟨_, hpiv, habove⟩ := L.hech wh hu
      have hps : Recon.get s.ps wh = bytesToNat (d.flash.read (pAddr u wh) u.bs) := by
        rw [s7]; simp [psVal, hwm, hu]
      have hms : Recon.get s.ms wh = bytesToNat (flipBit (d.flash.read (rAddr u wh) (wh / 8 + 1)) wh) := by
        rw [s8]; simp [msVal, hwm, hu]
      have hmv : msVal u d.flash wh = bytesToNat (flipBit (d.flash.read (rAddr u wh) (wh / 8 + 1)) wh) := by
        simp [msVal, hwm, hu]
      have htb : IsBytes (d.flash.read (pAddr u wh) u.bs) := isBytes_read L.wf _ _
      have htl : (d.flash.read (pAddr u wh) u.bs).length = u.bs := length_read _ _ _
      simp only [hr, hu, s5, Bool.and_self, ↓reduceIte, run_bind, hlen, pGet_run L.geo L.good hwm,
        mRow_run L.geo L.good hwm, Recon.call_noFault, Bool.not_true, Bool.false_eq_true, pushLog_ms, pushLog_ps,
        pushLog_pushLog]
      obtain ⟨used', d', s', hrun, hrun0, hS', hL'⟩ := ih (Recon.pushLog s ([.mRow wh] ++ [.pGet wh]))
        (row ^^^ bytesToNat (flipBit (d.flash.read (rAddr u wh) (wh / 8 + 1)) wh))
        (xorBytes data (d.flash.read (pAddr u wh) u.bs))
        ⟨s1, s2, s3, s4, s5, s6, s7, s8⟩ (by omega)
        (by
          intro j hj
          rw [Nat.testBit_xor, ← hmv]
          by_cases hjw : j = wh
          · subst hjw; simp [hr, hpiv]
          · rw [hrow j (by omega), habove j (by omega)]; rfl)
        (hb.xorBytes htb) (by rw [length_xorBytes]; exact hlen)
      refine ⟨used', d', s', hrun, ?_, hS', hL'⟩
      rw [bytesToNat_xorBytes (by rw [hlen, htl]) hb htb] at hrun0
      rw [hms, hps]
      exact hrun0
    · by_cases hr : row.testBit wh = true
      · have hu : u.used.testBit wh = false := by
          cases hh : u.used.testBit wh <;> simp_all
        have hra : ∀ j, wh < j → row.testBit j = false := fun j hj => hrow j (by omega)
        have g1 : Geo u (d.prog (pAddr u wh) data).flash.size := by rw [Dev.prog_size]; exact L.geo
        simp only [hr, hu, s5, Bool.and_false, Bool.false_eq_true, ↓reduceIte, run_bind,
          pStore_run L.geo L.good hwm data hlen, mSetRow_run g1 (L.good.prog _ _) hwm, run_pure,
          Recon.call_noFault, Bool.not_true]
        have hL' := L.storePivot (q := wh) (by omega) hu row hr hra data hb hlen
        obtain ⟨hds, hps, hms⟩ := pivot_write_vals L.geo L.wf hwm hu (L.herP wh hwm hu) data (rowBytes wh row)
          hb hlen (rowBytes_spec wh row).1 (rowBytes_spec wh row).2
        refine ⟨_, _, _, rfl, rfl, ?_, hL'⟩
        refine ⟨s1, s2, s3, s4, by simp [s5], fun k => ?_, fun k => ?_, fun k => ?_⟩
        · show Recon.get s.ds k = _
          rw [s6]; exact (hds k).symm
        · show Recon.get ((wh, bytesToNat data) :: s.ps) k = _
          rw [Recon.get_cons, s7]; exact (hps k).symm
        · show Recon.get ((wh, row) :: s.ms) k = _
          have hk := hms k
          rw [bytesToNat_rowBytes wh row hra] at hk
          rw [Recon.get_cons, s8]; exact hk.symm
      · have hr' : row.testBit wh = false := by simpa using hr
        simp only [hr', Bool.false_and, Bool.false_eq_true, ↓reduceIte]
        exact ih s row data ⟨s1, s2, s3, s4, s5, s6, s7, s8⟩ (by omega)
          (fun j hj => by
            by_cases hjw : j = wh
            · subst hjw; exact hr'
            · exact hrow j (by omega)) hb hlen

/-! ## finish -/

/-- the inner loop of `finish` on the flash reads the selected rebuilt blocks and XORs them into the buffer -/
theorem finishInner_run {E : Nat → Prop} {u : Upd} {d : Dev} (L : Lawful' E u d) (U : List Nat) (r : Nat)
    (js : List Nat) :
    (∀ j ∈ js, j < U.length ∧ nth U j < u.n ∧ d.flash.byte (statAddr u (nth U j)) = 0x33) →
    ∀ (out : List Nat), IsBytes out → out.length = u.bs →
    ∃ out', (finishInner u U r js out).run d = (.ok out', d) ∧ IsBytes out' ∧ out'.length = u.bs ∧
      bytesToNat out' = bytesToNat out ^^^ comboL (fun j => dsVal u d.flash (nth U j)) r.testBit js := by
  induction js with
  | nil => intro _ out hb hlen; exact ⟨out, rfl, hb, hlen, by simp [comboL]⟩
  | cons j js ih =>
    intro hjs out hb hlen
    obtain ⟨hj1, hj2, hj3⟩ := hjs j List.mem_cons_self
    have hjs' := fun k hk => hjs k (List.mem_cons_of_mem _ hk)
    unfold finishInner
    by_cases h : r.testBit j = true
    · have hU : U[j]? = some (nth U j) := getElem?_eq_some_nth U j hj1
      simp only [h, ↓reduceIte, hU, run_bind, readSegment_run L.geo L.good hj2]
      have htb : IsBytes (d.flash.read (segAddr u (nth U j)) u.bs) := isBytes_read L.wf _ _
      have htl : (d.flash.read (segAddr u (nth U j)) u.bs).length = u.bs := length_read _ _ _
      obtain ⟨out', hrun, hob, hol, hov⟩ := ih hjs' (xorBytes out (d.flash.read (segAddr u (nth U j)) u.bs))
        (hb.xorBytes htb) (by rw [length_xorBytes]; exact hlen)
      refine ⟨out', hrun, hob, hol, ?_⟩
      rw [hov, bytesToNat_xorBytes (by rw [hlen, htl]) hb htb]
      have hv : dsVal u d.flash (nth U j) = bytesToNat (d.flash.read (segAddr u (nth U j)) u.bs) := by
        simp [dsVal, hj2, hj3]
      simp only [comboL, h, ↓reduceIte, hv, Nat.xor_assoc]
    · have h' : r.testBit j = false := by simpa using h
      simp only [h', Bool.false_eq_true, ↓reduceIte]
      obtain ⟨out', hrun, hob, hol, hov⟩ := ih hjs' out hb hlen
      exact ⟨out', hrun, hob, hol, by simp [comboL, h', hov]⟩

/-- loop invariant of `finish` on the flash: the invariant with the unknown blocks `U[0..i)` rebuilt and marked -/
structure FinL (u : Upd) (d : Dev) (U : List Nat) (i : Nat) : Prop where
  law : Lawful' (fun k => u.done.testBit k = false ∧ k ∉ U.take i) u d
  marked : ∀ j, j < i → d.flash.byte (statAddr u (nth U j)) = 0x33

/-- `finish` on the flash simulates the model's `finish`: it cannot fail, returns the updater unchanged, and every
    iteration stores the block the model stores -/
theorem finishOuter_sim {u : Upd} (hlen : u.l = (unknowns u.done u.n).length)
    (hall : ∀ p, p < u.l → u.used.testBit p = true) :
    ∀ (k i : Nat) (s : St) (d : Dev), FinL u d (unknowns u.done u.n) i → Sim s u d.flash → i + k ≤ u.l →
    ∃ d', (finishOuter (unknowns u.done u.n) (List.range' i k) u).run d = (.ok u, d') ∧
      Sim ((List.range' i k).foldl (finStep (unknowns u.done u.n)) s) u d'.flash ∧
      FinL u d' (unknowns u.done u.n) (i + k) := by
  intro k
  induction k with
  | zero => intro i s d hF hS _; exact ⟨d, rfl, hS, hF⟩
  | succ k ih =>
    intro i s d hF hS hik
    have L := hF.law
    obtain ⟨s1, s2, s3, s4, s5, s6, s7, s8⟩ := hS
    have hil : i < u.l := by omega
    have him : i < u.maxL := Nat.lt_of_lt_of_le hil L.hl
    have hiU : i < (unknowns u.done u.n).length := by rw [← hlen]; exact hil
    have hu := hall i hil
    have hfmem := nth_mem _ i hiU
    rw [mem_unknowns] at hfmem
    obtain ⟨hfn, hfd⟩ := hfmem
    have hnd := nodup_unknowns u.done u.n
    have hfnot : nth (unknowns u.done u.n) i ∉ (unknowns u.done u.n).take i := nth_not_mem_take _ hnd i hiU
    -- the reads
    have htb : IsBytes (d.flash.read (pAddr u i) u.bs) := isBytes_read L.wf _ _
    have htl : (d.flash.read (pAddr u i) u.bs).length = u.bs := length_read _ _ _
    have hjs : ∀ j ∈ List.range i, j < (unknowns u.done u.n).length ∧ nth (unknowns u.done u.n) j < u.n ∧
        d.flash.byte (statAddr u (nth (unknowns u.done u.n) j)) = 0x33 := by
      intro j hj
      have hji := List.mem_range.1 hj
      have hjU : j < (unknowns u.done u.n).length := by omega
      have := nth_mem _ j hjU
      rw [mem_unknowns] at this
      exact ⟨hjU, this.1, hF.marked j hji⟩
    obtain ⟨out, hrun, hob, hol, hov⟩ := finishInner_run L (unknowns u.done u.n)
      (bytesToNat (flipBit (d.flash.read (rAddr u i) (i / 8 + 1)) i)) (List.range i) hjs _ htb htl
    have hUi : (unknowns u.done u.n)[i]? = some (nth (unknowns u.done u.n) i) := getElem?_eq_some_nth _ i hiU
    rw [List.range'_succ, List.foldl_cons]
    unfold finishOuter
    simp only [run_bind, pGet_run L.geo L.good him, mRow_run L.geo L.good him, hrun, hUi,
      writeSegment_run L.geo L.good hfn out hol]
    -- the value stored is the model's
    have hval : bytesToNat out = finOut (unknowns u.done u.n) s i := by
      rw [hov]
      unfold finOut
      have e1 : Recon.get s.ps i = bytesToNat (d.flash.read (pAddr u i) u.bs) := by
        rw [s7]; simp [psVal, him, hu]
      have e2 : Recon.get s.ms i = bytesToNat (flipBit (d.flash.read (rAddr u i) (i / 8 + 1)) i) := by
        rw [s8]; simp [msVal, him, hu]
      rw [e1, e2]
      congr 1
      exact comboL_congr _ _ _ _ _ (fun _ _ => rfl) (fun j _ _ => (s6 _).symm)
    have hL' : Lawful' (fun k => u.done.testBit k = false ∧ k ∉ (unknowns u.done u.n).take (i + 1)) u
        (afterWriteSegment u d (nth (unknowns u.done u.n) i) out) :=
      L.writeSegment hfn ⟨hfd, hfnot⟩ out hob hol u.done
        (fun k hk => ⟨⟨hk.1, fun hm => hk.2 ((mem_take_succ _ i k hiU).2 (Or.inl hm))⟩,
          fun e => hk.2 ((mem_take_succ _ i k hiU).2 (Or.inr e))⟩)
        (fun k hk => Or.inl hk) L.hl2
    obtain ⟨_, _, hst, _, hfr⟩ := seg_write_effect L.geo L.wf hfn (L.herD _ hfn ⟨hfd, hfnot⟩) out hob hol
    obtain ⟨hds, hps, hms⟩ := seg_write_vals L.geo L.wf hfn (L.herD _ hfn ⟨hfd, hfnot⟩) out hob hol
    have hF' : FinL u (afterWriteSegment u d (nth (unknowns u.done u.n) i) out) (unknowns u.done u.n) (i + 1) := by
      refine ⟨hL', fun j hj => ?_⟩
      by_cases hji : j = i
      · subst hji; exact hst
      · have hjU : j < (unknowns u.done u.n).length := by omega
        have hne : nth (unknowns u.done u.n) j ≠ nth (unknowns u.done u.n) i :=
          fun e => hji (nth_inj _ hnd j i hjU hiU e)
        have hjm := nth_mem _ j hjU
        rw [mem_unknowns] at hjm
        obtain ⟨q1, q2, q3, q4⟩ := L.geo.regions.1 _ hjm.1
        obtain ⟨r1, r2, r3, r4⟩ := L.geo.regions.1 _ hfn
        have hfl : (afterWriteSegment u d (nth (unknowns u.done u.n) i) out).flash =
            (d.flash.apply (.program (segAddr u (nth (unknowns u.done u.n) i)) out)).apply
              (.program (statAddr u (nth (unknowns u.done u.n) i)) [0x33]) := rfl
        rw [hfl, hfr _ (by omega) (by simp only [statAddr]; omega)]
        exact hF.marked j (by omega)
    have hS' : Sim (finStep (unknowns u.done u.n) s i) u
        (afterWriteSegment u d (nth (unknowns u.done u.n) i) out).flash := by
      refine ⟨s1, s2, s3, s4, s5, fun k => ?_, fun k => ?_, fun k => ?_⟩
      · show Recon.get ((nth (unknowns u.done u.n) i, finOut (unknowns u.done u.n) s i) :: s.ds) k = _
        rw [Recon.get_cons, s6, ← hval]
        exact (hds k).symm
      · show Recon.get s.ps k = _
        rw [s7]; exact (hps k).symm
      · show Recon.get s.ms k = _
        rw [s8]; exact (hms k).symm
    obtain ⟨d', hrun', hS'', hF''⟩ := ih (i + 1) _ _ hF' hS' (by omega)
    refine ⟨d', hrun', hS'', ?_⟩
    rwa [show i + 1 + k = i + (k + 1) by omega] at hF''

end Fuota.Updater
