import Fuota.Lemmas.RefineCrashFault
/-!
# `try_recover_inner` after a power loss outside `finish`, then redelivery
-/
namespace Fuota.Updater
open Fuota.Nor Fuota.Fs Fuota.FlashAdapters Fuota.Recon Fuota.Layout Fuota.Gf2

/-- a fold only looks at the function on the members of the list -/
theorem foldl_congr_mem {α β : Type} (f g : β → α → β) : ∀ (l : List α) (b : β), (∀ b a, a ∈ l → f b a = g b a) →
    l.foldl f b = l.foldl g b
  | [], _, _ => rfl
  | a :: l, b, h => by
    rw [List.foldl_cons, List.foldl_cons, h b a List.mem_cons_self]
    exact foldl_congr_mem f g l _ (fun b a ha => h b a (List.mem_cons_of_mem _ ha))

/-- **recovery after an interruption that only changed bytes of the parity slot's block area.** `(u, d)` satisfies
the session invariant with headers and is incomplete; `e` is a device without injection, of the same size, that
agrees with `d` outside the block area of the parity slot. Then `try_recover_inner` on `e` only reads and rebuilds
the updater from `done` and `used`: an orphan block is not seen, because the scan reads the matrix rows only. -/
theorem recover_run_pardata (nslots : Nat) {u : Upd} {d e : Dev} {sa sb : Nat} (LH : LawfulH u d sa sb)
    (hinc : rcComplete u = false) (hG : Good e) (hsz : e.flash.size = d.flash.size)
    (hfr : ∀ x, ¬ (parBase u + 1024 ≤ x ∧ x < parBase u + 1024 + u.maxL * u.bs) → e.flash.byte x = d.flash.byte x)
    (hin : nslots * u.fw.size ≤ d.flash.size) (hnew : C07b.NewestPair nslots u d sa sb)
    (hoth : C07b.OthersSettled nslots u d) :
    (tryRecoverInner nslots u.fw.size).run e = (.ok (some (recovered u u.fw.size u.done)), e) ∧
    CacheOK (recovered u u.fw.size u.done) e := by
  have L := LH.law
  have g := L.base.geo
  obtain ⟨h1, h2, h3, h4, h5, h6, h7⟩ := g.slots
  have hmo := g.hmo
  have hfb : fwBase u = u.fw.idx * u.fw.size := rfl
  have hpb : parBase u = u.par.idx * u.par.size := rfl
  have ge : Geo u e.flash.size := by rw [hsz]; exact g
  have hfw' : NoPanic.hdrAt e.flash (u.fw.idx * u.fw.size) = some (fwHdr u sa) := by
    rw [← LH.hfw]
    apply hdrAt_congr
    intro x hx1 hx2
    exact hfr x (by omega)
  have hpar' : NoPanic.hdrAt e.flash (u.par.idx * u.par.size) = some (parHdr u sb) := by
    rw [← LH.hpar]
    apply hdrAt_congr
    intro x hx1 hx2
    exact hfr x (by omega)
  have hhd : NoPanic.hdrs e.flash nslots u.fw.size = NoPanic.hdrs d.flash nslots u.fw.size :=
    hdrs_frame_slot nslots u.fw.size u.par.idx (fun x hx => hfr x (by rw [hpb, h2]; omega))
  refine ⟨recover_run_core nslots ge hG L.base.hdone ?_ ?_ ?_ hfw' hpar' (by rw [hsz]; exact hin) ?_ ?_, ?_⟩
  · intro j hj
    obtain ⟨q1, q2, q3, q4⟩ := g.regions.1 j hj
    rw [hfr _ (by omega)]
    cases hd : u.done.testBit j with
    | true => simpa using L.base.hstat j hd
    | false => simpa using (L.base.herD j hj ⟨hinc, hd⟩).2
  · have hd := loadUsed_lawful L.base { idx := u.par.idx, size := u.fw.size } (u.maxL * u.bs) rfl h2.symm hmo.symm
    rw [loadUsed_run g L.base.good { idx := u.par.idx, size := u.fw.size } (u.maxL * u.bs) rfl h2.symm hmo.symm _ _ (fun i hi => List.mem_range.1 hi)] at hd
    rw [loadUsed_run ge hG { idx := u.par.idx, size := u.fw.size } (u.maxL * u.bs) rfl h2.symm hmo.symm _ _ (fun i hi => List.mem_range.1 hi)]
    have hfold : (List.range u.maxL).foldl
          (fun acc i => if e.flash.byte (diagAddr u i) ≠ 0xFF then acc ||| 2 ^ i else acc) 0 =
        (List.range u.maxL).foldl
          (fun acc i => if d.flash.byte (diagAddr u i) ≠ 0xFF then acc ||| 2 ^ i else acc) 0 := by
      apply foldl_congr_mem
      intro b a ha
      have ham := List.mem_range.1 ha
      obtain ⟨q1, q2, q3, q4⟩ := g.regions.2 a ham
      rw [hfr (diagAddr u a) (by simp only [diagAddr]; omega)]
    rw [hfold, (Prod.mk.inj hd).1]
  · intro hu
    have hl0 : u.l ≠ 0 := by
      intro h0
      apply hu
      apply Nat.eq_of_testBit_eq
      intro p
      cases hb : u.used.testBit p with
      | false => simp
      | true => have := (L.base.hech p hb).1; omega
    have := L.base.hl2 hl0
    have := pop_add_unknowns u.done u.n
    have := L.base.hl
    omega
  · show twoNewest (indexed (NoPanic.hdrs e.flash nslots u.fw.size)) = _
    rw [hhd]; exact hnew
  · show ∀ p ∈ indexed (NoPanic.hdrs e.flash nslots u.fw.size), _
    rw [hhd]; exact hoth
  · refine Or.inr ⟨rfl, ?_⟩
    have := hdrAt_size hfw'
    show sizeAt e.flash (u.fw.size * u.fw.idx + Consts.SEGSIZE_OFFSET) = u.bs
    rw [Nat.mul_comm]
    exact this

/-- **recovery from every state an interruption outside `finish` leaves behind**: it only reads, and rebuilds the
updater from `done` and `used` of the lost one -/
theorem recover_interrupted (nslots : Nat) {ffr : Bool} {u : Upd} {d : Dev} {sa sb : Nat} {index : Nat}
    {bytes : List Nat} {u1 : Upd} {d1 : Dev} (LH : LawfulH u d sa sb) (hin : nslots * u.fw.size ≤ d.flash.size)
    (hnew : C07b.NewestPair nslots u d sa sb) (hoth : C07b.OthersSettled nslots u d)
    (I : Interrupted ffr u d index bytes u1 d1) :
    (tryRecoverInner nslots u.fw.size).run d1 = (.ok (some (recovered u u.fw.size u.done)), d1) ∧
    CacheOK (recovered u u.fw.size u.done) d1 := by
  have L := LH.law
  have g := L.base.geo
  cases I with
  | store1 S _ hd1 =>
    obtain ⟨r1, r2, r3, r4⟩ := g.regions.1 index S.hi
    rcases hd1 with rfl | rfl
    · exact recover_run_fwdata nslots LH S.inc L.base rfl (fun x _ => rfl) hin hnew hoth
    · obtain ⟨hfr, L', _⟩ := progSeg_frame L.base S.hi (L.base.good.prog _ _) bytes S.len rfl
      exact recover_run_fwdata nslots LH S.inc L' (by rw [Dev.prog_flash, size_apply_program])
        (fun x hx => hfr x (by omega)) hin hnew hoth
  | store2 r p row' data' hinc _ _ S _ hd1 =>
    rcases hd1 with rfl | rfl
    · exact recover_run_pardata nslots LH hinc L.base.good rfl (fun x _ => rfl) hin hnew hoth
    · obtain ⟨f1, f2, f3, f4, f5, f6, f7, f8⟩ := adjU_fields u index
      obtain ⟨_, hpm, _, hdl, _⟩ := S.facts
      obtain ⟨q1, q2, q3, q4⟩ := S.law.geo.regions.2 p hpm
      have hpb : parBase (adjU u index) = parBase u := by simp only [parBase, f2]
      rw [hpb, f4, f7] at q2
      rw [hpb] at q1
      rw [f4] at hdl
      refine recover_run_pardata nslots LH hinc (L.base.good.prog _ _) (by rw [Dev.prog_flash, size_apply_program])
        (fun x hx => ?_) hin hnew hoth
      rw [Dev.prog_flash, byte_apply_program_of_not_mem _ _ _ _ (by rw [hdl]; omega)]

/-- **a power loss outside `finish`, recovery, redelivery.** `(u, d)` satisfies the session invariant with headers
(session pair newest, others settled) outside the corner "parity processing began but no row stored yet". A genuine
fragment is delivered while the power is lost at the `k`-th mutating operation from now; the call answers an error
and leaves the in-memory updater incomplete. Then the device is dead; after the reboot `try_recover_inner` only reads
and returns the rebuilt updater; and delivering the fragment again repairs the interruption. -/
theorem crash_resume (ffr : Bool) (nslots : Nat) {u : Upd} {d : Dev} {sa sb : Nat} (LH : LawfulH u d sa sb)
    (hin : nslots * u.fw.size ≤ d.flash.size) (hnew : C07b.NewestPair nslots u d sa sb)
    (hoth : C07b.OthersSettled nslots u d) (hcorner : u.l = 0 ∨ u.used ≠ 0) (index : Nat) (bytes : List Nat)
    (hb : IsBytes bytes) (hlen : bytes.length = u.bs) (hrow : (updaterRow ffr u.n index).isSome = true) (k : Nat)
    (herr : ∃ er, ((handleSegment ffr (index + 1) bytes).run (u, d.withCrash k)).1 = .error er)
    (hinc : rcComplete ((handleSegment ffr (index + 1) bytes).run (u, d.withCrash k)).2.1 = false) :
    ((handleSegment ffr (index + 1) bytes).run (u, d.withCrash k)).2.2.dead = true ∧
    (tryRecoverInner nslots u.fw.size).run ((handleSegment ffr (index + 1) bytes).run (u, d.withCrash k)).2.2.reboot =
      (.ok (some (recovered u u.fw.size u.done)),
        ((handleSegment ffr (index + 1) bytes).run (u, d.withCrash k)).2.2.reboot) ∧
    Repaired ffr (index + 1) bytes u d (recovered u u.fw.size u.done)
      ((handleSegment ffr (index + 1) bytes).run (u, d.withCrash k)).2.2.reboot := by
  have L := LH.law
  have g := L.base.geo
  obtain ⟨hdead, I, _⟩ := crash_call ffr L index bytes hb hlen hrow k herr hinc
  obtain ⟨hrec, hc⟩ := recover_interrupted nslots LH hin hnew hoth I
  obtain ⟨hG, _⟩ := I.basic L
  have hl : (recovered u u.fw.size u.done).l = u.l := by
    rw [recovered_l L]
    rcases hcorner with h0 | hu
    · have hused : u.used = 0 := by
        apply Nat.eq_of_testBit_eq
        intro p
        cases hb : u.used.testBit p with
        | false => simp
        | true => have := (L.base.hech p hb).1; omega
      rw [if_pos hused, h0]
    · rw [if_neg hu]
      have hl0 : u.l ≠ 0 := by
        intro h0
        apply hu
        apply Nat.eq_of_testBit_eq
        intro p
        cases hb : u.used.testBit p with
        | false => simp
        | true => have := (L.base.hech p hb).1; omega
      exact (L.base.hl2 hl0).symm
  exact ⟨hdead, hrec, I.repaired hlen hrow hG rfl ⟨rfl, rfl, rfl, g.hsz.symm, rfl, rfl, rfl, g.hmo.symm⟩ (Or.inl hl)
    rfl rfl hc⟩

/-- **recovery under the relaxed invariant** (`recover_refines` of C07b, generalised). The device `e` and the lost
updater `u` satisfy `LawfulUpTo` — the session invariant, or a half-stored segment, or an orphan parity block — the
session is incomplete, the two session headers are on flash and are the two newest of the ring, all other slots are
settled. Then `try_recover_inner` succeeds, only reads, and returns the updater rebuilt from `done` and `used`:
neither a segment without mark nor a block without row is seen. -/
theorem recover_lawfulUpTo (nslots : Nat) {u : Upd} {e : Dev} {sa sb : Nat} (h : LawfulUpTo u e)
    (hinc : rcComplete u = false)
    (hfw : NoPanic.hdrAt e.flash (u.fw.idx * u.fw.size) = some (fwHdr u sa))
    (hpar : NoPanic.hdrAt e.flash (u.par.idx * u.par.size) = some (parHdr u sb))
    (hin : nslots * u.fw.size ≤ e.flash.size) (hnew : C07b.NewestPair nslots u e sa sb)
    (hoth : C07b.OthersSettled nslots u e) :
    (tryRecoverInner nslots u.fw.size).run e = (.ok (some (recovered u u.fw.size u.done)), e) ∧
    CacheOK (recovered u u.fw.size u.done) e := by
  rcases h with L | ⟨i, buf, d, S, hG, hf⟩ | ⟨p, blk, d, L1, hl0, hp, hup, hlen, hG, hf⟩
  · exact recover_run_fwdata nslots ⟨L, hfw, hpar⟩ hinc L.base rfl (fun _ _ => rfl) hin hnew hoth
  · have g := S.law.base.geo
    obtain ⟨h1, h2, h3, h4, h5, h6, h7⟩ := g.slots
    obtain ⟨r1, r2, r3, r4⟩ := g.regions.1 i S.hi
    have hfb : fwBase u = u.fw.idx * u.fw.size := rfl
    have hpb : parBase u = u.par.idx * u.par.size := rfl
    obtain ⟨hfr, L', _⟩ := progSeg_frame S.law.base S.hi hG buf S.len hf
    have hsz : e.flash.size = d.flash.size := by rw [hf, size_apply_program]
    have hhd : NoPanic.hdrs d.flash nslots u.fw.size = NoPanic.hdrs e.flash nslots u.fw.size :=
      hdrs_frame_slot nslots u.fw.size u.fw.idx (fun x hx => (hfr x (by omega)).symm)
    have LH : LawfulH u d sa sb := by
      refine ⟨S.law, ?_, ?_⟩
      · rw [← hfw]; exact hdrAt_congr (fun x hx1 hx2 => (hfr x (by omega)).symm)
      · rw [← hpar]; exact hdrAt_congr (fun x hx1 hx2 => (hfr x (by omega)).symm)
    exact recover_run_fwdata nslots LH hinc L' hsz (fun x hx => hfr x (by omega)) (by rw [← hsz]; exact hin)
      (by show twoNewest (indexed (NoPanic.hdrs d.flash nslots u.fw.size)) = _; rw [hhd]; exact hnew)
      (by show ∀ q ∈ indexed (NoPanic.hdrs d.flash nslots u.fw.size), _; rw [hhd]; exact hoth)
  · have g := L1.geo
    obtain ⟨h1, h2, h3, h4, h5, h6, h7⟩ := g.slots
    have hpm : p < u.maxL := Nat.lt_of_lt_of_le hp L1.hl
    obtain ⟨q1, q2, q3, q4⟩ := g.regions.2 p hpm
    have hfb : fwBase u = u.fw.idx * u.fw.size := rfl
    have hpb : parBase u = u.par.idx * u.par.size := rfl
    obtain ⟨hfr, _⟩ := progBlock_vals L1 hpm hup blk hlen hf
    have hsz : e.flash.size = d.flash.size := by rw [hf, size_apply_program]
    have hps : parBase u = u.par.idx * u.fw.size := by rw [hpb, h2]
    have hhd : NoPanic.hdrs d.flash nslots u.fw.size = NoPanic.hdrs e.flash nslots u.fw.size :=
      hdrs_frame_slot nslots u.fw.size u.par.idx (fun x hx => (hfr x (by omega)).symm)
    have L : Lawful u d := ⟨L1.mono (fun i hi => hi.2), fun hc => by rw [hinc] at hc; cases hc⟩
    have LH : LawfulH u d sa sb := by
      refine ⟨L, ?_, ?_⟩
      · rw [← hfw]; exact hdrAt_congr (fun x hx1 hx2 => (hfr x (by omega)).symm)
      · rw [← hpar]; exact hdrAt_congr (fun x hx1 hx2 => (hfr x (by omega)).symm)
    exact recover_run_pardata nslots LH hinc hG hsz (fun x hx => hfr x (by omega)) (by rw [← hsz]; exact hin)
      (by show twoNewest (indexed (NoPanic.hdrs d.flash nslots u.fw.size)) = _; rw [hhd]; exact hnew)
      (by show ∀ q ∈ indexed (NoPanic.hdrs d.flash nslots u.fw.size), _; rw [hhd]; exact hoth)

end Fuota.Updater
