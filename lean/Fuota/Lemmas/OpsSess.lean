import Fuota.Lemmas.OpsUpd
/-!
# Footprints of session creation (`start_update`, `alloc_slotpair`) and recovery (`try_recover`), and the
geometry facts they establish
-/
namespace Fuota.Ops
open Fuota.Nor Fuota.Fs Fuota.Layout Fuota.Updater

variable {α β : Type}

/-- what `is_reasonably_sized` guarantees when it accepts (no `u32` side condition needed in this direction) -/
theorem reasonablySized_ok {slot sz n : Nat} (h : reasonablySized slot sz n = .ok ()) :
    1 ≤ sz ∧ sz ≤ 256 ∧ 1 ≤ n ∧ n ≤ 16384 ∧ sz * n ≤ slot - 17408 ∧ 17408 < slot := by
  unfold reasonablySized satMulU32 at h
  simp only [show MAX_SEGMENT_SIZE = 256 from rfl, show MAX_SEGMENTS = 16384 from rfl,
    show DATA_REGION_OFFSET = 17408 from rfl] at h
  split at h
  · cases h
  · split at h
    · cases h
    · split at h
      · cases h
      · rename_i h1 h2 h3
        have hsz : sz ≤ 256 := by omega
        have hn' : n ≤ 16384 := by omega
        have hprod : sz * n ≤ 256 * 16384 := Nat.mul_le_mul hsz hn'
        have hmin : min (sz * n) (2 ^ 32 - 1) = sz * n := by
          apply Nat.min_eq_left; omega
        rw [hmin] at h3
        have hpos : 1 ≤ sz * n := Nat.mul_pos (by omega) (by omega)
        refine ⟨by omega, hsz, by omega, hn', by omega, by omega⟩

/-! ## session geometry -/

/-- the geometry of a session created by `start_update` -/
structure SessionGeom (u : Upd) : Prop extends SlotGeom u where
  sameSize : u.par.size = u.fw.size
  bsOk : 1 ≤ u.bs ∧ u.bs ≤ 256
  nOk : 1 ≤ u.n ∧ u.n ≤ 16384
  maxLEq : u.maxL = capacity u.fw.size u.bs
  moEq : u.matrixOffset = u.maxL * u.bs
  lLe : u.l ≤ u.maxL

/-- the geometry of a session returned by `try_recover`: everything but `maxL = capacity` (the capacity is read
    back from the parity header), plus the ring positions -/
structure RecoveredGeom (nslots slotSize : Nat) (u : Upd) : Prop extends SlotGeom u where
  fwIdx : u.fw.idx < nslots
  parIdx : u.par.idx < nslots
  fwSz : u.fw.size = slotSize
  parSz : u.par.size = slotSize
  bsOk : 1 ≤ u.bs ∧ u.bs ≤ 256
  nOk : 1 ≤ u.n ∧ u.n ≤ 16384
  moEq : u.matrixOffset = u.maxL * u.bs
  lLe : u.l ≤ u.maxL

/-- `handle_segment` keeps the session geometry -/
theorem SessionGeom.of_inv {u0 u : Upd} (h : SessionGeom u0) (hi : SessInv True u0 u) : SessionGeom u := by
  obtain ⟨hs, hl⟩ := hi
  refine { toSlotGeom := h.toSlotGeom.of_same hs, sameSize := ?_, bsOk := ?_, nOk := ?_, maxLEq := ?_, moEq := ?_,
           lLe := hl True.intro }
  · rw [hs.par.2, hs.fw.2]; exact h.sameSize
  · rw [hs.bs]; exact h.bsOk
  · rw [hs.n]; exact h.nOk
  · rw [hs.maxL, hs.fw.2, hs.bs]; exact h.maxLEq
  · rw [hs.mo, hs.maxL, hs.bs]; exact h.moEq

/-! ## `alloc_slotpair` / `start_update` -/

/-- what `alloc_slotpair` does once the headers are read -/
def allocWith (n slotSize : Nat) (hs : List (Option Header)) : M (Slot × Slot) :=
  match choosePair n hs with
  | .error e => throw e
  | .ok (a, b, sa, sb) => do
    let first : Slot := { idx := a, size := slotSize }
    let second : Slot := { idx := b, size := slotSize }
    second.clear
    first.clear
    first.writeSeqNo sa
    second.writeSeqNo sb
    pure (first, second)

theorem allocSlotpair_eq (n slotSize : Nat) :
    allocSlotpair n slotSize = (loadHeaders n slotSize >>= allocWith n slotSize) := rfl

/-- operations on one of the slots `a`, `b` -/
def TwoOp (B slotSize a b : Nat) (op : Op) : Prop := SlotOp B slotSize a op ∨ SlotOp B slotSize b op

theorem allocWith_emits {B : Nat} (n slotSize : Nat) (hs : List (Option Header)) (a b sa sb : Nat)
    (h : choosePair n hs = .ok (a, b, sa, sb)) (hsz : 28 ≤ slotSize) :
    EmitsR B (TwoOp B slotSize a b)
      (fun p => p.1 = { idx := a, size := slotSize } ∧ p.2 = { idx := b, size := slotSize })
      (allocWith n slotSize hs) := by
  unfold allocWith
  rw [h]
  dsimp only
  refine EmitsR.seq ((clear_emits (B := B) { idx := b, size := slotSize }).weaken (fun _ h => Or.inr h)) ?_
  refine EmitsR.seq ((clear_emits (B := B) { idx := a, size := slotSize }).weaken (fun _ h => Or.inl h)) ?_
  refine EmitsR.seq ((writeSeqNo_emits (B := B) { idx := a, size := slotSize } sa hsz).weaken
    (fun _ h => Or.inl h)) ?_
  refine EmitsR.seq ((writeSeqNo_emits (B := B) { idx := b, size := slotSize } sb hsz).weaken
    (fun _ h => Or.inr h)) ?_
  exact EmitsR.pure ⟨rfl, rfl⟩

/-- the session `start_update` returns -/
def StartResult (slotSize sz n a b : Nat) (u : Upd) : Prop :=
  u.fw.idx = a ∧ u.fw.size = slotSize ∧ u.par.idx = b ∧ u.par.size = slotSize ∧
  u.fw.segSize = (if sz = 0 then none else some sz) ∧
  u.n = n ∧ u.bs = sz ∧ u.maxL = capacity slotSize sz ∧ u.matrixOffset = capacity slotSize sz * sz ∧
  u.l = 0 ∧ u.done = 0 ∧ u.used = 0 ∧ u.complete = false

/-- what `start_update` does once the slot pair is allocated -/
def startRest (slotSize segsz nseg : Nat) (p : Slot × Slot) : M Upd := do
  p.1.setKind .firmware
  let fw ← p.1.setLayout nseg segsz
  p.2.setKind .parity
  let par ← p.2.setLayout (capacity slotSize segsz) segsz
  pure { fw := fw, par := par, n := nseg, bs := segsz, maxL := capacity slotSize segsz,
         matrixOffset := capacity slotSize segsz * segsz }

theorem startUpdate_eq (nslots slotSize segsz nseg : Nat) (h : reasonablySized slotSize segsz nseg = .ok ()) :
    startUpdate nslots slotSize segsz nseg = (allocSlotpair nslots slotSize >>= startRest slotSize segsz nseg) := by
  unfold startUpdate
  rw [h]
  rfl

theorem startRest_emits {B : Nat} (slotSize segsz nseg a b : Nat) (p : Slot × Slot)
    (hp : p.1 = { idx := a, size := slotSize } ∧ p.2 = { idx := b, size := slotSize }) (hsz : 28 ≤ slotSize) :
    EmitsR B (TwoOp B slotSize a b) (StartResult slotSize segsz nseg a b) (startRest slotSize segsz nseg p) := by
  obtain ⟨p1, p2⟩ := p
  obtain ⟨h1, h2⟩ := hp
  dsimp only at h1 h2
  subst h1 h2
  unfold startRest
  dsimp only
  refine EmitsR.seq ((setKind_emits (B := B) { idx := a, size := slotSize } _ hsz).weaken
    (fun _ h => Or.inl h)) ?_
  refine EmitsR.bind ((setLayout_emits (B := B) { idx := a, size := slotSize } nseg segsz hsz).weaken
    (fun _ h => Or.inl h)) (fun fw hfw => ?_)
  refine EmitsR.seq ((setKind_emits (B := B) { idx := b, size := slotSize } _ hsz).weaken
    (fun _ h => Or.inr h)) ?_
  refine EmitsR.bind ((setLayout_emits (B := B) { idx := b, size := slotSize } _ segsz hsz).weaken
    (fun _ h => Or.inr h)) (fun par hpar => ?_)
  apply EmitsR.pure
  exact ⟨hfw.1.1, hfw.1.2, hpar.1.1, hpar.1.2, hfw.2, rfl, rfl, rfl, rfl, rfl, rfl, rfl, rfl⟩

/-- **`start_update` from any device state**: either nothing is emitted and no session is returned, or the
    headers read from that state make `choosePair` return `(a, b, …)`, every emitted operation is on slot `a`
    or slot `b`, and a returned session sits on exactly those two slots. -/
theorem startUpdate_emitsAt (nslots slotSize sz n : Nat) (d : Dev) :
    EmitsAt d.flash.block (fun _ => False) (fun _ => False) (startUpdate nslots slotSize sz n) d ∨
    ∃ hs a b sa sb, ((loadHeaders nslots slotSize).run d).1 = .ok hs ∧
      choosePair nslots hs = .ok (a, b, sa, sb) ∧ reasonablySized slotSize sz n = .ok () ∧
      EmitsAt d.flash.block (TwoOp d.flash.block slotSize a b) (StartResult slotSize sz n a b)
        (startUpdate nslots slotSize sz n) d := by
  rcases hrs : reasonablySized slotSize sz n with e | ⟨⟩
  · left
    rw [EmitsAt, C15.start_rejects_untouched nslots slotSize sz n e d hrs]
    refine ⟨rfl, ⟨[], Replay.refl _, by simp⟩, ?_⟩
    intro a ha; cases ha
  · have hsz : 28 ≤ slotSize := by have := reasonablySized_ok hrs; omega
    rw [startUpdate_eq _ _ _ _ hrs, allocSlotpair_eq]
    have hload : ∀ Q, EmitsAt d.flash.block Q (fun hs => hs.length = nslots) (loadHeaders nslots slotSize) d :=
      fun Q => loadHeaders_emits nslots slotSize d rfl
    rcases hL : ((loadHeaders nslots slotSize).run d).1 with e | hs
    · left
      refine EmitsAt.bind' (R := fun _ => False) ?_ (fun _ _ h => h.elim)
      refine (hload _).bind' (fun a ha _ => ?_)
      rw [hL] at ha; cases ha
    · rcases hcp : choosePair nslots hs with e | ⟨a, b, sa, sb⟩
      · left
        refine EmitsAt.bind' (R := fun _ => False) ?_ (fun _ _ h => h.elim)
        refine (hload _).bind' (fun hs' ha _ => ?_)
        rw [hL] at ha; cases ha
        have : allocWith nslots slotSize hs = throw e := by
          unfold allocWith; rw [hcp]
        rw [this]
        exact EmitsR.throw _ (hload (fun _ => False)).1
      · right
        refine ⟨hs, a, b, sa, sb, rfl, hcp, rfl, ?_⟩
        refine EmitsAt.bind (R := fun p => p.1 = { idx := a, size := slotSize } ∧
          p.2 = { idx := b, size := slotSize }) ?_ (fun p hp => startRest_emits slotSize sz n a b p hp hsz)
        refine (hload _).bind' (fun hs' ha _ => ?_)
        rw [hL] at ha; cases ha
        exact allocWith_emits nslots slotSize hs a b sa sb hcp hsz _ (hload (fun _ => False)).1

/-- `start_update` establishes the session geometry -/
theorem StartResult.sessionGeom {slotSize sz n a b : Nat} {u : Upd} (h : StartResult slotSize sz n a b u)
    (hrs : reasonablySized slotSize sz n = .ok ()) : SessionGeom u := by
  obtain ⟨_, hfs, _, hps, _, hn, hbs, hmax, hmo, hl, _⟩ := h
  obtain ⟨h1, h2, h3, h4, h5, h6⟩ := reasonablySized_ok hrs
  refine { fwSize := by omega, parSize := by omega, fit := ?_, sameSize := by omega, bsOk := by omega,
           nOk := by omega, maxLEq := ?_, moEq := ?_, lLe := by omega }
  · rw [hfs, hn, hbs]; exact h5
  · rw [hmax, hfs, hbs]
  · rw [hmo, hmax, hbs]

/-! ## recovery -/

theorem twoNewest_pick (P : Nat × Header → Prop) (l : List (Nat × Header)) (hl : ∀ p ∈ l, P p) :
    (∀ v, (twoNewest l).1 = some v → P v) ∧ (∀ v, (twoNewest l).2 = some v → P v) := by
  unfold twoNewest
  suffices h : ∀ (l : List (Nat × Header)) (acc : Option (Nat × Header) × Option (Nat × Header)),
      (∀ p ∈ l, P p) → (∀ v, acc.1 = some v → P v) → (∀ v, acc.2 = some v → P v) →
      (∀ v, (l.foldl (fun (acc : Option (Nat × Header) × Option (Nat × Header)) p =>
        match acc.1 with
        | none => (some p, acc.2)
        | some nw =>
          if nw.2.seq < p.2.seq then (some p, some nw)
          else match acc.2 with
            | none => (acc.1, some p)
            | some sn => if sn.2.seq < p.2.seq then (acc.1, some p) else acc) acc).1 = some v → P v) ∧
      (∀ v, (l.foldl (fun (acc : Option (Nat × Header) × Option (Nat × Header)) p =>
        match acc.1 with
        | none => (some p, acc.2)
        | some nw =>
          if nw.2.seq < p.2.seq then (some p, some nw)
          else match acc.2 with
            | none => (acc.1, some p)
            | some sn => if sn.2.seq < p.2.seq then (acc.1, some p) else acc) acc).2 = some v → P v) by
    exact h l (none, none) hl (fun v hv => by cases hv) (fun v hv => by cases hv)
  intro l
  induction l with
  | nil => intro acc _ h1 h2; exact ⟨h1, h2⟩
  | cons p l ih =>
    intro acc hl h1 h2
    rw [List.foldl_cons]
    have hp : P p := hl p List.mem_cons_self
    apply ih _ (fun q hq => hl q (List.mem_cons_of_mem _ hq))
    · obtain ⟨a1, a2⟩ := acc
      dsimp only at h1 h2 ⊢
      intro v hv
      split at hv
      · cases hv; exact hp
      · split at hv
        · cases hv; exact hp
        · split at hv
          · exact h1 v hv
          · split at hv
            · exact h1 v hv
            · exact h1 v hv
    · obtain ⟨a1, a2⟩ := acc
      dsimp only at h1 h2 ⊢
      intro v hv
      split at hv
      · exact h2 v hv
      · split at hv
        · cases hv; exact h1 _ rfl
        · split at hv
          · cases hv; exact hp
          · split at hv
            · cases hv; exact hp
            · exact h2 v hv

/-- `try_recover_inner`: every operation is on one slot of the ring; a returned session has a sound geometry -/
theorem tryRecoverInner_emits {B : Nat} (nslots slotSize : Nat) (hsz : 28 ≤ slotSize) :
    EmitsR B (RingOp B nslots slotSize) (fun r => ∀ u, r = some u → RecoveredGeom nslots slotSize u)
      (tryRecoverInner nslots slotSize) := by
  unfold tryRecoverInner
  dsimp only
  simp only [throw_bind]
  refine (loadHeaders_emits nslots slotSize).bind (fun hs hlen => ?_)
  have hnone : EmitsR B (RingOp B nslots slotSize) (fun r => ∀ u, r = some u → RecoveredGeom nslots slotSize u)
      (pure none : M (Option Upd)) := EmitsR.pure (fun u hu => by cases hu)
  have hidx : ∀ p ∈ indexed hs, p.1 < nslots := fun p hp => by have := indexed_lt hs p hp; omega
  split
  · rename_i nw sn htw
    have hpick := twoNewest_pick (fun p => p.1 < nslots) (indexed hs) hidx
    rw [htw] at hpick
    have hnw : nw.1 < nslots := hpick.1 nw rfl
    have hsn : sn.1 < nslots := hpick.2 sn rfl
    apply EmitsR.ite (fun _ => hnone); intro _
    apply EmitsR.ite (fun _ => hnone); intro _
    apply EmitsR.ite (fun _ => hnone); intro _
    apply EmitsR.ite (fun _ => hnone); intro _
    apply EmitsR.ite (fun _ => hnone); intro _
    apply EmitsR.ite (fun _ => hnone); intro _
    split
    · exact hnone
    · rename_i hrs
      obtain ⟨h1, h2, h3, h4, h5, h6⟩ := reasonablySized_ok hrs
      refine EmitsR.seq (remediate_emits nslots slotSize nw.1 sn.1 hsz _ hidx) ?_
      refine (loadStatusArray_emits _ _).bind (fun done _ => ?_)
      refine (loadUsed_emits _ _ _ _).bind (fun used _ => ?_)
      apply EmitsR.ite (fun _ => EmitsR.throw); intro _
      apply EmitsR.ite (fun _ => hnone); intro hl
      apply EmitsR.pure
      intro u hu
      cases hu
      exact { fwSize := h6, parSize := h6, fit := h5, fwIdx := hsn, parIdx := hnw, fwSz := rfl, parSz := rfl,
              bsOk := ⟨h1, h2⟩, nOk := ⟨h3, h4⟩, moEq := rfl, lLe := Nat.le_of_not_gt hl }
  · exact hnone

/-- `try_recover` (recovery, or cancellation of everything pending when there is nothing to recover) -/
theorem tryRecover_emits {B : Nat} (nslots slotSize : Nat) (hsz : 28 ≤ slotSize) :
    EmitsR B (RingOp B nslots slotSize) (fun r => ∀ u, r = some u → RecoveredGeom nslots slotSize u)
      (tryRecover nslots slotSize) := by
  unfold tryRecover
  refine (tryRecoverInner_emits nslots slotSize hsz).bind (fun r hr => ?_)
  have hp : EmitsR B (RingOp B nslots slotSize) (fun r => ∀ u, r = some u → RecoveredGeom nslots slotSize u)
      (pure r : M (Option Upd)) := EmitsR.pure hr
  dsimp only
  split
  · exact EmitsR.seq (cancelAll_emits nslots slotSize hsz) hp
  · exact hp

end Fuota.Ops
