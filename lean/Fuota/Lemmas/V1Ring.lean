import Fuota.Model.Orig
/-!
# Consistent ring states of the deprecated manager (C20)

A consistent ring state: `k` consecutively numbered slots starting at ring position `p` (oldest, sequence number
`s0 mod 2^32-1`), the rest blank — `ringIH N p k s0 H`, `H i` supplying the other header fields of slot `i`.
Sequence numbers live in `0 .. 2^32-2`; `next_seq` is `+1` modulo `2^32-1`, so every start value, including those
adjacent to the reserved `2^32-1`, is of the form `s0 mod 2^32-1`.

The per-geometry facts are proved by enumerating `N = 3..6`, the rotation and the fill level with the start value
symbolic (`simp` evaluates the list functions, `omega` decides the wrap-around comparisons).
-/
set_option linter.unusedSimpArgs false
set_option maxRecDepth 4000
namespace Fuota.Orig
open Fuota.Layout

/-- `next_seq` on valid sequence numbers is `+1` modulo `2^32-1` -/
theorem nextSeq_mod (x : Nat) : nextSeq (x % 4294967295) = (x + 1) % 4294967295 := by
  unfold nextSeq
  split <;> omega

theorem nextSeq_ne_reserved (s : Nat) : nextSeq s ≠ 0xFFFFFFFF := by
  unfold nextSeq
  split <;> omega

theorem nextSeq_lt (s : Nat) : nextSeq s < 0xFFFFFFFF := by
  unfold nextSeq
  split <;> omega

theorem nextSeq_injective (a b : Nat) (ha : a < 0xFFFFFFFF) (hb : b < 0xFFFFFFFF) (h : nextSeq a = nextSeq b) :
    a = b := by
  unfold nextSeq at h
  split at h <;> split at h <;> omega

/-- the sequence numbers of a consistent ring state, by physical slot -/
def ringSeqs (N p k s0 : Nat) : List (Option Nat) :=
  (List.range N).map fun i => if (i + N - p) % N < k then some ((s0 + (i + N - p) % N) % 4294967295) else none

/-- the indexed headers of a consistent ring state -/
def ringIH (N p k s0 : Nat) (H : Nat → Header) : List IH :=
  (List.range N).map fun i =>
    { idx := i,
      hdr := if (i + N - p) % N < k then some { H i with seq := (s0 + (i + N - p) % N) % 4294967295 } else none }

/-- slot `i` of a ring state, as `get_ordered_headers` reports it -/
def ihAt (N p k s0 : Nat) (H : Nat → Header) (i : Nat) : IH :=
  { idx := i,
    hdr := if (i + N - p) % N < k then some { H i with seq := (s0 + (i + N - p) % N) % 4294967295 } else none }

/-- the header list after slot `slot` received header `h` (what the erase + header program of `start` produce) -/
def putHeader (hs : List IH) (slot : Nat) (h : Header) : List IH :=
  hs.map fun ih => if ih.idx = slot then { ih with hdr := some h } else ih

theorem ringIH_seqs (N p k s0 : Nat) (H : Nat → Header) : (ringIH N p k s0 H).map seqOf = ringSeqs N p k s0 := by
  unfold ringIH ringSeqs
  rw [List.map_map]
  apply List.map_congr_left
  intro i _
  simp only [Function.comp, seqOf]
  split <;> rfl

theorem ringIH_length (N p k s0 : Nat) (H : Nat → Header) : (ringIH N p k s0 H).length = N := by
  simp [ringIH]

/-- the discontinuity search finds the position after the newest slot -/
theorem findOldestSeq_ring (N p k s0 : Nat) (hN : 3 ≤ N) (hN6 : N ≤ 6) (hp : p < N) (hk1 : 1 ≤ k) (hk : k ≤ N) :
    findOldestSeq (ringSeqs N p k s0) = some ((p + k) % N) := by
  have hN' : N = 3 ∨ N = 4 ∨ N = 5 ∨ N = 6 := by omega
  rcases hN' with rfl | rfl | rfl | rfl
  · have hp' : p = 0 ∨ p = 1 ∨ p = 2 := by omega
    have hk' : k = 1 ∨ k = 2 ∨ k = 3 := by omega
    rcases hp' with rfl | rfl | rfl <;> rcases hk' with rfl | rfl | rfl <;>
      simp [ringSeqs, findOldestSeq, ringPairs, disc, List.range_succ, nextSeq_mod, List.findIdx?_cons] <;> omega
  · have hp' : p = 0 ∨ p = 1 ∨ p = 2 ∨ p = 3 := by omega
    have hk' : k = 1 ∨ k = 2 ∨ k = 3 ∨ k = 4 := by omega
    rcases hp' with rfl | rfl | rfl | rfl <;> rcases hk' with rfl | rfl | rfl | rfl <;>
      simp [ringSeqs, findOldestSeq, ringPairs, disc, List.range_succ, nextSeq_mod, List.findIdx?_cons] <;> omega
  · have hp' : p = 0 ∨ p = 1 ∨ p = 2 ∨ p = 3 ∨ p = 4 := by omega
    have hk' : k = 1 ∨ k = 2 ∨ k = 3 ∨ k = 4 ∨ k = 5 := by omega
    rcases hp' with rfl | rfl | rfl | rfl | rfl <;> rcases hk' with rfl | rfl | rfl | rfl | rfl <;>
      simp [ringSeqs, findOldestSeq, ringPairs, disc, List.range_succ, nextSeq_mod, List.findIdx?_cons] <;> omega
  · have hp' : p = 0 ∨ p = 1 ∨ p = 2 ∨ p = 3 ∨ p = 4 ∨ p = 5 := by omega
    have hk' : k = 1 ∨ k = 2 ∨ k = 3 ∨ k = 4 ∨ k = 5 ∨ k = 6 := by omega
    rcases hp' with rfl | rfl | rfl | rfl | rfl | rfl <;> rcases hk' with rfl | rfl | rfl | rfl | rfl | rfl <;>
      simp [ringSeqs, findOldestSeq, ringPairs, disc, List.range_succ, nextSeq_mod, List.findIdx?_cons] <;> omega

/-- an all-blank ring has no discontinuity (and `all_none` holds) -/
theorem findOldestSeq_blank (N p s0 : Nat) (hN : 3 ≤ N) (hN6 : N ≤ 6) :
    findOldestSeq (ringSeqs N p 0 s0) = none := by
  have hN' : N = 3 ∨ N = 4 ∨ N = 5 ∨ N = 6 := by omega
  rcases hN' with rfl | rfl | rfl | rfl <;>
    simp [ringSeqs, findOldestSeq, ringPairs, disc, List.range_succ, List.findIdx?_cons]

theorem ringIH_blank_all_none (N p s0 : Nat) (H : Nat → Header) :
    (ringIH N p 0 s0 H).all (fun ih => ih.hdr.isNone) = true := by
  simp [ringIH]

/-- one iteration of `start` on the ordered headers of a non-blank ring: the slot after the newest, the next number -/
theorem planOne_ring (N p k s0 : Nat) (H : Nat → Header) (hN : 3 ≤ N) (hN6 : N ≤ 6) (hp : p < N) (hk1 : 1 ≤ k)
    (hk : k ≤ N) :
    planOne (rotateLeft (ringIH N p k s0 H) ((p + k) % N)) = some ((p + k) % N, (s0 + k) % 4294967295) := by
  have hN' : N = 3 ∨ N = 4 ∨ N = 5 ∨ N = 6 := by omega
  rcases hN' with rfl | rfl | rfl | rfl
  · have hp' : p = 0 ∨ p = 1 ∨ p = 2 := by omega
    have hk' : k = 1 ∨ k = 2 ∨ k = 3 := by omega
    rcases hp' with rfl | rfl | rfl <;> rcases hk' with rfl | rfl | rfl <;>
      simp [ringIH, List.range_succ, nextSeq_mod, rotateLeft, planOne, getNextSeqNo, Nat.add_assoc]
  · have hp' : p = 0 ∨ p = 1 ∨ p = 2 ∨ p = 3 := by omega
    have hk' : k = 1 ∨ k = 2 ∨ k = 3 ∨ k = 4 := by omega
    rcases hp' with rfl | rfl | rfl | rfl <;> rcases hk' with rfl | rfl | rfl | rfl <;>
      simp [ringIH, List.range_succ, nextSeq_mod, rotateLeft, planOne, getNextSeqNo, Nat.add_assoc]
  · have hp' : p = 0 ∨ p = 1 ∨ p = 2 ∨ p = 3 ∨ p = 4 := by omega
    have hk' : k = 1 ∨ k = 2 ∨ k = 3 ∨ k = 4 ∨ k = 5 := by omega
    rcases hp' with rfl | rfl | rfl | rfl | rfl <;> rcases hk' with rfl | rfl | rfl | rfl | rfl <;>
      simp [ringIH, List.range_succ, nextSeq_mod, rotateLeft, planOne, getNextSeqNo, Nat.add_assoc]
  · have hp' : p = 0 ∨ p = 1 ∨ p = 2 ∨ p = 3 ∨ p = 4 ∨ p = 5 := by omega
    have hk' : k = 1 ∨ k = 2 ∨ k = 3 ∨ k = 4 ∨ k = 5 ∨ k = 6 := by omega
    rcases hp' with rfl | rfl | rfl | rfl | rfl | rfl <;> rcases hk' with rfl | rfl | rfl | rfl | rfl | rfl <;>
      simp [ringIH, List.range_succ, nextSeq_mod, rotateLeft, planOne, getNextSeqNo, Nat.add_assoc]

theorem planOne_blank (N p s0 : Nat) (H : Nat → Header) (hN : 3 ≤ N) (hN6 : N ≤ 6) :
    planOne (ringIH N p 0 s0 H) = some (0, 0) := by
  have hN' : N = 3 ∨ N = 4 ∨ N = 5 ∨ N = 6 := by omega
  rcases hN' with rfl | rfl | rfl | rfl <;> simp [ringIH, List.range_succ, planOne, getNextSeqNo]

/-- the two newest of the ordered headers of a ring with at least two slots: the physical slots `p+k-2`, `p+k-1` -/
theorem getTwoNewest_ring (N p k s0 : Nat) (H : Nat → Header) (hN : 3 ≤ N) (hN6 : N ≤ 6) (hp : p < N) (hk2 : 2 ≤ k)
    (hk : k ≤ N) :
    getTwoNewest (rotateLeft (ringIH N p k s0 H) ((p + k) % N)) =
      some (ihAt N p k s0 H ((p + k - 2) % N), ihAt N p k s0 H ((p + k - 1) % N)) := by
  have hN' : N = 3 ∨ N = 4 ∨ N = 5 ∨ N = 6 := by omega
  rcases hN' with rfl | rfl | rfl | rfl
  · have hp' : p = 0 ∨ p = 1 ∨ p = 2 := by omega
    have hk' : k = 2 ∨ k = 3 := by omega
    rcases hp' with rfl | rfl | rfl <;> rcases hk' with rfl | rfl <;>
      simp [ringIH, List.range_succ, rotateLeft, getTwoNewest, ihAt]
  · have hp' : p = 0 ∨ p = 1 ∨ p = 2 ∨ p = 3 := by omega
    have hk' : k = 2 ∨ k = 3 ∨ k = 4 := by omega
    rcases hp' with rfl | rfl | rfl | rfl <;> rcases hk' with rfl | rfl | rfl <;>
      simp [ringIH, List.range_succ, rotateLeft, getTwoNewest, ihAt]
  · have hp' : p = 0 ∨ p = 1 ∨ p = 2 ∨ p = 3 ∨ p = 4 := by omega
    have hk' : k = 2 ∨ k = 3 ∨ k = 4 ∨ k = 5 := by omega
    rcases hp' with rfl | rfl | rfl | rfl | rfl <;> rcases hk' with rfl | rfl | rfl | rfl <;>
      simp [ringIH, List.range_succ, rotateLeft, getTwoNewest, ihAt]
  · have hp' : p = 0 ∨ p = 1 ∨ p = 2 ∨ p = 3 ∨ p = 4 ∨ p = 5 := by omega
    have hk' : k = 2 ∨ k = 3 ∨ k = 4 ∨ k = 5 ∨ k = 6 := by omega
    rcases hp' with rfl | rfl | rfl | rfl | rfl | rfl <;> rcases hk' with rfl | rfl | rfl | rfl | rfl <;>
      simp [ringIH, List.range_succ, rotateLeft, getTwoNewest, ihAt]

/-- with fewer than two slots in use there is no pair -/
theorem getTwoNewest_one (N p s0 : Nat) (H : Nat → Header) (hN : 3 ≤ N) (hN6 : N ≤ 6) (hp : p < N) :
    getTwoNewest (rotateLeft (ringIH N p 1 s0 H) ((p + 1) % N)) = none := by
  have hN' : N = 3 ∨ N = 4 ∨ N = 5 ∨ N = 6 := by omega
  rcases hN' with rfl | rfl | rfl | rfl
  · have hp' : p = 0 ∨ p = 1 ∨ p = 2 := by omega
    rcases hp' with rfl | rfl | rfl <;> simp [ringIH, List.range_succ, rotateLeft, getTwoNewest]
  · have hp' : p = 0 ∨ p = 1 ∨ p = 2 ∨ p = 3 := by omega
    rcases hp' with rfl | rfl | rfl | rfl <;> simp [ringIH, List.range_succ, rotateLeft, getTwoNewest]
  · have hp' : p = 0 ∨ p = 1 ∨ p = 2 ∨ p = 3 ∨ p = 4 := by omega
    rcases hp' with rfl | rfl | rfl | rfl | rfl <;> simp [ringIH, List.range_succ, rotateLeft, getTwoNewest]
  · have hp' : p = 0 ∨ p = 1 ∨ p = 2 ∨ p = 3 ∨ p = 4 ∨ p = 5 := by omega
    rcases hp' with rfl | rfl | rfl | rfl | rfl | rfl <;> simp [ringIH, List.range_succ, rotateLeft, getTwoNewest]

theorem getTwoNewest_blank (N p s0 : Nat) (H : Nat → Header) (hN : 3 ≤ N) (hN6 : N ≤ 6) :
    getTwoNewest (ringIH N p 0 s0 H) = none := by
  have hN' : N = 3 ∨ N = 4 ∨ N = 5 ∨ N = 6 := by omega
  rcases hN' with rfl | rfl | rfl | rfl <;> simp [ringIH, List.range_succ, getTwoNewest]

/-! ## the ring after `start` wrote its first header is again a consistent ring -/

/-- a blank ring: the header goes to slot 0 with number 0 -/
theorem putHeader_blank (N p s0 : Nat) (H : Nat → Header) (h1 : Header) (hN : 3 ≤ N) (hN6 : N ≤ 6)
    (hseq : h1.seq = 0) :
    putHeader (ringIH N p 0 s0 H) 0 h1 = ringIH N 0 1 0 (fun i => if i = 0 then h1 else H i) := by
  obtain ⟨kind, seq, size, n, ext, ist, boot⟩ := h1
  simp only at hseq
  subst hseq
  have hN' : N = 3 ∨ N = 4 ∨ N = 5 ∨ N = 6 := by omega
  rcases hN' with rfl | rfl | rfl | rfl <;> simp [putHeader, ringIH, List.range_succ, Nat.add_assoc]

/-- a ring with a blank position left: the run grows by one -/
theorem putHeader_grow (N p k s0 : Nat) (H : Nat → Header) (h1 : Header) (hN : 3 ≤ N) (hN6 : N ≤ 6) (hp : p < N)
    (hk1 : 1 ≤ k) (hk : k < N) (hseq : h1.seq = (s0 + k) % 4294967295) :
    putHeader (ringIH N p k s0 H) ((p + k) % N) h1 =
      ringIH N p (k + 1) s0 (fun i => if i = (p + k) % N then h1 else H i) := by
  obtain ⟨kind, seq, size, n, ext, ist, boot⟩ := h1
  simp only at hseq
  subst hseq
  have hN' : N = 3 ∨ N = 4 ∨ N = 5 ∨ N = 6 := by omega
  rcases hN' with rfl | rfl | rfl | rfl
  · have hp' : p = 0 ∨ p = 1 ∨ p = 2 := by omega
    have hk' : k = 1 ∨ k = 2 := by omega
    rcases hp' with rfl | rfl | rfl <;> rcases hk' with rfl | rfl <;>
      simp [putHeader, ringIH, List.range_succ, Nat.add_assoc]
  · have hp' : p = 0 ∨ p = 1 ∨ p = 2 ∨ p = 3 := by omega
    have hk' : k = 1 ∨ k = 2 ∨ k = 3 := by omega
    rcases hp' with rfl | rfl | rfl | rfl <;> rcases hk' with rfl | rfl | rfl <;>
      simp [putHeader, ringIH, List.range_succ, Nat.add_assoc]
  · have hp' : p = 0 ∨ p = 1 ∨ p = 2 ∨ p = 3 ∨ p = 4 := by omega
    have hk' : k = 1 ∨ k = 2 ∨ k = 3 ∨ k = 4 := by omega
    rcases hp' with rfl | rfl | rfl | rfl | rfl <;> rcases hk' with rfl | rfl | rfl | rfl <;>
      simp [putHeader, ringIH, List.range_succ, Nat.add_assoc]
  · have hp' : p = 0 ∨ p = 1 ∨ p = 2 ∨ p = 3 ∨ p = 4 ∨ p = 5 := by omega
    have hk' : k = 1 ∨ k = 2 ∨ k = 3 ∨ k = 4 ∨ k = 5 := by omega
    rcases hp' with rfl | rfl | rfl | rfl | rfl | rfl <;> rcases hk' with rfl | rfl | rfl | rfl | rfl <;>
      simp [putHeader, ringIH, List.range_succ, Nat.add_assoc]

/-- a full ring: the oldest image is replaced, the run now starts one position later -/
theorem putHeader_full (N p s0 : Nat) (H : Nat → Header) (h1 : Header) (hN : 3 ≤ N) (hN6 : N ≤ 6) (hp : p < N)
    (hseq : h1.seq = (s0 + N) % 4294967295) :
    putHeader (ringIH N p N s0 H) p h1 =
      ringIH N ((p + 1) % N) N (s0 + 1) (fun i => if i = p then h1 else H i) := by
  obtain ⟨kind, seq, size, n, ext, ist, boot⟩ := h1
  simp only at hseq
  subst hseq
  have hN' : N = 3 ∨ N = 4 ∨ N = 5 ∨ N = 6 := by omega
  rcases hN' with rfl | rfl | rfl | rfl
  · have hp' : p = 0 ∨ p = 1 ∨ p = 2 := by omega
    rcases hp' with rfl | rfl | rfl <;>
      simp [putHeader, ringIH, List.range_succ, Nat.add_assoc]
  · have hp' : p = 0 ∨ p = 1 ∨ p = 2 ∨ p = 3 := by omega
    rcases hp' with rfl | rfl | rfl | rfl <;>
      simp [putHeader, ringIH, List.range_succ, Nat.add_assoc]
  · have hp' : p = 0 ∨ p = 1 ∨ p = 2 ∨ p = 3 ∨ p = 4 := by omega
    rcases hp' with rfl | rfl | rfl | rfl | rfl <;>
      simp [putHeader, ringIH, List.range_succ, Nat.add_assoc]
  · have hp' : p = 0 ∨ p = 1 ∨ p = 2 ∨ p = 3 ∨ p = 4 ∨ p = 5 := by omega
    rcases hp' with rfl | rfl | rfl | rfl | rfl | rfl <;>
      simp [putHeader, ringIH, List.range_succ, Nat.add_assoc]

end Fuota.Orig
