import Fuota.Lemmas.RefineTornRetry
/-!
# `try_recover_inner` after a torn program of a `handle_segment` call outside `finish`
-/
namespace Fuota.Updater
open Fuota.Nor Fuota.Fs Fuota.FlashAdapters Fuota.Recon Fuota.Layout Fuota.Gf2

/-- the invariant (with no segment required erased) on any device without injection that agrees with a lawful one
    outside the firmware slot's data region -/
theorem lawful'_of_frame_fw {E : Nat → Prop} {u : Upd} {d e : Dev} (L : Lawful' E u d) (hG : Good e)
    (hwf : WF e.flash) (hsz : e.flash.size = d.flash.size)
    (hfr : ∀ x, ¬ (fwBase u + 17408 ≤ x ∧ x < fwBase u + u.fw.size) → e.flash.byte x = d.flash.byte x) :
    Lawful' (fun _ => False) u e := by
  have g := L.geo
  obtain ⟨h1, h2, h3, h4, h5, h6, h7⟩ := g.slots
  have hms : ∀ m, msVal u e.flash m = msVal u d.flash m := by
    intro m
    by_cases hm : m < u.maxL
    · obtain ⟨q1, q2, q3, q4⟩ := g.regions.2 m hm
      apply msVal_congr
      intro x hx1 hx2
      exact hfr x (by omega)
    · simp [msVal, hm]
  refine { geo := by rw [hsz]; exact g, good := hG, wf := hwf, hl := L.hl, hl2 := L.hl2, hdone := L.hdone,
           hstat := ?_, herD := fun _ _ h => h.elim, hech := ?_, herP := ?_ }
  · intro k hk
    have hkn := L.hdone k hk
    obtain ⟨q1, q2, q3, q4⟩ := g.regions.1 k hkn
    rw [hfr _ (by omega)]
    exact L.hstat k hk
  · intro p hp
    rw [hms p]
    exact L.hech p hp
  · intro m hm hu
    obtain ⟨e1, e2⟩ := L.herP m hm hu
    obtain ⟨q1, q2, q3, q4⟩ := g.regions.2 m hm
    exact ⟨erased_congr e1 (fun x hx1 hx2 => hfr x (by omega)),
      erased_congr e2 (fun x hx1 hx2 => hfr x (by omega))⟩

/-- **recovery after an interruption that only changed bytes of the parity slot's body and no diagonal byte.**
As `recover_run_pardata`, for a device that agrees with `d` outside the whole body of the parity slot (blocks and
matrix rows) and on the diagonal byte of every row: the scan of the diagonal bytes reads the same pivots. -/
theorem recover_run_parbody (nslots : Nat) {u : Upd} {d e : Dev} {sa sb : Nat} (LH : LawfulH u d sa sb)
    (hinc : rcComplete u = false) (hG : Good e) (hsz : e.flash.size = d.flash.size)
    (hfr : ∀ x, ¬ (parBase u + 1024 ≤ x ∧ x < parBase u + u.fw.size) → e.flash.byte x = d.flash.byte x)
    (hdiag : ∀ m, m < u.maxL → e.flash.byte (diagAddr u m) = d.flash.byte (diagAddr u m))
    (hin : nslots * u.fw.size ≤ d.flash.size) (hnew : C07b.NewestPair nslots u d sa sb)
    (hoth : C07b.OthersSettled nslots u d) :
    (tryRecoverInner nslots u.fw.size).run e = (.ok (some (recovered u u.fw.size u.done)), e) ∧
    CacheOK (recovered u u.fw.size u.done) e := by
  have L := LH.law
  have g := L.base.geo
  obtain ⟨h1, h2, h3, h4, h5, h6, h7⟩ := g.slots
  have hmo := g.hmo
  have hfb : fwBase u = u.fw.idx * u.fw.size := rfl
  have hpb : parBase u = u.par.idx * u.par.size := rfl
  have ge : Geo u e.flash.size := by rw [hsz]; exact g
  have hfw' : NoPanic.hdrAt e.flash (u.fw.idx * u.fw.size) = some (fwHdr u sa) := by
    rw [← LH.hfw]
    apply hdrAt_congr
    intro x hx1 hx2
    exact hfr x (by omega)
  have hpar' : NoPanic.hdrAt e.flash (u.par.idx * u.par.size) = some (parHdr u sb) := by
    rw [← LH.hpar]
    apply hdrAt_congr
    intro x hx1 hx2
    exact hfr x (by omega)
  have hhd : NoPanic.hdrs e.flash nslots u.fw.size = NoPanic.hdrs d.flash nslots u.fw.size :=
    hdrs_frame_slot nslots u.fw.size u.par.idx (fun x hx => hfr x (by rw [hpb, h2]; omega))
  refine ⟨recover_run_core nslots ge hG L.base.hdone ?_ ?_ ?_ hfw' hpar' (by rw [hsz]; exact hin) ?_ ?_, ?_⟩
  · intro j hj
    obtain ⟨q1, q2, q3, q4⟩ := g.regions.1 j hj
    rw [hfr _ (by omega)]
    cases hd : u.done.testBit j with
    | true => simpa using L.base.hstat j hd
    | false => simpa using (L.base.herD j hj ⟨hinc, hd⟩).2
  · have hd := loadUsed_lawful L.base { idx := u.par.idx, size := u.fw.size } (u.maxL * u.bs) rfl h2.symm hmo.symm
    rw [loadUsed_run g L.base.good { idx := u.par.idx, size := u.fw.size } (u.maxL * u.bs) rfl h2.symm hmo.symm _ _ (fun i hi => List.mem_range.1 hi)] at hd
    rw [loadUsed_run ge hG { idx := u.par.idx, size := u.fw.size } (u.maxL * u.bs) rfl h2.symm hmo.symm _ _ (fun i hi => List.mem_range.1 hi)]
    have hfold : (List.range u.maxL).foldl
          (fun acc i => if e.flash.byte (diagAddr u i) ≠ 0xFF then acc ||| 2 ^ i else acc) 0 =
        (List.range u.maxL).foldl
          (fun acc i => if d.flash.byte (diagAddr u i) ≠ 0xFF then acc ||| 2 ^ i else acc) 0 := by
      apply foldl_congr_mem
      intro b a ha
      have ham := List.mem_range.1 ha
      rw [hdiag a ham]
    rw [hfold, (Prod.mk.inj hd).1]
  · intro hu
    have hl0 : u.l ≠ 0 := by
      intro h0
      apply hu
      apply Nat.eq_of_testBit_eq
      intro p
      cases hb : u.used.testBit p with
      | false => simp
      | true => have := (L.base.hech p hb).1; omega
    have := L.base.hl2 hl0
    have := pop_add_unknowns u.done u.n
    have := L.base.hl
    omega
  · show twoNewest (indexed (NoPanic.hdrs e.flash nslots u.fw.size)) = _
    rw [hhd]; exact hnew
  · show ∀ p ∈ indexed (NoPanic.hdrs e.flash nslots u.fw.size), _
    rw [hhd]; exact hoth
  · refine Or.inr ⟨rfl, ?_⟩
    have := hdrAt_size hfw'
    show sizeAt e.flash (u.fw.size * u.fw.idx + Consts.SEGSIZE_OFFSET) = u.bs
    rw [Nat.mul_comm]
    exact this


end Fuota.Updater
