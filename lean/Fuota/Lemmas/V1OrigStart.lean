import Fuota.Lemmas.V1Orig
import Fuota.Lemmas.V1NaiveStart
import Fuota.Props.C20
/-!
# `start` of the deprecated crate establishes the session invariant `OInv` (C19, original side)
-/
set_option linter.unusedSimpArgs false
namespace Fuota.V1
open Fuota.Nor Fuota.Fs Fuota.Layout Fuota.FlashAdapters Fuota.Orig Fuota.C20

/-- after one iteration of `start` the chosen slot is erased beyond its 28 header bytes -/
theorem startOne_erased (N S : Nat) (kind : Kind) (segsz segments : Nat) (d d' : Dev) (slot : Nat) (hG : Good d)
    (hb0 : 0 < d.flash.block) (hdiv : S % d.flash.block = 0) (hS : 28 ≤ S) (hsz : N * S ≤ d.flash.size)
    (o : List IH) (next : Nat) (ho : orderHeaders (hdrsOf d.flash S (List.range N)) = some o)
    (hplan : planOne o = some (slot, next)) (hslot : slot < N)
    (hrun : (startOne N S kind segsz segments).run d = (.ok slot, d')) :
    ∀ x, slot * S + 28 ≤ x → x < slot * S + S → d'.flash.byte x = 0xFF := by
  have hin : slot * S + S ≤ d.flash.size := by
    have : (slot + 1) * S ≤ N * S := Nat.mul_le_mul_right S (by omega)
    rw [Nat.add_mul, Nat.one_mul] at this; omega
  obtain ⟨d1, hrun1, hk1, hff, _⟩ := eraseSlot_run S slot d hG hb0 hdiv hin
  have hlen : (encodeHeader Orig.C (Header.mk kind next segsz segments .inProgress .inProgress .untested)).length = 28 :=
    C11.encode_length _ _
  unfold startOne at hrun
  rw [run_bind, getOrderedHeaders_run N S d hG (by omega) hS hsz o ho] at hrun
  simp only [hplan] at hrun
  rw [run_bind, hrun1] at hrun
  simp only at hrun
  rw [run_bind, writeFrom_run hk1.good _ _ (by rw [hlen, hk1.size]; omega)] at hrun
  have hd' := congrArg Prod.snd hrun
  simp only [run_pure] at hd'
  intro x h1 h2
  rw [← hd', Dev.prog_flash, byte_apply_program_of_not_mem _ _ _ _ (by rw [hlen]; omega)]
  exact hff x (by omega) h2

/-- the abstract state of a fresh original-crate session -/
def origInit (cfg : Orig.Cfg) (n : Nat) : Abs :=
  Abs.mk n 16384 (fun p => Lfdbt.getParityMatrixRowOrig cfg.ffr ((p + 1) % 2 ^ 32) n) 0 0

/-- the number of coded fragments that fit the parity slot -/
def origCap (S sz : Nat) : Nat := min ((S - 17408) / sz) 16384

theorem fresh_oview (base : Nat) (f : Flash) (seg cnt cap S : Nat) (val : Nat → List Nat) (hcnt : 1024 + cnt ≤ S)
    (hfit : 17408 + cap * seg ≤ S) (her : ∀ x, base + 28 ≤ x → x < base + S → f.byte x = 0xFF) :
    OView base f seg cnt cap 0 val := by
  refine ⟨?_, fun j _ => by simp, fun i _ hb => by simp at hb, ?_⟩
  · intro j hj
    rw [her _ (by omega) (by omega)]
    simp
  · intro i hi _ x hx1 hx2
    have := cap_fit hi hfit
    exact her x (by omega) (by omega)

set_option maxRecDepth 10000 in
/-- **`start` of the original crate establishes the session invariant** on every consistent ring device, with empty
    masks, for every image `D` of `n` fragments of `sz` bytes -/
theorem orig_start_establishes (cfg : Orig.Cfg) (N S p k s0 : Nat) (H : Nat → Header) (sz n : Nat) (d : Dev)
    (D : Nat → List Nat) (hN : 3 ≤ N) (hN6 : N ≤ 6) (hp : p < N) (hk : k ≤ N)
    (hG : Good d) (hwf : WF d.flash) (hb0 : 0 < d.flash.block) (hdiv : S % d.flash.block = 0)
    (hsz : N * S ≤ d.flash.size) (hring : hdrsOf d.flash S (List.range N) = ringIH N p k s0 H)
    (hgeo : Orig.reasonablySized S sz n = .ok ())
    (hrows : ∀ q, q < origCap S sz → (Lfdbt.getParityMatrixRowOrig cfg.ffr ((q + 1) % 2 ^ 32) n).isSome = true)
    (hDl : ∀ i, i < n → (D i).length = sz) (hDb : ∀ i, i < n → Updater.IsBytes (D i)) :
    ∃ act d', (Orig.start N S sz n).run d = (.ok act, d') ∧ OInv cfg act d' (origInit cfg n) (origCap S sz) D sz := by
  obtain ⟨z1, z2, n1, n2, hS⟩ := reasonable_ok_facts hgeo
  have hprod : sz * n ≤ S - 17408 := by
    unfold Orig.reasonablySized Orig.maxDataSize at hgeo
    simp only [show Orig.MAX_SEGMENT_SIZE = 256 from rfl, show Orig.MAX_SEGMENTS = 16384 from rfl,
      show Orig.HEADER_SIZE = 1024 from rfl] at hgeo
    have h1 : ¬ (sz = 0 ∨ sz > 256) := by omega
    have h2 : ¬ (n = 0 ∨ n > 16384) := by omega
    simp only [h1, h2, ↓reduceIte] at hgeo
    by_cases h3 : S - 1024 - 16384 ≥ 2 ^ 32
    · simp [h3] at hgeo
    · simp only [h3, ↓reduceIte] at hgeo
      by_cases h4 : sz * n ≥ 2 ^ 32
      · simp [h4] at hgeo
      · simp only [h4, ↓reduceIte] at hgeo
        by_cases h5 : sz * n > S - 1024 - 16384
        · simp [h5] at hgeo
        · omega
  have hcap1 : origCap S sz ≤ 16384 := Nat.min_le_right _ _
  have hcapfit : origCap S sz * sz ≤ S - 17408 := by
    have h1 : origCap S sz ≤ (S - 17408) / sz := Nat.min_le_left _ _
    have h2 : (S - 17408) / sz * sz ≤ S - 17408 := Nat.div_mul_le_self _ _
    exact Nat.le_trans (Nat.mul_le_mul_right sz h1) h2
  generalize origCap S sz = cap at *
  have hfs : firstSlot N p k < N := firstSlot_lt N p k (by omega)
  have hfq := firstSeq_lt k s0
  obtain ⟨hne, hps⟩ := succ_mod_ne N (firstSlot N p k) hN hfs
  have hplan1 := plan_first N p k s0 H hN hN6 hp hk
  rw [← hring] at hplan1
  cases ho : orderHeaders (hdrsOf d.flash S (List.range N)) with
  | none => rw [ho] at hplan1; cases hplan1
  | some o =>
    rw [ho] at hplan1
    have hplan : planOne o = some (firstSlot N p k, firstSeq k s0) := hplan1
    obtain ⟨d1, hrun1, hk1, hh1, hfr1, hat1, hoth1⟩ := startOne_run N S .firmware sz n d hG hwf hb0 hdiv
      (by omega) hsz o _ _ ho hplan hfs (newHdr_wf _ _ _ _ hfq z1 z2 n1 n2)
    have her1 := startOne_erased N S .firmware sz n d d1 _ hG hb0 hdiv (by omega) hsz o _ ho hplan hfs hrun1
    rw [hring] at hh1
    have hseq1 : (newHdr .firmware (firstSeq k s0) sz n).seq = firstSeq k s0 := by simp only [newHdr]
    obtain ⟨_, hplan2, _, _⟩ :=
      start_places_partial N p k s0 H (newHdr .firmware (firstSeq k s0) sz n) hN hN6 hp hk hseq1
    rw [← hh1] at hplan2
    cases ho2 : orderHeaders (hdrsOf d1.flash S (List.range N)) with
    | none => rw [ho2] at hplan2; cases hplan2
    | some o2 =>
      rw [ho2] at hplan2
      have hplan2' : planOne o2 = some ((firstSlot N p k + 1) % N, nextSeq (firstSeq k s0)) := hplan2
      obtain ⟨d2, hrun2, hk2, hh2, hfr2, hat2, hoth2⟩ := startOne_run N S .parity sz 16384 d1 hk1.good (hk1.wf hwf)
        (by rw [hk1.block]; exact hb0) (by rw [hk1.block]; exact hdiv) (by omega) (by rw [hk1.size]; exact hsz)
        o2 _ _ ho2 hplan2' hps (newHdr_wf _ _ _ _ (nextSeq_lt _) z1 z2 (by omega) (by omega))
      have her2 := startOne_erased N S .parity sz 16384 d1 d2 _ hk1.good (by rw [hk1.block]; exact hb0)
        (by rw [hk1.block]; exact hdiv) (by omega) (by rw [hk1.size]; exact hsz) o2 _ ho2 hplan2' hps hrun2
      have hslotin : ∀ i, i < N → i * S + S ≤ d2.flash.size := by
        intro i hi
        have : (i + 1) * S ≤ N * S := Nat.mul_le_mul_right S (by omega)
        rw [Nat.add_mul, Nat.one_mul] at this
        rw [hk2.size, hk1.size]; omega
      have hap : firstSlot N p k * S + S ≤ (firstSlot N p k + 1) % N * S ∨
          (firstSlot N p k + 1) % N * S + S ≤ firstSlot N p k * S :=
        Updater.seg_disjoint S (fun e => hne e.symm)
      refine ⟨{ slotSize := S, segSize := sz, fwIdx := firstSlot N p k, totalFw := n, remFw := n,
                parIdx := (firstSlot N p k + 1) % N, totalPar := Orig.MAX_SEGMENTS, remPar := Orig.MAX_SEGMENTS },
        d2, ?_, ?_⟩
      · have hrun2' : (startOne N S .parity sz Orig.MAX_SEGMENTS).run d1 = (.ok ((firstSlot N p k + 1) % N), d2) :=
          hrun2
        unfold Orig.start
        simp only [hgeo, run_bind, run_pure, hrun1, hrun2']
      · have hfitA : 17408 + n * sz ≤ S := by rw [Nat.mul_comm]; omega
        have hfitB : 17408 + cap * sz ≤ S := by omega
        refine ⟨hk2.good, hk2.wf (hk1.wf hwf), ?_, rfl, rfl, hrows, ?_, ?_, ?_, ?_, hDl, hDb⟩
        · exact ⟨fun e => hne e.symm, hslotin _ hfs, hslotin _ hps, rfl, z1, z2, n2, hcap1, hfitA, hfitB, rfl, rfl⟩
        · apply fresh_oview _ _ sz n n S _ (by omega) hfitA
          intro x h1 h2
          simp only at h1 h2
          have hx : x < (firstSlot N p k + 1) % N * S ∨ (firstSlot N p k + 1) % N * S + S ≤ x := by omega
          rw [hfr2 x hx]
          exact her1 x h1 h2
        · exact fresh_oview _ _ sz 16384 cap S _ (by omega) hfitB her2
        · show n = n - countBits 0 n
          rw [countBits_zero_mask]; rfl
        · show Orig.MAX_SEGMENTS = 16384 - countBits 0 16384
          rw [countBits_zero_mask]; rfl

end Fuota.V1
