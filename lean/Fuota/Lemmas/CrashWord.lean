import Fuota.Lemmas.CrashRead
import Fuota.Lemmas.OpsSlot
/-!
# What one flash operation does to the header words and to the validity of a slot

`word f a`: the little-endian word at `a`. A slot is *sealed* when its kind word is the firmware code and its
external-status word is the Complete code; its *content* is good when, for whatever its size and count words parse
to, the image fits the slot, the reads of `crc_valid` are inside the device and the stored CRC matches.
`SafeW` = sealed → content good. This is independent of the sequence-number, internal-status and boot words, so
programming those can never make a bad slot look validated.
-/
namespace Fuota.Crash
open Fuota.Nor Fuota.Fs Fuota.Layout Fuota.Ops Fuota.C14

/-! ## bytes and words under one operation -/

def word (f : Flash) (a : Nat) : Nat :=
  Layout.le32 (f.byte a) (f.byte (a + 1)) (f.byte (a + 2)) (f.byte (a + 3))

/-- byte `x` lies in the range of `op` (an erase covers `B` bytes) -/
def Touches (B : Nat) : Op → Nat → Prop
  | .erase a, x => a ≤ x ∧ x < a + B
  | .program a bs, x => a ≤ x ∧ x < a + bs.length

theorem byte_apply_untouched (f : Flash) (op : Op) (x : Nat) (h : ¬ Touches f.block op x) :
    (f.apply op).byte x = f.byte x := by
  by_cases hx : x < f.size
  · cases op with
    | erase a => exact apply_byte_other f (.erase a) x hx h
    | program a bs => exact apply_byte_other f (.program a bs) x hx h
  · rw [byte_oob _ _ (by rw [apply_size]; omega), byte_oob _ _ (by omega)]

theorem byte_erase (f : Flash) (a x : Nat) :
    (f.apply (.erase a)).byte x = if a ≤ x ∧ x < a + f.block then 0xFF else f.byte x :=
  fillFF_getD f.mem a f.block x

/-- a programmed byte inside the device: old AND new -/
theorem byte_program (f : Flash) (a : Nat) (bs : List Nat) (x : Nat) (hx : x < f.size)
    (hr : a ≤ x ∧ x < a + bs.length) : (f.apply (.program a bs)).byte x = f.byte x &&& bs.getD (x - a) 0 := by
  show (programBytes f.mem a bs).getD x 0xFF = _
  rw [programBytes_getD _ _ _ _ hx]
  simp only [hr, and_self, ↓reduceIte]
  rfl

theorem word_apply_untouched (f : Flash) (op : Op) (a : Nat) (h : ∀ j, j < 4 → ¬ Touches f.block op (a + j)) :
    word (f.apply op) a = word f a := by
  unfold word
  rw [byte_apply_untouched f op a (h 0 (by omega)), byte_apply_untouched f op (a + 1) (h 1 (by omega)),
    byte_apply_untouched f op (a + 2) (h 2 (by omega)), byte_apply_untouched f op (a + 3) (h 3 (by omega))]

theorem read_congr (f f' : Flash) (a len : Nat) (h : ∀ j, j < len → f'.byte (a + j) = f.byte (a + j)) :
    f'.read a len = f.read a len := by
  unfold Flash.read
  apply List.map_congr_left
  intro j hj
  exact h j (List.mem_range.1 hj)

theorem le32_inj (a0 a1 a2 a3 b0 b1 b2 b3 : Nat) (ha : a0 < 256 ∧ a1 < 256 ∧ a2 < 256 ∧ a3 < 256)
    (hb : b0 < 256 ∧ b1 < 256 ∧ b2 < 256 ∧ b3 < 256) (h : Layout.le32 a0 a1 a2 a3 = Layout.le32 b0 b1 b2 b3) :
    a0 = b0 ∧ a1 = b1 ∧ a2 = b2 ∧ a3 = b3 := by
  unfold Layout.le32 at h
  omega

/-! ## the invariant -/

/-- kind word = firmware code and external-status word = Complete code -/
def Sealed (f : Flash) (s i : Nat) : Prop := word f (i * s) = 0 ∧ word f (i * s + 16) = 0x44444444

/-- whatever the size and count words parse to: the image fits the slot and passes `crc_valid` -/
def Content (f : Flash) (s i : Nat) : Prop :=
  ∀ sz n, parseSize Codec.new (word f (i * s + 8)) = some sz → parseNseg Codec.new (word f (i * s + 12)) = some n →
    sz * n ≤ s - 17408 ∧ InRange f (i * s) sz n ∧ CrcOk f (i * s) sz n

def SafeW (f : Flash) (s i : Nat) : Prop := Sealed f s i → Content f s i

/-- **the crash invariant**: well-formed flash, and every sealed slot of the ring has good content -/
structure CVW (nslots s B : Nat) (f : Flash) : Prop where
  wf : WF f
  block : f.block = B
  safe : ∀ i, i < nslots → SafeW f s i

/-- the seven words of the header of the slot at `base` -/
theorem words7_read (f : Flash) (base : Nat) :
    words7 (f.read base 28) = some ((word f base, word f (base + 4), word f (base + 8), word f (base + 12),
      word f (base + 16), word f (base + 20), word f (base + 24)), []) := rfl

/-- a header parse, word by word -/
theorem parse_words (f : Flash) (base : Nat) (hd : Header) (rest : List Nat)
    (h : parseHeader Codec.new (f.read base 28) = some (hd, rest)) :
    parseKind Codec.new (word f base) = some hd.kind ∧ parseSeq Codec.new (word f (base + 4)) = some hd.seq ∧
    parseSize Codec.new (word f (base + 8)) = some hd.size ∧ parseNseg Codec.new (word f (base + 12)) = some hd.n ∧
    parseExt Codec.new (word f (base + 16)) = some hd.ext ∧ parseInt Codec.new (word f (base + 20)) = some hd.ist ∧
    parseBoot Codec.new (word f (base + 24)) = some hd.boot := by
  obtain ⟨w0, w1, w2, w3, w4, w5, w6, hw, h0, h1, h2, h3, h4, h5, h6⟩ := (C11.parseHeader_eq_some _ _ _ _).1 h
  rw [words7_read] at hw
  cases hw
  exact ⟨h0, h1, h2, h3, h4, h5, h6⟩

theorem sealed_of_parse (f : Flash) (s i : Nat) (hd : Header) (rest : List Nat)
    (h : parseHeader Codec.new (f.read (i * s) 28) = some (hd, rest)) (hk : hd.kind = .firmware)
    (he : hd.ext = .complete) : Sealed f s i := by
  obtain ⟨h0, _, _, _, h4, _, _⟩ := parse_words f _ hd rest h
  rw [hk] at h0
  rw [he] at h4
  exact ⟨(C11.parseKind_some _ _ _ h0).symm, (C11.parseExt_some _ _ _ h4).symm⟩

/-- **`CVW` gives the invariant in the form of the property**: a header that parses as a completed firmware
    belongs to a slot that passes `is_valid_firmware` -/
theorem CVW.completeValid {nslots s B : Nat} {f : Flash} (h : CVW nslots s B f) (i : Nat) (hi : i < nslots)
    (hd : Header) (rest : List Nat) (hp : parseHeader Codec.new (f.read (i * s) 28) = some (hd, rest))
    (hk : hd.kind = .firmware) (he : hd.ext = .complete) : (Firmware.isValidFirmware f s i).1 = .ok := by
  have hc := h.safe i hi (sealed_of_parse f s i hd rest hp hk he)
  obtain ⟨_, _, h2, h3, _⟩ := parse_words f _ hd rest hp
  obtain ⟨_, hin, hcrc⟩ := hc hd.size hd.n h2 h3
  exact (valid_iff f s i).2 ⟨hd, rest, hp, hk, he, hin, hcrc⟩

/-! ## transfer between two flashes -/

theorem content_transfer (f f' : Flash) (s i : Nat) (hs : 17412 ≤ s) (hsize : f'.size = f.size)
    (h8 : word f' (i * s + 8) = word f (i * s + 8)) (h12 : word f' (i * s + 12) = word f (i * s + 12))
    (hdata : ∀ x, i * s + 17408 ≤ x → x < i * s + s → f'.byte x = f.byte x) (hc : Content f s i) :
    Content f' s i := by
  intro sz n hsz hn
  rw [h8] at hsz
  rw [h12] at hn
  obtain ⟨hfit, hin, hcrc⟩ := hc sz n hsz hn
  refine ⟨hfit, ?_, ?_⟩
  · unfold InRange at *
    rw [hsize]; exact hin
  · unfold CrcOk storedCrc covered at *
    rw [hdata _ (by omega) (by omega), hdata _ (by omega) (by omega), hdata _ (by omega) (by omega),
      hdata _ (by omega) (by omega)]
    rw [hcrc]
    congr 1
    apply read_congr
    intro j hj
    have : n * sz = sz * n := Nat.mul_comm _ _
    exact (hdata (i * s + 0x4400 + 68 + j) (by omega) (by omega)).symm

theorem safeW_transfer (f f' : Flash) (s i : Nat) (hs : 17412 ≤ s) (hsize : f'.size = f.size)
    (h0 : word f' (i * s) = word f (i * s)) (h16 : word f' (i * s + 16) = word f (i * s + 16))
    (h8 : word f' (i * s + 8) = word f (i * s + 8)) (h12 : word f' (i * s + 12) = word f (i * s + 12))
    (hdata : ∀ x, i * s + 17408 ≤ x → x < i * s + s → f'.byte x = f.byte x) (hc : SafeW f s i) :
    SafeW f' s i := by
  intro hseal
  apply content_transfer f f' s i hs hsize h8 h12 hdata
  apply hc
  unfold Sealed at *
  rw [← h0, ← h16]; exact hseal

theorem slots_apart {i j : Nat} (s : Nat) (h : i ≠ j) : i * s + s ≤ j * s ∨ j * s + s ≤ i * s := by
  rcases Nat.lt_or_gt_of_ne h with h | h
  · left
    have := Nat.mul_le_mul_right s (show i + 1 ≤ j from h)
    rw [Nat.succ_mul] at this; exact this
  · right
    have := Nat.mul_le_mul_right s (show j + 1 ≤ i from h)
    rw [Nat.succ_mul] at this; exact this

theorem touches_inSlot {B s i : Nat} {op : Op} (h : InSlot B s i op) (x : Nat) (hx : Touches B op x) :
    i * s ≤ x ∧ x < i * s + s := by
  cases op with
  | erase a => obtain ⟨h1, h2⟩ := h; obtain ⟨h3, h4⟩ := hx; omega
  | program a bs => obtain ⟨h1, h2⟩ := h; obtain ⟨h3, h4⟩ := hx; omega

/-- **frame**: an operation inside slot `i` leaves every other slot exactly as safe as it was -/
theorem safeW_frame (f : Flash) (s i j : Nat) (op : Op) (hs : 17412 ≤ s) (hin : InSlot f.block s i op)
    (hij : j ≠ i) (hc : SafeW f s j) : SafeW (f.apply op) s j := by
  have hout : ∀ x, j * s ≤ x → x < j * s + s → ¬ Touches f.block op x := by
    intro x h1 h2 ht
    have := touches_inSlot hin x ht
    have := slots_apart s hij
    omega
  apply safeW_transfer f _ s j hs (apply_size _ _)
  · exact word_apply_untouched _ _ _ (fun k hk => hout _ (by omega) (by omega))
  · exact word_apply_untouched _ _ _ (fun k hk => hout _ (by omega) (by omega))
  · exact word_apply_untouched _ _ _ (fun k hk => hout _ (by omega) (by omega))
  · exact word_apply_untouched _ _ _ (fun k hk => hout _ (by omega) (by omega))
  · exact fun x h1 h2 => byte_apply_untouched _ _ _ (hout x (by omega) h2)
  · exact hc

/-- an operation inside slot `i` preserves the invariant as soon as slot `i` itself is safe afterwards -/
theorem CVW.step {nslots s B : Nat} {f : Flash} (h : CVW nslots s B f) (hs : 17412 ≤ s) (i : Nat) (op : Op)
    (hin : InSlot B s i op) (hi : i < nslots → SafeW (f.apply op) s i) : CVW nslots s B (f.apply op) := by
  refine ⟨h.wf.apply op, by rw [apply_block]; exact h.block, ?_⟩
  intro j hj
  by_cases hji : j = i
  · subst hji; exact hi hj
  · exact safeW_frame f s i j op hs (by rw [h.block]; exact hin) hji (h.safe j hj)

/-! ## ways for a slot to be unsealed -/

/-- every byte of the external-status word has the bits of `0xAA` (true of In-progress `FF…` and Aborted `AA…`,
    false of Complete `44…`) -/
def ExtSup (f : Flash) (base : Nat) : Prop := ∀ j, j < 4 → f.byte (base + 16 + j) &&& 0xAA = 0xAA

/-- the external-status word is erased -/
def ExtFF (f : Flash) (base : Nat) : Prop := ∀ j, j < 4 → f.byte (base + 16 + j) = 0xFF

/-- the whole 28-byte header is erased -/
def HdrFF (f : Flash) (base : Nat) : Prop := ∀ j, j < 28 → f.byte (base + j) = 0xFF

theorem HdrFF.ext {f : Flash} {base : Nat} (h : HdrFF f base) : ExtFF f base := by
  intro j hj
  have := h (16 + j) (by omega)
  rw [← Nat.add_assoc] at this
  exact this

theorem hdrFF_erase {f : Flash} {base : Nat} (a : Nat) (h : HdrFF f base) : HdrFF (f.apply (.erase a)) base := by
  intro j hj
  rw [byte_erase]
  split
  · rfl
  · exact h j hj

theorem hdrFF_erase_first {f : Flash} (base : Nat) (hB : 28 ≤ f.block) : HdrFF (f.apply (.erase base)) base := by
  intro j hj
  rw [byte_erase]
  have : base ≤ base + j ∧ base + j < base + f.block := by omega
  simp only [this, and_self, ↓reduceIte]

theorem ExtFF.sup {f : Flash} {base : Nat} (h : ExtFF f base) : ExtSup f base := by
  intro j hj; rw [h j hj]; decide

theorem not_sealed_of_extSup {f : Flash} {s i : Nat} (hwf : WF f) (h : ExtSup f (i * s)) : ¬ Sealed f s i := by
  rintro ⟨_, h16⟩
  unfold word at h16
  have h0 := h 0 (by omega)
  have := le32_inj _ _ _ _ 0x44 0x44 0x44 0x44 ⟨hwf _, hwf _, hwf _, hwf _⟩ (by decide) h16
  rw [Nat.add_zero, this.1] at h0
  revert h0; decide

theorem safeW_of_extSup {f : Flash} {s i : Nat} (hwf : WF f) (h : ExtSup f (i * s)) : SafeW f s i :=
  fun hs => absurd hs (not_sealed_of_extSup hwf h)

theorem safeW_of_kind {f : Flash} {s i : Nat} (h : word f (i * s) ≠ 0) : SafeW f s i :=
  fun hs => absurd hs.1 h

/-- an external-status word that parses as In-progress is erased -/
theorem extFF_of_parse {f : Flash} (hwf : WF f) (base : Nat)
    (h : parseExt Codec.new (word f (base + 16)) = some .inProgress) : ExtFF f base := by
  have hw := (C11.parseExt_some _ _ _ h).symm
  unfold word at hw
  have := le32_inj _ _ _ _ 0xFF 0xFF 0xFF 0xFF ⟨hwf _, hwf _, hwf _, hwf _⟩ (by decide) hw
  intro j hj
  rcases j with _ | _ | _ | _ | j
  · exact this.1
  · exact this.2.1
  · exact this.2.2.1
  · exact this.2.2.2
  · omega

/-! ## effect of operations on the external-status bytes -/

theorem extFF_erase {f : Flash} {base : Nat} (a : Nat) (h : ExtFF f base) : ExtFF (f.apply (.erase a)) base := by
  intro j hj
  rw [byte_erase]
  split
  · rfl
  · exact h j hj

/-- erasing the first block of a slot (at least 28 bytes) erases the external-status word -/
theorem extFF_erase_first {f : Flash} (base : Nat) (hB : 28 ≤ f.block) : ExtFF (f.apply (.erase base)) base := by
  intro j hj
  rw [byte_erase]
  have : base ≤ base + 16 + j ∧ base + 16 + j < base + f.block := by omega
  simp only [this, and_self, ↓reduceIte]

theorem extFF_untouched {f : Flash} {base : Nat} (op : Op) (h : ExtFF f base)
    (hu : ∀ j, j < 4 → ¬ Touches f.block op (base + 16 + j)) : ExtFF (f.apply op) base := by
  intro j hj
  rw [byte_apply_untouched _ _ _ (hu j hj)]
  exact h j hj

theorem extSup_untouched {f : Flash} {base : Nat} (op : Op) (h : ExtSup f base)
    (hu : ∀ j, j < 4 → ¬ Touches f.block op (base + 16 + j)) : ExtSup (f.apply op) base := by
  intro j hj
  rw [byte_apply_untouched _ _ _ (hu j hj)]
  exact h j hj

theorem extSup_erase {f : Flash} {base : Nat} (a : Nat) (h : ExtSup f base) : ExtSup (f.apply (.erase a)) base := by
  intro j hj
  rw [byte_erase]
  split
  · decide
  · exact h j hj

theorem and_sup (x e m : Nat) (hx : x &&& m = m) (he : e &&& m = m) : (x &&& e) &&& m = m := by
  rw [Nat.and_assoc, he, hx]

theorem or_sup (b k m : Nat) (hb : b &&& m = m) : (b ||| k) &&& m = m := by
  apply Nat.eq_of_testBit_eq
  intro i
  have := congrArg (fun v => v.testBit i) hb
  simp only [Nat.testBit_and, Nat.testBit_or] at this ⊢
  cases hbi : b.testBit i <;> cases hk : k.testBit i <;> cases hm : m.testBit i <;> simp_all

/-- every byte of the data has the bits of `0xAA` -/
def SupAA (bs : List Nat) : Prop := ∀ j, bs.getD j 0xFF &&& 0xAA = 0xAA

theorem getD_ff (bs : List Nat) (j : Nat) (hj : j < bs.length) : bs.getD j 0 = bs.getD j 0xFF := by
  simp [List.getD_eq_getElem?_getD, hj]

/-- programming data whose bytes all have the bits of `0xAA` (the Aborted word, whole or torn) keeps `ExtSup` -/
theorem extSup_program {f : Flash} {base : Nat} (a : Nat) (bs : List Nat) (h : ExtSup f base) (hbs : SupAA bs) :
    ExtSup (f.apply (.program a bs)) base := by
  intro j hj
  by_cases ht : Touches f.block (.program a bs) (base + 16 + j)
  · by_cases hx : base + 16 + j < f.size
    · rw [byte_program f a bs _ hx ht, getD_ff _ _ (by obtain ⟨h1, h2⟩ := ht; omega)]
      exact and_sup _ _ _ (h j hj) (hbs _)
    · rw [byte_oob _ _ (by rw [apply_size]; omega)]; decide
  · rw [byte_apply_untouched _ _ _ ht]; exact h j hj

theorem supAA_tear (p keep a : Nat) (bs : List Nat) (h : SupAA bs) :
    ∃ bs', tear p keep (.program a bs) = .program a bs' ∧ SupAA bs' := by
  refine ⟨_, rfl, ?_⟩
  intro j
  rcases hp : bs[p]? with _ | b
  · simp only [List.append_nil]
    by_cases hj : j < (bs.take p).length
    · rw [List.getD_eq_getElem?_getD, List.getElem?_take]
      have : j < p := by rw [List.length_take] at hj; omega
      simp only [this, ↓reduceIte]
      rw [← List.getD_eq_getElem?_getD]; exact h j
    · rw [List.getD_eq_getElem?_getD, List.getElem?_eq_none (by omega)]; decide
  · have hpl : p < bs.length := by
      rcases Nat.lt_or_ge p bs.length with h' | h'
      · exact h'
      · rw [List.getElem?_eq_none h'] at hp; cases hp
    have hb : b = bs.getD p 0xFF := by simp [List.getD_eq_getElem?_getD, hp]
    have hlen : (bs.take p).length = p := by rw [List.length_take]; omega
    rw [List.getD_eq_getElem?_getD]
    rcases Nat.lt_trichotomy j p with hj | hj | hj
    · rw [List.getElem?_append_left (by omega), List.getElem?_take]
      simp only [hj, ↓reduceIte]
      rw [← List.getD_eq_getElem?_getD]; exact h j
    · subst hj
      rw [List.getElem?_append_right (by omega), hlen, Nat.sub_self]
      show (b ||| keep) &&& 0xAA = 0xAA
      rw [hb]; exact or_sup _ _ _ (h j)
    · rw [List.getElem?_eq_none (by simp only [List.length_append, List.length_cons, List.length_nil]; omega)]
      decide

end Fuota.Crash
