import Fuota.Model.Naive
/-!
# XOR algebra of the single-erasure repair (C19 `repair_exact`)

`xorFold keep frag is acc` is the value the XOR loop of `repair_step` computes: every index of `is` selected by
`keep` is read (`frag i`) and folded into `acc` with `xorBytes`.  The coded fragment of a row is the same fold
over all covered indices starting from zeros.  Folding the coded fragment once more over all covered indices
but one leaves exactly that one.
-/
namespace Fuota.V1

theorem xorBytes_length (a b : List Nat) (h : a.length = b.length) : (xorBytes a b).length = a.length := by
  induction a generalizing b with
  | nil => cases b <;> simp [xorBytes]
  | cons x xs ih =>
    cases b with
    | nil => simp at h
    | cons y ys => simp [xorBytes, ih ys (by simpa using h)]

theorem xorBytes_cancel (a b : List Nat) (h : a.length = b.length) : xorBytes (xorBytes a b) b = a := by
  induction a generalizing b with
  | nil => cases b <;> simp [xorBytes]
  | cons x xs ih =>
    cases b with
    | nil => simp at h
    | cons y ys =>
      simp only [xorBytes, ih ys (by simpa using h), List.cons.injEq, and_true]
      rw [Nat.xor_assoc, Nat.xor_self, Nat.xor_zero]

theorem xorBytes_right_comm (a b c : List Nat) (hb : a.length = b.length) (hc : a.length = c.length) :
    xorBytes (xorBytes a b) c = xorBytes (xorBytes a c) b := by
  induction a generalizing b c with
  | nil => cases b <;> cases c <;> simp [xorBytes]
  | cons x xs ih =>
    cases b with
    | nil => simp at hb
    | cons y ys =>
      cases c with
      | nil => simp at hc
      | cons z zs =>
        simp only [xorBytes, ih ys zs (by simpa using hb) (by simpa using hc), List.cons.injEq, and_true]
        rw [Nat.xor_assoc, Nat.xor_comm y z, ← Nat.xor_assoc]

theorem xorBytes_zeros (b : List Nat) : xorBytes (List.replicate b.length 0) b = b := by
  induction b with
  | nil => simp [xorBytes]
  | cons y ys ih => simp [List.replicate_succ, xorBytes, ih]

/-- the pure value of the XOR loop -/
def xorFold (keep : Nat → Bool) (frag : Nat → List Nat) : List Nat → List Nat → List Nat
  | [], acc => acc
  | i :: is, acc => if keep i then xorFold keep frag is (xorBytes acc (frag i)) else xorFold keep frag is acc

theorem xorFold_length (keep : Nat → Bool) (frag : Nat → List Nat) (sz : Nat) (is : List Nat) (acc : List Nat)
    (hf : ∀ i ∈ is, (frag i).length = sz) (ha : acc.length = sz) : (xorFold keep frag is acc).length = sz := by
  induction is generalizing acc with
  | nil => simpa [xorFold] using ha
  | cons i is ih =>
    have hi : (frag i).length = sz := hf i (by simp)
    have hr : ∀ j ∈ is, (frag j).length = sz := fun j hj => hf j (by simp [hj])
    unfold xorFold
    split
    · exact ih _ hr (by rw [xorBytes_length _ _ (by omega)]; exact ha)
    · exact ih _ hr ha

/-- linearity in the accumulator -/
theorem xorFold_xor (keep : Nat → Bool) (frag : Nat → List Nat) (sz : Nat) (is : List Nat) (acc x : List Nat)
    (hf : ∀ i ∈ is, (frag i).length = sz) (ha : acc.length = sz) (hx : x.length = sz) :
    xorFold keep frag is (xorBytes acc x) = xorBytes (xorFold keep frag is acc) x := by
  induction is generalizing acc with
  | nil => simp [xorFold]
  | cons i is ih =>
    have hi : (frag i).length = sz := hf i (by simp)
    have hr : ∀ j ∈ is, (frag j).length = sz := fun j hj => hf j (by simp [hj])
    unfold xorFold
    split
    · rw [xorBytes_right_comm acc x (frag i) (by omega) (by omega)]
      exact ih _ hr (by rw [xorBytes_length _ _ (by omega)]; exact ha)
    · exact ih _ hr ha

/-- the fold only looks at the fragments it keeps -/
theorem xorFold_congr (keep : Nat → Bool) (f g : Nat → List Nat) (is acc : List Nat)
    (h : ∀ i ∈ is, keep i = true → f i = g i) : xorFold keep f is acc = xorFold keep g is acc := by
  induction is generalizing acc with
  | nil => rfl
  | cons i is ih =>
    have hr : ∀ j ∈ is, keep j = true → f j = g j := fun j hj => h j (by simp [hj])
    unfold xorFold
    split
    · rename_i hk
      rw [h i (by simp) hk]; exact ih _ hr
    · exact ih _ hr

/-- folding the covered fragments, then all of them but `m` again, adds exactly fragment `m` (if it is covered and
    occurs in the index list) -/
theorem xorFold_twice (row m : Nat) (D : Nat → List Nat) (sz : Nat) (is : List Nat) (acc : List Nat)
    (hnd : is.Nodup) (hf : ∀ i ∈ is, (D i).length = sz) (ha : acc.length = sz) :
    xorFold (fun i => decide (i ≠ m) && row.testBit i) D is (xorFold (fun i => row.testBit i) D is acc) =
      if m ∈ is ∧ row.testBit m = true then xorBytes acc (D m) else acc := by
  induction is generalizing acc with
  | nil => simp [xorFold]
  | cons i is ih =>
    have hi : (D i).length = sz := hf i (by simp)
    have hr : ∀ j ∈ is, (D j).length = sz := fun j hj => hf j (by simp [hj])
    have hnd' : is.Nodup := (List.nodup_cons.mp hnd).2
    have hni : i ∉ is := (List.nodup_cons.mp hnd).1
    by_cases hb : row.testBit i = true
    · -- covered
      have inner : xorFold (fun i => row.testBit i) D (i :: is) acc =
          xorBytes (xorFold (fun i => row.testBit i) D is acc) (D i) := by
        conv => lhs; unfold xorFold
        simp only [hb, ↓reduceIte]
        exact xorFold_xor _ _ sz is acc (D i) hr ha hi
      have hlen : (xorFold (fun i => row.testBit i) D is acc).length = sz := xorFold_length _ _ sz is acc hr ha
      rw [inner]
      by_cases him : i = m
      · subst him
        conv => lhs; unfold xorFold
        simp only [ne_eq, not_true_eq_false, decide_false, Bool.false_and, Bool.false_eq_true, ↓reduceIte]
        rw [xorFold_xor _ _ sz is _ (D i) hr hlen hi, ih acc hnd' hr ha]
        simp [hni, hb]
      · conv => lhs; unfold xorFold
        simp only [ne_eq, him, not_false_eq_true, decide_true, hb, Bool.and_self, ↓reduceIte]
        rw [xorBytes_cancel _ _ (by omega), ih acc hnd' hr ha]
        have : (m ∈ i :: is) ↔ m ∈ is := by
          simp only [List.mem_cons]
          constructor
          · rintro (h | h)
            · exact absurd h.symm him
            · exact h
          · exact Or.inr
        simp only [this]
    · -- not covered: both folds skip `i`
      have hb' : row.testBit i = false := by simpa using hb
      conv => lhs; rhs; unfold xorFold
      simp only [hb', Bool.false_eq_true, ↓reduceIte]
      conv => lhs; unfold xorFold
      simp only [hb', Bool.and_false, Bool.false_eq_true, ↓reduceIte]
      rw [ih acc hnd' hr ha]
      have : (m ∈ i :: is ∧ row.testBit m = true) ↔ (m ∈ is ∧ row.testBit m = true) := by
        simp only [List.mem_cons]
        constructor
        · rintro ⟨h | h, hm⟩
          · subst h; rw [hb'] at hm; cases hm
          · exact ⟨h, hm⟩
        · rintro ⟨h, hm⟩; exact ⟨Or.inr h, hm⟩
      simp only [this]

/-- the coded fragment of a row over `n` data fragments of `sz` bytes: XOR of the covered fragments -/
def coded (D : Nat → List Nat) (row n sz : Nat) : List Nat :=
  xorFold (fun i => row.testBit i) D (List.range n) (List.replicate sz 0)

/-- what `repair_step` computes for the missing fragment `m`: the coded fragment XOR every covered fragment but `m`,
    read from the store `S` -/
def repaired (S : Nat → List Nat) (par : List Nat) (row n m : Nat) : List Nat :=
  xorFold (fun i => decide (i ≠ m) && row.testBit i) S (List.range n) par


/-- **repair_exact** (XOR algebra over the row set): the bytes `repair_step` computes for the missing fragment `m`
    are the original fragment, provided the coded fragment is the XOR of the originals the row covers and the
    other covered fragments in the store are the originals. -/
theorem repair_exact (D S : Nat → List Nat) (row n sz m : Nat)
    (hlen : ∀ i, i < n → (D i).length = sz) (hm : m < n) (hcov : row.testBit m = true)
    (hS : ∀ i, i < n → i ≠ m → row.testBit i = true → S i = D i) :
    repaired S (coded D row n sz) row n m = D m := by
  unfold repaired coded
  rw [xorFold_congr _ S D _ _ (by
    intro i hi hk
    simp only [ne_eq, Bool.and_eq_true, decide_eq_true_eq] at hk
    exact hS i (List.mem_range.mp hi) hk.1 hk.2)]
  rw [xorFold_twice row m D sz (List.range n) _ List.nodup_range
    (fun i hi => hlen i (List.mem_range.mp hi)) (by simp)]
  have hin : m ∈ List.range n := List.mem_range.mpr hm
  simp only [hin, hcov, and_self, ↓reduceIte]
  have := xorBytes_zeros (D m)
  rw [hlen m hm] at this
  exact this

end Fuota.V1
