import Fuota.Lemmas.RingPair
/-!
# Ring lemmas, part 14: the parts of `Inv2` under single-slot steps
-/
namespace Fuota.Ring
open Fuota.Layout Fuota.Fs Fuota.Updater Fuota.Slots



theorem atA_set_none_self (att : List (Option Nat)) (i : Nat) : atA (att.set i none) i = none := by
  unfold atA
  by_cases h : i < att.length
  · exact getD_set_eq h
  · exact getD_none_of_ge (by simpa using h)

theorem used_erase {hs : Hdrs} {i j : Nat} {h : Header} : Used (hs.set i none) j h ↔ j ≠ i ∧ Used hs j h := by
  rw [used_set]
  constructor
  · rintro (⟨_, _, e⟩ | h)
    · cases e
    · exact h
  · exact fun h => Or.inr h

theorem skel_erase {n : Nat} {g : Geom} {hs : Hdrs} {att : List (Option Nat)} (i : Nat) (h : SkelOK n g hs att) :
    SkelOK n g (hs.set i none) (att.set i none) := by
  have ha : ∀ j, j ≠ i → atA (att.set i none) j = atA att j := fun j hj => getD_set_ne hj
  refine ⟨by simp [h.alen], ?_, ?_, ?_, ?_⟩
  · intro j
    by_cases hj : j = i
    · subst hj
      rw [atA_set_none_self]
      constructor
      · rintro ⟨k, e⟩; cases e
      · rintro ⟨hd, hu⟩; exact absurd rfl (used_erase.mp hu).1
    · rw [ha j hj]
      constructor
      · intro e
        obtain ⟨hd, hu⟩ := (h.attUsed j).mp e
        exact ⟨hd, used_erase.mpr ⟨hj, hu⟩⟩
      · rintro ⟨hd, hu⟩
        exact (h.attUsed j).mpr ⟨hd, (used_erase.mp hu).2⟩
  · intro j hd j' hd' k k' hu hu' e e' hlt
    obtain ⟨hj, hu⟩ := used_erase.mp hu
    obtain ⟨hj', hu'⟩ := used_erase.mp hu'
    rw [ha j hj] at e
    rw [ha j' hj'] at e'
    exact h.mono j hd j' hd' k k' hu hu' e e' hlt
  · intro j hd j' hd' k hu hu' hne e e'
    obtain ⟨hj, hu⟩ := used_erase.mp hu
    obtain ⟨hj', hu'⟩ := used_erase.mp hu'
    rw [ha j hj] at e
    rw [ha j' hj'] at e'
    exact h.pair j hd j' hd' k hu hu' hne e e'
  · intro j hd hu
    exact h.geom j hd (used_erase.mp hu).2

/-- same kind, sequence number and geometry -/
def SameSkel (h h' : Header) : Prop := h'.kind = h.kind ∧ h'.seq = h.seq ∧ h'.size = h.size ∧ h'.n = h.n

theorem used_mark {hs : Hdrs} {i j : Nat} {h0 h' hd : Header} (hu0 : Used hs i h0) :
    Used (hs.set i (some h')) j hd ↔ (j = i ∧ hd = h') ∨ (j ≠ i ∧ Used hs j hd) := by
  rw [used_set]
  constructor
  · rintro (⟨e, _, e'⟩ | h)
    · left; exact ⟨e, by simpa using e'.symm⟩
    · exact Or.inr h
  · rintro (⟨e, e'⟩ | h)
    · left; exact ⟨e, used_lt hu0, by rw [e']⟩
    · exact Or.inr h

theorem skel_mark {n : Nat} {g : Geom} {hs : Hdrs} {att : List (Option Nat)} (i : Nat) (h0 h' : Header)
    (h : SkelOK n g hs att) (hu0 : Used hs i h0) (hsame : SameSkel h0 h') : SkelOK n g (hs.set i (some h')) att := by
  obtain ⟨sk, ss, sz, sn⟩ := hsame
  -- every header of the new arrangement has a twin in the old one
  have twin : ∀ j hd, Used (hs.set i (some h')) j hd → ∃ hd0, Used hs j hd0 ∧ SameSkel hd0 hd := by
    intro j hd hu
    rcases (used_mark hu0).mp hu with ⟨rfl, rfl⟩ | ⟨_, hu⟩
    · exact ⟨h0, hu0, sk, ss, sz, sn⟩
    · exact ⟨hd, hu, rfl, rfl, rfl, rfl⟩
  refine ⟨h.alen, ?_, ?_, ?_, ?_⟩
  · intro j
    rw [h.attUsed j]
    constructor
    · rintro ⟨hd, hu⟩
      by_cases hj : j = i
      · subst hj; exact ⟨h', (used_mark hu0).mpr (Or.inl ⟨rfl, rfl⟩)⟩
      · exact ⟨hd, (used_mark hu0).mpr (Or.inr ⟨hj, hu⟩)⟩
    · rintro ⟨hd, hu⟩
      obtain ⟨hd0, hu0', _⟩ := twin j hd hu
      exact ⟨hd0, hu0'⟩
  · intro j hd j' hd' k k' hu hu' e e' hlt
    obtain ⟨d0, u0, _, s0, _⟩ := twin j hd hu
    obtain ⟨d0', u0', _, s0', _⟩ := twin j' hd' hu'
    rw [s0, s0']
    exact h.mono j d0 j' d0' k k' u0 u0' e e' hlt
  · intro j hd j' hd' k hu hu' hne e e'
    obtain ⟨d0, u0, k0, s0, _⟩ := twin j hd hu
    obtain ⟨d0', u0', k0', s0', _⟩ := twin j' hd' hu'
    rw [k0, k0', s0, s0']
    exact h.pair j d0 j' d0' k u0 u0' hne e e'
  · intro j hd hu
    obtain ⟨d0, u0, k0, _, z0, n0⟩ := twin j hd hu
    rw [k0, z0, n0]
    exact h.geom j d0 u0

theorem maxAtt_fold_ge (l : List (Option Nat)) (m : Nat) :
    m ≤ l.foldl (fun m a => match a with | some v => max m (v + 1) | none => m) m := by
  induction l generalizing m with
  | nil => exact Nat.le_refl _
  | cons x l ih =>
    simp only [List.foldl_cons]
    refine Nat.le_trans ?_ (ih _)
    split
    · exact Nat.le_max_left _ _
    · exact Nat.le_refl _

theorem maxAtt_fold_gt (l : List (Option Nat)) (m k : Nat) (h : some k ∈ l) :
    k < l.foldl (fun m a => match a with | some v => max m (v + 1) | none => m) m := by
  induction l generalizing m with
  | nil => cases h
  | cons x l ih =>
    simp only [List.foldl_cons]
    rcases List.mem_cons.mp h with e | e
    · subst e
      change k < List.foldl _ (max m (k + 1)) l
      have := maxAtt_fold_ge l (max m (k + 1))
      have h2 : k + 1 ≤ max m (k + 1) := Nat.le_max_right _ _
      omega
    · exact ih _ e

theorem lt_maxAtt {s : State} {j k : Nat} (h : atA s.att j = some k) : k < maxAtt s := by
  unfold maxAtt
  apply maxAtt_fold_gt
  unfold atA at h
  rw [List.getD_eq_getElem?_getD] at h
  cases hg : s.att[j]? with
  | none => rw [hg] at h; cases h
  | some o =>
    rw [hg] at h
    simp only [Option.getD_some] at h
    subst h
    exact List.mem_of_getElem? hg

/-- a fresh header is written into the unused slot `i` by attempt `id`: every other slot was written by an earlier
    attempt and is older — or it is the firmware slot this attempt wrote just before, one slot back -/
theorem skel_write {n : Nat} {g : Geom} {hs : Hdrs} {att : List (Option Nat)} (i id : Nat) (h' : Header)
    (h : SkelOK n g hs att) (hin : i < n) (hlen : hs.length = n) (hfree : ∀ hd, ¬ Used hs i hd)
    (hgeom : h'.size = g.segSize ∧ (h'.kind = Kind.firmware → h'.n = g.nseg) ∧ (h'.kind = Kind.parity → h'.n = g.maxL))
    (hothers : ∀ j hd k, Used hs j hd → atA att j = some k →
      (k < id ∧ hd.seq < h'.seq) ∨
      (k = id ∧ hd.kind = Kind.firmware ∧ h'.kind = Kind.parity ∧ i = (j + 1) % n ∧ hd.seq < h'.seq)) :
    SkelOK n g (hs.set i (some h')) (att.set i (some id)) := by
  have ha : ∀ j, j ≠ i → atA (att.set i (some id)) j = atA att j := fun j hj => getD_set_ne hj
  have hai : atA (att.set i (some id)) i = some id := getD_set_eq (by rw [h.alen]; exact hin)
  have hui : Used (hs.set i (some h')) i h' := used_set.mpr (Or.inl ⟨rfl, by rw [hlen]; exact hin, rfl⟩)
  have hcase : ∀ j hd, Used (hs.set i (some h')) j hd → (j = i ∧ hd = h') ∨ (j ≠ i ∧ Used hs j hd) := by
    intro j hd hu
    rcases used_set.mp hu with ⟨e, _, e'⟩ | hh
    · left; exact ⟨e, by simpa using e'.symm⟩
    · exact Or.inr hh
  have cls : ∀ j hd k, Used (hs.set i (some h')) j hd → atA (att.set i (some id)) j = some k →
      (j = i ∧ hd = h' ∧ k = id) ∨ (j ≠ i ∧ Used hs j hd ∧ atA att j = some k) := by
    intro j hd k hu e
    rcases hcase j hd hu with ⟨e1, e2⟩ | ⟨hj, hu⟩
    · left
      rw [e1, hai] at e
      exact ⟨e1, e2, by simpa using e.symm⟩
    · right
      rw [ha j hj] at e
      exact ⟨hj, hu, e⟩
  refine ⟨by simp [h.alen], ?_, ?_, ?_, ?_⟩
  · intro j
    by_cases hj : j = i
    · subst hj
      exact ⟨fun _ => ⟨h', hui⟩, fun _ => ⟨id, hai⟩⟩
    · rw [ha j hj, h.attUsed j]
      constructor
      · rintro ⟨hd, hu⟩; exact ⟨hd, used_set.mpr (Or.inr ⟨hj, hu⟩)⟩
      · rintro ⟨hd, hu⟩
        rcases hcase j hd hu with ⟨e, _⟩ | ⟨_, hu⟩
        · exact absurd e hj
        · exact ⟨hd, hu⟩
  · intro j hd j' hd' k k' hu hu' e e' hlt
    rcases cls j hd k hu e with ⟨e1, e2, e3⟩ | ⟨_, u, a⟩
    · rcases cls j' hd' k' hu' e' with ⟨e1', e2', e3'⟩ | ⟨_, u', a'⟩
      · omega
      · rcases hothers j' hd' k' u' a' with ⟨h1, _⟩ | ⟨h1, _⟩ <;> omega
    · rcases cls j' hd' k' hu' e' with ⟨e1', e2', e3'⟩ | ⟨_, u', a'⟩
      · rw [e2']
        rcases hothers j hd k u a with ⟨_, h2⟩ | ⟨h1, _⟩
        · exact h2
        · omega
      · exact h.mono j hd j' hd' k k' u u' a a' hlt
  · intro j hd j' hd' k hu hu' hne e e'
    rcases cls j hd k hu e with ⟨e1, e2, e3⟩ | ⟨_, u, a⟩
    · rcases cls j' hd' k hu' e' with ⟨e1', e2', e3'⟩ | ⟨_, u', a'⟩
      · exact absurd (e1.trans e1'.symm) hne
      · rw [e1, e2]
        rcases hothers j' hd' k u' a' with ⟨h1, _⟩ | ⟨_, h2, h3, h4, h5⟩
        · omega
        · exact Or.inr ⟨h2, h3, h4, h5⟩
    · rcases cls j' hd' k hu' e' with ⟨e1', e2', e3'⟩ | ⟨_, u', a'⟩
      · rw [e1', e2']
        rcases hothers j hd k u a with ⟨h1, _⟩ | ⟨_, h2, h3, h4, h5⟩
        · omega
        · exact Or.inl ⟨h2, h3, h4, h5⟩
      · exact h.pair j hd j' hd' k u u' hne a a'
  · intro j hd hu
    rcases hcase j hd hu with ⟨rfl, rfl⟩ | ⟨_, hu⟩
    · exact hgeom
    · exact h.geom j hd hu



/-! ## `LiveOK`, `TopOK` step by step -/

theorem untouched_iff {i : Nat} {q : Nat × Nat} : untouched i q = true ↔ i ≠ q.1 ∧ i ≠ q.2 := by
  unfold untouched
  simp

theorem live_erase {hs : Hdrs} {att : List (Option Nat)} {live : List (Nat × Nat)} (i : Nat) (h : LiveOK hs att live) :
    LiveOK (hs.set i none) (att.set i none) (live.filter (untouched i)) := by
  have ha : ∀ j, j ≠ i → atA (att.set i none) j = atA att j := fun j hj => getD_set_ne hj
  intro f p
  rw [List.mem_filter, untouched_iff, h f p]
  constructor
  · rintro ⟨⟨hf, hp, k, u1, k1, s1, u2, k2, s2, a1, a2⟩, hif, hip⟩
    simp only at hif hip
    exact ⟨hf, hp, k, used_erase.mpr ⟨fun e => hif e.symm, u1⟩, k1, s1, used_erase.mpr ⟨fun e => hip e.symm, u2⟩, k2, s2,
      by rw [ha f (fun e => hif e.symm)]; exact a1, by rw [ha p (fun e => hip e.symm)]; exact a2⟩
  · rintro ⟨hf, hp, k, u1, k1, s1, u2, k2, s2, a1, a2⟩
    obtain ⟨hfi, u1⟩ := used_erase.mp u1
    obtain ⟨hpi, u2⟩ := used_erase.mp u2
    rw [ha f hfi] at a1
    rw [ha p hpi] at a2
    exact ⟨⟨hf, hp, k, u1, k1, s1, u2, k2, s2, a1, a2⟩, fun e => hfi e.symm, fun e => hpi e.symm⟩

/-- slot `i` is re-marked to a header that is not in progress -/
theorem live_mark {hs : Hdrs} {att : List (Option Nat)} {live : List (Nat × Nat)} (i : Nat) (h0 h' : Header)
    (h : LiveOK hs att live) (hu0 : Used hs i h0) (hnot : ¬ InProg h') :
    LiveOK (hs.set i (some h')) att (live.filter (untouched i)) := by
  intro f p
  rw [List.mem_filter, untouched_iff, h f p]
  constructor
  · rintro ⟨⟨hf, hp, k, u1, k1, s1, u2, k2, s2, a1, a2⟩, hif, hip⟩
    simp only at hif hip
    exact ⟨hf, hp, k, (used_mark hu0).mpr (Or.inr ⟨fun e => hif e.symm, u1⟩), k1, s1,
      (used_mark hu0).mpr (Or.inr ⟨fun e => hip e.symm, u2⟩), k2, s2, a1, a2⟩
  · rintro ⟨hf, hp, k, u1, k1, s1, u2, k2, s2, a1, a2⟩
    rcases (used_mark hu0).mp u1 with ⟨_, e⟩ | ⟨hfi, u1⟩
    · subst e; exact absurd s1 hnot
    rcases (used_mark hu0).mp u2 with ⟨_, e⟩ | ⟨hpi, u2⟩
    · subst e; exact absurd s2 hnot
    exact ⟨⟨hf, hp, k, u1, k1, s1, u2, k2, s2, a1, a2⟩, fun e => hfi e.symm, fun e => hpi e.symm⟩

theorem filter_untouched_self {live : List (Nat × Nat)} {i : Nat} (h : ∀ q ∈ live, i ≠ q.1 ∧ i ≠ q.2) :
    live.filter (untouched i) = live := by
  rw [List.filter_eq_self]
  intro q hq
  exact untouched_iff.mpr (h q hq)

/-- a live pair does not contain a slot whose header is not in progress -/
theorem live_avoids {hs : Hdrs} {att : List (Option Nat)} {live : List (Nat × Nat)} (h : LiveOK hs att live)
    {i : Nat} {h0 : Header} (hu0 : Used hs i h0) (hnot : ¬ InProg h0) : ∀ q ∈ live, i ≠ q.1 ∧ i ≠ q.2 := by
  intro q hq
  obtain ⟨hf, hp, k, u1, _, s1, u2, _, s2, _, _⟩ := (h q.1 q.2).mp hq
  constructor
  · intro e; subst e; exact hnot (used_unique hu0 u1 ▸ s1)
  · intro e; subst e; exact hnot (used_unique hu0 u2 ▸ s2)

theorem top2_stable {hs hs' : Hdrs} {m : Nat × Nat} (h : Top2 hs m)
    (hf : hs'[m.1]? = hs[m.1]?) (hp : hs'[m.2]? = hs[m.2]?) (hsub : Sub hs' hs) : Top2 hs' m := by
  obtain ⟨hf0, hp0, htn⟩ := h
  obtain ⟨hu1, hu2, _⟩ := twoNewest_mem htn
  refine ⟨hf0, hp0, twoNewest_stable htn ?_ ?_ hsub⟩
  · show hs'[m.2]? = _; rw [hp]; exact hu1
  · show hs'[m.1]? = _; rw [hf]; exact hu2

theorem top2_unique {hs : Hdrs} {m m' : Nat × Nat} (h : Top2 hs m) (h' : Top2 hs m') : m = m' := by
  obtain ⟨_, _, e⟩ := h
  obtain ⟨_, _, e'⟩ := h'
  rw [e] at e'
  simp only [Prod.mk.injEq, Option.some.injEq] at e'
  exact Prod.ext e'.2.1 e'.1.1

theorem mustKeep_some {i : Nat} {o : Option (Nat × Nat)} {m : Nat × Nat} (h : mustKeep i o = some m) :
    o = some m ∧ i ≠ m.1 ∧ i ≠ m.2 := by
  unfold mustKeep at h
  split at h
  · rename_i p
    split at h
    · cases h
    · rename_i hc
      simp only [Option.some.injEq] at h
      subst h
      simp only [Bool.or_eq_true, decide_eq_true_eq, not_or] at hc
      exact ⟨rfl, hc.1, hc.2⟩
  · cases h

/-- a crash-prefix step on slot `i` (erase or re-mark keeping the sequence number) keeps a remembered pair that it
    does not touch -/
theorem top_step {hs hs' : Hdrs} {live : List (Nat × Nat)} {o : Option (Nat × Nat)} (i : Nat)
    (h : TopOK hs live o) (hother : ∀ j, j ≠ i → hs'[j]? = hs[j]?) (hsub : Sub hs' hs) :
    TopOK hs' (live.filter (untouched i)) (mustKeep i o) := by
  intro m hm
  obtain ⟨ho, h1, h2⟩ := mustKeep_some hm
  obtain ⟨hl, ht⟩ := h m ho
  refine ⟨List.mem_filter.mpr ⟨hl, untouched_iff.mpr ⟨h1, h2⟩⟩, ?_⟩
  exact top2_stable ht (hother _ (fun e => h1 e.symm)) (hother _ (fun e => h2 e.symm)) hsub

theorem topOK_none (hs : Hdrs) (live : List (Nat × Nat)) : TopOK hs live none := by
  intro m hm; cases hm


/-! ## `Orph` step by step -/


/-- the `low` scan only looks at which slots are used and at their sequence numbers -/
theorem lowOf_congr {hs hs' : Hdrs}
    (h1 : ∀ j hd', Used hs' j hd' → ∃ hd, Used hs j hd ∧ hd'.seq = hd.seq)
    (h2 : ∀ j hd, Used hs j hd → ∃ hd', Used hs' j hd' ∧ hd'.seq = hd.seq) : lowOf hs' = lowOf hs := by
  apply Option.ext
  rintro ⟨i, s⟩
  rw [lowOf_eq_some, lowOf_eq_some]
  constructor
  · rintro ⟨hd', hu', hs', hall⟩
    obtain ⟨hd, hu, e⟩ := h1 i hd' hu'
    refine ⟨hd, hu, by rw [← e]; exact hs', ?_⟩
    intro j hj huj
    obtain ⟨hj', huj', e'⟩ := h2 j hj huj
    rw [← e']
    exact hall j hj' huj'
  · rintro ⟨hd, hu, hs0, hall⟩
    obtain ⟨hd', hu', e⟩ := h2 i hd hu
    refine ⟨hd', hu', by rw [e]; exact hs0, ?_⟩
    intro j hj' huj'
    obtain ⟨hj, huj, e'⟩ := h1 j hj' huj'
    rw [e']
    exact hall j hj huj

/-- `Orph` under a change of status words: nothing becomes in progress, no confirmed image disappears -/
theorem Orph.remark {n : Nat} {hs hs' : Hdrs} {att : List (Option Nat)} (h : Orph n hs att)
    (t1 : ∀ j hd', Used hs' j hd' → ∃ hd, Used hs j hd ∧ SameSkel hd hd' ∧ (InProg hd' → InProg hd))
    (t2 : ∀ j hd, Used hs j hd → ∃ hd', Used hs' j hd' ∧ SameSkel hd hd' ∧ (Conf hd → Conf hd')) :
    Orph n hs' att := by
  have hlow : lowOf hs' = lowOf hs :=
    lowOf_congr (fun j hd' hu => by obtain ⟨hd, u, s, _⟩ := t1 j hd' hu; exact ⟨hd, u, s.2.1⟩)
      (fun j hd hu => by obtain ⟨hd', u, s, _⟩ := t2 j hd hu; exact ⟨hd', u, s.2.1⟩)
  intro j hj k hu hk hst ha horph
  obtain ⟨hj0, hu0, ⟨sk, ss, _, _⟩, hip⟩ := t1 j hj hu
  have horph0 : ¬ ∃ i hi, Used hs i hi ∧ hi.kind = Kind.firmware ∧ atA att i = some k := by
    rintro ⟨x, hx, hux, hkx, hax⟩
    obtain ⟨hx', hux', ⟨sk', _⟩, _⟩ := t2 x hx hux
    exact horph ⟨x, hx', hux', by rw [sk']; exact hkx, hax⟩
  rcases h j hj0 k hu0 (by rw [← sk]; exact hk) (hip hst) ha horph0 with h2 | ⟨low, ls, hl, hbelow, hjl, hempty, hclause⟩
  · left
    intro x hx hux
    obtain ⟨hx0, hux0, ⟨_, sx, _, _⟩, _⟩ := t1 x hx hux
    rw [sx, ss]
    exact h2 x hx0 hux0
  · right
    refine ⟨low, ls, hlow.trans hl, ?_, hjl, ?_, ?_⟩
    · intro x hx hux hlt
      obtain ⟨hx0, hux0, ⟨_, sx, _, _⟩, _⟩ := t1 x hx hux
      rw [sx, ss] at hlt
      exact hbelow x hx0 hux0 hlt
    · intro hd hud
      obtain ⟨hd0, hud0, _⟩ := t1 _ hd hud
      exact hempty hd0 hud0
    · intro hl' hul' hkl' hstl'
      obtain ⟨hl0, hul0, ⟨skl, _⟩, hipl⟩ := t1 low hl' hul'
      obtain ⟨⟨y, huy⟩, hfb⟩ := hclause hl0 hul0 (by rw [← skl]; exact hkl') (hipl hstl')
      obtain ⟨y', huy', _⟩ := t2 _ y huy
      refine ⟨⟨y', huy'⟩, ?_⟩
      intro hnone
      apply hfb
      rw [fallbackSlot_eq_none] at hnone ⊢
      rintro x hx ⟨hux, hcx⟩
      obtain ⟨hx', hux', _, hc'⟩ := t2 x hx hux
      exact hnone x hx' ⟨hux', hc' hcx⟩

/-- one slot is re-marked -/
theorem orph_mark {n : Nat} {hs : Hdrs} {att : List (Option Nat)} (i : Nat) (h0 h' : Header) (h : Orph n hs att)
    (hu0 : Used hs i h0) (hsame : SameSkel h0 h') (hip : InProg h' → InProg h0) (hconf : Conf h0 → Conf h') :
    Orph n (hs.set i (some h')) att := by
  apply h.remark
  · intro j hd' hu
    rcases (used_mark hu0).mp hu with ⟨rfl, rfl⟩ | ⟨_, hu⟩
    · exact ⟨h0, hu0, hsame, hip⟩
    · exact ⟨hd', hu, ⟨rfl, rfl, rfl, rfl⟩, fun x => x⟩
  · intro j hd hu
    by_cases hj : j = i
    · subst hj
      rw [used_unique hu hu0]
      exact ⟨h', (used_mark hu0).mpr (Or.inl ⟨rfl, rfl⟩), hsame, hconf⟩
    · exact ⟨hd, (used_mark hu0).mpr (Or.inr ⟨hj, hu⟩), ⟨rfl, rfl, rfl, rfl⟩, fun x => x⟩

/-- every in-progress header is one of the slots `a` (firmware) and `b` (parity), written by one attempt: then there
    is no orphan parity header at all -/
def PairOnly (hs : Hdrs) (att : List (Option Nat)) (a b : Nat) : Prop :=
  (∀ x hx, Used hs x hx → InProg hx → x = a ∨ x = b) ∧
  ∃ ha k, Used hs a ha ∧ ha.kind = Kind.firmware ∧ atA att a = some k ∧ atA att b = some k

theorem orph_of_pairOnly {n : Nat} {hs : Hdrs} {att : List (Option Nat)} {a b : Nat} (h : PairOnly hs att a b) :
    Orph n hs att := by
  intro j hj k hu hk hst ha horph
  exfalso
  obtain ⟨honly, ha0, k0, hua, hka, haa, hab⟩ := h
  rcases honly j hj hu hst with rfl | rfl
  · rw [used_unique hu hua, hka] at hk; cases hk
  · rw [hab] at ha
    simp only [Option.some.injEq] at ha
    subst ha
    exact horph ⟨a, ha0, hua, hka, haa⟩

theorem pairOnly_erase {hs : Hdrs} {att : List (Option Nat)} {a b : Nat} (i : Nat) (h : PairOnly hs att a b)
    (hia : i ≠ a) (hib : i ≠ b) : PairOnly (hs.set i none) (att.set i none) a b := by
  obtain ⟨honly, ha0, k0, hua, hka, haa, hab⟩ := h
  refine ⟨?_, ha0, k0, used_erase.mpr ⟨fun e => hia e.symm, hua⟩, hka, ?_, ?_⟩
  · intro x hx hux hst
    exact honly x hx (used_erase.mp hux).2 hst
  · unfold atA; rw [getD_set_ne (fun e => hia e.symm)]; exact haa
  · unfold atA; rw [getD_set_ne (fun e => hib e.symm)]; exact hab


end Fuota.Ring
