import Fuota.Lemmas.RefineCrashStage2
/-!
# A stage-2 pivot store (block, then row) interrupted between or before its two programs, and its redelivery
-/
namespace Fuota.Updater
open Fuota.Nor Fuota.Fs Fuota.FlashAdapters Fuota.Recon Fuota.Layout Fuota.Gf2

/-! ## moving facts between updaters that stand for the same session -/

/-- the geometry of an updater addressing the same regions (cache filled) -/
theorem Geo.transfer {u w : Upd} {fsz : Nat} (g : Geo u fsz) (hR : SameRegions u w) : Geo (warm w) fsz :=
  ⟨by show 1 ≤ w.bs ∧ w.bs ≤ 256; rw [hR.bs]; exact g.hbs,
   by show 1 ≤ w.n ∧ w.n ≤ 16384; rw [hR.n]; exact g.hn,
   by show w.bs * w.n ≤ w.fw.size - 17408; rw [hR.bs, hR.n, hR.fs]; exact g.hfit,
   by show w.par.size = w.fw.size; rw [hR.ps, hR.fs]; exact g.hsz,
   by show w.maxL = capacity w.fw.size w.bs; rw [hR.maxL, hR.fs, hR.bs]; exact g.hmaxL,
   by show w.matrixOffset = w.maxL * w.bs; rw [hR.mo, hR.maxL, hR.bs]; exact g.hmo,
   by show w.fw.idx ≠ w.par.idx; rw [hR.fi, hR.pi]; exact g.hne,
   by show (w.fw.idx + 1) * w.fw.size ≤ fsz; rw [hR.fi, hR.fs]; exact g.hfwin,
   by show (w.par.idx + 1) * w.par.size ≤ fsz; rw [hR.pi, hR.ps]; exact g.hparin, rfl⟩

/-- the invariant with an explicit erased set only depends on the flash contents and on the session state the
    updater stands for -/
theorem Lawful'.transfer {E : Nat → Prop} {u w : Upd} {d e : Dev} (L : Lawful' E u d) (hG : Good e)
    (hf : e.flash = d.flash) (h : SameSession u w) : Lawful' E w e := by
  have g := L.geo
  have hR := h.reg
  obtain ⟨a1, a2, a3, a4⟩ := hR.addrs
  obtain ⟨v1, v2, v3⟩ := hR.vals h.used d.flash
  have gw : Geo w e.flash.size := by
    have := g.transfer hR
    rw [hf]
    exact ⟨this.hbs, this.hn, this.hfit, this.hsz, this.hmaxL, this.hmo, this.hne, this.hfwin, this.hparin, h.seg⟩
  refine { geo := gw, good := hG, wf := by rw [hf]; exact L.wf, hl := by rw [h.l, hR.maxL]; exact L.hl,
           hl2 := ?_, hdone := ?_, hstat := ?_, herD := ?_, hech := ?_, herP := ?_ }
  · intro hne
    rw [h.l, h.done, hR.n]
    exact L.hl2 (by rw [← h.l]; exact hne)
  · intro i hi
    rw [hR.n]; exact L.hdone i (by rw [← h.done]; exact hi)
  · intro i hi
    rw [hf, a2]; exact L.hstat i (by rw [← h.done]; exact hi)
  · intro i hi hE
    rw [hf, a1, a2, hR.bs]
    exact L.herD i (by rw [← hR.n]; exact hi) hE
  · intro p hp
    rw [hf, v3, h.l]
    exact L.hech p (by rw [← h.used]; exact hp)
  · intro m hm hu
    rw [hf, a3, a4, hR.bs]
    exact L.herP m (by rw [← hR.maxL]; exact hm) (by rw [← h.used]; exact hu)

/-- `Sim` only depends on the session state the updater stands for -/
theorem Sim.transfer {s : St} {u w : Upd} {f : Flash} (hS : Sim s u f) (hR : SameRegions u w) (hl : w.l = u.l)
    (hd : w.done = u.done) (hu : w.used = u.used) : Sim s w f := by
  obtain ⟨s1, s2, s3, s4, s5, s6, s7, s8⟩ := hS
  obtain ⟨v1, v2, v3⟩ := hR.vals hu f
  exact ⟨by rw [hR.n]; exact s1, by rw [hR.bs]; exact s2, by rw [hl]; exact s3, by rw [hd]; exact s4,
    by rw [hu]; exact s5, fun k => by rw [v1]; exact s6 k, fun k => by rw [v2]; exact s7 k,
    fun k => by rw [v3]; exact s8 k⟩

/-- `stripF` only depends on the session state the updater stands for -/
theorem stripF_same {u w : Upd} (hR : SameRegions u w) (hd : w.done = u.done) (f : Flash) (row : Nat) :
    ∀ (is : List Nat) (d : List Nat), stripF w f row is d = stripF u f row is d
  | [], d => rfl
  | i :: is, d => by
    unfold stripF
    rw [hd, hR.addrs.1, hR.bs, stripF_same hR hd f row is, stripF_same hR hd f row is]

/-- `elimF` only depends on the session state the updater stands for -/
theorem elimF_same {u w : Upd} (hR : SameRegions u w) (hu : w.used = u.used) (f : Flash) :
    ∀ (wh row : Nat) (data : List Nat), elimF w f wh row data = elimF u f wh row data
  | 0, _, _ => rfl
  | wh + 1, row, data => by
    unfold elimF
    rw [hu, hR.addrs.2.2.1, hR.addrs.2.2.2, hR.bs, elimF_same hR hu f wh, elimF_same hR hu f wh]

/-- `strip` on a device without injection, cache filled or fillable from the header -/
theorem strip_run_cold {w : Upd} {e : Dev} (g : Geo (warm w) e.flash.size) (hG : Good e) (hc : CacheOK w e)
    (hdone : ∀ i, w.done.testBit i = true → i < w.n) (row : Nat) : ∀ (is : List Nat) (data : List Nat),
    (strip w row is data).run e = (.ok (stripF w e.flash row is data), e)
  | [], data => rfl
  | i :: is, data => by
    obtain ⟨h1, h2, h3, _⟩ := g.slots
    have hin : w.fw.size * w.fw.idx + 12 ≤ e.flash.size := by
      rw [Nat.mul_comm]
      have h1' : 17408 < w.fw.size := h1
      have h3' : w.fw.idx * w.fw.size + w.fw.size ≤ e.flash.size := h3
      omega
    unfold strip stripF
    by_cases h : (row.testBit i && w.done.testBit i) = true
    · have hd : w.done.testBit i = true := by simp at h; exact h.2
      have hi := hdone i hd
      simp only [h, ↓reduceIte, run_bind]
      rw [readSegment_warm hG hc hin i w.bs, readSegment_run g hG (show i < (warm w).n from hi)]
      exact strip_run_cold g hG hc hdone row is _
    · simp only [h, Bool.false_eq_true, ↓reduceIte]
      exact strip_run_cold g hG hc hdone row is data

/-! ## the situation: a stage-2 delivery that stores a new pivot -/

/-- stage 2 of `handle_block` on a state satisfying the stage-2 invariant, where the elimination loop decides to
    store pivot `p` with reduced row `row'` and reduced block `data'` -/
structure Stage2Store (ffr : Bool) (u : Upd) (d : Dev) (index : Nat) (bytes : List Nat) (r p row' : Nat)
    (data' : List Nat) : Prop where
  law : Lawful' (fun i => u.done.testBit i = false) u d
  hl0 : u.l ≠ 0
  hb : IsBytes bytes
  len : bytes.length = u.bs
  hrow : updaterRow ffr u.n index = some r
  dec : elimF u d.flash u.l (project u.done u.n r) (stripF u d.flash r (List.range u.n) bytes) = some (p, row', data')

/-- the device after the two programs of a pivot -/
def pairDev (u : Upd) (d : Dev) (p row : Nat) (data : List Nat) : Dev :=
  (d.prog (pAddr u p) data).prog (rAddr u p) (rowBytes p row)

/-- what the decision satisfies -/
theorem Stage2Store.facts {ffr : Bool} {u : Upd} {d : Dev} {index : Nat} {bytes : List Nat} {r p row' : Nat}
    {data' : List Nat} (S : Stage2Store ffr u d index bytes r p row' data') :
    p < u.l ∧ p < u.maxL ∧ u.used.testBit p = false ∧ data'.length = u.bs ∧
    u.l = (unknowns u.done u.n).length := by
  obtain ⟨a, b, _, e⟩ := elimF_some _ _ _ S.dec
  rw [length_stripF, S.len] at e
  exact ⟨a, Nat.lt_of_lt_of_le a S.law.hl, b, e, S.law.hl2 S.hl0⟩

/-- **the uninterrupted delivery**: after the reads the two programs are done, then the tail runs; the state the
    tail starts from satisfies the stage-2 invariant with the pivot recorded -/
theorem Stage2Store.run_ff {ffr : Bool} {u : Upd} {d : Dev} {index : Nat} {bytes : List Nat} {r p row' : Nat}
    {data' : List Nat} (S : Stage2Store ffr u d index bytes r p row' data') :
    (stage2U ffr u index bytes).run (u, d) =
      (stage2Tail u (u.used ||| 2 ^ p)).run (u, pairDev u d p row' data') ∧
    Lawful' (fun i => u.done.testBit i = false) { u with used := u.used ||| 2 ^ p } (pairDev u d p row' data') := by
  have L := S.law
  have g := L.geo
  obtain ⟨hp, hpm, _, hdl, hlU⟩ := S.facts
  have hwu : warm u = u := warm_of_some g.hseg
  obtain ⟨out1, hrun1, hob1, hol1, _⟩ := strip_run L r (List.range u.n) bytes S.hb S.len
  have hs := strip_run_live g L.good.alive L.hdone r (List.range u.n) bytes
  have ho : out1 = stripF u d.flash r (List.range u.n) bytes := by
    have := hrun1.symm.trans hs
    exact Except.ok.inj (Prod.mk.inj this).1
  subst ho
  have hrowbits : ∀ j, u.l ≤ j → (project u.done u.n r).testBit j = false := by
    intro j hj
    rw [testBit_project]
    have : ¬ j < (unknowns u.done u.n).length := by omega
    simp [this]
  obtain ⟨used', d', s', hrunE, _, _, hL'⟩ := elim_sim L u.l (abs (u, d)) (project u.done u.n r) _
    (sim_abs u d) (Nat.le_refl _) hrowbits hob1 hol1
  have hps := pairStore_run g L.good hpm row' data' hdl
  have he := elim_run_live g L.good.alive u.l (project u.done u.n r) _ L.hl hol1
  rw [S.dec] at he
  simp only at he
  rw [hps] at he
  have hx := hrunE.symm.trans he
  obtain ⟨hx1, rfl⟩ := Prod.mk.inj hx
  obtain rfl := Except.ok.inj hx1
  refine ⟨?_, hL'⟩
  rw [stage2U_run_of_strip ffr (by rw [hwu]; exact g) L.good.alive L.hl index bytes r S.hrow _ hs hol1, S.dec]
  simp only
  rw [hps]
  rfl

/-- **a transient fault on the first or second program of the pivot**: the call answers the flash error with the
in-memory updater unchanged; the fault is consumed; the device is the one before the call (`k = 0`) or has the block
programmed and the row not (`k = 1`) -/
theorem Stage2Store.run_fault {ffr : Bool} {u : Upd} {d : Dev} {index : Nat} {bytes : List Nat} {r p row' : Nat}
    {data' : List Nat} (S : Stage2Store ffr u d index bytes r p row' data') (k : Nat) (hk : k < 2) :
    (stage2U ffr u index bytes).run (u, d.withFault k) =
      (.error (.spi .custom), (u, if k = 0 then d else d.prog (pAddr u p) data')) := by
  have L := S.law
  have g := L.geo
  obtain ⟨hp, hpm, _, hdl, hlU⟩ := S.facts
  have hwu : warm u = u := warm_of_some g.hseg
  have hs := strip_run_live (d := d.withFault k) g L.good.alive L.hdone r (List.range u.n) bytes
  rw [stage2U_run_of_strip ffr (d := d.withFault k) (by rw [hwu]; exact g) L.good.alive L.hl index bytes r S.hrow _ hs
    (by rw [length_stripF]; exact S.len)]
  rw [show (d.withFault k).flash = d.flash from rfl]
  rw [S.dec]
  simp only
  rcases Nat.lt_succ_iff_lt_or_eq.1 hk with h | h
  · have : k = 0 := by omega
    subst this
    rw [pairStore_fault0 g L.good hpm row' data' hdl]; rfl
  · subst h
    rw [pairStore_fault1 g L.good hpm row' data' hdl]; rfl

/-- **the power lost at the first or second program of the pivot**: the call answers the flash error with the
in-memory updater unchanged and the device dead; rebooted, the device is the one before the call (`k = 0`) or has the
block programmed and the row not (`k = 1`) -/
theorem Stage2Store.run_crash {ffr : Bool} {u : Upd} {d : Dev} {index : Nat} {bytes : List Nat} {r p row' : Nat}
    {data' : List Nat} (S : Stage2Store ffr u d index bytes r p row' data') (k : Nat) (hk : k < 2) :
    ∃ e, (stage2U ffr u index bytes).run (u, d.withCrash k) = (.error (.spi .custom), (u, e)) ∧ e.dead = true ∧
      e.reboot = if k = 0 then d else d.prog (pAddr u p) data' := by
  have L := S.law
  have g := L.geo
  obtain ⟨hp, hpm, _, hdl, hlU⟩ := S.facts
  have hwu : warm u = u := warm_of_some g.hseg
  have hs := strip_run_live (d := d.withCrash k) g L.good.alive L.hdone r (List.range u.n) bytes
  rw [stage2U_run_of_strip ffr (d := d.withCrash k) (by rw [hwu]; exact g) L.good.alive L.hl index bytes r S.hrow _ hs
    (by rw [length_stripF]; exact S.len)]
  rw [show (d.withCrash k).flash = d.flash from rfl]
  rw [S.dec]
  simp only
  rcases Nat.lt_succ_iff_lt_or_eq.1 hk with h | h
  · have : k = 0 := by omega
    subst this
    obtain ⟨e, h1, h2, h3⟩ := pairStore_crash0 g L.good hpm row' data' hdl
    exact ⟨e, by rw [h1], h2, h3⟩
  · subst h
    obtain ⟨e, h1, h2, h3⟩ := pairStore_crash1 g L.good hpm row' data' hdl
    exact ⟨e, by rw [h1], h2, h3⟩

/-- a transient fault armed beyond the two programs of the pivot: both succeed and the tail runs with the fault
    still armed -/
theorem Stage2Store.run_fault_late {ffr : Bool} {u : Upd} {d : Dev} {index : Nat} {bytes : List Nat}
    {r p row' : Nat} {data' : List Nat} (S : Stage2Store ffr u d index bytes r p row' data') (k : Nat) :
    ∃ d', (stage2U ffr u index bytes).run (u, d.withFault (k + 2)) =
        (stage2Tail u (u.used ||| 2 ^ p)).run (u, d') ∧ Faulty k d' ∧
      d'.flash = (pairDev u d p row' data').flash := by
  have L := S.law
  have g := L.geo
  obtain ⟨hp, hpm, _, hdl, hlU⟩ := S.facts
  have hwu : warm u = u := warm_of_some g.hseg
  have hs := strip_run_live (d := d.withFault (k + 2)) g L.good.alive L.hdone r (List.range u.n) bytes
  obtain ⟨d', h1, h2, h3⟩ := pairStore_fault_late g L.good hpm row' data' hdl k
  refine ⟨d', ?_, h2, h3⟩
  rw [stage2U_run_of_strip ffr (d := d.withFault (k + 2)) (by rw [hwu]; exact g) L.good.alive L.hl index bytes r S.hrow
    _ hs (by rw [length_stripF]; exact S.len)]
  rw [show (d.withFault (k + 2)).flash = d.flash from rfl]
  rw [S.dec]
  simp only
  rw [h1]

/-- a power loss armed beyond the two programs of the pivot: both succeed and the tail runs with the crash still
    armed -/
theorem Stage2Store.run_crash_late {ffr : Bool} {u : Upd} {d : Dev} {index : Nat} {bytes : List Nat}
    {r p row' : Nat} {data' : List Nat} (S : Stage2Store ffr u d index bytes r p row' data') (k : Nat) :
    ∃ d', (stage2U ffr u index bytes).run (u, d.withCrash (k + 2)) =
        (stage2Tail u (u.used ||| 2 ^ p)).run (u, d') ∧ Armed k d' ∧
      d'.flash = (pairDev u d p row' data').flash := by
  have L := S.law
  have g := L.geo
  obtain ⟨hp, hpm, _, hdl, hlU⟩ := S.facts
  have hwu : warm u = u := warm_of_some g.hseg
  have hs := strip_run_live (d := d.withCrash (k + 2)) g L.good.alive L.hdone r (List.range u.n) bytes
  obtain ⟨d', h1, h2, h3⟩ := pairStore_crash_late g L.good hpm row' data' hdl k
  refine ⟨d', ?_, h2, h3⟩
  rw [stage2U_run_of_strip ffr (d := d.withCrash (k + 2)) (by rw [hwu]; exact g) L.good.alive L.hl index bytes r S.hrow
    _ hs (by rw [length_stripF]; exact S.len)]
  rw [show (d.withCrash (k + 2)).flash = d.flash from rfl]
  rw [S.dec]
  simp only
  rw [h1]

/-! ## redelivery -/

/-- the abstraction does not look at the segment-size cache -/
theorem abs_warm (x : Upd) (e : Dev) : abs (warm x, e) = abs (x, e) := rfl

/-- **redelivery of an interrupted pivot store.** `(u, d)` is the stage-2 state before the interrupted call; `(w, e)`
is a state on a device without injection whose flash is `d`'s, or `d`'s with the block of pivot `p` programmed and its
row not (an orphan block), and whose updater stands for the same session (cache filled or fillable from the header).
Then stage 2 on `(w, e)` answers as on `(u, d)`, re-establishes the session invariant (for the updater with its cache
filled), and ends with the same abstraction. -/
theorem Stage2Store.redeliver {ffr : Bool} {u : Upd} {d : Dev} {index : Nat} {bytes : List Nat} {r p row' : Nat}
    {data' : List Nat} (S : Stage2Store ffr u d index bytes r p row' data') {w : Upd} {e : Dev} (hG : Good e)
    (hf : e.flash = d.flash ∨ e.flash = d.flash.apply (.program (pAddr u p) data'))
    (hR : SameRegions u w) (hl : w.l = u.l) (hd : w.done = u.done) (hu : w.used = u.used) (hc : CacheOK w e) :
    ((stage2U ffr w index bytes).run (w, e)).1 = ((stage2U ffr u index bytes).run (u, d)).1 ∧
    Lawful (warm ((stage2U ffr w index bytes).run (w, e)).2.1) ((stage2U ffr w index bytes).run (w, e)).2.2 ∧
    CacheOK ((stage2U ffr w index bytes).run (w, e)).2.1 ((stage2U ffr w index bytes).run (w, e)).2.2 ∧
    Lawful ((stage2U ffr u index bytes).run (u, d)).2.1 ((stage2U ffr u index bytes).run (u, d)).2.2 ∧
    Fault.Eqv (abs ((stage2U ffr w index bytes).run (w, e)).2) (abs ((stage2U ffr u index bytes).run (u, d)).2) ∧
    (((stage2U ffr w index bytes).run (w, e)).2.1.n = w.n ∧ ((stage2U ffr w index bytes).run (w, e)).2.1.bs = w.bs ∧
      ((stage2U ffr w index bytes).run (w, e)).2.1.maxL = w.maxL) ∧
    Static u ((stage2U ffr u index bytes).run (u, d)).2.1 ∧
    (w.fw.segSize = some w.bs → ((stage2U ffr w index bytes).run (w, e)).2.1.fw.segSize =
      some ((stage2U ffr w index bytes).run (w, e)).2.1.bs) := by
  have L := S.law
  have g := L.geo
  obtain ⟨hp, hpm, hup, hdl, hlU⟩ := S.facts
  obtain ⟨hff, L''⟩ := S.run_ff
  obtain ⟨h1, h2, h3, h4, h5, h6, h7⟩ := g.slots
  obtain ⟨q1, q2, q3, q4⟩ := g.regions.2 p hpm
  have hRw : SameRegions u (warm w) := ⟨hR.fi, hR.fs, hR.pi, hR.ps, hR.n, hR.bs, hR.maxL, hR.mo⟩
  obtain ⟨a1, a2, a3, a4⟩ := hRw.addrs
  -- the two devices agree outside the block of the unused pivot `p`
  have hfr : ∀ x, ¬ (pAddr u p ≤ x ∧ x < pAddr u p + u.bs) → e.flash.byte x = d.flash.byte x := by
    intro x hx
    rcases hf with h | h
    · rw [h]
    · rw [h, byte_apply_program_of_not_mem _ _ _ _ (by omega)]
  have hsz : e.flash.size = d.flash.size := by
    rcases hf with h | h
    · rw [h]
    · rw [h, size_apply_program]
  have gw : Geo (warm w) e.flash.size := by rw [hsz]; exact g.transfer hR
  -- what is read is the same
  have hstr : stripF w e.flash r (List.range w.n) bytes = stripF u d.flash r (List.range u.n) bytes := by
    rw [stripF_same hR hd, hR.n]
    apply stripF_congr
    intro i hi
    have hin := L.hdone i hi
    obtain ⟨r1, r2, r3, r4⟩ := g.regions.1 i hin
    exact read_congr _ _ _ _ (fun x hx1 hx2 => hfr x (by omega))
  have hel : ∀ out, elimF w e.flash w.l (project w.done w.n r) out =
      elimF u d.flash u.l (project u.done u.n r) out := by
    intro out
    rw [elimF_same hR hu, hl, hd, hR.n]
    apply elimF_congr
    intro m hm
    have hmm : m < u.maxL := Nat.lt_of_lt_of_le (L.hech m hm).1 L.hl
    have hmp : m ≠ p := by intro h; rw [h, hup] at hm; cases hm
    obtain ⟨t1, t2, t3, t4⟩ := g.regions.2 m hmm
    have hdj := g.disjoint.2.1 m p hmp
    exact ⟨read_congr _ _ _ _ (fun x hx1 hx2 => hfr x (by omega)),
      read_congr _ _ _ _ (fun x hx1 hx2 => hfr x (by omega))⟩
  have hdonew : ∀ i, w.done.testBit i = true → i < w.n := by
    intro i hi; rw [hR.n]; exact L.hdone i (by rw [← hd]; exact hi)
  have hsc := strip_run_cold gw hG hc hdonew r (List.range w.n) bytes
  have hps := pairStore_run gw hG (show p < (warm w).maxL by show p < w.maxL; rw [hR.maxL]; exact hpm) row' data'
    (show data'.length = (warm w).bs by show _ = w.bs; rw [hR.bs]; exact hdl)
  rw [pairStore_warm] at hps
  have hrun : (stage2U ffr w index bytes).run (w, e) =
      (stage2Tail w (w.used ||| 2 ^ p)).run (w, pairDev (warm w) e p row' data') := by
    rw [stage2U_run_of_strip ffr gw hG.alive (by rw [hl, hR.maxL]; exact L.hl) index bytes r
      (by rw [hR.n]; exact S.hrow) _ hsc (by rw [length_stripF, hR.bs]; exact S.len), hel, hstr, S.dec]
    simp only
    rw [hps]
    rfl
  -- the flashes after the pair agree
  have hflash : (pairDev (warm w) e p row' data').flash = (pairDev u d p row' data').flash := by
    show (e.flash.apply (.program (pAddr (warm w) p) data')).apply (.program (rAddr (warm w) p) (rowBytes p row')) =
      (d.flash.apply (.program (pAddr u p) data')).apply (.program (rAddr u p) (rowBytes p row'))
    rw [a3, a4]
    rcases hf with h | h
    · rw [h]
    · rw [h, apply_program_idem]
  have hGe : Good (pairDev (warm w) e p row' data') := (hG.prog _ _).prog _ _
  -- the tails
  have SS : SameSession { u with used := u.used ||| 2 ^ p } (warm { w with used := w.used ||| 2 ^ p }) :=
    ⟨⟨hR.fi, hR.fs, hR.pi, hR.ps, hR.n, hR.bs, hR.maxL, hR.mo⟩, hl, hd,
      by show w.used ||| 2 ^ p = u.used ||| 2 ^ p; rw [hu], rfl⟩
  have Lw'' : Lawful' (fun i => w.done.testBit i = false) (warm { w with used := w.used ||| 2 ^ p })
      (pairDev (warm w) e p row' data') :=
    (L''.transfer hGe hflash SS).mono (fun i hi => by rw [← hd]; exact hi)
  have hc'' : CacheOK { w with used := w.used ||| 2 ^ p } (pairDev (warm w) e p row' data') := by
    have : CacheOK { w with used := w.used ||| 2 ^ p } e := hc
    apply this.frame
    intro x hx1 hx2
    have e1 : 17408 < w.fw.size := by rw [hR.fs]; exact h1
    have hx1' : fwBase u ≤ x := by simp only [fwBase]; rw [← hR.fi, ← hR.fs, Nat.mul_comm]; exact hx1
    have hx2' : x < fwBase u + 12 := by
      simp only [fwBase]; rw [← hR.fi, ← hR.fs, Nat.mul_comm]; exact hx2
    obtain ⟨t1, t2⟩ := rowBytes_spec p row'
    show ((e.flash.apply (.program (pAddr (warm w) p) data')).apply
      (.program (rAddr (warm w) p) (rowBytes p row'))).byte x = e.flash.byte x
    rw [a3, a4, byte_apply_program_of_not_mem _ _ _ _ (by rw [t2]; omega),
      byte_apply_program_of_not_mem _ _ _ _ (by rw [hdl]; omega)]
  have hl0w : w.l ≠ 0 := by rw [hl]; exact S.hl0
  have hlUw : w.l = (unknowns w.done w.n).length := by rw [hl, hd, hR.n]; exact hlU
  obtain ⟨⟨w1, w2, w3⟩, wc⟩ := stage2Tail_warm hl0w hlUw Lw'' hc'' w (warm w)
  have hSu : Sim (abs ({ u with used := u.used ||| 2 ^ p }, pairDev u d p row' data'))
      { u with used := u.used ||| 2 ^ p } (pairDev u d p row' data').flash := sim_abs _ _
  have hSw : Sim (abs ({ u with used := u.used ||| 2 ^ p }, pairDev u d p row' data'))
      { warm w with used := w.used ||| 2 ^ p } (pairDev (warm w) e p row' data').flash := by
    rw [hflash]
    exact hSu.transfer ⟨hR.fi, hR.fs, hR.pi, hR.ps, hR.n, hR.bs, hR.maxL, hR.mo⟩ hl hd (by show w.used ||| 2 ^ p = u.used ||| 2 ^ p; rw [hu])
  obtain ⟨x1, x2, x3, x4⟩ := stage2Tail_sim (u := warm w) hl0w hlUw Lw'' _ hSw (warm w)
  obtain ⟨y1, y2, y3, y4⟩ := stage2Tail_sim (u := u) S.hl0 hlU L'' _ hSu u
  rw [hrun, hff]
  have hkeep : w.fw.segSize = some w.bs →
      ((stage2Tail w (w.used ||| 2 ^ p)).run (w, pairDev (warm w) e p row' data')).2.1.fw.segSize =
        some ((stage2Tail w (w.used ||| 2 ^ p)).run (w, pairDev (warm w) e p row' data')).2.1.bs := by
    intro hw
    have hww : warm w = w := warm_of_some hw
    have hAB : (stage2Tail (warm w) (w.used ||| 2 ^ p)).run (warm w, pairDev (warm w) e p row' data') =
        (stage2Tail w (w.used ||| 2 ^ p)).run (w, pairDev (warm w) e p row' data') := by
      rw [hww]
    rw [← hAB, x4.1, x4.2.2.2.1]
  rw [hu] at w1 w2 w3 wc x1 x2 x3 x4 hkeep ⊢
  generalize (stage2Tail w (u.used ||| 2 ^ p)).run (w, pairDev (warm w) e p row' data') = A at *
  generalize (stage2Tail (warm w) (u.used ||| 2 ^ p)).run (warm w, pairDev (warm w) e p row' data') = B at *
  generalize (stage2Tail u (u.used ||| 2 ^ p)).run (u, pairDev u d p row' data') = C at *
  refine ⟨w1.trans (resCorr_unique x1 y1), ?_, wc, y2, ?_, ?_, y4, hkeep⟩
  · rw [w3, w2]; exact x2
  · have e1 := (sim_iff_eqv _ _ _).1 x3
    have e2 := (sim_iff_eqv _ _ _).1 y3
    have e3 : abs A.2 = abs B.2 := by
      rw [← abs_warm A.2.1 A.2.2, w3, w2]
    rw [e3]
    exact Fault.Eqv.trans (Fault.Eqv.symm e1) e2
  · obtain ⟨z1, z2, z3, z4, z5, z6⟩ := x4
    rw [← w3] at z3 z4 z5
    exact ⟨z3, z4, z5⟩

end Fuota.Updater
