import Fuota.Lemmas.RingFlashMarks
import Fuota.Lemmas.RingLifeSteps
/-!
# Ring ↔ flash, part 3: cancel-all, completion and the bootloader / application marks as header effects
-/
open Fuota.Nor Fuota.Fs Fuota.Layout Fuota.Updater Fuota.Slots
namespace Fuota.RingFlash
open Fuota.Ring (Used)




theorem used_hdrsOf {f : Flash} {n S i : Nat} {h : Header} :
    Used (hdrsOf f n S) i h ↔ i < n ∧ NoPanic.hdrAt f (i * S) = some h := by
  unfold Used
  by_cases hi : i < n
  · rw [hdrsOf_get f n S i hi]
    simp [hi]
  · rw [List.getElem?_eq_none (by rw [hdrsOf_length]; omega)]
    simp [hi]

/-- an ext-status program of slot `i` paired with the header effect it is -/
def MarkPair (f : Flash) (n S : Nat) (p : Op × Eff) : Prop :=
  ∃ i h e, p.2.1 = i ∧ Used (hdrsOf f n S) i h ∧ h.ext = Ext.inProgress ∧
    p.1 = .program (i * S + 16) (writeU32 (encExt C e)) ∧ p.2.2 = some { h with ext := e }

theorem slot_in_dev {n S i : Nat} {f : Flash} (hdev : n * S ≤ f.size) (hi : i < n) : i * S + S ≤ f.size := by
  have : (i + 1) * S ≤ n * S := Nat.mul_le_mul_right _ hi
  rw [Nat.add_mul] at this; omega

/-- one ext-status mark is one header effect -/
theorem markPair_step {f : Flash} {n S : Nat} {p : Op × Eff} (hwf : Crash.WF f) (hS : 28 ≤ S)
    (hdev : n * S ≤ f.size) (hp : MarkPair f n S p) : hdrsOf (f.apply p.1) n S = apply1 (hdrsOf f n S) p.2 := by
  obtain ⟨i, h, e, e1, hu, hext, hop, he⟩ := hp
  obtain ⟨hi, hh⟩ := used_hdrsOf.mp hu
  have hin := slot_in_dev hdev hi
  unfold apply1
  rw [hop, e1, he]
  apply mark_refines hi hS (by rw [Crash.writeU32_length]; omega)
  exact hdrAt_mark_ext hwf hh hext e (by omega)

/-- **a run of ext-status marks on pairwise different slots**: every prefix of the flash operations is the same
    prefix of the header effects -/
theorem marks_refine {n S : Nat} (hS : 28 ≤ S) : ∀ (ps : List (Op × Eff)) (f : Flash), Crash.WF f → n * S ≤ f.size →
    ps.Pairwise (fun p q => p.2.1 ≠ q.2.1) → (∀ p ∈ ps, MarkPair f n S p) → ∀ k,
    hdrsOf (f.applyAll ((ps.map (·.1)).take k)) n S = applyAll (hdrsOf f n S) ((ps.map (·.2)).take k) := by
  intro ps
  induction ps with
  | nil => intro f _ _ _ _ k; simp [Flash.applyAll, applyAll]
  | cons p ps ih =>
    intro f hwf hdev hnd hok k
    cases k with
    | zero => simp [Flash.applyAll, applyAll]
    | succ k =>
      rw [List.pairwise_cons] at hnd
      simp only [List.map_cons, List.take_succ_cons]
      show hdrsOf ((f.apply p.1).applyAll _) n S = applyAll (apply1 (hdrsOf f n S) p.2) _
      have hstep := markPair_step hwf hS hdev (hok p List.mem_cons_self)
      rw [← hstep]
      apply ih (f.apply p.1) (hwf.apply _) (by rw [Ops.apply_size]; exact hdev) hnd.2
      intro q hq
      obtain ⟨i, h, e, e1, hu, hext, hop, he⟩ := hok q (List.mem_cons_of_mem _ hq)
      refine ⟨i, h, e, e1, ?_, hext, hop, he⟩
      rw [hstep]
      unfold apply1
      have hne : i ≠ p.2.1 := by rw [← e1]; exact fun e' => hnd.1 q hq e'.symm
      exact Ring.used_set.mpr (Or.inr ⟨hne, hu⟩)



/-! ## cancel-all -/

/-- the programs `cancel_all_ext_pending` issues for the headers `l` (slot size `S`) -/
def cancelOps (S : Nat) (l : List (Nat × Header)) : List Op :=
  l.filterMap fun p =>
    if p.2.ext = Ext.inProgress then some (.program (p.1 * S + 16) (writeU32 (encExt C .aborted))) else none

def cancelPairs (S : Nat) (l : List (Nat × Header)) : List (Op × Eff) :=
  l.filterMap fun p =>
    if p.2.ext = Ext.inProgress then
      some (.program (p.1 * S + 16) (writeU32 (encExt C .aborted)), (p.1, some { p.2 with ext := .aborted }))
    else none

theorem cancelPairs_fst (S : Nat) (l : List (Nat × Header)) : (cancelPairs S l).map (·.1) = cancelOps S l := by
  unfold cancelPairs cancelOps
  rw [List.map_filterMap]
  congr 1
  funext p
  split <;> rfl

theorem cancelPairs_snd (S : Nat) (l : List (Nat × Header)) : (cancelPairs S l).map (·.2) = cancelEffsOf l := by
  rw [Ring.cancelEffsOf_eq]
  unfold cancelPairs Ring.effsOf Ring.cancelPhi
  rw [List.map_filterMap]
  congr 1
  funext p
  split <;> rfl

theorem pairs_sorted {φ : Nat × Header → Option (Op × Eff)} (hφ : ∀ p r, φ p = some r → r.2.1 = p.1)
    {l : List (Nat × Header)} (hs : l.Pairwise (fun p q => p.1 < q.1)) :
    (l.filterMap φ).Pairwise (fun p q => p.2.1 ≠ q.2.1) := by
  refine List.Pairwise.filterMap _ ?_ hs
  intro a a' hlt b hb b' hb'
  rw [hφ a b hb, hφ a' b' hb']
  omega

/-- **`cancel_refines`**: every prefix of the programs of `cancel_all_ext_pending` is the same prefix of the header
    effects of the machine's `cancel` -/
theorem cancel_refines {f : Flash} {n S : Nat} (hwf : Crash.WF f) (hS : 28 ≤ S) (hdev : n * S ≤ f.size) (k : Nat) :
    hdrsOf (f.applyAll ((cancelOps S (indexed (hdrsOf f n S))).take k)) n S =
      applyAll (hdrsOf f n S) ((cancelEffs (hdrsOf f n S)).take k) := by
  unfold cancelEffs
  rw [← cancelPairs_fst, ← cancelPairs_snd]
  apply marks_refine hS _ f hwf hdev
  · apply pairs_sorted _ (Ring.indexed_sorted _)
    intro p r hr
    split at hr
    · simp only [Option.some.injEq] at hr; rw [← hr]
    · cases hr
  · intro p hp
    unfold cancelPairs at hp
    rw [List.mem_filterMap] at hp
    obtain ⟨q, hq, hφ⟩ := hp
    split at hφ
    · rename_i hext
      simp only [Option.some.injEq] at hφ
      subst hφ
      exact ⟨q.1, q.2, .aborted, rfl, Ring.mem_indexed.mp hq, hext, rfl, rfl⟩
    · cases hφ



/-! ## completion: two ext-status marks -/

def completeOps (S fi pi : Nat) : List Op :=
  [.program (fi * S + 16) (writeU32 (encExt C .complete)), .program (pi * S + 16) (writeU32 (encExt C .complete))]

/-- **`complete_refines`**: the two programs of `check_and_mark_done` are the two header effects of the machine's
    `complete`; the prefix of length one is `completeCrash` -/
theorem complete_refines {f : Flash} {n S fi pi : Nat} {hf hp : Header} (hwf : Crash.WF f) (hS : 28 ≤ S)
    (hdev : n * S ≤ f.size) (huf : Used (hdrsOf f n S) fi hf) (hup : Used (hdrsOf f n S) pi hp) (hne : fi ≠ pi)
    (hef : hf.ext = Ext.inProgress) (hep : hp.ext = Ext.inProgress) (k : Nat) :
    ∃ es, completeEffs (hdrsOf f n S) fi pi = some es ∧
      hdrsOf (f.applyAll ((completeOps S fi pi).take k)) n S = applyAll (hdrsOf f n S) (es.take k) := by
  refine ⟨[(fi, some { hf with ext := .complete }), (pi, some { hp with ext := .complete })], ?_, ?_⟩
  · unfold completeEffs
    rw [Ring.getD_eq_some.mpr huf, Ring.getD_eq_some.mpr hup]
  · have := marks_refine (n := n) hS
      [(.program (fi * S + 16) (writeU32 (encExt C .complete)), (fi, some { hf with ext := .complete })),
       (.program (pi * S + 16) (writeU32 (encExt C .complete)), (pi, some { hp with ext := .complete }))]
      f hwf hdev (by simp [hne]) (by
        intro p hp'
        simp only [List.mem_cons, List.not_mem_nil, or_false] at hp'
        rcases hp' with rfl | rfl
        · exact ⟨fi, hf, .complete, rfl, huf, hef, rfl, rfl⟩
        · exact ⟨pi, hp, .complete, rfl, hup, hep, rfl, rfl⟩) k
    exact this

/-! ## the bootloader / application marks -/

theorem status_bwip_ist {h : Header} (hst : totalStatus h = TotalStatus.bootloadWriteInProgress) :
    h.ist = IntSt.inProgress := by
  obtain ⟨k, s, sz, n, e, i, b⟩ := h
  unfold totalStatus at hst
  generalize (s != 0xFFFFFFFF) = v at hst
  cases v <;> cases e <;> cases i <;> cases b <;> simp at hst ⊢

theorem status_fbpa_boot {h : Header} (hst : totalStatus h = TotalStatus.firstBootPendingAck) :
    h.boot = Boot.untested := by
  obtain ⟨k, s, sz, n, e, i, b⟩ := h
  unfold totalStatus at hst
  generalize (s != 0xFFFFFFFF) = v at hst
  cases v <;> cases e <;> cases i <;> cases b <;> simp at hst ⊢

theorem getD_hdrsOf {f : Flash} {n S i : Nat} (hi : i < n) : (hdrsOf f n S).getD i none = NoPanic.hdrAt f (i * S) := by
  rw [List.getD_eq_getElem?_getD, hdrsOf_get f n S i hi]; rfl

/-- **`copyDone_refines`**: `mark_int_status_complete` on the slot `bl_boot_status` names -/
theorem copyDone_refines {f : Flash} {n S i : Nat} (hwf : Crash.WF f) (hS : 28 ≤ S) (hdev : n * S ≤ f.size)
    (hbl : blStatus (hdrsOf f n S) = some (.inl i)) :
    ∃ e, copyDoneEff (hdrsOf f n S) = some e ∧
      hdrsOf (f.apply (.program (i * S + 20) (writeU32 (encInt C .complete)))) n S = apply1 (hdrsOf f n S) e := by
  obtain ⟨i', h, ⟨hu, _⟩, hr, -⟩ := Ring.blStatus_eq_some.mp hbl
  have hii : i' = i := by
    by_cases hst : totalStatus h = TotalStatus.bootloadWriteInProgress
    · simp only [hst, ↓reduceIte, Sum.inl.injEq] at hr; exact hr.symm
    · simp [hst] at hr
  subst hii
  obtain ⟨_, hst⟩ := Ring.blStatus_inl hbl hu
  obtain ⟨hi, hh⟩ := used_hdrsOf.mp hu
  refine ⟨(i', some { h with ist := .complete }), ?_, ?_⟩
  · unfold copyDoneEff
    rw [hbl]
    simp only
    rw [getD_hdrsOf hi, hh]; rfl
  · unfold apply1
    apply mark_refines hi hS (by rw [Crash.writeU32_length]; omega)
    exact hdrAt_mark_int hwf hh (status_bwip_ist hst) .complete (by have := slot_in_dev hdev hi; omega)

/-- **`confirm_refines` / `reject_refines`**: `mark_boot_outcome_*` on the slot `bl_boot_status` names -/
theorem bootMark_refines {f : Flash} {n S i : Nat} (hwf : Crash.WF f) (hS : 28 ≤ S) (hdev : n * S ≤ f.size)
    (hbl : blStatus (hdrsOf f n S) = some (.inr i)) :
    (∃ e, confirmEff (hdrsOf f n S) = some e ∧
      hdrsOf (f.apply (.program (i * S + 24) (writeU32 (encBoot C .successful)))) n S = apply1 (hdrsOf f n S) e) ∧
    (∃ e, rejectEff (hdrsOf f n S) = some e ∧
      hdrsOf (f.apply (.program (i * S + 24) (writeU32 (encBoot C .unsuccessful)))) n S = apply1 (hdrsOf f n S) e) := by
  obtain ⟨i', h, ⟨hu, _⟩, hr, -⟩ := Ring.blStatus_eq_some.mp hbl
  have hii : i' = i := by
    by_cases hst : totalStatus h = TotalStatus.bootloadWriteInProgress
    · simp [hst] at hr
    · simp only [hst, ↓reduceIte, Sum.inr.injEq] at hr; exact hr.symm
  subst hii
  obtain ⟨_, hst⟩ := Ring.blStatus_inr hbl hu
  obtain ⟨hi, hh⟩ := used_hdrsOf.mp hu
  have hin : i' * S + 28 ≤ f.size := by have := slot_in_dev hdev hi; omega
  constructor
  · refine ⟨(i', some { h with boot := .successful }), ?_, ?_⟩
    · unfold confirmEff
      rw [hbl]
      simp only
      rw [getD_hdrsOf hi, hh]; rfl
    · unfold apply1
      apply mark_refines hi hS (by rw [Crash.writeU32_length]; omega)
      exact hdrAt_mark_boot hwf hh (status_fbpa_boot hst) .successful hin
  · refine ⟨(i', some { h with boot := .unsuccessful }), ?_, ?_⟩
    · unfold rejectEff
      rw [hbl]
      simp only
      rw [getD_hdrsOf hi, hh]; rfl
    · unfold apply1
      apply mark_refines hi hS (by rw [Crash.writeU32_length]; omega)
      exact hdrAt_mark_boot hwf hh (status_fbpa_boot hst) .unsuccessful hin


end Fuota.RingFlash
