import Fuota.Lemmas.ReconStep
/-!
# Progress counter of the reconstructor: number of data blocks present plus number of pivots stored
-/
namespace Fuota.Recon
open Fuota.Gf2

/-- number of set bits of `m` below `k` -/
def pop (m : Nat) : Nat → Nat
  | 0 => 0
  | k + 1 => pop m k + (if m.testBit k then 1 else 0)

/-- the progress counter: data blocks present plus pivots stored -/
def received (s : St) : Nat := pop s.done s.n + pop s.used s.l

/-- at most `k` bits are set below `k` -/
theorem pop_le (m k : Nat) : pop m k ≤ k := by
  induction k with
  | zero => exact Nat.le_refl _
  | succ k ih => simp only [pop]; split <;> omega

/-- all `k` bits below `k` are counted exactly when all are set -/
theorem pop_eq_iff (m k : Nat) : pop m k = k ↔ ∀ i, i < k → m.testBit i = true := by
  induction k with
  | zero => simp [pop]
  | succ k ih =>
    simp only [pop]
    have hle := pop_le m k
    constructor
    · intro h i hi
      by_cases hb : m.testBit k = true
      · simp only [hb, ↓reduceIte] at h
        by_cases hik : i = k
        · subst hik; exact hb
        · exact ih.1 (by omega) i (by omega)
      · simp only [hb] at h; simp at h; omega
    · intro h
      rw [ih.2 (fun i hi => h i (by omega)), h k (by omega)]
      simp

/-- the count only depends on the bits below `k` -/
theorem pop_congr (m m' k : Nat) (h : ∀ i, i < k → m.testBit i = m'.testBit i) : pop m k = pop m' k := by
  induction k with
  | zero => rfl
  | succ k ih => simp only [pop]; rw [ih (fun i hi => h i (by omega)), h k (by omega)]

/-- a mask without bits counts zero -/
theorem pop_of_no_bits (m k : Nat) (h : ∀ i, m.testBit i = false) : pop m k = 0 := by
  induction k with
  | zero => rfl
  | succ k ih => simp [pop, ih, h k]

/-- counting beyond the highest possible bit adds nothing -/
theorem pop_of_lt (m k k' : Nat) (hk : k ≤ k') (h : ∀ i, k ≤ i → m.testBit i = false) : pop m k' = pop m k := by
  induction k' with
  | zero => have : k = 0 := by omega
            subst this; rfl
  | succ k' ih =>
    by_cases hkk : k = k' + 1
    · subst hkk; rfl
    · simp only [pop]; rw [ih (by omega), h k' (by omega)]; simp

/-- setting a fresh bit below `k` raises the count by one -/
theorem pop_or_two_pow (m q k : Nat) (hq : q < k) (hb : m.testBit q = false) :
    pop (m ||| 2 ^ q) k = pop m k + 1 := by
  induction k with
  | zero => omega
  | succ k ih =>
    simp only [pop, testBit_or_two_pow]
    by_cases hqk : q = k
    · subst hqk
      rw [pop_congr (m ||| 2 ^ q) m q (fun i hi => by
        simp only [testBit_or_two_pow]
        have : decide (q = i) = false := by simp; omega
        simp [this])]
      simp [hb]
    · have : decide (q = k) = false := by simp [hqk]
      rw [ih (by omega), this]
      simp only [Bool.or_false]
      omega

/-- the unknown blocks are those not counted -/
theorem pop_add_unknowns (done n : Nat) : pop done n + (unknowns done n).length = n := by
  induction n with
  | zero => rfl
  | succ n ih =>
    have hu : unknowns done (n + 1) = unknowns done n ++ (if done.testBit n then [] else [n]) := by
      simp only [unknowns, List.range_succ, List.filter_append]
      cases hb : done.testBit n <;> simp [hb]
    rw [hu, List.length_append]
    simp only [pop]
    cases hb : done.testBit n <;> simp <;> omega

variable {n bs vbits numRows : Nat} {x : Nat → Nat}

/-- no bit of `done` at or above `n`: the clamp of the Rust counter is the identity on the data part -/
theorem Core.done_lt {s : St} (h : Core n bs vbits numRows x s) : s.done < 2 ^ n := by
  apply Nat.lt_pow_two_of_testBit
  intro i hi
  cases hb : s.done.testBit i with
  | false => rfl
  | true => have := h.hdn i hb; omega

/-- no bit of `used` at or above `l` -/
theorem Core.used_lt {s : St} (h : Core n bs vbits numRows x s) : s.used < 2 ^ s.l := by
  apply Nat.lt_pow_two_of_testBit
  intro i hi
  cases hb : s.used.testBit i with
  | false => rfl
  | true => have := (h.hech i hb).1; omega

/-- the counter never exceeds the block count -/
theorem Core.received_le {s : St} (h : Core n bs vbits numRows x s) : received s ≤ n := by
  unfold received
  have h1 := pop_le s.used s.l
  have h2 := pop_add_unknowns s.done s.n
  rw [h.hn] at h2 ⊢
  by_cases hl : s.l = 0
  · rw [hl] at h1 ⊢; omega
  · have := h.hst2 hl
    rw [h.hn] at this
    have h3 : pop s.used s.l ≤ (unknowns s.done n).length := by rw [← this]; exact h1
    omega

/-- the counter reaches the block count exactly when the session is complete -/
theorem Core.received_eq_iff {s : St} (h : Core n bs vbits numRows x s) :
    received s = n ↔ isComplete s = true := by
  unfold received
  have h2 := pop_add_unknowns s.done s.n
  by_cases hl : s.l = 0
  · rw [isComplete_stage1 s hl, ← pop_eq_iff, hl, h.hn]
    simp [pop]
  · rw [isComplete_stage2 s hl, ← pop_eq_iff]
    have := h.hst2 hl
    rw [h.hn] at h2 this ⊢
    constructor <;> intro _ <;> omega

/-- what one fault-free step does to the four fields the counter and `isComplete` look at -/
theorem handleBlock_progress (V : Variant) (P : Nat → Nat) (vb nr : Nat) (s : St) (i d : Nat)
    (hE : Ech s.l s.used s.ms) (hl : s.l ≠ 0 → s.l = (unknowns s.done s.n).length) :
    received s ≤ received (handleBlock V noFault P vb nr s i d s.bs).1 ∧
    (isComplete (handleBlock V noFault P vb nr s i d s.bs).1 = true →
      (handleBlock V noFault P vb nr s i d s.bs).2 = .done (s.n * s.bs)) := by
  have hfin : ∀ s2 : St, s2.n = s.n → s2.bs = s.bs → received s ≤ received s2 →
      received s ≤ received (finishIf s2).1 ∧
      (isComplete (finishIf s2).1 = true → (finishIf s2).2 = .done (s.n * s.bs)) := by
    intro s2 en eb hle
    unfold finishIf
    by_cases hc : isComplete s2 = true
    · obtain ⟨e1, e2, e3, e4, e5, _, _⟩ := foldl_finStep_frame (unknowns s2.done s2.n) (List.range s2.l) s2
      have hrec : received ((List.range s2.l).foldl (finStep (unknowns s2.done s2.n)) s2) = received s2 := by
        unfold received; rw [e1, e3, e4, e5]
      simp only [hc, ↓reduceIte]
      rw [hrec, en, eb]
      exact ⟨hle, fun _ => rfl⟩
    · have hc' : isComplete s2 = false := by simpa using hc
      simp only [hc', Bool.false_eq_true, ↓reduceIte]
      exact ⟨hle, fun h => by simp at h⟩
  have hst2 : ∀ s1 : St, s1.n = s.n → s1.bs = s.bs → Ech s1.l s1.used s1.ms →
      s1.l = (unknowns s1.done s1.n).length → received s ≤ received s1 →
      received s ≤ received (stage2 noFault P s1 i d).1 ∧
      (isComplete (stage2 noFault P s1 i d).1 = true → (stage2 noFault P s1 i d).2 = .done (s.n * s.bs)) := by
    intro s1 en eb hE1 hl1 hle
    obtain ⟨sel, R, _, _, hcase⟩ := stage2_cases P s1 i d hE1 hl1
    rcases hcase with ⟨_, he⟩ | ⟨q, hq, hqu, _, _, he⟩
    · rw [he]; exact hfin _ en eb hle
    · rw [he]
      refine hfin _ en eb ?_
      refine Nat.le_trans hle ?_
      unfold received
      simp only [pushLog_done, pushLog_n, pushLog_l]
      rw [pop_or_two_pow s1.used q s1.l hq hqu]
      omega
  rw [handleBlock_eq]
  by_cases hc : isComplete s = true
  · simp only [hc, ↓reduceIte]
    exact ⟨Nat.le_refl _, fun _ => trivial⟩
  have hc' : isComplete s = false := by simpa using hc
  rw [if_neg hc]
  by_cases hpar : s.n ≤ i ∧ s.l = 0
  · by_cases hcap : vb < (unknowns s.done s.n).length ∨ nr < (unknowns s.done s.n).length
    · rw [if_pos ⟨hpar.1, hpar.2, hcap⟩]
      exact ⟨Nat.le_refl _, fun h => by rw [hc'] at h; cases h⟩
    · have hne := unknowns_length_ne_zero s hpar.2 hc'
      rw [if_neg (fun h => hcap h.2.2)]
      simp only [if_pos hpar]
      rw [if_neg hne]
      have hnoused : ∀ p, s.used.testBit p = false := fun p => by
        cases hb : s.used.testBit p with
        | false => rfl
        | true => have := (hE p hb).1; omega
      refine hst2 _ rfl rfl (fun p hp => by rw [hnoused p] at hp; cases hp) rfl ?_
      unfold received
      simp only
      rw [pop_of_no_bits s.used _ hnoused, pop_of_no_bits s.used _ hnoused]
      exact Nat.le_refl _
  · rw [if_neg (fun h => hpar ⟨h.1, h.2.1⟩)]
    simp only [if_neg hpar]
    by_cases hl0 : s.l = 0
    · rw [if_pos hl0]
      by_cases hd : s.done.testBit i = true
      · simp only [stage1, hd, ↓reduceIte, hc', Bool.false_eq_true]
        exact ⟨Nat.le_refl _, fun h => by simp at h⟩
      · have hd' : s.done.testBit i = false := by simpa using hd
        have hi : i < s.n := by
          have : ¬ s.n ≤ i := fun h => hpar ⟨h, hl0⟩
          omega
        rw [stage1_noFault V s i d hd']
        refine ⟨?_, fun h => by simp only [h, ↓reduceIte]⟩
        unfold received
        simp only [pushLog_n, pushLog_l, pushLog_used]
        rw [pop_or_two_pow s.done i s.n hi hd']
        omega
    · rw [if_neg hl0]
      exact hst2 s rfl rfl hE (hl hl0) (Nat.le_refl _)

/-- in a fault-free run from a state satisfying the invariant, a complete final state means the last delivery
    (if any) answered `Done` -/
theorem runBlocks_last_done {P : Nat → Nat} (hP : Contract n P) (V : Variant) : ∀ (is : List Nat) (s : St),
    Inv n bs vbits numRows x s → is ≠ [] →
    isComplete (runBlocks V noFault P vbits numRows (fun i => combo x (P i) n) s is).1 = true →
    (runBlocks V noFault P vbits numRows (fun i => combo x (P i) n) s is).2.getLast? = some (.done (n * bs)) := by
  intro is
  induction is with
  | nil => intro s _ h; exact absurd rfl h
  | cons i is ih =>
    intro s hI _ hc
    obtain ⟨hI1, _⟩ := handleBlock_inv hP V hI i
    cases is with
    | nil =>
      simp only [runBlocks] at hc ⊢
      have := (handleBlock_progress V P vbits numRows s i (combo x (P i) n) hI.core.hech hI.core.hst2).2 hc
      rw [List.getLast?_singleton, this, hI.core.hn, hI.core.hbs]
    | cons j js =>
      have := ih _ hI1 (by simp) (by simpa [runBlocks] using hc)
      simp only [runBlocks] at this ⊢
      rw [List.getLast?_cons_cons]
      exact this

/-- once some delivery of a fault-free run answered `Done` (or the run started complete), the final state is
    complete -/
theorem runBlocks_complete_of_done {P : Nat → Nat} (hP : Contract n P) (V : Variant) : ∀ (is : List Nat) (s : St),
    Inv n bs vbits numRows x s →
    (isComplete s = true ∨
      ∃ b, Res.done b ∈ (runBlocks V noFault P vbits numRows (fun i => combo x (P i) n) s is).2) →
    isComplete (runBlocks V noFault P vbits numRows (fun i => combo x (P i) n) s is).1 = true := by
  intro is
  induction is with
  | nil =>
    intro s _ h
    rcases h with h | ⟨b, hb⟩
    · exact h
    · simp [runBlocks] at hb
  | cons i is ih =>
    intro s hI h
    obtain ⟨hI1, hg⟩ := handleBlock_inv hP V hI i
    simp only [runBlocks] at h ⊢
    apply ih _ hI1
    rcases h with h | ⟨b, hb⟩
    · left
      rw [handleBlock_eq, if_pos h]
      exact h
    · rcases List.mem_cons.1 hb with hb | hb
      · left
        rcases hg with hg | hg | ⟨_, hg⟩
        · rw [hg] at hb; cases hb
        · rw [hg] at hb; cases hb
        · exact hg
      · exact Or.inr ⟨b, hb⟩

/-- a run over `is ++ js` is the run over `is` followed by the run over `js` -/
theorem runBlocks_append (V : Variant) (F : Nat → Bool) (P : Nat → Nat) (vb nr : Nat) (blk : Nat → Nat) :
    ∀ (is js : List Nat) (s : St),
      runBlocks V F P vb nr blk s (is ++ js) =
        ((runBlocks V F P vb nr blk (runBlocks V F P vb nr blk s is).1 js).1,
         (runBlocks V F P vb nr blk s is).2 ++ (runBlocks V F P vb nr blk (runBlocks V F P vb nr blk s is).1 js).2) := by
  intro is
  induction is with
  | nil => intro js s; simp [runBlocks]
  | cons i is ih => intro js s; simp only [List.cons_append, runBlocks, ih]

end Fuota.Recon
