import Fuota.Model.Naive
/-!
# The repair scan of `repair_step` (both crates): what `scanMissing`, `exactlyOne`, `pickRepair` decide
-/
namespace Fuota.V1

/-- data fragment `i` is covered by the row and not received -/
def miss (row recv i : Nat) : Bool := row.testBit i && !recv.testBit i

theorem scanMissing_some (row recv : Nat) (is : List Nat) (x : Nat) :
    scanMissing row recv is (some x) = if is.all (fun i => !miss row recv i) then some (some x) else none := by
  induction is with
  | nil => rfl
  | cons i is ih =>
    unfold scanMissing
    by_cases h : (row.testBit i && !recv.testBit i) = true
    · have hm : miss row recv i = true := h
      simp [h, List.all_cons, hm]
    · have hm : miss row recv i = false := by simpa [miss] using h
      simp only [h, Bool.false_eq_true, ↓reduceIte, ih, List.all_cons, hm, Bool.not_false, Bool.true_and]

theorem scanMissing_none (row recv : Nat) (is : List Nat) :
    scanMissing row recv is none =
      match is.filter (miss row recv) with
      | [] => some none
      | [a] => some (some a)
      | _ :: _ :: _ => none := by
  induction is with
  | nil => rfl
  | cons i is ih =>
    unfold scanMissing
    by_cases h : (row.testBit i && !recv.testBit i) = true
    · have hm : miss row recv i = true := h
      simp only [h, ↓reduceIte, List.filter_cons, hm, scanMissing_some]
      cases hf : is.filter (miss row recv) with
      | nil =>
        have : is.all (fun i => !miss row recv i) = true := by
          rw [List.all_eq_true]
          intro j hj
          have : j ∉ is.filter (miss row recv) := by rw [hf]; simp
          simp only [List.mem_filter, hj, true_and] at this
          simpa using this
        simp [this]
      | cons b bs =>
        have : is.all (fun i => !miss row recv i) = false := by
          have hb : b ∈ is.filter (miss row recv) := by rw [hf]; simp
          rw [List.mem_filter] at hb
          rw [List.all_eq_false]
          exact ⟨b, hb.1, by simp [hb.2]⟩
        simp [this]
    · have hm : miss row recv i = false := by simpa [miss] using h
      simp only [h, Bool.false_eq_true, ↓reduceIte, List.filter_cons, hm, ih]

theorem exactlyOne_eq (row recv len : Nat) :
    exactlyOne row recv len =
      match (List.range len).filter (miss row recv) with
      | [a] => some a
      | _ => none := by
  unfold exactlyOne
  rw [scanMissing_none]
  cases (List.range len).filter (miss row recv) with
  | nil => rfl
  | cons a t => cases t <;> rfl

theorem filter_range_singleton (p : Nat → Bool) (len m : Nat) :
    (List.range len).filter p = [m] ↔ (m < len ∧ p m = true ∧ ∀ i, i < len → p i = true → i = m) := by
  constructor
  · intro h
    have hm : m ∈ (List.range len).filter p := by rw [h]; simp
    rw [List.mem_filter, List.mem_range] at hm
    refine ⟨hm.1, hm.2, fun i hi hp => ?_⟩
    have : i ∈ (List.range len).filter p := by rw [List.mem_filter, List.mem_range]; exact ⟨hi, hp⟩
    rw [h] at this
    simpa using this
  · rintro ⟨hm, hp, hu⟩
    have hnd : ((List.range len).filter p).Nodup := List.Nodup.sublist List.filter_sublist List.nodup_range
    have hall : ∀ x ∈ (List.range len).filter p, x = m := by
      intro x hx
      rw [List.mem_filter, List.mem_range] at hx
      exact hu x hx.1 hx.2
    have hmem : m ∈ (List.range len).filter p := by rw [List.mem_filter, List.mem_range]; exact ⟨hm, hp⟩
    generalize (List.range len).filter p = l at hnd hall hmem
    match l, hnd, hall, hmem with
    | [], _, _, hmem => simp at hmem
    | [a], _, hall, _ => rw [hall a (by simp)]
    | a :: b :: t, hnd, hall, _ =>
      have ha := hall a (by simp)
      have hb := hall b (by simp)
      rw [List.nodup_cons] at hnd
      exact absurd (by rw [ha, hb]; simp) hnd.1

/-- **exactly one**: the scan returns `m` iff `m` is the only covered-and-missing data fragment below `len` -/
theorem exactlyOne_iff (row recv len m : Nat) :
    exactlyOne row recv len = some m ↔
      (m < len ∧ row.testBit m = true ∧ recv.testBit m = false ∧
        ∀ i, i < len → i ≠ m → row.testBit i = true → recv.testBit i = true) := by
  rw [exactlyOne_eq]
  have key := filter_range_singleton (miss row recv) len m
  constructor
  · intro h
    have hf : (List.range len).filter (miss row recv) = [m] := by
      match hl : (List.range len).filter (miss row recv), h with
      | [a], h => simp at h; rw [h]
    obtain ⟨h1, h2, h3⟩ := key.mp hf
    simp only [miss, Bool.and_eq_true, Bool.not_eq_eq_eq_not, Bool.not_true] at h2
    refine ⟨h1, h2.1, h2.2, fun i hi hne hr => ?_⟩
    cases hb : recv.testBit i
    · exact absurd (h3 i hi (by simp [miss, hr, hb])) hne
    · rfl
  · rintro ⟨h1, h2, h3, h4⟩
    have hf : (List.range len).filter (miss row recv) = [m] := by
      apply key.mpr
      refine ⟨h1, by simp [miss, h2, h3], fun i hi hp => ?_⟩
      simp only [miss, Bool.and_eq_true, Bool.not_eq_eq_eq_not, Bool.not_true] at hp
      cases Nat.decEq i m with
      | isTrue e => exact e
      | isFalse ne => have := h4 i hi ne hp.1; rw [hp.2] at this; cases this
    rw [hf]

theorem exactlyOne_lt {row recv len m : Nat} (h : exactlyOne row recv len = some m) : m < len :=
  ((exactlyOne_iff row recv len m).mp h).1

/-- what a successful pick means -/
theorem pickRepair_some {rowOf : Nat → Option Nat} {recvFw recvPar planLen : Nat} {ps : List Nat} {p m row : Nat}
    (h : pickRepair rowOf recvFw recvPar planLen ps = .ok (some (p, m, row))) :
    p ∈ ps ∧ recvPar.testBit p = true ∧ rowOf p = some row ∧ exactlyOne row recvFw planLen = some m := by
  induction ps with
  | nil => simp [pickRepair] at h
  | cons q qs ih =>
    unfold pickRepair at h
    by_cases hq : recvPar.testBit q = true
    · simp only [hq, ↓reduceIte] at h
      cases hr : rowOf q with
      | none => simp [hr] at h
      | some r =>
        simp only [hr] at h
        cases he : exactlyOne r recvFw planLen with
        | none =>
          simp only [he] at h
          obtain ⟨a, b, c, d⟩ := ih h
          exact ⟨by simp [a], b, c, d⟩
        | some fwi =>
          simp only [he, Except.ok.injEq, Option.some.injEq, Prod.mk.injEq] at h
          obtain ⟨rfl, rfl, rfl⟩ := h
          exact ⟨by simp, hq, hr, he⟩
    · simp only [hq, Bool.false_eq_true, ↓reduceIte] at h
      obtain ⟨a, b, c, d⟩ := ih h
      exact ⟨by simp [a], b, c, d⟩

/-- what "nothing to repair" means: every received coded fragment has zero or at least two missing covered fragments -/
theorem pickRepair_none {rowOf : Nat → Option Nat} {recvFw recvPar planLen : Nat} {ps : List Nat}
    (h : pickRepair rowOf recvFw recvPar planLen ps = .ok none) :
    ∀ p ∈ ps, recvPar.testBit p = true → ∃ row, rowOf p = some row ∧ exactlyOne row recvFw planLen = none := by
  induction ps with
  | nil => intro p hp; simp at hp
  | cons q qs ih =>
    unfold pickRepair at h
    intro p hp hb
    by_cases hq : recvPar.testBit q = true
    · simp only [hq, ↓reduceIte] at h
      cases hr : rowOf q with
      | none => simp [hr] at h
      | some r =>
        simp only [hr] at h
        cases he : exactlyOne r recvFw planLen with
        | none =>
          simp only [he] at h
          rcases List.mem_cons.mp hp with rfl | hp'
          · exact ⟨r, hr, he⟩
          · exact ih h p hp' hb
        | some fwi => simp [he] at h
    · simp only [hq, Bool.false_eq_true, ↓reduceIte] at h
      rcases List.mem_cons.mp hp with rfl | hp'
      · exact absurd hb hq
      · exact ih h p hp' hb

/-- the pick never fails when every received coded fragment has a row -/
theorem pickRepair_ok {rowOf : Nat → Option Nat} {recvFw recvPar planLen : Nat} {ps : List Nat}
    (hrow : ∀ p ∈ ps, recvPar.testBit p = true → (rowOf p).isSome = true) :
    ∃ r, pickRepair rowOf recvFw recvPar planLen ps = .ok r := by
  induction ps with
  | nil => exact ⟨none, rfl⟩
  | cons q qs ih =>
    have ih' := ih (fun p hp hb => hrow p (by simp [hp]) hb)
    unfold pickRepair
    by_cases hq : recvPar.testBit q = true
    · simp only [hq, ↓reduceIte]
      have := hrow q (by simp) hq
      cases hr : rowOf q with
      | none => simp [hr] at this
      | some r =>
        simp only
        cases he : exactlyOne r recvFw planLen with
        | none => simpa using ih'
        | some fwi => exact ⟨_, rfl⟩
    · simpa [hq] using ih'

/-- only received coded fragments matter: scanning a longer index range finds the same repair -/
theorem pickRepair_filter (rowOf : Nat → Option Nat) (recvFw recvPar planLen : Nat) (ps : List Nat) :
    pickRepair rowOf recvFw recvPar planLen ps =
      pickRepair rowOf recvFw recvPar planLen (ps.filter (fun p => recvPar.testBit p)) := by
  induction ps with
  | nil => rfl
  | cons q qs ih =>
    by_cases hq : recvPar.testBit q = true
    · simp only [List.filter_cons, hq, ↓reduceIte]
      conv => lhs; unfold pickRepair
      conv => rhs; unfold pickRepair
      simp only [hq, ↓reduceIte, ih]
    · simp only [List.filter_cons, hq, Bool.false_eq_true, ↓reduceIte]
      conv => lhs; unfold pickRepair
      simp only [hq, Bool.false_eq_true, ↓reduceIte, ih]

end Fuota.V1
