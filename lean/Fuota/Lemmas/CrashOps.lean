import Fuota.Lemmas.CrashKeeps
/-!
# The crash invariant under each kind of operation, and the slot-level routines

Ring parameters: `nslots` slots of `s` bytes, erase-block size `B`. Standing assumptions where needed:
`17412 ≤ s` (the slot holds at least the stored CRC) and `28 ≤ B` (the first erase block of a slot contains the
whole header).
-/
namespace Fuota.Crash
open Fuota.Nor Fuota.Fs Fuota.Layout Fuota.Ops Fuota.Updater Fuota.C14

variable {nslots s B : Nat}

/-! ## one operation -/

theorem cvw_of_extSup_after {f : Flash} (h : CVW nslots s B f) (hs : 17412 ≤ s) (i : Nat) (op : Op)
    (hin : InSlot B s i op) (hx : ExtSup (f.apply op) (i * s)) : CVW nslots s B (f.apply op) :=
  h.step hs i op hin (fun _ => safeW_of_extSup (h.wf.apply op) hx)

theorem cvw_of_kind_after {f : Flash} (h : CVW nslots s B f) (hs : 17412 ≤ s) (i : Nat) (op : Op)
    (hin : InSlot B s i op) (hk : word (f.apply op) (i * s) ≠ 0) : CVW nslots s B (f.apply op) :=
  h.step hs i op hin (fun _ => safeW_of_kind hk)

/-- an erase inside slot `i`, either of its first block or when the external-status word is already erased -/
theorem cvw_erase {f : Flash} (h : CVW nslots s B f) (hs : 17412 ≤ s) (hB : 28 ≤ B) (i a : Nat)
    (hin : InSlot B s i (.erase a)) (hx : HdrFF f (i * s) ∨ a = i * s) :
    CVW nslots s B (f.apply (.erase a)) ∧ HdrFF (f.apply (.erase a)) (i * s) := by
  have hff : HdrFF (f.apply (.erase a)) (i * s) := by
    rcases hx with hx | rfl
    · exact hdrFF_erase a hx
    · exact hdrFF_erase_first _ (by rw [h.block]; exact hB)
  exact ⟨cvw_of_extSup_after h hs i _ hin hff.ext.sup, hff⟩

/-- a program inside slot `i` that touches neither the kind, size, count, external-status words nor the data
    region (sequence number, internal status, boot status: whole or torn) -/
theorem cvw_meta_program {f : Flash} (h : CVW nslots s B f) (hs : 17412 ≤ s) (i off : Nat) (bs : List Nat)
    (hoff : off = 4 ∨ off = 20 ∨ off = 24) (hl : bs.length ≤ 4) :
    CVW nslots s B (f.apply (.program (i * s + off) bs)) := by
  have hin : InSlot B s i (.program (i * s + off) bs) := ⟨by omega, by omega⟩
  apply h.step hs i _ hin
  intro hi
  have hu : ∀ x, Touches f.block (.program (i * s + off) bs) x → i * s + off ≤ x ∧ x < i * s + off + 4 := by
    intro x hx; obtain ⟨h1, h2⟩ := hx; omega
  apply safeW_transfer f _ s i hs (apply_size _ _)
  · exact word_apply_untouched _ _ _ (fun j hj ht => by have := hu _ ht; omega)
  · exact word_apply_untouched _ _ _ (fun j hj ht => by have := hu _ ht; omega)
  · exact word_apply_untouched _ _ _ (fun j hj ht => by have := hu _ ht; omega)
  · exact word_apply_untouched _ _ _ (fun j hj ht => by have := hu _ ht; omega)
  · exact fun x h1 h2 => byte_apply_untouched _ _ _ (fun ht => by have := hu _ ht; omega)
  · exact h.safe i hi

/-- a program of the external-status word of a slot whose content is good (the gate of `check_and_mark_done`) -/
theorem cvw_seal_program {f : Flash} (h : CVW nslots s B f) (hs : 17412 ≤ s) (i : Nat) (bs : List Nat)
    (hl : bs.length ≤ 4) (hc : Content f s i) : CVW nslots s B (f.apply (.program (i * s + 16) bs)) := by
  have hin : InSlot B s i (.program (i * s + 16) bs) := ⟨by omega, by omega⟩
  apply h.step hs i _ hin
  intro _ _
  have hu : ∀ x, Touches f.block (.program (i * s + 16) bs) x → i * s + 16 ≤ x ∧ x < i * s + 20 := by
    intro x hx; obtain ⟨h1, h2⟩ := hx; omega
  apply content_transfer f _ s i hs (apply_size _ _)
  · exact word_apply_untouched _ _ _ (fun j hj ht => by have := hu _ ht; omega)
  · exact word_apply_untouched _ _ _ (fun j hj ht => by have := hu _ ht; omega)
  · exact fun x h1 h2 => byte_apply_untouched _ _ _ (fun ht => by have := hu _ ht; omega)
  · exact hc

/-- the bytes a (torn) program of a 4-byte word can touch -/
theorem torn_word (p keep a : Nat) (bs : List Nat) (hl : bs.length = 4) :
    ∃ bs', tear p keep (.program a bs) = .program a bs' ∧ bs'.length ≤ 4 := by
  obtain ⟨bs', e, h1, _⟩ := tear_program p keep a bs
  exact ⟨bs', e, by omega⟩

/-! ## status marks that cannot seal a slot -/

/-- **internal-status, boot-status and sequence-number words** (whole or torn) never break the invariant -/
theorem metaWord_keeps (hs : 17412 ≤ s) (i off w : Nat) (hoff : off = 4 ∨ off = 20 ∨ off = 24) :
    Keeps (CVW nslots s B) (writeFrom (i * s + off) (writeU32 w)) (fun _ => CVW nslots s B) (CVW nslots s B) := by
  apply Keeps.writeFrom
  intro f hf
  refine ⟨hf, fun _ => ⟨?_, ?_, ?_⟩⟩
  · intro p keep
    obtain ⟨bs', e, hl⟩ := torn_word p keep (i * s + off) (writeU32 w) rfl
    rw [e]
    exact cvw_meta_program hf hs i off bs' hoff hl
  · exact cvw_meta_program hf hs i off _ hoff (Nat.le_of_eq rfl)
  · exact cvw_meta_program hf hs i off _ hoff (Nat.le_of_eq rfl)

theorem supAA_aborted : SupAA (writeU32 (encExt C .aborted)) := by
  intro j
  rcases j with _ | _ | _ | _ | j
  · decide
  · decide
  · decide
  · decide
  · have : (writeU32 (encExt C Ext.aborted)).getD (j + 1 + 1 + 1 + 1) 255 = 255 := by
      simp [writeU32]
    rw [this]; decide

/-- **Aborted over a word that has the bits of `0xAA`** (In-progress or Aborted; whole or torn) -/
theorem abort_keeps (hs : 17412 ≤ s) (X : Flash → Prop) (i : Nat)
    (hX : ∀ f bs, SupAA bs → bs.length ≤ 4 → X f → X (f.apply (.program (i * s + 16) bs))) :
    Keeps (fun f => CVW nslots s B f ∧ ExtSup f (i * s) ∧ X f)
      (Slot.markExtAborted { idx := i, size := s })
      (fun _ f => CVW nslots s B f ∧ ExtSup f (i * s) ∧ X f) (fun f => CVW nslots s B f ∧ X f) := by
  unfold Slot.markExtAborted Slot.writeWord
  apply Keeps.writeFrom
  intro f hf
  obtain ⟨hJ, hx, hXf⟩ := hf
  have key : ∀ bs, SupAA bs → bs.length ≤ 4 →
      CVW nslots s B (f.apply (.program (i * s + 16) bs)) ∧ ExtSup (f.apply (.program (i * s + 16) bs)) (i * s) ∧
        X (f.apply (.program (i * s + 16) bs)) := by
    intro bs hbs hl
    have hsup := extSup_program (i * s + 16) bs hx hbs
    exact ⟨cvw_of_extSup_after hJ hs i _ ⟨by omega, by omega⟩ hsup, hsup, hX _ _ hbs hl hXf⟩
  refine ⟨⟨hJ, hXf⟩, fun _ => ⟨?_, ?_, ?_⟩⟩
  · intro p keep
    obtain ⟨bs', e, hsup⟩ := supAA_tear p keep (i * s + 16) _ supAA_aborted
    obtain ⟨bs'', e', hl⟩ := torn_word p keep (i * s + 16) (writeU32 (encExt C .aborted)) rfl
    have : bs'' = bs' := by rw [e] at e'; cases e'; rfl
    subst this
    show (fun f => CVW nslots s B f ∧ X f) (f.apply (tear p keep (.program (i * s + Consts.EXT_OFFSET) _)))
    rw [show i * s + Consts.EXT_OFFSET = i * s + 16 from rfl, e]
    exact ⟨(key _ hsup hl).1, (key _ hsup hl).2.2⟩
  · exact ⟨(key _ supAA_aborted (Nat.le_of_eq rfl)).1, (key _ supAA_aborted (Nat.le_of_eq rfl)).2.2⟩
  · exact key _ supAA_aborted (Nat.le_of_eq rfl)

/-! ## `Slot::clear` -/

theorem eraseFrom_keeps (hs : 17412 ≤ s) (hB : 28 ≤ B) (X : Flash → Prop) (i : Nat)
    (hX : ∀ f a, InSlot B s i (.erase a) → X f → X (f.apply (.erase a))) :
    ∀ (k cur : Nat), i * s ≤ cur → cur + k * B ≤ i * s + s →
    Keeps (fun f => CVW nslots s B f ∧ X f ∧ HdrFF f (i * s)) (eraseFrom cur B k)
      (fun _ f => CVW nslots s B f ∧ X f ∧ HdrFF f (i * s)) (fun f => CVW nslots s B f ∧ X f) := by
  intro k
  induction k with
  | zero => intro cur _ _; exact Keeps.pure (fun f hf => ⟨⟨hf.1, hf.2.1⟩, hf⟩)
  | succ k ih =>
    intro cur h1 h2
    have e : (k + 1) * B = k * B + B := Nat.succ_mul k B
    unfold eraseFrom
    refine Keeps.seq (Q' := fun _ f => CVW nslots s B f ∧ X f ∧ HdrFF f (i * s)) ?_
      (fun _ => ih (cur + B) (by omega) (by omega))
    apply Keeps.eraseBlock
    intro f hf
    obtain ⟨hJ, hXf, hff⟩ := hf
    refine ⟨⟨hJ, hXf⟩, fun _ _ => ?_⟩
    have hin : InSlot B s i (.erase cur) := ⟨h1, by omega⟩
    obtain ⟨h3, h4⟩ := cvw_erase hJ hs hB i cur hin (Or.inl hff)
    exact ⟨⟨h3, hX _ _ hin hXf⟩, h3, hX _ _ hin hXf, h4⟩

/-- **`clear_kills_header_first`, in Hoare form**: from any state satisfying the invariant, at every crash point of
    `Slot::clear` the invariant holds; the first operation is the erase of the slot's first block, which leaves the
    whole 28-byte header erased (`HdrFF`, so it does not parse), and every later erase keeps it so; on return the word is
    erased. `X` is any side condition that erases cannot break. -/
theorem clear_keeps (hs : 17412 ≤ s) (hB : 28 ≤ B) (X : Flash → Prop) (i : Nat)
    (hX : ∀ f a, InSlot B s i (.erase a) → X f → X (f.apply (.erase a))) :
    Keeps (fun f => CVW nslots s B f ∧ X f) (Slot.clear { idx := i, size := s })
      (fun _ f => CVW nslots s B f ∧ X f ∧ HdrFF f (i * s)) (fun f => CVW nslots s B f ∧ X f) := by
  unfold Slot.clear
  dsimp only
  simp only [throw_bind]
  apply Keeps.get_bind
  intro d0
  apply Keeps.ite
  · intro _; exact Keeps.throw (fun f hf => hf.1)
  · intro hb0
    apply Keeps.ite
    · intro _; exact Keeps.throw (fun f hf => hf.1)
    · intro hdiv
      -- the block size read is `B`, it divides `s`, so there is at least one block
      by_cases hBd : d0.flash.block = B
      · rw [hBd] at hdiv ⊢
        have hdiv' : s % B = 0 := by simpa using hdiv
        have hk : 1 ≤ s / B := by
          apply Nat.div_pos _ (by omega)
          by_cases hle : B ≤ s
          · exact hle
          · rw [Nat.mod_eq_of_lt (by omega)] at hdiv'; omega
        obtain ⟨k, hk'⟩ : ∃ k, s / B = k + 1 := ⟨s / B - 1, by omega⟩
        have hmul : (k + 1) * B ≤ s := by rw [← hk']; exact Nat.div_mul_le_self s B
        have e : (k + 1) * B = k * B + B := Nat.succ_mul k B
        rw [hk']
        unfold eraseFrom
        refine Keeps.seq (Q' := fun _ f => CVW nslots s B f ∧ X f ∧ HdrFF f (i * s)) ?_
          (fun _ => eraseFrom_keeps hs hB X i hX k (i * s + B) (by omega) (by omega))
        apply Keeps.eraseBlock
        intro f hf
        obtain ⟨⟨hJ, hXf⟩, _⟩ := hf
        refine ⟨⟨hJ, hXf⟩, fun _ _ => ?_⟩
        have hin : InSlot B s i (.erase (i * s)) := ⟨Nat.le_refl _, by omega⟩
        obtain ⟨h3, h4⟩ := cvw_erase hJ hs hB i (i * s) hin (Or.inr rfl)
        exact ⟨⟨h3, hX _ _ hin hXf⟩, h3, hX _ _ hin hXf, h4⟩
      · -- impossible: the state read has the invariant's block size
        refine Keeps.pre Keeps.false (fun f hf => ?_)
        obtain ⟨⟨hJ, _⟩, rfl⟩ := hf
        exact hBd hJ.block

end Fuota.Crash
