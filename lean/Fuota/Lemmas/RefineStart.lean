import Fuota.Lemmas.RefineAbs
import Fuota.Lemmas.NoPanicFs
/-!
# `start_update` on a device without armed injection establishes the session invariant
-/
namespace Fuota.Fs
open Fuota.Nor Fuota.FlashAdapters Fuota.Layout

/-- the device after a successful block erase at `a` -/
def Dev.erase (d : Dev) (a : Nat) : Dev :=
  { d with flash := d.flash.apply (.erase a), ops := .erase a :: d.ops, nmut := d.nmut + 1, needsSet := d.needsSet + 0 }

/-- an aligned in-range block erase on a good device succeeds and has exactly the effect of `Dev.erase` -/
theorem eraseBlock_run {d : Dev} (h : Good d) (a : Nat) (hal : a % d.flash.block = 0)
    (hb : a + d.flash.block ≤ d.flash.size) : (eraseBlock a).run d = (.ok (), d.erase a) := by
  unfold eraseBlock mutate
  have hb' : ¬ a + d.flash.block > d.flash.size := by omega
  simp [run_bind, run_get, run_set, h.alive, hal, hb', h.crash, h.fail, Dev.erase]

/-- what matters of a device for the start-up argument, relative to an earlier device: still good, same size and
    block size, well-formedness kept -/
structure Keeps (d d' : Dev) : Prop where
  good : Good d'
  size : d'.flash.size = d.flash.size
  block : d'.flash.block = d.flash.block
  wf : WF d.flash → WF d'.flash

/-- nothing happened -/
theorem Keeps.refl {d : Dev} (h : Good d) : Keeps d d := ⟨h, rfl, rfl, id⟩

/-- composition -/
theorem Keeps.trans {d d' d'' : Dev} (h : Keeps d d') (g : Keeps d' d'') : Keeps d d'' :=
  ⟨g.good, g.size.trans h.size, g.block.trans h.block, fun w => g.wf (h.wf w)⟩

/-- the erase loop of `Slot::clear`: `k` consecutive aligned blocks from `cur` become `0xFF`, nothing else changes -/
theorem eraseFrom_run (b : Nat) (hb0 : 0 < b) : ∀ (k cur : Nat) (d : Dev), Good d → d.flash.block = b →
    cur % b = 0 → cur + k * b ≤ d.flash.size →
    ∃ d', (eraseFrom cur b k).run d = (.ok (), d') ∧ Keeps d d' ∧
      (∀ x, cur ≤ x → x < cur + k * b → d'.flash.byte x = 0xFF) ∧
      (∀ x, (x < cur ∨ cur + k * b ≤ x) → d'.flash.byte x = d.flash.byte x) := by
  intro k
  induction k with
  | zero =>
    intro cur d hG _ _ _
    exact ⟨d, rfl, Keeps.refl hG, fun x h1 h2 => by omega, fun _ _ => rfl⟩
  | succ k ih =>
    intro cur d hG hblk hal hin
    have e : cur + (k + 1) * b = cur + b + k * b := by rw [Nat.add_mul]; omega
    unfold eraseFrom
    rw [run_bind, eraseBlock_run hG cur (by rw [hblk]; exact hal) (by rw [hblk]; omega)]
    have hG1 : Good (d.erase cur) := ⟨hG.crash, hG.fail, hG.alive⟩
    have hs1 : (d.erase cur).flash.size = d.flash.size := size_apply _ _
    have hb1 : (d.erase cur).flash.block = b := by rw [← hblk]; exact block_apply _ _
    obtain ⟨d', hrun, hk, hff, hfr⟩ := ih (cur + b) (d.erase cur) hG1 hb1
      (by rw [Nat.add_mod, hal, Nat.mod_self]; simp) (by rw [hs1]; omega)
    refine ⟨d', hrun, ⟨hk.good, hk.size.trans hs1, hk.block.trans (block_apply _ _),
      fun w => hk.wf (WF_apply_erase w cur)⟩, ?_, ?_⟩
    · intro x h1 h2
      by_cases hx : x < cur + b
      · rw [hfr x (Or.inl hx)]
        show (d.flash.apply (.erase cur)).byte x = 0xFF
        rw [byte_apply_erase, if_pos ⟨h1, by rw [hblk]; exact hx⟩]
      · exact hff x (by omega) (by omega)
    · intro x hx
      rw [hfr x (by omega)]
      show (d.flash.apply (.erase cur)).byte x = d.flash.byte x
      rw [byte_apply_erase, if_neg (by rw [hblk]; omega)]

/-- `Slot::clear` of a slot inside the device whose size is a multiple of the erase-block size: the whole slot reads
    `0xFF` afterwards, nothing else changes -/
theorem clear_run (s : Slot) (d : Dev) (hG : Good d) (hb0 : 0 < d.flash.block) (hdiv : s.size % d.flash.block = 0)
    (hin : s.idx * s.size + s.size ≤ d.flash.size) :
    ∃ d', s.clear.run d = (.ok (), d') ∧ Keeps d d' ∧
      (∀ x, s.idx * s.size ≤ x → x < s.idx * s.size + s.size → d'.flash.byte x = 0xFF) ∧
      (∀ x, (x < s.idx * s.size ∨ s.idx * s.size + s.size ≤ x) → d'.flash.byte x = d.flash.byte x) := by
  unfold Slot.clear
  have h0 : ¬ d.flash.block = 0 := by omega
  have hmul : s.size / d.flash.block * d.flash.block = s.size := by
    have := Nat.div_add_mod s.size d.flash.block
    rw [hdiv, Nat.add_zero, Nat.mul_comm] at this
    exact this
  simp only [run_bind, run_get, h0, ↓reduceIte, hdiv, bne_self_eq_false, Bool.false_eq_true]
  obtain ⟨d', hrun, hk, hff, hfr⟩ := eraseFrom_run d.flash.block hb0 (s.size / d.flash.block) (s.idx * s.size) d hG rfl
    (by rw [Nat.mul_mod, hdiv, Nat.mul_zero, Nat.zero_mod]) (by rw [hmul]; exact hin)
  rw [hmul] at hff hfr
  exact ⟨d', hrun, hk, hff, hfr⟩

/-- a 4-byte word write inside a slot that lies inside the device -/
theorem writeWord_run (s : Slot) (off w : Nat) (d : Dev) (hG : Good d)
    (hin : s.idx * s.size + off + 4 ≤ d.flash.size) :
    (s.writeWord off w).run d = (.ok (), d.prog (s.idx * s.size + off) (writeU32 w)) := by
  unfold Slot.writeWord
  exact writeFrom_run hG _ _ (by simpa [writeU32] using hin)

/-- a program keeps what matters -/
theorem Keeps.prog {d : Dev} (h : Good d) (a : Nat) (bs : List Nat) : Keeps d (d.prog a bs) :=
  ⟨h.prog a bs, Dev.prog_size d a bs, rfl, fun w => WF_apply_program w a bs⟩

/-- reading all headers of a device that contains all slots -/
theorem loadHeadersFrom_run (S : Nat) (d : Dev) (hG : Good d) : ∀ (is : List Nat),
    (∀ i ∈ is, i * S + 28 ≤ d.flash.size) →
    ∃ hs, (loadHeadersFrom S is).run d = (.ok hs, d) ∧ hs.length = is.length := by
  intro is
  induction is with
  | nil => intro _; exact ⟨[], rfl, rfl⟩
  | cons i is ih =>
    intro h
    obtain ⟨hs, hrun, hlen⟩ := ih (fun j hj => h j (List.mem_cons_of_mem _ hj))
    refine ⟨(parseHeader C (d.flash.read (i * S) Consts.SLOT_HEADER_SIZE)).map (·.1) :: hs, ?_, by simp [hlen]⟩
    have hr := readTo_run hG (i * S) Consts.SLOT_HEADER_SIZE (h i List.mem_cons_self)
    unfold loadHeadersFrom loadHeaderAt
    simp only [run_bind, hr, run_pure, hrun]

/-- reading all headers of a device that contains all slots returns the parsed headers -/
theorem loadHeaders_hdrs_run (nslots S : Nat) {d : Dev} (hG : Good d) (hS : 28 ≤ S)
    (hin : nslots * S ≤ d.flash.size) :
    (loadHeaders nslots S).run d = (.ok (NoPanic.hdrs d.flash nslots S), d) := by
  have key : ∀ is : List Nat, (∀ i ∈ is, i < nslots) →
      (loadHeadersFrom S is).run d = (.ok (is.map fun i => NoPanic.hdrAt d.flash (i * S)), d) := by
    intro is
    induction is with
    | nil => intro _; rfl
    | cons i is ih =>
      intro h
      have hi := h i List.mem_cons_self
      have hb : i * S + 28 ≤ d.flash.size := by
        have : (i + 1) * S ≤ nslots * S := Nat.mul_le_mul_right _ hi
        rw [Nat.add_mul] at this; omega
      have hr := readTo_run hG (i * S) Consts.SLOT_HEADER_SIZE hb
      unfold loadHeadersFrom loadHeaderAt
      simp only [run_bind, hr, run_pure, ih (fun j hj => h j (List.mem_cons_of_mem _ hj))]
      rfl
  exact key _ (fun i hi => List.mem_range.1 hi)

/-! ## the slot pair `alloc_slotpair` chooses -/

/-- indices of parsed headers are slot numbers -/
theorem indexed_lt (hs : List (Option Header)) : ∀ p ∈ indexed hs, p.1 < hs.length := by
  intro p hp
  unfold indexed at hp
  obtain ⟨⟨o, i⟩, hmem, hf⟩ := List.mem_filterMap.1 hp
  have := (List.mem_zipIdx hmem).2.1
  cases o with
  | none => simp at hf
  | some h =>
    simp only [Option.map_some, Option.some.injEq] at hf
    subst hf
    simpa using this

/-- a fold that either keeps its accumulator or moves to the current index ends at a listed index -/
theorem foldl_idx_lt (n : Nat) (f : Option (Nat × Nat) → (Nat × Header) → Option (Nat × Nat))
    (hf : ∀ acc p, f acc p = acc ∨ ∃ s, f acc p = some (p.1, s)) (L : List (Nat × Header))
    (hL : ∀ p ∈ L, p.1 < n) : ∀ acc : Option (Nat × Nat), (∀ q, acc = some q → q.1 < n) →
    ∀ q, L.foldl f acc = some q → q.1 < n := by
  induction L with
  | nil => intro acc h q hq; exact h q hq
  | cons p L ih =>
    intro acc h q hq
    refine ih (fun r hr => hL r (List.mem_cons_of_mem _ hr)) (f acc p) ?_ q hq
    intro r hr
    rcases hf acc p with e | ⟨s, e⟩
    · rw [e] at hr; exact h r hr
    · rw [e] at hr
      simp only [Option.some.injEq] at hr
      rw [← hr]; exact hL p List.mem_cons_self

/-- successor slots modulo `n ≥ 2` -/
theorem mod_succ_facts (n h : Nat) (hn : 2 ≤ n) :
    (h + 1) % n < n ∧ (h + 2) % n < n ∧ (h + 1) % n ≠ (h + 2) % n := by
  have h1 : (h + 1) % n < n := Nat.mod_lt _ (by omega)
  have h2 : (h + 2) % n < n := Nat.mod_lt _ (by omega)
  refine ⟨h1, h2, ?_⟩
  have e : (h + 2) % n = ((h + 1) % n + 1) % n := by
    rw [show h + 2 = (h + 1) + 1 by omega, Nat.add_mod (h + 1) 1 n, Nat.mod_eq_of_lt (show 1 < n by omega)]
  rw [e]
  by_cases hlt : (h + 1) % n + 1 < n
  · rw [Nat.mod_eq_of_lt hlt]; omega
  · have : (h + 1) % n + 1 = n := by omega
    rw [this, Nat.mod_self]; omega

/-- neighbours of a slot `h < n` modulo `n ≥ 2` -/
theorem mod_neighbour_facts (n h : Nat) (hn : 2 ≤ n) (hh : h < n) :
    (h + 1) % n < n ∧ (h + 1) % n ≠ h ∧ (h + n - 1) % n < n ∧ (h + n - 1) % n ≠ h := by
  refine ⟨Nat.mod_lt _ (by omega), ?_, Nat.mod_lt _ (by omega), ?_⟩
  · by_cases hlt : h + 1 < n
    · rw [Nat.mod_eq_of_lt hlt]; omega
    · have : h + 1 = n := by omega
      rw [this, Nat.mod_self]; omega
  · by_cases h0 : h = 0
    · subst h0
      rw [Nat.zero_add, Nat.mod_eq_of_lt (by omega)]; omega
    · rw [show h + n - 1 = (h - 1) + n by omega, Nat.add_mod_right, Nat.mod_eq_of_lt (by omega)]; omega

/-- `alloc_slotpair` always chooses two different slots of the device (for at least two slots) -/
theorem choosePair_valid (n : Nat) (hs : List (Option Header)) (hn : 2 ≤ n) (hlen : hs.length = n) :
    ∃ a b sa sb, choosePair n hs = .ok (a, b, sa, sb) ∧ a < n ∧ b < n ∧ a ≠ b := by
  unfold choosePair
  simp only []
  have hidx : ∀ p ∈ indexed hs, p.1 < n := by rw [← hlen]; exact indexed_lt hs
  generalize hlow : (indexed hs).foldl (fun (acc : Option (Nat × Nat)) p =>
    match acc with
    | none => some (p.1, p.2.seq)
    | some (_, s) => if s > p.2.seq then some (p.1, p.2.seq) else acc) none = low
  generalize hhigh : (indexed hs).foldl (fun (acc : Option (Nat × Nat)) p =>
    match acc with
    | none => some (p.1, p.2.seq)
    | some (_, s) => if s < p.2.seq then some (p.1, p.2.seq) else acc) none = high
  have hhi : ∀ q, high = some q → q.1 < n := by
    intro q hq
    rw [← hhigh] at hq
    refine foldl_idx_lt n _ ?_ _ hidx none (fun _ h => by cases h) q hq
    intro acc p
    cases acc with
    | none => exact Or.inr ⟨_, rfl⟩
    | some a =>
      obtain ⟨i, s⟩ := a
      simp only
      split
      · exact Or.inr ⟨_, rfl⟩
      · exact Or.inl rfl
  cases low with
  | none => exact ⟨0, 1, 0, 1, rfl, by omega, by omega, by omega⟩
  | some lo =>
    cases high with
    | none => exact ⟨0, 1, 0, 1, rfl, by omega, by omega, by omega⟩
    | some hi =>
      obtain ⟨lo, loSeq⟩ := lo
      obtain ⟨hi, hiSeq⟩ := hi
      have hhn : hi < n := hhi _ rfl
      obtain ⟨s1, s2, s3⟩ := mod_succ_facts n hi hn
      obtain ⟨t1, t2, t3, t4⟩ := mod_neighbour_facts n hi hn hhn
      simp only
      split
      · exact ⟨_, _, _, _, rfl, s1, s2, s3⟩
      · split
        · split
          · exact ⟨_, _, _, _, rfl, hhn, t1, fun e => t2 e.symm⟩
          · exact ⟨_, _, _, _, rfl, s1, s2, s3⟩
        · split
          · split
            · exact ⟨_, _, _, _, rfl, t3, hhn, t4⟩
            · exact ⟨_, _, _, _, rfl, t3, hhn, t4⟩
          · exact ⟨_, _, _, _, rfl, s1, s2, s3⟩

/-- a word write on a device that kept what matters since `d0` -/
theorem writeWord_run' (s : Slot) (off w : Nat) {d0 d : Dev} (hk : Keeps d0 d)
    (hin : s.idx * s.size + off + 4 ≤ d0.flash.size) :
    (s.writeWord off w).run d = (.ok (), d.prog (s.idx * s.size + off) (writeU32 w)) :=
  writeWord_run s off w d hk.good (by rw [hk.size]; exact hin)

end Fuota.Fs

namespace Fuota.Updater
open Fuota.Nor Fuota.Fs Fuota.FlashAdapters Fuota.Layout Fuota.Recon

/-- the two session slots are erased beyond their 28 header bytes -/
structure Fresh (A B S : Nat) (d0 d : Dev) : Prop where
  keeps : Keeps d0 d
  erA : ∀ x, A + 28 ≤ x → x < A + S → d.flash.byte x = 0xFF
  erB : ∀ x, B + 28 ≤ x → x < B + S → d.flash.byte x = 0xFF

/-- a program inside the 28 header bytes of either slot keeps both slots erased beyond their headers -/
theorem Fresh.prog {A B S : Nat} {d0 d : Dev} (h : Fresh A B S d0 d) (hdis : A + S ≤ B ∨ B + S ≤ A) (_hS : 28 ≤ S)
    (a : Nat) (bs : List Nat) (ha : (A ≤ a ∧ a + bs.length ≤ A + 28) ∨ (B ≤ a ∧ a + bs.length ≤ B + 28)) :
    Fresh A B S d0 (d.prog a bs) := by
  refine ⟨h.keeps.trans (Keeps.prog h.keeps.good a bs), ?_, ?_⟩
  · intro x h1 h2
    rw [Dev.prog_flash, byte_apply_program_of_not_mem _ _ _ _ (by omega)]
    exact h.erA x h1 h2
  · intro x h1 h2
    rw [Dev.prog_flash, byte_apply_program_of_not_mem _ _ _ _ (by omega)]
    exact h.erB x h1 h2

/-- what `is_reasonably_sized` accepts -/
theorem reasonablySized_ok {S sz n : Nat} (h : reasonablySized S sz n = .ok ()) :
    1 ≤ sz ∧ sz ≤ 256 ∧ 1 ≤ n ∧ n ≤ 16384 ∧ sz * n ≤ S - 17408 := by
  unfold reasonablySized satMulU32 at h
  simp only [show MAX_SEGMENT_SIZE = 256 from rfl, show MAX_SEGMENTS = 16384 from rfl,
    show DATA_REGION_OFFSET = 17408 from rfl] at h
  split at h
  · cases h
  · split at h
    · cases h
    · split at h
      · cases h
      · rename_i h1 h2 h3
        have hsz : sz ≤ 256 := by omega
        have hn' : n ≤ 16384 := by omega
        have hprod : sz * n ≤ 256 * 16384 := Nat.mul_le_mul hsz hn'
        have hmin : min (sz * n) (2 ^ 32 - 1) = sz * n := Nat.min_eq_left (by omega)
        rw [hmin] at h3
        omega

/-- `set_layout` on a device that kept what matters since `d0`: two header words are written -/
theorem setLayout_run (s : Slot) (nseg segsz : Nat) {d0 d : Dev} (hk : Keeps d0 d)
    (hfit : satMulU32 nseg segsz ≤ s.size - 17408) (hin : s.idx * s.size + 16 ≤ d0.flash.size) :
    (s.setLayout nseg segsz).run d =
      (.ok { s with segSize := if segsz = 0 then none else some segsz },
       (d.prog (s.idx * s.size + 12) (writeU32 nseg)).prog (s.idx * s.size + 8) (writeU32 segsz)) := by
  unfold Slot.setLayout
  have e : ¬ (satMulU32 nseg segsz > s.size - DATA_REGION_OFFSET) := by
    show ¬ (satMulU32 nseg segsz > s.size - 17408); omega
  have k1 : Keeps d0 (d.prog (s.idx * s.size + 12) (writeU32 nseg)) := hk.trans (Keeps.prog hk.good _ _)
  simp only [e, ↓reduceIte, run_bind, run_pure]
  rw [show Consts.NSEG_OFFSET = 12 from rfl, show Consts.SEGSIZE_OFFSET = 8 from rfl,
    writeWord_run' s 12 nseg hk (by omega)]
  simp only
  rw [writeWord_run' s 8 segsz k1 (by omega)]

/-- `alloc_slotpair` on a device without armed injection: two different slots of the device are chosen and cleared,
    and their sequence numbers written -/
theorem allocSlotpair_run (nslots S : Nat) (d : Dev) (hG : Good d) (hS : 28 ≤ S)
    (hdev : nslots * S ≤ d.flash.size) (hb0 : 0 < d.flash.block) (hdiv : S % d.flash.block = 0) (hn : 2 ≤ nslots) :
    ∃ a b sa sb d2, a < nslots ∧ b < nslots ∧ a ≠ b ∧ Fresh (a * S) (b * S) S d d2 ∧
      choosePair nslots (NoPanic.hdrs d.flash nslots S) = .ok (a, b, sa, sb) ∧
      (∀ x, a * S ≤ x → x < a * S + S → d2.flash.byte x = 0xFF) ∧
      (∀ x, b * S ≤ x → x < b * S + S → d2.flash.byte x = 0xFF) ∧
      (allocSlotpair nslots S).run d =
        (.ok ({ idx := a, size := S }, { idx := b, size := S }),
         (d2.prog (a * S + 4) (writeU32 sa)).prog (b * S + 4) (writeU32 sb)) := by
  have hslot : ∀ i, i < nslots → i * S + S ≤ d.flash.size := by
    intro i hi
    have : (i + 1) * S ≤ nslots * S := Nat.mul_le_mul_right _ hi
    rw [Nat.add_mul] at this; omega
  have hrunH := loadHeaders_hdrs_run nslots S hG hS hdev
  obtain ⟨a, b, sa, sb, hcp, ha, hb, hab⟩ := choosePair_valid nslots (NoPanic.hdrs d.flash nslots S) hn
    (by simp [NoPanic.hdrs])
  obtain ⟨d1, hr1, k1, ff1, fr1⟩ := clear_run { idx := b, size := S } d hG hb0 hdiv (hslot b hb)
  obtain ⟨d2, hr2, k2, ff2, fr2⟩ := clear_run { idx := a, size := S } d1 k1.good (by rw [k1.block]; exact hb0)
    (by rw [k1.block]; exact hdiv) (by rw [k1.size]; exact hslot a ha)
  simp only at ff1 fr1 ff2 fr2
  have hA := hslot a ha
  have hB := hslot b hb
  have hdis : a * S + S ≤ b * S ∨ b * S + S ≤ a * S := by
    rcases Nat.lt_or_gt_of_ne hab with h | h
    · left; have : (a + 1) * S ≤ b * S := Nat.mul_le_mul_right _ h
      rw [Nat.add_mul] at this; omega
    · right; have : (b + 1) * S ≤ a * S := Nat.mul_le_mul_right _ h
      rw [Nat.add_mul] at this; omega
  have F2 : Fresh (a * S) (b * S) S d d2 := by
    refine ⟨k1.trans k2, fun x h1 h2 => ff2 x (by omega) h2, fun x h1 h2 => ?_⟩
    rw [fr2 x (by omega)]
    exact ff1 x (by omega) h2
  have F3 := F2.prog hdis hS (a * S + 4) (writeU32 sa) (Or.inl ⟨by omega, by simp [writeU32]⟩)
  refine ⟨a, b, sa, sb, d2, ha, hb, hab, F2, hcp, fun x h1 h2 => ff2 x h1 h2, fun x h1 h2 => ?_, ?_⟩
  · rw [fr2 x (by omega)]; exact ff1 x h1 h2
  have w1 := writeWord_run' { idx := a, size := S } 4 sa F2.keeps (by show a * S + 4 + 4 ≤ _; omega)
  have w2 := writeWord_run' { idx := b, size := S } 4 sb F3.keeps (by show b * S + 4 + 4 ≤ _; omega)
  unfold allocSlotpair
  rw [run_bind, hrunH]
  simp only [hcp]
  rw [run_bind, hr1]
  simp only
  rw [run_bind, hr2]
  simp only
  unfold Slot.writeSeqNo
  rw [run_bind, show Consts.SEQ_OFFSET = 4 from rfl, w1]
  simp only
  rw [run_bind, w2]
  rfl

/-- the part of `start_update` after the slot pair is allocated -/
def startTail (S sz n : Nat) (fw par : Slot) : M Upd := do
  fw.setKind .firmware
  let fw ← fw.setLayout n sz
  par.setKind .parity
  let par ← par.setLayout (capacity S sz) sz
  pure { fw := fw, par := par, n := n, bs := sz, maxL := capacity S sz, matrixOffset := capacity S sz * sz }

/-- `start_update` = geometry check, slot allocation, then `startTail` -/
theorem startUpdate_run_of (nslots S sz n : Nat) (d d4 : Dev) (fw par : Slot)
    (h1 : reasonablySized S sz n = .ok ()) (h2 : (allocSlotpair nslots S).run d = (.ok (fw, par), d4)) :
    (startUpdate nslots S sz n).run d = (startTail S sz n fw par).run d4 := by
  unfold startUpdate startTail
  simp only [h1]
  rw [run_bind, h2]

/-- a successful first computation hands its value and device to the continuation -/
theorem run_bind_ok {α β : Type} {x : M α} {f : α → M β} {d d' : Dev} {a : α} (h : x.run d = (.ok a, d')) :
    (x >>= f).run d = (f a).run d' := by
  rw [run_bind, h]

/-- **`start_update`, explicitly.** On a device without armed injection with at least two slots inside the device and
the slot size a multiple of the erase-block size, for an accepted geometry: the pair `(a, b)` and the sequence numbers
`choosePair` picks from the parsed headers; both slots are erased completely (device `d2`), then eight header words are
programmed (device `d10`); beyond the 28 header bytes both slots are still erased. -/
theorem startUpdate_explicit (nslots S sz n : Nat) (d : Dev) (hG : Good d)
    (hacc : reasonablySized S sz n = .ok ()) (hdev : nslots * S ≤ d.flash.size) (hb0 : 0 < d.flash.block)
    (hdiv : S % d.flash.block = 0) (hn : 2 ≤ nslots) :
    ∃ a b sa sb d2 d10, a < nslots ∧ b < nslots ∧ a ≠ b ∧
      choosePair nslots (NoPanic.hdrs d.flash nslots S) = .ok (a, b, sa, sb) ∧
      Keeps d d2 ∧
      (∀ x, a * S ≤ x → x < a * S + S → d2.flash.byte x = 0xFF) ∧
      (∀ x, b * S ≤ x → x < b * S + S → d2.flash.byte x = 0xFF) ∧
      d10 = ((((((((d2.prog (a * S + 4) (writeU32 sa)).prog (b * S + 4) (writeU32 sb)).prog (a * S + 0)
          (writeU32 (encKind C .firmware))).prog (a * S + 12) (writeU32 n)).prog (a * S + 8) (writeU32 sz)).prog
          (b * S + 0) (writeU32 (encKind C .parity))).prog (b * S + 12) (writeU32 (capacity S sz))).prog
          (b * S + 8) (writeU32 sz)) ∧
      Fresh (a * S) (b * S) S d d10 ∧
      (startUpdate nslots S sz n).run d =
        (.ok (Upd.mk (Slot.mk a S (if sz = 0 then none else some sz)) (Slot.mk b S (if sz = 0 then none else some sz))
          n 0 sz 0 0 (capacity S sz) (capacity S sz * sz) false), d10) := by
  obtain ⟨a1, a2, a3, a4, a5⟩ := reasonablySized_ok hacc
  have hS : 17408 < S := by
    have : 1 ≤ sz * n := Nat.mul_le_mul a1 a3
    omega
  obtain ⟨a, b, sa, sb, d2, ha, hb, hab, F2, hcp, erA, erB, hralloc⟩ :=
    allocSlotpair_run nslots S d hG (by omega) hdev hb0 hdiv hn
  have hslot : ∀ i, i < nslots → i * S + S ≤ d.flash.size := by
    intro i hi
    have : (i + 1) * S ≤ nslots * S := Nat.mul_le_mul_right _ hi
    rw [Nat.add_mul] at this; omega
  have hA := hslot a ha
  have hB := hslot b hb
  have hdis : a * S + S ≤ b * S ∨ b * S + S ≤ a * S := by
    rcases Nat.lt_or_gt_of_ne hab with h | h
    · left; have : (a + 1) * S ≤ b * S := Nat.mul_le_mul_right _ h
      rw [Nat.add_mul] at this; omega
    · right; have : (b + 1) * S ≤ a * S := Nat.mul_le_mul_right _ h
      rw [Nat.add_mul] at this; omega
  -- the eight header words
  have hcapfit : capacity S sz * sz ≤ S - 17408 := by
    have := (C15.capacity_spec S sz)
    have hfit : C15.need sz (capacity S sz) ≤ S - 17408 := (this.2 _ this.1).2 (Nat.le_refl _)
    unfold C15.need at hfit; omega
  have hsat1 : satMulU32 n sz ≤ S - 17408 := by
    unfold satMulU32
    have : n * sz = sz * n := Nat.mul_comm _ _
    exact Nat.le_trans (Nat.min_le_left _ _) (by omega)
  have hsat2 : satMulU32 (capacity S sz) sz ≤ S - 17408 := by
    unfold satMulU32
    exact Nat.le_trans (Nat.min_le_left _ _) hcapfit
  have F3 := F2.prog hdis (by omega) (a * S + 4) (writeU32 sa) (Or.inl ⟨by omega, by simp [writeU32]⟩)
  have F4 := F3.prog hdis (by omega) (b * S + 4) (writeU32 sb) (Or.inr ⟨by omega, by simp [writeU32]⟩)
  generalize hd4 : (d2.prog (a * S + 4) (writeU32 sa)).prog (b * S + 4) (writeU32 sb) = d4 at F4 hralloc
  have F5 := F4.prog hdis (by omega) (a * S + 0) (writeU32 (encKind C .firmware))
    (Or.inl ⟨by omega, by simp [writeU32]⟩)
  have F6 := F5.prog hdis (by omega) (a * S + 12) (writeU32 n) (Or.inl ⟨by omega, by simp [writeU32]⟩)
  have F7 := F6.prog hdis (by omega) (a * S + 8) (writeU32 sz) (Or.inl ⟨by omega, by simp [writeU32]⟩)
  have w5 := writeWord_run' { idx := a, size := S } 0 (encKind C .firmware) F4.keeps
    (by show a * S + 0 + 4 ≤ _; omega)
  have w67 := setLayout_run { idx := a, size := S } n sz F5.keeps hsat1 (by show a * S + 16 ≤ _; omega)
  generalize hd7 : ((d4.prog (a * S + 0) (writeU32 (encKind C .firmware))).prog (a * S + 12) (writeU32 n)).prog
    (a * S + 8) (writeU32 sz) = d7 at F7 w67
  have F8 := F7.prog hdis (by omega) (b * S + 0) (writeU32 (encKind C .parity))
    (Or.inr ⟨by omega, by simp [writeU32]⟩)
  have F9 := F8.prog hdis (by omega) (b * S + 12) (writeU32 (capacity S sz))
    (Or.inr ⟨by omega, by simp [writeU32]⟩)
  have F10 := F9.prog hdis (by omega) (b * S + 8) (writeU32 sz) (Or.inr ⟨by omega, by simp [writeU32]⟩)
  have w8 := writeWord_run' { idx := b, size := S } 0 (encKind C .parity) F7.keeps
    (by show b * S + 0 + 4 ≤ _; omega)
  have w910 := setLayout_run { idx := b, size := S } (capacity S sz) sz F8.keeps hsat2
    (by show b * S + 16 ≤ _; omega)
  generalize hd10 : ((d7.prog (b * S + 0) (writeU32 (encKind C .parity))).prog (b * S + 12)
    (writeU32 (capacity S sz))).prog (b * S + 8) (writeU32 sz) = d10 at F10 w910
  have w5' : (Slot.setKind { idx := a, size := S } .firmware).run d4 =
      (.ok (), d4.prog (a * S + 0) (writeU32 (encKind C .firmware))) := w5
  have w8' : (Slot.setKind { idx := b, size := S } .parity).run d7 =
      (.ok (), d7.prog (b * S + 0) (writeU32 (encKind C .parity))) := w8
  have htail : (startTail S sz n { idx := a, size := S } { idx := b, size := S }).run d4 =
      (.ok (Upd.mk (Slot.mk a S (if sz = 0 then none else some sz)) (Slot.mk b S (if sz = 0 then none else some sz))
        n 0 sz 0 0 (capacity S sz) (capacity S sz * sz) false), d10) := by
    unfold startTail
    refine (run_bind_ok w5').trans ?_
    refine (run_bind_ok w67).trans ?_
    refine (run_bind_ok w8').trans ?_
    refine (run_bind_ok w910).trans ?_
    rfl
  have hrun : (startUpdate nslots S sz n).run d =
      (.ok (Upd.mk (Slot.mk a S (if sz = 0 then none else some sz)) (Slot.mk b S (if sz = 0 then none else some sz))
        n 0 sz 0 0 (capacity S sz) (capacity S sz * sz) false), d10) := by
    exact (startUpdate_run_of nslots S sz n d d4 _ _ hacc hralloc).trans htail
  exact ⟨a, b, sa, sb, d2, d10, ha, hb, hab, hcp, F2.keeps, erA, erB, by rw [← hd10, ← hd7, ← hd4], F10, hrun⟩

/-- **`start_update` establishes the session invariant.** On a device without armed injection whose bytes are
bytes, with at least two slots of `S` bytes inside the device and `S` a multiple of the (non-zero) erase-block size,
for an accepted geometry: `start_update` succeeds, and the updater and device it leaves behind satisfy `Lawful` with
nothing received yet (`l = 0`, `done = 0`, `used = 0`), the announced fragment count and size, and the capacity the
binary search computes. -/
theorem startUpdate_lawful (nslots S sz n : Nat) (d : Dev) (hG : Good d) (hwf : WF d.flash)
    (hacc : reasonablySized S sz n = .ok ()) (hdev : nslots * S ≤ d.flash.size) (hb0 : 0 < d.flash.block)
    (hdiv : S % d.flash.block = 0) (hn : 2 ≤ nslots) :
    ∃ u0 d0, (startUpdate nslots S sz n).run d = (.ok u0, d0) ∧ Lawful u0 d0 ∧
      u0.l = 0 ∧ u0.done = 0 ∧ u0.used = 0 ∧ u0.n = n ∧ u0.bs = sz ∧ u0.maxL = capacity S sz ∧
      u0.fw.size = S ∧ u0.par.size = S ∧ u0.fw.idx < nslots ∧ u0.par.idx < nslots := by
  obtain ⟨a1, a2, a3, a4, a5⟩ := reasonablySized_ok hacc
  have hS : 17408 < S := by
    have : 1 ≤ sz * n := Nat.mul_le_mul a1 a3
    omega
  obtain ⟨a, b, sa, sb, d2, d10, ha, hb, hab, _, _, _, _, _, F10, hrun⟩ :=
    startUpdate_explicit nslots S sz n d hG hacc hdev hb0 hdiv hn
  have hslot : ∀ i, i < nslots → i * S + S ≤ d.flash.size := by
    intro i hi
    have : (i + 1) * S ≤ nslots * S := Nat.mul_le_mul_right _ hi
    rw [Nat.add_mul] at this; omega
  have hA := hslot a ha
  have hB := hslot b hb
  refine ⟨_, _, hrun, ?_, rfl, rfl, rfl, rfl, rfl, rfl, rfl, rfl, ha, hb⟩
  have hsz0 : ¬ sz = 0 := by omega
  have g : Geo (Upd.mk (Slot.mk a S (if sz = 0 then none else some sz)) (Slot.mk b S (if sz = 0 then none else some sz))
        n 0 sz 0 0 (capacity S sz) (capacity S sz * sz) false) d10.flash.size := {
    hbs := ⟨a1, a2⟩, hn := ⟨a3, a4⟩, hfit := a5, hsz := rfl, hmaxL := rfl, hmo := rfl, hne := hab
    hfwin := by rw [F10.keeps.size]; show (a + 1) * S ≤ _; rw [Nat.add_mul]; omega
    hparin := by rw [F10.keeps.size]; show (b + 1) * S ≤ _; rw [Nat.add_mul]; omega
    hseg := by simp [hsz0] }
  have hinc : rcComplete (Upd.mk (Slot.mk a S (if sz = 0 then none else some sz))
        (Slot.mk b S (if sz = 0 then none else some sz))
        n 0 sz 0 0 (capacity S sz) (capacity S sz * sz) false) = false := by
    cases hc : rcComplete _ with
    | false => rfl
    | true =>
      have := (rcComplete_stage1 _ rfl).1 hc 0 (by show 0 < n; omega)
      simp at this
  refine ⟨{ geo := g, good := F10.keeps.good, wf := F10.keeps.wf hwf, hl := Nat.zero_le _,
            hl2 := fun h => absurd rfl h, hdone := fun i hi => by simp at hi, hstat := fun i hi => by simp at hi,
            herD := ?_, hech := fun p hp => by simp at hp, herP := ?_ }, fun h => by rw [hinc] at h; cases h⟩
  · intro i hi _
    obtain ⟨q1, q2, q3, q4⟩ := g.regions.1 i hi
    simp only [segAddr, statAddr, fwBase] at q1 q2 q3 q4 ⊢
    exact ⟨fun x h1 h2 => F10.erA x (by omega) (by omega), F10.erA _ (by omega) (by omega)⟩
  · intro m hm _
    obtain ⟨q1, q2, q3, q4⟩ := g.regions.2 m hm
    simp only [pAddr, rAddr, parBase] at q1 q2 q3 q4 ⊢
    exact ⟨fun x h1 h2 => F10.erB x (by omega) (by omega), fun x h1 h2 => F10.erB x (by omega) (by omega)⟩

end Fuota.Updater
