import Fuota.Lemmas.PersistFrame
/-!
# What a reboot keeps: rehydration, the stage invariant, and the state a crash leaves

`reh` / `SInv` are the definitions `Fuota.C07.rehydrate` / `Fuota.C07.StageInv` (same terms; the property files
restate them so that the vocabulary of the theorems is visible there).
-/
namespace Fuota.Fault
open Fuota.Recon

/-- what recovery rebuilds from the persisted state -/
def reh (s : St) : St :=
  { s with l := if s.used = 0 then 0 else (unknowns s.done s.n).length, log := [], calls := 0 }

/-- the in-memory `l` agrees with what can be recomputed, except possibly in the corner `l ≠ 0 ∧ used = 0` -/
def SInv (s : St) : Prop := (s.l = 0 → s.used = 0) ∧ (s.l ≠ 0 → s.l = (unknowns s.done s.n).length)

/-! ## frames of the model functions under an arbitrary oracle -/

/-- the elimination loop never touches `n`, `bs`, `l`, `done`, whatever the oracle -/
theorem elim_scalars (F : Nat → Bool) :
    ∀ (n : Nat) (s : St) (row data : Nat),
      (elim F n s row data).1.n = s.n ∧ (elim F n s row data).1.bs = s.bs ∧
      (elim F n s row data).1.l = s.l ∧ (elim F n s row data).1.done = s.done := by
  intro n
  induction n with
  | zero => intro s row data; simp [elim]
  | succ wh ih =>
    intro s row data
    by_cases hr : row.testBit wh = true
    · by_cases hu : s.used.testBit wh = true
      · simp only [elim, call, hr, hu, Bool.and_self, ↓reduceIte]
        by_cases f1 : F s.calls = true
        · simp [f1]
        · by_cases f2 : F (s.calls + 1) = true
          · simp [f1, f2]
          · simp only [f1, f2, Bool.not_true, Bool.not_false, Bool.false_eq_true, ↓reduceIte]
            exact ih _ _ _
      · simp only [elim, call, hr, hu, Bool.and_false, Bool.false_eq_true, ↓reduceIte]
        by_cases f1 : F s.calls = true
        · simp [f1]
        · by_cases f2 : F (s.calls + 1) = true
          · simp [f1, f2]
          · simp [f1, f2]
    · rw [elim_succ_skip F s data hr]
      exact ih _ _ _

theorem handleParity_scalars (F : Nat → Bool) (s : St) (row d : Nat) :
    (handleParity F s row d).1.n = s.n ∧ (handleParity F s row d).1.bs = s.bs ∧
    (handleParity F s row d).1.l = s.l ∧ (handleParity F s row d).1.done = s.done := by
  have hs := (strip_spec F row (List.range s.n) s d).1
  unfold handleParity
  generalize strip F row (List.range s.n) s d = x at hs
  obtain ⟨s1, d1, o1⟩ := x
  have e := core_eq hs
  simp only at e
  cases o1 with
  | ok =>
    simp only
    obtain ⟨h1, h2, h3, h4⟩ := elim_scalars F s1.l s1 (project s1.done s1.n row) d1
    exact ⟨h1.trans e.1, h2.trans e.2.1, h3.trans e.2.2.1, h4.trans e.2.2.2.1⟩
  | err e' => exact ⟨e.1, e.2.1, e.2.2.1, e.2.2.2.1⟩
  | panic => exact ⟨e.1, e.2.1, e.2.2.1, e.2.2.2.1⟩

theorem tail2_scalars (F : Nat → Bool) (r : St × Out) :
    (tail2 F r).1.n = r.1.n ∧ (tail2 F r).1.bs = r.1.bs ∧ (tail2 F r).1.l = r.1.l ∧
    (tail2 F r).1.done = r.1.done := by
  obtain ⟨s1, o1⟩ := r
  cases o1 with
  | ok =>
    simp only [tail2]
    split
    · have hf := finishOuter_scalars F (unknowns s1.done s1.n) (List.range s1.l) s1
      unfold finish
      generalize finishOuter F _ _ s1 = x at hf
      obtain ⟨s2, o2⟩ := x
      cases o2 <;> exact ⟨hf.1, hf.2.1, hf.2.2.1, hf.2.2.2.1⟩
    · simp
  | err e => simp [tail2]
  | panic => simp [tail2]

/-- stage 1 never touches `n`, `bs`, `l`, `used`, whatever the oracle and the store order -/
theorem stage1_scalars (V : Variant) (F : Nat → Bool) (s : St) (i d : Nat) :
    (stage1 V F s i d).1.n = s.n ∧ (stage1 V F s i d).1.bs = s.bs ∧ (stage1 V F s i d).1.l = s.l ∧
    (stage1 V F s i d).1.used = s.used := by
  simp only [stage1, call]
  split
  · simp
  · split
    · by_cases f1 : F s.calls = true <;> simp [f1]
    · by_cases f1 : F s.calls = true <;> simp [f1]

/-! ## the stage invariant -/

theorem sinv_init (n bs : Nat) : SInv { n := n, bs := bs } := by simp [SInv]

/-- **`SInv` is kept by every delivery, under every fault oracle and both store orders.** -/
theorem sinv_handleBlock (V : Variant) (F : Nat → Bool) (P : Nat → Nat) (vb nr : Nat) (s : St) (i d len : Nat)
    (h : SInv s) : SInv (handleBlock V F P vb nr s i d len).1 := by
  rw [handleBlock_eq]
  split
  · exact h
  split
  · exact h
  split
  · exact h
  obtain ⟨a1, a2, a3, a4⟩ := adj_scalars s i
  have hadj : SInv (adj s i) := by
    obtain ⟨g1, g2⟩ := h
    unfold adj
    split
    · rename_i hc
      exact ⟨fun _ => g1 hc.2, fun _ => rfl⟩
    · exact ⟨g1, g2⟩
  obtain ⟨g1, g2⟩ := hadj
  split
  · rename_i hl
    obtain ⟨b1, b2, b3, b4⟩ := stage1_scalars V F (adj s i) i d
    refine ⟨fun _ => ?_, fun hne => ?_⟩
    · rw [b4]; exact g1 hl
    · rw [b3] at hne; exact absurd hl hne
  · rename_i hl
    obtain ⟨b1, b2, b3, b4⟩ := handleParity_scalars F (adj s i) (P i) d
    obtain ⟨c1, c2, c3, c4⟩ := tail2_scalars F (handleParity F (adj s i) (P i) d)
    refine ⟨fun h0 => ?_, fun _ => ?_⟩
    · rw [c3, b3] at h0; exact absurd h0 hl
    · rw [c3, b3, c4, b4, c1, b1]; exact g2 hl

/-! ## rehydration -/

theorem reh_idem (s : St) : reh (reh s) = reh s := rfl

theorem reh_eqv {s : St} (h : SInv s) (hc : s.l = 0 ∨ s.used ≠ 0) : Eqv (reh s) s := by
  refine ⟨rfl, rfl, ?_, rfl, rfl, fun _ => rfl, fun _ => rfl, fun _ => rfl⟩
  show (if s.used = 0 then 0 else (unknowns s.done s.n).length) = s.l
  by_cases hu : s.used = 0
  · rw [if_pos hu]
    rcases hc with hc | hc
    · exact hc.symm
    · exact absurd hu hc
  · rw [if_neg hu]
    have hl : s.l ≠ 0 := fun h0 => hu (h.1 h0)
    exact (h.2 hl).symm

theorem sinv_reh {s : St} (h : SInv s) : SInv (reh s) := by
  by_cases hu : s.used = 0
  · refine ⟨fun _ => hu, fun hne => ?_⟩
    simp [reh, hu] at hne
  · have hl : s.l ≠ 0 := fun h0 => hu (h.1 h0)
    have e : (reh s).l = s.l := (reh_eqv h (Or.inr hu)).2.2.1
    refine ⟨fun h0 => absurd (e ▸ h0) hl, fun _ => ?_⟩
    rw [e]; exact h.2 hl

theorem sinv_of_eqv {a b : St} (h : Eqv a b) (hb : SInv b) : SInv a := by
  obtain ⟨h1, h2, h3, h4, h5, -⟩ := h
  unfold SInv
  rw [h1, h3, h4, h5]; exact hb

/-! ## the state an interrupted delivery leaves -/

theorem adj_fields (s : St) (i : Nat) :
    (adj s i).n = s.n ∧ (adj s i).bs = s.bs ∧ (adj s i).done = s.done ∧ (adj s i).used = s.used ∧
    (adj s i).ds = s.ds ∧ (adj s i).ps = s.ps ∧ (adj s i).ms = s.ms ∧ (s.l ≠ 0 → (adj s i).l = s.l) := by
  unfold adj
  split
  · rename_i hc
    exact ⟨rfl, rfl, rfl, rfl, rfl, rfl, rfl, fun h => absurd hc.2 h⟩
  · exact ⟨rfl, rfl, rfl, rfl, rfl, rfl, rfl, fun _ => rfl⟩

/-- **repaired order, any oracle**: a delivery that ends in an error and leaves the session incomplete passed the
    three guards and left the adjusted state, up to history and a possible orphan parity block -/
theorem handleBlock_err_frame {V : Variant} (hV : V.bitBeforeStore = false) (F : Nat → Bool) (P : Nat → Nat)
    (vb nr : Nat) (s : St) (i d len : Nat) (s' : St) (e : Err)
    (h : handleBlock V F P vb nr s i d len = (s', .err e)) (hc : isComplete s' = false) :
    len = s.bs ∧ isComplete s = false ∧
    ¬ (s.n ≤ i ∧ s.l = 0 ∧ (vb < (unknowns s.done s.n).length ∨ nr < (unknowns s.done s.n).length)) ∧
    Frame s' (adj s i) := by
  rw [handleBlock_eq] at h
  split at h
  · simp at h
  rename_i h1
  split at h
  · simp at h
  rename_i h2
  split at h
  · simp at h
  rename_i h3
  refine ⟨by simpa using h1, by simpa using h2, h3, ?_⟩
  split at h
  · exact Frame.of_core (stage1_retry hV F _ _ _ _ _ h)
  · exact (handleParity_retry F _ _ _ _ _ (tail2_err F _ _ _ h hc)).1

/-- **the state after crash and reboot is the state before the interrupted delivery**, up to history and a possible
    orphan parity block — provided the delivery started outside the corner `l ≠ 0 ∧ used = 0` and the crash was not
    inside `finish` -/
theorem crash_frame {V : Variant} (hV : V.bitBeforeStore = false) (F : Nat → Bool) (P : Nat → Nat)
    (vb nr : Nat) (s : St) (i d len : Nat) (s' : St) (e : Err) (hs : SInv s) (hcorner : s.l = 0 ∨ s.used ≠ 0)
    (h : handleBlock V F P vb nr s i d len = (s', .err e)) (hc : isComplete s' = false) :
    Frame (reh s') s := by
  obtain ⟨-, -, -, hF⟩ := handleBlock_err_frame hV F P vb nr s i d len s' e h hc
  obtain ⟨a1, a2, a3, a4, a5, a6, a7, a8⟩ := adj_fields s i
  obtain ⟨f1, f2, f3, f4, f5, f6, f7, f8⟩ := hF
  refine ⟨f1.trans a1, f2.trans a2, ?_, f4.trans a3, f5.trans a4, fun k => (f6 k).trans (by rw [a5]),
    fun k => (f7 k).trans (by rw [a7]), fun k hk => (f8 k (by rw [a4]; exact hk)).trans (by rw [a6])⟩
  show (if s'.used = 0 then 0 else (unknowns s'.done s'.n).length) = s.l
  rw [f5, a4, f4, a3, f1, a1]
  by_cases hu : s.used = 0
  · rw [if_pos hu]
    rcases hcorner with h0 | h0
    · exact h0.symm
    · exact absurd hu h0
  · rw [if_neg hu]
    have hl : s.l ≠ 0 := fun h0 => hu (hs.1 h0)
    exact (hs.2 hl).symm

/-- **crash, reboot, resend**: redelivering the interrupted block to the rehydrated state gives the result of, and a
    state with the same contents as, the delivery that was never interrupted -/
theorem crash_resend {V : Variant} (hV : V.bitBeforeStore = false) (F : Nat → Bool) (P : Nat → Nat)
    (vb nr : Nat) (s : St) (i d len : Nat) (s' : St) (e : Err) (hs : SInv s) (hcorner : s.l = 0 ∨ s.used ≠ 0)
    (h : handleBlock V F P vb nr s i d len = (s', .err e)) (hc : isComplete s' = false) :
    PEqv (handleBlock V noFault P vb nr (reh s') i d len) (handleBlock V noFault P vb nr s i d len) := by
  refine PEqv.trans ?_ (handleBlock_retry hV F P vb nr s i d len s' e h hc)
  have hs' : SInv s' := by
    have := sinv_handleBlock V F P vb nr s i d len hs
    rwa [h] at this
  by_cases hc' : s'.l = 0 ∨ s'.used ≠ 0
  · exact handleBlock_congr V P vb nr i d len (reh_eqv hs' hc')
  · -- the delivery was the first parity-range block: it set `l`, stored no row, and the reboot forgets `l`
    have hl' : s'.l ≠ 0 := fun h0 => hc' (Or.inl h0)
    have hu' : s'.used = 0 := Classical.byContradiction fun h0 => hc' (Or.inr h0)
    obtain ⟨g1, g2, g3, hF⟩ := handleBlock_err_frame hV F P vb nr s i d len s' e h hc
    obtain ⟨a1, a2, a3, a4, a5, a6, a7, a8⟩ := adj_fields s i
    obtain ⟨f1, f2, f3, f4, f5, f6, f7, f8⟩ := hF
    have hsu : s.used = 0 := by rw [← a4, ← f5]; exact hu'
    have hsl : s.l = 0 := by
      rcases hcorner with h0 | h0
      · exact h0
      · exact absurd hsu h0
    have hni : s.n ≤ i := by
      apply Classical.byContradiction
      intro hn
      have : (adj s i).l = s.l := by unfold adj; simp [hn]
      exact hl' (by rw [f3, this]; exact hsl)
    -- the rehydrated state re-adjusts to `s'`
    have hr1 : (reh s').l = 0 := by simp [reh, hu']
    have hadj : core (adj (reh s') i) = core s' := by
      have : (reh s').n ≤ i ∧ (reh s').l = 0 := ⟨by show s'.n ≤ i; rw [f1, a1]; exact hni, hr1⟩
      unfold adj
      rw [if_pos this]
      have := hs'.2 hl'
      simp only [reh, core]
      rw [← this]
    have hcr : isComplete (reh s') = false := by
      rw [isComplete_congr (a := reh s') (b := s) (by rw [hr1, hsl]) (f1.trans a1) (f4.trans a3) (f5.trans a4)]
      exact g2
    have hl'' : ¬ (adj (reh s') i).l = 0 := by rw [(core_eq hadj).2.2.1]; exact hl'
    have hadj' : adj s' i = s' := by unfold adj; simp [hl']
    rw [handleBlock_run V noFault P vb nr (reh s') i d len (by show len = s'.bs; rw [f2, a2]; exact g1) hcr
        (by show ¬ (s'.n ≤ i ∧ (reh s').l = 0 ∧ _)
            change ¬ (s'.n ≤ i ∧ (reh s').l = 0 ∧
              (vb < (unknowns s'.done s'.n).length ∨ nr < (unknowns s'.done s'.n).length))
            rw [f1, a1, f4, a3, hr1]
            intro hh
            exact g3 ⟨hh.1, hsl, hh.2.2⟩),
      handleBlock_run V noFault P vb nr s' i d len (by rw [f2, a2]; exact g1) hc (by simp [hl']), hadj']
    simp only [hl'', hl', ↓reduceIte]
    exact tail2_congr (handleParity_congr _ _ (Eqv.of_core hadj))

/-! ## the capacity bound, and the corner -/

/-- `l` never exceeds the two capacities the refusal test checks -/
theorem cap_handleBlock (V : Variant) (F : Nat → Bool) (P : Nat → Nat) (vb nr : Nat) (s : St) (i d len : Nat)
    (h : s.l ≤ vb ∧ s.l ≤ nr) :
    (handleBlock V F P vb nr s i d len).1.l ≤ vb ∧ (handleBlock V F P vb nr s i d len).1.l ≤ nr := by
  rw [handleBlock_eq]
  split
  · exact h
  split
  · exact h
  split
  · exact h
  rename_i h3
  have hadj : (adj s i).l ≤ vb ∧ (adj s i).l ≤ nr := by
    unfold adj
    split
    · rename_i hc
      show (unknowns s.done s.n).length ≤ vb ∧ (unknowns s.done s.n).length ≤ nr
      have : ¬ (vb < (unknowns s.done s.n).length ∨ nr < (unknowns s.done s.n).length) :=
        fun hh => h3 ⟨hc.1, hc.2, hh⟩
      omega
    · exact h
  split
  · rw [(stage1_scalars V F (adj s i) i d).2.2.1]; exact hadj
  · rw [(tail2_scalars F _).2.2.1, (handleParity_scalars F (adj s i) (P i) d).2.2.1]; exact hadj

theorem incomplete_of_unknowns {s : St} (hl : s.l = 0) (hU : (unknowns s.done s.n).length ≠ 0) :
    isComplete s = false := by
  have : (List.range s.n).all (fun i => s.done.testBit i) = false := by
    apply Classical.byContradiction
    intro hne
    have hall : (List.range s.n).all (fun i => s.done.testBit i) = true := by simpa using hne
    apply hU
    rw [List.all_eq_true] at hall
    unfold unknowns
    rw [List.length_eq_zero_iff, List.filter_eq_nil_iff]
    intro a ha
    simp [hall a ha]
  simp [isComplete, hl, this]

theorem incomplete_of_corner {s : St} (hl : s.l ≠ 0) (hu : s.used = 0) : isComplete s = false := by
  have : (List.range s.l).all (fun i => s.used.testBit i) = false := by
    rw [List.all_eq_false]
    exact ⟨0, by simp; omega, by simp [hu]⟩
  simp [isComplete, hl, this]

/-- **in the corner, a parity-range fragment undoes the reboot**: the rehydrated state is stage 1 with the same
    `done`; the fragment switches it to stage 2 with the same `l` as before the reboot -/
theorem corner_parity_step (V : Variant) (P : Nat → Nat) (vb nr : Nat) (s : St) (j d : Nat)
    (hs : SInv s) (hl : s.l ≠ 0) (hu : s.used = 0) (hcap : s.l ≤ vb ∧ s.l ≤ nr) (hj : s.n ≤ j) :
    PEqv (handleBlock V noFault P vb nr (reh s) j d s.bs) (handleBlock V noFault P vb nr s j d s.bs) := by
  have hlU := hs.2 hl
  have hr1 : (reh s).l = 0 := by simp [reh, hu]
  have hcr : isComplete (reh s) = false := incomplete_of_unknowns hr1 (by show (unknowns s.done s.n).length ≠ 0; omega)
  have hcs : isComplete s = false := incomplete_of_corner hl hu
  have hadj : core (adj (reh s) j) = core s := by
    have : (reh s).n ≤ j ∧ (reh s).l = 0 := ⟨hj, hr1⟩
    unfold adj
    rw [if_pos this]
    simp only [reh, core]
    rw [← hlU]
  have hl'' : ¬ (adj (reh s) j).l = 0 := by rw [(core_eq hadj).2.2.1]; exact hl
  have hadj' : adj s j = s := by unfold adj; simp [hl]
  rw [handleBlock_run V noFault P vb nr (reh s) j d s.bs rfl hcr
      (by change ¬ (s.n ≤ j ∧ (reh s).l = 0 ∧
            (vb < (unknowns s.done s.n).length ∨ nr < (unknowns s.done s.n).length))
          rw [← hlU]; omega),
    handleBlock_run V noFault P vb nr s j d s.bs rfl hcs (by simp [hl]), hadj']
  simp only [hl'', hl, ↓reduceIte]
  exact tail2_congr (handleParity_congr _ _ (Eqv.of_core hadj))

end Fuota.Fault
