import Fuota.Lemmas.RingFlashRecover
/-!
# Ring ↔ flash, part 5: the machine has a transition for every prefix of header effects
-/
open Fuota.Nor Fuota.Fs Fuota.Layout Fuota.Updater Fuota.Slots
namespace Fuota.RingFlash
open Fuota.Ring (Used)



/-! ## the machine has a transition for every prefix -/

theorem startSuccs_has (c : Cfg) (s : State) {a b sa sb : Nat} (hc : choosePair c.n s.hs = .ok (a, b, sa, sb))
    (j : Nat) (hj1 : 1 ≤ j) (hj4 : j ≤ 4) :
    ∃ t ∈ startSuccs c s,
      t.2.hs = applyAll s.hs ([(b, none), (a, none), (a, some (fwHeader c.geom sa)), (b, some (parHeader c.geom sb))].take j) ∧
      t.2.sess = if j = 4 then some (a, b) else none := by
  have hm := Ring.startSuccs_eq c s hc
  have key : ∀ x, x ∈ (startSuccs c s).map (·.2) → ∃ t ∈ startSuccs c s, t.2 = x := by
    intro x hx
    obtain ⟨t, ht, e⟩ := List.mem_map.mp hx
    exact ⟨t, ht, e⟩
  rw [hm] at key
  match j, hj1, hj4 with
  | 1, _, _ =>
    obtain ⟨t, ht, e⟩ := key _ List.mem_cons_self
    exact ⟨t, ht, by rw [e]; rfl, by rw [e]; rfl⟩
  | 2, _, _ =>
    obtain ⟨t, ht, e⟩ := key _ (List.mem_cons_of_mem _ List.mem_cons_self)
    exact ⟨t, ht, by rw [e]; rfl, by rw [e]; rfl⟩
  | 3, _, _ =>
    obtain ⟨t, ht, e⟩ := key _ (List.mem_cons_of_mem _ (List.mem_cons_of_mem _ List.mem_cons_self))
    exact ⟨t, ht, by rw [e]; rfl, by rw [e]; rfl⟩
  | 4, _, _ =>
    obtain ⟨t, ht, e⟩ := key _ (List.mem_cons_of_mem _ (List.mem_cons_of_mem _ (List.mem_cons_of_mem _ List.mem_cons_self)))
    exact ⟨t, ht, by rw [e]; rfl, by rw [e]; rfl⟩

theorem prefixRuns_has (c : Cfg) (hci : c.crashInside = true) (s : State) (es : List Eff) (k : Nat) (hk : k ≤ es.length) :
    ∃ r ∈ prefixRuns c s es, r.1 = k ∧ r.2.1 = decide (k = es.length) ∧ r.2.2.1.hs = applyAll s.hs (es.take k) := by
  unfold prefixRuns
  rw [hci]
  simp only [↓reduceIte, List.mem_map, List.mem_range]
  refine ⟨_, ⟨k, by omega, rfl⟩, rfl, rfl, ?_⟩
  simp only [Ring.foldl_ghostEff_hs]

theorem cancelSuccs_has (c : Cfg) (hci : c.crashInside = true) (s : State) (k : Nat)
    (hk : k ≤ (cancelEffs s.hs).length) :
    ∃ t ∈ cancelSuccs c s, t.2.hs = applyAll s.hs ((cancelEffs s.hs).take k) ∧ t.2.sess = none := by
  obtain ⟨r, hr, h1, h2, h3⟩ := prefixRuns_has c hci s (cancelEffs s.hs) k hk
  unfold cancelSuccs
  refine ⟨_, List.mem_map.mpr ⟨r, hr, rfl⟩, ?_, ?_⟩
  · obtain ⟨k', full, s', done⟩ := r
    simp only at h3 ⊢
    split <;> exact h3
  · obtain ⟨k', full, s', done⟩ := r
    simp only
    split <;> rfl

theorem recoverSuccs_has (c : Cfg) (hci : c.crashInside = true) (hp : c.pinnedRemediation = false) (s : State) (k : Nat)
    (hk : k ≤ (recoverEffs c.geom s.hs).2.length) :
    ∃ t ∈ recoverSuccs c s, t.2.hs = applyAll s.hs ((recoverEffs c.geom s.hs).2.take k) ∧
      t.2.sess = if k = (recoverEffs c.geom s.hs).2.length then (recoverEffs c.geom s.hs).1 else none := by
  have hrec : c.recoverEffs s.hs = recoverEffs c.geom s.hs := by
    unfold Cfg.recoverEffs; simp [hp]
  unfold recoverSuccs
  rw [hrec]
  rcases hre : recoverEffs c.geom s.hs with ⟨r0, es⟩
  rw [hre] at hk
  simp only at hk ⊢
  obtain ⟨r, hr, h1, h2, h3⟩ := prefixRuns_has c hci s es k hk
  obtain ⟨k', full, s', done⟩ := r
  simp only at h1 h2 h3
  subst h1
  cases r0 with
  | none =>
    simp only
    refine ⟨_, List.mem_map.mpr ⟨_, hr, rfl⟩, ?_, ?_⟩
    · simp only; split <;> exact h3
    · simp only; split <;> simp
  | some r1 =>
    simp only
    refine ⟨_, List.mem_map.mpr ⟨_, hr, rfl⟩, ?_, ?_⟩
    · simp only; split <;> exact h3
    · simp only
      rw [h2]
      by_cases hkk : k' = es.length
      · simp [hkk]
      · simp [hkk]



theorem pending_nil_of {s : State} (h : ∀ i, ¬ Ring.IsPend s.life i) : pending s = [] := by
  unfold pending
  rw [List.filterMap_eq_nil_iff]
  rintro ⟨l, i⟩ hm
  have hg : s.life[i]? = some l := List.mem_zipIdx_iff_getElem?.mp hm
  have hl : Ring.lf s.life i = l := by
    unfold Ring.lf
    rw [List.getD_eq_getElem?_getD, hg]; rfl
  cases l with
  | none => rfl
  | some v =>
    cases v with
    | copyPend => exact absurd (Or.inl hl) (h i)
    | ackPend => exact absurd (Or.inr hl) (h i)
    | _ => rfl

theorem completeSuccs_has (s : State) {fi pi : Nat} {es : List Eff} (hsess : s.sess = some (fi, pi))
    (hpend : pending s = []) (hes : completeEffs s.hs fi pi = some es) (k : Nat) (hk : k = 1 ∨ k = 2)
    (hlen : es.length = 2) :
    ∃ t ∈ completeSuccs s, t.2.hs = applyAll s.hs (es.take k) ∧ t.2.sess = none := by
  unfold completeSuccs
  rw [hsess]
  simp only [hpend, List.isEmpty_nil, Bool.not_true, Bool.false_eq_true, ↓reduceIte, hes]
  rcases hk with rfl | rfl
  · exact ⟨_, List.mem_cons_self, rfl, rfl⟩
  · refine ⟨_, List.mem_cons_of_mem _ List.mem_cons_self, ?_, rfl⟩
    simp only
    rw [List.take_of_length_le (by omega)]

theorem copyDone_has (s : State) {e : Eff} (he : copyDoneEff s.hs = some e) :
    ∃ t ∈ blSuccs s, t.2.hs = apply1 s.hs e ∧ t.2.sess = s.sess := by
  unfold blSuccs
  rw [he]
  exact ⟨_, List.mem_append_left _ (List.mem_append_left _ List.mem_cons_self), rfl, rfl⟩

theorem confirm_has (s : State) {e : Eff} (he : confirmEff s.hs = some e) :
    ∃ t ∈ blSuccs s, t.2.hs = apply1 s.hs e ∧ t.2.sess = s.sess := by
  unfold blSuccs
  rw [he]
  exact ⟨_, List.mem_append_left _ (List.mem_append_right _ List.mem_cons_self), rfl, rfl⟩

theorem reject_has (s : State) {e : Eff} (he : rejectEff s.hs = some e) :
    ∃ t ∈ blSuccs s, t.2.hs = apply1 s.hs e ∧ t.2.sess = s.sess := by
  unfold blSuccs
  rw [he]
  exact ⟨_, List.mem_append_right _ List.mem_cons_self, rfl, rfl⟩

theorem reboot_has (s : State) (h : s.sess.isSome) : ∃ t ∈ rebootSuccs s, t.2.hs = s.hs ∧ t.2.sess = none := by
  unfold rebootSuccs
  rw [if_pos h]
  exact ⟨_, List.mem_cons_self, rfl, rfl⟩


end Fuota.RingFlash
