import Fuota.Lemmas.CrashSess
import Fuota.Lemmas.OpsStart
/-!
# `start_update` keeps the crash invariant and opens a session

Both slots are erased first (each `clear` begins with the block that holds the header), so from then on their
external-status words are `0xFF…` and nothing `start_update` writes can seal them. On the success path the 28 header
bytes of both slots are tracked exactly (`Img`), which yields the session headers.
-/
namespace Fuota.Crash
open Fuota.Nor Fuota.Fs Fuota.Layout Fuota.Ops Fuota.Updater Fuota.C14

variable {nslots s B : Nat}

/-- the 28 header bytes at `base` are `img 0 … img 27` -/
def Img (f : Flash) (base : Nat) (img : Nat → Nat) : Prop := ∀ j, j < 28 → f.byte (base + j) = img j

/-- the image after programming `bs` at offset `off` over erased bytes -/
def upd (img : Nat → Nat) (off : Nat) (bs : List Nat) : Nat → Nat :=
  fun j => if off ≤ j ∧ j < off + bs.length then bs.getD (j - off) 0 else img j

def ffImg : Nat → Nat := fun _ => 0xFF

theorem upd_out (img : Nat → Nat) (off : Nat) (bs : List Nat) (j : Nat) (h : ¬ (off ≤ j ∧ j < off + bs.length)) :
    upd img off bs j = img j := by
  unfold upd; rw [if_neg h]

theorem upd_in (img : Nat → Nat) (off : Nat) (bs : List Nat) (j : Nat) (h : off ≤ j ∧ j < off + bs.length) :
    upd img off bs j = bs.getD (j - off) 0 := by
  unfold upd; rw [if_pos h]

theorem writeU32_length (w : Nat) : (writeU32 w).length = 4 := rfl

theorem img_of_hdrFF {f : Flash} {base : Nat} (h : HdrFF f base) : Img f base ffImg := h

theorem img_program {f : Flash} {base : Nat} {img : Nat → Nat} (h : Img f base img) (off : Nat) (bs : List Nat)
    (hin : base + off + bs.length ≤ f.size) (hff : ∀ j, off ≤ j → j < off + bs.length → img j = 0xFF)
    (hb : ∀ j, j < bs.length → bs.getD j 0 < 256) :
    Img (f.apply (.program (base + off) bs)) base (upd img off bs) := by
  intro j hj
  by_cases hr : off ≤ j ∧ j < off + bs.length
  · rw [upd_in _ _ _ _ hr, byte_program f _ bs _ (by omega) (by omega), h j hj, hff j hr.1 hr.2]
    have e : base + j - (base + off) = j - off := by omega
    rw [e]
    exact ff_and _ (hb _ (by omega))
  · rw [upd_out _ _ _ _ hr, byte_apply_untouched _ _ _ (fun ht => by obtain ⟨h1, h2⟩ := ht; omega)]
    exact h j hj

theorem img_other {f : Flash} {base : Nat} {img : Nat → Nat} (h : Img f base img) (op : Op)
    (hu : ∀ j, j < 28 → ¬ Touches f.block op (base + j)) : Img (f.apply op) base img := by
  intro j hj
  rw [byte_apply_untouched _ _ _ (hu j hj)]
  exact h j hj

/-- one header word (offset `0, 4, 8, 12`) on slot `t`, the other slot `o` being tracked too -/
theorem lowWord_keeps (hs : 17412 ≤ s) (t o : Nat) (hto : t ≠ o) (off w : Nat) (ho : off + 4 ≤ 16)
    (it io : Nat → Nat) (hfree : ∀ j, off ≤ j → j < off + 4 → it j = 0xFF)
    (hext : ∀ j, 16 ≤ j → j < 20 → it j = 0xFF) :
    Keeps (fun f => CVW nslots s B f ∧ Img f (t * s) it ∧ Img f (o * s) io)
      (writeFrom (t * s + off) (writeU32 w))
      (fun _ f => CVW nslots s B f ∧ Img f (t * s) (upd it off (writeU32 w)) ∧ Img f (o * s) io)
      (CVW nslots s B) := by
  apply Keeps.writeFrom
  intro f hf
  obtain ⟨hJ, hit, hio⟩ := hf
  have hapart := slots_apart s hto
  have key : ∀ bs : List Nat, bs.length ≤ 4 → CVW nslots s B (f.apply (.program (t * s + off) bs)) := by
    intro bs hl
    apply cvw_of_extSup_after hJ hs t (.program (t * s + off) bs) ⟨by omega, by omega⟩
    apply ExtFF.sup
    intro j hj
    rw [byte_apply_untouched _ _ _ (fun ht => by obtain ⟨h1, h2⟩ := ht; omega)]
    have := hit (16 + j) (by omega)
    rw [← Nat.add_assoc] at this
    rw [this]; exact hext _ (by omega) (by omega)
  refine ⟨hJ, fun hin => ⟨?_, key _ (Nat.le_of_eq rfl), key _ (Nat.le_of_eq rfl), ?_, ?_⟩⟩
  · intro p keep
    obtain ⟨bs', e, hl⟩ := torn_word p keep (t * s + off) (writeU32 w) rfl
    rw [e]; exact key _ hl
  · exact img_program hit off _ hin (fun j h1 h2 => hfree j h1 h2) (fun j _ => writeU32_byte_lt w j)
  · apply img_other hio
    intro j hj ht
    obtain ⟨h1, h2⟩ := ht
    rw [writeU32_length] at h2
    omega

theorem le32_writeU32 (w : Nat) (hw : w < 2 ^ 32) :
    Layout.le32 (w % 256) (w / 256 % 256) (w / 65536 % 256) (w / 16777216 % 256) = w := by
  unfold Layout.le32; omega

theorem word_of_img {f : Flash} {base : Nat} {img : Nat → Nat} (h : Img f base img) (off : Nat) (ho : off + 4 ≤ 28) :
    word f (base + off) = Layout.le32 (img off) (img (off + 1)) (img (off + 2)) (img (off + 3)) := by
  unfold word
  rw [Nat.add_assoc, Nat.add_assoc, Nat.add_assoc, h off (by omega), h (off + 1) (by omega),
    h (off + 2) (by omega), h (off + 3) (by omega)]

/-- the header image of a slot after `start_update` wrote sequence number `q`, kind code `k`, count `n`, size `z` -/
def startImg (q k n z : Nat) : Nat → Nat :=
  upd (upd (upd (upd ffImg 4 (writeU32 q)) 0 (writeU32 k)) 12 (writeU32 n)) 8 (writeU32 z)

theorem startImg_ext (q k n z j : Nat) (h1 : 16 ≤ j) : startImg q k n z j = 0xFF := by
  unfold startImg
  rw [upd_out _ _ _ _ (by rw [writeU32_length]; omega), upd_out _ _ _ _ (by rw [writeU32_length]; omega),
    upd_out _ _ _ _ (by rw [writeU32_length]; omega), upd_out _ _ _ _ (by rw [writeU32_length]; omega)]
  rfl

theorem startImg_word0 (q k n z : Nat) (hk : k < 2 ^ 32) :
    Layout.le32 (startImg q k n z 0) (startImg q k n z 1) (startImg q k n z 2) (startImg q k n z 3) = k := by
  have e : ∀ j, j < 4 → startImg q k n z j = (writeU32 k).getD j 0 := by
    intro j hj
    unfold startImg
    rw [upd_out _ _ _ _ (by rw [writeU32_length]; omega), upd_out _ _ _ _ (by rw [writeU32_length]; omega),
      upd_in _ _ _ _ (by rw [writeU32_length]; omega)]
    rfl
  rw [e 0 (by omega), e 1 (by omega), e 2 (by omega), e 3 (by omega)]
  exact le32_writeU32 k hk

theorem startImg_word8 (q k n z : Nat) (hz : z < 2 ^ 32) :
    Layout.le32 (startImg q k n z 8) (startImg q k n z 9) (startImg q k n z 10) (startImg q k n z 11) = z := by
  have e : ∀ j, j < 4 → startImg q k n z (8 + j) = (writeU32 z).getD j 0 := by
    intro j hj
    unfold startImg
    rw [upd_in _ _ _ _ (by rw [writeU32_length]; omega)]
    congr 1; omega
  have := e 0 (by omega); have := e 1 (by omega); have := e 2 (by omega); have := e 3 (by omega)
  simp only [Nat.add_zero, Nat.reduceAdd] at *
  rw [‹startImg q k n z 8 = _›, ‹startImg q k n z 9 = _›, ‹startImg q k n z 10 = _›, ‹startImg q k n z 11 = _›]
  exact le32_writeU32 z hz

theorem startImg_word12 (q k n z : Nat) (hn : n < 2 ^ 32) :
    Layout.le32 (startImg q k n z 12) (startImg q k n z 13) (startImg q k n z 14) (startImg q k n z 15) = n := by
  have e : ∀ j, j < 4 → startImg q k n z (12 + j) = (writeU32 n).getD j 0 := by
    intro j hj
    unfold startImg
    rw [upd_out _ _ _ _ (by rw [writeU32_length]; omega), upd_in _ _ _ _ (by rw [writeU32_length]; omega)]
    congr 1; omega
  have := e 0 (by omega); have := e 1 (by omega); have := e 2 (by omega); have := e 3 (by omega)
  simp only [Nat.add_zero, Nat.reduceAdd] at *
  rw [‹startImg q k n z 12 = _›, ‹startImg q k n z 13 = _›, ‹startImg q k n z 14 = _›, ‹startImg q k n z 15 = _›]
  exact le32_writeU32 n hn

/-- the session headers from the two final images -/
theorem sessHdr_of_imgs {f : Flash} {a b sa sb sz n m : Nat} (hA : Img f (a * s) (startImg sa (encKind C .firmware) n sz))
    (hB' : Img f (b * s) (startImg sb (encKind C .parity) m sz))
    (hrs : reasonablySized s sz n = .ok ()) : SessHdr s f a b := by
  obtain ⟨g1, g2, g3, g4, g5, _⟩ := reasonablySized_ok hrs
  refine ⟨?_, ?_, ?_⟩
  · apply ExtFF.sup
    intro j hj
    have := hA (16 + j) (by omega)
    rw [← Nat.add_assoc] at this
    rw [this]; exact startImg_ext _ _ _ _ _ (by omega)
  · have := word_of_img hB' 0 (by omega)
    rw [Nat.add_zero] at this
    rw [this, startImg_word0 _ _ _ _ (by decide)]
    decide
  · intro sz' n' e1 e2
    have w8 := word_of_img hA 8 (by omega)
    have w12 := word_of_img hA 12 (by omega)
    rw [w8, startImg_word8 _ _ _ _ (by omega)] at e1
    rw [w12, startImg_word12 _ _ _ _ (by omega)] at e2
    have := (C11.parseSize_some _ _ _ e1).1
    have := (C11.parseNseg_some _ _ _ e2).1
    subst_vars
    exact g5

/-- a fact that follows from the precondition may be used to build the proof -/
theorem Keeps.pre_pure {α : Type} {P E : Flash → Prop} {Q : α → Flash → Prop} {x : M α} (C : Prop)
    (h1 : ∀ f, P f → C) (h2 : C → Keeps P x Q E) : Keeps P x Q E :=
  fun d hd => h2 (h1 _ hd) d hd

/-- `set_layout` on a tracked slot `t` whose bytes 8‥15 and 16‥19 are still erased -/
theorem setLayout_low (hs : 17412 ≤ s) (t o : Nat) (hto : t ≠ o) (nseg segsz : Nat) (it io : Nat → Nat)
    (hfree : ∀ j, 8 ≤ j → j < 16 → it j = 0xFF) (hext : ∀ j, 16 ≤ j → j < 20 → it j = 0xFF) :
    Keeps (fun f => CVW nslots s B f ∧ Img f (t * s) it ∧ Img f (o * s) io)
      (Slot.setLayout { idx := t, size := s } nseg segsz)
      (fun sl f => (sl.idx = t ∧ sl.size = s) ∧ CVW nslots s B f ∧
        Img f (t * s) (upd (upd it 12 (writeU32 nseg)) 8 (writeU32 segsz)) ∧ Img f (o * s) io)
      (CVW nslots s B) := by
  unfold Slot.setLayout
  dsimp only
  simp only [throw_bind]
  apply Keeps.ite (fun _ => Keeps.throw (fun f h => h.1)); intro _
  refine Keeps.seq (Q' := fun _ f => CVW nslots s B f ∧ Img f (t * s) (upd it 12 (writeU32 nseg)) ∧
      Img f (o * s) io)
    (lowWord_keeps hs t o hto 12 nseg (by omega) it io (fun j h1 h2 => hfree j (by omega) (by omega)) hext)
    (fun _ => ?_)
  refine Keeps.seq (Q' := fun _ f => CVW nslots s B f ∧
      Img f (t * s) (upd (upd it 12 (writeU32 nseg)) 8 (writeU32 segsz)) ∧ Img f (o * s) io)
    (lowWord_keeps hs t o hto 8 segsz (by omega) _ io
      (fun j h1 h2 => by rw [upd_out _ _ _ _ (by rw [writeU32_length]; omega)]; exact hfree j (by omega) (by omega))
      (fun j h1 h2 => by rw [upd_out _ _ _ _ (by rw [writeU32_length]; omega)]; exact hext j h1 h2))
    (fun _ => ?_)
  exact Keeps.pure (fun f h => ⟨h.1, ⟨rfl, rfl⟩, h⟩)

/-- what `start_update` does after the slot pair is known, on the two tracked slots -/
theorem startRest_keeps (hs : 17412 ≤ s) (a b sa sb sz n : Nat) (hab : a ≠ b)
    (hrs : reasonablySized s sz n = .ok ()) :
    Keeps (fun f => CVW nslots s B f ∧ Img f (a * s) (upd ffImg 4 (writeU32 sa)) ∧
        Img f (b * s) (upd ffImg 4 (writeU32 sb)))
      (startRest s sz n ({ idx := a, size := s }, { idx := b, size := s }))
      (fun u f => CVW nslots s B f ∧ SessFlash s f u) (CVW nslots s B) := by
  have hseq : ∀ (q j : Nat), (j < 4 ∨ 8 ≤ j) → upd ffImg 4 (writeU32 q) j = 0xFF := by
    intro q j hj
    rw [upd_out _ _ _ _ (by rw [writeU32_length]; omega)]; rfl
  have hkind : ∀ (q k j : Nat), 8 ≤ j → upd (upd ffImg 4 (writeU32 q)) 0 (writeU32 k) j = 0xFF := by
    intro q k j hj
    rw [upd_out _ _ _ _ (by rw [writeU32_length]; omega)]; exact hseq q j (Or.inr hj)
  unfold startRest
  dsimp only
  refine Keeps.seq (Q' := fun _ f => CVW nslots s B f ∧
      Img f (a * s) (upd (upd ffImg 4 (writeU32 sa)) 0 (writeU32 (encKind C .firmware))) ∧
      Img f (b * s) (upd ffImg 4 (writeU32 sb)))
    (lowWord_keeps hs a b hab 0 _ (by omega) _ _ (fun j h1 h2 => hseq sa j (Or.inl (by omega)))
      (fun j h1 h2 => hseq sa j (Or.inr (by omega)))) (fun _ => ?_)
  refine Keeps.bind (setLayout_low hs a b hab n sz _ _ (fun j h1 h2 => hkind sa _ j h1)
    (fun j h1 h2 => hkind sa _ j (by omega))) (fun fw => ?_)
  refine Keeps.seq (Q' := fun _ f => (fw.idx = a ∧ fw.size = s) ∧ CVW nslots s B f ∧
      Img f (b * s) (upd (upd ffImg 4 (writeU32 sb)) 0 (writeU32 (encKind C .parity))) ∧
      Img f (a * s) (startImg sa (encKind C .firmware) n sz)) ?_ (fun _ => ?_)
  · apply Keeps.pre_pure (fw.idx = a ∧ fw.size = s) (fun f hf => hf.1)
    intro hfw
    exact ((lowWord_keeps hs b a (Ne.symm hab) 0 _ (by omega) _ _ (fun j h1 h2 => hseq sb j (Or.inl (by omega)))
      (fun j h1 h2 => hseq sb j (Or.inr (by omega)))).conseq
      (fun f h => ⟨h.2.1, h.2.2.2, h.2.2.1⟩) (fun _ f h => ⟨hfw, h⟩) (fun _ h => h))
  · apply Keeps.pre_pure (fw.idx = a ∧ fw.size = s) (fun f hf => hf.1)
    intro hfw
    refine Keeps.bind ((setLayout_low hs b a (Ne.symm hab) (capacity s sz) sz _ _
      (fun j h1 h2 => hkind sb _ j h1) (fun j h1 h2 => hkind sb _ j (by omega))).pre (fun f h => h.2))
      (fun par => ?_)
    apply Keeps.pure
    intro f hf
    obtain ⟨⟨hp1, hp2⟩, hJ, hb, ha⟩ := hf
    refine ⟨hJ, hJ, hfw.2, hp2, ?_⟩
    show SessHdr s f fw.idx par.idx
    rw [hfw.1, hp1]
    exact sessHdr_of_imgs ha hb hrs

/-- **`start_update`** keeps the invariant at every crash point (both slots are erased header-first before anything
    is programmed, and their external-status words stay erased), and a session it returns is open on the flash -/
theorem start_keeps (hs : 17412 ≤ s) (hB : 28 ≤ B) (h2 : 2 ≤ nslots) (sz n : Nat) :
    Keeps (CVW nslots s B) (startUpdate nslots s sz n) (fun u f => CVW nslots s B f ∧ SessFlash s f u)
      (CVW nslots s B) := by
  rcases hrs : reasonablySized s sz n with e | ⟨⟩
  · intro d hd
    rw [C15.start_rejects_untouched nslots s sz n e d hrs]
    exact ⟨hd, fun a ha => by cases ha⟩
  · rw [startUpdate_eq _ _ _ _ hrs, allocSlotpair_eq, bind_assoc]
    refine Keeps.bind (loadHeaders_keeps nslots s _) (fun hs' => ?_)
    apply Keeps.pre_pure (hs'.length = nslots) (fun f hf => by rw [hf.2]; simp)
    intro hlen
    unfold allocWith
    rcases hcp : choosePair nslots hs' with e | ⟨a, b, sa, sb⟩
    · dsimp only
      rw [throw_bind]
      exact Keeps.throw (fun f h => h.1)
    · dsimp only
      have hab := choosePair_ne nslots hs' hlen h2 a b sa sb hcp
      refine Keeps.bind (Q' := fun p f => p = (({ idx := a, size := s } : Slot), ({ idx := b, size := s } : Slot)) ∧
          CVW nslots s B f ∧ Img f (a * s) (upd ffImg 4 (writeU32 sa)) ∧
          Img f (b * s) (upd ffImg 4 (writeU32 sb))) ?_ (fun p => ?_)
      · -- the allocation: clear second, clear first, the two sequence numbers
        refine Keeps.seq (Q' := fun _ f => CVW nslots s B f ∧ HdrFF f (b * s))
          (((clear_keeps hs hB (fun _ => True) b (fun _ _ _ _ => trivial)).conseq
            (fun f (h : CVW nslots s B f ∧ hs' = _) => ⟨h.1, trivial⟩) (fun _ _ h => ⟨h.1, h.2.2⟩)
            (fun _ h => h.1))) (fun _ => ?_)
        refine Keeps.seq (Q' := fun _ f => CVW nslots s B f ∧ HdrFF f (b * s) ∧ HdrFF f (a * s))
          ((clear_keeps hs hB (fun f => HdrFF f (b * s)) a (fun f x _ h => hdrFF_erase x h)).conseq
            (fun _ h => h) (fun _ _ h => h) (fun _ h => h.1)) (fun _ => ?_)
        refine Keeps.seq (Q' := fun _ f => CVW nslots s B f ∧ Img f (a * s) (upd ffImg 4 (writeU32 sa)) ∧
            Img f (b * s) ffImg)
          ((lowWord_keeps hs a b hab 4 sa (by omega) ffImg ffImg (fun _ _ _ => rfl) (fun _ _ _ => rfl)).pre
            (fun f h => ⟨h.1, h.2.2, h.2.1⟩)) (fun _ => ?_)
        refine Keeps.seq (Q' := fun _ f => CVW nslots s B f ∧ Img f (b * s) (upd ffImg 4 (writeU32 sb)) ∧
            Img f (a * s) (upd ffImg 4 (writeU32 sa)))
          ((lowWord_keeps hs b a (Ne.symm hab) 4 sb (by omega) ffImg _ (fun _ _ _ => rfl) (fun _ _ _ => rfl)).pre
            (fun f h => ⟨h.1, h.2.2, h.2.1⟩)) (fun _ => ?_)
        exact Keeps.pure (fun f h => ⟨h.1, rfl, h.1, h.2.2, h.2.1⟩)
      · apply Keeps.pre_pure (p = (({ idx := a, size := s } : Slot), ({ idx := b, size := s } : Slot)))
          (fun f hf => hf.1)
        intro hp
        subst hp
        exact (startRest_keeps hs a b sa sb sz n hab hrs).pre (fun f h => h.2)

end Fuota.Crash
