import Fuota.Lemmas.RefineTornResume
/-!
# A written mark that is neither `written` nor `not written` makes `try_recover_inner` fail
-/
namespace Fuota.Updater
open Fuota.Nor Fuota.Fs Fuota.FlashAdapters Fuota.Recon Fuota.Layout Fuota.Gf2

/-- marks that are all `written` or `not written` are accepted -/
theorem fillFrom_ok : ∀ (bs : List Nat) (mask start : Nat), (∀ b ∈ bs, b = 0x33 ∨ b = 0xFF) →
    ∃ m, fillFrom mask start bs = .ok m
  | [], mask, _, _ => ⟨mask, rfl⟩
  | b :: bs, mask, start, h => by
    have hb' : ∀ c ∈ bs, c = 0x33 ∨ c = 0xFF := fun c hc => h c (List.mem_cons_of_mem _ hc)
    rcases h b List.mem_cons_self with rfl | rfl
    · obtain ⟨m, hm⟩ := fillFrom_ok bs (mask ||| 2 ^ start) (start + 1) hb'
      exact ⟨m, by simp only [fillFrom, show (0x33 : Nat) = Consts.DATA_WRITTEN from rfl, ↓reduceIte]; exact hm⟩
    · obtain ⟨m, hm⟩ := fillFrom_ok bs (mask &&& (2 ^ MAX_SEGMENTS - 1 - 2 ^ start)) (start + 1) hb'
      exact ⟨m, by
        simp only [fillFrom, show (0xFF : Nat) = Consts.DATA_NOT_WRITTEN from rfl, ↓reduceIte]
        exact hm⟩

/-- a mark that is neither, after marks that are fine, is a hardware error -/
theorem fillFrom_bad : ∀ (bs : List Nat) (mask start k : Nat) (hk : k < bs.length), bs[k] ≠ 0x33 → bs[k] ≠ 0xFF →
    (∀ j (hj : j < k), bs[j]'(by omega) = 0x33 ∨ bs[j]'(by omega) = 0xFF) → fillFrom mask start bs = .error .hw
  | [], _, _, _, hk, _, _, _ => by simp at hk
  | b :: bs, mask, start, 0, _, h1, h2, _ => by
    have h1' : ¬ b = Consts.DATA_WRITTEN := h1
    have h2' : ¬ b = Consts.DATA_NOT_WRITTEN := h2
    simp only [fillFrom, h1', h2', ↓reduceIte]
  | b :: bs, mask, start, k + 1, hk, h1, h2, h3 => by
    have hk' : k < bs.length := by simpa using hk
    have hrec := fun m s => fillFrom_bad bs m s k hk' h1 h2 (fun j hj => h3 (j + 1) (by omega))
    rcases h3 0 (by omega) with h | h
    · have h' : b = Consts.DATA_WRITTEN := h
      simp only [fillFrom, h', ↓reduceIte]; exact hrec _ _
    · have h' : b = Consts.DATA_NOT_WRITTEN := h
      have hne : ¬ Consts.DATA_NOT_WRITTEN = Consts.DATA_WRITTEN := by decide
      simp only [fillFrom, h', hne, ↓reduceIte]; exact hrec _ _

/-- `fill_bitcache` over a range of status bytes whose first byte that is neither `written` nor `not written` lies at
    `xb` fails with the hardware error and leaves the device alone -/
theorem fillBitcache_bad {d : Dev} (hG : Good d) (start stride : Nat) (hs : 0 < stride) (xb : Nat)
    (hb1 : d.flash.byte xb ≠ 0x33) (hb2 : d.flash.byte xb ≠ 0xFF) :
    ∀ (fuel addr remain mask : Nat), start ≤ addr → remain ≤ fuel → addr + remain ≤ d.flash.size →
    (addr - start) + remain ≤ 16384 → addr ≤ xb → xb < addr + remain →
    (∀ x, addr ≤ x → x < xb → d.flash.byte x = 0x33 ∨ d.flash.byte x = 0xFF) →
    (fillBitcache start stride fuel addr remain mask).run d = (.error (.spi .hw), d) := by
  intro fuel
  induction fuel with
  | zero => intro addr remain mask _ hr _ _ h1 h2 _; omega
  | succ fuel ih =>
    intro addr remain mask ha hr hin hcap h1 h2 hok
    obtain ⟨a0, rfl⟩ : ∃ a0, addr = start + a0 := ⟨addr - start, by omega⟩
    simp only [Nat.add_sub_cancel_left] at hcap
    unfold fillBitcache
    have h0 : remain ≠ 0 := by omega
    have hst1 : 1 ≤ min remain stride := by omega
    have hst2 : min remain stride ≤ remain := Nat.min_le_left _ _
    have hchk : ¬ (a0 + min remain stride > MAX_SEGMENTS) := by show ¬ (_ > 16384); omega
    simp only [h0, ↓reduceIte, run_bind, readTo_run hG _ _ (show start + a0 + min remain stride ≤ _ by omega),
      Nat.add_sub_cancel_left, hchk]
    by_cases hin1 : xb < start + a0 + min remain stride
    · have hget : ∀ j (hj : j < min remain stride),
          (d.flash.read (start + a0) (min remain stride))[j]'(by rw [length_read]; exact hj) =
            d.flash.byte (start + a0 + j) := by
        intro j hj
        have := getElem?_read d.flash (start + a0) (min remain stride) j
        rw [if_pos hj, List.getElem?_eq_getElem (by rw [length_read]; exact hj)] at this
        exact Option.some.inj this
      have hbad := fillFrom_bad (d.flash.read (start + a0) (min remain stride)) mask a0 (xb - (start + a0))
        (by rw [length_read]; omega)
        (by rw [hget _ (by omega), show start + a0 + (xb - (start + a0)) = xb by omega]; exact hb1)
        (by rw [hget _ (by omega), show start + a0 + (xb - (start + a0)) = xb by omega]; exact hb2)
        (fun j hj => by rw [hget _ (by omega)]; exact hok _ (by omega) (by omega))
      rw [hbad]
      rfl
    · obtain ⟨m1, hf⟩ := fillFrom_ok (d.flash.read (start + a0) (min remain stride)) mask a0 (by
        intro b hbm
        simp only [Flash.read, List.mem_map, List.mem_range] at hbm
        obtain ⟨k, hk, rfl⟩ := hbm
        exact hok _ (by omega) (by omega))
      rw [hf]
      exact ih (start + a0 + min remain stride) (remain - min remain stride) m1 (by omega) (by omega) (by omega)
        (by omega) (by omega) (by omega) (fun x hx1 hx2 => hok x (by omega) hx2)

/-- **`try_recover_inner` with a written mark that is neither `written` nor `not written`**: the two session headers
are in place (newest pair, others settled), the geometry is accepted, no injection is armed — and recovery fails
with the hardware error of `BitCache::fill_from`, leaving the device as it is -/
theorem recover_run_badmark (nslots : Nat) {u : Upd} {e : Dev} {sa sb : Nat} (g : Geo u e.flash.size) (hG : Good e)
    (hfw : NoPanic.hdrAt e.flash (u.fw.idx * u.fw.size) = some (fwHdr u sa))
    (hpar : NoPanic.hdrAt e.flash (u.par.idx * u.par.size) = some (parHdr u sb))
    (hin : nslots * u.fw.size ≤ e.flash.size) (hnew : C07b.NewestPair nslots u e sa sb)
    (hoth : C07b.OthersSettled nslots u e) {i : Nat} (hi : i < u.n)
    (hb1 : e.flash.byte (statAddr u i) ≠ 0x33) (hb2 : e.flash.byte (statAddr u i) ≠ 0xFF)
    (hok : ∀ j, j < i → e.flash.byte (statAddr u j) = 0x33 ∨ e.flash.byte (statAddr u j) = 0xFF) :
    (tryRecoverInner nslots u.fw.size).run e = (.error (.spi .hw), e) := by
  obtain ⟨h1, h2, h3, h4, h5, h6, h7⟩ := g.slots
  have hnn := g.hn
  have hsa := hdrAt_seq_valid hfw
  have hsb := hdrAt_seq_valid hpar
  have tsf : totalStatus (fwHdr u sa) = .appWriteInProgress := by
    have : (sa != 0xFFFFFFFF) = true := by simpa [fwHdr] using hsa
    simp [totalStatus, fwHdr, this]
  have tsp : totalStatus (parHdr u sb) = .appWriteInProgress := by
    have : (sb != 0xFFFFFFFF) = true := by simpa [parHdr] using hsb
    simp [totalStatus, parHdr, this]
  have hnseg : NoPanic.nsegAt e.flash (u.fw.size * u.fw.idx + Consts.NSEG_OFFSET) = u.n := by
    rw [Nat.mul_comm]; exact NoPanic.hdrAt_nseg hfw
  have hrunD : (({ idx := u.fw.idx, size := u.fw.size } : Slot).loadStatusArray MAX_SEGMENT_SIZE).run e =
      (.error (.spi .hw), e) := by
    unfold Slot.loadStatusArray
    rw [run_bind, numSegments_run _ hG (by
      show u.fw.size * u.fw.idx + 16 ≤ _
      rw [Nat.mul_comm]; unfold fwBase at h3; omega), hnseg]
    show (fillBitcache (fwBase u + 1024) MAX_SEGMENT_SIZE (u.n + 1) (fwBase u + 1024) u.n 0).run e = _
    refine fillBitcache_bad hG (fwBase u + 1024) MAX_SEGMENT_SIZE (by decide) (statAddr u i) hb1 hb2 (u.n + 1)
      (fwBase u + 1024) u.n 0 (Nat.le_refl _) (by omega) (by omega) (by omega)
      (by simp only [statAddr]; omega) (by simp only [statAddr]; omega) ?_
    intro x hx1 hx2
    have := hok (x - (fwBase u + 1024)) (by simp only [statAddr] at hx2; omega)
    simp only [statAddr] at this
    rwa [show fwBase u + 1024 + (x - (fwBase u + 1024)) = x by omega] at this
  unfold tryRecoverInner
  rw [run_bind, loadHeaders_run nslots u.fw.size hG (by omega) hin]
  have hnew' : twoNewest (indexed (NoPanic.hdrs e.flash nslots u.fw.size)) =
      (some (u.par.idx, parHdr u sb), some (u.fw.idx, fwHdr u sa)) := hnew
  simp only [hnew', tsf, tsp, ne_eq, not_true_eq_false, ↓reduceIte]
  simp only [fwHdr, parHdr, not_true_eq_false, ↓reduceIte, show ¬ u.maxL > VBITS by show ¬ u.maxL > 2048; omega,
    reasonablySized_of_geo g, run_bind, remediate_silent _ _ _ e _ hoth, hrunD]

end Fuota.Updater
