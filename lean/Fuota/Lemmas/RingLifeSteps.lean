import Fuota.Lemmas.RingLife
/-!
# Ring lemmas, part 12: every transition of the machine preserves the first invariant bundle `Inv1`
(lifecycle relation `LifeInv`, at most one pending image, pending images are newer than confirmed ones, session facts)
-/
namespace Fuota.Ring
open Fuota.Layout Fuota.Fs Fuota.Updater Fuota.Slots


theorem inv1_start (c : Cfg) (hn : 4 ≤ c.n) (s : State) (h : Inv1 c.n s) (hinv : RingInv c.n s.hs)
    (hroom : SeqRoom 2 s.hs) : ∀ t ∈ startSuccs c s, Inv1 c.n t.2 := by
  intro t ht
  obtain ⟨a, b, sa, sb, hc⟩ : ∃ a b sa sb, choosePair c.n s.hs = .ok (a, b, sa, sb) := by
    obtain ⟨⟨a, b, sa, sb⟩, hr⟩ := choosePair_ok c.n s.hs
    exact ⟨a, b, sa, sb, hr⟩
  have hmem : t.2 ∈ (startSuccs c s).map (·.2) := List.mem_map_of_mem ht
  rw [startSuccs_eq c s hc] at hmem
  obtain ⟨hab, han, hbn, hbelow, hlt, hsav, hsbv⟩ := startFacts hn hinv hroom hc
  have h1 : Inv1F c.n (s.hs.set b none) (s.life.set b none) none := inv1_erase b h
  have h2 : Inv1F c.n ((s.hs.set b none).set a none) ((s.life.set b none).set a none) none := inv1_erase a h1
  have hla : lf ((s.life.set b none).set a none) a = none := lf_set_self_none _ _
  have hlb : lf ((s.life.set b none).set a none) b = none := by
    unfold lf
    rw [getD_set_ne (fun e => hab e.symm)]
    exact lf_set_self_none _ _
  have h3 := inv1_write a (fwHeader c.geom sa) h2 hla (untracked_fresh _ _ _ _)
  have h4 := inv1_write b (parHeader c.geom sb) h3 hlb (untracked_fresh _ _ _ _)
  simp only [List.mem_cons, List.not_mem_nil, or_false] at hmem
  rcases hmem with e | e | e | e <;> rw [e]
  · exact h1
  · exact h2
  · exact h3
  · -- the successful call
    have hua : Used ((((s.hs.set b none).set a none).set a (some (fwHeader c.geom sa))).set b (some (parHeader c.geom sb)))
        a (fwHeader c.geom sa) := by
      apply used_set.mpr
      refine Or.inr ⟨hab, used_set.mpr (Or.inl ⟨rfl, ?_, rfl⟩)⟩
      simp [hinv.1, han]
    have hub : Used ((((s.hs.set b none).set a none).set a (some (fwHeader c.geom sa))).set b (some (parHeader c.geom sb)))
        b (parHeader c.geom sb) := by
      apply used_set.mpr
      refine Or.inl ⟨rfl, ?_, rfl⟩
      simp [hinv.1, hbn]
    have hsess : SessOK ((((s.hs.set b none).set a none).set a (some (fwHeader c.geom sa))).set b (some (parHeader c.geom sb)))
        (some (a, b)) := by
      intro f p hfp
      simp only [Option.some.injEq, Prod.mk.injEq] at hfp
      obtain ⟨rfl, rfl⟩ := hfp
      refine ⟨hab, _, _, hua, rfl, status_fresh _ _ _ _ hsav, hub, rfl, status_fresh _ _ _ _ hsbv, ?_⟩
      intro j hd hu hja hjb
      rcases used_set.mp hu with ⟨e, _, _⟩ | ⟨_, hu⟩
      · exact absurd e hjb
      rcases used_set.mp hu with ⟨e, _, _⟩ | ⟨_, hu⟩
      · exact absurd e hja
      rcases used_set.mp hu with ⟨_, _, e⟩ | ⟨_, hu⟩
      · cases e
      rcases used_set.mp hu with ⟨_, _, e⟩ | ⟨_, hu⟩
      · cases e
      exact hbelow j hd hu hja hjb
    have g1 := inv1_ghost a (some Life.inProg) h4
      (fun hd hu => by rw [used_unique hu hua]; exact untracked_fresh _ _ _ _)
      ⟨by simp, by simp, by simp⟩ han (sessOK_none _)
    exact inv1_ghost b (some Life.par) g1
      (fun hd hu => by rw [used_unique hu hub]; exact untracked_fresh _ _ _ _)
      ⟨by simp, by simp, by simp⟩ hbn hsess



theorem untracked_inProgress {h : Header} (hst : totalStatus h = TotalStatus.appWriteInProgress) : Untracked h :=
  untracked_of_ext (by rw [status_inProgress_ext hst]; simp)

theorem inv1_complete (n : Nat) (s : State) (h : Inv1 n s) : ∀ t ∈ completeSuccs s, Inv1 n t.2 := by
  intro t ht
  obtain ⟨f, p, hf, hp, hsess, hpend, huf, hup, ht⟩ := completeSuccs_steps s t ht
  obtain ⟨hfp, hf', hp', huf', hkf, hstf, hup', hkp, hstp, hall⟩ := h.sess f p hsess
  have e1 := used_unique huf' huf
  have e2 := used_unique hup' hup
  subst e1; subst e2
  have hfl : f < s.life.length := by rw [h.llen, ← h.len]; exact used_lt huf
  have c1 : Inv1 n (complete1 s f p hf') := by
    refine ⟨by simp [complete1, h.len], by simp [complete1, h.llen], ?_, sessOK_none _⟩
    apply h.ok.complete1 f { hf' with ext := .complete }
    · intro j hj
      exact ⟨get_set_ne hj, getD_set_ne hj⟩
    · exact used_set.mpr (Or.inl ⟨rfl, used_lt huf, rfl⟩)
    · exact hkf
    · exact status_complete hstf
    · exact getD_set_eq hfl
    · exact not_pend_of_pending_nil hpend
    · intro j hd r hjf hu hl
      have hjp : j ≠ p := by
        intro e; subst e
        have := (h.ok.rel.a j hd hu).2.2.mpr (by rw [hl]; rfl)
        rw [used_unique hu hup, hstp] at this
        cases this
      exact hall j hd hu hjf hjp
  rcases ht with e | e <;> rw [e]
  · exact c1
  · have hup1 : Used (complete1 s f p hf').hs p hp' :=
      used_set.mpr (Or.inr ⟨fun e => hfp e.symm, hup⟩)
    refine inv1_remark p hp' _ c1 hup1 (untracked_inProgress hstp) ?_
    refine ⟨fun e => ?_, fun e => ?_, ?_⟩
    · rw [show ({ hp' with ext := Ext.complete } : Header).kind = hp'.kind from rfl, hkp] at e
      cases e.1
    · rw [show ({ hp' with ext := Ext.complete } : Header).kind = hp'.kind from rfl, hkp] at e
      cases e.1
    · rw [status_complete hstp]; simp

theorem blStatus_inl {hs : Hdrs} {i : Nat} {h : Header} (hbl : blStatus hs = some (.inl i)) (hu : Used hs i h) :
    h.kind = Kind.firmware ∧ totalStatus h = TotalStatus.bootloadWriteInProgress := by
  obtain ⟨i', h', ⟨hu', hp⟩, hr, -⟩ := blStatus_eq_some.mp hbl
  by_cases hst : totalStatus h' = TotalStatus.bootloadWriteInProgress
  · simp only [hst, ↓reduceIte, Sum.inl.injEq] at hr
    subst hr
    rw [used_unique hu hu']
    exact ⟨hp.1, hst⟩
  · simp [hst] at hr

theorem blStatus_inr {hs : Hdrs} {i : Nat} {h : Header} (hbl : blStatus hs = some (.inr i)) (hu : Used hs i h) :
    h.kind = Kind.firmware ∧ totalStatus h = TotalStatus.firstBootPendingAck := by
  obtain ⟨i', h', ⟨hu', hp⟩, hr, -⟩ := blStatus_eq_some.mp hbl
  by_cases hst : totalStatus h' = TotalStatus.bootloadWriteInProgress
  · simp [hst] at hr
  · simp only [hst, ↓reduceIte, Sum.inr.injEq] at hr
    subst hr
    rw [used_unique hu hu']
    rcases hp.2 with e | e
    · exact absurd e hst
    · exact ⟨hp.1, e⟩

theorem inv1_bl (n : Nat) (s : State) (h : Inv1 n s) : ∀ t ∈ blSuccs s, Inv1 n t.2 := by
  intro t ht
  obtain ⟨i, h0, hu, ht⟩ := blSuccs_steps s t ht
  have hil : i < s.life.length := by rw [h.llen, ← h.len]; exact used_lt hu
  have hother : ∀ (v : Option Header) (w : Option Life) j, j ≠ i →
      (s.hs.set i v)[j]? = s.hs[j]? ∧ lf (s.life.set i w) j = lf s.life j :=
    fun v w j hj => ⟨get_set_ne hj, getD_set_ne hj⟩
  rcases ht with ⟨hbl, e⟩ | ⟨hbl, e⟩ | ⟨hbl, e⟩ <;> rw [e]
  · obtain ⟨hk, hst⟩ := blStatus_inl hbl hu
    refine ⟨by simp [h.len], by simp [h.llen], ?_, ?_⟩
    · exact h.ok.copyDone i h0 { h0 with ist := .complete } (hother _ _) hu hk hst
        (used_set.mpr (Or.inl ⟨rfl, used_lt hu, rfl⟩)) hk (status_copyDone hst) rfl (getD_set_eq hil)
    · exact sessOK_mark h.sess hu (by rw [hst]; simp) rfl
  · obtain ⟨hk, hst⟩ := blStatus_inr hbl hu
    refine ⟨by simp [h.len], by simp [h.llen], ?_, ?_⟩
    · exact h.ok.confirm i (maxRank s) h0 { h0 with boot := .successful } (hother _ _) hu hk hst
        (used_set.mpr (Or.inl ⟨rfl, used_lt hu, rfl⟩)) (status_confirm hst) rfl (getD_set_eq hil)
        (fun j r hl => lt_maxRank hl)
    · exact sessOK_mark h.sess hu (by rw [hst]; simp) rfl
  · obtain ⟨hk, hst⟩ := blStatus_inr hbl hu
    refine ⟨by simp [h.len], by simp [h.llen], ?_, ?_⟩
    · apply h.ok.untracked i (hother _ _)
      · intro hd hud
        rcases used_set.mp hud with ⟨_, _, e⟩ | ⟨e, _⟩
        · simp only [Option.some.injEq] at e
          subst e
          have := status_reject hst
          refine ⟨fun e => ?_, fun e => ?_, ?_⟩
          · rw [this] at e; cases e.2
          · rw [this] at e; cases e.2
          · rw [this]; simp
        · exact absurd rfl e
      · unfold lf
        rw [getD_set_eq hil]
        exact ⟨by simp, by simp, by simp⟩
    · exact sessOK_mark h.sess hu (by rw [hst]; simp) rfl

theorem inv1_reboot (n : Nat) (s : State) (h : Inv1 n s) : ∀ t ∈ rebootSuccs s, Inv1 n t.2 := by
  intro t ht
  unfold rebootSuccs at ht
  split at ht
  · simp only [List.mem_cons, List.not_mem_nil, or_false] at ht
    subst ht
    exact ⟨h.len, h.llen, h.ok, sessOK_none _⟩
  · cases ht



/-- an effect of cancel / remediation fits the arrangement: a mark re-marks a header whose ext status reads in
    progress to aborted -/
def EffOK (hs : Hdrs) (e : Eff) : Prop :=
  ∀ h', e.2 = some h' → ∃ h, Used hs e.1 h ∧ h.ext = Ext.inProgress ∧ h' = { h with ext := .aborted }

theorem effStep_hs (s : State) (e : Eff) : (effStep s e).hs = s.hs.set e.1 e.2 := by
  rw [effStep_eq]; rfl

theorem run_ind {P : State → Prop} (hstep : ∀ s e, P s → EffOK s.hs e → P (effStep s e)) :
    ∀ (es : List Eff) (s : State), es.Pairwise (fun a b => a.1 ≠ b.1) → (∀ e ∈ es, EffOK s.hs e) → P s →
      P (es.foldl effStep s) := by
  intro es
  induction es with
  | nil => intro s _ _ h; exact h
  | cons e es ih =>
    intro s hnd hok h
    rw [List.pairwise_cons] at hnd
    simp only [List.foldl_cons]
    apply ih _ hnd.2
    · intro e' he' h' hh'
      obtain ⟨h0, hu, hx⟩ := hok e' (List.mem_cons_of_mem _ he') h' hh'
      refine ⟨h0, ?_, hx⟩
      rw [effStep_hs]
      exact used_set.mpr (Or.inr ⟨(hnd.1 e' he').symm, hu⟩)
    · exact hstep s e h (hok e (by simp))

theorem cancelEffs_ok (hs : Hdrs) : ∀ e ∈ cancelEffs hs, EffOK hs e := by
  intro e he h' hh'
  unfold cancelEffs at he
  rw [cancelEffsOf_eq] at he
  obtain ⟨h, hm, hφ⟩ := mem_effsOf.mp he
  unfold cancelPhi at hφ
  split at hφ
  · rename_i hext
    simp only [Option.some.injEq] at hφ
    rw [← hφ] at hh'
    simp only [Option.some.injEq] at hh'
    exact ⟨h, mem_indexed.mp hm, hext, hh'.symm⟩
  · cases hφ

theorem abortPhi_ok {a b : Nat} {hs : Hdrs} {e : Eff} (he : e ∈ effsOf (abortPhi a b) (indexed hs)) :
    EffOK hs e ∧ e.1 ≠ a ∧ e.1 ≠ b := by
  obtain ⟨h, hm, hφ⟩ := mem_effsOf.mp he
  unfold abortPhi at hφ
  split at hφ
  · cases hφ
  · rename_i hab
    simp only [not_or] at hab
    refine ⟨?_, hab.1, hab.2⟩
    intro h' hh'
    split at hφ
    · rename_i hst
      simp only [Option.some.injEq] at hφ
      rw [← hφ] at hh'
      simp only [Option.some.injEq] at hh'
      exact ⟨h, mem_indexed.mp hm, status_inProgress_ext hst, hh'.symm⟩
    · cases hφ

theorem erasePhi_ok {a b : Nat} {hs : Hdrs} {e : Eff} (he : e ∈ effsOf (erasePhi a b) (indexed hs)) :
    EffOK hs e ∧ e.1 ≠ a ∧ e.1 ≠ b := by
  obtain ⟨h, hm, hφ⟩ := mem_effsOf.mp he
  unfold erasePhi at hφ
  split at hφ
  · cases hφ
  · rename_i hab
    simp only [not_or] at hab
    refine ⟨?_, hab.1, hab.2⟩
    intro h' hh'
    split at hφ
    · simp only [Option.some.injEq] at hφ
      rw [← hφ] at hh'
      cases hh'
    · cases hφ

theorem recoverEffs_ok (c : Cfg) (hs : Hdrs) : ∀ e ∈ (c.recoverEffs hs).2, EffOK hs e := by
  unfold Cfg.recoverEffs
  split
  · unfold recoverEffsPinned
    split
    · intro e he
      rw [remediateEffsPinned_eq] at he
      obtain ⟨h, hm, hφ⟩ := mem_effsOf.mp he
      unfold pinnedPhi at hφ
      cases ha : abortPhi _ _ (e.1, h) with
      | some v =>
        exact (abortPhi_ok (mem_effsOf.mpr ⟨h, hm, by rw [ha] at hφ; simp only [Option.some_or, Option.some.injEq] at hφ; rw [ha, hφ]⟩)).1
      | none =>
        rw [ha] at hφ
        simp only [Option.none_or] at hφ
        exact (erasePhi_ok (mem_effsOf.mpr ⟨h, hm, hφ⟩)).1
    · exact cancelEffs_ok hs
  · unfold Slots.recoverEffs
    split
    · intro e he
      unfold remediateEffs at he
      rw [remediateAbortEffs_eq, remediateEraseEffs_eq] at he
      rcases List.mem_append.mp he with he | he
      · exact (abortPhi_ok he).1
      · exact (erasePhi_ok he).1
    · exact cancelEffs_ok hs

/-- what a returned session means for the effect list: the decision, and that no effect addresses the pair -/
theorem recoverEffs_some (c : Cfg) (hs : Hdrs) {r : Nat × Nat} (hr : (c.recoverEffs hs).1 = some r) :
    ∃ nw sn, recoverDecision c.geom hs = some (nw, sn) ∧ r = (sn.1, nw.1) ∧
      ∀ e ∈ (c.recoverEffs hs).2, e.1 ≠ nw.1 ∧ e.1 ≠ sn.1 := by
  unfold Cfg.recoverEffs at hr ⊢
  split at hr
  · rename_i hp
    simp only [hp, ↓reduceIte]
    unfold recoverEffsPinned at hr ⊢
    cases hd : recoverDecision c.geom hs with
    | none => rw [hd] at hr; cases hr
    | some d =>
      obtain ⟨nw, sn⟩ := d
      rw [hd] at hr
      simp only [Option.some.injEq] at hr
      refine ⟨nw, sn, rfl, hr.symm, ?_⟩
      intro e he
      simp only at he
      rw [remediateEffsPinned_eq] at he
      obtain ⟨h, hm, hφ⟩ := mem_effsOf.mp he
      unfold pinnedPhi at hφ
      cases ha : abortPhi nw.1 sn.1 (e.1, h) with
      | some v =>
        exact (abortPhi_ok (mem_effsOf.mpr ⟨h, hm, by rw [ha] at hφ; simp only [Option.some_or, Option.some.injEq] at hφ; rw [ha, hφ]⟩)).2
      | none =>
        rw [ha] at hφ
        simp only [Option.none_or] at hφ
        exact (erasePhi_ok (mem_effsOf.mpr ⟨h, hm, hφ⟩)).2
  · rename_i hp
    simp only [hp]
    unfold Slots.recoverEffs at hr ⊢
    cases hd : recoverDecision c.geom hs with
    | none => rw [hd] at hr; cases hr
    | some d =>
      obtain ⟨nw, sn⟩ := d
      rw [hd] at hr
      simp only [Option.some.injEq] at hr
      refine ⟨nw, sn, rfl, hr.symm, ?_⟩
      intro e he
      simp only at he
      unfold remediateEffs at he
      rw [remediateAbortEffs_eq, remediateEraseEffs_eq] at he
      rcases List.mem_append.mp he with he | he
      · exact (abortPhi_ok he).2
      · exact (erasePhi_ok he).2

theorem crashState_hs (s : State) (es : List Eff) : (crashState s es).hs = applyAll s.hs es := by
  unfold crashState
  rw [foldl_effStep_eq]

theorem inv1_effStep {n : Nat} (s : State) (e : Eff) (h : Inv1 n s) (hok : EffOK s.hs e) : Inv1 n (effStep s e) := by
  unfold effStep
  cases he : e.2 with
  | none => exact inv1_erase e.1 h
  | some h' =>
    obtain ⟨h0, hu, hext, rfl⟩ := hok h' he
    exact inv1_mark e.1 h0 _ h hu (by rw [hext]; simp) (by simp)

theorem inv1_crash {n : Nat} (s : State) (es : List Eff) (h : Inv1 n s) (hnd : es.Pairwise (fun a b => a.1 ≠ b.1))
    (hok : ∀ e ∈ es, EffOK s.hs e) (k : Nat) : Inv1 n (crashState s (es.take k)) := by
  unfold crashState
  apply run_ind (P := Inv1 n) inv1_effStep _ _ (take_pairwise k hnd)
  · intro e he
    exact hok e (List.mem_of_mem_take he)
  · exact ⟨h.len, h.llen, h.ok, sessOK_none _⟩

theorem inv1_cancel (c : Cfg) (s : State) (h : Inv1 c.n s) : ∀ t ∈ cancelSuccs c s, Inv1 c.n t.2 := by
  intro t ht
  obtain ⟨k, e | e⟩ := cancelSuccs_steps c s t ht <;> rw [e]
  · exact inv1_crash s _ h (cancelEffs_src s.hs).1 (cancelEffs_ok s.hs) k
  · have := inv1_crash s _ h (cancelEffs_src s.hs).1 (cancelEffs_ok s.hs) (cancelEffs s.hs).length
    rw [List.take_length] at this
    exact ⟨this.len, this.llen, this.ok, sessOK_none _⟩

theorem inv1_recover (c : Cfg) (hn : 4 ≤ c.n) (s : State) (h : Inv1 c.n s) (hinv : RingInv c.n s.hs) :
    ∀ t ∈ recoverSuccs c s, Inv1 c.n t.2 := by
  intro t ht
  have hfull := inv1_crash s _ h (recoverEffs_src c s.hs).1 (recoverEffs_ok c s.hs) (c.recoverEffs s.hs).2.length
  rw [List.take_length] at hfull
  obtain ⟨k, e | ⟨_, e⟩ | ⟨r, hr, e⟩⟩ := recoverSuccs_steps c s t ht <;> rw [e]
  · exact inv1_crash s _ h (recoverEffs_src c s.hs).1 (recoverEffs_ok c s.hs) k
  · exact ⟨hfull.len, hfull.llen, hfull.ok, sessOK_none _⟩
  · refine ⟨hfull.len, hfull.llen, hfull.ok, ?_⟩
    obtain ⟨nw, sn, hd, rfl, hskip⟩ := recoverEffs_some c s.hs hr
    obtain ⟨htn, hst1, hk1, hst2, hk2⟩ := recoverDecision_some hd
    obtain ⟨⟨hu1, _⟩, ⟨hu2, hne, hall2⟩⟩ := twoNewest_indexed_iff.mp htn
    intro f p hfp
    simp only [Option.some.injEq, Prod.mk.injEq] at hfp
    obtain ⟨rfl, rfl⟩ := hfp
    show _ ∧ ∃ hf hp, Used (crashState s (c.recoverEffs s.hs).2).hs _ hf ∧ _
    rw [crashState_hs]
    have keepf : (applyAll s.hs (c.recoverEffs s.hs).2)[sn.1]? = s.hs[sn.1]? :=
      applyAll_get_of_not_mem _ _ _ (fun e he => (hskip e he).2)
    have keepp : (applyAll s.hs (c.recoverEffs s.hs).2)[nw.1]? = s.hs[nw.1]? :=
      applyAll_get_of_not_mem _ _ _ (fun e he => (hskip e he).1)
    refine ⟨hne, sn.2, nw.2, keepf.trans hu2, hk2, hst2, keepp.trans hu1, hk1, hst1, ?_⟩
    intro j hd' hu hjf hjp
    have hsub := take_sub (recoverEffs_src c s.hs) (c.recoverEffs s.hs).2.length
    rw [List.take_length] at hsub
    obtain ⟨h0, hu0, hseq⟩ := hsub j hd' hu
    rw [← hseq]
    have hle := hall2 j h0 hu0 hjp
    have hne' := ring_seq_ne (by omega) hinv hu0 hu2 hjf
    rcases Nat.lt_or_gt_of_ne hjf with h3 | h3
    · exact hle.1 h3
    · have := hle.2 h3; omega


/-- **every transition preserves `Inv1`** (either remediation order; `SeqRoom 2` = no sequence wrap-around in this step) -/
theorem inv1_preserved (c : Cfg) (hn : 4 ≤ c.n) (s : State) (h : Inv1 c.n s) (hinv : RingInv c.n s.hs)
    (hroom : SeqRoom 2 s.hs) : ∀ t ∈ succs c s, Inv1 c.n t.2 := by
  intro t ht
  unfold succs at ht
  simp only [List.mem_append] at ht
  rcases ht with ((((ht | ht) | ht) | ht) | ht) | ht
  · exact inv1_start c hn s h hinv hroom t ht
  · exact inv1_complete c.n s h t ht
  · exact inv1_cancel c s h t ht
  · exact inv1_recover c hn s h hinv t ht
  · exact inv1_bl c.n s h t ht
  · exact inv1_reboot c.n s h t ht

theorem inv1_init (n : Nat) : Inv1 n (State.init n) := by
  have hl : ∀ i, lf (State.init n).life i = none := by
    intro i
    unfold lf State.init
    rw [List.getD_eq_getElem?_getD, List.getElem?_replicate]
    split <;> rfl
  have hu : ∀ i h, ¬ Used (State.init n).hs i h := by
    intro i h hu
    unfold Used State.init at hu
    simp only [List.getElem?_replicate] at hu
    split at hu <;> simp at hu
  refine ⟨by simp [State.init], by simp [State.init], ⟨⟨?_, ?_, ?_⟩, ?_, ?_⟩, sessOK_none _⟩
  · intro i h hu'; exact absurd hu' (hu i h)
  · intro i hi
    rw [hl i] at hi
    simp [Life.rank?] at hi
  · intro i h j h' r r' hu'; exact absurd hu' (hu i h)
  · intro i j hp
    unfold IsPend at hp
    rw [hl i] at hp
    simp at hp
  · intro i h j h' r hu'; exact absurd hu' (hu i h)

end Fuota.Ring
