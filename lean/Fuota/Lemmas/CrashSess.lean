import Fuota.Lemmas.CrashApi
/-!
# Sessions: what the flash looks like while a session is open, `handle_segment`, recovery
-/
namespace Fuota.Crash
open Fuota.Nor Fuota.Fs Fuota.Layout Fuota.Ops Fuota.Updater Fuota.C14

variable {nslots s B : Nat}

/-! ## the flash side of an open session -/

/-- the headers of an open session, for the slot indices `fi` (firmware) and `pi` (parity): the firmware slot's
    external-status word still has the bits of `0xAA` (it reads In-progress), the parity slot is not of kind
    firmware, and the firmware slot's geometry words fit the slot -/
structure SessHdr (s : Nat) (f : Flash) (fi pi : Nat) : Prop where
  ext : ExtSup f (fi * s)
  kind : word f (pi * s) ≠ 0
  fit : FitW f s (fi * s)

/-- … for an in-memory updater -/
structure SessFlash (s : Nat) (f : Flash) (u : Upd) : Prop where
  fwSize : u.fw.size = s
  parSize : u.par.size = s
  hdr : SessHdr s f u.fw.idx u.par.idx

/-- only the two 28-byte headers matter -/
theorem SessHdr.of_hdr_eq {s : Nat} {f f' : Flash} {fi pi : Nat} (h : SessHdr s f fi pi)
    (hf : ∀ j, j < 28 → f'.byte (fi * s + j) = f.byte (fi * s + j))
    (hp : ∀ j, j < 28 → f'.byte (pi * s + j) = f.byte (pi * s + j)) : SessHdr s f' fi pi := by
  have hw : ∀ off, off + 4 ≤ 28 → word f' (fi * s + off) = word f (fi * s + off) := by
    intro off ho
    unfold word
    rw [Nat.add_assoc, Nat.add_assoc, Nat.add_assoc, hf off (by omega), hf (off + 1) (by omega),
      hf (off + 2) (by omega), hf (off + 3) (by omega)]
  refine ⟨?_, ?_, ?_⟩
  · intro j hj
    have := hf (16 + j) (by omega)
    rw [← Nat.add_assoc] at this
    rw [this]; exact h.ext j hj
  · have : word f' (pi * s) = word f (pi * s) := by
      unfold word
      have h0 := hp 0 (by omega)
      rw [Nat.add_zero] at h0
      rw [h0, hp 1 (by omega), hp 2 (by omega), hp 3 (by omega)]
    rw [this]; exact h.kind
  · intro sz n h1 h2
    rw [hw 8 (by omega)] at h1
    rw [hw 12 (by omega)] at h2
    exact h.fit sz n h1 h2

/-- an operation inside a slot other than the two of the session leaves the session headers alone -/
theorem SessHdr.frame {s : Nat} {f : Flash} {fi pi : Nat} (h : SessHdr s f fi pi) (hs : 28 ≤ s) (i : Nat)
    (op : Op) (hin : InSlot f.block s i op) (h1 : i ≠ fi) (h2 : i ≠ pi) : SessHdr s (f.apply op) fi pi := by
  apply h.of_hdr_eq
  · intro j hj
    apply byte_apply_untouched
    intro ht
    have := touches_inSlot hin _ ht
    have := slots_apart s h1
    omega
  · intro j hj
    apply byte_apply_untouched
    intro ht
    have := touches_inSlot hin _ ht
    have := slots_apart s h2
    omega

/-! ## `handle_segment` -/

/-- a (torn) program at or after offset `0x400` of slot `i` -/
theorem bodyOp_shape {size i : Nat} {op : Op} (h : BodyOp size i op) :
    ∃ a bs off, op = .program a bs ∧ a = i * size + off ∧ 0x400 ≤ off ∧ off + bs.length ≤ size := by
  obtain ⟨op0, h0, rfl | ⟨p, keep, rfl⟩⟩ := h
  · cases op with
    | erase a => exact h0.elim
    | program a bs =>
      obtain ⟨off, e, h1, h2⟩ := h0
      exact ⟨a, bs, off, rfl, e, h1, h2⟩
  · cases op0 with
    | erase a => exact h0.elim
    | program a bs =>
      obtain ⟨off, e, h1, h2⟩ := h0
      obtain ⟨bs', e', hl, _⟩ := tear_program p keep a bs
      exact ⟨a, bs', off, e', e, h1, by omega⟩

/-- **one operation of `handle_segment`** keeps the invariant and the session headers -/
theorem body_step (hs : 17412 ≤ s) {f : Flash} {fi pi : Nat} (hJ : CVW nslots s B f) (hh : SessHdr s f fi pi)
    (op : Op) (hop : BodyOp s fi op ∨ BodyOp s pi op) :
    CVW nslots s B (f.apply op) ∧ SessHdr s (f.apply op) fi pi := by
  have untouched : ∀ i, BodyOp s i op → ∀ t j, j < 28 → (f.apply op).byte (t * s + j) = f.byte (t * s + j) := by
    intro i hb t j hj
    obtain ⟨a, bs, off, rfl, e, h1, h2⟩ := bodyOp_shape hb
    apply byte_apply_untouched
    intro ht
    obtain ⟨h3, h4⟩ := ht
    by_cases hti : t = i
    · subst hti; omega
    · have := slots_apart s hti; omega
  rcases hop with hb | hb
  · have hh' := hh.of_hdr_eq (untouched _ hb fi) (untouched _ hb pi)
    obtain ⟨a, bs, off, rfl, e, h1, h2⟩ := bodyOp_shape hb
    exact ⟨cvw_of_extSup_after hJ hs fi _ ⟨by omega, by omega⟩ hh'.ext, hh'⟩
  · have hh' := hh.of_hdr_eq (untouched _ hb fi) (untouched _ hb pi)
    obtain ⟨a, bs, off, rfl, e, h1, h2⟩ := bodyOp_shape hb
    exact ⟨cvw_of_kind_after hJ hs pi _ ⟨by omega, by omega⟩ hh'.kind, hh'⟩

/-- **`handle_segment`** keeps the invariant at every crash point, and the session stays open: for every fragment
    index, payload, in-memory updater state and device state -/
theorem segment_keeps (hs : 17412 ≤ s) (ffr : Bool) (idx : Nat) (bytes : List Nat) (u : Upd) (d : Dev)
    (hg : SlotGeom u) (hJ : CVW nslots s B d.flash) (hsf : SessFlash s d.flash u) :
    CVW nslots s B ((handleSegment ffr idx bytes).run (u, d)).2.2.flash ∧
      SessFlash s ((handleSegment ffr idx bytes).run (u, d)).2.2.flash ((handleSegment ffr idx bytes).run (u, d)).2.1 := by
  obtain ⟨_, ⟨new, hrep, hq⟩, hinv, _⟩ :=
    handleSegment_emits (B := d.flash.block) False u hg ffr idx bytes u d rfl ⟨SameSess.refl u, fun h => h.elim⟩
  have key : ∀ (l : List Op) (f : Flash), (∀ op ∈ l, PairBody u op) → CVW nslots s B f →
      SessHdr s f u.fw.idx u.par.idx →
      CVW nslots s B (f.applyAll l) ∧ SessHdr s (f.applyAll l) u.fw.idx u.par.idx := by
    intro l
    induction l with
    | nil => intro f _ h1 h2; exact ⟨h1, h2⟩
    | cons o l ih =>
      intro f hl h1 h2
      have ho := hl o List.mem_cons_self
      unfold PairBody at ho
      rw [hsf.fwSize, hsf.parSize] at ho
      obtain ⟨h3, h4⟩ := body_step hs h1 h2 o ho
      exact ih _ (fun op hop => hl op (List.mem_cons_of_mem _ hop)) h3 h4
  obtain ⟨h1, h2⟩ := key new.reverse d.flash (fun op hop => hq op (List.mem_reverse.1 hop)) hJ hsf.hdr
  rw [hrep.flash]
  refine ⟨h1, ⟨?_, ?_, ?_⟩⟩
  · rw [hinv.1.fw.2]; exact hsf.fwSize
  · rw [hinv.1.par.2]; exact hsf.parSize
  · rw [hinv.1.fw.1, hinv.1.par.1]; exact h2

end Fuota.Crash
