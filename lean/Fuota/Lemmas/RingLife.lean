import Fuota.Lemmas.RingSteps
import Fuota.Lemmas.RingRecover
/-!
# Ring lemmas, part 11: the lifecycle invariant (`LifeInv` and what it needs), step by step
-/
namespace Fuota.Ring
open Fuota.Layout Fuota.Fs Fuota.Updater Fuota.Slots

/-! ## lists of ghost values -/

theorem getD_set_eq {α : Type} {l : List α} {i : Nat} {v d : α} (h : i < l.length) : (l.set i v).getD i d = v := by
  rw [List.getD_eq_getElem?_getD, List.getElem?_set]
  simp [h]

theorem getD_set_ne {α : Type} {l : List α} {i j : Nat} {v d : α} (h : j ≠ i) : (l.set i v).getD j d = l.getD j d := by
  rw [List.getD_eq_getElem?_getD, List.getD_eq_getElem?_getD, List.getElem?_set]
  have : ¬ i = j := fun e => h e.symm
  simp [this]

theorem getD_none_of_ge {α : Type} {l : List (Option α)} {i : Nat} (h : ¬ i < l.length) : l.getD i none = none := by
  rw [List.getD_eq_getElem?_getD, List.getElem?_eq_none (Nat.le_of_not_lt h)]
  rfl

/-! ## status arithmetic -/

theorem status_complete {h : Header} (hst : totalStatus h = TotalStatus.appWriteInProgress) :
    totalStatus { h with ext := Ext.complete } = TotalStatus.bootloadWriteInProgress := by
  obtain ⟨k, s, sz, n, e, i, b⟩ := h
  unfold totalStatus at hst ⊢
  generalize (s != 0xFFFFFFFF) = v at hst ⊢
  cases v <;> cases e <;> cases i <;> cases b <;> simp at hst ⊢

theorem status_copyDone {h : Header} (hst : totalStatus h = TotalStatus.bootloadWriteInProgress) :
    totalStatus { h with ist := IntSt.complete } = TotalStatus.firstBootPendingAck := by
  obtain ⟨k, s, sz, n, e, i, b⟩ := h
  unfold totalStatus at hst ⊢
  generalize (s != 0xFFFFFFFF) = v at hst ⊢
  cases v <;> cases e <;> cases i <;> cases b <;> simp at hst ⊢

theorem status_confirm {h : Header} (hst : totalStatus h = TotalStatus.firstBootPendingAck) :
    totalStatus { h with boot := Boot.successful } = TotalStatus.confirmedImage := by
  obtain ⟨k, s, sz, n, e, i, b⟩ := h
  unfold totalStatus at hst ⊢
  generalize (s != 0xFFFFFFFF) = v at hst ⊢
  cases v <;> cases e <;> cases i <;> cases b <;> simp at hst ⊢

theorem status_reject {h : Header} (hst : totalStatus h = TotalStatus.firstBootPendingAck) :
    totalStatus { h with boot := Boot.unsuccessful } = TotalStatus.rejectedImage := by
  obtain ⟨k, s, sz, n, e, i, b⟩ := h
  unfold totalStatus at hst ⊢
  generalize (s != 0xFFFFFFFF) = v at hst ⊢
  cases v <;> cases e <;> cases i <;> cases b <;> simp at hst ⊢

/-- the three statuses the lifecycle tracks need ext = complete -/
theorem status_ext_complete {h : Header}
    (hst : totalStatus h = TotalStatus.bootloadWriteInProgress ∨ totalStatus h = TotalStatus.firstBootPendingAck ∨
      totalStatus h = TotalStatus.confirmedImage) : h.ext = Ext.complete := by
  obtain ⟨k, s, sz, n, e, i, b⟩ := h
  unfold totalStatus at hst
  generalize (s != 0xFFFFFFFF) = v at hst
  cases v <;> cases e <;> cases i <;> cases b <;> simp at hst ⊢

theorem status_fresh (k : Kind) (s sz n : Nat) (hs : s ≠ 0xFFFFFFFF) :
    totalStatus { kind := k, seq := s, size := sz, n := n, ext := .inProgress, ist := .inProgress, boot := .untested } =
      TotalStatus.appWriteInProgress := by
  unfold totalStatus
  have : (s != 0xFFFFFFFF) = true := by simpa using hs
  simp [this]

/-! ## the lifecycle relation, pointwise -/

abbrev lf (life : List (Option Life)) (i : Nat) : Option Life := life.getD i none

def IsPend (life : List (Option Life)) (i : Nat) : Prop := lf life i = some .copyPend ∨ lf life i = some .ackPend

structure LifeP (hs : Hdrs) (life : List (Option Life)) : Prop where
  a : ∀ i h, Used hs i h →
    ((h.kind = Kind.firmware ∧ totalStatus h = TotalStatus.bootloadWriteInProgress) ↔ lf life i = some .copyPend) ∧
    ((h.kind = Kind.firmware ∧ totalStatus h = TotalStatus.firstBootPendingAck) ↔ lf life i = some .ackPend) ∧
    (totalStatus h = TotalStatus.confirmedImage ↔ (Life.rank? (lf life i)).isSome)
  b : ∀ i, (lf life i = some .copyPend ∨ lf life i = some .ackPend ∨ (Life.rank? (lf life i)).isSome) →
    ∃ h, Used hs i h
  c : ∀ i h j h' r r', Used hs i h → Used hs j h' → lf life i = some (.confirmed r) → lf life j = some (.confirmed r') →
    (r < r' ↔ h.seq < h'.seq) ∧ (r = r' → i = j)

theorem rank_isSome {o : Option Life} : (Life.rank? o).isSome ↔ ∃ r, o = some (.confirmed r) := by
  cases o with
  | none => simp [Life.rank?]
  | some l => cases l <;> simp [Life.rank?]

theorem lifeInv_iff (s : State) : LifeInv s ↔ LifeP s.hs s.life := by
  unfold LifeInv lifeAt
  constructor
  · rintro ⟨ha, hb, hc⟩
    refine ⟨fun i h hu => ha (i, h) (mem_indexed.mpr hu), ?_, ?_⟩
    · intro i hi
      have hil : i < s.life.length := by
        by_cases hlt : i < s.life.length
        · exact hlt
        · exfalso
          have : lf s.life i = none := getD_none_of_ge hlt
          rw [this] at hi
          simp [Life.rank?] at hi
      have := hb i (List.mem_range.mpr hil) hi
      cases hg : s.hs[i]? with
      | none => simp [List.getD, hg] at this
      | some o =>
        cases o with
        | none => simp [List.getD, hg] at this
        | some hd => exact ⟨hd, hg⟩
    · intro i h j h' r r' hu hu' hl hl'
      have := hc (i, h) (mem_indexed.mpr hu) (j, h') (mem_indexed.mpr hu')
      simp only [lf] at hl hl'
      simp only [hl, hl', Life.rank?] at this
      exact this
  · rintro ⟨ha, hb, hc⟩
    refine ⟨fun p hp => ha p.1 p.2 (mem_indexed.mp hp), ?_, ?_⟩
    · intro i _ hi
      obtain ⟨h, hu⟩ := hb i hi
      simp [List.getD, show s.hs[i]? = some (some h) from hu]
    · intro p hp q hq
      cases h1 : Life.rank? (s.life.getD p.1 none) with
      | none => trivial
      | some r =>
        cases h2 : Life.rank? (s.life.getD q.1 none) with
        | none => trivial
        | some r' =>
          simp only
          have e1 : ∃ r0, s.life.getD p.1 none = some (.confirmed r0) := rank_isSome.mp (by rw [h1]; rfl)
          have e2 : ∃ r0, s.life.getD q.1 none = some (.confirmed r0) := rank_isSome.mp (by rw [h2]; rfl)
          obtain ⟨r0, e1⟩ := e1
          obtain ⟨r0', e2⟩ := e2
          rw [e1] at h1
          rw [e2] at h2
          simp only [Life.rank?, Option.some.injEq] at h1 h2
          subst h1; subst h2
          exact hc p.1 p.2 q.1 q.2 r0 r0' (mem_indexed.mp hp) (mem_indexed.mp hq) e1 e2

/-! ## updates of one slot -/



/-- a header the lifecycle relation does not track -/
def Untracked (h : Header) : Prop :=
  ¬ (h.kind = Kind.firmware ∧ totalStatus h = TotalStatus.bootloadWriteInProgress) ∧
  ¬ (h.kind = Kind.firmware ∧ totalStatus h = TotalStatus.firstBootPendingAck) ∧
  totalStatus h ≠ TotalStatus.confirmedImage

/-- a lifecycle value the relation does not track -/
def UntrackedL (o : Option Life) : Prop :=
  o ≠ some .copyPend ∧ o ≠ some .ackPend ∧ ∀ r, o ≠ some (.confirmed r)

/-- the part of the invariant about pending / confirmed images -/
structure LifeOK (hs : Hdrs) (life : List (Option Life)) : Prop where
  rel : LifeP hs life
  uniq : ∀ i j, IsPend life i → IsPend life j → i = j
  top : ∀ i h j h' r, Used hs i h → Used hs j h' → IsPend life i → lf life j = some (.confirmed r) → h'.seq < h.seq

/-- slot `i` changes to something the relation does not track; every other slot keeps header and lifecycle -/
theorem LifeOK.untracked {hs hs' : Hdrs} {life life' : List (Option Life)} (i : Nat) (h : LifeOK hs life)
    (hother : ∀ j, j ≠ i → hs'[j]? = hs[j]? ∧ lf life' j = lf life j)
    (hnew : ∀ h', Used hs' i h' → Untracked h') (hlnew : UntrackedL (lf life' i)) : LifeOK hs' life' := by
  have hu : ∀ j hd, j ≠ i → (Used hs' j hd ↔ Used hs j hd) := by
    intro j hd hj; unfold Used; rw [(hother j hj).1]
  have hl : ∀ j, j ≠ i → lf life' j = lf life j := fun j hj => (hother j hj).2
  have npend : ¬ IsPend life' i := by
    rintro (e | e)
    · exact hlnew.1 e
    · exact hlnew.2.1 e
  have nrank : ¬ (Life.rank? (lf life' i)).isSome := by
    intro e
    obtain ⟨r, hr⟩ := rank_isSome.mp e
    exact hlnew.2.2 r hr
  have pend_iff : ∀ j, j ≠ i → (IsPend life' j ↔ IsPend life j) := by
    intro j hj; unfold IsPend; rw [hl j hj]
  refine ⟨⟨?_, ?_, ?_⟩, ?_, ?_⟩
  · intro j hd hud
    by_cases hj : j = i
    · subst hj
      obtain ⟨u1, u2, u3⟩ := hnew hd hud
      refine ⟨⟨fun e => absurd e u1, fun e => absurd e hlnew.1⟩, ⟨fun e => absurd e u2, fun e => absurd e hlnew.2.1⟩,
        ⟨fun e => absurd e u3, fun e => absurd e nrank⟩⟩
    · rw [hl j hj]
      exact h.rel.a j hd ((hu j hd hj).mp hud)
  · intro j hj'
    by_cases hj : j = i
    · subst hj
      rcases hj' with e | e | e
      · exact absurd e hlnew.1
      · exact absurd e hlnew.2.1
      · exact absurd e nrank
    · rw [hl j hj] at hj'
      obtain ⟨hd, hud⟩ := h.rel.b j hj'
      exact ⟨hd, (hu j hd hj).mpr hud⟩
  · intro j hd j' hd' r r' hud hud' e e'
    have hj : j ≠ i := by intro hj; subst hj; exact hlnew.2.2 r e
    have hj' : j' ≠ i := by intro hj; subst hj; exact hlnew.2.2 r' e'
    rw [hl j hj] at e
    rw [hl j' hj'] at e'
    exact h.rel.c j hd j' hd' r r' ((hu j hd hj).mp hud) ((hu j' hd' hj').mp hud') e e'
  · intro j j' hp hp'
    have hj : j ≠ i := by intro hj; subst hj; exact npend hp
    have hj' : j' ≠ i := by intro hj; subst hj; exact npend hp'
    exact h.uniq j j' ((pend_iff j hj).mp hp) ((pend_iff j' hj').mp hp')
  · intro j hd j' hd' r hud hud' hp e
    have hj : j ≠ i := by intro hj; subst hj; exact npend hp
    have hj' : j' ≠ i := by intro hj; subst hj; exact hlnew.2.2 r e
    rw [hl j' hj'] at e
    exact h.top j hd j' hd' r ((hu j hd hj).mp hud) ((hu j' hd' hj').mp hud') ((pend_iff j hj).mp hp) e



/-- completion mark on the firmware slot `i` of the session: the image becomes copy-pending -/
theorem LifeOK.complete1 {hs hs' : Hdrs} {life life' : List (Option Life)} (i : Nat) (h' : Header) (h : LifeOK hs life)
    (hother : ∀ j, j ≠ i → hs'[j]? = hs[j]? ∧ lf life' j = lf life j)
    (hnew : Used hs' i h') (hk : h'.kind = Kind.firmware) (hst : totalStatus h' = TotalStatus.bootloadWriteInProgress)
    (hlnew : lf life' i = some .copyPend) (hnopend : ∀ j, ¬ IsPend life j)
    (htop : ∀ j hd r, j ≠ i → Used hs j hd → lf life j = some (.confirmed r) → hd.seq < h'.seq) : LifeOK hs' life' := by
  have hu : ∀ j hd, j ≠ i → (Used hs' j hd ↔ Used hs j hd) := by
    intro j hd hj; unfold Used; rw [(hother j hj).1]
  have hl : ∀ j, j ≠ i → lf life' j = lf life j := fun j hj => (hother j hj).2
  have hui : ∀ hd, Used hs' i hd → hd = h' := by
    intro hd hud
    have a : hs'[i]? = some (some hd) := hud
    rw [show hs'[i]? = some (some h') from hnew] at a
    simpa using a.symm
  have pend_only : ∀ j, IsPend life' j → j = i := by
    intro j hp
    apply Classical.byContradiction
    intro hj
    unfold IsPend at hp
    rw [hl j hj] at hp
    exact hnopend j hp
  refine ⟨⟨?_, ?_, ?_⟩, ?_, ?_⟩
  · intro j hd hud
    by_cases hj : j = i
    · subst hj
      rw [hui hd hud, hlnew, hst]
      simp [hk, Life.rank?]
    · rw [hl j hj]
      exact h.rel.a j hd ((hu j hd hj).mp hud)
  · intro j hj'
    by_cases hj : j = i
    · subst hj; exact ⟨h', hnew⟩
    · rw [hl j hj] at hj'
      obtain ⟨hd, hud⟩ := h.rel.b j hj'
      exact ⟨hd, (hu j hd hj).mpr hud⟩
  · intro j hd j' hd' r r' hud hud' e e'
    have hj : j ≠ i := by intro hj; subst hj; rw [hlnew] at e; cases e
    have hj' : j' ≠ i := by intro hj; subst hj; rw [hlnew] at e'; cases e'
    rw [hl j hj] at e
    rw [hl j' hj'] at e'
    exact h.rel.c j hd j' hd' r r' ((hu j hd hj).mp hud) ((hu j' hd' hj').mp hud') e e'
  · intro j j' hp hp'
    rw [pend_only j hp, pend_only j' hp']
  · intro j hd j' hd' r hud hud' hp e
    have hji := pend_only j hp
    subst hji
    have hj' : j' ≠ j := by intro hj; subst hj; rw [hlnew] at e; cases e
    rw [hl j' hj'] at e
    rw [hui hd hud]
    exact htop j' hd' r hj' ((hu j' hd' hj').mp hud') e

/-- the bootloader marks the copy of slot `i` done: copy-pending becomes acknowledgement-pending -/
theorem LifeOK.copyDone {hs hs' : Hdrs} {life life' : List (Option Life)} (i : Nat) (h0 h' : Header) (h : LifeOK hs life)
    (hother : ∀ j, j ≠ i → hs'[j]? = hs[j]? ∧ lf life' j = lf life j)
    (hold : Used hs i h0) (hk0 : h0.kind = Kind.firmware) (hst0 : totalStatus h0 = TotalStatus.bootloadWriteInProgress)
    (hnew : Used hs' i h') (hk : h'.kind = Kind.firmware) (hst : totalStatus h' = TotalStatus.firstBootPendingAck)
    (hseq : h'.seq = h0.seq) (hlnew : lf life' i = some .ackPend) : LifeOK hs' life' := by
  have hu : ∀ j hd, j ≠ i → (Used hs' j hd ↔ Used hs j hd) := by
    intro j hd hj; unfold Used; rw [(hother j hj).1]
  have hl : ∀ j, j ≠ i → lf life' j = lf life j := fun j hj => (hother j hj).2
  have hui : ∀ hd, Used hs' i hd → hd = h' := by
    intro hd hud
    have a : hs'[i]? = some (some hd) := hud
    rw [show hs'[i]? = some (some h') from hnew] at a
    simpa using a.symm
  have hold_pend : IsPend life i := Or.inl ((h.rel.a i h0 hold).1.mp ⟨hk0, hst0⟩)
  have pend_iff : ∀ j, IsPend life' j → IsPend life j := by
    intro j hp
    by_cases hj : j = i
    · subst hj; exact hold_pend
    · unfold IsPend at hp ⊢; rw [hl j hj] at hp; exact hp
  refine ⟨⟨?_, ?_, ?_⟩, ?_, ?_⟩
  · intro j hd hud
    by_cases hj : j = i
    · subst hj
      rw [hui hd hud, hlnew, hst]
      simp [hk, Life.rank?]
    · rw [hl j hj]
      exact h.rel.a j hd ((hu j hd hj).mp hud)
  · intro j hj'
    by_cases hj : j = i
    · subst hj; exact ⟨h', hnew⟩
    · rw [hl j hj] at hj'
      obtain ⟨hd, hud⟩ := h.rel.b j hj'
      exact ⟨hd, (hu j hd hj).mpr hud⟩
  · intro j hd j' hd' r r' hud hud' e e'
    have hj : j ≠ i := by intro hj; subst hj; rw [hlnew] at e; cases e
    have hj' : j' ≠ i := by intro hj; subst hj; rw [hlnew] at e'; cases e'
    rw [hl j hj] at e
    rw [hl j' hj'] at e'
    exact h.rel.c j hd j' hd' r r' ((hu j hd hj).mp hud) ((hu j' hd' hj').mp hud') e e'
  · intro j j' hp hp'
    exact h.uniq j j' (pend_iff j hp) (pend_iff j' hp')
  · intro j hd j' hd' r hud hud' hp e
    have hj' : j' ≠ i := by intro hj; subst hj; rw [hlnew] at e; cases e
    rw [hl j' hj'] at e
    have hud0' := (hu j' hd' hj').mp hud'
    by_cases hj : j = i
    · subst hj
      rw [hui hd hud, hseq]
      exact h.top j h0 j' hd' r hold hud0' hold_pend e
    · exact h.top j hd j' hd' r ((hu j hd hj).mp hud) hud0' (pend_iff j hp) e

/-- the application confirms the image in slot `i`: it gets the next confirmation rank -/
theorem LifeOK.confirm {hs hs' : Hdrs} {life life' : List (Option Life)} (i R : Nat) (h0 h' : Header) (h : LifeOK hs life)
    (hother : ∀ j, j ≠ i → hs'[j]? = hs[j]? ∧ lf life' j = lf life j)
    (hold : Used hs i h0) (hk0 : h0.kind = Kind.firmware) (hst0 : totalStatus h0 = TotalStatus.firstBootPendingAck)
    (hnew : Used hs' i h') (hst : totalStatus h' = TotalStatus.confirmedImage)
    (hseq : h'.seq = h0.seq) (hlnew : lf life' i = some (.confirmed R))
    (hR : ∀ j r, lf life j = some (.confirmed r) → r < R) : LifeOK hs' life' := by
  have hu : ∀ j hd, j ≠ i → (Used hs' j hd ↔ Used hs j hd) := by
    intro j hd hj; unfold Used; rw [(hother j hj).1]
  have hl : ∀ j, j ≠ i → lf life' j = lf life j := fun j hj => (hother j hj).2
  have hui : ∀ hd, Used hs' i hd → hd = h' := by
    intro hd hud
    have a : hs'[i]? = some (some hd) := hud
    rw [show hs'[i]? = some (some h') from hnew] at a
    simpa using a.symm
  have hold_pend : IsPend life i := Or.inr ((h.rel.a i h0 hold).2.1.mp ⟨hk0, hst0⟩)
  have npend : ∀ j, ¬ IsPend life' j := by
    intro j hp
    by_cases hj : j = i
    · subst hj
      unfold IsPend at hp
      rw [hlnew] at hp
      rcases hp with e | e <;> cases e
    · unfold IsPend at hp
      rw [hl j hj] at hp
      exact hj (h.uniq j i hp hold_pend)
  refine ⟨⟨?_, ?_, ?_⟩, ?_, ?_⟩
  · intro j hd hud
    by_cases hj : j = i
    · subst hj
      rw [hui hd hud, hlnew, hst]
      simp [Life.rank?]
    · rw [hl j hj]
      exact h.rel.a j hd ((hu j hd hj).mp hud)
  · intro j hj'
    by_cases hj : j = i
    · subst hj; exact ⟨h', hnew⟩
    · rw [hl j hj] at hj'
      obtain ⟨hd, hud⟩ := h.rel.b j hj'
      exact ⟨hd, (hu j hd hj).mpr hud⟩
  · intro j hd j' hd' r r' hud hud' e e'
    by_cases hj : j = i
    · by_cases hj' : j' = i
      · subst hj; subst hj'
        rw [hlnew] at e e'
        simp only [Option.some.injEq, Life.confirmed.injEq] at e e'
        subst e; subst e'
        rw [hui hd hud, hui hd' hud']
        exact ⟨by omega, fun _ => rfl⟩
      · subst hj
        rw [hlnew] at e
        simp only [Option.some.injEq, Life.confirmed.injEq] at e
        subst e
        rw [hl j' hj'] at e'
        have hlt := hR j' r' e'
        have := h.top j h0 j' hd' r' hold ((hu j' hd' hj').mp hud') hold_pend e'
        rw [hui hd hud, hseq]
        exact ⟨by omega, by omega⟩
    · by_cases hj' : j' = i
      · subst hj'
        rw [hlnew] at e'
        simp only [Option.some.injEq, Life.confirmed.injEq] at e'
        subst e'
        rw [hl j hj] at e
        have hlt := hR j r e
        have := h.top j' h0 j hd r hold ((hu j hd hj).mp hud) hold_pend e
        rw [hui hd' hud', hseq]
        exact ⟨by omega, by omega⟩
      · rw [hl j hj] at e
        rw [hl j' hj'] at e'
        exact h.rel.c j hd j' hd' r r' ((hu j hd hj).mp hud) ((hu j' hd' hj').mp hud') e e'
  · intro j j' hp _
    exact absurd hp (npend j)
  · intro j hd j' hd' r _ _ hp _
    exact absurd hp (npend j)


/-! ## the first invariant bundle -/


/-- the session in RAM: its two slots read as a firmware / a parity header with a write in progress, and the
    firmware header carries a larger sequence number than every other slot -/
def SessOK (hs : Hdrs) (sess : Option (Nat × Nat)) : Prop :=
  ∀ f p, sess = some (f, p) → f ≠ p ∧ ∃ hf hp, Used hs f hf ∧ hf.kind = Kind.firmware ∧
    totalStatus hf = TotalStatus.appWriteInProgress ∧ Used hs p hp ∧ hp.kind = Kind.parity ∧
    totalStatus hp = TotalStatus.appWriteInProgress ∧ ∀ j h, Used hs j h → j ≠ f → j ≠ p → h.seq < hf.seq

theorem sessOK_none (hs : Hdrs) : SessOK hs none := by
  intro f p h; cases h

/-- the first invariant bundle (on the fields it reads) -/
structure Inv1F (n : Nat) (hs : Hdrs) (life : List (Option Life)) (sess : Option (Nat × Nat)) : Prop where
  len : hs.length = n
  llen : life.length = n
  ok : LifeOK hs life
  sess : SessOK hs sess

abbrev Inv1 (n : Nat) (s : State) : Prop := Inv1F n s.hs s.life s.sess

theorem lf_set_self_none (life : List (Option Life)) (i : Nat) : lf (life.set i none) i = none := by
  unfold lf
  by_cases h : i < life.length
  · exact getD_set_eq h
  · exact getD_none_of_ge (by simpa using h)

theorem untrackedL_none : UntrackedL none := ⟨by simp, by simp, by simp⟩

theorem get_set_ne {hs : Hdrs} {i j : Nat} {v : Option Header} (h : j ≠ i) : (hs.set i v)[j]? = hs[j]? := by
  rw [List.getElem?_set]
  have : ¬ i = j := fun e => h e.symm
  simp [this]

theorem inv1_erase {n : Nat} {hs : Hdrs} {life : List (Option Life)} {sess : Option (Nat × Nat)} (i : Nat)
    (h : Inv1F n hs life sess) : Inv1F n (hs.set i none) (life.set i none) none := by
  refine ⟨by simp [h.len], by simp [h.llen], ?_, sessOK_none _⟩
  apply h.ok.untracked i
  · intro j hj
    exact ⟨get_set_ne hj, getD_set_ne hj⟩
  · intro h' hu
    rcases used_set.mp hu with ⟨_, _, e⟩ | ⟨e, _⟩
    · cases e
    · exact absurd rfl e
  · rw [lf_set_self_none]; exact untrackedL_none

theorem untracked_of_ext {h : Header} (he : h.ext ≠ Ext.complete) : Untracked h := by
  refine ⟨fun e => he (status_ext_complete (Or.inl e.2)), fun e => he (status_ext_complete (Or.inr (Or.inl e.2))),
    fun e => he (status_ext_complete (Or.inr (Or.inr e)))⟩

/-- a slot is re-marked to a header whose ext status is not complete (aborted) -/
theorem inv1_mark {n : Nat} {hs : Hdrs} {life : List (Option Life)} {sess : Option (Nat × Nat)} (i : Nat)
    (h0 h' : Header) (h : Inv1F n hs life sess) (hu0 : Used hs i h0) (he0 : h0.ext ≠ Ext.complete)
    (he : h'.ext ≠ Ext.complete) :
    Inv1F n (hs.set i (some h'))
      (if h'.ext = Ext.aborted ∧ life.getD i none = some Life.inProg then life.set i (some .aborted) else life) none := by
  have hil : i < life.length := by rw [h.llen, ← h.len]; exact used_lt hu0
  have hold : UntrackedL (lf life i) := by
    have ha := h.ok.rel.a i h0 hu0
    have hun := untracked_of_ext he0
    refine ⟨fun e => hun.1 (ha.1.mpr e), fun e => hun.2.1 (ha.2.1.mpr e), fun r e => hun.2.2 (ha.2.2.mpr ?_)⟩
    rw [e]; rfl
  refine ⟨by simp [h.len], by split <;> simp [h.llen], ?_, sessOK_none _⟩
  apply h.ok.untracked i
  · intro j hj
    refine ⟨get_set_ne hj, ?_⟩
    split
    · exact getD_set_ne hj
    · rfl
  · intro hd hu
    rcases used_set.mp hu with ⟨_, _, e⟩ | ⟨e, _⟩
    · simp only [Option.some.injEq] at e
      subst e
      exact untracked_of_ext he
    · exact absurd rfl e
  · split
    · unfold lf
      rw [getD_set_eq hil]
      exact ⟨by simp, by simp, by simp⟩
    · exact hold

theorem untracked_fresh (k : Kind) (s sz n : Nat) :
    Untracked { kind := k, seq := s, size := sz, n := n, ext := .inProgress, ist := .inProgress, boot := .untested } :=
  untracked_of_ext (by simp)

/-- a fresh header appears in an erased slot -/
theorem inv1_write {n : Nat} {hs : Hdrs} {life : List (Option Life)} {sess : Option (Nat × Nat)} (i : Nat)
    (h' : Header) (h : Inv1F n hs life sess) (hl : lf life i = none) (hun : Untracked h') :
    Inv1F n (hs.set i (some h')) life none := by
  refine ⟨by simp [h.len], h.llen, ?_, sessOK_none _⟩
  apply h.ok.untracked i
  · intro j hj
    exact ⟨get_set_ne hj, rfl⟩
  · intro hd hu
    rcases used_set.mp hu with ⟨_, _, e⟩ | ⟨e, _⟩
    · simp only [Option.some.injEq] at e
      subst e
      exact hun
    · exact absurd rfl e
  · rw [hl]; exact untrackedL_none

/-- a ghost-only update of the lifecycle of a slot whose header is not tracked -/
theorem inv1_ghost {n : Nat} {hs : Hdrs} {life : List (Option Life)} {sess sess' : Option (Nat × Nat)} (i : Nat)
    (v : Option Life) (h : Inv1F n hs life sess) (hun : ∀ hd, Used hs i hd → Untracked hd) (hv : UntrackedL v)
    (hil : i < n) (hsess : SessOK hs sess') : Inv1F n hs (life.set i v) sess' := by
  refine ⟨h.len, by simp [h.llen], ?_, hsess⟩
  apply h.ok.untracked i
  · intro j hj
    exact ⟨rfl, getD_set_ne hj⟩
  · exact hun
  · unfold lf
    rw [getD_set_eq (by rw [h.llen]; exact hil)]
    exact hv




/-- under the ring invariant different used slots carry different sequence numbers -/
theorem ring_seq_ne {n : Nat} {hs : Hdrs} (hn : 0 < n) (hinv : RingInv n hs) {i j : Nat} {h h' : Header}
    (hu : Used hs i h) (hu' : Used hs j h') (hij : i ≠ j) : h.seq ≠ h'.seq := by
  obtain ⟨c, hc, hg⟩ := ringInv_cut hn hinv
  have hin : i < n := hinv.1 ▸ used_lt hu
  have hjn : j < n := hinv.1 ▸ used_lt hu'
  have hne : off n c i ≠ off n c j := fun e => hij (off_inj' hc hin hjn e)
  rcases Nat.lt_or_gt_of_ne hne with h3 | h3
  · have := hg i h j h' hu hu' h3; omega
  · have := hg j h' i h hu' hu h3; omega

/-- facts about the pair `choosePair` answers that the ghost-level proofs use -/
structure StartFacts (n : Nat) (hs : Hdrs) (a b sa sb : Nat) : Prop where
  ab : a ≠ b
  an : a < n
  bn : b < n
  below : ∀ j h, Used hs j h → j ≠ a → j ≠ b → h.seq < sa
  lt : sa < sb
  sav : sa ≠ 0xFFFFFFFF
  sbv : sb ≠ 0xFFFFFFFF

theorem choosePair_seq_bound {n : Nat} {hs : Hdrs} {a b sa sb : Nat} (hroom : SeqRoom 2 hs)
    (hc : choosePair n hs = .ok (a, b, sa, sb)) : sa < 0xFFFFFFFF ∧ sb < 0xFFFFFFFF := by
  rw [choosePair_unfold] at hc
  cases hl : lowOf hs with
  | none =>
    rw [hl] at hc
    simp only [Except.ok.injEq, Prod.mk.injEq] at hc
    obtain ⟨-, -, rfl, rfl⟩ := hc
    omega
  | some p =>
    obtain ⟨low, ls⟩ := p
    obtain ⟨hlo, hlou, -⟩ := lowOf_eq_some.mp hl
    obtain ⟨-, ⟨high, hsq, hh⟩⟩ := scans_of_used hlou
    obtain ⟨hhi, hhiu, hhs, -⟩ := highOf_eq_some.mp hh
    have hroomh : hsq + 2 < 0xFFFFFFFF := by
      have := hroom (high, hhi) (mem_indexed.mpr hhiu)
      simp only [hhs] at this
      exact this
    have hn1 : seqNext hsq = hsq + 1 := seqNext_eq (by omega)
    have hn2 : seqNext (hsq + 1) = hsq + 2 := seqNext_eq (by omega)
    rw [hl, hh] at hc
    simp only at hc
    rw [hn1, hn2] at hc
    split at hc
    · simp only [Except.ok.injEq, Prod.mk.injEq] at hc; obtain ⟨-, -, rfl, rfl⟩ := hc; omega
    · split at hc
      · split at hc <;>
          (simp only [Except.ok.injEq, Prod.mk.injEq] at hc; obtain ⟨-, -, rfl, rfl⟩ := hc; omega)
      · split at hc
        · split at hc
          · simp only [Except.ok.injEq, Prod.mk.injEq] at hc; obtain ⟨-, -, rfl, rfl⟩ := hc; omega
          · rename_i hfirst hsome
            simp only [Except.ok.injEq, Prod.mk.injEq] at hc
            obtain ⟨-, -, rfl, rfl⟩ := hc
            have := hroom (_, hfirst) (mem_indexed.mpr (getD_eq_some.mp hsome))
            simp only at this
            omega
        · simp only [Except.ok.injEq, Prod.mk.injEq] at hc; obtain ⟨-, -, rfl, rfl⟩ := hc; omega

theorem startFacts {n : Nat} (hn : 4 ≤ n) {hs : Hdrs} (hinv : RingInv n hs) (hroom : SeqRoom 2 hs)
    {a b sa sb : Nat} (hc : choosePair n hs = .ok (a, b, sa, sb)) : StartFacts n hs a b sa sb := by
  obtain ⟨hab, han, hbn, c, hcn, hg, hall, hlt, hle⟩ := start_ok hn hinv hroom hc
  have hb := choosePair_seq_bound hroom hc
  refine ⟨hab, han, hbn, ?_, by omega, by omega, by omega⟩
  intro j h hu hja hjb
  have hu2 : Used ((hs.set b none).set a none) j h :=
    used_set.mpr (Or.inr ⟨hja, used_set.mpr (Or.inr ⟨hjb, hu⟩)⟩)
  have := hall j h hu2
  omega




theorem used_unique {hs : Hdrs} {i : Nat} {h h' : Header} (a : Used hs i h) (b : Used hs i h') : h = h' := by
  have a' : hs[i]? = some (some h) := a
  rw [show hs[i]? = some (some h') from b] at a'
  simpa using a'.symm

/-- what the lifecycle says about a slot whose header is not tracked -/
theorem untrackedL_of_used {hs : Hdrs} {life : List (Option Life)} (h : LifeOK hs life) {i : Nat} {h0 : Header}
    (hu : Used hs i h0) (hun : Untracked h0) : UntrackedL (lf life i) := by
  have ha := h.rel.a i h0 hu
  refine ⟨fun e => hun.1 (ha.1.mpr e), fun e => hun.2.1 (ha.2.1.mpr e), fun r e => hun.2.2 (ha.2.2.mpr ?_)⟩
  rw [e]; rfl

/-- a slot with an untracked header is re-marked to another untracked header; lifecycle unchanged -/
theorem inv1_remark {n : Nat} {hs : Hdrs} {life : List (Option Life)} {sess : Option (Nat × Nat)} (i : Nat)
    (h0 h' : Header) (h : Inv1F n hs life sess) (hu0 : Used hs i h0) (hun0 : Untracked h0) (hun : Untracked h') :
    Inv1F n (hs.set i (some h')) life none := by
  refine ⟨by simp [h.len], h.llen, ?_, sessOK_none _⟩
  apply h.ok.untracked i
  · intro j hj
    exact ⟨get_set_ne hj, rfl⟩
  · intro hd hu
    rcases used_set.mp hu with ⟨_, _, e⟩ | ⟨e, _⟩
    · simp only [Option.some.injEq] at e
      subst e
      exact hun
    · exact absurd rfl e
  · exact untrackedL_of_used h.ok hu0 hun0

theorem not_pend_of_pending_nil {s : State} (h : pending s = []) (j : Nat) : ¬ IsPend s.life j := by
  intro hp
  have hget : ∀ l : Life, lf s.life j = some l → s.life[j]? = some (some l) := by
    intro l hl
    unfold lf at hl
    rw [List.getD_eq_getElem?_getD] at hl
    cases hg : s.life[j]? with
    | none => rw [hg] at hl; cases hl
    | some o => rw [hg] at hl; simp only [Option.getD_some] at hl; rw [hl]
  unfold pending at h
  rcases hp with e | e
  · have hm : (some Life.copyPend, j) ∈ s.life.zipIdx := List.mem_zipIdx_iff_getElem?.mpr (hget _ e)
    have : (j, Life.copyPend) ∈ ([] : List (Nat × Life)) := by
      rw [← h, List.mem_filterMap]
      exact ⟨_, hm, rfl⟩
    cases this
  · have hm : (some Life.ackPend, j) ∈ s.life.zipIdx := List.mem_zipIdx_iff_getElem?.mpr (hget _ e)
    have : (j, Life.ackPend) ∈ ([] : List (Nat × Life)) := by
      rw [← h, List.mem_filterMap]
      exact ⟨_, hm, rfl⟩
    cases this

theorem maxRank_fold_ge (l : List (Option Life)) (m : Nat) :
    m ≤ l.foldl (fun m l => match l with | some (.confirmed r) => max m (r + 1) | _ => m) m := by
  induction l generalizing m with
  | nil => exact Nat.le_refl _
  | cons x l ih =>
    simp only [List.foldl_cons]
    refine Nat.le_trans ?_ (ih _)
    split
    · exact Nat.le_max_left _ _
    · exact Nat.le_refl _

theorem maxRank_fold_gt (l : List (Option Life)) (m r : Nat) (h : some (Life.confirmed r) ∈ l) :
    r < l.foldl (fun m l => match l with | some (.confirmed r) => max m (r + 1) | _ => m) m := by
  induction l generalizing m with
  | nil => cases h
  | cons x l ih =>
    simp only [List.foldl_cons]
    rcases List.mem_cons.mp h with e | e
    · subst e
      change r < List.foldl _ (max m (r + 1)) l
      have := maxRank_fold_ge l (max m (r + 1))
      have h2 : r + 1 ≤ max m (r + 1) := Nat.le_max_right _ _
      omega
    · exact ih _ e

theorem lt_maxRank {s : State} {j r : Nat} (h : lf s.life j = some (.confirmed r)) : r < maxRank s := by
  unfold maxRank
  apply maxRank_fold_gt
  unfold lf at h
  rw [List.getD_eq_getElem?_getD] at h
  cases hg : s.life[j]? with
  | none => rw [hg] at h; cases h
  | some o =>
    rw [hg] at h
    simp only [Option.getD_some] at h
    subst h
    exact List.mem_of_getElem? hg

/-- re-marking a slot that is not in progress keeps the session facts -/
theorem sessOK_mark {hs : Hdrs} {sess : Option (Nat × Nat)} {i : Nat} {h0 h' : Header} (h : SessOK hs sess)
    (hu0 : Used hs i h0) (hst : totalStatus h0 ≠ TotalStatus.appWriteInProgress) (hseq : h'.seq = h0.seq) :
    SessOK (hs.set i (some h')) sess := by
  intro f p hs'
  obtain ⟨hfp, hf, hp, huf, hkf, hstf, hup, hkp, hstp, hall⟩ := h f p hs'
  have hif : i ≠ f := by
    intro e; subst e; exact hst (used_unique hu0 huf ▸ hstf)
  have hip : i ≠ p := by
    intro e; subst e; exact hst (used_unique hu0 hup ▸ hstp)
  refine ⟨hfp, hf, hp, used_set.mpr (Or.inr ⟨fun e => hif e.symm, huf⟩), hkf, hstf,
    used_set.mpr (Or.inr ⟨fun e => hip e.symm, hup⟩), hkp, hstp, ?_⟩
  intro j h hu hjf hjp
  rcases used_set.mp hu with ⟨rfl, _, e⟩ | ⟨_, hu'⟩
  · simp only [Option.some.injEq] at e
    subst e
    rw [hseq]
    exact hall j h0 hu0 hjf hjp
  · exact hall j h hu' hjf hjp


end Fuota.Ring
