import Fuota.Lemmas.NoPanicFs
/-!
# `update.rs` / `update/matrix.rs` / `firmware.rs` level: no-panic facts for the loops of the updater
-/
namespace Fuota.NoPanic
open Fuota.Nor Fuota.Fs Fuota.Layout Fuota.Updater

/-! ## firmware validation, cancel, status queries: no panic on any device -/

theorem np_crcLoop (base segSize : Nat) (is : List Nat) (skip : Option Nat) (crc : Nat) :
    NP (crcLoop base segSize is skip crc) := by
  induction is generalizing skip crc with
  | nil => exact np_pure _
  | cons i is ih => unfold crcLoop; np_auto [ih]

theorem np_crcValid (s : Slot) (h : Header) : NP (crcValid s h) := by
  unfold crcValid; np_auto [np_crcLoop]

theorem np_loadHeaderAt (a : Nat) : NP (loadHeaderAt a) := fun _ => loadHeaderAt_spec _ trivial

theorem np_isValidFirmware (s : Slot) : NP (isValidFirmware s) := by
  unfold isValidFirmware; np_auto [np_crcValid, np_loadHeaderAt]

theorem np_cancelFrom (slotSize : Nat) (ih : List (Nat × Header)) : NP (cancelFrom slotSize ih) := by
  induction ih with
  | nil => exact np_pure _
  | cons p rest ih => obtain ⟨i, h⟩ := p; unfold cancelFrom; np_auto [np_markExtAborted, ih]

theorem np_cancelAll (nslots slotSize : Nat) : NP (cancelAll nslots slotSize) := by
  unfold cancelAll; np_auto [np_cancelFrom, np_loadHeaders]

theorem np_blBootStatus (nslots slotSize : Nat) : NP (blBootStatus nslots slotSize) := by
  unfold blBootStatus; np_auto [np_loadHeaders]

theorem np_fallbackFirmware (nslots slotSize : Nat) : NP (fallbackFirmware nslots slotSize) := by
  unfold fallbackFirmware; np_auto [np_loadHeaders]

/-! ## matrix / parity stores -/

theorem np_mSetRow (u : Upd) (m row : Nat) (h1 : m < u.maxL) (h2 : m < 2048) : NP (mSetRow u m row) := by
  unfold mSetRow
  split
  · contradiction
  dsimp only
  split
  · omega
  np_auto [np_writeRaw]

theorem np_mRow (u : Upd) (m : Nat) (h1 : m < u.maxL) (h2 : m < 2048) : NP (mRow u m) := by
  unfold mRow
  split
  · contradiction
  dsimp only
  split
  · omega
  np_auto [np_readRaw]

theorem np_pStore (u : Upd) (m : Nat) (d : List Nat) (h1 : m < u.maxL) : NP (pStore u m d) := by
  unfold pStore
  split
  · contradiction
  np_auto [np_writeRaw]

theorem np_pGet (u : Upd) (m len : Nat) (h1 : m < u.maxL) : NP (pGet u m len) := by
  unfold pGet
  split
  · contradiction
  np_auto [np_readRaw]

/-! ## the loops of the reconstructor -/

theorem np_strip (u : Upd) (row : Nat) (is : List Nat) (d : List Nat) : NP (strip u row is d) := by
  induction is generalizing d with
  | nil => exact np_pure _
  | cons i is ih => unfold strip; np_auto [np_readSegment, ih]

theorem np_elim (u : Upd) (wh row : Nat) (data : List Nat) (h1 : wh ≤ u.maxL) (h2 : wh ≤ 2048) :
    NP (elim u wh row data) := by
  induction wh generalizing row data with
  | zero => exact np_pure _
  | succ wh ih =>
    have g1 := np_pGet u wh data.length (by omega)
    have g2 := np_mRow u wh (by omega) (by omega)
    have g3 := np_pStore u wh data (by omega)
    have g4 := np_mSetRow u wh row (by omega) (by omega)
    have ih' := fun row data => ih row data (by omega) (by omega)
    clear ih
    unfold elim; np_auto [ih', g1, g2, g3, g4]

theorem np_finishInner (u : Upd) (U : List Nat) (r : Nat) (js : List Nat) (out : List Nat)
    (hj : ∀ j ∈ js, j < U.length) : NP (finishInner u U r js out) := by
  induction js generalizing out with
  | nil => exact np_pure _
  | cons j js ih =>
    have hjl : j < U.length := hj j (by simp)
    have ih' := fun out => ih out (fun j' hj' => hj j' (by simp [hj']))
    clear ih
    unfold finishInner
    split
    · rw [List.getElem?_eq_getElem hjl]
      dsimp only
      np_auto [np_readSegment, ih']
    · exact ih' _

theorem finishOuter_spec (U : List Nat) (is : List Nat) (u : Upd)
    (hi : ∀ i ∈ is, i < u.maxL ∧ i < 2048 ∧ i < U.length) {Q : Upd → Dev → Prop} {d : Dev}
    (h : ∀ fw d', Q { u with fw := fw } d') : wp (finishOuter U is u) Q d := by
  induction is generalizing u d with
  | nil => simp only [finishOuter, wp_pure]; exact h u.fw d
  | cons i is ih =>
    obtain ⟨h1, h2, h3⟩ := hi i (by simp)
    simp only [finishOuter, wp_bind]
    apply (np_pGet u i u.bs h1).wp; intro out d1
    apply (np_mRow u i h1 h2).wp; intro r d2
    apply (np_finishInner u U r (List.range i) out (by intro j hj; simp only [List.mem_range] at hj; omega)).wp
    intro out' d3
    rw [List.getElem?_eq_getElem h3]
    simp only [wp_bind]
    apply (np_writeSegment _ _ _).wp; intro fw d4
    apply ih { u with fw := fw } (fun i' hi' => hi i' (by simp [hi']))
    intro fw' d'; exact h fw' d'

/-! ## bit counting -/

theorem popcount_le (m k : Nat) : popcount m k ≤ k := by
  induction k with
  | zero => simp [popcount]
  | succ k ih => simp only [popcount]; split <;> omega

theorem popcount_mono (m k j : Nat) : popcount m k ≤ popcount m (k + j) := by
  induction j with
  | zero => simp
  | succ j ih => rw [← Nat.add_assoc]; simp only [popcount]; omega

/-- a mask below `2^n` has at most `n` bits set, wherever the count stops -/
theorem popcount_le_of_lt {m n : Nat} (h : m < 2 ^ n) (k : Nat) : popcount m k ≤ n := by
  suffices popcount m k ≤ min k n by omega
  induction k with
  | zero => simp [popcount]
  | succ k ih =>
    simp only [popcount]
    by_cases hk : k < n
    · split <;> omega
    · have : m.testBit k = false :=
        Nat.testBit_lt_two_pow (Nat.lt_of_lt_of_le h (Nat.pow_le_pow_right (by omega) (by omega)))
      simp only [this]; simp only [Bool.false_eq_true, if_false]; omega

theorem popcount_eq_of_lt {m n : Nat} (h : m < 2 ^ n) (j : Nat) : popcount m (n + j) = popcount m n := by
  induction j with
  | zero => rfl
  | succ j ih =>
    rw [← Nat.add_assoc]; simp only [popcount, ih]
    have : m.testBit (n + j) = false :=
      Nat.testBit_lt_two_pow (Nat.lt_of_lt_of_le h (Nat.pow_le_pow_right (by omega) (by omega)))
    simp [this]

/-- the zero bits below `n` (`unknowns`) and the one bits below `n` (`popcount`) partition `0..n` -/
theorem unknowns_length_add (done n : Nat) : (Recon.unknowns done n).length + popcount done n = n := by
  induction n with
  | zero => simp [Recon.unknowns, popcount]
  | succ n ih =>
    simp only [Recon.unknowns, List.range_succ, List.filter_append, List.length_append, popcount] at ih ⊢
    cases hb : done.testBit n <;> simp [hb] <;> omega

/-- the `l` that `try_recover_inner` computes (`n − count_ones(done)`, counted over all 16384 positions) is the
    number of unknowns (zero bits below `n`), because `load_status_array` fills exactly `n` entries -/
theorem recovered_l_eq {done n : Nat} (hd : done < 2 ^ n) (hn : n ≤ MAX_SEGMENTS) :
    n - popcount done MAX_SEGMENTS = (Recon.unknowns done n).length := by
  have e : popcount done MAX_SEGMENTS = popcount done n := by
    have := popcount_eq_of_lt hd (MAX_SEGMENTS - n)
    rwa [show n + (MAX_SEGMENTS - n) = MAX_SEGMENTS by omega] at this
  have := unknowns_length_add done n
  omega

/-! ## the well-formedness predicate of an updater (property C17) -/

/-- What `handle_segment` needs of the in-memory updater in order not to panic; nothing is required while the
    session is in stage 1 (`l = 0`). In stage 2 the number of pivots `l` must be addressable in the parity slot
    (`l ≤ maxL`: the `assert!(m < self.max_l)` of the stores), in the 256-byte matrix rows (`l ≤ 2048`:
    `assert!(data_size <= N)`), and must not exceed the number of unknown blocks (`finish` indexes the list of
    unknowns with every pivot). -/
def UpdWF (u : Upd) : Prop :=
  u.l ≤ u.maxL ∧ u.l ≤ VBITS ∧ u.l ≤ (Recon.unknowns u.done u.n).length

instance (u : Upd) : Decidable (UpdWF u) := by unfold UpdWF; infer_instance

/-- the block count is one the row generator accepts -/
def UpdSized (u : Upd) : Prop := 1 ≤ u.n ∧ u.n ≤ MAX_SEGMENTS

instance (u : Upd) : Decidable (UpdSized u) := by unfold UpdSized; infer_instance

/-- **Hypothesis of the no-panic theorem: the coded rows of a session with `n` blocks are defined**, i.e.
    `get_parity_matrix_row(cap_n, n)` returns (its draw loops terminate, its two `assert!`s hold) for every
    non-zero `u32` `cap_n`. This is property C10's subject: `Fuota.C10.terminates` proves it without
    `force-full-r` for `1 ≤ n ≤ 16384`; with `force-full-r` it is false for `n = 4`, `cap_n = 1240005543`
    (`Fuota.C10.fullr_diverges_seed_zero`). -/
def RowsDefined (ffr : Bool) (n : Nat) : Prop :=
  ∀ capN, 0 < capN → capN < 2 ^ 32 → (Lfdbt.getParityMatrixRow ffr capN (n % 2 ^ 32)).isSome

end Fuota.NoPanic
