import Fuota.Lemmas.RingStart
import Fuota.Lemmas.RingRecover
/-!
# Ring lemmas, part 9: the header arrangement after each transition of the machine
-/
namespace Fuota.Ring
open Fuota.Layout Fuota.Fs Fuota.Updater Fuota.Slots

theorem ghostEff_hs (s : State) (e : Eff) : (ghostEff s e).hs = s.hs := by
  unfold ghostEff
  split
  · rfl
  · split <;> rfl

theorem foldl_ghostEff_hs (es : List Eff) (s : State) : (es.foldl ghostEff s).hs = s.hs := by
  induction es generalizing s with
  | nil => rfl
  | cons e es ih => simp only [List.foldl_cons]; rw [ih, ghostEff_hs]

/-- the runs of cancel / recovery: every one ends in the arrangement after a prefix of the effect list -/
theorem prefixRuns_hs (c : Cfg) (s : State) (es : List Eff) :
    ∀ r ∈ prefixRuns c s es, ∃ k, r.2.2.1.hs = applyAll s.hs (es.take k) := by
  intro r hr
  unfold prefixRuns at hr
  simp only [List.mem_map] at hr
  obtain ⟨k, _, rfl⟩ := hr
  exact ⟨k, by simp only [foldl_ghostEff_hs]⟩

/-- effect lists of cancel: pairwise different slots, each re-marking a used slot -/
theorem cancelEffs_src (hs : Hdrs) :
    (cancelEffs hs).Pairwise (fun a b => a.1 ≠ b.1) ∧
    ∀ e ∈ cancelEffs hs, ∀ h', e.2 = some h' → ∃ h, Used hs e.1 h ∧ h.seq = h'.seq := by
  unfold cancelEffs
  rw [cancelEffsOf_eq]
  refine ⟨effsOf_nodup _ (indexed_sorted hs), ?_⟩
  intro e he h' he2
  obtain ⟨h, hm, hφ⟩ := mem_effsOf.mp he
  refine ⟨h, mem_indexed.mp hm, ?_⟩
  unfold cancelPhi at hφ
  split at hφ
  · simp only [Option.some.injEq] at hφ
    rw [← hφ] at he2
    simp only [Option.some.injEq] at he2
    rw [← he2]
  · cases hφ

theorem indexed_unique {hs : Hdrs} {i : Nat} {h h' : Header} (h1 : (i, h) ∈ indexed hs) (h2 : (i, h') ∈ indexed hs) :
    h = h' := by
  have a : hs[i]? = some (some h) := mem_indexed.mp h1
  have b : hs[i]? = some (some h') := mem_indexed.mp h2
  rw [a] at b
  simpa using b

theorem remediateEffs_src (a b : Nat) (hs : Hdrs) :
    (remediateEffs a b (indexed hs)).Pairwise (fun x y => x.1 ≠ y.1) ∧
    ∀ e ∈ remediateEffs a b (indexed hs), ∀ h', e.2 = some h' → ∃ h, Used hs e.1 h ∧ h.seq = h'.seq := by
  unfold remediateEffs
  rw [remediateAbortEffs_eq, remediateEraseEffs_eq]
  constructor
  · rw [List.pairwise_append]
    refine ⟨effsOf_nodup _ (indexed_sorted hs), effsOf_nodup _ (indexed_sorted hs), ?_⟩
    intro x hx y hy hxy
    obtain ⟨h1, hm1, hφ1⟩ := mem_effsOf.mp hx
    obtain ⟨h2, hm2, hφ2⟩ := mem_effsOf.mp hy
    rw [hxy] at hm1 hφ1
    have := indexed_unique hm1 hm2
    subst this
    unfold abortPhi at hφ1
    unfold erasePhi at hφ2
    split at hφ1
    · cases hφ1
    · split at hφ1
      · rename_i hst
        simp only at hst
        simp [hst] at hφ2
      · cases hφ1
  · intro e he h' he2
    rcases List.mem_append.mp he with he | he
    · obtain ⟨h, hm, hφ⟩ := mem_effsOf.mp he
      refine ⟨h, mem_indexed.mp hm, ?_⟩
      unfold abortPhi at hφ
      split at hφ
      · cases hφ
      · split at hφ
        · simp only [Option.some.injEq] at hφ
          rw [← hφ] at he2
          simp only [Option.some.injEq] at he2
          rw [← he2]
        · cases hφ
    · obtain ⟨h, hm, hφ⟩ := mem_effsOf.mp he
      unfold erasePhi at hφ
      split at hφ
      · cases hφ
      · split at hφ
        · simp only [Option.some.injEq] at hφ
          rw [← hφ] at he2
          cases he2
        · cases hφ

theorem remediateEffsPinned_src (a b : Nat) (hs : Hdrs) :
    (remediateEffsPinned a b (indexed hs)).Pairwise (fun x y => x.1 ≠ y.1) ∧
    ∀ e ∈ remediateEffsPinned a b (indexed hs), ∀ h', e.2 = some h' → ∃ h, Used hs e.1 h ∧ h.seq = h'.seq := by
  rw [remediateEffsPinned_eq]
  refine ⟨effsOf_nodup _ (indexed_sorted hs), ?_⟩
  intro e he h' he2
  obtain ⟨h, hm, hφ⟩ := mem_effsOf.mp he
  refine ⟨h, mem_indexed.mp hm, ?_⟩
  unfold pinnedPhi abortPhi erasePhi at hφ
  split at hφ
  · simp at hφ
  · split at hφ
    · simp only [Option.some_or, Option.some.injEq] at hφ
      rw [← hφ] at he2
      simp only [Option.some.injEq] at he2
      rw [← he2]
    · split at hφ
      · simp only [Option.none_or, Option.some.injEq] at hφ
        rw [← hφ] at he2
        cases he2
      · simp at hφ

/-- every crash prefix of such an effect list only erases or re-marks -/
theorem take_sub {hs : Hdrs} {es : List Eff}
    (h : es.Pairwise (fun a b => a.1 ≠ b.1) ∧
      ∀ e ∈ es, ∀ h', e.2 = some h' → ∃ h, Used hs e.1 h ∧ h.seq = h'.seq) (k : Nat) :
    Sub (applyAll hs (es.take k)) hs :=
  applyAll_sub hs _ (take_pairwise k h.1) (fun e he => h.2 e (List.mem_of_mem_take he))

theorem recoverEffs_src (c : Cfg) (hs : Hdrs) :
    (c.recoverEffs hs).2.Pairwise (fun x y => x.1 ≠ y.1) ∧
    ∀ e ∈ (c.recoverEffs hs).2, ∀ h', e.2 = some h' → ∃ h, Used hs e.1 h ∧ h.seq = h'.seq := by
  unfold Cfg.recoverEffs
  split
  · unfold recoverEffsPinned
    split
    · exact remediateEffsPinned_src _ _ hs
    · exact cancelEffs_src hs
  · unfold Slots.recoverEffs
    split
    · exact remediateEffs_src _ _ hs
    · exact cancelEffs_src hs

/-! ## the transitions, part by part -/

theorem cancelSuccs_hs (c : Cfg) (s : State) :
    ∀ t ∈ cancelSuccs c s, ∃ k, t.2.hs = applyAll s.hs ((cancelEffs s.hs).take k) := by
  intro t ht
  unfold cancelSuccs at ht
  simp only [List.mem_map] at ht
  obtain ⟨r, hr, rfl⟩ := ht
  obtain ⟨k, hk⟩ := prefixRuns_hs c s _ r hr
  refine ⟨k, ?_⟩
  rw [← hk]
  obtain ⟨k', full, s', done⟩ := r
  simp only
  split <;> rfl

theorem recoverSuccs_hs (c : Cfg) (s : State) :
    ∀ t ∈ recoverSuccs c s, ∃ k, t.2.hs = applyAll s.hs ((c.recoverEffs s.hs).2.take k) := by
  intro t ht
  unfold recoverSuccs at ht
  split at ht
  · rename_i es heq
    simp only [List.mem_map] at ht
    obtain ⟨r, hr, rfl⟩ := ht
    obtain ⟨k, hk⟩ := prefixRuns_hs c s _ r hr
    refine ⟨k, ?_⟩
    rw [heq, ← hk]
    obtain ⟨k', full, s', done⟩ := r
    simp only
    split <;> rfl
  · rename_i r0 es heq
    simp only [List.mem_map] at ht
    obtain ⟨r, hr, rfl⟩ := ht
    obtain ⟨k, hk⟩ := prefixRuns_hs c s _ r hr
    refine ⟨k, ?_⟩
    rw [heq, ← hk]
    obtain ⟨k', full, s', done⟩ := r
    simp only
    split <;> rfl

theorem completeSuccs_sub (s : State) : ∀ t ∈ completeSuccs s, t.2.hs.length = s.hs.length ∧ Sub t.2.hs s.hs := by
  intro t ht
  unfold completeSuccs at ht
  split at ht
  · cases ht
  · rename_i f p _
    split at ht
    · cases ht
    · split at ht
      · cases ht
      · rename_i es hes
        unfold completeEffs at hes
        split at hes
        · rename_i h hp hf hpp
          simp only [Option.some.injEq] at hes
          subst hes
          have huf := getD_eq_some.mp hf
          have hup := getD_eq_some.mp hpp
          have s1 : Sub (s.hs.set f (some { h with ext := .complete })) s.hs :=
            set_sub (by intro h' e; simp only [Option.some.injEq] at e; subst e; exact ⟨h, huf, rfl⟩)
          have s2 : Sub ((s.hs.set f (some { h with ext := .complete })).set p (some { hp with ext := .complete })) s.hs := by
            refine Sub.trans (set_sub ?_) s1
            intro h' e
            simp only [Option.some.injEq] at e
            subst e
            by_cases hpf : p = f
            · subst hpf
              have : h = hp := by
                have a : s.hs[p]? = some (some h) := huf
                rw [show s.hs[p]? = some (some hp) from hup] at a
                simpa using a.symm
              subst this
              exact ⟨_, used_set.mpr (Or.inl ⟨rfl, used_lt huf, rfl⟩), rfl⟩
            · exact ⟨hp, used_set.mpr (Or.inr ⟨hpf, hup⟩), rfl⟩
          simp only [List.mem_cons, List.not_mem_nil, or_false] at ht
          rcases ht with rfl | rfl
          · exact ⟨by simp [applyAll, apply1], s1⟩
          · exact ⟨by simp [applyAll, apply1], s2⟩
        · cases hes

theorem blEff_sub {hs : Hdrs} {e : Eff}
    (h : copyDoneEff hs = some e ∨ confirmEff hs = some e ∨ rejectEff hs = some e) :
    Sub (apply1 hs e) hs := by
  unfold apply1
  apply set_sub
  intro h' he
  rcases h with h | h | h
  · unfold copyDoneEff at h
    split at h
    · rw [Option.map_eq_some_iff] at h
      obtain ⟨h0, hg, rfl⟩ := h
      simp only [Option.some.injEq] at he
      subst he
      exact ⟨h0, getD_eq_some.mp hg, rfl⟩
    · cases h
  · unfold confirmEff at h
    split at h
    · rw [Option.map_eq_some_iff] at h
      obtain ⟨h0, hg, rfl⟩ := h
      simp only [Option.some.injEq] at he
      subst he
      exact ⟨h0, getD_eq_some.mp hg, rfl⟩
    · cases h
  · unfold rejectEff at h
    split at h
    · rw [Option.map_eq_some_iff] at h
      obtain ⟨h0, hg, rfl⟩ := h
      simp only [Option.some.injEq] at he
      subst he
      exact ⟨h0, getD_eq_some.mp hg, rfl⟩
    · cases h

theorem blSuccs_sub (s : State) : ∀ t ∈ blSuccs s, t.2.hs.length = s.hs.length ∧ Sub t.2.hs s.hs := by
  intro t ht
  unfold blSuccs at ht
  simp only [List.mem_append] at ht
  rcases ht with (ht | ht) | ht
  · split at ht
    · rename_i e he
      simp only [List.mem_cons, List.not_mem_nil, or_false] at ht
      subst ht
      exact ⟨by simp [apply1], blEff_sub (Or.inl he)⟩
    · cases ht
  · split at ht
    · rename_i e he
      simp only [List.mem_cons, List.not_mem_nil, or_false] at ht
      subst ht
      exact ⟨by simp [apply1], blEff_sub (Or.inr (Or.inl he))⟩
    · cases ht
  · split at ht
    · rename_i e he
      simp only [List.mem_cons, List.not_mem_nil, or_false] at ht
      subst ht
      exact ⟨by simp [apply1], blEff_sub (Or.inr (Or.inr he))⟩
    · cases ht

theorem rebootSuccs_hs (s : State) : ∀ t ∈ rebootSuccs s, t.2.hs = s.hs := by
  intro t ht
  unfold rebootSuccs at ht
  split at ht
  · simp only [List.mem_cons, List.not_mem_nil, or_false] at ht
    subst ht; rfl
  · cases ht

theorem startSuccs_hs (c : Cfg) (s : State) : ∀ t ∈ startSuccs c s,
    ∃ a b sa sb k, choosePair c.n s.hs = .ok (a, b, sa, sb) ∧
      t.2.hs = applyAll s.hs ([(b, none), (a, none), (a, some (fwHeader c.geom sa)), (b, some (parHeader c.geom sb))].take k) := by
  intro t ht
  unfold startSuccs startEffs at ht
  cases hc : choosePair c.n s.hs with
  | error e => rw [hc] at ht; cases ht
  | ok r =>
    obtain ⟨a, b, sa, sb⟩ := r
    rw [hc] at ht
    simp only [List.mem_map, List.mem_range] at ht
    obtain ⟨k, _, rfl⟩ := ht
    refine ⟨a, b, sa, sb, k + 1, rfl, ?_⟩
    split <;> rfl

end Fuota.Ring
