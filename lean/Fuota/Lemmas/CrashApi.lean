import Fuota.Lemmas.CrashOps
/-!
# The API calls keep the crash invariant: cancellation, the final mark, session start, recovery
-/
namespace Fuota.Crash
open Fuota.Nor Fuota.Fs Fuota.Layout Fuota.Ops Fuota.Updater Fuota.C14

variable {nslots s B : Nat}

/-! ## reading the ring -/

/-- the header of slot `i` as `load_headers` sees it -/
def hdrAt (f : Flash) (s i : Nat) : Option Header := (parseHeader Codec.new (f.read (i * s) 28)).map (·.1)

theorem hdrAt_some {f : Flash} {s i : Nat} {h : Header} (e : hdrAt f s i = some h) :
    ∃ rest, parseHeader Codec.new (f.read (i * s) 28) = some (h, rest) := by
  unfold hdrAt at e
  rcases hp : parseHeader Codec.new (f.read (i * s) 28) with _ | ⟨h', rest⟩
  · rw [hp] at e; cases e
  · rw [hp] at e; cases e; exact ⟨rest, rfl⟩

theorem loadHeaderAt_keeps (P : Flash → Prop) (s i : Nat) :
    Keeps P (loadHeaderAt (i * s)) (fun h f => P f ∧ h = hdrAt f s i) P := by
  unfold loadHeaderAt
  refine Keeps.bind (Keeps.readTo _ _ (fun _ h => h)) (fun bs => Keeps.pure ?_)
  intro f hf
  obtain ⟨hP, rfl, _⟩ := hf
  exact ⟨hP, hP, rfl⟩

theorem loadHeadersFrom_keeps (s : Nat) : ∀ (is : List Nat) (P : Flash → Prop),
    Keeps P (loadHeadersFrom s is) (fun hs f => P f ∧ hs = is.map (hdrAt f s)) P := by
  intro is
  induction is with
  | nil => intro P; exact Keeps.pure (fun f hf => ⟨hf, hf, rfl⟩)
  | cons i is ih =>
    intro P
    unfold loadHeadersFrom
    refine Keeps.bind (loadHeaderAt_keeps P s i) (fun h => ?_)
    refine Keeps.bind ((ih (fun f => P f ∧ h = hdrAt f s i)).conseq (fun _ h => h) (fun _ _ h => h)
      (fun _ h => h.1)) (fun rest => Keeps.pure ?_)
    intro f hf
    obtain ⟨⟨hP, rfl⟩, rfl⟩ := hf
    exact ⟨hP, hP, rfl⟩

theorem loadHeaders_keeps (n s : Nat) (P : Flash → Prop) :
    Keeps P (loadHeaders n s) (fun hs f => P f ∧ hs = (List.range n).map (hdrAt f s)) P := by
  unfold loadHeaders
  exact loadHeadersFrom_keeps s _ P

/-- what `indexed_headers` lists: the slots `< n` whose header parses, with that header -/
theorem indexed_spec (n : Nat) (g : Nat → Option Header) (p : Nat × Header)
    (hp : p ∈ indexed ((List.range n).map g)) : p.1 < n ∧ g p.1 = some p.2 := by
  have hlt := indexed_lt _ p hp
  rw [List.length_map, List.length_range] at hlt
  refine ⟨hlt, ?_⟩
  unfold indexed at hp
  rw [List.mem_filterMap] at hp
  obtain ⟨⟨h, i⟩, hmem, hf⟩ := hp
  have hm := List.mem_zipIdx hmem
  cases h with
  | none => cases hf
  | some h =>
    have e : p = (i, h) := by
      dsimp only [Option.map] at hf
      cases hf; rfl
    subst e
    obtain ⟨_, h2, h3⟩ := hm
    simp only [Nat.sub_zero, List.getElem_map, List.getElem_range] at h3
    exact h3.symm

/-! ## cancellation -/

/-- the headers still to visit: those that read In-progress have the bits of `0xAA` in their status word -/
def Pending (s : Nat) (l : List (Nat × Header)) (f : Flash) : Prop :=
  ∀ p ∈ l, p.2.ext = Ext.inProgress → ExtSup f (p.1 * s)

theorem pending_program {s : Nat} {l : List (Nat × Header)} (f : Flash) (a : Nat) (bs : List Nat) (hbs : SupAA bs)
    (h : Pending s l f) : Pending s l (f.apply (.program a bs)) :=
  fun p hp he => extSup_program a bs (h p hp he) hbs

theorem pending_of_headers {f : Flash} (hwf : WF f) (n s : Nat) :
    Pending s (indexed ((List.range n).map (hdrAt f s))) f := by
  intro p hp he
  obtain ⟨_, hg⟩ := indexed_spec n _ p hp
  obtain ⟨rest, hparse⟩ := hdrAt_some hg
  obtain ⟨_, _, _, _, h4, _, _⟩ := parse_words f _ _ _ hparse
  rw [he] at h4
  exact (extFF_of_parse hwf _ h4).sup

theorem cancelFrom_keeps (hs : 17412 ≤ s) : ∀ (l : List (Nat × Header)),
    Keeps (fun f => CVW nslots s B f ∧ Pending s l f) (cancelFrom s l) (fun _ f => CVW nslots s B f)
      (CVW nslots s B) := by
  intro l
  induction l with
  | nil => exact Keeps.pure (fun f hf => ⟨hf.1, hf.1⟩)
  | cons p l ih =>
    obtain ⟨i, h⟩ := p
    unfold cancelFrom
    dsimp only
    have hrest : Keeps (fun f => CVW nslots s B f ∧ Pending s ((i, h) :: l) f) (cancelFrom s l)
        (fun _ f => CVW nslots s B f) (CVW nslots s B) :=
      ih.pre (fun f hf => ⟨hf.1, fun q hq => hf.2 q (List.mem_cons_of_mem _ hq)⟩)
    split
    · rename_i he
      refine Keeps.seq (Q' := fun _ f => CVW nslots s B f ∧ Pending s l f) ?_ (fun _ => ih)
      refine (abort_keeps (nslots := nslots) (B := B) hs (Pending s l) i
        (fun f bs hbs _ hp => pending_program f _ bs hbs hp)).conseq ?_ ?_ ?_
      · intro f hf
        exact ⟨hf.1, hf.2 (i, h) List.mem_cons_self he, fun q hq => hf.2 q (List.mem_cons_of_mem _ hq)⟩
      · intro _ f hf; exact ⟨hf.1, hf.2.2⟩
      · intro f hf; exact hf.1
    · exact hrest

/-- **`cancel_all_ext_pending`** keeps the invariant at every crash point: it only programs Aborted (whole or
    torn) over status words that read In-progress when the call started, and such a word can never become the
    Complete code -/
theorem cancelAll_keeps (hs : 17412 ≤ s) :
    Keeps (CVW nslots s B) (cancelAll nslots s) (fun _ f => CVW nslots s B f) (CVW nslots s B) := by
  unfold cancelAll
  refine Keeps.bind (loadHeaders_keeps nslots s _) (fun hs' => ?_)
  refine (cancelFrom_keeps hs (indexed hs')).pre ?_
  intro f hf
  obtain ⟨hJ, rfl⟩ := hf
  exact ⟨hJ, pending_of_headers hJ.wf nslots s⟩

/-! ## the final mark -/

/-- on a dead device `crc_valid` fails -/
theorem crcValid_dead {d : Dev} (hd : d.dead = true) (sl : Slot) (h : Header) :
    ∃ e, (Updater.crcValid sl h).run d = (.error e, d) := by
  unfold Updater.crcValid
  dsimp only
  simp only [throw_bind]
  split
  · exact ⟨_, rfl⟩
  · split
    · exact ⟨_, rfl⟩
    · rw [run_bind, readTo_run_dead hd]
      exact ⟨_, rfl⟩

/-- `crc_valid` changes nothing; when it succeeds, the validation model's `crcValid` says `ok` on the same flash -/
theorem crcValid_keeps (P : Flash → Prop) (hP : ∀ f, P f → WF f) (sl : Slot) (h : Header) :
    Keeps P (Updater.crcValid sl h) (fun _ f => P f ∧ (Firmware.crcValid f (sl.idx * sl.size) h []).1 = .ok) P := by
  intro d hd
  cases hdead : d.dead with
  | true =>
    obtain ⟨e, he⟩ := crcValid_dead hdead sl h
    rw [he]
    exact ⟨hd, fun a ha => by cases ha⟩
  | false =>
    rw [crcValid_bridge hdead (hP _ hd) sl h []]
    refine ⟨hd, fun a ha => ⟨hd, ?_⟩⟩
    exact (Res.toM_ok _).1 (by cases a; exact ha)

/-- for whatever the size and count words parse to, the image fits the slot -/
def FitW (f : Flash) (s base : Nat) : Prop :=
  ∀ sz n, parseSize Codec.new (word f (base + 8)) = some sz → parseNseg Codec.new (word f (base + 12)) = some n →
    sz * n ≤ s - 17408

/-- **the gate**: a parsed header for which `crc_valid` says `ok`, in a slot whose geometry words fit, has good
    content -/
theorem content_of_gate {f : Flash} {s i : Nat} (hd : Header) (rest : List Nat)
    (hp : parseHeader Codec.new (f.read (i * s) 28) = some (hd, rest))
    (hc : (Firmware.crcValid f (i * s) hd []).1 = .ok) (hfit : FitW f s (i * s)) : Content f s i := by
  obtain ⟨_, hsz, _, hn⟩ := parsed_bounds _ _ _ hp
  rw [crcValid_fst f _ hd [] hn hsz] at hc
  obtain ⟨_, _, h2, h3, _⟩ := parse_words f _ hd rest hp
  intro sz n e1 e2
  rw [h2] at e1; rw [h3] at e2
  cases e1; cases e2
  refine ⟨hfit _ _ h2 h3, ?_⟩
  by_cases hin : InRange f (i * s) hd.size hd.n
  · rw [if_pos hin] at hc
    by_cases hcrc : CrcOk f (i * s) hd.size hd.n
    · exact ⟨hin, hcrc⟩
    · rw [if_neg hcrc] at hc; cases hc
  · rw [if_neg hin] at hc; cases hc

/-- **`check_and_mark_done`** keeps the invariant at every crash point, for a session whose firmware slot has
    fitting geometry words and whose parity slot is not of kind firmware: the Complete code reaches the firmware
    slot (whole or torn) only after `crc_valid` said `ok` on the same flash. -/
theorem check_keeps (hs : 17412 ≤ s) (u : Upd) (hfs : u.fw.size = s) (hps : u.par.size = s) :
    Keeps (fun f => CVW nslots s B f ∧ FitW f s (u.fw.idx * s) ∧ word f (u.par.idx * s) ≠ 0)
      (checkAndMarkDone u) (fun _ f => CVW nslots s B f) (CVW nslots s B) := by
  unfold checkAndMarkDone
  dsimp only
  simp only [throw_bind]
  rw [hfs]
  apply Keeps.ite
  · intro _; exact Keeps.throw (fun f hf => hf.1)
  · intro _
    refine Keeps.bind ((loadHeaderAt_keeps _ s u.fw.idx).conseq (fun _ h => h) (fun _ _ h => h)
      (fun _ h => h.1)) (fun h => ?_)
    split
    · exact Keeps.throw (fun f hf => hf.1.1)
    · rename_i hd
      refine Keeps.bind ((crcValid_keeps _ (fun f hf => hf.1.1.wf) u.fw hd).conseq (fun _ h => h)
        (fun _ _ h => h) (fun _ h => h.1.1)) (fun _ => ?_)
      rw [hfs]
      -- the two marks
      refine Keeps.seq (Q' := fun _ f => CVW nslots s B f ∧ word f (u.par.idx * s) ≠ 0) ?_ (fun _ => ?_)
      · unfold Slot.markExtComplete Slot.writeWord
        rw [hfs]
        apply Keeps.writeFrom
        intro f hf
        obtain ⟨⟨⟨hJ, hfit, hk⟩, hhd⟩, hcrc⟩ := hf
        obtain ⟨rest, hparse⟩ := hdrAt_some hhd.symm
        have hcont := content_of_gate hd rest hparse hcrc hfit
        have key : ∀ bs : List Nat, bs.length ≤ 4 →
            CVW nslots s B (f.apply (.program (u.fw.idx * s + 16) bs)) ∧
              word (f.apply (.program (u.fw.idx * s + 16) bs)) (u.par.idx * s) ≠ 0 := by
          intro bs hl
          refine ⟨cvw_seal_program hJ hs _ bs hl hcont, ?_⟩
          rw [word_apply_untouched]
          · exact hk
          · intro j hj ht
            obtain ⟨h1, h2⟩ := ht
            by_cases hij : u.par.idx = u.fw.idx
            · rw [hij] at h1 h2; omega
            · have := slots_apart s hij; omega
        refine ⟨hJ, fun _ => ⟨?_, (key _ (Nat.le_of_eq rfl)).1, key _ (Nat.le_of_eq rfl)⟩⟩
        intro p keep
        obtain ⟨bs', e, hl⟩ := torn_word p keep (u.fw.idx * s + 16) (writeU32 (encExt C .complete)) rfl
        show CVW nslots s B (f.apply (tear p keep (.program (u.fw.idx * s + Consts.EXT_OFFSET) _)))
        rw [show u.fw.idx * s + Consts.EXT_OFFSET = u.fw.idx * s + 16 from rfl, e]
        exact (key _ hl).1
      · refine Keeps.seq (Q' := fun _ f => CVW nslots s B f) ?_ (fun _ => Keeps.pure (fun f hf => ⟨hf, hf⟩))
        unfold Slot.markExtComplete Slot.writeWord
        rw [hps]
        apply Keeps.writeFrom
        intro f hf
        obtain ⟨hJ, hk⟩ := hf
        have key : ∀ bs : List Nat, bs.length ≤ 4 →
            CVW nslots s B (f.apply (.program (u.par.idx * s + 16) bs)) := by
          intro bs hl
          apply cvw_of_kind_after hJ hs u.par.idx (.program (u.par.idx * s + 16) bs) ⟨by omega, by omega⟩
          rw [word_apply_untouched]
          · exact hk
          · intro j hj ht
            obtain ⟨h1, h2⟩ := ht
            omega
        refine ⟨hJ, fun _ => ⟨?_, key _ (Nat.le_of_eq rfl), key _ (Nat.le_of_eq rfl)⟩⟩
        intro p keep
        obtain ⟨bs', e, hl⟩ := torn_word p keep (u.par.idx * s + 16) (writeU32 (encExt C .complete)) rfl
        show CVW nslots s B (f.apply (tear p keep (.program (u.par.idx * s + Consts.EXT_OFFSET) _)))
        rw [show u.par.idx * s + Consts.EXT_OFFSET = u.par.idx * s + 16 from rfl, e]
        exact key _ hl

end Fuota.Crash
