import Fuota.Lemmas.RingFlashRunStart
/-!
# Ring ↔ flash, part 11: what a session returned by `try_recover` is; devices with or without an armed power loss
-/
namespace Fuota.RingRun
open Fuota.Nor Fuota.Fs Fuota.Layout Fuota.Updater Fuota.Ops Fuota.RingFlash Fuota.Slots Fuota.NoPanic



/-- the session `try_recover_inner` builds names the decided pair and carries the firmware header's geometry -/
theorem recTail_shape (S : Nat) (nw sn : Nat × Header) (e e' : Dev) (u : Upd)
    (h : (recTail S nw sn).run e = (.ok (some u), e')) :
    u.fw = { idx := sn.1, size := S } ∧ u.par = { idx := nw.1, size := S } ∧ u.n = sn.2.n ∧ u.bs = sn.2.size := by
  unfold recTail at h
  dsimp only at h
  rw [Ops.run_bind] at h
  rcases h1 : (Slot.loadStatusArray { idx := sn.1, size := S } MAX_SEGMENT_SIZE).run e with ⟨r1, e1⟩
  rw [h1] at h
  cases r1 with
  | error _ => cases h
  | ok done =>
    dsimp only at h
    rw [Ops.run_bind] at h
    rcases h2 : (loadUsed { idx := nw.1, size := S } (nw.2.n * sn.2.size) (List.range nw.2.n) 0).run e1 with ⟨r2, e2⟩
    rw [h2] at h
    cases r2 with
    | error _ => cases h
    | ok used =>
      dsimp only at h
      by_cases hp : used ≠ 0 ∧ sn.2.n < popcount done MAX_SEGMENTS
      · rw [if_pos hp, Ops.run_bind] at h
        cases h
      · rw [if_neg hp] at h
        by_cases hl : (if used ≠ 0 then sn.2.n - popcount done MAX_SEGMENTS else 0) > nw.2.n
        · rw [if_pos hl] at h
          cases h
        · rw [if_neg hl] at h
          injection h with h3 _
          injection h3 with h3
          injection h3 with h3
          subst h3
          exact ⟨rfl, rfl, rfl, rfl⟩



theorem run_then_pure_fst {α : Type} (x : M Unit) (b : α) (e : Dev) (u : α)
    (h : ((x >>= fun _ => (pure b : M α)).run e).1 = .ok u) : u = b := by
  rw [Ops.run_bind] at h
  rcases hx : x.run e with ⟨r, d⟩
  rw [hx] at h
  cases r with
  | error _ => cases h
  | ok _ =>
    have h' : (Except.ok b : Except MErr α) = .ok u := h
    injection h' with h'
    exact h'.symm

/-- `tryRecover_device`, with what a returned session is -/
theorem tryRecover_device2 (nslots S : Nat) (g : Geom) (hg : g.slotSize = S) (e : Dev) (he : Live e)
    (hB : 0 < e.flash.block) (hdiv : S % e.flash.block = 0) (hS : 28 ≤ S) (hdev : nslots * S ≤ e.flash.size) :
    ∃ extra, (extra = [] ∨ ((recoverDecision g (hdrsOf e.flash nslots S)).isSome ∧
        extra = cancelOps S (indexed (hdrsOf (e.flash.applyAll (recoverOps g S e.flash.block (hdrsOf e.flash nslots S)))
          nslots S)))) ∧
      ((tryRecover nslots S).run e).2 =
        (outcome e () (recoverOps g S e.flash.block (hdrsOf e.flash nslots S) ++ extra)).2 ∧
      ∀ u, ((tryRecover nslots S).run e).1 = .ok (some u) → extra = [] ∧
        ∃ nw sn, recoverDecision g (hdrsOf e.flash nslots S) = some (nw, sn) ∧
          u.fw = { idx := sn.1, size := S } ∧ u.par = { idx := nw.1, size := S } ∧ u.n = sn.2.n ∧ u.bs = sn.2.size := by
  unfold tryRecover
  rw [Ops.run_bind, tryRecoverInner_eq nslots S g hg, Ops.run_bind, loadHeaders_live nslots S he.alive hS hdev]
  dsimp only
  unfold recoverOps
  cases hd : recoverDecision g (NoPanic.hdrs e.flash nslots S) with
  | none =>
    refine ⟨[], Or.inl rfl, ?_, ?_⟩
    · have hd' : recoverDecision g (hdrsOf e.flash nslots S) = none := hd
      simp only [List.append_nil]
      show ((do (if (none : Option Upd).isNone then cancelAll nslots S else pure ()); pure none : M (Option Upd)).run e).2 = _
      simp only [Option.isNone_none, ↓reduceIte]
      rw [run_then_pure, cancelAll_device nslots S e he hS hdev]
    · intro u hu
      exfalso
      have : ((do (if (none : Option Upd).isNone then cancelAll nslots S else pure ()); pure none : M (Option Upd)).run e).1
          = .ok (some u) := hu
      simp only [Option.isNone_none, ↓reduceIte] at this
      have := run_then_pure_fst _ _ _ _ this
      cases this
  | some d =>
    obtain ⟨nw, sn⟩ := d
    have hd' : recoverDecision g (hdrsOf e.flash nslots S) = some (nw, sn) := hd
    simp only
    have hrem := remediate_device nslots S nw.1 sn.1 e he hB hdiv hS hdev
    rw [Ops.run_bind, hrem]
    generalize hops : abortOps S nw.1 sn.1 (indexed (hdrsOf e.flash nslots S)) ++
      clearsOps S e.flash.block (eraseSlots nw.1 sn.1 (indexed (hdrsOf e.flash nslots S))) = ops0
    cases hcut : cutAt e ops0.length with
    | some j =>
      refine ⟨[], Or.inl rfl, ?_, ?_⟩
      · rw [List.append_nil]
        unfold outcome
        rw [hcut]
      · intro u hu
        unfold outcome at hu
        rw [hcut] at hu
        cases hu
    | none =>
      have hl := live_pushAll he ops0 hcut
      have hout : outcome e () ops0 = (.ok (), pushAll e ops0) := by unfold outcome; rw [hcut]
      rw [hout]
      dsimp only
      obtain ⟨r, hr⟩ := ro_run (ro_recTail S nw sn) (pushAll e ops0)
      rw [hr]
      cases r with
      | error err =>
        refine ⟨[], Or.inl rfl, ?_, ?_⟩
        · rw [List.append_nil, hout]
        · intro u hu; cases hu
      | ok o =>
        cases o with
        | some u =>
          refine ⟨[], Or.inl rfl, ?_, ?_⟩
          · rw [List.append_nil, hout]
            rfl
          · intro u' hu'
            have : u' = u := by
              have h0 : ((pure (some u) : M (Option Upd)).run (pushAll e ops0)).1 = .ok (some u') := hu'
              injection h0 with h0
              injection h0 with h0
              exact h0.symm
            subst this
            exact ⟨rfl, nw, sn, rfl, recTail_shape S nw sn _ _ _ hr⟩
        | none =>
          refine ⟨_, Or.inr ⟨rfl, rfl⟩, ?_, ?_⟩
          · simp only [Option.isNone_none, ↓reduceIte]
            rw [run_then_pure, cancelAll_device nslots S _ hl hS (by rw [pushAll_size]; exact hdev),
              outcome_append he () () ops0 _ hcut, pushAll_flash]
          · intro u hu
            exfalso
            simp only [Option.isNone_none, ↓reduceIte] at hu
            have := run_then_pure_fst _ _ _ _ hu
            cases this


/-! ## a device with or without a power loss armed -/

/-- `none`: the call runs to its end; `some k`: power is lost before its `k`-th mutating operation -/
def arm (d : Dev) : Option Nat → Dev
  | none => d
  | some k => d.withCrash k

theorem live_arm {d : Dev} (h : Good d) (k : Option Nat) : Live (arm d k) := by
  cases k with
  | none => exact live_of_good h
  | some k => exact live_withCrash h k

theorem arm_flash (d : Dev) (k : Option Nat) : (arm d k).flash = d.flash := by cases k <;> rfl

theorem flash_outcome_arm {α : Type} {d : Dev} (h : Good d) (k : Option Nat) (a : α) (ops : List Op) :
    (outcome (arm d k) a ops).2.flash = d.flash.applyAll (ops.take (k.getD ops.length)) := by
  cases k with
  | none =>
    show (outcome d a ops).2.flash = _
    rw [flash_outcome_good h, Option.getD_none, List.take_length]
  | some k => exact flash_outcome_crash d k a ops

theorem take_min {α : Type} (k : Nat) (l : List α) : l.take k = l.take (min k l.length) := by
  by_cases h : k ≤ l.length
  · rw [Nat.min_eq_left h]
  · rw [Nat.min_eq_right (by omega), List.take_length, List.take_of_length_le (by omega)]

end Fuota.RingRun
