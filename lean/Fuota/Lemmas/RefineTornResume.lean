import Fuota.Lemmas.RefineTornCall
/-!
# After a torn program outside `finish`: recovery and redelivery, when no written mark and no diagonal byte changed
-/
namespace Fuota.Updater
open Fuota.Nor Fuota.Fs Fuota.FlashAdapters Fuota.Recon Fuota.Layout Fuota.Gf2

/-- the stage field recovery computes is the lost one outside the stage corner -/
theorem recovered_l_eq {u : Upd} {d : Dev} (L : Lawful u d) (hcorner : u.l = 0 ∨ u.used ≠ 0) :
    (recovered u u.fw.size u.done).l = u.l := by
  rw [recovered_l L]
  have hz : u.l = 0 → u.used = 0 := by
    intro h0
    apply Nat.eq_of_testBit_eq
    intro p
    cases hb : u.used.testBit p with
    | false => simp
    | true => have := (L.base.hech p hb).1; omega
  rcases hcorner with h0 | hu
  · rw [if_pos (hz h0), h0]
  · rw [if_neg hu]
    exact (L.base.hl2 (fun h0 => hu (hz h0))).symm

/-- a torn written-mark program that left the mark byte as it was did nothing -/
theorem torn_mark_noop (f : Flash) (a : Nat) (p keep : Nat)
    (h : (f.apply (tear p keep (.program a [0x33]))).byte a = f.byte a) :
    f.apply (tear p keep (.program a [0x33])) = f := by
  apply Flash.ext_byte (torn_size f a [0x33] p keep) rfl
  intro x
  by_cases hx : x = a
  · rw [hx]; exact h
  · exact torn_frame f a [0x33] p keep x (by simp only [List.length_singleton]; omega)

/-- **recovery and redelivery after a torn program outside `finish`, safe cases.** `(u, d)` satisfies the session
invariant with headers (session pair newest, others settled), outside the stage corner; `e` is the rebooted device,
in one of the states of `TornState`; and the tear changed **no written mark and no diagonal byte** of the matrix
(`hmarks`, `hdiags`). Then `try_recover_inner` on `e` only reads and returns the rebuilt updater, and delivering the
fragment again repairs the interruption. -/
theorem TornState.resume {ffr : Bool} (nslots : Nat) {u : Upd} {d : Dev} {sa sb : Nat} {index : Nat}
    {bytes : List Nat} {u1 : Upd} {e : Dev} (LH : LawfulH u d sa sb) (hin : nslots * u.fw.size ≤ d.flash.size)
    (hnew : C07b.NewestPair nslots u d sa sb) (hoth : C07b.OthersSettled nslots u d)
    (hcorner : u.l = 0 ∨ u.used ≠ 0) (T : TornState ffr u d index bytes u1 e) (hG : Good e)
    (hmarks : ∀ j, j < u.n → e.flash.byte (statAddr u j) = d.flash.byte (statAddr u j))
    (hdiags : ∀ m, m < u.maxL → e.flash.byte (diagAddr u m) = d.flash.byte (diagAddr u m))
    (hlen : bytes.length = u.bs) (hrow : (updaterRow ffr u.n index).isSome = true) :
    (tryRecoverInner nslots u.fw.size).run e = (.ok (some (recovered u u.fw.size u.done)), e) ∧
    Repaired ffr (index + 1) bytes u d (recovered u u.fw.size u.done) e := by
  have L := LH.law
  have g := L.base.geo
  obtain ⟨h1, h2, h3, h4, h5, h6, h7⟩ := g.slots
  have hl := recovered_l_eq L hcorner
  have hRr : SameRegions u (recovered u u.fw.size u.done) := ⟨rfl, rfl, rfl, g.hsz.symm, rfl, rfl, rfl, g.hmo.symm⟩
  -- a stage-1 store: `e` agrees with `d` outside the segment and the data program completes it
  have stage1 : ∀ (S : Stage1Store u d index bytes), e.flash.size = d.flash.size → WF e.flash →
      (∀ x, ¬ (segAddr u index ≤ x ∧ x < segAddr u index + u.bs) → e.flash.byte x = d.flash.byte x) →
      e.flash.apply (.program (segAddr u index) bytes) = d.flash.apply (.program (segAddr u index) bytes) →
      (tryRecoverInner nslots u.fw.size).run e = (.ok (some (recovered u u.fw.size u.done)), e) ∧
      Repaired ffr (index + 1) bytes u d (recovered u u.fw.size u.done) e := by
    intro S hsz hwf hfr hfin
    obtain ⟨r1, r2, r3, r4⟩ := g.regions.1 index S.hi
    have L' := lawful'_of_frame_fw L.base hG hwf hsz (fun x hx => hfr x (by omega))
    obtain ⟨hrec, hc⟩ := recover_run_fwdata nslots LH S.inc L' hsz (fun x hx => hfr x (by omega)) hin hnew hoth
    exact ⟨hrec, repair_store1_gen ffr S hrow hG hsz hfin hRr hl rfl rfl hc⟩
  cases T with
  | data p keep S hu he =>
    obtain ⟨r1, r2, r3, r4⟩ := g.regions.1 index S.hi
    refine stage1 S (by rw [he, torn_size]) (by rw [he]; exact torn_wf L.base.wf _ _ _ _) (fun x hx => ?_)
      (by rw [he, apply_torn_then_whole _ _ _ L.base.wf])
    rw [he, torn_frame _ _ _ _ _ _ (by rw [S.len]; omega)]
  | mark p keep S hu he =>
    obtain ⟨r1, r2, r3, r4⟩ := g.regions.1 index S.hi
    have hst : (d.flash.apply (.program (segAddr u index) bytes)).byte (statAddr u index) =
        d.flash.byte (statAddr u index) := byte_apply_program_of_not_mem _ _ _ _ (by omega)
    have he' : e.flash = d.flash.apply (.program (segAddr u index) bytes) := by
      rw [he]
      apply torn_mark_noop
      rw [← he, hmarks index S.hi, hst]
    refine stage1 S (by rw [he', size_apply_program]) (by rw [he']; exact WF_apply_program L.base.wf _ _)
      (fun x hx => ?_) (by rw [he', apply_program_idem])
    rw [he', byte_apply_program_of_not_mem _ _ _ _ (by rw [S.len]; omega)]
  | block r q row' data' p keep hinc hnt hl0 S hu he =>
    obtain ⟨f1, f2, f3, f4, f5, f6, f7, f8⟩ := adjU_fields u index
    obtain ⟨_, hqm, _, hdl, _⟩ := S.facts
    obtain ⟨q1, q2, q3, q4⟩ := S.law.geo.regions.2 q hqm
    have hpb : parBase (adjU u index) = parBase u := by simp only [parBase, f2]
    have hsz : e.flash.size = d.flash.size := by rw [he, torn_size]
    have hfr : ∀ x, ¬ (pAddr (adjU u index) q ≤ x ∧ x < pAddr (adjU u index) q + (adjU u index).bs) →
        e.flash.byte x = d.flash.byte x := by
      intro x hx
      rw [he, torn_frame _ _ _ _ _ _ (by rw [hdl]; omega)]
    rw [hpb, f4, f7] at q2
    rw [hpb] at q1
    obtain ⟨hrec, hc⟩ := recover_run_parbody nslots LH hinc hG hsz
      (fun x hx => hfr x (by rw [f4]; omega)) hdiags hin hnew hoth
    refine ⟨hrec, repair_store2_gen ffr hlen hinc hnt hl0 S hG hsz (fun x hx _ => hfr x hx) ?_ hRr (Or.inl hl) rfl
      rfl hc⟩
    rw [he, apply_torn_then_whole _ _ _ L.base.wf]
  | row r q row' data' p keep hinc hnt hl0 S hu he =>
    obtain ⟨f1, f2, f3, f4, f5, f6, f7, f8⟩ := adjU_fields u index
    obtain ⟨_, hqm, _, hdl, _⟩ := S.facts
    obtain ⟨q1, q2, q3, q4⟩ := S.law.geo.regions.2 q hqm
    have hrl := (rowBytes_spec q row').2
    have hpb : parBase (adjU u index) = parBase u := by simp only [parBase, f2]
    have hsz : e.flash.size = d.flash.size := by rw [he, torn_size, size_apply_program]
    have hfrR : ∀ x, ¬ (rAddr (adjU u index) q ≤ x ∧ x < rAddr (adjU u index) q + (q / 8 + 1)) →
        e.flash.byte x = (d.flash.apply (.program (pAddr (adjU u index) q) data')).byte x := by
      intro x hx
      rw [he, torn_frame _ _ _ _ _ _ (by rw [hrl]; omega)]
    have hfr : ∀ x, ¬ (pAddr (adjU u index) q ≤ x ∧ x < pAddr (adjU u index) q + (adjU u index).bs) →
        ¬ (rAddr (adjU u index) q ≤ x ∧ x < rAddr (adjU u index) q + (q / 8 + 1)) →
        e.flash.byte x = d.flash.byte x := by
      intro x hx1 hx2
      rw [hfrR x hx2, byte_apply_program_of_not_mem _ _ _ _ (by rw [hdl]; omega)]
    have habs : e.flash.apply (.program (pAddr (adjU u index) q) data') = e.flash :=
      apply_program_absorb e.flash d.flash _ _ (fun x hx1 hx2 => hfrR x (by rw [hdl] at hx2; omega)) hsz
    have hfin : (e.flash.apply (.program (pAddr (adjU u index) q) data')).apply
          (.program (rAddr (adjU u index) q) (rowBytes q row')) =
        (d.flash.apply (.program (pAddr (adjU u index) q) data')).apply
          (.program (rAddr (adjU u index) q) (rowBytes q row')) := by
      rw [habs, he, apply_torn_then_whole _ _ _ (WF_apply_program L.base.wf _ _)]
    have q2' := q2
    rw [hpb, f4, f7] at q2'
    have q4' := q4
    rw [hpb, f1] at q4'
    have q1' := q1
    rw [hpb] at q1'
    obtain ⟨hrec, hc⟩ := recover_run_parbody nslots LH hinc hG hsz
      (fun x hx => hfr x (by rw [f4]; omega) (by omega)) hdiags hin hnew hoth
    exact ⟨hrec, repair_store2_gen ffr hlen hinc hnt hl0 S hG hsz hfr hfin hRr (Or.inl hl) rfl rfl hc⟩

end Fuota.Updater
