import Fuota.Lemmas.RefineCrashRetry
/-!
# A `handle_segment` call with one transient fault or one power loss that fires outside `finish`
-/
namespace Fuota.Updater
open Fuota.Nor Fuota.Fs Fuota.FlashAdapters Fuota.Recon Fuota.Layout Fuota.Gf2

/-- **the states an interruption outside `finish` can leave behind.** `(u, d)` is the lawful state before the call,
`(u1, d1)` the in-memory updater and the device (fault consumed, or rebooted) after it:
* a stage-1 store was cut short: updater unchanged; device unchanged, or the data of the segment programmed and its
  written mark not;
* a stage-2 pivot store was cut short: the updater is the stage-adjusted one (`l` set when parity processing begins);
  device unchanged, or the block of the new pivot programmed and its matrix row not (an orphan block). -/
inductive Interrupted (ffr : Bool) (u : Upd) (d : Dev) (index : Nat) (bytes : List Nat) (u1 : Upd) (d1 : Dev) : Prop
  | store1 : Stage1Store u d index bytes → u1 = u → (d1 = d ∨ d1 = d.prog (segAddr u index) bytes) →
      Interrupted ffr u d index bytes u1 d1
  | store2 (r p row' : Nat) (data' : List Nat) : rcComplete u = false → ¬ tooManyCond u index →
      (adjU u index).l ≠ 0 → Stage2Store ffr (adjU u index) d index bytes r p row' data' → u1 = adjU u index →
      (d1 = d ∨ d1 = d.prog (pAddr (adjU u index) p) data') → Interrupted ffr u d index bytes u1 d1

/-- after an interruption the device is free of injection and the in-memory updater is incomplete and addresses the
    same regions with the same bit sets -/
theorem Interrupted.basic {ffr : Bool} {u : Upd} {d : Dev} {index : Nat} {bytes : List Nat} {u1 : Upd} {d1 : Dev}
    (I : Interrupted ffr u d index bytes u1 d1) (L : Lawful u d) :
    Good d1 ∧ SameRegions u u1 ∧ u1.done = u.done ∧ u1.used = u.used ∧ u1.fw = u.fw := by
  cases I with
  | store1 S hu hd =>
    subst hu
    refine ⟨?_, ⟨rfl, rfl, rfl, rfl, rfl, rfl, rfl, rfl⟩, rfl, rfl, rfl⟩
    rcases hd with rfl | rfl
    · exact L.base.good
    · exact L.base.good.prog _ _
  | store2 r p row' data' _ _ _ S hu hd =>
    subst hu
    obtain ⟨f1, f2, f3, f4, f5, f6, f7, f8⟩ := adjU_fields u index
    refine ⟨?_, ⟨by rw [f1], by rw [f1], by rw [f2], by rw [f2], f3, f4, f7, f8⟩, f5, f6, f1⟩
    rcases hd with rfl | rfl
    · exact L.base.good
    · exact L.base.good.prog _ _

/-- **an interruption outside `finish` is repaired by delivering the fragment again** — to the state it left behind
or to any state on a device without injection and with the same flash whose updater stands for the same session
(stage as before the call or as left behind; cache filled or fillable from the header) -/
theorem Interrupted.repaired {ffr : Bool} {u : Upd} {d : Dev} {index : Nat} {bytes : List Nat} {u1 : Upd} {d1 : Dev}
    (I : Interrupted ffr u d index bytes u1 d1) (hlen : bytes.length = u.bs)
    (hrow : (updaterRow ffr u.n index).isSome = true) {w : Upd} {e : Dev} (hG : Good e) (hfe : e.flash = d1.flash)
    (hR : SameRegions u w) (hlw : w.l = u.l ∨ w.l = u1.l) (hd : w.done = u.done) (hu : w.used = u.used)
    (hc : CacheOK w e) : Repaired ffr (index + 1) bytes u d w e := by
  cases I with
  | store1 S hu1 hd1 =>
    subst hu1
    refine repair_store1 ffr S hrow hG ?_ hR (hlw.elim id id) hd hu hc
    rcases hd1 with rfl | rfl
    · exact Or.inl hfe
    · exact Or.inr hfe
  | store2 r p row' data' hinc hnt hl0 S hu1 hd1 =>
    subst hu1
    refine repair_store2 ffr hlen hinc hnt hl0 S hG ?_ hR hlw hd hu hc
    rcases hd1 with rfl | rfl
    · exact Or.inl hfe
    · exact Or.inr hfe

/-! ## the relaxed invariant -/

/-- programming the block of an unused pivot changes nothing the abstraction sees -/
theorem progBlock_vals {E : Nat → Prop} {u : Upd} {d e : Dev} (L : Lawful' E u d) {p : Nat} (hp : p < u.maxL)
    (hup : u.used.testBit p = false) (blk : List Nat) (hlen : blk.length = u.bs)
    (hf : e.flash = d.flash.apply (.program (pAddr u p) blk)) :
    (∀ x, ¬ (pAddr u p ≤ x ∧ x < pAddr u p + u.bs) → e.flash.byte x = d.flash.byte x) ∧
    (∀ k, dsVal u e.flash k = dsVal u d.flash k) ∧ (∀ m, psVal u e.flash m = psVal u d.flash m) ∧
    (∀ m, msVal u e.flash m = msVal u d.flash m) := by
  have g := L.geo
  obtain ⟨h1, h2, h3, h4, h5, h6, h7⟩ := g.slots
  obtain ⟨q1, q2, q3, q4⟩ := g.regions.2 p hp
  have hfr : ∀ x, ¬ (pAddr u p ≤ x ∧ x < pAddr u p + u.bs) → e.flash.byte x = d.flash.byte x := by
    intro x hx
    rw [hf, byte_apply_program_of_not_mem _ _ _ _ (by omega)]
  refine ⟨hfr, fun k => ?_, fun m => ?_, fun m => ?_⟩
  · by_cases hkn : k < u.n
    · obtain ⟨r1, r2, r3, r4⟩ := g.regions.1 k hkn
      apply dsVal_congr
      · exact hfr _ (by omega)
      · intro x hx1 hx2
        exact hfr x (by omega)
    · simp [dsVal, hkn]
  · by_cases hm : m < u.maxL ∧ u.used.testBit m = true
    · obtain ⟨t1, t2, t3, t4⟩ := g.regions.2 m hm.1
      have hmp : m ≠ p := by intro h; rw [h, hup] at hm; cases hm.2
      have hdj := g.disjoint.2.1 m p hmp
      apply psVal_congr
      intro x hx1 hx2
      exact hfr x (by omega)
    · simp [psVal, hm]
  · by_cases hm : m < u.maxL
    · obtain ⟨t1, t2, t3, t4⟩ := g.regions.2 m hm
      apply msVal_congr
      intro x hx1 hx2
      exact hfr x (by omega)
    · simp [msVal, hm]

/-- **relaxed invariant (ii): an orphan parity block.** `e` is a device without injection whose flash is that of a
stage-2 state `(u, d)` with the block of a not yet used pivot `p < l` programmed (its matrix row still erased) -/
def OrphanBlock (u : Upd) (e : Dev) (p : Nat) (blk : List Nat) : Prop :=
  ∃ d, Lawful' (fun i => u.done.testBit i = false) u d ∧ u.l ≠ 0 ∧ p < u.l ∧ u.used.testBit p = false ∧
    blk.length = u.bs ∧ Good e ∧ e.flash = d.flash.apply (.program (pAddr u p) blk)

/-- what `OrphanBlock` says about the device itself: a stage-2 state, pivot `p` not in use, its matrix row still erased
(so neither the elimination loop nor the recovery scan sees the block), and the abstraction is the one of the device
without the block -/
theorem OrphanBlock.facts {u : Upd} {e : Dev} {p : Nat} {blk : List Nat} (h : OrphanBlock u e p blk) :
    u.l ≠ 0 ∧ p < u.l ∧ u.used.testBit p = false ∧ Good e ∧
    Erased e.flash (rAddr u p) (rAddr u p + (p / 8 + 1)) ∧
    ∃ d, Lawful' (fun i => u.done.testBit i = false) u d ∧ Fault.Eqv (abs (u, e)) (abs (u, d)) := by
  obtain ⟨d, L, hl0, hp, hup, hlen, hG, hf⟩ := h
  have hpm : p < u.maxL := Nat.lt_of_lt_of_le hp L.hl
  obtain ⟨hfr, w1, w2, w3⟩ := progBlock_vals L hpm hup blk hlen hf
  obtain ⟨q1, q2, q3, q4⟩ := L.geo.regions.2 p hpm
  refine ⟨hl0, hp, hup, hG, ?_, d, L, abs_eqv_of_vals w1 w2 w3⟩
  exact erased_congr (L.herP p hpm hup).2 (fun x hx1 hx2 => hfr x (by omega))

/-- **the relaxed session invariant** that holds between a failed `handle_segment` call (outside `finish`) and the
redelivery: the session invariant, or (i) one data segment programmed without its written mark, or (ii) one orphan
parity block programmed without its matrix row -/
def LawfulUpTo (u : Upd) (e : Dev) : Prop :=
  Lawful u e ∨ (∃ i buf, HalfStored u e i buf) ∨ (∃ p blk, OrphanBlock u e p blk)

/-- an interruption outside `finish` leaves the relaxed invariant -/
theorem Interrupted.lawfulUpTo {ffr : Bool} {u : Upd} {d : Dev} {index : Nat} {bytes : List Nat} {u1 : Upd}
    {d1 : Dev} (I : Interrupted ffr u d index bytes u1 d1) (L : Lawful u d) : LawfulUpTo u1 d1 := by
  cases I with
  | store1 S hu hd =>
    subst hu
    rcases hd with rfl | rfl
    · exact Or.inl L
    · exact Or.inr (Or.inl ⟨index, bytes, d, S, L.base.good.prog _ _, rfl⟩)
  | store2 r p row' data' hinc hnt hl0 S hu hd =>
    subst hu
    obtain ⟨L1, hinc1⟩ := adjU_stage2 L hinc index hnt hl0
    obtain ⟨hp, _, hup, hdl, _⟩ := S.facts
    rcases hd with rfl | rfl
    · exact Or.inl ⟨L1.mono (fun i hi => hi.2), fun h => by rw [hinc1] at h; cases h⟩
    · exact Or.inr (Or.inr ⟨p, data', d, L1, hl0, hp, hup, hdl, L.base.good.prog _ _, rfl⟩)

/-- **what the abstraction sees after an interruption outside `finish`**: the old contents, and the stage the
in-memory updater was left in (the model's failed call leaves the same: `l` is set before the first parity row is
reduced; a half-stored segment or an orphan block is in no store the abstraction reads) -/
theorem Interrupted.abs_eqv {ffr : Bool} {u : Upd} {d : Dev} {index : Nat} {bytes : List Nat} {u1 : Upd}
    {d1 : Dev} (I : Interrupted ffr u d index bytes u1 d1) (L : Lawful u d) :
    Fault.Eqv (abs (u1, d1)) { abs (u, d) with l := u1.l } := by
  cases I with
  | store1 S hu hd =>
    subst hu
    rcases hd with rfl | rfl
    · exact Fault.Eqv.refl _
    · exact HalfStored.abs_eqv S (L.base.good.prog _ _) rfl
  | store2 r p row' data' hinc hnt hl0 S hu hd =>
    subst hu
    obtain ⟨f1, f2, f3, f4, f5, f6, f7, f8⟩ := adjU_fields u index
    obtain ⟨_, hpm, hup, hdl, _⟩ := S.facts
    have hR : SameRegions u (adjU u index) := ⟨by rw [f1], by rw [f1], by rw [f2], by rw [f2], f3, f4, f7, f8⟩
    obtain ⟨v1, v2, v3⟩ := hR.vals f6 d.flash
    have hbase : Fault.Eqv (abs (adjU u index, d)) { abs (u, d) with l := (adjU u index).l } := by
      obtain ⟨_, _, _, _, _, a6, a7, a8⟩ := sim_abs (adjU u index) d
      obtain ⟨_, _, _, _, _, b6, b7, b8⟩ := sim_abs u d
      refine ⟨f3, f4, rfl, f5, f6, fun k => ?_, fun k => ?_, fun k => ?_⟩
      · rw [a6, v1]; exact (b6 k).symm
      · rw [a7, v2]; exact (b7 k).symm
      · rw [a8, v3]; exact (b8 k).symm
    rcases hd with rfl | rfl
    · exact hbase
    · obtain ⟨_, w1, w2, w3⟩ := progBlock_vals S.law hpm hup data' hdl (e := d.prog (pAddr (adjU u index) p) data') rfl
      exact Fault.Eqv.trans (abs_eqv_of_vals w1 w2 w3) hbase

/-- **one transient fault.** On a lawful state, a genuine fragment is delivered while the `k`-th mutating flash
operation from now fails once. If the call answers an error and leaves the in-memory updater incomplete (the fault
did not hit `finish`), the state left behind is one of `Interrupted`. -/
theorem fault_call (ffr : Bool) {u : Upd} {d : Dev} (L : Lawful u d) (index : Nat) (bytes : List Nat)
    (hb : IsBytes bytes) (hlen : bytes.length = u.bs) (hrow : (updaterRow ffr u.n index).isSome = true) (k : Nat)
    (herr : ∃ er, ((handleSegment ffr (index + 1) bytes).run (u, d.withFault k)).1 = .error er)
    (hinc : rcComplete ((handleSegment ffr (index + 1) bytes).run (u, d.withFault k)).2.1 = false) :
    Interrupted ffr u d index bytes ((handleSegment ffr (index + 1) bytes).run (u, d.withFault k)).2.1
      ((handleSegment ffr (index + 1) bytes).run (u, d.withFault k)).2.2 := by
  have hne : index + 1 ≠ 0 := by omega
  have hsub : index + 1 - 1 = index := Nat.add_sub_cancel _ _
  obtain ⟨er, herr⟩ := herr
  cases classify ffr L index bytes hb hlen hrow with
  | quiet h =>
    obtain ⟨res, u', h⟩ := h
    have hq := h (d.withFault k) L.base.good.alive rfl
    obtain ⟨o', s'', ho⟩ := handleSegment_of_ok ffr (index + 1) bytes hne (u, d.withFault k) _ res
      (by rw [hsub]; exact hq)
    rw [ho] at herr; cases herr
  | store1 S =>
    rcases Nat.lt_or_ge k 2 with hk | hk
    · rw [stage1_fault ffr S k hk]
      refine .store1 S rfl ?_
      by_cases h0 : k = 0
      · left; simp [h0]
      · right; simp [h0]
    · obtain ⟨k', rfl⟩ : ∃ k', k = k' + 2 := ⟨k - 2, by omega⟩
      obtain ⟨o, s, ho⟩ := (stage1_late ffr S k').1
      rw [ho] at herr; cases herr
  | store2 r p row' data' hincu hnt hl0 S =>
    have hlen1 : bytes.length = (adjU u index).bs := S.len
    rcases Nat.lt_or_ge k 2 with hk | hk
    · have hrun := handleSegment_of_error ffr (index + 1) bytes hne (u, d.withFault k) _ _ (by
        rw [hsub, handleBlock_stage2_eq ffr u _ index bytes hlen hincu hnt hl0]
        exact S.run_fault k hk)
      rw [hrun]
      refine .store2 r p row' data' hincu hnt hl0 S rfl ?_
      by_cases h0 : k = 0
      · left; simp [h0]
      · right; simp [h0]
    · obtain ⟨k', rfl⟩ : ∃ k', k = k' + 2 := ⟨k - 2, by omega⟩
      obtain ⟨d', hrun, _, _⟩ := S.run_fault_late k'
      have hblk : (handleBlock ffr (index + 1 - 1) bytes).run (u, d.withFault (k' + 2)) =
          (stage2Tail (adjU u index) ((adjU u index).used ||| 2 ^ p)).run (adjU u index, d') := by
        rw [hsub, handleBlock_stage2_eq ffr u _ index bytes hlen hincu hnt hl0]; exact hrun
      by_cases hc : rcComplete { adjU u index with used := (adjU u index).used ||| 2 ^ p } = true
      · rw [stage2Tail_complete hc] at hblk
        generalize (finishOuter (unknowns (adjU u index).done (adjU u index).n) (List.range (adjU u index).l)
          { adjU u index with used := (adjU u index).used ||| 2 ^ p }).run (adjU u index, d').2 = q at hblk
        obtain ⟨res, d''⟩ := q
        cases res with
        | ok u' =>
          obtain ⟨o', s'', ho⟩ := handleSegment_of_ok ffr (index + 1) bytes hne (u, d.withFault (k' + 2)) _ _ hblk
          rw [ho] at herr; cases herr
        | error e' =>
          have := handleSegment_of_error ffr (index + 1) bytes hne (u, d.withFault (k' + 2)) _ _ hblk
          rw [this] at hinc
          rw [show rcComplete { adjU u index with used := (adjU u index).used ||| 2 ^ p } = false from hinc] at hc
          cases hc
      · have hc' : rcComplete { adjU u index with used := (adjU u index).used ||| 2 ^ p } = false := by simpa using hc
        rw [stage2Tail_incomplete hc'] at hblk
        obtain ⟨o', s'', ho⟩ := handleSegment_of_ok ffr (index + 1) bytes hne (u, d.withFault (k' + 2)) _ _ hblk
        rw [ho] at herr; cases herr

/-- **one power loss.** On a lawful state, a genuine fragment is delivered while the power is lost at the `k`-th
mutating flash operation from now. If the call answers an error and leaves the in-memory updater incomplete (the
power was not lost inside `finish`), the device is dead, and the lost updater together with the rebooted device is
one of `Interrupted`. -/
theorem crash_call (ffr : Bool) {u : Upd} {d : Dev} (L : Lawful u d) (index : Nat) (bytes : List Nat)
    (hb : IsBytes bytes) (hlen : bytes.length = u.bs) (hrow : (updaterRow ffr u.n index).isSome = true) (k : Nat)
    (herr : ∃ er, ((handleSegment ffr (index + 1) bytes).run (u, d.withCrash k)).1 = .error er)
    (hinc : rcComplete ((handleSegment ffr (index + 1) bytes).run (u, d.withCrash k)).2.1 = false) :
    ((handleSegment ffr (index + 1) bytes).run (u, d.withCrash k)).2.2.dead = true ∧
    Interrupted ffr u d index bytes ((handleSegment ffr (index + 1) bytes).run (u, d.withCrash k)).2.1
      ((handleSegment ffr (index + 1) bytes).run (u, d.withCrash k)).2.2.reboot ∧
    (k = 0 → ((handleSegment ffr (index + 1) bytes).run (u, d.withCrash k)).2.2.reboot = d) := by
  have hne : index + 1 ≠ 0 := by omega
  have hsub : index + 1 - 1 = index := Nat.add_sub_cancel _ _
  obtain ⟨er, herr⟩ := herr
  cases classify ffr L index bytes hb hlen hrow with
  | quiet h =>
    obtain ⟨res, u', h⟩ := h
    have hq := h (d.withCrash k) L.base.good.alive rfl
    obtain ⟨o', s'', ho⟩ := handleSegment_of_ok ffr (index + 1) bytes hne (u, d.withCrash k) _ res
      (by rw [hsub]; exact hq)
    rw [ho] at herr; cases herr
  | store1 S =>
    rcases Nat.lt_or_ge k 2 with hk | hk
    · obtain ⟨e, h1, h2, h3⟩ := stage1_crash ffr S k hk
      rw [h1]
      refine ⟨h2, .store1 S rfl ?_, fun h0 => by show e.reboot = d; rw [h3, if_pos h0]⟩
      show e.reboot = d ∨ e.reboot = _
      rw [h3]
      by_cases h0 : k = 0
      · left; simp [h0]
      · right; simp [h0]
    · obtain ⟨k', rfl⟩ : ∃ k', k = k' + 2 := ⟨k - 2, by omega⟩
      obtain ⟨o, s, ho⟩ := (stage1_late ffr S k').2
      rw [ho] at herr; cases herr
  | store2 r p row' data' hincu hnt hl0 S =>
    rcases Nat.lt_or_ge k 2 with hk | hk
    · obtain ⟨e, h1, h2, h3⟩ := S.run_crash k hk
      have hrun := handleSegment_of_error ffr (index + 1) bytes hne (u, d.withCrash k) _ _ (by
        rw [hsub, handleBlock_stage2_eq ffr u _ index bytes hlen hincu hnt hl0]
        exact h1)
      rw [hrun]
      refine ⟨h2, .store2 r p row' data' hincu hnt hl0 S rfl ?_, fun h0 => by show e.reboot = d; rw [h3, if_pos h0]⟩
      show e.reboot = d ∨ e.reboot = _
      rw [h3]
      by_cases h0 : k = 0
      · left; simp [h0]
      · right; simp [h0]
    · obtain ⟨k', rfl⟩ : ∃ k', k = k' + 2 := ⟨k - 2, by omega⟩
      obtain ⟨d', hrun, _, _⟩ := S.run_crash_late k'
      have hblk : (handleBlock ffr (index + 1 - 1) bytes).run (u, d.withCrash (k' + 2)) =
          (stage2Tail (adjU u index) ((adjU u index).used ||| 2 ^ p)).run (adjU u index, d') := by
        rw [hsub, handleBlock_stage2_eq ffr u _ index bytes hlen hincu hnt hl0]; exact hrun
      by_cases hc : rcComplete { adjU u index with used := (adjU u index).used ||| 2 ^ p } = true
      · rw [stage2Tail_complete hc] at hblk
        generalize (finishOuter (unknowns (adjU u index).done (adjU u index).n) (List.range (adjU u index).l)
          { adjU u index with used := (adjU u index).used ||| 2 ^ p }).run (adjU u index, d').2 = q at hblk
        obtain ⟨res, d''⟩ := q
        cases res with
        | ok u' =>
          obtain ⟨o', s'', ho⟩ := handleSegment_of_ok ffr (index + 1) bytes hne (u, d.withCrash (k' + 2)) _ _ hblk
          rw [ho] at herr; cases herr
        | error e' =>
          have := handleSegment_of_error ffr (index + 1) bytes hne (u, d.withCrash (k' + 2)) _ _ hblk
          rw [this] at hinc
          rw [show rcComplete { adjU u index with used := (adjU u index).used ||| 2 ^ p } = false from hinc] at hc
          cases hc
      · have hc' : rcComplete { adjU u index with used := (adjU u index).used ||| 2 ^ p } = false := by simpa using hc
        rw [stage2Tail_incomplete hc'] at hblk
        obtain ⟨o', s'', ho⟩ := handleSegment_of_ok ffr (index + 1) bytes hne (u, d.withCrash (k' + 2)) _ _ hblk
        rw [ho] at herr; cases herr

end Fuota.Updater
