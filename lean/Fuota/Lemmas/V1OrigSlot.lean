import Fuota.Lemmas.V1View
import Fuota.Lemmas.V1Monad
/-!
# The deprecated crate's flash accesses on a device without armed injection (C19, original side)

`fill_bitcache` (the crate's own copy) reads a status table as a mask; `OView`: what one slot of an
`original-flash-algo` session holds, and how the two programs of an accepted fragment write change it.
-/
set_option linter.unusedSimpArgs false
namespace Fuota.V1
open Fuota.Nor Fuota.Fs Fuota.Layout Fuota.FlashAdapters Fuota.Updater

/-- `BitCache::fill_from` (original crate) on bytes that encode the bits of `a`, filling upwards into a mask that has
    no bit at or above `start` -/
theorem oFillFrom_spec : ∀ (bs : List Nat) (mask start a : Nat),
    (∀ j, j < bs.length → bs.getD j 0 = if a.testBit (start + j) then 0x33 else 0xFF) →
    (∀ j, start ≤ j → mask.testBit j = false) →
    ∃ m, Orig.fillFrom mask start bs = .ok m ∧ (∀ j, start + bs.length ≤ j → m.testBit j = false) ∧
      ∀ j, m.testBit j = if start ≤ j ∧ j < start + bs.length then a.testBit j else mask.testBit j := by
  intro bs
  induction bs with
  | nil =>
    intro mask start a _ hm
    exact ⟨mask, rfl, fun j hj => hm j (by simpa using hj), fun j => by simp; intro h1 h2; omega⟩
  | cons b bs ih =>
    intro mask start a hb hm
    have c1 : Consts.O_DATA_WRITTEN = 0x33 := rfl
    have c2 : Consts.O_DATA_NOT_WRITTEN = 0xFF := rfl
    have hb0 := hb 0 (by simp)
    have hrest : ∀ j, j < bs.length → bs.getD j 0 = if a.testBit (start + 1 + j) then 0x33 else 0xFF := by
      intro j hj
      have := hb (j + 1) (by simp; omega)
      simp only [List.getD_cons_succ] at this
      rw [this]
      have : start + (j + 1) = start + 1 + j := by omega
      rw [this]
    unfold Orig.fillFrom
    by_cases hbit : a.testBit start = true
    · have hb0' : b = 0x33 := by simpa [hbit] using hb0
      subst hb0'
      simp only [c1, ↓reduceIte]
      have hm' : ∀ j, start + 1 ≤ j → (mask ||| 2 ^ start).testBit j = false := by
        intro j hj
        rw [testBit_or_pow, hm j (by omega)]
        have : ¬ j = start := by omega
        simp [this]
      obtain ⟨m, hok, hhi, hspec⟩ := ih (mask ||| 2 ^ start) (start + 1) a hrest hm'
      refine ⟨m, hok, fun j hj => hhi j (by simp only [List.length_cons] at hj; omega), ?_⟩
      intro j
      rw [hspec j, testBit_or_pow]
      by_cases hj : j = start
      · subst hj; simp [hbit]
      · by_cases h1 : start + 1 ≤ j ∧ j < start + 1 + bs.length
        · have : start ≤ j ∧ j < start + (bs.length + 1) := by omega
          simp [h1, this]
        · have : ¬ (start ≤ j ∧ j < start + (bs.length + 1)) := by omega
          simp [h1, this, hj]
    · have hbit' : a.testBit start = false := by simpa using hbit
      have hb0' : b = 0xFF := by simpa [hbit'] using hb0
      subst hb0'
      have hms : mask.testBit start = false := hm start (Nat.le_refl _)
      simp only [c1, c2, show ¬ (255 : Nat) = 51 by decide, ↓reduceIte, hms, Bool.false_eq_true]
      obtain ⟨m, hok, hhi, hspec⟩ := ih mask (start + 1) a hrest (fun j hj => hm j (by omega))
      refine ⟨m, hok, fun j hj => hhi j (by simp only [List.length_cons] at hj; omega), ?_⟩
      intro j
      rw [hspec j]
      by_cases hj : j = start
      · subst hj
        have : ¬ (j + 1 ≤ j ∧ j < j + 1 + bs.length) := by omega
        simp [this, hbit', hms]
      · by_cases h1 : start + 1 ≤ j ∧ j < start + 1 + bs.length
        · have : start ≤ j ∧ j < start + (bs.length + 1) := by omega
          simp [h1, this]
        · have : ¬ (start ≤ j ∧ j < start + (bs.length + 1)) := by omega
          simp [h1, this]

/-- `fill_bitcache` (original crate) over a table that encodes the bits of `a` -/
theorem oFillBitcache_spec (startAddr : Nat) (d : Dev) (hG : Good d) (a : Nat) : ∀ (fuel addr remain mask : Nat),
    remain ≤ fuel → startAddr ≤ addr → addr + remain ≤ d.flash.size → addr - startAddr + remain ≤ 16384 →
    TableIs d.flash addr remain (addr - startAddr) a → (∀ j, addr - startAddr ≤ j → mask.testBit j = false) →
    ∃ m, (Orig.fillBitcache startAddr Orig.PARITY_TEMP_LEN fuel addr remain mask).run d = (.ok m, d) ∧
      (∀ j, addr - startAddr + remain ≤ j → m.testBit j = false) ∧
      ∀ j, m.testBit j =
        if addr - startAddr ≤ j ∧ j < addr - startAddr + remain then a.testBit j else mask.testBit j := by
  intro fuel
  induction fuel with
  | zero =>
    intro addr remain mask h _ _ _ _ hm
    have : remain = 0 := by omega
    subst this
    exact ⟨mask, rfl, fun j hj => hm j (by omega), fun j => by simp; intro h1 h2; omega⟩
  | succ fu ih =>
    intro addr remain mask hf hs hin hmax htab hm
    unfold Orig.fillBitcache
    by_cases hr : remain = 0
    · subst hr
      exact ⟨mask, by simp [run_pure], fun j hj => hm j (by omega), fun j => by simp; intro h1 h2; omega⟩
    · have hP : Orig.PARITY_TEMP_LEN = 128 := rfl
      have c3 : Orig.MAX_SEGMENTS = 16384 := rfl
      have hst : 1 ≤ min remain Orig.PARITY_TEMP_LEN := by omega
      have hle : min remain Orig.PARITY_TEMP_LEN ≤ remain := Nat.min_le_left _ _
      simp only [hr, ↓reduceIte, run_bind, Fs.readTo_run hG addr (min remain Orig.PARITY_TEMP_LEN) (by omega)]
      have hc : ¬ addr - startAddr + min remain Orig.PARITY_TEMP_LEN > Orig.MAX_SEGMENTS := by omega
      simp only [hc, ↓reduceIte, run_bind, run_pure]
      have hbytes : ∀ j, j < (d.flash.read addr (min remain Orig.PARITY_TEMP_LEN)).length →
          (d.flash.read addr (min remain Orig.PARITY_TEMP_LEN)).getD j 0 =
            if a.testBit (addr - startAddr + j) then 0x33 else 0xFF := by
        intro j hj
        rw [length_read] at hj
        have hg : (d.flash.read addr (min remain Orig.PARITY_TEMP_LEN))[j]? = some (d.flash.byte (addr + j)) := by
          rw [getElem?_read, if_pos hj]
        rw [List.getD_eq_getElem?_getD, hg, Option.getD_some]
        exact htab j (by omega)
      obtain ⟨m1, hok1, hhi1, hspec1⟩ := oFillFrom_spec _ mask (addr - startAddr) a hbytes hm
      rw [hok1]
      simp only
      rw [length_read] at hhi1 hspec1
      have e : addr + min remain Orig.PARITY_TEMP_LEN - startAddr =
          addr - startAddr + min remain Orig.PARITY_TEMP_LEN := by omega
      obtain ⟨m, hok, hhi, hspec⟩ := ih (addr + min remain Orig.PARITY_TEMP_LEN)
        (remain - min remain Orig.PARITY_TEMP_LEN) m1 (by omega) (by omega) (by omega) (by omega)
        (by
          intro j hj
          rw [e]
          have := htab (min remain Orig.PARITY_TEMP_LEN + j) (by omega)
          rw [← Nat.add_assoc] at this
          rw [Nat.add_assoc (addr - startAddr)]
          exact this) (by rw [e]; exact hhi1)
      refine ⟨m, hok, fun j hj => hhi j (by rw [e]; omega), ?_⟩
      intro j
      rw [hspec j, e, hspec1 j]
      by_cases h1 : addr - startAddr + min remain Orig.PARITY_TEMP_LEN ≤ j ∧
          j < addr - startAddr + min remain Orig.PARITY_TEMP_LEN + (remain - min remain Orig.PARITY_TEMP_LEN)
      · have : addr - startAddr ≤ j ∧ j < addr - startAddr + remain := by omega
        rw [if_pos h1, if_pos this]
      · rw [if_neg h1]
        by_cases h2 : addr - startAddr ≤ j ∧ j < addr - startAddr + min remain Orig.PARITY_TEMP_LEN
        · have : addr - startAddr ≤ j ∧ j < addr - startAddr + remain := by omega
          rw [if_pos h2, if_pos this]
        · have : ¬ (addr - startAddr ≤ j ∧ j < addr - startAddr + remain) := by omega
          rw [if_neg h2, if_neg this]

/-- **the original crate's status-table load reads the mask** -/
theorem oLoadStatus_run (S idx len a : Nat) (d : Dev) (hG : Good d) (hlen : len ≤ 16384)
    (hin : idx * S + 1024 + len ≤ d.flash.size) (htab : TableIs d.flash (idx * S + 1024) len 0 a) (hb : Below a len) :
    (Orig.loadStatus S idx len).run d = (.ok a, d) := by
  unfold Orig.loadStatus
  have c3 : Orig.WRITTEN_OFFSET = 1024 := rfl
  simp only [c3]
  obtain ⟨m, hok, hhi, hspec⟩ := oFillBitcache_spec (idx * S + 1024) d hG a (len + 1) (idx * S + 1024) len 0
    (by omega) (Nat.le_refl _) hin (by omega) (by rw [Nat.sub_self]; exact htab) (fun j _ => by simp)
  rw [hok]
  have : m = a := by
    apply Nat.eq_of_testBit_eq
    intro j
    rw [hspec j, Nat.sub_self]
    by_cases h : 0 ≤ j ∧ j < 0 + len
    · rw [if_pos h]
    · rw [if_neg h, hb j (by omega)]; simp
  rw [this]

/-! ## the view of one slot of an original-crate session -/

/-- the slot at `base`: its status table (`cnt` entries) encodes `mask`, which only has bits below `cap` (the number of
    fragments that fit); fragments marked written read as `val i`, the other fitting ones are still erased -/
structure OView (base : Nat) (f : Flash) (seg cnt cap mask : Nat) (val : Nat → List Nat) : Prop where
  tab : TableIs f (base + 1024) cnt 0 mask
  below : Below mask cap
  data : ∀ i, i < cap → mask.testBit i = true → f.read (base + 17408 + i * seg) seg = val i
  free : ∀ i, i < cap → mask.testBit i = false → Erased f (base + 17408 + i * seg) (base + 17408 + i * seg + seg)

theorem cap_fit {cap seg S i : Nat} (hi : i < cap) (h : 17408 + cap * seg ≤ S) : 17408 + i * seg + seg ≤ S := by
  have : (i + 1) * seg ≤ cap * seg := Nat.mul_le_mul_right seg hi
  rw [Nat.add_mul, Nat.one_mul] at this
  omega

/-- a view only depends on the bytes of its slot -/
theorem OView.frame {base S : Nat} {f f' : Flash} {seg cnt cap mask : Nat} {val : Nat → List Nat}
    (v : OView base f seg cnt cap mask val) (hcnt : 1024 + cnt ≤ S) (hfit : 17408 + cap * seg ≤ S)
    (h : ∀ x, base ≤ x → x < base + S → f'.byte x = f.byte x) : OView base f' seg cnt cap mask val := by
  refine ⟨?_, v.below, ?_, ?_⟩
  · intro j hj
    rw [h _ (by omega) (by omega)]
    exact v.tab j hj
  · intro i hi hb
    have := cap_fit hi hfit
    rw [read_congr f' f _ seg (fun x h1 h2 => h x (by omega) (by omega))]
    exact v.data i hi hb
  · intro i hi hb x h1 h2
    have := cap_fit hi hfit
    rw [h x (by omega) (by omega)]
    exact v.free i hi hb x h1 h2

/-- the flash after the two programs of an accepted fragment write -/
def oAfter (base seg i : Nat) (buf : List Nat) (f : Flash) : Flash :=
  (f.apply (.program (base + 17408 + i * seg) buf)).apply (.program (base + 1024 + i) [0x33])

theorem oAfter_byte_other (base seg i : Nat) (buf : List Nat) (f : Flash) (x : Nat)
    (h1 : x < base + 17408 + i * seg ∨ base + 17408 + i * seg + buf.length ≤ x) (h2 : x ≠ base + 1024 + i) :
    (oAfter base seg i buf f).byte x = f.byte x := by
  unfold oAfter
  rw [byte_apply_program_of_not_mem _ _ _ _ (by simp only [List.length_cons, List.length_nil]; omega),
    byte_apply_program_of_not_mem _ _ _ _ (by omega)]

/-- **a fragment write on the view** -/
theorem OView.write {base S : Nat} {f : Flash} {seg cnt cap mask : Nat} {val : Nat → List Nat}
    (v : OView base f seg cnt cap mask val) (hseg : 1 ≤ seg) (hcc : cap ≤ cnt) (hcnt : cnt ≤ 16384)
    (hfit : 17408 + cap * seg ≤ S) (hin : base + S ≤ f.size)
    (i : Nat) (hi : i < cap) (hb : mask.testBit i = false) (buf : List Nat) (hlen : buf.length = seg)
    (hbytes : IsBytes buf) (hval : val i = buf) :
    OView base (oAfter base seg i buf f) seg cnt cap (mask ||| 2 ^ i) val := by
  have hci := cap_fit hi hfit
  have hdis : ∀ j, j ≠ i → j * seg + seg ≤ i * seg ∨ i * seg + seg ≤ j * seg := fun j hj => seg_disjoint seg hj
  refine ⟨?_, ?_, ?_, ?_⟩
  · intro j hj
    rw [Nat.zero_add, testBit_or_pow]
    by_cases hji : j = i
    · subst hji
      simp only [decide_true, Bool.or_true, ↓reduceIte]
      unfold oAfter
      rw [byte_apply_program_of_mem _ (base + 1024 + j) [0x33] (base + 1024 + j)
        (by simp only [List.length_cons, List.length_nil, size_apply_program]; omega) (Nat.le_refl _) (by simp)]
      rw [byte_apply_program_of_not_mem _ _ _ _ (by omega)]
      have := v.tab j hj
      rw [Nat.zero_add, hb] at this
      simp only [Bool.false_eq_true, ↓reduceIte] at this
      rw [this]
      simp
    · simp only [hji, decide_false, Bool.or_false]
      rw [oAfter_byte_other base seg i buf f _ (by omega) (by omega)]
      have := v.tab j hj
      rw [Nat.zero_add] at this
      exact this
  · intro j hj
    rw [testBit_or_pow, v.below j hj]
    have : ¬ j = i := by omega
    simp [this]
  · intro j hj hbit
    rw [testBit_or_pow] at hbit
    by_cases hji : j = i
    · subst hji
      unfold oAfter
      rw [read_prog_other _ _ _ _ _ (by simp only [List.length_cons, List.length_nil]; omega)]
      have he : Erased f (base + 17408 + j * seg) (base + 17408 + j * seg + buf.length) := by
        rw [hlen]; exact v.free j hj hb
      have := read_prog_same f (base + 17408 + j * seg) buf hbytes (by omega) he
      rw [hlen] at this
      rw [this, hval]
    · simp only [hji, decide_false, Bool.or_false] at hbit
      have := hdis j hji
      have hcj := cap_fit hj hfit
      rw [read_congr (oAfter base seg i buf f) f _ seg (fun x h1 h2 =>
        oAfter_byte_other base seg i buf f x (by omega) (by omega))]
      exact v.data j hj hbit
  · intro j hj hbit x h1 h2
    rw [testBit_or_pow] at hbit
    have hji : j ≠ i := by
      intro e; subst e; simp at hbit
    simp only [hji, decide_false, Bool.or_false] at hbit
    have := hdis j hji
    have hcj := cap_fit hj hfit
    rw [oAfter_byte_other base seg i buf f x (by omega) (by omega)]
    exact v.free j hj hbit x h1 h2

end Fuota.V1
