import Fuota.Lemmas.CrashWord
/-!
# A torn program of a header word, at word level

Ties the byte-level `tear p keep (program a bytes)` of the NOR model to `C11.tornProgram old new m`
(`old &&& (new ||| m)`), so that C11's tear-safety theorems (`torn_safe`, `torn_ext_parse`, …) apply to what is
actually on flash after a torn write.
-/
namespace Fuota.Crash
open Fuota.Nor Fuota.Layout Fuota.Ops

theorem testBit_cons (lo hi j : Nat) (hlo : lo < 256) :
    (lo + 256 * hi).testBit j = if j < 8 then lo.testBit j else hi.testBit (j - 8) := by
  have := Nat.testBit_two_pow_mul_add hi (i := 8) (b := lo) hlo j
  rw [show (2 : Nat) ^ 8 = 256 from rfl, Nat.add_comm] at this
  exact this

theorem cons_and (a0 b0 A Bq : Nat) (ha : a0 < 256) (hb : b0 < 256) :
    (a0 + 256 * A) &&& (b0 + 256 * Bq) = (a0 &&& b0) + 256 * (A &&& Bq) := by
  apply Nat.eq_of_testBit_eq
  intro j
  rw [Nat.testBit_and, testBit_cons _ _ _ ha, testBit_cons _ _ _ hb,
    testBit_cons _ _ _ (Nat.lt_of_le_of_lt Nat.and_le_left ha)]
  split <;> simp [Nat.testBit_and]

theorem cons_or (a0 b0 A Bq : Nat) (ha : a0 < 256) (hb : b0 < 256) :
    (a0 + 256 * A) ||| (b0 + 256 * Bq) = (a0 ||| b0) + 256 * (A ||| Bq) := by
  apply Nat.eq_of_testBit_eq
  intro j
  rw [Nat.testBit_or, testBit_cons _ _ _ ha, testBit_cons _ _ _ hb,
    testBit_cons _ _ _ (Nat.or_lt_two_pow (n := 8) ha hb)]
  split <;> simp [Nat.testBit_or]

theorem le32_nest (a0 a1 a2 a3 : Nat) :
    Layout.le32 a0 a1 a2 a3 = a0 + 256 * (a1 + 256 * (a2 + 256 * (a3 + 256 * 0))) := by
  unfold Layout.le32; omega

theorem le32_and (a0 a1 a2 a3 b0 b1 b2 b3 : Nat) (ha : a0 < 256 ∧ a1 < 256 ∧ a2 < 256 ∧ a3 < 256)
    (hb : b0 < 256 ∧ b1 < 256 ∧ b2 < 256 ∧ b3 < 256) :
    Layout.le32 a0 a1 a2 a3 &&& Layout.le32 b0 b1 b2 b3 =
      Layout.le32 (a0 &&& b0) (a1 &&& b1) (a2 &&& b2) (a3 &&& b3) := by
  rw [le32_nest, le32_nest, le32_nest, cons_and _ _ _ _ ha.1 hb.1, cons_and _ _ _ _ ha.2.1 hb.2.1,
    cons_and _ _ _ _ ha.2.2.1 hb.2.2.1, cons_and _ _ _ _ ha.2.2.2 hb.2.2.2]
  simp

theorem le32_or (a0 a1 a2 a3 b0 b1 b2 b3 : Nat) (ha : a0 < 256 ∧ a1 < 256 ∧ a2 < 256 ∧ a3 < 256)
    (hb : b0 < 256 ∧ b1 < 256 ∧ b2 < 256 ∧ b3 < 256) :
    Layout.le32 a0 a1 a2 a3 ||| Layout.le32 b0 b1 b2 b3 =
      Layout.le32 (a0 ||| b0) (a1 ||| b1) (a2 ||| b2) (a3 ||| b3) := by
  rw [le32_nest, le32_nest, le32_nest, cons_or _ _ _ _ ha.1 hb.1, cons_or _ _ _ _ ha.2.1 hb.2.1,
    cons_or _ _ _ _ ha.2.2.1 hb.2.2.1, cons_or _ _ _ _ ha.2.2.2 hb.2.2.2]
  simp

/-- the byte-wise mask of a tear at byte `p`: earlier bytes fully programmed, byte `p` keeps the bits of `keep`,
    later bytes untouched -/
def tearMask (p keep j : Nat) : Nat := if j < p then 0 else if j = p then keep % 256 else 0xFF

theorem tearMask_lt (p keep j : Nat) : tearMask p keep j < 256 := by
  unfold tearMask
  split
  · decide
  · split
    · exact Nat.mod_lt _ (by decide)
    · decide

theorem byte_and_ff (o b : Nat) (ho : o < 256) : o &&& (b ||| 0xFF) = o := by
  apply Nat.eq_of_testBit_eq
  intro i
  rw [Nat.testBit_and, Nat.testBit_or]
  by_cases hi : i < 8
  · have : (0xFF : Nat).testBit i = true := by
      have : i = 0 ∨ i = 1 ∨ i = 2 ∨ i = 3 ∨ i = 4 ∨ i = 5 ∨ i = 6 ∨ i = 7 := by omega
      rcases this with rfl | rfl | rfl | rfl | rfl | rfl | rfl | rfl <;> decide
    simp [this]
  · have : o.testBit i = false := Nat.testBit_lt_two_pow (Nat.lt_of_lt_of_le ho (by
      calc 256 = 2 ^ 8 := rfl
        _ ≤ 2 ^ i := Nat.pow_le_pow_right (by decide) (by omega)))
    simp [this]

theorem byte_and_mod (o b k : Nat) (ho : o < 256) : o &&& (b ||| k) = o &&& (b ||| k % 256) := by
  apply Nat.eq_of_testBit_eq
  intro i
  rw [Nat.testBit_and, Nat.testBit_or, Nat.testBit_and, Nat.testBit_or]
  by_cases hi : i < 8
  · rw [show (256 : Nat) = 2 ^ 8 from rfl, Nat.testBit_mod_two_pow]
    simp [hi]
  · have : o.testBit i = false := Nat.testBit_lt_two_pow (Nat.lt_of_lt_of_le ho (by
      calc 256 = 2 ^ 8 := rfl
        _ ≤ 2 ^ i := Nat.pow_le_pow_right (by decide) (by omega)))
    simp [this]

/-- each of the four bytes after a torn program of `[b0, b1, b2, b3]` -/
theorem byte_after_tear (f : Flash) (hwf : WF f) (a : Nat) (bs : List Nat) (hl : bs.length = 4)
    (hin : a + 4 ≤ f.size) (p keep j : Nat) (hj : j < 4) :
    (f.apply (tear p keep (.program a bs))).byte (a + j) = f.byte (a + j) &&& (bs.getD j 0 ||| tearMask p keep j) := by
  have ho := hwf (a + j)
  show (f.apply (.program a (bs.take p ++ (match bs[p]? with | some b => [b ||| keep] | none => [])))).byte _ = _
  unfold tearMask
  by_cases hp : p < 4
  · have hbp : bs[p]? = some (bs.getD p 0) := by
      simp [List.getD_eq_getElem?_getD, List.getElem?_eq_getElem (show p < bs.length by omega)]
    rw [hbp]
    dsimp only
    have hlen : (bs.take p ++ [bs.getD p 0 ||| keep]).length = p + 1 := by
      simp [List.length_take]; omega
    rcases Nat.lt_trichotomy j p with h | h | h
    · rw [byte_program f a _ _ (by omega) ⟨by omega, by omega⟩]
      have e : a + j - a = j := by omega
      rw [e, if_pos h, Nat.or_zero]
      congr 1
      rw [List.getD_eq_getElem?_getD, List.getElem?_append_left (by rw [List.length_take]; omega),
        List.getElem?_take, if_pos h, ← List.getD_eq_getElem?_getD]
    · subst h
      rw [byte_program f a _ _ (by omega) ⟨by omega, by omega⟩]
      have e : a + j - a = j := by omega
      rw [e, if_neg (Nat.lt_irrefl _), if_pos rfl]
      have : (bs.take j ++ [bs.getD j 0 ||| keep]).getD j 0 = bs.getD j 0 ||| keep := by
        rw [List.getD_eq_getElem?_getD, List.getElem?_append_right (by rw [List.length_take]; omega)]
        simp [List.length_take, show min j bs.length = j by omega]
      rw [this]
      exact byte_and_mod _ _ _ ho
    · rw [byte_apply_untouched _ _ _ (fun ht => by obtain ⟨h1, h2⟩ := ht; omega),
        if_neg (by omega), if_neg (by omega)]
      exact (byte_and_ff _ _ ho).symm
  · have hbp : bs[p]? = none := List.getElem?_eq_none (by omega)
    rw [hbp, List.append_nil, List.take_of_length_le (by omega)]
    rw [byte_program f a _ _ (by omega) ⟨by omega, by omega⟩]
    have e : a + j - a = j := by omega
    rw [e, if_pos (by omega), Nat.or_zero]

/-- **the word on flash after a torn program of a 4-byte word is `C11.tornProgram old new m`**, with `m` the
    tear mask (`0` for the bytes programmed in full, `keep` for the byte being programmed, `0xFF` for the bytes not
    yet reached) -/
theorem torn_word_tornProgram (f : Flash) (hwf : WF f) (a b0 b1 b2 b3 : Nat)
    (hb : b0 < 256 ∧ b1 < 256 ∧ b2 < 256 ∧ b3 < 256) (hin : a + 4 ≤ f.size) (p keep : Nat) :
    word (f.apply (tear p keep (.program a [b0, b1, b2, b3]))) a =
      C11.tornProgram (word f a) (Layout.le32 b0 b1 b2 b3)
        (Layout.le32 (tearMask p keep 0) (tearMask p keep 1) (tearMask p keep 2) (tearMask p keep 3)) := by
  have h0 := byte_after_tear f hwf a [b0, b1, b2, b3] rfl hin p keep 0 (by omega)
  have h1 := byte_after_tear f hwf a [b0, b1, b2, b3] rfl hin p keep 1 (by omega)
  have h2 := byte_after_tear f hwf a [b0, b1, b2, b3] rfl hin p keep 2 (by omega)
  have h3 := byte_after_tear f hwf a [b0, b1, b2, b3] rfl hin p keep 3 (by omega)
  rw [Nat.add_zero] at h0
  have m := tearMask_lt p keep
  unfold C11.tornProgram
  rw [le32_or _ _ _ _ _ _ _ _ hb ⟨m 0, m 1, m 2, m 3⟩]
  unfold word
  rw [le32_and _ _ _ _ _ _ _ _ ⟨hwf _, hwf _, hwf _, hwf _⟩
    ⟨Nat.or_lt_two_pow (n := 8) hb.1 (m 0), Nat.or_lt_two_pow (n := 8) hb.2.1 (m 1),
     Nat.or_lt_two_pow (n := 8) hb.2.2.1 (m 2), Nat.or_lt_two_pow (n := 8) hb.2.2.2 (m 3)⟩]
  rw [h0, h1, h2, h3]
  rfl

/-- **`torn_complete_is_complete`**: program the Complete code (whole or torn at any byte, any subset of bits of
    that byte) over an external-status word that holds a legal code: what is on flash afterwards either does not
    parse as an external status, or parses to the old status, or **is the Complete code**. In particular a word that
    then reads Complete and did not before is exactly `0x44444444`. -/
theorem torn_complete_is_complete (f : Flash) (hwf : WF f) (a : Nat) (hin : a + 4 ≤ f.size) (old : Ext)
    (hold : word f a = encExt Codec.pinned old) (p keep : Nat) :
    let w := word (f.apply (tear p keep (.program a (writeU32 (encExt Codec.new .complete))))) a
    parseExt Codec.pinned w = none ∨ parseExt Codec.pinned w = some old ∨
      (parseExt Codec.pinned w = some .complete ∧ w = 0x44444444) := by
  intro w
  have hw : w = C11.tornProgram (encExt Codec.pinned old) (encExt Codec.pinned .complete)
      (Layout.le32 (tearMask p keep 0) (tearMask p keep 1) (tearMask p keep 2) (tearMask p keep 3)) := by
    have := torn_word_tornProgram f hwf a 0x44 0x44 0x44 0x44 (by decide) hin p keep
    rw [hold] at this
    exact this
  have h3 := C11.torn_ext_parse old .complete
    (Layout.le32 (tearMask p keep 0) (tearMask p keep 1) (tearMask p keep 2) (tearMask p keep 3))
  simp only at h3
  rw [← hw] at h3
  rcases h3 with h | h | h
  · exact Or.inl h
  · exact Or.inr (Or.inl h)
  · exact Or.inr (Or.inr ⟨h, (C11.parseExt_some _ _ _ h).symm⟩)

end Fuota.Crash
