import Fuota.Lemmas.RefineHeaders
/-!
# The segment-size cache of the firmware slot is transparent

`try_recover_inner` returns slot handles without the cached segment size; `read_segment` then re-reads the size word
of the header and the first `write_segment` fills the cache. On a device whose firmware header carries the session's
segment size, an updater with an empty cache behaves exactly like the same updater with the cache filled (`warm`).
-/
namespace Fuota.Updater
open Fuota.Nor Fuota.Fs Fuota.FlashAdapters Fuota.Recon Fuota.Layout

/-- what `segment_size` reads at address `a` (0 when the word does not parse) -/
def sizeAt (f : Flash) (a : Nat) : Nat :=
  match parseSize C (Nor.le32 (f.read a 4)) with | some v => v | none => 0

/-- the size in a parsed header is the size `segment_size` re-reads from the same flash -/
theorem hdrAt_size {f : Flash} {a : Nat} {h : Header} (hh : NoPanic.hdrAt f a = some h) :
    sizeAt f (a + Consts.SEGSIZE_OFFSET) = h.size := by
  unfold NoPanic.hdrAt at hh
  simp only [Consts.SLOT_HEADER_SIZE, Flash.read, NoPanic.range28, List.map, parseHeader, takeU32,
    Option.bind_eq_bind, Option.pure_def, Option.bind_some, Option.map_eq_some_iff, Option.bind_eq_some_iff] at hh
  obtain ⟨⟨h', r⟩, ⟨k, hk, sq, hsq, sz, hsz, n, hn, e, he, it, hit, b, hb, heq⟩, rfl⟩ := hh
  simp only [Option.some.injEq, Prod.mk.injEq] at heq
  obtain ⟨rfl, _⟩ := heq
  simp only [sizeAt, Consts.SEGSIZE_OFFSET, Flash.read, Nor.le32]
  simp only [show List.range 4 = [0,1,2,3] from rfl, List.map, List.getD_cons_zero, List.getD_cons_succ,
    Nat.add_assoc, Nat.add_zero, Nat.reduceAdd]
  simp only [Layout.le32, Nat.add_assoc] at hsz
  rw [hsz]

/-- the cache is filled, or it is empty and the header on flash carries the session's segment size -/
def CacheOK (u : Upd) (d : Dev) : Prop :=
  u.fw.segSize = some u.bs ∨
  (u.fw.segSize = none ∧ sizeAt d.flash (u.fw.size * u.fw.idx + Consts.SEGSIZE_OFFSET) = u.bs)

/-- filling a filled cache changes nothing -/
theorem warm_of_some {u : Upd} (h : u.fw.segSize = some u.bs) : warm u = u := by
  obtain ⟨⟨i, s, c⟩, par, n, l, bs, done, used, maxL, mo, cpl⟩ := u
  simp only at h
  subst h
  rfl

/-- reading the size word of the header -/
theorem readSegSize_run (s : Slot) {d : Dev} (hG : Good d) (hin : s.size * s.idx + 12 ≤ d.flash.size) :
    s.readSegSize.run d = (.ok (sizeAt d.flash (s.size * s.idx + Consts.SEGSIZE_OFFSET)), d) := by
  unfold Slot.readSegSize sizeAt
  rw [run_bind, readTo_run hG _ _ (by show s.size * s.idx + 8 + 4 ≤ _; omega)]
  rfl

/-- `segment_size` answers the session's segment size -/
theorem segmentSize_run {u : Upd} {d : Dev} (hG : Good d) (hc : CacheOK u d)
    (hin : u.fw.size * u.fw.idx + 12 ≤ d.flash.size) : u.fw.segmentSize.run d = (.ok u.bs, d) := by
  unfold Slot.segmentSize
  rcases hc with h | ⟨h, hw⟩
  · rw [h]; rfl
  · rw [h]
    simp only
    rw [readSegSize_run u.fw hG hin, hw]

/-- `segment_size_mut` answers the session's segment size and returns the handle with the cache filled -/
theorem segmentSizeMut_run {u : Upd} {d : Dev} (hG : Good d) (hc : CacheOK u d) (hbs : u.bs ≠ 0)
    (hin : u.fw.size * u.fw.idx + 12 ≤ d.flash.size) :
    u.fw.segmentSizeMut.run d = (.ok (u.bs, (warm u).fw), d) := by
  unfold Slot.segmentSizeMut
  rcases hc with h | ⟨h, hw⟩
  · rw [h, warm_of_some h]; rfl
  · rw [h]
    simp only
    rw [run_bind, readSegSize_run u.fw hG hin, hw]
    simp only [run_pure, hbs, ↓reduceIte]

/-- `read_segment` with an empty cache runs exactly like with a filled one -/
theorem readSegment_warm {u : Upd} {d : Dev} (hG : Good d) (hc : CacheOK u d)
    (hin : u.fw.size * u.fw.idx + 12 ≤ d.flash.size) (i len : Nat) :
    (u.fw.readSegment i len).run d = ((warm u).fw.readSegment i len).run d := by
  have hw : CacheOK (warm u) d := Or.inl rfl
  unfold Slot.readSegment
  by_cases h : i > MAX_SEGMENTS
  · simp only [h, ↓reduceIte]; rfl
  · simp only [h, ↓reduceIte]
    rw [run_bind, run_bind, segmentSize_run hG hc hin, segmentSize_run (u := warm u) hG hw hin]

/-- `write_segment` with an empty cache runs exactly like with a filled one (both return the filled handle) -/
theorem writeSegment_warm {u : Upd} {d : Dev} (hG : Good d) (hc : CacheOK u d) (hbs : u.bs ≠ 0)
    (hin : u.fw.size * u.fw.idx + 12 ≤ d.flash.size) (i : Nat) (buf : List Nat) :
    (u.fw.writeSegment i buf).run d = ((warm u).fw.writeSegment i buf).run d := by
  have hw : CacheOK (warm u) d := Or.inl rfl
  unfold Slot.writeSegment
  by_cases h : i > MAX_SEGMENTS
  · simp only [h, ↓reduceIte]; rfl
  · simp only [h, ↓reduceIte]
    rw [run_bind, run_bind, segmentSizeMut_run hG hc hbs hin, segmentSizeMut_run (u := warm u) hG hw hbs hin]

/-! ## the loops -/

/-- `strip` does not depend on the cache -/
theorem strip_warm {E : Nat → Prop} {u : Upd} {d : Dev} (Lw : Lawful' E (warm u) d) (hc : CacheOK u d)
    (row : Nat) (is : List Nat) : ∀ data : List Nat,
    (strip u row is data).run d = (strip (warm u) row is data).run d := by
  obtain ⟨h1, h2, h3, _⟩ := Lw.geo.slots
  have hin : u.fw.size * u.fw.idx + 12 ≤ d.flash.size := by
    have : fwBase (warm u) = u.fw.idx * u.fw.size := rfl
    rw [Nat.mul_comm]; show u.fw.idx * u.fw.size + 12 ≤ _
    have h1' : 17408 < u.fw.size := h1
    have h3' : u.fw.idx * u.fw.size + u.fw.size ≤ d.flash.size := h3
    omega
  induction is with
  | nil => intro data; rfl
  | cons i is ih =>
    intro data
    unfold strip
    by_cases h : (row.testBit i && u.done.testBit i) = true
    · have hd : (warm u).done.testBit i = true := by simp at h; exact h.2
      have hi := Lw.hdone i hd
      have hr : ((warm u).fw.readSegment i u.bs).run d = (.ok (d.flash.read (segAddr (warm u) i) u.bs), d) :=
        readSegment_run (u := warm u) Lw.geo Lw.good hi
      have h' : (row.testBit i && (warm u).done.testBit i) = true := h
      simp only [h, ↓reduceIte]
      rw [run_bind, run_bind, readSegment_warm Lw.good hc hin, hr]
      exact ih _
    · have h0 : (row.testBit i && u.done.testBit i) = false := by simpa using h
      have h' : (row.testBit i && (warm u).done.testBit i) = false := h0
      simp only [h0, Bool.false_eq_true, ↓reduceIte]
      exact ih data

/-- the inner loop of `finish` does not depend on the cache -/
theorem finishInner_warm {E : Nat → Prop} {u : Upd} {d : Dev} (Lw : Lawful' E (warm u) d) (hc : CacheOK u d)
    (U : List Nat) (r : Nat) (js : List Nat) (hjs : ∀ j ∈ js, j < U.length ∧ Gf2.nth U j < u.n) :
    ∀ out : List Nat, (finishInner u U r js out).run d = (finishInner (warm u) U r js out).run d := by
  obtain ⟨h1, h2, h3, _⟩ := Lw.geo.slots
  have hin : u.fw.size * u.fw.idx + 12 ≤ d.flash.size := by
    rw [Nat.mul_comm]
    have h1' : 17408 < u.fw.size := h1
    have h3' : u.fw.idx * u.fw.size + u.fw.size ≤ d.flash.size := h3
    omega
  induction js with
  | nil => intro out; rfl
  | cons j js ih =>
    intro out
    obtain ⟨hj1, hj2⟩ := hjs j List.mem_cons_self
    have hjs' := fun k hk => hjs k (List.mem_cons_of_mem _ hk)
    unfold finishInner
    by_cases h : r.testBit j = true
    · have hU : U[j]? = some (Gf2.nth U j) := Gf2.getElem?_eq_some_nth U j hj1
      have hr : ((warm u).fw.readSegment (Gf2.nth U j) u.bs).run d =
          (.ok (d.flash.read (segAddr (warm u) (Gf2.nth U j)) u.bs), d) :=
        readSegment_run (u := warm u) Lw.geo Lw.good hj2
      simp only [h, ↓reduceIte, hU]
      rw [run_bind, run_bind, readSegment_warm Lw.good hc hin, hr]
      exact ih hjs' _
    · have h0 : r.testBit j = false := by simpa using h
      simp only [h0, Bool.false_eq_true, ↓reduceIte]
      exact ih hjs' out

/-- the elimination loop does not look at the firmware slot at all -/
theorem elim_warm (u : Upd) : ∀ (wh row : Nat) (data : List Nat),
    Updater.elim (warm u) wh row data = Updater.elim u wh row data := by
  intro wh
  induction wh with
  | zero => intro row data; rfl
  | succ wh ih =>
    intro row data
    unfold Updater.elim
    simp only [ih]
    rfl

/-- the parity store does not look at the firmware slot -/
theorem pGet_warm (u : Upd) (m len : Nat) : pGet (warm u) m len = pGet u m len := rfl
/-- the matrix store does not look at the firmware slot -/
theorem mRow_warm (u : Upd) (m : Nat) : mRow (warm u) m = mRow u m := rfl

/-- `finish` over a non-empty index range does not depend on the cache: the first `write_segment` fills it -/
theorem finishOuter_warm {u : Upd} (hlen : u.l = (unknowns u.done u.n).length) (k i : Nat) (d : Dev)
    (hF : FinL (warm u) d (unknowns u.done u.n) i) (hc : CacheOK u d) (hik : i + (k + 1) ≤ u.l) :
    (finishOuter (unknowns u.done u.n) (List.range' i (k + 1)) u).run d =
      (finishOuter (unknowns u.done u.n) (List.range' i (k + 1)) (warm u)).run d := by
  have L := hF.law
  obtain ⟨h1, h2, h3, _⟩ := L.geo.slots
  have hin : u.fw.size * u.fw.idx + 12 ≤ d.flash.size := by
    rw [Nat.mul_comm]
    have h1' : 17408 < u.fw.size := h1
    have h3' : u.fw.idx * u.fw.size + u.fw.size ≤ d.flash.size := h3
    omega
  have hil : i < u.l := by omega
  have him : i < (warm u).maxL := Nat.lt_of_lt_of_le hil L.hl
  have hiU : i < (unknowns u.done u.n).length := by rw [← hlen]; exact hil
  have hfmem := Gf2.nth_mem _ i hiU
  rw [Gf2.mem_unknowns] at hfmem
  obtain ⟨hfn, hfd⟩ := hfmem
  have htb : IsBytes (d.flash.read (pAddr (warm u) i) u.bs) := isBytes_read L.wf _ _
  have htl : (d.flash.read (pAddr (warm u) i) u.bs).length = u.bs := length_read _ _ _
  have hjs : ∀ j ∈ List.range i, j < (unknowns u.done u.n).length ∧ Gf2.nth (unknowns u.done u.n) j < u.n ∧
      d.flash.byte (statAddr (warm u) (Gf2.nth (unknowns u.done u.n) j)) = 0x33 := by
    intro j hj
    have hji := List.mem_range.1 hj
    have hjU : j < (unknowns u.done u.n).length := by omega
    have := Gf2.nth_mem _ j hjU
    rw [Gf2.mem_unknowns] at this
    exact ⟨hjU, this.1, hF.marked j hji⟩
  obtain ⟨out, hrun, hob, hol, _⟩ := finishInner_run L (unknowns u.done u.n)
    (bytesToNat (flipBit (d.flash.read (rAddr (warm u) i) (i / 8 + 1)) i)) (List.range i) hjs _ htb htl
  have hUi : (unknowns u.done u.n)[i]? = some (Gf2.nth (unknowns u.done u.n) i) :=
    Gf2.getElem?_eq_some_nth _ i hiU
  have hp := pGet_run (u := warm u) L.geo L.good him
  have hm := mRow_run (u := warm u) L.geo L.good him
  have hbs : u.bs ≠ 0 := by have := L.geo.hbs.1; show u.bs ≠ 0; have : 1 ≤ u.bs := this; omega
  rw [List.range'_succ]
  unfold finishOuter
  rw [← pGet_warm u, ← mRow_warm u]
  simp only [run_bind, hp, hm, hUi]
  rw [finishInner_warm L hc _ _ _ (fun j hj => ⟨(hjs j hj).1, (hjs j hj).2.1⟩), hrun]
  simp only
  rw [writeSegment_warm L.good hc hbs hin]

/-- the cache condition only looks at the size word of the firmware header -/
theorem CacheOK.frame {u : Upd} {d d' : Dev} (hc : CacheOK u d)
    (h : ∀ x, u.fw.size * u.fw.idx ≤ x → x < u.fw.size * u.fw.idx + 12 → d'.flash.byte x = d.flash.byte x) :
    CacheOK u d' := by
  rcases hc with hc | ⟨hc, hw⟩
  · exact Or.inl hc
  · refine Or.inr ⟨hc, ?_⟩
    rw [← hw]
    unfold sizeAt
    rw [read_congr d'.flash d.flash _ 4 (fun x hx1 hx2 => h x (by show _ ≤ x; have : Consts.SEGSIZE_OFFSET = 8 := rfl; omega)
      (by have : Consts.SEGSIZE_OFFSET = 8 := rfl; omega))]

/-- body operations of one slot leave every byte outside that slot's body alone -/
theorem bodyOps_bytes {size i : Nat} (f : Flash) : ∀ (ops : List Op), (∀ op ∈ ops, Ops.BodyOp size i op) → ∀ x,
    (x < i * size + 0x400 ∨ i * size + size ≤ x) → (f.applyAll ops).byte x = f.byte x := by
  intro ops
  induction ops generalizing f with
  | nil => intro _ x _; rfl
  | cons op ops ih =>
    intro h x hx
    show ((f.apply op).applyAll ops).byte x = _
    rw [ih (f.apply op) (fun o ho => h o (List.mem_cons_of_mem _ ho)) x hx]
    exact bodyOp_byte (h op List.mem_cons_self) f x hx

/-- the elimination loop only programs the body of the parity slot -/
theorem elim_frame (u : Upd) (d : Dev) (hp : 1024 ≤ u.par.size) (wh row : Nat) (data : List Nat) (x : Nat)
    (hx : x < u.par.idx * u.par.size + 0x400 ∨ u.par.idx * u.par.size + u.par.size ≤ x) :
    ((Updater.elim u wh row data).run d).2.flash.byte x = d.flash.byte x := by
  obtain ⟨_, ⟨new, hrep, hops⟩, _⟩ := Ops.elim_emits (B := d.flash.block) u hp wh row data d rfl
  rw [hrep.flash]
  exact bodyOps_bytes d.flash new.reverse (fun op hop => hops op (List.mem_reverse.1 hop)) x hx

end Fuota.Updater
