import Fuota.Lemmas.OpsCalc
/-!
# NOR facts behind "no 0 → 1 transition is ever needed": what programming and erasing do to single bytes
-/
namespace Fuota.Ops
open Fuota.Nor

theorem getD_set (mem : Array Nat) (i v x : Nat) :
    (mem.setIfInBounds i v).getD x 0xFF = if x = i ∧ i < mem.size then v else mem.getD x 0xFF := by
  simp only [Array.getD_eq_getD_getElem?, Array.getElem?_setIfInBounds]
  by_cases h : i = x
  · subst h
    by_cases h2 : i < mem.size
    · simp [h2]
    · simp [h2]
  · have : ¬ x = i := fun e => h e.symm
    simp [h, this]

theorem programBytes_size (mem : Array Nat) (a : Nat) (bs : List Nat) : (programBytes mem a bs).size = mem.size := by
  induction bs generalizing mem a with
  | nil => rfl
  | cons b bs ih => simp only [programBytes, ih, Array.size_setIfInBounds]

theorem fillFF_size (mem : Array Nat) (a k : Nat) : (fillFF mem a k).size = mem.size := by
  induction k generalizing mem a with
  | zero => rfl
  | succ k ih => simp only [fillFF, ih, Array.size_setIfInBounds]

/-- no operation changes the size of the device -/
theorem apply_size (f : Flash) (op : Op) : (f.apply op).size = f.size := by
  cases op with
  | erase a => exact fillFF_size _ _ _
  | program a bs => exact programBytes_size _ _ _

/-- **programming is byte-wise AND**: inside the device, byte `x` of the result is the old byte AND-ed with the
    programmed byte when `x` is in the programmed range, and the old byte otherwise -/
theorem programBytes_getD (mem : Array Nat) (a : Nat) (bs : List Nat) (x : Nat) (hx : x < mem.size) :
    (programBytes mem a bs).getD x 0xFF =
      if a ≤ x ∧ x < a + bs.length then mem.getD x 0xFF &&& bs.getD (x - a) 0 else mem.getD x 0xFF := by
  induction bs generalizing mem a with
  | nil =>
    have : ¬ (a ≤ x ∧ x < a + ([] : List Nat).length) := by simp only [List.length_nil]; omega
    simp only [programBytes, this, ↓reduceIte]
  | cons b bs ih =>
    simp only [programBytes]
    rw [ih _ _ (by rw [Array.size_setIfInBounds]; exact hx), getD_set]
    simp only [List.length_cons]
    by_cases hxa : x = a
    · subst hxa
      have h1 : ¬ (x + 1 ≤ x ∧ x < x + 1 + bs.length) := by omega
      have h2 : x ≤ x ∧ x < x + (bs.length + 1) := by omega
      simp [h1, h2, hx]
    · by_cases hr : a + 1 ≤ x ∧ x < a + 1 + bs.length
      · have h2 : a ≤ x ∧ x < a + (bs.length + 1) := by omega
        have h3 : ¬ (x = a ∧ a < mem.size) := by omega
        have e : x - a = (x - (a + 1)) + 1 := by omega
        simp only [hr, h2, h3, and_self, ↓reduceIte, e, List.getD_cons_succ]
      · have h2 : ¬ (a ≤ x ∧ x < a + (bs.length + 1)) := by omega
        have h3 : ¬ (x = a ∧ a < mem.size) := by omega
        simp only [hr, h2, h3, ↓reduceIte]

/-- **erasing sets the block to `0xFF` and nothing else** -/
theorem fillFF_getD (mem : Array Nat) (a k x : Nat) :
    (fillFF mem a k).getD x 0xFF = if a ≤ x ∧ x < a + k then 0xFF else mem.getD x 0xFF := by
  induction k generalizing mem a with
  | zero =>
    have : ¬ (a ≤ x ∧ x < a + 0) := by omega
    simp only [fillFF, this, ↓reduceIte]
  | succ k ih =>
    simp only [fillFF]
    rw [ih, getD_set]
    by_cases hxa : x = a
    · subst hxa
      have h1 : ¬ (x + 1 ≤ x ∧ x < x + 1 + k) := by omega
      have h2 : x ≤ x ∧ x < x + (k + 1) := by omega
      simp only [h1, h2, and_self, ↓reduceIte, true_and]
      by_cases hin : x < mem.size
      · simp [hin]
      · simp only [hin, ↓reduceIte]
        simp only [Array.getD_eq_getD_getElem?]
        rw [Array.getElem?_eq_none (by omega)]
        rfl
    · by_cases hr : a + 1 ≤ x ∧ x < a + 1 + k
      · have h2 : a ≤ x ∧ x < a + (k + 1) := by omega
        simp only [hr, h2, and_self, ↓reduceIte]
      · have h2 : ¬ (a ≤ x ∧ x < a + (k + 1)) := by omega
        have h3 : ¬ (x = a ∧ a < mem.size) := by omega
        simp only [hr, h2, h3, ↓reduceIte]

/-- `needsSet` is false exactly when every programmed byte only clears bits of the stored byte -/
theorem needsSet_eq_false_iff (f : Flash) (a : Nat) (bs : List Nat) :
    f.needsSet a bs = false ↔ ∀ i, i < bs.length → f.byte (a + i) &&& bs.getD i 0 = bs.getD i 0 := by
  unfold Flash.needsSet
  rw [List.any_eq_false]
  constructor
  · intro h i hi
    have := h i (List.mem_range.2 hi)
    simpa using this
  · intro h i hi
    have := h i (List.mem_range.1 hi)
    simpa using this

theorem ff_and (b : Nat) (hb : b < 256) : 0xFF &&& b = b := by
  rw [Nat.and_comm]
  have := Nat.and_two_pow_sub_one_eq_mod b 8
  simp only [show (2 : Nat) ^ 8 - 1 = 255 from rfl, show (2 : Nat) ^ 8 = 256 from rfl] at this
  rw [this, Nat.mod_eq_of_lt hb]

/-- **programming erased bytes never needs a 0 → 1 transition** -/
theorem needsSet_erased (f : Flash) (a : Nat) (bs : List Nat) (hff : ∀ i, i < bs.length → f.byte (a + i) = 0xFF)
    (hb : ∀ i, i < bs.length → bs.getD i 0 < 256) : f.needsSet a bs = false := by
  rw [needsSet_eq_false_iff]
  intro i hi
  rw [hff i hi]
  exact ff_and _ (hb i hi)

/-- **re-programming identical bytes never needs a 0 → 1 transition** (`a &&& a = a`) -/
theorem needsSet_same (f : Flash) (a : Nat) (bs : List Nat)
    (hsame : ∀ i, i < bs.length → f.byte (a + i) = bs.getD i 0) : f.needsSet a bs = false := by
  rw [needsSet_eq_false_iff]
  intro i hi
  rw [hsame i hi, Nat.and_self]

/-- byte-wise mix of the two: each target byte is erased or already holds the value -/
theorem needsSet_erased_or_same (f : Flash) (a : Nat) (bs : List Nat)
    (h : ∀ i, i < bs.length → bs.getD i 0 < 256 ∧ (f.byte (a + i) = 0xFF ∨ f.byte (a + i) = bs.getD i 0)) :
    f.needsSet a bs = false := by
  rw [needsSet_eq_false_iff]
  intro i hi
  obtain ⟨hb, h1 | h1⟩ := h i hi
  · rw [h1]; exact ff_and _ hb
  · rw [h1, Nat.and_self]

/-- **what is read back equals what was written**: a program inside the device that needs no 0 → 1 transition
    reads back exactly -/
theorem program_readback (f : Flash) (a : Nat) (bs : List Nat) (hin : a + bs.length ≤ f.size)
    (hns : f.needsSet a bs = false) : (f.apply (.program a bs)).read a bs.length = bs := by
  rw [needsSet_eq_false_iff] at hns
  apply List.ext_getElem
  · simp [Flash.read]
  · intro i h1 h2
    simp only [Flash.read, List.getElem_map, List.getElem_range]
    show (programBytes f.mem (a) bs).getD (a + i) 0xFF = bs[i]
    rw [programBytes_getD _ _ _ _ (by show a + i < f.size; omega)]
    have hr : a ≤ a + i ∧ a + i < a + bs.length := by omega
    have e : a + i - a = i := by omega
    simp only [hr, and_self, ↓reduceIte, e]
    have := hns i h2
    show f.byte (a + i) &&& bs.getD i 0 = bs[i]
    rw [this]
    simp [List.getD_eq_getElem?_getD, h2]

/-- after an erase, every byte of the erased block reads `0xFF` -/
theorem erase_byte (f : Flash) (a x : Nat) (hx : a ≤ x ∧ x < a + f.block) :
    (f.apply (.erase a)).byte x = 0xFF := by
  show (fillFF f.mem a f.block).getD x 0xFF = 0xFF
  rw [fillFF_getD]
  simp only [hx, and_self, ↓reduceIte]

/-- operations elsewhere leave a byte alone -/
theorem apply_byte_other (f : Flash) (op : Op) (x : Nat) (hx : x < f.size)
    (hout : match op with
      | .erase a => ¬ (a ≤ x ∧ x < a + f.block)
      | .program a bs => ¬ (a ≤ x ∧ x < a + bs.length)) : (f.apply op).byte x = f.byte x := by
  cases op with
  | erase a =>
    show (fillFF f.mem a f.block).getD x 0xFF = _
    rw [fillFF_getD]
    simp only at hout
    simp only [hout, ↓reduceIte]
    rfl
  | program a bs =>
    show (programBytes f.mem a bs).getD x 0xFF = _
    rw [programBytes_getD _ _ _ _ hx]
    simp only at hout
    simp only [hout, ↓reduceIte]
    rfl

/-! ## the write-once discipline on a log -/

/-- every program of `ops` (oldest first), at the moment it is applied, targets bytes that are erased or already
    hold the value being programmed -/
def Discipline (f : Flash) : List Op → Prop
  | [] => True
  | op :: ops =>
    (match op with
      | .erase _ => True
      | .program a bs => ∀ i, i < bs.length →
          bs.getD i 0 < 256 ∧ (f.byte (a + i) = 0xFF ∨ f.byte (a + i) = bs.getD i 0)) ∧
    Discipline (f.apply op) ops

/-- under the discipline no program of the log needs a 0 → 1 transition -/
theorem needCount_of_discipline (f : Flash) (ops : List Op) (h : Discipline f ops) : needCount f ops = 0 := by
  induction ops generalizing f with
  | nil => rfl
  | cons op ops ih =>
    obtain ⟨h1, h2⟩ := h
    show needOf f op + needCount (f.apply op) ops = 0
    rw [ih _ h2]
    cases op with
    | erase a => rfl
    | program a bs =>
      show (if f.needsSet a bs = true then 1 else 0) + 0 = 0
      rw [needsSet_erased_or_same f a bs h1]
      rfl

end Fuota.Ops
