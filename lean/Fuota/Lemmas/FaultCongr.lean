import Fuota.Model.Recon
/-!
# Congruence of the reconstructor model under "same contents, different history"

`Eqv a b`: the two states have the same scalars and bit sets and their three stores agree *as maps*
(`get`), whatever the association lists, the call log and the call counter look like.
All fault-free (`noFault`) model functions respect `Eqv` (results equal, resulting states `Eqv`).
-/
namespace Fuota.Fault
open Fuota.Recon

/-! ## basic vocabulary -/

/-- same definition as `Fuota.C18.Equiv` (which is definitionally this) -/
def Eqv (a b : St) : Prop :=
  a.n = b.n ∧ a.bs = b.bs ∧ a.l = b.l ∧ a.done = b.done ∧ a.used = b.used ∧
  (∀ k, get a.ds k = get b.ds k) ∧ (∀ k, get a.ps k = get b.ps k) ∧ (∀ k, get a.ms k = get b.ms k)

theorem Eqv.refl (a : St) : Eqv a a := by simp [Eqv]

theorem Eqv.symm {a b : St} (h : Eqv a b) : Eqv b a := by
  obtain ⟨h1, h2, h3, h4, h5, h6, h7, h8⟩ := h
  exact ⟨h1.symm, h2.symm, h3.symm, h4.symm, h5.symm, fun k => (h6 k).symm, fun k => (h7 k).symm,
    fun k => (h8 k).symm⟩

theorem Eqv.trans {a b c : St} (h : Eqv a b) (g : Eqv b c) : Eqv a c := by
  obtain ⟨h1, h2, h3, h4, h5, h6, h7, h8⟩ := h
  obtain ⟨g1, g2, g3, g4, g5, g6, g7, g8⟩ := g
  exact ⟨h1.trans g1, h2.trans g2, h3.trans g3, h4.trans g4, h5.trans g5, fun k => (h6 k).trans (g6 k),
    fun k => (h7 k).trans (g7 k), fun k => (h8 k).trans (g8 k)⟩

/-- the state without its history (call log and call counter) -/
def core (s : St) : St := { s with log := [], calls := 0 }

theorem core_eq {a b : St} (h : core a = core b) :
    a.n = b.n ∧ a.bs = b.bs ∧ a.l = b.l ∧ a.done = b.done ∧ a.used = b.used ∧
    a.ds = b.ds ∧ a.ps = b.ps ∧ a.ms = b.ms := by
  have := congrArg St.n h; have := congrArg St.bs h; have := congrArg St.l h
  have := congrArg St.done h; have := congrArg St.used h; have := congrArg St.ds h
  have := congrArg St.ps h; have := congrArg St.ms h
  simp_all [core]

theorem Eqv.of_core {a b : St} (h : core a = core b) : Eqv a b := by
  obtain ⟨h1, h2, h3, h4, h5, h6, h7, h8⟩ := core_eq h
  simp [Eqv, *]

@[simp] theorem core_log (s : St) (lg : List Call) (c : Nat) :
    core { s with log := lg, calls := c } = core s := rfl

@[simp] theorem core_call (F : Nat → Bool) (s : St) (c : Call) : core (call F s c).1 = core s := rfl

theorem call_noFault (s : St) (c : Call) :
    call noFault s c = ({ s with log := c :: s.log, calls := s.calls + 1 }, true) := rfl

theorem get_cons (k v : Nat) (s : Store) (k' : Nat) :
    get ((k, v) :: s) k' = if k' = k then v else get s k' := by
  simp only [Recon.get, List.lookup_cons]
  by_cases h : k' = k
  · simp [h]
  · have : (k' == k) = false := by simpa using h
    simp [this, h]

/-- results equal and states `Eqv` -/
def PEqv {α : Type} (x y : St × α) : Prop := x.2 = y.2 ∧ Eqv x.1 y.1

theorem PEqv.refl {α : Type} (x : St × α) : PEqv x x := ⟨rfl, Eqv.refl _⟩
theorem PEqv.symm {α : Type} {x y : St × α} (h : PEqv x y) : PEqv y x := ⟨h.1.symm, h.2.symm⟩
theorem PEqv.trans {α : Type} {x y z : St × α} (h : PEqv x y) (g : PEqv y z) : PEqv x z :=
  ⟨h.1.trans g.1, h.2.trans g.2⟩

theorem isComplete_congr {a b : St} (hl : a.l = b.l) (hn : a.n = b.n) (hd : a.done = b.done)
    (hu : a.used = b.used) : isComplete a = isComplete b := by
  simp [isComplete, hl, hn, hd, hu]

theorem Eqv.isComplete {a b : St} (h : Eqv a b) : isComplete a = isComplete b :=
  isComplete_congr h.2.2.1 h.1 h.2.2.2.1 h.2.2.2.2.1

/-- adding history to both sides keeps `Eqv` -/
theorem Eqv.log {a b : St} (h : Eqv a b) (la lb : List Call) (ca cb : Nat) :
    Eqv { a with log := la, calls := ca } { b with log := lb, calls := cb } := h

/-! ## strip -/

/-- the value computed by `strip` when no call fails -/
def stripVal (row done : Nat) (ds : Store) : List Nat → Nat → Nat
  | [], d => d
  | i :: is, d =>
    if row.testBit i && done.testBit i then stripVal row done ds is (d ^^^ get ds i)
    else stripVal row done ds is d

theorem stripVal_congr (row done : Nat) {ds ds' : Store} (h : ∀ k, get ds k = get ds' k) :
    ∀ (is : List Nat) (d : Nat), stripVal row done ds is d = stripVal row done ds' is d := by
  intro is
  induction is with
  | nil => intro d; rfl
  | cons i is ih => intro d; simp only [stripVal, h, ih]

/-- `strip` touches nothing but the history, whatever the oracle; it never panics; when it succeeds its value
    is `stripVal` -/
theorem strip_spec (F : Nat → Bool) (row : Nat) :
    ∀ (is : List Nat) (s : St) (d : Nat),
      core (strip F row is s d).1 = core s ∧
      ((strip F row is s d).2.2 = .ok → (strip F row is s d).2.1 = stripVal row s.done s.ds is d) ∧
      (strip F row is s d).2.2 ≠ .panic := by
  intro is
  induction is with
  | nil => intro s d; simp [strip, stripVal]
  | cons i is ih =>
    intro s d
    simp only [strip, stripVal]
    by_cases hc : (row.testBit i && s.done.testBit i) = true
    · simp only [hc, ↓reduceIte, call]
      by_cases hF : F s.calls = true
      · simp [hF]
      · have := ih { s with log := Call.dGet i :: s.log, calls := s.calls + 1 } (d ^^^ get s.ds i)
        simpa [hF] using this
    · simp only [hc]
      exact ih s d

theorem strip_noFault_ok (row : Nat) :
    ∀ (is : List Nat) (s : St) (d : Nat), (strip noFault row is s d).2.2 = .ok := by
  intro is
  induction is with
  | nil => intro s d; rfl
  | cons i is ih =>
    intro s d
    simp only [strip, call_noFault]
    split
    · simp [ih]
    · exact ih s d

/-! ## elim -/

theorem elim_congr :
    ∀ (n : Nat) (a b : St) (row data : Nat), Eqv a b →
      PEqv (elim noFault n a row data) (elim noFault n b row data) := by
  intro n
  induction n with
  | zero => intro a b row data h; exact ⟨rfl, h⟩
  | succ wh ih =>
    intro a b row data h
    obtain ⟨h1, h2, h3, h4, h5, h6, h7, h8⟩ := h
    simp only [elim, call_noFault, h5, h7, h8]
    by_cases hr : row.testBit wh = true
    · by_cases hu : b.used.testBit wh = true
      · simp only [hr, hu, Bool.and_self, ↓reduceIte, Bool.not_true, Bool.false_eq_true]
        apply ih
        exact ⟨h1, h2, h3, h4, rfl, h6, h7, h8⟩
      · simp only [hr, hu, Bool.and_false, Bool.false_eq_true, ↓reduceIte, Bool.not_true]
        refine ⟨rfl, h1, h2, h3, h4, ?_, h6, ?_, ?_⟩
        · simp
        · intro k; simp [get_cons, h7]
        · intro k; simp [get_cons, h8]
    · simp only [hr, Bool.false_and, Bool.false_eq_true, ↓reduceIte]
      apply ih
      exact ⟨h1, h2, h3, h4, h5, h6, h7, h8⟩

/-! ## handleParity -/

theorem strip_noFault (row : Nat) (is : List Nat) (s : St) (d : Nat) :
    ∃ s1, strip noFault row is s d = (s1, stripVal row s.done s.ds is d, .ok) ∧ core s1 = core s := by
  have h := strip_spec noFault row is s d
  have hok := strip_noFault_ok row is s d
  refine ⟨(strip noFault row is s d).1, ?_, h.1⟩
  have hv := h.2.1 hok
  rw [← hv, ← hok]

theorem handleParity_congr {a b : St} (row data : Nat) (h : Eqv a b) :
    PEqv (handleParity noFault a row data) (handleParity noFault b row data) := by
  obtain ⟨a1, ha, hca⟩ := strip_noFault row (List.range a.n) a data
  obtain ⟨b1, hb, hcb⟩ := strip_noFault row (List.range b.n) b data
  have hab : Eqv a1 b1 := (Eqv.of_core hca).trans (h.trans (Eqv.of_core hcb).symm)
  have e1 := core_eq hca
  have e2 := core_eq hcb
  obtain ⟨h1, h2, h3, h4, h5, h6, h7, h8⟩ := h
  have hv : stripVal row a.done a.ds (List.range a.n) data = stripVal row b.done b.ds (List.range b.n) data := by
    rw [h1, h4]; exact stripVal_congr row b.done h6 _ _
  simp only [handleParity, ha, hb, hv]
  have hl : a1.l = b1.l := hab.2.2.1
  have hd : a1.done = b1.done := hab.2.2.2.1
  have hn : a1.n = b1.n := hab.1
  rw [hl, hd, hn]
  exact elim_congr _ _ _ _ _ hab

/-! ## finish -/

theorem finishInner_core (F : Nat → Bool) (U : List Nat) (r : Nat) :
    ∀ (js : List Nat) (s : St) (out : Nat), core (finishInner F U r js s out).1 = core s := by
  intro js
  induction js with
  | nil => intro s out; rfl
  | cons j js ih =>
    intro s out
    simp only [finishInner]
    split
    · split
      · rfl
      · simp only [call]
        by_cases hF : F s.calls = true
        · simp [hF]
        · simp [hF, ih]
    · exact ih s out

theorem finishInner_congr (U : List Nat) (r : Nat) :
    ∀ (js : List Nat) (a b : St) (out : Nat), Eqv a b →
      PEqv (finishInner noFault U r js a out) (finishInner noFault U r js b out) := by
  intro js
  induction js with
  | nil => intro a b out h; exact ⟨rfl, h⟩
  | cons j js ih =>
    intro a b out h
    simp only [finishInner, call_noFault]
    split
    · split
      · exact ⟨rfl, h⟩
      · simp only [↓reduceIte, h.2.2.2.2.2.1]
        exact ih _ _ _ h
    · exact ih _ _ _ h

/-- `finish` never changes the scalars and bit sets, whatever the oracle -/
theorem finishOuter_scalars (F : Nat → Bool) (U : List Nat) :
    ∀ (is : List Nat) (s : St),
      (finishOuter F U is s).1.n = s.n ∧ (finishOuter F U is s).1.bs = s.bs ∧
      (finishOuter F U is s).1.l = s.l ∧ (finishOuter F U is s).1.done = s.done ∧
      (finishOuter F U is s).1.used = s.used := by
  intro is
  induction is with
  | nil => intro s; simp [finishOuter]
  | cons i is ih =>
    intro s
    simp only [finishOuter]
    dsimp +instances only [call]
    by_cases h1 : F s.calls = true
    · simp [h1]
    · by_cases h2 : F (s.calls + 1) = true
      · simp [h1, h2]
      · simp +instances only [h1, h2, Bool.not_false, Bool.not_true, Bool.false_eq_true, ↓reduceIte]
        generalize hx : finishInner F U _ _ _ _ = x
        have hc := finishInner_core F U (get s.ms i) (List.range i)
          { s with log := Call.mRow i :: Call.pGet i :: s.log, calls := s.calls + 1 + 1 } (get s.ps i)
        rw [hx] at hc
        obtain ⟨s3, out, o3⟩ := x
        have e := core_eq hc
        simp only at e
        cases o3 with
        | ok =>
          simp only
          cases U[i]? with
          | none => simp [e]
          | some f =>
            simp only
            by_cases h4 : F s3.calls = true
            · simp [h4, e]
            · simp only [h4, Bool.not_false, Bool.not_true, Bool.false_eq_true, ↓reduceIte]
              have := ih { s3 with log := Call.dStore f out :: s3.log, calls := s3.calls + 1,
                                   ds := (f, out) :: s3.ds }
              simpa [e] using this
        | err e' => simp [e]
        | panic => simp [e]

theorem finishOuter_congr (U : List Nat) :
    ∀ (is : List Nat) (a b : St), Eqv a b →
      PEqv (finishOuter noFault U is a) (finishOuter noFault U is b) := by
  intro is
  induction is with
  | nil => intro a b h; exact ⟨rfl, h⟩
  | cons i is ih =>
    intro a b h
    simp only [finishOuter, call_noFault, Bool.not_true, Bool.false_eq_true, ↓reduceIte]
    have hi := finishInner_congr U (get a.ms i) (List.range i)
      { a with log := Call.mRow i :: Call.pGet i :: a.log, calls := a.calls + 1 + 1 }
      { b with log := Call.mRow i :: Call.pGet i :: b.log, calls := b.calls + 1 + 1 } (get a.ps i) h
    rw [h.2.2.2.2.2.2.2 i, h.2.2.2.2.2.2.1 i] at hi ⊢
    generalize finishInner noFault U _ _ { a with log := _, calls := _ } _ = x at hi ⊢
    generalize finishInner noFault U _ _ { b with log := _, calls := _ } _ = y at hi ⊢
    obtain ⟨s3, out, o3⟩ := x
    obtain ⟨t3, out', o3'⟩ := y
    obtain ⟨he, hs⟩ := hi
    simp only [Prod.mk.injEq] at he
    obtain ⟨rfl, rfl⟩ := he
    cases o3 with
    | ok =>
      simp only
      cases U[i]? with
      | none => exact ⟨rfl, hs⟩
      | some f =>
        simp only
        apply ih
        obtain ⟨h1, h2, h3, h4, h5, h6, h7, h8⟩ := hs
        refine ⟨h1, h2, h3, h4, h5, ?_, h7, h8⟩
        intro k; simp [get_cons, h6]
    | err e' => exact ⟨rfl, hs⟩
    | panic => exact ⟨rfl, hs⟩

theorem finish_congr {a b : St} (h : Eqv a b) : PEqv (finish noFault a) (finish noFault b) := by
  unfold finish
  rw [h.1, h.2.2.1, h.2.2.2.1]
  exact finishOuter_congr _ _ _ _ h

theorem finish_isComplete (F : Nat → Bool) (s : St) : isComplete (finish F s).1 = isComplete s := by
  obtain ⟨h1, _, h3, h4, h5⟩ := finishOuter_scalars F (unknowns s.done s.n) (List.range s.l) s
  exact isComplete_congr h3 h1 h4 h5

end Fuota.Fault
