import Fuota.Lemmas.NoPanicUpd
/-!
# `start_update` and `try_recover` on arbitrary flash contents
-/
namespace Fuota.NoPanic
open Fuota.Nor Fuota.Fs Fuota.Layout Fuota.Updater

theorem reasonablySized_error {slotSize sz n : Nat} {e : MErr} (h : reasonablySized slotSize sz n = .error e) :
    e ≠ .panic := by
  unfold reasonablySized at h
  repeat' split at h
  all_goals cases h
  all_goals decide

theorem reasonablySized_ok {slotSize sz n : Nat} (h : reasonablySized slotSize sz n = .ok ()) :
    1 ≤ n ∧ n ≤ MAX_SEGMENTS ∧ 1 ≤ sz ∧ sz ≤ MAX_SEGMENT_SIZE := by
  unfold reasonablySized at h
  repeat' split at h
  all_goals try cases h
  all_goals omega

/-- an accepted geometry leaves room for at least one data byte behind the header area -/
theorem reasonablySized_room {slotSize sz n : Nat} (h : reasonablySized slotSize sz n = .ok ()) :
    17408 < slotSize := by
  obtain ⟨h1, _, h3, _⟩ := reasonablySized_ok h
  unfold reasonablySized at h
  repeat' split at h
  all_goals try cases h
  rename_i hc
  have : 1 ≤ sz * n := Nat.mul_pos h3 h1
  simp only [satMulU32, DATA_REGION_OFFSET, Consts.DATA_REGION_OFFSET] at hc
  omega

theorem np_setLayout (s : Slot) (nseg segsz : Nat) : NP (s.setLayout nseg segsz) := by
  unfold Slot.setLayout; np_auto [np_writeWord]

theorem startUpdate_spec (nslots slotSize sz n : Nat) {d : Dev} (hb : 0 < d.flash.block)
    (hs : slotSize % d.flash.block = 0) {Q : Upd → Dev → Prop}
    (h : ∀ u d', u.l = 0 → u.n = n → u.bs = sz → 1 ≤ n → n ≤ MAX_SEGMENTS → Q u d') :
    wp (startUpdate nslots slotSize sz n) Q d := by
  unfold startUpdate
  dsimp only
  split
  · rename_i e he
    rw [wp_bind]; exact reasonablySized_error he
  · rename_i he
    obtain ⟨h1, h2, _, _⟩ := reasonablySized_ok he
    rw [wp_bind]
    apply allocSlotpair_spec _ _ hb hs
    intro a b d1 _
    dsimp only [Slot.setKind]
    rw [wp_bind]
    apply (np_writeWord _ _ _).wp; intro _ d2
    rw [wp_bind]
    apply (np_setLayout _ _ _).wp; intro fw d3
    rw [wp_bind]
    apply (np_writeWord _ _ _).wp; intro _ d4
    rw [wp_bind]
    apply (np_setLayout _ _ _).wp; intro par d5
    rw [wp_pure]
    exact h _ _ rfl rfl rfl h1 h2

/-! ## partial correctness (no claim about panics): what a successful run returns -/

def wpo {α} (x : M α) (Q : α → Dev → Prop) (d : Dev) : Prop := ∀ a d', run' x d = (.ok a, d') → Q a d'

theorem wpo_any {α} {x : M α} {Q : α → Dev → Prop} {d : Dev} (h : ∀ a d', Q a d') : wpo x Q d :=
  fun a d' _ => h a d'

theorem wpo_bind {α β} {x : M α} {f : α → M β} {Q : β → Dev → Prop} {d : Dev}
    (h : wpo x (fun a d' => wpo (f a) Q d') d) : wpo (x >>= f) Q d := by
  intro b d'' hr
  rw [run'_bind] at hr
  cases hx : run' x d with
  | mk r d' =>
    rw [hx] at hr
    cases r with
    | ok a => exact h a d' hx b d'' hr
    | error e => cases hr

theorem wpo_throw {α} {e : MErr} {Q : α → Dev → Prop} {d : Dev} : wpo (throw e : M α) Q d := by
  intro a d' hr; cases hr

theorem wpo_pure {α} {a : α} {Q : α → Dev → Prop} {d : Dev} (h : Q a d) : wpo (pure a : M α) Q d := by
  intro a' d' hr; cases hr; exact h

/-- the updater `start_update` returns, on any device -/
theorem startUpdate_result (nslots slotSize sz n : Nat) (d : Dev) :
    wpo (startUpdate nslots slotSize sz n) (fun u _ => u.l = 0 ∧ u.n = n ∧ u.bs = sz ∧ 1 ≤ n ∧ n ≤ MAX_SEGMENTS) d := by
  unfold startUpdate
  dsimp only
  split
  · exact wpo_bind (fun _ _ hr => by cases hr)
  · rename_i he
    obtain ⟨h1, h2, _, _⟩ := reasonablySized_ok he
    apply wpo_bind; apply wpo_any; intro p d1
    obtain ⟨fw, par⟩ := p
    dsimp only
    apply wpo_bind; apply wpo_any; intro _ d2
    apply wpo_bind; apply wpo_any; intro fw' d3
    apply wpo_bind; apply wpo_any; intro _ d4
    apply wpo_bind; apply wpo_any; intro par' d5
    exact wpo_pure ⟨rfl, rfl, rfl, h1, h2⟩

/-! ## recovery -/

theorem slot_disjoint {i j S x : Nat} (hij : i ≠ j) (h1 : j * S ≤ x) (h2 : x < j * S + S) :
    x < i * S ∨ i * S + S ≤ x := by
  rcases Nat.lt_or_gt_of_ne hij with hlt | hgt
  · have := Nat.mul_le_mul_right S (show i + 1 ≤ j from hlt)
    rw [Nat.add_mul] at this; omega
  · have := Nat.mul_le_mul_right S (show j + 1 ≤ i from hgt)
    rw [Nat.add_mul] at this; omega

/-- the frame both remediation passes keep: geometry unchanged, slot `skipB` untouched -/
def Frame (slotSize skipB : Nat) (d d' : Dev) : Prop :=
  d'.flash.block = d.flash.block ∧
  ∀ x, skipB * slotSize ≤ x → x < skipB * slotSize + slotSize → d'.flash.byte x = d.flash.byte x

theorem Frame.refl (slotSize skipB : Nat) (d : Dev) : Frame slotSize skipB d d := ⟨rfl, fun _ _ _ => rfl⟩

theorem Frame.trans {slotSize skipB : Nat} {d d1 d2 : Dev} (h1 : Frame slotSize skipB d d1)
    (h2 : Frame slotSize skipB d1 d2) : Frame slotSize skipB d d2 :=
  ⟨h2.1.trans h1.1, fun x hx1 hx2 => (h2.2 x hx1 hx2).trans (h1.2 x hx1 hx2)⟩

theorem Frame.of_slotW {slotSize skipB i : Nat} {d d1 : Dev} (hi : i ≠ skipB)
    (w : SlotW { idx := i, size := slotSize } d.flash d1.flash) : Frame slotSize skipB d d1 :=
  ⟨w.1, fun y hy1 hy2 => w.2.2 y (slot_disjoint hi hy1 hy2)⟩

/-- first pass: marks only -/
theorem remediateAbort_spec (slotSize skipA skipB : Nat) (ih : List (Nat × Header)) {d : Dev}
    (hsz : 28 ≤ slotSize) {Q : Unit → Dev → Prop} (h : ∀ d', Frame slotSize skipB d d' → Q () d') :
    wp (remediateAbort slotSize skipA skipB ih) Q d := by
  induction ih generalizing d Q with
  | nil => simp only [remediateAbort, wp_pure]; exact h d (Frame.refl _ _ _)
  | cons p rest ih =>
    obtain ⟨i, hd⟩ := p
    simp only [remediateAbort]
    split
    · exact ih h
    · rename_i hne
      have hi : i ≠ skipB := fun e => hne (Or.inr e)
      split
      · rw [wp_bind]
        apply writeWord_slot _ _ _ (by simp only [Consts.EXT_OFFSET]; omega)
        intro d1 w
        apply ih
        intro d' f'
        exact h d' ((Frame.of_slotW hi w).trans f')
      · exact ih h

/-- second pass: erases only -/
theorem remediateErase_spec (slotSize skipA skipB : Nat) (ih : List (Nat × Header)) {d : Dev}
    (hb : 0 < d.flash.block) (hs : slotSize % d.flash.block = 0) {Q : Unit → Dev → Prop}
    (h : ∀ d', Frame slotSize skipB d d' → Q () d') :
    wp (remediateErase slotSize skipA skipB ih) Q d := by
  induction ih generalizing d Q with
  | nil => simp only [remediateErase, wp_pure]; exact h d (Frame.refl _ _ _)
  | cons p rest ih =>
    obtain ⟨i, hd⟩ := p
    simp only [remediateErase]
    split
    · exact ih hb hs h
    · rename_i hne
      have hi : i ≠ skipB := fun e => hne (Or.inr e)
      have key : wp ((Slot.clear { idx := i, size := slotSize }) >>= fun _ =>
          remediateErase slotSize skipA skipB rest) Q d := by
        rw [wp_bind]
        apply clear_spec _ hb hs
        intro d1 w
        apply ih (by rw [w.1]; exact hb) (by rw [w.1]; exact hs)
        intro d' f'
        exact h d' ((Frame.of_slotW hi w).trans f')
      split
      · exact key
      · exact key
      · exact ih hb hs h

/-- `remediate` (both passes) keeps the geometry and does not touch the two slots it skips -/
theorem remediate_spec (slotSize skipA skipB : Nat) (ih : List (Nat × Header)) {d : Dev}
    (hb : 0 < d.flash.block) (hs : slotSize % d.flash.block = 0) (hsz : 28 ≤ slotSize) {Q : Unit → Dev → Prop}
    (h : ∀ d', d'.flash.block = d.flash.block →
      (∀ x, skipB * slotSize ≤ x → x < skipB * slotSize + slotSize → d'.flash.byte x = d.flash.byte x) → Q () d') :
    wp (remediate slotSize skipA skipB ih) Q d := by
  unfold remediate
  rw [wp_bind]
  apply remediateAbort_spec _ _ _ _ hsz
  intro d1 f1
  apply remediateErase_spec _ _ _ _ (by rw [f1.1]; exact hb) (by rw [f1.1]; exact hs)
  intro d2 f2
  exact h d2 (f1.trans f2).1 (f1.trans f2).2

theorem np_loadUsed (par : Slot) (mo : Nat) (is : List Nat) (used : Nat) : NP (loadUsed par mo is used) := by
  induction is generalizing used with
  | nil => exact np_pure _
  | cons i is ih => unfold loadUsed; np_auto [np_readRaw, ih]

/-- both headers `try_recover_inner` selects come from the header list -/
theorem twoNewest_mem (ih : List (Nat × Header)) :
    (∀ p, (twoNewest ih).1 = some p → p ∈ ih) ∧ (∀ p, (twoNewest ih).2 = some p → p ∈ ih) := by
  unfold twoNewest
  suffices H : ∀ (L : List (Nat × Header)) (acc : Option (Nat × Header) × Option (Nat × Header)),
      (∀ p ∈ L, p ∈ ih) → ((∀ p, acc.1 = some p → p ∈ ih) ∧ (∀ p, acc.2 = some p → p ∈ ih)) →
      ((∀ p, (L.foldl (fun (acc : Option (Nat × Header) × Option (Nat × Header)) p =>
          match acc.1 with
          | none => (some p, acc.2)
          | some nw =>
            if nw.2.seq < p.2.seq then (some p, some nw)
            else match acc.2 with
              | none => (acc.1, some p)
              | some sn => if sn.2.seq < p.2.seq then (acc.1, some p) else acc) acc).1 = some p → p ∈ ih) ∧
       (∀ p, (L.foldl (fun (acc : Option (Nat × Header) × Option (Nat × Header)) p =>
          match acc.1 with
          | none => (some p, acc.2)
          | some nw =>
            if nw.2.seq < p.2.seq then (some p, some nw)
            else match acc.2 with
              | none => (acc.1, some p)
              | some sn => if sn.2.seq < p.2.seq then (acc.1, some p) else acc) acc).2 = some p → p ∈ ih)) by
    exact H ih (none, none) (fun _ h => h) ⟨by simp, by simp⟩
  intro L
  induction L with
  | nil => intro acc _ hacc; simpa using hacc
  | cons q L ihL =>
    intro acc hL hacc
    simp only [List.foldl_cons]
    apply ihL _ (fun p hp => hL p (by simp [hp]))
    have hq : q ∈ ih := hL q (by simp)
    obtain ⟨a1, a2⟩ := acc
    obtain ⟨h1, h2⟩ := hacc
    simp only at h1 h2
    cases a1 with
    | none => exact ⟨by simp [hq], by simpa using h2⟩
    | some nw =>
      simp only
      split
      · exact ⟨by simp [hq], by simpa using h1⟩
      · cases a2 with
        | none => exact ⟨by simpa using h1, by simp [hq]⟩
        | some sn =>
          simp only
          split
          · exact ⟨by simpa using h1, by simp [hq]⟩
          · exact ⟨by simpa using h1, by simpa using h2⟩

/-- what `try_recover_inner` guarantees about the updater it rebuilds from flash, whatever the flash contains -/
def Recovered (u : Upd) : Prop :=
  UpdWF u ∧ UpdSized u ∧ u.done < 2 ^ u.n ∧ u.maxL ≤ VBITS ∧
  u.l = (if u.used ≠ 0 then (Recon.unknowns u.done u.n).length else 0)

theorem tryRecoverInner_spec (nslots slotSize : Nat) {d : Dev} (hb : 0 < d.flash.block)
    (hs : slotSize % d.flash.block = 0) {Q : Option Upd → Dev → Prop}
    (h : ∀ r d', (∀ u, r = some u → Recovered u) → Q r d') :
    wp (tryRecoverInner nslots slotSize) Q d := by
  have hnone : ∀ d', Q none d' := fun d' => h none d' (by intro u hu; cases hu)
  unfold tryRecoverInner
  rw [wp_bind]
  apply loadHeaders_spec
  dsimp only
  split
  · rename_i nw sn heq
    repeat (split; exact hnone d)
    · rename_i hvb _ hok
      obtain ⟨hn1, hn2, _, _⟩ := reasonablySized_ok hok
      have hsz := reasonablySized_room hok
      have hmem := (twoNewest_mem _).2 sn (by rw [heq])
      obtain ⟨_, hhdr⟩ := mem_indexed_hdrs hmem
      have hnseg := hdrAt_nseg hhdr
      rw [wp_bind]
      apply remediate_spec _ _ _ _ hb hs (by omega)
      intro d1 hb1 hfr
      rw [wp_bind]
      apply loadStatusArray_spec
      intro done hdone
      have e : nsegAt d1.flash (slotSize * sn.1 + Consts.NSEG_OFFSET) = sn.2.n := by
        rw [Nat.mul_comm, ← hnseg]
        apply nsegAt_congr
        intro x hx1 hx2
        apply hfr <;> simp only [Consts.NSEG_OFFSET] at * <;> omega
      dsimp only at hdone
      rw [e] at hdone
      rw [wp_bind]
      apply (np_loadUsed _ _ _ _).wp
      intro used d2
      have hcnt : popcount done MAX_SEGMENTS ≤ sn.2.n := popcount_le_of_lt hdone _
      split
      · omega
      · generalize hl : (if used ≠ 0 then sn.2.n - popcount done MAX_SEGMENTS else 0) = l
        split
        · exact hnone d2
        · rename_i hle
          rw [wp_pure]
          apply h
          intro u hu
          cases hu
          have hl_eq := recovered_l_eq hdone hn2
          have hl' : l = if used ≠ 0 then (Recon.unknowns done sn.2.n).length else 0 := by
            rw [← hl]; split <;> omega
          refine ⟨⟨by simp only; omega, ?_, ?_⟩, ⟨hn1, hn2⟩, hdone, by simp only; omega, hl'⟩
          · simp only; omega
          · simp only; rw [hl']; split <;> omega
  · exact hnone d

theorem tryRecover_spec (nslots slotSize : Nat) {d : Dev} (hb : 0 < d.flash.block)
    (hs : slotSize % d.flash.block = 0) :
    wp (tryRecover nslots slotSize) (fun r _ => ∀ u, r = some u → Recovered u) d := by
  unfold tryRecover
  rw [wp_bind]
  apply tryRecoverInner_spec _ _ hb hs
  intro r d' hr
  dsimp only
  split
  · rw [wp_bind]
    apply (np_cancelAll _ _).wp
    intro _ d''
    exact hr
  · exact hr

end Fuota.NoPanic
