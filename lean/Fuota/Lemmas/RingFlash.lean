import Fuota.Lemmas.CrashStart
import Fuota.Lemmas.RefineStartH
import Fuota.Lemmas.RingSteps
/-!
# Ring ↔ flash, part 1: the headers `load_headers` reads, under erases and header-word programs
-/
open Fuota.Nor Fuota.Fs Fuota.Layout Fuota.Updater Fuota.Slots
namespace Fuota.RingFlash
open Fuota.Crash (Img upd ffImg startImg)



/-- the headers `load_headers` returns on a live device with flash `f` -/
abbrev hdrsOf (f : Flash) (n S : Nat) : Hdrs := NoPanic.hdrs f n S

theorem hdrsOf_length (f : Flash) (n S : Nat) : (hdrsOf f n S).length = n := by simp [hdrsOf, NoPanic.hdrs]

theorem hdrsOf_get (f : Flash) (n S i : Nat) (hi : i < n) : (hdrsOf f n S)[i]? = some (NoPanic.hdrAt f (i * S)) := by
  simp [hdrsOf, NoPanic.hdrs, List.getElem?_map, List.getElem?_range hi]

/-- slot `i` now reads `v`, every other slot reads as before -/
theorem hdrsOf_set {f f' : Flash} {n S i : Nat} {v : Option Header} (hi : i < n)
    (hat : NoPanic.hdrAt f' (i * S) = v)
    (hother : ∀ j, j < n → j ≠ i → NoPanic.hdrAt f' (j * S) = NoPanic.hdrAt f (j * S)) :
    hdrsOf f' n S = (hdrsOf f n S).set i v := by
  apply List.ext_getElem?
  intro j
  rw [List.getElem?_set]
  by_cases hj : j < n
  · rw [hdrsOf_get f' n S j hj]
    by_cases hji : i = j
    · subst hji
      simp [hdrsOf_length, hi, hat]
    · simp only [hji, ↓reduceIte]
      rw [hdrsOf_get f n S j hj, hother j hj (fun e => hji e.symm)]
  · have h1 : (hdrsOf f' n S)[j]? = none := List.getElem?_eq_none (by rw [hdrsOf_length]; omega)
    have h2 : (hdrsOf f n S)[j]? = none := List.getElem?_eq_none (by rw [hdrsOf_length]; omega)
    have hji : ¬ i = j := by omega
    simp [h1, h2, hji]

theorem hdrsOf_same {f f' : Flash} {n S : Nat}
    (h : ∀ j, j < n → NoPanic.hdrAt f' (j * S) = NoPanic.hdrAt f (j * S)) : hdrsOf f' n S = hdrsOf f n S := by
  apply List.ext_getElem?
  intro j
  by_cases hj : j < n
  · rw [hdrsOf_get f' n S j hj, hdrsOf_get f n S j hj, h j hj]
  · rw [List.getElem?_eq_none (by rw [hdrsOf_length]; omega), List.getElem?_eq_none (by rw [hdrsOf_length]; omega)]

/-- an erased header does not parse -/
theorem hdrAt_of_hdrFF {f : Flash} {base : Nat} (h : Crash.HdrFF f base) : NoPanic.hdrAt f base = none := by
  unfold NoPanic.hdrAt
  have : f.read base Consts.SLOT_HEADER_SIZE = List.replicate 28 0xFF := by
    show f.read base 28 = _
    apply List.ext_getElem?
    intro i
    rw [FlashAdapters.getElem?_read]
    by_cases hi : i < 28
    · rw [if_pos hi, h i hi, List.getElem?_replicate, if_pos hi]
    · rw [if_neg hi, List.getElem?_replicate, if_neg hi]
  rw [this]
  decide

/-- an operation inside slot `t` does not change the header bytes of another slot -/
theorem hdrAt_frame {f : Flash} {S t j : Nat} {op : Op} (hS : 28 ≤ S) (hin : Ops.InSlot f.block S t op) (hjt : j ≠ t) :
    NoPanic.hdrAt (f.apply op) (j * S) = NoPanic.hdrAt f (j * S) := by
  apply Updater.hdrAt_congr
  intro x hx1 hx2
  apply Crash.byte_apply_untouched
  intro ht
  have hap := Crash.slots_apart S hjt
  cases op with
  | erase a =>
    obtain ⟨h1, h2⟩ := hin
    obtain ⟨h3, h4⟩ := ht
    omega
  | program a bs =>
    obtain ⟨h1, h2⟩ := hin
    obtain ⟨h3, h4⟩ := ht
    omega



theorem applyAll_block (f : Flash) (ops : List Op) : (f.applyAll ops).block = f.block := Ops.applyAll_block f ops

/-- operations inside slot `t` leave the headers of the other slots alone -/
theorem hdrAt_frame_all {S t j : Nat} (hS : 28 ≤ S) (hjt : j ≠ t) : ∀ (ops : List Op) (f : Flash),
    (∀ op ∈ ops, Ops.InSlot f.block S t op) → NoPanic.hdrAt (f.applyAll ops) (j * S) = NoPanic.hdrAt f (j * S) := by
  intro ops
  induction ops with
  | nil => intro f _; rfl
  | cons op ops ih =>
    intro f h
    show NoPanic.hdrAt ((f.apply op).applyAll ops) (j * S) = _
    rw [ih (f.apply op) (fun o ho => by rw [Ops.apply_block]; exact h o (List.mem_cons_of_mem _ ho))]
    exact hdrAt_frame hS (h op List.mem_cons_self) hjt

theorem take_eraseOps (B : Nat) : ∀ (k j cur : Nat), (Ops.eraseOps cur B k).take j = Ops.eraseOps cur B (min j k) := by
  intro k
  induction k with
  | zero => intro j cur; simp [Ops.eraseOps]
  | succ k ih =>
    intro j cur
    cases j with
    | zero => simp [Ops.eraseOps]
    | succ j =>
      rw [show min (j + 1) (k + 1) = min j k + 1 by omega]
      simp only [Ops.eraseOps, List.take_succ_cons]
      rw [ih]

theorem eraseOps_inSlot {B S t : Nat} : ∀ (k i : Nat), (i + k) * B ≤ S →
    ∀ op ∈ Ops.eraseOps (t * S + i * B) B k, Ops.InSlot B S t op := by
  intro k
  induction k with
  | zero => intro i _ op hop; cases hop
  | succ k ih =>
    intro i h op hop
    simp only [Ops.eraseOps, List.mem_cons] at hop
    rcases hop with rfl | hop
    · have : (i + (k + 1)) * B = i * B + k * B + B := by rw [Nat.add_mul, Nat.add_mul]; omega
      exact ⟨by omega, by omega⟩
    · have e : t * S + i * B + B = t * S + (i + 1) * B := by rw [Nat.add_mul]; omega
      rw [e] at hop
      exact ih (i + 1) (by rw [show i + 1 + k = i + (k + 1) by omega]; exact h) op hop

theorem hdrFF_eraseOps {B : Nat} : ∀ (k cur : Nat) (f : Flash) (base : Nat), Crash.HdrFF f base →
    Crash.HdrFF (f.applyAll (Ops.eraseOps cur B k)) base := by
  intro k
  induction k with
  | zero => intro _ _ _ h; exact h
  | succ k ih =>
    intro cur f base h
    exact ih _ _ _ (Crash.hdrFF_erase cur h)

/-- **the erase phase of `Slot::clear`**: after the first `j ≥ 1` block erases of slot `t` the header of slot `t`
    is erased, the other headers are untouched -/
theorem clear_prefix {f : Flash} {n S B t : Nat} (hB : f.block = B) (h28 : 28 ≤ B) (hS : 28 ≤ S)
    (hdiv : S % B = 0) (ht : t < n) (j : Nat) :
    hdrsOf (f.applyAll ((Ops.eraseOps (t * S) B (S / B)).take j)) n S =
      if j = 0 then hdrsOf f n S else (hdrsOf f n S).set t none := by
  have hm : S / B * B = S := by
    have := Nat.div_add_mod S B; rw [Nat.mul_comm]; omega
  have hmpos : 1 ≤ S / B := by
    apply Nat.pos_of_ne_zero; intro e; rw [e] at hm; omega
  rw [take_eraseOps]
  by_cases hj : j = 0
  · subst hj; simp [Ops.eraseOps, Flash.applyAll]
  · rw [if_neg hj]
    have hk : 1 ≤ min j (S / B) := by omega
    have hin : ∀ op ∈ Ops.eraseOps (t * S) B (min j (S / B)), Ops.InSlot f.block S t op := by
      have := eraseOps_inSlot (B := B) (S := S) (t := t) (min j (S / B)) 0 (by
        rw [Nat.zero_add]
        exact Nat.le_trans (Nat.mul_le_mul_right B (Nat.min_le_right _ _)) (Nat.le_of_eq hm))
      rw [hB]
      simpa using this
    apply hdrsOf_set ht
    · apply hdrAt_of_hdrFF
      obtain ⟨k', hk'⟩ : ∃ k', min j (S / B) = k' + 1 := ⟨min j (S / B) - 1, by omega⟩
      rw [hk']
      show Crash.HdrFF ((f.apply (.erase (t * S))).applyAll (Ops.eraseOps (t * S + B) B k')) (t * S)
      exact hdrFF_eraseOps _ _ _ _ (Crash.hdrFF_erase_first _ (by rw [hB]; exact h28))
    · intro i _ hit
      exact hdrAt_frame_all hS hit _ f hin




theorem hdrAt_of_img {f : Flash} {base : Nat} {img : Nat → Nat} (h : Img f base img) :
    NoPanic.hdrAt f base = (parseHeader C ((List.range 28).map img)).map (·.1) := by
  unfold NoPanic.hdrAt
  have : f.read base Consts.SLOT_HEADER_SIZE = (List.range 28).map img := by
    show (List.range 28).map (fun i => f.byte (base + i)) = _
    apply List.map_congr_left
    intro j hj
    exact h j (List.mem_range.1 hj)
  rw [this]

/-- while the size word is still erased the header does not parse -/
theorem parse_none_of_size_ff (img : Nat → Nat) (h8 : img 8 = 255) (h9 : img 9 = 255) (h10 : img 10 = 255)
    (h11 : img 11 = 255) : parseHeader C ((List.range 28).map img) = none := by
  cases hp : parseHeader C ((List.range 28).map img) with
  | none => rfl
  | some r =>
    exfalso
    obtain ⟨hd, rest⟩ := r
    obtain ⟨w0, w1, w2, w3, w4, w5, w6, hw, _, _, hsz, _⟩ := (C11.parseHeader_eq_some _ _ _ _).1 hp
    rw [NoPanic.range28] at hw
    simp only [List.map, words7, takeU32, Option.pure_def, Option.bind_eq_bind, Option.bind_some, Option.some.injEq,
      Prod.mk.injEq] at hw
    obtain ⟨⟨_, _, e2, _⟩, _⟩ := hw
    rw [← e2, h8, h9, h10, h11] at hsz
    have := (C11.parseSize_some _ _ _ hsz).2.2
    revert this
    decide

theorem img_size_ff_seq (q : Nat) (j : Nat) (h1 : 8 ≤ j) : upd ffImg 4 (writeU32 q) j = 255 := by
  rw [Crash.upd_out _ _ _ _ (by rw [Crash.writeU32_length]; omega)]; rfl




theorem map_startImg (q k n z : Nat) :
    (List.range 28).map (startImg q k n z) =
      writeU32 k ++ writeU32 q ++ writeU32 z ++ writeU32 n ++ List.replicate 12 255 := by
  rw [NoPanic.range28]
  simp [startImg, upd, ffImg, writeU32, List.replicate]

/-- the fresh header `start_update` leaves in a slot -/
def freshHdr (k : Kind) (q z n : Nat) : Header :=
  { kind := k, seq := q, size := z, n := n, ext := .inProgress, ist := .inProgress, boot := .untested }

theorem parse_startImg (k : Kind) (q z n : Nat) (wf : (freshHdr k q z n).WF Codec.pinned) :
    (parseHeader C ((List.range 28).map (startImg q (encKind C k) n z))).map (·.1) = some (freshHdr k q z n) := by
  rw [map_startImg]
  have e : C = Codec.pinned := C11.new_codec_pinned
  have henc : writeU32 (encKind C k) ++ writeU32 q ++ writeU32 z ++ writeU32 n ++ List.replicate 12 255 =
      encodeHeader Codec.pinned (freshHdr k q z n) := by
    rw [e]
    show _ = writeU32 (encKind Codec.pinned k) ++ writeU32 q ++ writeU32 z ++ writeU32 n ++ writeU32 4294967295 ++
      writeU32 4294967295 ++ writeU32 4294967295
    rw [Updater.writeU32_ff]
    simp only [List.append_assoc]
    rfl
  rw [henc, e]
  have := C11.encode_parse (freshHdr k q z n) [] wf
  rw [List.append_nil] at this
  rw [this]; rfl



theorem hdrsOf_set2 {f f' : Flash} {n S a b : Nat} {va vb : Option Header} (ha : a < n) (hb : b < n)
    (hata : NoPanic.hdrAt f' (a * S) = va) (hatb : NoPanic.hdrAt f' (b * S) = vb)
    (hother : ∀ j, j < n → j ≠ a → j ≠ b → NoPanic.hdrAt f' (j * S) = NoPanic.hdrAt f (j * S)) :
    hdrsOf f' n S = ((hdrsOf f n S).set a va).set b vb := by
  apply List.ext_getElem?
  intro j
  rw [List.getElem?_set, List.getElem?_set]
  by_cases hj : j < n
  · rw [hdrsOf_get f' n S j hj]
    by_cases hjb : b = j
    · subst hjb; simp [hdrsOf_length, hb, hatb]
    · by_cases hja : a = j
      · subst hja; simp [hdrsOf_length, ha, hata, hjb]
      · simp only [hjb, hja, ↓reduceIte]
        rw [hdrsOf_get f n S j hj, hother j hj (fun e => hja e.symm) (fun e => hjb e.symm)]
  · have h1 : (hdrsOf f' n S)[j]? = none := List.getElem?_eq_none (by rw [hdrsOf_length]; omega)
    have h2 : (hdrsOf f n S)[j]? = none := List.getElem?_eq_none (by rw [hdrsOf_length]; omega)
    have hja : ¬ a = j := by omega
    have hjb : ¬ b = j := by omega
    simp [h1, h2, hja, hjb]

/-- operations inside slots `a` or `b` leave the headers of the other slots alone -/
theorem hdrAt_frame_two {S a b j : Nat} (hS : 28 ≤ S) (hja : j ≠ a) (hjb : j ≠ b) : ∀ (ops : List Op) (f : Flash),
    (∀ op ∈ ops, Ops.InSlot f.block S a op ∨ Ops.InSlot f.block S b op) →
    NoPanic.hdrAt (f.applyAll ops) (j * S) = NoPanic.hdrAt f (j * S) := by
  intro ops
  induction ops with
  | nil => intro f _; rfl
  | cons op ops ih =>
    intro f h
    show NoPanic.hdrAt ((f.apply op).applyAll ops) (j * S) = _
    rw [ih (f.apply op) (fun o ho => by rw [Ops.apply_block]; exact h o (List.mem_cons_of_mem _ ho))]
    rcases h op List.mem_cons_self with h1 | h1
    · exact hdrAt_frame hS h1 hja
    · exact hdrAt_frame hS h1 hjb

/-- one header word of the slot at `A` is programmed; the slot at `B'` is tracked too -/
theorem img_step {f : Flash} {A B' S : Nat} {ia ib : Nat → Nat} (hA : Img f A ia) (hB : Img f B' ib) (off w : Nat)
    (hoff : off + 4 ≤ 28) (hS : 28 ≤ S) (hdis : A + S ≤ B' ∨ B' + S ≤ A) (hin : A + S ≤ f.size)
    (hff : ∀ j, off ≤ j → j < off + 4 → ia j = 0xFF) :
    Img (f.apply (.program (A + off) (writeU32 w))) A (upd ia off (writeU32 w)) ∧
    Img (f.apply (.program (A + off) (writeU32 w))) B' ib := by
  constructor
  · exact Crash.img_program hA off _ (by rw [Crash.writeU32_length]; omega)
      (fun j h1 h2 => hff j h1 (by rw [Crash.writeU32_length] at h2; exact h2))
      (fun j _ => Ops.writeU32_byte_lt w j)
  · apply Crash.img_other hB
    intro j hj ht
    obtain ⟨h1, h2⟩ := ht
    rw [Crash.writeU32_length] at h2
    omega

/-- the eight header programs of `start_update` -/
def hdrProgs (S sz n cap a b sa sb : Nat) : List Op :=
  [ .program (a * S + 4) (writeU32 sa), .program (b * S + 4) (writeU32 sb),
    .program (a * S + 0) (writeU32 (encKind C .firmware)),
    .program (a * S + 12) (writeU32 n), .program (a * S + 8) (writeU32 sz),
    .program (b * S + 0) (writeU32 (encKind C .parity)),
    .program (b * S + 12) (writeU32 cap), .program (b * S + 8) (writeU32 sz) ]

theorem hdrProgs_inSlot (B S sz n cap a b sa sb : Nat) (hS : 28 ≤ S) :
    ∀ op ∈ hdrProgs S sz n cap a b sa sb, Ops.InSlot B S a op ∨ Ops.InSlot B S b op := by
  intro op hop
  simp only [hdrProgs, List.mem_cons, List.not_mem_nil, or_false] at hop
  rcases hop with rfl | rfl | rfl | rfl | rfl | rfl | rfl | rfl
  · left; exact ⟨by omega, by show _ + 4 ≤ _; omega⟩
  · right; exact ⟨by omega, by show _ + 4 ≤ _; omega⟩
  · left; exact ⟨by omega, by show _ + 4 ≤ _; omega⟩
  · left; exact ⟨by omega, by show _ + 4 ≤ _; omega⟩
  · left; exact ⟨by omega, by show _ + 4 ≤ _; omega⟩
  · right; exact ⟨by omega, by show _ + 4 ≤ _; omega⟩
  · right; exact ⟨by omega, by show _ + 4 ≤ _; omega⟩
  · right; exact ⟨by omega, by show _ + 4 ≤ _; omega⟩



theorem upd_size_ff (img : Nat → Nat) (off w : Nat) (hoff : off = 0 ∨ off = 4 ∨ off = 12) (j : Nat) (h1 : 8 ≤ j)
    (h2 : j < 12) (h : img j = 255) : upd img off (writeU32 w) j = 255 := by
  rw [Crash.upd_out _ _ _ _ (by rw [Crash.writeU32_length]; omega)]; exact h

/-- **the program phase of `start_update`** on two erased slots: the firmware header appears with the fifth
    program (its size word), the parity header with the eighth -/
theorem hdrProgs_prefix {g : Flash} {n S sz nn cap a b sa sb : Nat}
    (wfA : (freshHdr .firmware sa sz nn).WF Codec.pinned) (wfB : (freshHdr .parity sb sz cap).WF Codec.pinned)
    (ha : a < n) (hb : b < n) (hab : a ≠ b) (hS : 28 ≤ S) (hinA : a * S + S ≤ g.size) (hinB : b * S + S ≤ g.size)
    (hffA : Crash.HdrFF g (a * S)) (hffB : Crash.HdrFF g (b * S)) (j : Nat) :
    hdrsOf (g.applyAll ((hdrProgs S sz nn cap a b sa sb).take j)) n S =
      if j ≤ 4 then hdrsOf g n S
      else if j ≤ 7 then (hdrsOf g n S).set a (some (freshHdr .firmware sa sz nn))
      else ((hdrsOf g n S).set a (some (freshHdr .firmware sa sz nn))).set b (some (freshHdr .parity sb sz cap)) := by
  have hdis : a * S + S ≤ b * S ∨ b * S + S ≤ a * S := Crash.slots_apart S hab
  have hdis' : b * S + S ≤ a * S ∨ a * S + S ≤ b * S := hdis.symm
  have hsz : ∀ (f : Flash) (op : Op), (f.apply op).size = f.size := fun f op => Ops.apply_size f op
  -- the nine flashes
  obtain ⟨g1, e1⟩ : ∃ g1, g1 = g.apply (.program (a * S + 4) (writeU32 sa)) := ⟨_, rfl⟩
  obtain ⟨g2, e2⟩ : ∃ g2, g2 = g1.apply (.program (b * S + 4) (writeU32 sb)) := ⟨_, rfl⟩
  obtain ⟨g3, e3⟩ : ∃ g3, g3 = g2.apply (.program (a * S + 0) (writeU32 (encKind C .firmware))) := ⟨_, rfl⟩
  obtain ⟨g4, e4⟩ : ∃ g4, g4 = g3.apply (.program (a * S + 12) (writeU32 nn)) := ⟨_, rfl⟩
  obtain ⟨g5, e5⟩ : ∃ g5, g5 = g4.apply (.program (a * S + 8) (writeU32 sz)) := ⟨_, rfl⟩
  obtain ⟨g6, e6⟩ : ∃ g6, g6 = g5.apply (.program (b * S + 0) (writeU32 (encKind C .parity))) := ⟨_, rfl⟩
  obtain ⟨g7, e7⟩ : ∃ g7, g7 = g6.apply (.program (b * S + 12) (writeU32 cap)) := ⟨_, rfl⟩
  obtain ⟨g8, e8⟩ : ∃ g8, g8 = g7.apply (.program (b * S + 8) (writeU32 sz)) := ⟨_, rfl⟩
  have z1 : g1.size = g.size := by rw [e1, hsz]
  have z2 : g2.size = g.size := by rw [e2, hsz, z1]
  have z3 : g3.size = g.size := by rw [e3, hsz, z2]
  have z4 : g4.size = g.size := by rw [e4, hsz, z3]
  have z5 : g5.size = g.size := by rw [e5, hsz, z4]
  have z6 : g6.size = g.size := by rw [e6, hsz, z5]
  have z7 : g7.size = g.size := by rw [e7, hsz, z6]
  -- the images
  have ff : ∀ j, ffImg j = 0xFF := fun _ => rfl
  have i0 : Img g (a * S) ffImg ∧ Img g (b * S) ffImg := ⟨hffA, hffB⟩
  have i1 := img_step i0.1 i0.2 4 sa (by omega) hS hdis hinA (fun j _ _ => ff j)
  rw [← e1] at i1
  have i2 := img_step i1.2 i1.1 4 sb (by omega) hS hdis' (by rw [z1]; exact hinB) (fun j _ _ => ff j)
  rw [← e2] at i2
  have i3 := img_step i2.2 i2.1 0 (encKind C .firmware) (by omega) hS hdis (by rw [z2]; exact hinA)
    (fun j h1 h2 => by rw [Crash.upd_out _ _ _ _ (by rw [Crash.writeU32_length]; omega)]; rfl)
  rw [← e3] at i3
  have i4 := img_step i3.1 i3.2 12 nn (by omega) hS hdis (by rw [z3]; exact hinA)
    (fun j h1 h2 => by
      rw [Crash.upd_out _ _ _ _ (by rw [Crash.writeU32_length]; omega),
        Crash.upd_out _ _ _ _ (by rw [Crash.writeU32_length]; omega)]; rfl)
  rw [← e4] at i4
  have i5 := img_step i4.1 i4.2 8 sz (by omega) hS hdis (by rw [z4]; exact hinA)
    (fun j h1 h2 => by
      rw [Crash.upd_out _ _ _ _ (by rw [Crash.writeU32_length]; omega),
        Crash.upd_out _ _ _ _ (by rw [Crash.writeU32_length]; omega),
        Crash.upd_out _ _ _ _ (by rw [Crash.writeU32_length]; omega)]; rfl)
  rw [← e5] at i5
  have i6 := img_step i5.2 i5.1 0 (encKind C .parity) (by omega) hS hdis' (by rw [z5]; exact hinB)
    (fun j h1 h2 => by rw [Crash.upd_out _ _ _ _ (by rw [Crash.writeU32_length]; omega)]; rfl)
  rw [← e6] at i6
  have i7 := img_step i6.1 i6.2 12 cap (by omega) hS hdis' (by rw [z6]; exact hinB)
    (fun j h1 h2 => by
      rw [Crash.upd_out _ _ _ _ (by rw [Crash.writeU32_length]; omega),
        Crash.upd_out _ _ _ _ (by rw [Crash.writeU32_length]; omega)]; rfl)
  rw [← e7] at i7
  have i8 := img_step i7.1 i7.2 8 sz (by omega) hS hdis' (by rw [z7]; exact hinB)
    (fun j h1 h2 => by
      rw [Crash.upd_out _ _ _ _ (by rw [Crash.writeU32_length]; omega),
        Crash.upd_out _ _ _ _ (by rw [Crash.writeU32_length]; omega),
        Crash.upd_out _ _ _ _ (by rw [Crash.writeU32_length]; omega)]; rfl)
  rw [← e8] at i8
  -- parsing the images
  have none_of : ∀ (f : Flash) (base : Nat) (img : Nat → Nat), Img f base img → img 8 = 255 → img 9 = 255 →
      img 10 = 255 → img 11 = 255 → NoPanic.hdrAt f base = none := by
    intro f base img hi h8 h9 h10 h11
    rw [hdrAt_of_img hi, parse_none_of_size_ff img h8 h9 h10 h11]; rfl
  have sff : ∀ q j, 8 ≤ j → upd ffImg 4 (writeU32 q) j = 255 := img_size_ff_seq
  have fwA : ∀ f, Img f (a * S) (startImg sa (encKind C .firmware) nn sz) →
      NoPanic.hdrAt f (a * S) = some (freshHdr .firmware sa sz nn) := by
    intro f hi; rw [hdrAt_of_img hi]; exact parse_startImg _ _ _ _ wfA
  have parB : ∀ f, Img f (b * S) (startImg sb (encKind C .parity) cap sz) →
      NoPanic.hdrAt f (b * S) = some (freshHdr .parity sb sz cap) := by
    intro f hi; rw [hdrAt_of_img hi]; exact parse_startImg _ _ _ _ wfB
  have hnA0 := hdrAt_of_hdrFF hffA
  have hnB0 := hdrAt_of_hdrFF hffB
  -- the other slots
  have frame : ∀ k i, i < n → i ≠ a → i ≠ b →
      NoPanic.hdrAt (g.applyAll ((hdrProgs S sz nn cap a b sa sb).take k)) (i * S) = NoPanic.hdrAt g (i * S) := by
    intro k i _ hia hib
    apply hdrAt_frame_two hS hia hib
    intro op hop
    exact hdrProgs_inSlot _ S sz nn cap a b sa sb hS op (List.mem_of_mem_take hop)
  -- unchanged so far: both slots still unparseable
  have same : ∀ k, NoPanic.hdrAt (g.applyAll ((hdrProgs S sz nn cap a b sa sb).take k)) (a * S) = none →
      NoPanic.hdrAt (g.applyAll ((hdrProgs S sz nn cap a b sa sb).take k)) (b * S) = none →
      hdrsOf (g.applyAll ((hdrProgs S sz nn cap a b sa sb).take k)) n S = hdrsOf g n S := by
    intro k h1 h2
    apply hdrsOf_same
    intro i hi
    by_cases hia : i = a
    · rw [hia, h1, hnA0]
    · by_cases hib : i = b
      · rw [hib, h2, hnB0]
      · exact frame k i hi hia hib
  have onlyA : ∀ k, NoPanic.hdrAt (g.applyAll ((hdrProgs S sz nn cap a b sa sb).take k)) (a * S) =
        some (freshHdr .firmware sa sz nn) →
      NoPanic.hdrAt (g.applyAll ((hdrProgs S sz nn cap a b sa sb).take k)) (b * S) = none →
      hdrsOf (g.applyAll ((hdrProgs S sz nn cap a b sa sb).take k)) n S =
        (hdrsOf g n S).set a (some (freshHdr .firmware sa sz nn)) := by
    intro k h1 h2
    apply hdrsOf_set ha h1
    intro i hi hia
    by_cases hib : i = b
    · rw [hib, h2, hnB0]
    · exact frame k i hi hia hib
  match j with
  | 0 => exact same 0 hnA0 hnB0
  | 1 =>
    apply same 1
    · simp only [hdrProgs, List.take_succ_cons, List.take_zero, Flash.applyAll, List.foldl_cons, List.foldl_nil]
      rw [← e1]; exact none_of _ _ _ i1.1 (sff _ 8 (by omega)) (sff _ 9 (by omega)) (sff _ 10 (by omega)) (sff _ 11 (by omega))
    · simp only [hdrProgs, List.take_succ_cons, List.take_zero, Flash.applyAll, List.foldl_cons, List.foldl_nil]
      rw [← e1]; exact none_of _ _ _ i1.2 rfl rfl rfl rfl
  | 2 =>
    apply same 2
    · simp only [hdrProgs, List.take_succ_cons, List.take_zero, Flash.applyAll, List.foldl_cons, List.foldl_nil]
      rw [← e1, ← e2]; exact none_of _ _ _ i2.2 (sff _ 8 (by omega)) (sff _ 9 (by omega)) (sff _ 10 (by omega)) (sff _ 11 (by omega))
    · simp only [hdrProgs, List.take_succ_cons, List.take_zero, Flash.applyAll, List.foldl_cons, List.foldl_nil]
      rw [← e1, ← e2]; exact none_of _ _ _ i2.1 (sff _ 8 (by omega)) (sff _ 9 (by omega)) (sff _ 10 (by omega)) (sff _ 11 (by omega))
  | 3 =>
    apply same 3
    · simp only [hdrProgs, List.take_succ_cons, List.take_zero, Flash.applyAll, List.foldl_cons, List.foldl_nil]
      rw [← e1, ← e2, ← e3]
      exact none_of _ _ _ i3.1 (upd_size_ff _ _ _ (Or.inl rfl) 8 (by omega) (by omega) (sff _ 8 (by omega)))
        (upd_size_ff _ _ _ (Or.inl rfl) 9 (by omega) (by omega) (sff _ 9 (by omega)))
        (upd_size_ff _ _ _ (Or.inl rfl) 10 (by omega) (by omega) (sff _ 10 (by omega)))
        (upd_size_ff _ _ _ (Or.inl rfl) 11 (by omega) (by omega) (sff _ 11 (by omega)))
    · simp only [hdrProgs, List.take_succ_cons, List.take_zero, Flash.applyAll, List.foldl_cons, List.foldl_nil]
      rw [← e1, ← e2, ← e3]
      exact none_of _ _ _ i3.2 (sff _ 8 (by omega)) (sff _ 9 (by omega)) (sff _ 10 (by omega)) (sff _ 11 (by omega))
  | 4 =>
    apply same 4
    · simp only [hdrProgs, List.take_succ_cons, List.take_zero, Flash.applyAll, List.foldl_cons, List.foldl_nil]
      rw [← e1, ← e2, ← e3, ← e4]
      have q : ∀ x, 8 ≤ x → x < 12 →
          upd (upd (upd ffImg 4 (writeU32 sa)) 0 (writeU32 (encKind C .firmware))) 12 (writeU32 nn) x = 255 :=
        fun x h1 h2 => upd_size_ff _ _ _ (Or.inr (Or.inr rfl)) x h1 h2
          (upd_size_ff _ _ _ (Or.inl rfl) x h1 h2 (sff _ x h1))
      exact none_of _ _ _ i4.1 (q 8 (by omega) (by omega)) (q 9 (by omega) (by omega)) (q 10 (by omega) (by omega))
        (q 11 (by omega) (by omega))
    · simp only [hdrProgs, List.take_succ_cons, List.take_zero, Flash.applyAll, List.foldl_cons, List.foldl_nil]
      rw [← e1, ← e2, ← e3, ← e4]
      exact none_of _ _ _ i4.2 (sff _ 8 (by omega)) (sff _ 9 (by omega)) (sff _ 10 (by omega)) (sff _ 11 (by omega))
  | 5 =>
    apply onlyA 5
    · simp only [hdrProgs, List.take_succ_cons, List.take_zero, Flash.applyAll, List.foldl_cons, List.foldl_nil]
      rw [← e1, ← e2, ← e3, ← e4, ← e5]; exact fwA _ i5.1
    · simp only [hdrProgs, List.take_succ_cons, List.take_zero, Flash.applyAll, List.foldl_cons, List.foldl_nil]
      rw [← e1, ← e2, ← e3, ← e4, ← e5]
      exact none_of _ _ _ i5.2 (sff _ 8 (by omega)) (sff _ 9 (by omega)) (sff _ 10 (by omega)) (sff _ 11 (by omega))
  | 6 =>
    apply onlyA 6
    · simp only [hdrProgs, List.take_succ_cons, List.take_zero, Flash.applyAll, List.foldl_cons, List.foldl_nil]
      rw [← e1, ← e2, ← e3, ← e4, ← e5, ← e6]; exact fwA _ i6.2
    · simp only [hdrProgs, List.take_succ_cons, List.take_zero, Flash.applyAll, List.foldl_cons, List.foldl_nil]
      rw [← e1, ← e2, ← e3, ← e4, ← e5, ← e6]
      exact none_of _ _ _ i6.1 (upd_size_ff _ _ _ (Or.inl rfl) 8 (by omega) (by omega) (sff _ 8 (by omega)))
        (upd_size_ff _ _ _ (Or.inl rfl) 9 (by omega) (by omega) (sff _ 9 (by omega)))
        (upd_size_ff _ _ _ (Or.inl rfl) 10 (by omega) (by omega) (sff _ 10 (by omega)))
        (upd_size_ff _ _ _ (Or.inl rfl) 11 (by omega) (by omega) (sff _ 11 (by omega)))
  | 7 =>
    apply onlyA 7
    · simp only [hdrProgs, List.take_succ_cons, List.take_zero, Flash.applyAll, List.foldl_cons, List.foldl_nil]
      rw [← e1, ← e2, ← e3, ← e4, ← e5, ← e6, ← e7]; exact fwA _ i7.2
    · simp only [hdrProgs, List.take_succ_cons, List.take_zero, Flash.applyAll, List.foldl_cons, List.foldl_nil]
      rw [← e1, ← e2, ← e3, ← e4, ← e5, ← e6, ← e7]
      have q : ∀ x, 8 ≤ x → x < 12 →
          upd (upd (upd ffImg 4 (writeU32 sb)) 0 (writeU32 (encKind C .parity))) 12 (writeU32 cap) x = 255 :=
        fun x h1 h2 => upd_size_ff _ _ _ (Or.inr (Or.inr rfl)) x h1 h2
          (upd_size_ff _ _ _ (Or.inl rfl) x h1 h2 (sff _ x h1))
      exact none_of _ _ _ i7.1 (q 8 (by omega) (by omega)) (q 9 (by omega) (by omega)) (q 10 (by omega) (by omega))
        (q 11 (by omega) (by omega))
  | k + 8 =>
    have et : (hdrProgs S sz nn cap a b sa sb).take (k + 8) = hdrProgs S sz nn cap a b sa sb := by
      simp [hdrProgs]
    have c1 : ¬ k + 8 ≤ 4 := by omega
    have c2 : ¬ k + 8 ≤ 7 := by omega
    rw [if_neg c1, if_neg c2]
    apply hdrsOf_set2 ha hb
    · rw [et]
      simp only [hdrProgs, Flash.applyAll, List.foldl_cons, List.foldl_nil]
      rw [← e1, ← e2, ← e3, ← e4, ← e5, ← e6, ← e7, ← e8]; exact fwA _ i8.2
    · rw [et]
      simp only [hdrProgs, Flash.applyAll, List.foldl_cons, List.foldl_nil]
      rw [← e1, ← e2, ← e3, ← e4, ← e5, ← e6, ← e7, ← e8]; exact parB _ i8.1
    · intro i hi hia hib
      exact frame (k + 8) i hi hia hib




theorem applyAll_size (f : Flash) (ops : List Op) : (f.applyAll ops).size = f.size := by
  induction ops generalizing f with
  | nil => rfl
  | cons op ops ih => show ((f.apply op).applyAll ops).size = _; rw [ih, Ops.apply_size]

theorem length_eraseOps (cur B k : Nat) : (Ops.eraseOps cur B k).length = k := by
  induction k generalizing cur with
  | zero => rfl
  | succ k ih => simp [Ops.eraseOps, ih]

/-- after the complete `Slot::clear` the header of the slot is erased -/
theorem hdrFF_clear {f : Flash} {S B t : Nat} (hB : f.block = B) (h28 : 28 ≤ B) (hm : 1 ≤ S / B) :
    Crash.HdrFF (f.applyAll (Ops.eraseOps (t * S) B (S / B))) (t * S) := by
  obtain ⟨k', hk'⟩ : ∃ k', S / B = k' + 1 := ⟨S / B - 1, by omega⟩
  rw [hk']
  show Crash.HdrFF ((f.apply (.erase (t * S))).applyAll (Ops.eraseOps (t * S + B) B k')) (t * S)
  exact hdrFF_eraseOps _ _ _ _ (Crash.hdrFF_erase_first _ (by rw [hB]; exact h28))

/-- number of header effects of `start_update` that have taken place after `k` flash operations
    (`m` = erase blocks per slot): the erase of the first block of a slot is the header effect "slot := none", the
    other erases and the sequence / kind / count words change no header, the size word makes the header appear -/
def kappaStart (m k : Nat) : Nat :=
  if k = 0 then 0 else if k ≤ m then 1 else if k ≤ 2 * m + 4 then 2 else if k ≤ 2 * m + 7 then 3 else 4

theorem kappaStart_mono (m : Nat) {k k' : Nat} (h : k ≤ k') : kappaStart m k ≤ kappaStart m k' := by
  unfold kappaStart
  repeat' split
  all_goals omega

theorem startOps_eq (B S sz nn a b sa sb : Nat) :
    Ops.startOps B S sz nn a b sa sb =
      Ops.eraseOps (b * S) B (S / B) ++ (Ops.eraseOps (a * S) B (S / B) ++ hdrProgs S sz nn (capacity S sz) a b sa sb) :=
  rfl

/-- **`start_refines`** (flash level): for every prefix of the operations of `start_update`, the headers read from
    the flash are the ring's headers with the corresponding prefix of the header effects of the machine's `start`
    applied. -/
theorem start_refines_flash {f : Flash} {n S B sz nn a b sa sb : Nat} (hB : f.block = B) (h28 : 28 ≤ B)
    (hS : 28 ≤ S) (hdiv : S % B = 0) (ha : a < n) (hb : b < n) (hab : a ≠ b) (hdev : n * S ≤ f.size)
    (wfA : (freshHdr .firmware sa sz nn).WF Codec.pinned)
    (wfB : (freshHdr .parity sb sz (capacity S sz)).WF Codec.pinned) (k : Nat) :
    hdrsOf (f.applyAll ((Ops.startOps B S sz nn a b sa sb).take k)) n S =
      applyAll (hdrsOf f n S)
        ([(b, none), (a, none), (a, some (freshHdr .firmware sa sz nn)),
          (b, some (freshHdr .parity sb sz (capacity S sz)))].take (kappaStart (S / B) k)) := by
  have hmB : S / B * B = S := by
    have := Nat.div_add_mod S B; rw [Nat.mul_comm]; omega
  have hm : 1 ≤ S / B := by
    apply Nat.pos_of_ne_zero; intro e; rw [e] at hmB; omega
  have hslot : ∀ i, i < n → i * S + S ≤ f.size := by
    intro i hi
    have : (i + 1) * S ≤ n * S := Nat.mul_le_mul_right _ hi
    rw [Nat.add_mul] at this; omega
  generalize hmdef : S / B = m at *
  rw [startOps_eq, hmdef, List.take_append, Ops.applyAll_append, length_eraseOps]
  unfold kappaStart
  by_cases hk0 : k = 0
  · subst hk0
    simp [Flash.applyAll, applyAll]
  rw [if_neg hk0]
  by_cases hk1 : k ≤ m
  · rw [if_pos hk1, show k - m = 0 by omega, List.take_zero]
    show hdrsOf ((f.applyAll _).applyAll []) n S = _
    have := clear_prefix (n := n) hB h28 hS hdiv hb k
    rw [hmdef, if_neg hk0] at this
    exact this
  rw [if_neg hk1, List.take_of_length_le (by rw [length_eraseOps]; omega)]
  -- the second slot is erased completely
  obtain ⟨f1, ef1⟩ : ∃ f1, f1 = f.applyAll (Ops.eraseOps (b * S) B m) := ⟨_, rfl⟩
  rw [← ef1]
  have hB1 : f1.block = B := by rw [ef1, applyAll_block, hB]
  have hz1 : f1.size = f.size := by rw [ef1, applyAll_size]
  have hh1 : hdrsOf f1 n S = (hdrsOf f n S).set b none := by
    have := clear_prefix (n := n) hB h28 hS hdiv hb m
    rw [hmdef, take_eraseOps, Nat.min_self, if_neg (by omega)] at this
    rw [ef1]; exact this
  have hffB1 : Crash.HdrFF f1 (b * S) := by
    rw [ef1, ← hmdef]; exact hdrFF_clear hB h28 (by rw [hmdef]; exact hm)
  rw [List.take_append, Ops.applyAll_append, length_eraseOps]
  by_cases hk2 : k - m ≤ m
  · have c2 : k ≤ 2 * m + 4 := by omega
    rw [if_pos c2, show k - m - m = 0 by omega, List.take_zero]
    show hdrsOf ((f1.applyAll _).applyAll []) n S = _
    have := clear_prefix (n := n) hB1 h28 hS hdiv ha (k - m)
    rw [hmdef, if_neg (by omega), hh1] at this
    exact this
  rw [List.take_of_length_le (by rw [length_eraseOps]; omega)]
  obtain ⟨f2, ef2⟩ : ∃ f2, f2 = f1.applyAll (Ops.eraseOps (a * S) B m) := ⟨_, rfl⟩
  rw [← ef2]
  have hz2 : f2.size = f.size := by rw [ef2, applyAll_size, hz1]
  have hh2 : hdrsOf f2 n S = ((hdrsOf f n S).set b none).set a none := by
    have := clear_prefix (n := n) hB1 h28 hS hdiv ha m
    rw [hmdef, take_eraseOps, Nat.min_self, if_neg (by omega), hh1] at this
    rw [ef2]; exact this
  have hffA2 : Crash.HdrFF f2 (a * S) := by
    rw [ef2, ← hmdef]; exact hdrFF_clear hB1 h28 (by rw [hmdef]; exact hm)
  have hffB2 : Crash.HdrFF f2 (b * S) := by
    rw [ef2]; exact hdrFF_eraseOps _ _ _ _ hffB1
  have key := hdrProgs_prefix (n := n) wfA wfB ha hb hab hS (by rw [hz2]; exact hslot a ha)
    (by rw [hz2]; exact hslot b hb) hffA2 hffB2 (k - m - m)
  rw [key, hh2]
  by_cases c4 : k - m - m ≤ 4
  · rw [if_pos c4, if_pos (by omega : k ≤ 2 * m + 4)]
    rfl
  · rw [if_neg c4, if_neg (by omega : ¬ k ≤ 2 * m + 4)]
    by_cases c7 : k - m - m ≤ 7
    · rw [if_pos c7, if_pos (by omega : k ≤ 2 * m + 7)]
      rfl
    · rw [if_neg c7, if_neg (by omega : ¬ k ≤ 2 * m + 7)]
      rfl


end Fuota.RingFlash
