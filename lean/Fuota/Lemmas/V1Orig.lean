import Fuota.Lemmas.V1OrigSlot
import Fuota.Lemmas.V1Naive
/-!
# The deprecated updater refines the mask-level machine `Abs` (C19, original side)

`OInv cfg ac d a cap D seg`: the `ActiveStatus` `ac` on the device `d` (no injection armed) *is* the abstract state `a`
(which scans all 16384 parity indices) for the image `D`; `cap` = number of coded fragments that fit the parity slot.
-/
set_option linter.unusedSimpArgs false
namespace Fuota.V1
open Fuota.Nor Fuota.Fs Fuota.Layout Fuota.FlashAdapters

/-- static facts of an original-crate session -/
structure OGeo (ac : Orig.Act) (fsz n cap seg : Nat) : Prop where
  ne : ac.fwIdx ≠ ac.parIdx
  fw_in : ac.fwIdx * ac.slotSize + ac.slotSize ≤ fsz
  par_in : ac.parIdx * ac.slotSize + ac.slotSize ≤ fsz
  seg_eq : ac.segSize = seg
  seg_pos : 1 ≤ seg
  seg_le : seg ≤ 256
  n_le : n ≤ 16384
  cap_le : cap ≤ 16384
  fw_fit : 17408 + n * seg ≤ ac.slotSize
  par_fit : 17408 + cap * seg ≤ ac.slotSize
  tf : ac.totalFw = n
  tp : ac.totalPar = 16384

structure OInv (cfg : Orig.Cfg) (ac : Orig.Act) (d : Dev) (a : Abs) (cap : Nat) (D : Nat → List Nat) (seg : Nat) :
    Prop where
  good : Good d
  wf : WF d.flash
  geo : OGeo ac d.flash.size a.n cap seg
  plen : a.parLen = 16384
  rowEq : a.rowOf = fun p => Lfdbt.getParityMatrixRowOrig cfg.ffr ((p + 1) % 2 ^ 32) a.n
  rows : ∀ p, p < cap → (a.rowOf p).isSome = true
  fwV : OView (ac.fwIdx * ac.slotSize) d.flash seg a.n a.n a.fw D
  parV : OView (ac.parIdx * ac.slotSize) d.flash seg 16384 cap a.par (parVal a.rowOf D a.n seg)
  cntF : ac.remFw = a.n - countBits a.fw a.n
  cntP : ac.remPar = 16384 - countBits a.par 16384
  Dlen : ∀ i, i < a.n → (D i).length = seg
  Dbytes : ∀ i, i < a.n → Updater.IsBytes (D i)

/-- the plan of an accepted data-fragment write -/
theorem planWrite_fw {cfg : Orig.Cfg} {ac : Orig.Act} {fsz n cap seg : Nat} (g : OGeo ac fsz n cap seg) (idx1 : Nat)
    (h1 : 1 ≤ idx1) (hn : idx1 ≤ n) :
    Orig.planWrite cfg ac idx1 seg =
      .ok { slotIdx := ac.fwIdx, idx0 := idx1 - 1, writtenAddr := ac.fwIdx * ac.slotSize + 1024 + (idx1 - 1),
            dataStart := ac.fwIdx * ac.slotSize + 17408 + (idx1 - 1) * seg } := by
  unfold Orig.planWrite
  have c1 : Orig.WRITTEN_SIZE = 16384 := rfl
  have c2 : Orig.DATA_REGION_OFFSET = 17408 := rfl
  have c3 : Orig.WRITTEN_OFFSET = 1024 := rfl
  have h0 : ¬ idx1 = 0 := by omega
  have hfw : idx1 ≤ ac.totalFw := by rw [g.tf]; exact hn
  have hfit := cap_fit (show idx1 - 1 < n by omega) g.fw_fit
  have hnle := g.n_le
  have e : (idx1 - 1 + 1) * seg = (idx1 - 1) * seg + seg := by rw [Nat.add_mul, Nat.one_mul]
  have hw : idx1 - 1 < 16384 := by omega
  have hd1 : 17408 + (idx1 - 1 + 1) * seg ≤ ac.slotSize := by omega
  have hd2 : (idx1 - 1 + 1) * seg ≤ ac.slotSize := by omega
  cases hcfg : cfg.rangeCheckWithOffset <;>
    simp [h0, hfw, c1, c2, c3, g.seg_eq, hw, hd1, hd2, hcfg]

/-- the plan of an accepted coded-fragment write -/
theorem planWrite_par {cfg : Orig.Cfg} {ac : Orig.Act} {fsz n cap seg : Nat} (g : OGeo ac fsz n cap seg) (idx1 : Nat)
    (h1 : n < idx1) (hp : idx1 - 1 - n < cap) :
    Orig.planWrite cfg ac idx1 seg =
      .ok { slotIdx := ac.parIdx, idx0 := idx1 - 1 - n, writtenAddr := ac.parIdx * ac.slotSize + 1024 + (idx1 - 1 - n),
            dataStart := ac.parIdx * ac.slotSize + 17408 + (idx1 - 1 - n) * seg } := by
  unfold Orig.planWrite
  have c1 : Orig.WRITTEN_SIZE = 16384 := rfl
  have c2 : Orig.DATA_REGION_OFFSET = 17408 := rfl
  have c3 : Orig.WRITTEN_OFFSET = 1024 := rfl
  have h0 : ¬ idx1 = 0 := by omega
  have hnle := g.n_le
  have hcle := g.cap_le
  have hfw : ¬ idx1 ≤ n := by omega
  have hr : idx1 ≤ (n + 16384) % 2 ^ 32 := by rw [Nat.mod_eq_of_lt (by omega)]; omega
  have hfit := cap_fit hp g.par_fit
  have e : (idx1 - 1 - n + 1) * seg = (idx1 - 1 - n) * seg + seg := by rw [Nat.add_mul, Nat.one_mul]
  have hw : idx1 - 1 - n < 16384 := by omega
  have hd1 : 17408 + (idx1 - 1 - n + 1) * seg ≤ ac.slotSize := by omega
  have hd2 : (idx1 - 1 - n + 1) * seg ≤ ac.slotSize := by omega
  cases hcfg : cfg.rangeCheckWithOffset <;>
    simp [h0, g.tf, g.tp, hfw, hr, c1, c2, c3, g.seg_eq, hw, hd1, hd2, hcfg]

/-! ## `write_segment_internal` under the invariant -/

/-- the device after the two programs of an accepted write -/
def oAfterDev (base seg i : Nat) (buf : List Nat) (d : Dev) : Dev :=
  (d.prog (base + 17408 + i * seg) buf).prog (base + 1024 + i) [0x33]

theorem oAfterDev_flash (base seg i : Nat) (buf : List Nat) (d : Dev) :
    (oAfterDev base seg i buf d).flash = oAfter base seg i buf d.flash := rfl

theorem status_byte_run (d : Dev) (hG : Good d) (addr : Nat) (hin : addr + 1 ≤ d.flash.size) :
    (readTo addr 1).run d = (.ok [d.flash.byte addr], d) := by
  rw [Fs.readTo_run hG addr 1 hin]
  simp [Flash.read]

/-- re-delivery of a data fragment that is present (original crate) -/
theorem owsi_fw_dup {cfg : Orig.Cfg} {ac : Orig.Act} {d : Dev} {a : Abs} {cap : Nat} {D : Nat → List Nat} {seg : Nat}
    (I : OInv cfg ac d a cap D seg) (scratchLen idx1 : Nat) (h1 : 1 ≤ idx1) (hn : idx1 ≤ a.n)
    (hbit : a.fw.testBit (idx1 - 1) = true) (hs : seg ≤ scratchLen) :
    (Orig.writeSegmentInternal cfg scratchLen idx1 (D (idx1 - 1))).run (ac, d) = (.ok .consumed, (ac, d)) := by
  have g := I.geo
  have hi : idx1 - 1 < a.n := by omega
  have hfit := cap_fit hi g.fw_fit
  have hlen := I.Dlen _ hi
  have hnle := g.n_le
  have hsp := g.seg_pos
  unfold Orig.writeSegmentInternal
  simp only [OrigRun.run_bind, OrigRun.getA_run, hlen, planWrite_fw g idx1 h1 hn, OrigRun.liftM_run]
  rw [status_byte_run d I.good _ (by have := g.fw_in; omega)]
  have hst : d.flash.byte (ac.fwIdx * ac.slotSize + 1024 + (idx1 - 1)) = Consts.O_DATA_WRITTEN := by
    have := I.fwV.tab (idx1 - 1) hi
    rw [Nat.zero_add, hbit] at this
    simp only [↓reduceIte] at this
    rw [this]; rfl
  have c1 : ¬ seg > scratchLen := by omega
  simp only [List.getD_cons_zero, hst, ↓reduceIte, c1, OrigRun.run_bind, OrigRun.liftM_run, OrigRun.run_pure]
  rw [Fs.readTo_run I.good _ _ (by have := g.fw_in; omega), I.fwV.data _ hi hbit]
  simp only [← hlen, List.take_length, ↓reduceIte, OrigRun.run_pure]

theorem commitWrite_run (p : Orig.WPlan) (bytes : List Nat) (d : Dev) (hG : Good d)
    (h1 : p.dataStart + bytes.length ≤ d.flash.size) (h2 : p.writtenAddr + 1 ≤ d.flash.size) :
    (Orig.commitWrite p bytes).run d = (.ok (), (d.prog p.dataStart bytes).prog p.writtenAddr [0x33]) := by
  unfold Orig.commitWrite
  rw [run_bind, writeFrom_run hG _ _ h1]
  simp only
  rw [show Consts.O_DATA_WRITTEN = 0x33 from rfl,
    writeFrom_run (hG.prog _ _) _ _ (by rw [Dev.prog_size]; simpa using h2)]

/-- a new data fragment (original crate) -/
theorem owsi_fw_new {cfg : Orig.Cfg} {ac : Orig.Act} {d : Dev} {a : Abs} {cap : Nat} {D : Nat → List Nat} {seg : Nat}
    (I : OInv cfg ac d a cap D seg) (scratchLen idx1 : Nat) (h1 : 1 ≤ idx1) (hn : idx1 ≤ a.n)
    (hbit : a.fw.testBit (idx1 - 1) = false) :
    ∃ ac' d', (Orig.writeSegmentInternal cfg scratchLen idx1 (D (idx1 - 1))).run (ac, d) =
        (.ok (classify ac'.remFw ac'.remPar ac'.totalPar), (ac', d')) ∧
      OInv cfg ac' d' { a with fw := a.fw ||| 2 ^ (idx1 - 1) } cap D seg := by
  have g := I.geo
  have hi : idx1 - 1 < a.n := by omega
  have hfit := cap_fit hi g.fw_fit
  have hlen := I.Dlen _ hi
  have hnle := g.n_le
  have hsp := g.seg_pos
  have hcnt := countBits_lt_of_unset a.fw a.n _ hi hbit
  have hcnt2 := countBits_or_pow a.fw (idx1 - 1) a.n hi hbit
  have hfin := g.fw_in
  refine ⟨{ ac with remFw := decU32 ac.remFw }, oAfterDev (ac.fwIdx * ac.slotSize) seg (idx1 - 1) (D (idx1 - 1)) d, ?_, ?_⟩
  · unfold Orig.writeSegmentInternal
    simp only [OrigRun.run_bind, OrigRun.getA_run, hlen, planWrite_fw g idx1 h1 hn, OrigRun.liftM_run]
    rw [status_byte_run d I.good _ (by omega)]
    have hst : d.flash.byte (ac.fwIdx * ac.slotSize + 1024 + (idx1 - 1)) = Consts.O_DATA_NOT_WRITTEN := by
      have := I.fwV.tab (idx1 - 1) hi
      rw [Nat.zero_add, hbit] at this
      simp only [Bool.false_eq_true, ↓reduceIte] at this
      rw [this]; rfl
    have hne : ¬ Consts.O_DATA_NOT_WRITTEN = Consts.O_DATA_WRITTEN := by decide
    simp only [List.getD_cons_zero, hst, hne, ↓reduceIte, ne_eq, not_true_eq_false, OrigRun.run_bind, OrigRun.liftM_run,
      OrigRun.run_pure]
    rw [commitWrite_run _ _ d I.good (by simp only; omega) (by simp only; omega)]
    rfl
  · have hpar_out : ∀ x, ac.parIdx * ac.slotSize ≤ x → x < ac.parIdx * ac.slotSize + ac.slotSize →
        (x < ac.fwIdx * ac.slotSize ∨ ac.fwIdx * ac.slotSize + ac.slotSize ≤ x) := by
      intro x hx1 hx2
      have := Updater.seg_disjoint ac.slotSize g.ne
      omega
    refine ⟨(I.good.prog _ _).prog _ _, WF_apply_program (WF_apply_program I.wf _ _) _ _, ?_, I.plen, I.rowEq, I.rows,
      ?_, ?_, ?_, I.cntP, I.Dlen, I.Dbytes⟩
    · have e : (oAfterDev (ac.fwIdx * ac.slotSize) seg (idx1 - 1) (D (idx1 - 1)) d).flash.size = d.flash.size := by
        unfold oAfterDev; rw [Dev.prog_size, Dev.prog_size]
      rw [e]
      exact ⟨g.ne, g.fw_in, g.par_in, g.seg_eq, g.seg_pos, g.seg_le, g.n_le, g.cap_le, g.fw_fit, g.par_fit, g.tf, g.tp⟩
    · rw [oAfterDev_flash]
      exact I.fwV.write (S := ac.slotSize) g.seg_pos (Nat.le_refl _) g.n_le g.fw_fit g.fw_in _ hi hbit _ hlen
        (I.Dbytes _ hi) rfl
    · rw [oAfterDev_flash]
      apply I.parV.frame (S := ac.slotSize) (by have := g.par_fit; omega) g.par_fit
      intro x hx1 hx2
      have := hpar_out x hx1 hx2
      exact oAfter_byte_other _ _ _ _ _ x (by rw [hlen]; omega) (by omega)
    · show decU32 ac.remFw = a.n - countBits (a.fw ||| 2 ^ (idx1 - 1)) a.n
      rw [I.cntF, hcnt2, decU32_pos _ (by omega) (by omega)]
      omega

/-- re-delivery of a coded fragment that is present (original crate) -/
theorem owsi_par_dup {cfg : Orig.Cfg} {ac : Orig.Act} {d : Dev} {a : Abs} {cap : Nat} {D : Nat → List Nat} {seg : Nat}
    (I : OInv cfg ac d a cap D seg) (scratchLen idx1 : Nat) (h1 : a.n < idx1) (hp : idx1 - 1 - a.n < cap)
    (hbit : a.par.testBit (idx1 - 1 - a.n) = true) (hs : seg ≤ scratchLen) :
    (Orig.writeSegmentInternal cfg scratchLen idx1 (parVal a.rowOf D a.n seg (idx1 - 1 - a.n))).run (ac, d) =
      (.ok .consumed, (ac, d)) := by
  have g := I.geo
  have hfit := cap_fit hp g.par_fit
  have hcle := g.cap_le
  have hsp := g.seg_pos
  have hpin := g.par_in
  obtain ⟨row, hrow⟩ := Option.isSome_iff_exists.mp (I.rows _ hp)
  have hv : parVal a.rowOf D a.n seg (idx1 - 1 - a.n) = coded D row a.n seg := by simp [parVal, hrow]
  obtain ⟨hlen, _⟩ := coded_spec D row a.n seg I.Dlen I.Dbytes
  rw [hv]
  have hplan := planWrite_par (cfg := cfg) g idx1 h1 hp
  unfold Orig.writeSegmentInternal
  simp only [OrigRun.run_bind, OrigRun.getA_run, hlen, hplan, OrigRun.liftM_run]
  rw [status_byte_run d I.good _ (by omega)]
  have hst : d.flash.byte (ac.parIdx * ac.slotSize + 1024 + (idx1 - 1 - a.n)) = Consts.O_DATA_WRITTEN := by
    have := I.parV.tab (idx1 - 1 - a.n) (by omega)
    rw [Nat.zero_add, hbit] at this
    simp only [↓reduceIte] at this
    rw [this]; rfl
  have c1 : ¬ seg > scratchLen := by omega
  simp only [List.getD_cons_zero, hst, ↓reduceIte, c1, OrigRun.run_bind, OrigRun.liftM_run, OrigRun.run_pure]
  rw [Fs.readTo_run I.good _ _ (by omega), I.parV.data _ hp hbit, hv]
  have ht : List.take seg (coded D row a.n seg) = coded D row a.n seg :=
    List.take_of_length_le (by rw [hlen]; exact Nat.le_refl _)
  simp only [ht, ↓reduceIte, OrigRun.run_pure]

/-- a new coded fragment (original crate) -/
theorem owsi_par_new {cfg : Orig.Cfg} {ac : Orig.Act} {d : Dev} {a : Abs} {cap : Nat} {D : Nat → List Nat} {seg : Nat}
    (I : OInv cfg ac d a cap D seg) (scratchLen idx1 : Nat) (h1 : a.n < idx1) (hp : idx1 - 1 - a.n < cap)
    (hbit : a.par.testBit (idx1 - 1 - a.n) = false) :
    ∃ ac' d', (Orig.writeSegmentInternal cfg scratchLen idx1 (parVal a.rowOf D a.n seg (idx1 - 1 - a.n))).run (ac, d) =
        (.ok (classify ac'.remFw ac'.remPar ac'.totalPar), (ac', d')) ∧
      OInv cfg ac' d' { a with par := a.par ||| 2 ^ (idx1 - 1 - a.n) } cap D seg := by
  have g := I.geo
  have hfit := cap_fit hp g.par_fit
  have hcle := g.cap_le
  have hsp := g.seg_pos
  have hpin := g.par_in
  have hi16 : idx1 - 1 - a.n < 16384 := by omega
  obtain ⟨row, hrow⟩ := Option.isSome_iff_exists.mp (I.rows _ hp)
  have hv : parVal a.rowOf D a.n seg (idx1 - 1 - a.n) = coded D row a.n seg := by simp [parVal, hrow]
  obtain ⟨hlen, hby⟩ := coded_spec D row a.n seg I.Dlen I.Dbytes
  have hcnt := countBits_lt_of_unset a.par 16384 _ hi16 hbit
  have hcnt2 := countBits_or_pow a.par (idx1 - 1 - a.n) 16384 hi16 hbit
  refine ⟨{ ac with remPar := decU32 ac.remPar },
    oAfterDev (ac.parIdx * ac.slotSize) seg (idx1 - 1 - a.n) (coded D row a.n seg) d, ?_, ?_⟩
  · rw [hv]
    have hplan := planWrite_par (cfg := cfg) g idx1 h1 hp
    unfold Orig.writeSegmentInternal
    simp only [OrigRun.run_bind, OrigRun.getA_run, hlen, hplan, OrigRun.liftM_run]
    rw [status_byte_run d I.good _ (by omega)]
    have hst : d.flash.byte (ac.parIdx * ac.slotSize + 1024 + (idx1 - 1 - a.n)) = Consts.O_DATA_NOT_WRITTEN := by
      have := I.parV.tab (idx1 - 1 - a.n) (by omega)
      rw [Nat.zero_add, hbit] at this
      simp only [Bool.false_eq_true, ↓reduceIte] at this
      rw [this]; rfl
    have hne : ¬ Consts.O_DATA_NOT_WRITTEN = Consts.O_DATA_WRITTEN := by decide
    have hne2 : ¬ ac.parIdx = ac.fwIdx := fun e => g.ne e.symm
    simp only [List.getD_cons_zero, hst, hne, hne2, ↓reduceIte, ne_eq, not_true_eq_false, OrigRun.run_bind,
      OrigRun.liftM_run, OrigRun.run_pure]
    rw [commitWrite_run _ _ d I.good (by simp only; omega) (by simp only; omega)]
    rfl
  · have hfw_out : ∀ x, ac.fwIdx * ac.slotSize ≤ x → x < ac.fwIdx * ac.slotSize + ac.slotSize →
        (x < ac.parIdx * ac.slotSize ∨ ac.parIdx * ac.slotSize + ac.slotSize ≤ x) := by
      intro x hx1 hx2
      have := Updater.seg_disjoint ac.slotSize g.ne
      omega
    refine ⟨(I.good.prog _ _).prog _ _, WF_apply_program (WF_apply_program I.wf _ _) _ _, ?_, I.plen, I.rowEq, I.rows,
      ?_, ?_, I.cntF, ?_, I.Dlen, I.Dbytes⟩
    · have e : (oAfterDev (ac.parIdx * ac.slotSize) seg (idx1 - 1 - a.n) (coded D row a.n seg) d).flash.size =
          d.flash.size := by unfold oAfterDev; rw [Dev.prog_size, Dev.prog_size]
      rw [e]
      exact ⟨g.ne, g.fw_in, g.par_in, g.seg_eq, g.seg_pos, g.seg_le, g.n_le, g.cap_le, g.fw_fit, g.par_fit, g.tf, g.tp⟩
    · rw [oAfterDev_flash]
      apply I.fwV.frame (S := ac.slotSize) (by have := g.fw_fit; have := g.n_le; omega) g.fw_fit
      intro x hx1 hx2
      have := hfw_out x hx1 hx2
      exact oAfter_byte_other _ _ _ _ _ x (by rw [hlen]; omega) (by omega)
    · rw [oAfterDev_flash]
      exact I.parV.write (S := ac.slotSize) g.seg_pos g.cap_le (Nat.le_refl _) g.par_fit g.par_in _ hp hbit _ hlen hby hv
    · show decU32 ac.remPar = 16384 - countBits (a.par ||| 2 ^ (idx1 - 1 - a.n)) 16384
      rw [I.cntP, hcnt2, decU32_pos _ (by omega) (by omega)]
      omega
/-! ## `repair_step`, the repair loop, `write_segment` + loop, delivery sequences -/

/-- **`repair_step` of the original crate up to its write, evaluated under the invariant** -/
theorem oRepairCompute_run {cfg : Orig.Cfg} {ac : Orig.Act} {d : Dev} {a : Abs} {cap : Nat} {D : Nat → List Nat}
    {seg : Nat} (I : OInv cfg ac d a cap D seg) (h1 : ac.remFw ≠ 0) (h2 : ac.remPar ≠ ac.totalPar) :
    (Orig.repairCompute cfg).run (ac, d) =
      match pickRepair a.rowOf a.fw a.par a.n (List.range a.parLen) with
      | .ok (some (_, m, _)) => (.ok (some (m, D m)), (ac, d))
      | .ok none => (.ok none, (ac, d))
      | .error () => (.error .panic, (ac, d)) := by
  have g := I.geo
  have hnle := g.n_le
  have hcle := g.cap_le
  have hsp := g.seg_pos
  have hfin := g.fw_in
  have hpin := g.par_in
  have hfw : (Orig.loadStatus ac.slotSize ac.fwIdx a.n).run d = (.ok a.fw, d) :=
    oLoadStatus_run ac.slotSize ac.fwIdx a.n a.fw d I.good g.n_le (by have := g.fw_fit; omega) I.fwV.tab I.fwV.below
  have hpar : (Orig.loadStatus ac.slotSize ac.parIdx 16384).run d = (.ok a.par, d) :=
    oLoadStatus_run ac.slotSize ac.parIdx 16384 a.par d I.good (Nat.le_refl _) (by have := g.par_fit; omega) I.parV.tab
      (fun j hj => I.parV.below j (by omega))
  rw [I.plen]
  unfold Orig.repairCompute
  have h3 : ¬ seg > Orig.MAX_SEGMENT_SIZE := by have : Orig.MAX_SEGMENT_SIZE = 256 := rfl; have := g.seg_le; omega
  have h2' : ¬ ac.remPar = 16384 := by rw [← g.tp]; exact h2
  simp only [OrigRun.run_bind, OrigRun.getA_run, h1, ↓reduceIte, OrigRun.liftM_run, g.seg_eq, h3, g.tf, g.tp, h2', hfw,
    hpar, ← I.rowEq]
  cases hp : pickRepair a.rowOf a.fw a.par a.n (List.range 16384) with
  | error e => cases e; rfl
  | ok r =>
    cases r with
    | none => rfl
    | some t =>
      obtain ⟨p, m, row⟩ := t
      obtain ⟨hp1, hp2, hp3, hp4⟩ := pickRepair_some hp
      have hpl : p < cap := by
        cases hlt : decide (p < cap) with
        | true => exact of_decide_eq_true hlt
        | false =>
          have := I.parV.below p (by have := of_decide_eq_false hlt; omega)
          rw [this] at hp2; cases hp2
      obtain ⟨e1, e2, e3, e4⟩ := (exactlyOne_iff row a.fw a.n m).mp hp4
      have c2 : Orig.DATA_REGION_OFFSET = 17408 := rfl
      simp only [OrigRun.run_bind, OrigRun.liftM_run, c2]
      rw [Fs.readTo_run I.good _ _ (by have := cap_fit hpl g.par_fit; omega), I.parV.data p hpl hp2]
      have hv : parVal a.rowOf D a.n seg p = coded D row a.n seg := by simp [parVal, hp3]
      simp only [hv, OrigRun.run_bind, OrigRun.liftM_run]
      rw [OrigRun.xorLoop_eq (ac.fwIdx * ac.slotSize + 17408) seg row m D d (List.range a.n) _ (fun i hi hne hr => by
        have hin := List.mem_range.mp hi
        rw [Fs.readTo_run I.good _ _ (by have := cap_fit hin g.fw_fit; omega), I.fwV.data i hin (e4 i hin hne hr)])]
      simp only [OrigRun.run_pure]
      have := V1.repair_exact D D row a.n seg m I.Dlen e1 e2 (fun _ _ _ _ => rfl)
      unfold repaired at this
      rw [this]
end Fuota.V1

namespace Fuota.V1
open Fuota.Nor Fuota.Fs Fuota.Layout

theorem below_rows {cfg : Orig.Cfg} {ac : Orig.Act} {d : Dev} {a : Abs} {cap : Nat} {D : Nat → List Nat} {seg : Nat}
    (I : OInv cfg ac d a cap D seg) : ∀ p, p ∈ List.range a.parLen → a.par.testBit p = true → (a.rowOf p).isSome = true := by
  intro p _ hb
  apply I.rows
  cases hlt : decide (p < cap) with
  | true => exact of_decide_eq_true hlt
  | false =>
    have := I.parV.below p (by have := of_decide_eq_false hlt; omega)
    rw [this] at hb; cases hb

/-- **one `repair_step` of the original crate is one abstract step**, and keeps the invariant -/
theorem oRepairStep_run {cfg : Orig.Cfg} {ac : Orig.Act} {d : Dev} {a : Abs} {cap : Nat} {D : Nat → List Nat} {seg : Nat}
    (I : OInv cfg ac d a cap D seg) :
    match a.step with
    | none => (Orig.repairStep cfg).run (ac, d) = (.ok none, (ac, d))
    | some a' => ∃ m ac' d', (Orig.repairStep cfg).run (ac, d) = (.ok (some m), (ac', d')) ∧
        OInv cfg ac' d' a' cap D seg := by
  have g := I.geo
  have hcF := countBits_le a.fw a.n
  have hcP := countBits_le a.par 16384
  by_cases h1 : ac.remFw = 0
  · have hfull : ∀ i, i < a.n → a.fw.testBit i = true := countBits_full a.fw a.n (by have := I.cntF; omega)
    rw [step_none_of_full hfull]
    unfold Orig.repairStep Orig.repairCompute
    simp only [OrigRun.run_bind, OrigRun.getA_run, h1, ↓reduceIte]
    rfl
  by_cases h2 : ac.remPar = ac.totalPar
  · have hno : ∀ p, p < a.parLen → a.par.testBit p = false := by
      rw [I.plen]
      exact countBits_zero a.par 16384 (by have := I.cntP; have := g.tp; omega)
    rw [step_none_of_nopar hno]
    unfold Orig.repairStep Orig.repairCompute
    simp only [OrigRun.run_bind, OrigRun.getA_run, h1, h2, ↓reduceIte]
    rfl
  have hrc := oRepairCompute_run I h1 h2
  obtain ⟨r, hr⟩ := pickRepair_ok (rowOf := a.rowOf) (recvFw := a.fw) (recvPar := a.par) (planLen := a.n)
    (ps := List.range a.parLen) (below_rows I)
  rw [hr] at hrc
  cases r with
  | none =>
    have hs : a.step = none := by unfold Abs.step; rw [hr]
    rw [hs]
    unfold Orig.repairStep
    simp only [OrigRun.run_bind, hrc]
    rfl
  | some t =>
    obtain ⟨p, m, row⟩ := t
    have hs : a.step = some { a with fw := a.fw ||| 2 ^ m } := by unfold Abs.step; rw [hr]
    rw [hs]
    obtain ⟨_, _, _, hp4⟩ := pickRepair_some hr
    obtain ⟨e1, _, e3, _⟩ := (exactlyOne_iff row a.fw a.n m).mp hp4
    have hnle := g.n_le
    have hmod : (m + 1) % 2 ^ 32 = m + 1 := Nat.mod_eq_of_lt (by omega)
    obtain ⟨ac', d', hw, I'⟩ := owsi_fw_new I seg (m + 1) (by omega) (by omega) (by simpa using e3)
    simp only [Nat.add_sub_cancel] at hw I'
    refine ⟨m, ac', d', ?_, I'⟩
    unfold Orig.repairStep
    simp only [OrigRun.run_bind, hrc, hmod, OrigRun.getA_run, g.seg_eq, hw, OrigRun.run_pure]

/-- **the caller's repair loop on the original crate is the abstract loop** -/
theorem oRepairLoop_run {cfg : Orig.Cfg} {cap : Nat} {D : Nat → List Nat} {seg : Nat} : ∀ (fuel : Nat) (ac : Orig.Act)
    (d : Dev) (a : Abs) (acc : List Nat), OInv cfg ac d a cap D seg →
    ∃ rep ac' d', (Orig.repairLoop cfg fuel acc).run (ac, d) = (.ok rep, (ac', d')) ∧
      OInv cfg ac' d' (Abs.loop fuel a) cap D seg := by
  intro fuel
  induction fuel with
  | zero => intro ac d a acc I; exact ⟨acc, ac, d, rfl, I⟩
  | succ f ih =>
    intro ac d a acc I
    have hs := oRepairStep_run I
    cases hst : a.step with
    | none =>
      rw [hst] at hs
      rw [loop_succ_none hst]
      refine ⟨acc, ac, d, ?_, I⟩
      unfold Orig.repairLoop
      simp only [OrigRun.run_bind, hs]
      rfl
    | some a' =>
      rw [hst] at hs
      obtain ⟨m, ac1, d1, hrun, I1⟩ := hs
      rw [loop_succ_some hst]
      obtain ⟨rep, ac', d', hrun', I'⟩ := ih ac1 d1 a' (m :: acc) I1
      refine ⟨rep, ac', d', ?_, I'⟩
      unfold Orig.repairLoop
      simp only [OrigRun.run_bind, hrun]
      exact hrun'
end Fuota.V1

namespace Fuota.V1
open Fuota.Nor Fuota.Fs Fuota.Layout

theorem oHandle_tail {cfg : Orig.Cfg} {ac1 : Orig.Act} {d1 : Dev} {a1 : Abs} {cap : Nat} {D : Nat → List Nat} {seg : Nat}
    (I1 : OInv cfg ac1 d1 a1 cap D seg) :
    ∃ w rep c ac' d',
      (match classify ac1.remFw ac1.remPar ac1.totalPar with
        | WOutcome.consumed => (pure (WOutcome.consumed, [], false) : Orig.MA (WOutcome × List Nat × Bool))
        | WOutcome.complete => pure (WOutcome.complete, [], true)
        | WOutcome.maybeParity => do
          let a ← Orig.getA
          let rep ← Orig.repairLoop cfg (a.remFw + 1) []
          let a ← Orig.getA
          pure (WOutcome.maybeParity, rep.reverse, a.remFw == 0)).run (ac1, d1) = (.ok (w, rep, c), (ac', d')) ∧
      OInv cfg ac' d' (Abs.loop (a1.n + 1) a1) cap D seg ∧ (Abs.loop (a1.n + 1) a1).step = none ∧
      (c = true ↔ ∀ i, i < a1.n → (Abs.loop (a1.n + 1) a1).fw.testBit i = true) := by
  have g := I1.geo
  have hcF := countBits_le a1.fw a1.n
  have hcP := countBits_le a1.par 16384
  have hclosed : (Abs.loop (a1.n + 1) a1).step = none := loop_step_none _ _ (missing_lt _ _)
  unfold classify
  by_cases h1 : ac1.remFw = 0
  · have hfull : ∀ i, i < a1.n → a1.fw.testBit i = true := countBits_full a1.fw a1.n (by have := I1.cntF; omega)
    have hfix := loop_fixed (step_none_of_full hfull) (a1.n + 1)
    simp only [h1, ↓reduceIte]
    rw [hfix] at hclosed ⊢
    exact ⟨.complete, [], true, ac1, d1, rfl, I1, hclosed, ⟨fun _ => hfull, fun _ => rfl⟩⟩
  · by_cases h2 : ac1.remPar = ac1.totalPar
    · have hno : ∀ p, p < a1.parLen → a1.par.testBit p = false := by
        rw [I1.plen]
        exact countBits_zero a1.par 16384 (by have := I1.cntP; have := g.tp; omega)
      have hfix := loop_fixed (step_none_of_nopar hno) (a1.n + 1)
      simp only [h1, h2, ↓reduceIte]
      rw [hfix] at hclosed ⊢
      refine ⟨.consumed, [], false, ac1, d1, rfl, I1, hclosed, ?_⟩
      constructor
      · intro h; cases h
      · intro h
        have := countBits_of_full a1.fw a1.n h
        have := I1.cntF
        omega
    · simp only [h1, h2, ↓reduceIte]
      obtain ⟨rep, ac', d', hrun, I'⟩ := oRepairLoop_run (ac1.remFw + 1) ac1 d1 a1 [] I1
      have hmiss : missing a1.fw a1.n < ac1.remFw + 1 := by unfold missing; have := I1.cntF; omega
      have hst := loop_stable a1 (ac1.remFw + 1) (a1.n + 1) hmiss (by have := I1.cntF; omega)
      rw [← hst] at I'
      have hn' : (Abs.loop (a1.n + 1) a1).n = a1.n := (loop_fields _ _).1
      refine ⟨.maybeParity, rep.reverse, ac'.remFw == 0, ac', d', ?_, I', hclosed, ?_⟩
      · simp only [OrigRun.run_bind, OrigRun.getA_run, hrun, OrigRun.run_pure]
      · have hc := I'.cntF
        rw [hn'] at hc
        have hle := countBits_le (Abs.loop (a1.n + 1) a1).fw a1.n
        constructor
        · intro h
          have hz : ac'.remFw = 0 := by simpa using h
          exact countBits_full _ a1.n (by omega)
        · intro h
          have := countBits_of_full _ a1.n h
          have hz : ac'.remFw = 0 := by omega
          simp [hz]

/-- **`write_segment` + the repair loop of the original crate refine `Abs.deliver`** for genuine fragments that fit
    the parity slot, on a device without armed injection -/
theorem oHandleSegment_run {cfg : Orig.Cfg} {ac : Orig.Act} {d : Dev} {a : Abs} {cap : Nat} {D : Nat → List Nat}
    {seg : Nat} (I : OInv cfg ac d a cap D seg) (hcl : a.step = none) (idx1 : Nat) (h1 : 1 ≤ idx1)
    (hn : idx1 ≤ a.n + cap) :
    ∃ w rep c ac' d', (Orig.handleSegment cfg idx1 (genuine a D seg idx1)).run (ac, d) = (.ok (w, rep, c), (ac', d')) ∧
      OInv cfg ac' d' (a.deliver (toDlv a.n idx1)) cap D seg ∧ (a.deliver (toDlv a.n idx1)).step = none ∧
      (c = true ↔ (present a idx1 = false ∧ ∀ i, i < a.n → (a.deliver (toDlv a.n idx1)).fw.testBit i = true)) := by
  have g := I.geo
  have hsl : seg ≤ Orig.MAX_SEGMENT_SIZE := by have : Orig.MAX_SEGMENT_SIZE = 256 := rfl; have := g.seg_le; omega
  by_cases hd : idx1 ≤ a.n
  · have eg : genuine a D seg idx1 = D (idx1 - 1) := by simp [genuine, hd]
    have ed : toDlv a.n idx1 = .data (idx1 - 1) := by simp [toDlv, hd]
    have ep : present a idx1 = a.fw.testBit (idx1 - 1) := by simp [present, hd]
    rw [eg, ed, ep]
    cases hb : a.fw.testBit (idx1 - 1) with
    | true =>
      have hw := owsi_fw_dup I Orig.MAX_SEGMENT_SIZE idx1 h1 hd hb hsl
      have ea : ({ a with fw := a.fw ||| 2 ^ (idx1 - 1) } : Abs) = a := abs_fw_eq a _ (or_pow_of_set _ _ hb)
      have hdel : a.deliver (.data (idx1 - 1)) = a := by
        show Abs.loop (a.n + 1) { a with fw := a.fw ||| 2 ^ (idx1 - 1) } = a
        rw [ea, loop_fixed hcl]
      rw [hdel]
      refine ⟨.consumed, [], false, ac, d, ?_, I, hcl, ?_⟩
      · unfold Orig.handleSegment Orig.writeSegment
        simp only [OrigRun.run_bind, hw]
        rfl
      · constructor
        · intro h; cases h
        · intro h; cases h.1
    | false =>
      obtain ⟨ac1, d1, hw, I1⟩ := owsi_fw_new I Orig.MAX_SEGMENT_SIZE idx1 h1 hd hb
      obtain ⟨w, rep, c, ac', d', hrun, I', hcl', hiff⟩ := oHandle_tail I1
      refine ⟨w, rep, c, ac', d', ?_, I', hcl', ?_⟩
      · unfold Orig.handleSegment Orig.writeSegment
        simp only [OrigRun.run_bind, hw]
        exact hrun
      · rw [hiff]
        constructor
        · intro h; exact ⟨rfl, h⟩
        · intro h; exact h.2
  · have eg : genuine a D seg idx1 = parVal a.rowOf D a.n seg (idx1 - 1 - a.n) := by simp [genuine, hd]
    have ed : toDlv a.n idx1 = .coded (idx1 - 1 - a.n) := by simp [toDlv, hd]
    have ep : present a idx1 = a.par.testBit (idx1 - 1 - a.n) := by simp [present, hd]
    rw [eg, ed, ep]
    have hp : idx1 - 1 - a.n < cap := by omega
    cases hb : a.par.testBit (idx1 - 1 - a.n) with
    | true =>
      have hw := owsi_par_dup I Orig.MAX_SEGMENT_SIZE idx1 (by omega) hp hb hsl
      have ea : ({ a with par := a.par ||| 2 ^ (idx1 - 1 - a.n) } : Abs) = a := abs_par_eq a _ (or_pow_of_set _ _ hb)
      have hdel : a.deliver (.coded (idx1 - 1 - a.n)) = a := by
        show Abs.loop (a.n + 1) { a with par := a.par ||| 2 ^ (idx1 - 1 - a.n) } = a
        rw [ea, loop_fixed hcl]
      rw [hdel]
      refine ⟨.consumed, [], false, ac, d, ?_, I, hcl, ?_⟩
      · unfold Orig.handleSegment Orig.writeSegment
        simp only [OrigRun.run_bind, hw]
        rfl
      · constructor
        · intro h; cases h
        · intro h; cases h.1
    | false =>
      obtain ⟨ac1, d1, hw, I1⟩ := owsi_par_new I Orig.MAX_SEGMENT_SIZE idx1 (by omega) hp hb
      obtain ⟨w, rep, c, ac', d', hrun, I', hcl', hiff⟩ := oHandle_tail I1
      refine ⟨w, rep, c, ac', d', ?_, I', hcl', ?_⟩
      · unfold Orig.handleSegment Orig.writeSegment
        simp only [OrigRun.run_bind, hw]
        exact hrun
      · rw [hiff]
        constructor
        · intro h; exact ⟨rfl, h⟩
        · intro h; exact h.2
end Fuota.V1

namespace Fuota.V1
open Fuota.Nor Fuota.Fs Fuota.Layout

/-- deliver the genuine fragments `idxs` to the original crate: `write_segment` + repair loop each; the results are the
    completeness flags -/
def oDeliverAll (cfg : Orig.Cfg) (a0 : Abs) (D : Nat → List Nat) (seg : Nat) : List Nat → Orig.MA (List Bool)
  | [] => pure []
  | i :: is => do
    let r ← Orig.handleSegment cfg i (genuine a0 D seg i)
    let rs ← oDeliverAll cfg a0 D seg is
    pure (r.2.2 :: rs)

/-- **a whole delivery sequence on the original crate's model is the abstract run** -/
theorem oDeliverAll_run {cfg : Orig.Cfg} {cap : Nat} {D : Nat → List Nat} {seg : Nat} (a0 : Abs) :
    ∀ (idxs : List Nat) (ac : Orig.Act) (d : Dev) (a : Abs), OInv cfg ac d a cap D seg → a.step = none →
    a.n = a0.n → a.rowOf = a0.rowOf → (∀ i ∈ idxs, 1 ≤ i ∧ i ≤ a0.n + cap) →
    ∃ cs ac' d', (oDeliverAll cfg a0 D seg idxs).run (ac, d) = (.ok cs, (ac', d')) ∧ cs.length = idxs.length ∧
      OInv cfg ac' d' (a.run (idxs.map (toDlv a0.n))) cap D seg ∧ (a.run (idxs.map (toDlv a0.n))).step = none := by
  intro idxs
  induction idxs with
  | nil => intro ac d a I hcl _ _ _; exact ⟨[], ac, d, rfl, rfl, I, hcl⟩
  | cons i is ih =>
    intro ac d a I hcl hn hr hall
    obtain ⟨h1, h2⟩ := hall i (by simp)
    obtain ⟨w, rep, c, ac1, d1, hrun1, I1, hcl1, _⟩ := oHandleSegment_run I hcl i h1 (by rw [hn]; exact h2)
    rw [genuine_congr a0 a D seg i hn hr] at hrun1
    rw [hn] at I1 hcl1
    obtain ⟨e1, _, e3⟩ := deliver_fields a (toDlv a0.n i)
    obtain ⟨cs, ac', d', hrun2, hlen, I2, hcl2⟩ := ih ac1 d1 _ I1 hcl1 (by rw [e1, hn]) (by rw [e3, hr])
      (fun j hj => hall j (by simp [hj]))
    refine ⟨c :: cs, ac', d', ?_, by simp [hlen], I2, hcl2⟩
    unfold oDeliverAll
    simp only [OrigRun.run_bind, hrun1, hrun2, OrigRun.run_pure]
end Fuota.V1
