import Fuota.Lemmas.RefineRecover
import Fuota.Props.C11
import Fuota.Lemmas.PersistStage
/-!
# `try_recover_inner` on a device holding an open session: it only reads, and rebuilds the in-memory updater
-/
namespace Fuota.Updater
open Fuota.Nor Fuota.Fs Fuota.FlashAdapters Fuota.Recon Fuota.Layout

/-- the header the firmware slot carries while the session is open -/
def fwHdr (u : Upd) (sa : Nat) : Header :=
  { kind := .firmware, seq := sa, size := u.bs, n := u.n, ext := .inProgress, ist := .inProgress, boot := .untested }

/-- the header the parity slot carries while the session is open (its count field holds the capacity) -/
def parHdr (u : Upd) (sb : Nat) : Header :=
  { kind := .parity, seq := sb, size := u.bs, n := u.maxL, ext := .inProgress, ist := .inProgress,
    boot := .untested }

/-- **the session invariant with headers**: `Lawful`, and the two slot headers on flash are the ones
    `start_update` wrote (sequence numbers `sa`, `sb`) -/
structure LawfulH (u : Upd) (d : Dev) (sa sb : Nat) : Prop where
  law : Lawful u d
  hfw : NoPanic.hdrAt d.flash (u.fw.idx * u.fw.size) = some (fwHdr u sa)
  hpar : NoPanic.hdrAt d.flash (u.par.idx * u.par.size) = some (parHdr u sb)

/-- a parsed header has a valid sequence number -/
theorem hdrAt_seq_valid {f : Flash} {a : Nat} {h : Header} (hh : NoPanic.hdrAt f a = some h) :
    h.seq ≠ 0xFFFFFFFF := by
  unfold NoPanic.hdrAt at hh
  simp only [Option.map_eq_some_iff] at hh
  obtain ⟨⟨h', r⟩, hp, rfl⟩ := hh
  obtain ⟨w0, w1, w2, w3, w4, w5, w6, _, _, hs, _⟩ := (C11.parseHeader_eq_some C _ h' r).1 hp
  obtain ⟨e, hne⟩ := C11.parseSeq_some C w1 h'.seq hs
  rw [e]; exact hne

/-- the updater `try_recover_inner` rebuilds from status mask `done'` -/
def recovered (u : Upd) (S done' : Nat) : Upd :=
  { fw := { idx := u.fw.idx, size := S }, par := { idx := u.par.idx, size := S }, n := u.n,
    l := if u.used ≠ 0 then u.n - popcount done' MAX_SEGMENTS else 0, bs := u.bs, done := done', used := u.used,
    maxL := u.maxL, matrixOffset := u.maxL * u.bs, complete := popcount done' MAX_SEGMENTS == u.n }

/-- the geometry of an open session passes `is_reasonably_sized` -/
theorem reasonablySized_of_geo {u : Upd} {fsz : Nat} (g : Geo u fsz) : reasonablySized u.fw.size u.bs u.n = .ok () := by
  have hbs := g.hbs
  have hn := g.hn
  have hfit := g.hfit
  have hprod : u.bs * u.n ≤ 256 * 16384 := Nat.mul_le_mul hbs.2 hn.2
  unfold reasonablySized satMulU32
  simp only [show MAX_SEGMENT_SIZE = 256 from rfl, show MAX_SEGMENTS = 16384 from rfl,
    show DATA_REGION_OFFSET = 17408 from rfl]
  rw [if_neg (by omega), if_neg (by omega), Nat.min_eq_left (by omega), if_neg (by omega)]

/-- **`try_recover_inner` on an open session.** The device satisfies the session invariant with headers; the two
session headers are the two newest of the ring (parity newest); every other parsed header is settled. Then
recovery succeeds without touching the device, and returns the updater rebuilt from the status marks `done'` it
read — which are `done` while the session is incomplete and all `n` marks once it is complete. -/
theorem recover_run (nslots S : Nat) {u : Upd} {d : Dev} {sa sb : Nat} (LH : LawfulH u d sa sb)
    (hS : u.fw.size = S) (hin : nslots * S ≤ d.flash.size)
    (hnew : twoNewest (indexed (NoPanic.hdrs d.flash nslots S)) =
      (some (u.par.idx, parHdr u sb), some (u.fw.idx, fwHdr u sa)))
    (hoth : ∀ p ∈ indexed (NoPanic.hdrs d.flash nslots S), p.1 = u.par.idx ∨ p.1 = u.fw.idx ∨ Settled p.2) :
    ∃ done', (tryRecoverInner nslots S).run d = (.ok (some (recovered u S done')), d) ∧
      (∀ j, done'.testBit j = (decide (j < u.n) && decide (d.flash.byte (statAddr u j) = 0x33))) ∧
      (rcComplete u = false → done' = u.done) ∧ (rcComplete u = true → ∀ j, done'.testBit j = decide (j < u.n)) := by
  subst hS
  have L := LH.law
  have g := L.base.geo
  obtain ⟨h1, h2, h3, h4, h5, h6, h7⟩ := g.slots
  have hsa := hdrAt_seq_valid LH.hfw
  have hsb := hdrAt_seq_valid LH.hpar
  have tsf : totalStatus (fwHdr u sa) = .appWriteInProgress := by
    have : (sa != 0xFFFFFFFF) = true := by simpa [fwHdr] using hsa
    simp [totalStatus, fwHdr, this]
  have tsp : totalStatus (parHdr u sb) = .appWriteInProgress := by
    have : (sb != 0xFFFFFFFF) = true := by simpa [parHdr] using hsb
    simp [totalStatus, parHdr, this]
  -- the status scan
  have hnseg : NoPanic.nsegAt d.flash (u.fw.size * u.fw.idx + Consts.NSEG_OFFSET) = u.n := by
    rw [Nat.mul_comm]; exact NoPanic.hdrAt_nseg LH.hfw
  obtain ⟨done', hrunD, hbits, hinc, hcomp⟩ :=
    loadStatusArray_lawful L { idx := u.fw.idx, size := u.fw.size } rfl rfl hnseg
  -- the diagonal scan
  have hrunU := loadUsed_lawful L.base { idx := u.par.idx, size := u.fw.size } (u.maxL * u.bs) rfl h2.symm g.hmo.symm
  -- the count
  have hdn : ∀ i, u.n ≤ i → done'.testBit i = false := by
    intro i hi; rw [hbits i]; simp [show ¬ i < u.n by omega]
  have hcnt : popcount done' MAX_SEGMENTS = pop done' u.n := by
    rw [popcount_eq_pop]; exact pop_of_lt _ _ _ g.hn.2 hdn
  have hcntle := pop_le done' u.n
  have hl' : ¬ ((if u.used ≠ 0 then u.n - popcount done' MAX_SEGMENTS else 0) > u.maxL) := by
    by_cases hu : u.used = 0
    · simp [hu]
    · rw [if_pos hu, hcnt]
      cases hc : rcComplete u with
      | true =>
        have : pop done' u.n = u.n := (pop_eq_iff _ _).2 (fun i hi => by rw [hcomp hc i]; simpa using hi)
        omega
      | false =>
        rw [hinc hc]
        have hl0 : u.l ≠ 0 := by
          intro h0
          apply hu
          apply Nat.eq_of_testBit_eq
          intro p
          cases hb : u.used.testBit p with
          | false => simp
          | true => have := (L.base.hech p hb).1; omega
        have := L.base.hl2 hl0
        have := pop_add_unknowns u.done u.n
        have := L.base.hl
        omega
  unfold tryRecoverInner
  rw [run_bind, loadHeaders_run nslots u.fw.size L.base.good (by omega) hin]
  simp only [hnew, tsf, tsp, ne_eq, not_true_eq_false, ↓reduceIte]
  simp only [fwHdr, parHdr, not_true_eq_false, ↓reduceIte, show ¬ u.maxL > VBITS by show ¬ u.maxL > 2048; omega,
    reasonablySized_of_geo g, run_bind, remediate_silent _ _ _ d _ hoth, hrunD, hrunU, hl',
    show ¬ (¬ u.used = 0 ∧ u.n < popcount done' MAX_SEGMENTS) by rw [hcnt]; omega]
  exact ⟨done', rfl, hbits, hinc, hcomp⟩

/-! ## what the rebuilt updater stands for -/

/-- the updater with the firmware slot's segment-size cache filled (what the first `write_segment` does) -/
abbrev warm (u : Upd) : Upd := { u with fw := { u.fw with segSize := some u.bs } }

/-- two updaters that address the same regions -/
structure SameRegions (u w : Upd) : Prop where
  fi : w.fw.idx = u.fw.idx
  fs : w.fw.size = u.fw.size
  pi : w.par.idx = u.par.idx
  ps : w.par.size = u.par.size
  n : w.n = u.n
  bs : w.bs = u.bs
  maxL : w.maxL = u.maxL
  mo : w.matrixOffset = u.matrixOffset

/-- same regions, same addresses -/
theorem SameRegions.addrs {u w : Upd} (h : SameRegions u w) :
    (∀ i, segAddr w i = segAddr u i) ∧ (∀ i, statAddr w i = statAddr u i) ∧ (∀ m, pAddr w m = pAddr u m) ∧
    (∀ m, rAddr w m = rAddr u m) := by
  refine ⟨fun i => ?_, fun i => ?_, fun m => ?_, fun m => ?_⟩
  · simp only [segAddr, fwBase, h.fi, h.fs, h.bs]
  · simp only [statAddr, fwBase, h.fi, h.fs]
  · simp only [pAddr, parBase, h.pi, h.ps, h.bs]
  · simp only [rAddr, parBase, h.pi, h.ps, h.mo]

/-- same regions and pivots, same store contents -/
theorem SameRegions.vals {u w : Upd} (h : SameRegions u w) (hu : w.used = u.used) (f : Flash) :
    (∀ k, dsVal w f k = dsVal u f k) ∧ (∀ k, psVal w f k = psVal u f k) ∧ (∀ k, msVal w f k = msVal u f k) := by
  obtain ⟨a1, a2, a3, a4⟩ := h.addrs
  refine ⟨fun k => ?_, fun k => ?_, fun k => ?_⟩
  · simp only [dsVal, a1, a2, h.n, h.bs]
  · simp only [psVal, a3, h.maxL, h.bs, hu]
  · simp only [msVal, a4, h.maxL, hu]

/-- the rebuilt updater addresses the regions of the original -/
theorem sameRegions_recovered {u : Upd} {fsz : Nat} (g : Geo u fsz) (done' : Nat) :
    SameRegions u (warm (recovered u u.fw.size done')) :=
  ⟨rfl, rfl, rfl, g.hsz.symm, rfl, rfl, rfl, g.hmo.symm⟩

/-- the stage field recovery computes: 0 without stored rows, else the number of unknown blocks -/
theorem recovered_l {u : Upd} {d : Dev} (L : Lawful u d) :
    (recovered u u.fw.size u.done).l = if u.used = 0 then 0 else (unknowns u.done u.n).length := by
  have hdn : ∀ i, u.n ≤ i → u.done.testBit i = false := by
    intro i hi
    cases hb : u.done.testBit i with
    | false => rfl
    | true => have := L.base.hdone i hb; omega
  have hcnt : popcount u.done MAX_SEGMENTS = pop u.done u.n := by
    rw [popcount_eq_pop]; exact pop_of_lt _ _ _ L.base.geo.hn.2 hdn
  have := pop_add_unknowns u.done u.n
  show (if u.used ≠ 0 then u.n - popcount u.done MAX_SEGMENTS else 0) = _
  rw [hcnt]
  by_cases hu : u.used = 0
  · simp [hu]
  · simp only [hu, ne_eq, not_false_eq_true, ↓reduceIte]; omega

/-- **the rebuilt updater satisfies the session invariant** (with its segment-size cache filled), while the session
    is incomplete -/
theorem lawful_recovered {u : Upd} {d : Dev} (L : Lawful u d) (hinc : rcComplete u = false) :
    Lawful (warm (recovered u u.fw.size u.done)) d := by
  have g := L.base.geo
  have hR := sameRegions_recovered g u.done
  obtain ⟨a1, a2, a3, a4⟩ := hR.addrs
  obtain ⟨v1, v2, v3⟩ := hR.vals rfl d.flash
  have hl := recovered_l L
  have hlcases : (recovered u u.fw.size u.done).l = 0 ∨ (recovered u u.fw.size u.done).l = u.l := by
    rw [hl]
    by_cases hu : u.used = 0
    · left; simp [hu]
    · right
      rw [if_neg hu]
      have hl0 : u.l ≠ 0 := by
        intro h0
        apply hu
        apply Nat.eq_of_testBit_eq
        intro p
        cases hb : u.used.testBit p with
        | false => simp
        | true => have := (L.base.hech p hb).1; omega
      exact (L.base.hl2 hl0).symm
  have hcw : rcComplete (warm (recovered u u.fw.size u.done)) = false := by
    cases hc : rcComplete (warm (recovered u u.fw.size u.done)) with
    | false => rfl
    | true =>
      exfalso
      have hlw : (warm (recovered u u.fw.size u.done)).l = (recovered u u.fw.size u.done).l := rfl
      rcases hlcases with h0 | h0
      · have := (rcComplete_stage1 _ (hlw.trans h0)).1 hc
        by_cases hul : u.l = 0
        · have h2 := (rcComplete_stage1 u hul).2 this
          rw [hinc] at h2; cases h2
        · -- stage 2 entered without stored rows: some block is unknown
          have hne := L.base.hl2 hul
          have hnil : unknowns u.done u.n = [] := by
            apply List.eq_nil_iff_forall_not_mem.2
            intro m hm
            rw [Gf2.mem_unknowns] at hm
            have t : u.done.testBit m = true := this m hm.1
            rw [hm.2] at t; cases t
          rw [hnil] at hne
          exact hul hne
      · have hne : u.l ≠ 0 := by
          intro hul
          rw [hul] at h0
          have := (rcComplete_stage1 _ (hlw.trans h0)).1 hc
          have h2 := (rcComplete_stage1 u hul).2 this
          rw [hinc] at h2; cases h2
        have hc2 : rcComplete u = true := by
          have e : rcComplete (warm (recovered u u.fw.size u.done)) = rcComplete u := by
            simp only [rcComplete]
            rw [show (warm (recovered u u.fw.size u.done)).l = u.l from hlw.trans h0]
            rfl
          rw [← e]; exact hc
        rw [hinc] at hc2; cases hc2
  refine ⟨{ geo := ⟨g.hbs, g.hn, g.hfit, rfl, g.hmaxL, rfl, g.hne, g.hfwin, by rw [← g.hsz]; exact g.hparin, rfl⟩
            good := L.base.good, wf := L.base.wf, hl := ?_, hl2 := ?_, hdone := L.base.hdone, hstat := ?_,
            herD := ?_, hech := ?_, herP := ?_ }, fun h => by rw [hcw] at h; cases h⟩
  · rcases hlcases with h0 | h0
    · show (recovered u u.fw.size u.done).l ≤ u.maxL; rw [h0]; exact Nat.zero_le _
    · show (recovered u u.fw.size u.done).l ≤ u.maxL; rw [h0]; exact L.base.hl
  · intro hne
    show (recovered u u.fw.size u.done).l = (unknowns u.done u.n).length
    have hne' : (recovered u u.fw.size u.done).l ≠ 0 := hne
    rw [hl] at hne' ⊢
    by_cases hu : u.used = 0
    · simp [hu] at hne'
    · simp [hu]
  · intro i hi
    rw [a2]; exact L.base.hstat i hi
  · intro i hi hE
    rw [a1, a2]
    exact L.base.herD i hi ⟨hinc, hE.2⟩
  · intro p hp
    have := L.base.hech p hp
    rw [v3]
    refine ⟨?_, this.2⟩
    show p < (recovered u u.fw.size u.done).l
    rcases hlcases with h0 | h0
    · exfalso
      rw [hl] at h0
      by_cases hu : u.used = 0
      · have hp' : u.used.testBit p = true := hp
        rw [hu] at hp'; simp at hp'
      · rw [if_neg hu] at h0
        have hl0 : u.l ≠ 0 := by omega
        have := L.base.hl2 hl0
        omega
    · rw [h0]; exact this.1
  · intro m hm hu
    rw [a3, a4]
    exact L.base.herP m hm hu

/-- **what recovery rebuilds is the rehydrated abstraction**: the abstraction of the rebuilt updater has the contents
    of `rehydrate (abs (u, d))` (same scalars and bit sets, `l` recomputed, stores read off the same flash) -/
theorem abs_recovered_eqv {u : Upd} {d : Dev} (L : Lawful u d) :
    Fault.Eqv (abs (recovered u u.fw.size u.done, d)) (Fault.reh (abs (u, d))) := by
  have g := L.base.geo
  have hR : SameRegions u (recovered u u.fw.size u.done) :=
    ⟨rfl, rfl, rfl, g.hsz.symm, rfl, rfl, rfl, g.hmo.symm⟩
  obtain ⟨v1, v2, v3⟩ := hR.vals rfl d.flash
  obtain ⟨_, _, _, _, _, a6, a7, a8⟩ := sim_abs (recovered u u.fw.size u.done) d
  obtain ⟨_, _, _, _, _, b6, b7, b8⟩ := sim_abs u d
  refine ⟨rfl, rfl, ?_, rfl, rfl, fun k => ?_, fun k => ?_, fun k => ?_⟩
  · show (recovered u u.fw.size u.done).l = _
    rw [recovered_l L]; rfl
  · rw [a6, v1]; exact (b6 k).symm
  · rw [a7, v2]; exact (b7 k).symm
  · rw [a8, v3]; exact (b8 k).symm

end Fuota.Updater
