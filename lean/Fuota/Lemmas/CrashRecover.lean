import Fuota.Lemmas.CrashSess
/-!
# Recovery keeps the crash invariant and re-opens the session
-/
namespace Fuota.Crash
open Fuota.Nor Fuota.Fs Fuota.Layout Fuota.Ops Fuota.Updater Fuota.C14

variable {nslots s B : Nat}

theorem appWIP_ext {h : Header} (e : totalStatus h = .appWriteInProgress) : h.ext = .inProgress := by
  unfold totalStatus at e
  cases hv : (h.seq != 0xFFFFFFFF) <;> cases hext : h.ext <;> cases hi : h.ist <;> cases hb : h.boot <;>
    simp_all

/-- side condition carried through remediation: the two session headers (and the block size, which no operation
    changes) -/
def Keep2 (s B fi pi : Nat) (f : Flash) : Prop := f.block = B ∧ SessHdr s f fi pi

theorem Keep2.frame {s B fi pi : Nat} {f : Flash} (h : Keep2 s B fi pi f) (hs : 28 ≤ s) (i : Nat) (op : Op)
    (hin : InSlot B s i op) (h1 : i ≠ fi) (h2 : i ≠ pi) : Keep2 s B fi pi (f.apply op) :=
  ⟨by rw [apply_block]; exact h.1, h.2.frame hs i op (by rw [h.1]; exact hin) h1 h2⟩

theorem remediateAbort_keeps (hs : 17412 ≤ s) (fi pi : Nat) : ∀ (l : List (Nat × Header)),
    Keeps (fun f => CVW nslots s B f ∧ Pending s l f ∧ Keep2 s B fi pi f) (remediateAbort s pi fi l)
      (fun _ f => CVW nslots s B f ∧ Keep2 s B fi pi f) (CVW nslots s B) := by
  intro l
  induction l with
  | nil => exact Keeps.pure (fun f hf => ⟨hf.1, hf.1, hf.2.2⟩)
  | cons p l ih =>
    obtain ⟨i, h⟩ := p
    unfold remediateAbort
    dsimp only
    have hrest : Keeps (fun f => CVW nslots s B f ∧ Pending s ((i, h) :: l) f ∧ Keep2 s B fi pi f)
        (remediateAbort s pi fi l) (fun _ f => CVW nslots s B f ∧ Keep2 s B fi pi f) (CVW nslots s B) :=
      ih.pre (fun f hf => ⟨hf.1, fun q hq => hf.2.1 q (List.mem_cons_of_mem _ hq), hf.2.2⟩)
    split
    · exact hrest
    · rename_i hskip
      split
      · rename_i hst
        refine Keeps.seq (Q' := fun _ f => CVW nslots s B f ∧ Pending s l f ∧ Keep2 s B fi pi f) ?_ (fun _ => ih)
        refine (abort_keeps (nslots := nslots) (B := B) hs (fun f => Pending s l f ∧ Keep2 s B fi pi f) i
          ?_).conseq ?_ ?_ ?_
        · intro f bs hbs hl hX
          refine ⟨pending_program f _ bs hbs hX.1, ?_⟩
          exact hX.2.frame (by omega) i _ ⟨by omega, by omega⟩ (fun e => hskip (Or.inr e)) (fun e => hskip (Or.inl e))
        · intro f hf
          exact ⟨hf.1, hf.2.1 (i, h) List.mem_cons_self (appWIP_ext hst),
            fun q hq => hf.2.1 q (List.mem_cons_of_mem _ hq), hf.2.2⟩
        · intro _ f hf; exact ⟨hf.1, hf.2.2⟩
        · intro f hf; exact hf.1
      · exact hrest

theorem remediateErase_keeps (hs : 17412 ≤ s) (hB : 28 ≤ B) (fi pi : Nat) : ∀ (l : List (Nat × Header)),
    Keeps (fun f => CVW nslots s B f ∧ Keep2 s B fi pi f) (remediateErase s pi fi l)
      (fun _ f => CVW nslots s B f ∧ Keep2 s B fi pi f) (CVW nslots s B) := by
  intro l
  induction l with
  | nil => exact Keeps.pure (fun f hf => ⟨hf.1, hf⟩)
  | cons p l ih =>
    obtain ⟨i, h⟩ := p
    unfold remediateErase
    dsimp only
    split
    · exact ih
    · rename_i hskip
      have hclear : Keeps (fun f => CVW nslots s B f ∧ Keep2 s B fi pi f) (Slot.clear { idx := i, size := s })
          (fun _ f => CVW nslots s B f ∧ Keep2 s B fi pi f) (CVW nslots s B) :=
        (clear_keeps hs hB (Keep2 s B fi pi) i (fun f a hin hX =>
          hX.frame (by omega) i _ hin (fun e => hskip (Or.inr e)) (fun e => hskip (Or.inl e)))).conseq
          (fun _ h => h) (fun _ _ h => ⟨h.1, h.2.1⟩) (fun _ h => h.1)
      split
      · exact Keeps.seq hclear (fun _ => ih)
      · exact Keeps.seq hclear (fun _ => ih)
      · exact ih

theorem remediate_keeps (hs : 17412 ≤ s) (hB : 28 ≤ B) (fi pi : Nat) (l : List (Nat × Header)) :
    Keeps (fun f => CVW nslots s B f ∧ Pending s l f ∧ Keep2 s B fi pi f) (remediate s pi fi l)
      (fun _ f => CVW nslots s B f ∧ Keep2 s B fi pi f) (CVW nslots s B) := by
  unfold remediate
  exact Keeps.seq (remediateAbort_keeps hs fi pi l) (fun _ => remediateErase_keeps hs hB fi pi l)

/-- the session headers, read off two parsed headers -/
theorem sessHdr_of_headers {f : Flash} (hwf : WF f) (s : Nat) (sn nw : Nat × Header)
    (hsn : hdrAt f s sn.1 = some sn.2) (hnw : hdrAt f s nw.1 = some nw.2)
    (h1 : totalStatus sn.2 = .appWriteInProgress) (h2 : nw.2.kind = .parity)
    (h3 : reasonablySized s sn.2.size sn.2.n = .ok ()) : SessHdr s f sn.1 nw.1 := by
  obtain ⟨r1, p1⟩ := hdrAt_some hsn
  obtain ⟨r2, p2⟩ := hdrAt_some hnw
  obtain ⟨_, _, w8, w12, w16, _, _⟩ := parse_words f _ _ _ p1
  obtain ⟨w0, _, _, _, _, _, _⟩ := parse_words f _ _ _ p2
  refine ⟨?_, ?_, ?_⟩
  · rw [appWIP_ext h1] at w16
    exact (extFF_of_parse hwf _ w16).sup
  · rw [h2] at w0
    have := C11.parseKind_some _ _ _ w0
    rw [← this]; decide
  · intro sz n e1 e2
    rw [w8] at e1; rw [w12] at e2
    cases e1; cases e2
    exact (reasonablySized_ok h3).2.2.2.2.1

/-- **`try_recover_inner`** keeps the invariant at every crash point; a session it returns is open on the flash -/
theorem tryRecoverInner_keeps (hs : 17412 ≤ s) (hB : 28 ≤ B) :
    Keeps (CVW nslots s B) (tryRecoverInner nslots s)
      (fun r f => CVW nslots s B f ∧ ∀ u, r = some u → SessFlash s f u) (CVW nslots s B) := by
  unfold tryRecoverInner
  dsimp only
  simp only [throw_bind]
  refine Keeps.bind (loadHeaders_keeps nslots s _) (fun hs' => ?_)
  have hnone : ∀ P : Flash → Prop, (∀ f, P f → CVW nslots s B f) → Keeps P (pure none : M (Option Upd))
      (fun r f => CVW nslots s B f ∧ ∀ u, r = some u → SessFlash s f u) (CVW nslots s B) :=
    fun P hP => Keeps.pure (fun f hf => ⟨hP f hf, hP f hf, fun u hu => by cases hu⟩)
  split
  · rename_i nw sn htw
    have hpick := twoNewest_pick (fun p => p ∈ indexed hs') (indexed hs') (fun p hp => hp)
    rw [htw] at hpick
    have hnw : nw ∈ indexed hs' := hpick.1 nw rfl
    have hsn : sn ∈ indexed hs' := hpick.2 sn rfl
    apply Keeps.ite (fun _ => hnone _ (fun f h => h.1)); intro c1
    apply Keeps.ite (fun _ => hnone _ (fun f h => h.1)); intro c2
    apply Keeps.ite (fun _ => hnone _ (fun f h => h.1)); intro c3
    apply Keeps.ite (fun _ => hnone _ (fun f h => h.1)); intro c4
    apply Keeps.ite (fun _ => hnone _ (fun f h => h.1)); intro _
    apply Keeps.ite (fun _ => hnone _ (fun f h => h.1)); intro _
    split
    · exact hnone _ (fun f h => h.1)
    · rename_i hrs
      have d2 : nw.2.kind = Kind.parity := Decidable.not_not.1 c2
      have d3 : totalStatus sn.2 = TotalStatus.appWriteInProgress := Decidable.not_not.1 c3
      refine Keeps.seq (Q' := fun _ f => CVW nslots s B f ∧ Keep2 s B sn.1 nw.1 f)
        ((remediate_keeps hs hB sn.1 nw.1 (indexed hs')).pre ?_) (fun _ => ?_)
      · intro f hf
        obtain ⟨hJ, rfl⟩ := hf
        refine ⟨hJ, pending_of_headers hJ.wf nslots s, hJ.block, ?_⟩
        exact sessHdr_of_headers hJ.wf s sn nw (indexed_spec nslots _ sn hsn).2 (indexed_spec nslots _ nw hnw).2
          d3 d2 hrs
      · refine Keeps.bind ((Keeps.of_silent (P := fun f => CVW nslots s B f ∧ Keep2 s B sn.1 nw.1 f)
          (fun B' => loadStatusArray_emits (B := B') _ _)).conseq (fun _ h => h) (fun _ _ h => h.1)
          (fun _ h => h.1)) (fun done => ?_)
        refine Keeps.bind ((Keeps.of_silent (P := fun f => CVW nslots s B f ∧ Keep2 s B sn.1 nw.1 f)
          (fun B' => loadUsed_emits (B := B') _ _ _ _)).conseq (fun _ h => h) (fun _ _ h => h.1)
          (fun _ h => h.1)) (fun used => ?_)
        apply Keeps.ite (fun _ => Keeps.throw (fun f h => h.1)); intro _
        apply Keeps.ite (fun _ => hnone _ (fun f h => h.1)); intro _
        apply Keeps.pure
        intro f hf
        refine ⟨hf.1, hf.1, ?_⟩
        intro u hu
        cases hu
        exact ⟨rfl, rfl, hf.2.2⟩
  · exact hnone _ (fun f h => h.1)

/-- **`try_recover`** (recovery, or cancellation when there is nothing to recover) -/
theorem tryRecover_keeps (hs : 17412 ≤ s) (hB : 28 ≤ B) :
    Keeps (CVW nslots s B) (tryRecover nslots s)
      (fun r f => CVW nslots s B f ∧ ∀ u, r = some u → SessFlash s f u) (CVW nslots s B) := by
  unfold tryRecover
  refine Keeps.bind (tryRecoverInner_keeps hs hB) (fun r => ?_)
  dsimp only
  have hp : Keeps (fun f => CVW nslots s B f ∧ ∀ u, r = some u → SessFlash s f u) (pure r : M (Option Upd))
      (fun r f => CVW nslots s B f ∧ ∀ u, r = some u → SessFlash s f u) (CVW nslots s B) :=
    Keeps.pure (fun f hf => ⟨hf.1, hf⟩)
  split
  · rename_i hnone
    have hr : r = none := by cases r <;> simp_all
    subst hr
    refine Keeps.seq ((cancelAll_keeps hs).pre (fun f h => h.1)) (fun _ => Keeps.pure ?_)
    intro f hf
    exact ⟨hf, hf, fun u hu => by cases hu⟩
  · exact hp

end Fuota.Crash
