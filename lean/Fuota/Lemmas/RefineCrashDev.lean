import Fuota.Lemmas.RefineMonad
/-!
# The device monad on a device with one armed transient fault or one armed power loss
-/
namespace Fuota.Fs
open Fuota.Nor Fuota.FlashAdapters

/-- re-programming the same bytes changes nothing more (`(x &&& b) &&& b = x &&& b`) -/
theorem apply_program_idem (f : Flash) (a : Nat) (bs : List Nat) :
    (f.apply (.program a bs)).apply (.program a bs) = f.apply (.program a bs) := by
  apply Flash.ext_byte
  · simp only [size_apply_program]
  · rfl
  · intro x
    rw [byte_apply_program, byte_apply_program]
    simp only [size_apply_program]
    split
    · rw [Nat.and_assoc, Nat.and_self]
    · rfl

/-- the device with a transient fault armed on the `j`-th mutating operation from now -/
def Dev.withFault (d : Dev) (j : Nat) : Dev := { d with failAt := some (d.nmut + j) }

/-- the device with a power loss armed before the `j`-th mutating operation from now -/
def Dev.withCrash (d : Dev) (j : Nat) : Dev := { d with crashAt := some (d.nmut + j, none) }

/-- what a reboot does to the device: power is back, the crash point is consumed -/
def Dev.reboot (d : Dev) : Dev := { d with dead := false, crashAt := none }

/-- one transient fault is pending on the `j`-th mutating operation from now, nothing else -/
structure Faulty (j : Nat) (d : Dev) : Prop where
  crash : d.crashAt = none
  alive : d.dead = false
  fail : d.failAt = some (d.nmut + j)

/-- a power loss is pending before the `j`-th mutating operation from now, nothing else -/
structure Armed (j : Nat) (d : Dev) : Prop where
  crash : d.crashAt = some (d.nmut + j, none)
  alive : d.dead = false
  fail : d.failAt = none

/-- arming a fault on a good device -/
theorem Good.withFault {d : Dev} (h : Good d) (j : Nat) : Faulty j (d.withFault j) := ⟨h.crash, h.alive, rfl⟩
/-- arming a crash on a good device -/
theorem Good.withCrash {d : Dev} (h : Good d) (j : Nat) : Armed j (d.withCrash j) := ⟨rfl, h.alive, h.fail⟩

/-- consuming the fault of a device that was good before it was armed gives the device back -/
theorem withFault_cleared {d : Dev} (h : Good d) (j : Nat) : { d.withFault j with failAt := none } = d := by
  obtain ⟨f, o, n, c, fa, de, ns⟩ := d
  have : fa = none := h.fail
  subst this
  rfl

/-- rebooting a device that died before doing anything gives the device back -/
theorem withCrash_reboot {d : Dev} (h : Good d) (j : Nat) :
    ({ d.withCrash j with dead := true } : Dev).reboot = d := by
  obtain ⟨f, o, n, c, fa, de, ns⟩ := d
  have h1 : c = none := h.crash
  have h2 : de = false := h.alive
  subst h1; subst h2
  rfl

/-- reads work on every live device -/
theorem readTo_run_live {d : Dev} (h : d.dead = false) (a len : Nat) (hb : a + len ≤ d.flash.size) :
    (readTo a len).run d = (.ok (d.flash.read a len), d) := by
  unfold readTo
  simp [run_bind, run_get, run_pure, h, Flash.readChecked, hb]

/-- on a dead device every read fails -/
theorem readTo_run_dead {d : Dev} (h : d.dead = true) (a len : Nat) :
    (readTo a len).run d = (.error (.spi .custom), d) := by
  unfold readTo
  simp [run_bind, run_get, h, run_throw]

/-- on a dead device every program fails -/
theorem writeFrom_run_dead {d : Dev} (h : d.dead = true) (a : Nat) (bs : List Nat) :
    (writeFrom a bs).run d = (.error (.spi .custom), d) := by
  unfold writeFrom
  simp [run_bind, run_get, h, run_throw]

/-- the pending fault hits this program: it fails, nothing is programmed, the fault is consumed -/
theorem writeFrom_run_fault {d : Dev} (h : Faulty 0 d) (a : Nat) (bs : List Nat) (hb : a + bs.length ≤ d.flash.size) :
    (writeFrom a bs).run d = (.error (.spi .custom), { d with failAt := none }) := by
  unfold writeFrom mutate
  have hb' : ¬ d.flash.size < a + bs.length := by omega
  have hf : d.failAt = some d.nmut := by rw [h.fail, Nat.add_zero]
  simp [run_bind, run_get, run_set, run_throw, h.alive, Flash.canProgram, hb', h.crash, hf]

/-- the pending fault is for a later operation: this program succeeds -/
theorem writeFrom_run_faulty {d : Dev} {j : Nat} (h : Faulty (j + 1) d) (a : Nat) (bs : List Nat)
    (hb : a + bs.length ≤ d.flash.size) :
    (writeFrom a bs).run d = (.ok (), d.prog a bs) ∧ Faulty j (d.prog a bs) := by
  have hb' : ¬ d.flash.size < a + bs.length := by omega
  have hf : ¬ d.failAt = some d.nmut := by rw [h.fail]; simp
  refine ⟨?_, ⟨h.crash, h.alive, ?_⟩⟩
  · unfold writeFrom mutate
    simp [run_bind, run_get, run_set, h.alive, Flash.canProgram, hb', h.crash, hf, Dev.prog]
  · show d.failAt = some (d.nmut + 1 + j)
    rw [h.fail]; congr 1; omega

/-- the pending power loss hits before this program: nothing is programmed, the device is dead -/
theorem writeFrom_run_crash {d : Dev} (h : Armed 0 d) (a : Nat) (bs : List Nat) (hb : a + bs.length ≤ d.flash.size) :
    (writeFrom a bs).run d = (.error (.spi .custom), { d with dead := true }) := by
  unfold writeFrom mutate
  have hb' : ¬ d.flash.size < a + bs.length := by omega
  have hc : d.crashAt = some (d.nmut, none) := by rw [h.crash, Nat.add_zero]
  simp [run_bind, run_get, run_set, run_throw, h.alive, Flash.canProgram, hb', hc]

/-- the pending power loss is for a later operation: this program succeeds -/
theorem writeFrom_run_armed {d : Dev} {j : Nat} (h : Armed (j + 1) d) (a : Nat) (bs : List Nat)
    (hb : a + bs.length ≤ d.flash.size) :
    (writeFrom a bs).run d = (.ok (), d.prog a bs) ∧ Armed j (d.prog a bs) := by
  have hb' : ¬ d.flash.size < a + bs.length := by omega
  refine ⟨?_, ⟨?_, h.alive, h.fail⟩⟩
  · unfold writeFrom mutate
    simp [run_bind, run_get, run_set, h.alive, Flash.canProgram, hb', h.crash, h.fail, Dev.prog]
  · show d.crashAt = some (d.nmut + 1 + j, none)
    rw [h.crash]; congr 2; omega

/-- every device with one pending fault is a good device with that fault armed -/
theorem Faulty.eq_withFault {j : Nat} {e : Dev} (h : Faulty j e) :
    Good { e with failAt := none } ∧ e = ({ e with failAt := none } : Dev).withFault j := by
  obtain ⟨f, o, n, c, fa, de, ns⟩ := e
  have h1 : c = none := h.crash
  have h2 : de = false := h.alive
  have h3 : fa = some (n + j) := h.fail
  subst h1 h2 h3
  exact ⟨⟨rfl, rfl, rfl⟩, rfl⟩

/-- every device with one pending power loss is a good device with that power loss armed -/
theorem Armed.eq_withCrash {j : Nat} {e : Dev} (h : Armed j e) :
    Good { e with crashAt := none } ∧ e = ({ e with crashAt := none } : Dev).withCrash j := by
  obtain ⟨f, o, n, c, fa, de, ns⟩ := e
  have h1 : c = some (n + j, none) := h.crash
  have h2 : de = false := h.alive
  have h3 : fa = none := h.fail
  subst h1 h2 h3
  exact ⟨⟨rfl, rfl, rfl⟩, rfl⟩

end Fuota.Fs
