import Fuota.Lemmas.CrashWord
import Fuota.Lemmas.OpsSess
/-!
# A Hoare logic on the flash for the device monad, valid at every crash point

`Keeps P x Q E`: started on **any** device whose flash satisfies `P` (any crash point, clean or tearing, any pending
fault, dead or alive), the flash after `x` satisfies `E` — whether `x` returned, failed, or was cut short by the
crash — and satisfies `Q a` when `x` returned `a`. Because the device state is universally quantified, "`E` holds
after the run" **is** "`E` holds at every crash point of `x`": the run with the crash point at operation `k`
(torn or not) ends with the flash as the crash left it.
-/
namespace Fuota.Crash
open Fuota.Nor Fuota.Fs Fuota.Layout Fuota.Ops Fuota.Updater

variable {α β : Type}

def Keeps (P : Flash → Prop) (x : M α) (Q : α → Flash → Prop) (E : Flash → Prop) : Prop :=
  ∀ d : Dev, P d.flash → E (x.run d).2.flash ∧ ∀ a, (x.run d).1 = .ok a → Q a (x.run d).2.flash

theorem Keeps.pure {P E : Flash → Prop} {Q : α → Flash → Prop} {a : α} (h : ∀ f, P f → E f ∧ Q a f) :
    Keeps P (pure a : M α) Q E := by
  intro d hP
  refine ⟨(h _ hP).1, ?_⟩
  intro a' ha'
  rw [run_pure] at ha'
  cases ha'
  exact (h _ hP).2

theorem Keeps.throw {P E : Flash → Prop} {Q : α → Flash → Prop} {e : MErr} (h : ∀ f, P f → E f) :
    Keeps P (throw e : M α) Q E := by
  intro d hP
  refine ⟨h _ hP, ?_⟩
  intro a ha
  rw [run_throw] at ha
  cases ha

theorem Keeps.bind {P E : Flash → Prop} {Q' : α → Flash → Prop} {Q : β → Flash → Prop} {x : M α} {f : α → M β}
    (hx : Keeps P x Q' E) (hf : ∀ a, Keeps (Q' a) (f a) Q E) : Keeps P (x >>= f) Q E := by
  intro d hP
  obtain ⟨hE, hQ⟩ := hx d hP
  rw [run_bind]
  rcases hrun : x.run d with ⟨r, d'⟩
  rw [hrun] at hE hQ
  cases r with
  | error e => exact ⟨hE, fun a ha => by cases ha⟩
  | ok a => exact hf a d' (hQ a rfl)

theorem Keeps.seq {P E : Flash → Prop} {Q' : α → Flash → Prop} {Q : β → Flash → Prop} {x : M α} {y : M β}
    (hx : Keeps P x Q' E) (hy : ∀ a, Keeps (Q' a) y Q E) : Keeps P (x >>= fun _ => y) Q E := hx.bind hy

theorem Keeps.conseq {P P' E E' : Flash → Prop} {Q Q' : α → Flash → Prop} {x : M α} (h : Keeps P x Q E)
    (hP : ∀ f, P' f → P f) (hQ : ∀ a f, Q a f → Q' a f) (hE : ∀ f, E f → E' f) : Keeps P' x Q' E' := by
  intro d hd
  obtain ⟨h1, h2⟩ := h d (hP _ hd)
  exact ⟨hE _ h1, fun a ha => hQ a _ (h2 a ha)⟩

theorem Keeps.pre {P P' E : Flash → Prop} {Q : α → Flash → Prop} {x : M α} (h : Keeps P x Q E)
    (hP : ∀ f, P' f → P f) : Keeps P' x Q E := h.conseq hP (fun _ _ h => h) (fun _ h => h)

theorem Keeps.post {P E : Flash → Prop} {Q Q' : α → Flash → Prop} {x : M α} (h : Keeps P x Q E)
    (hQ : ∀ a f, Q a f → Q' a f) : Keeps P x Q' E := h.conseq (fun _ h => h) hQ (fun _ h => h)

/-- `do let d ← get; k d`: the continuation may use that the state read has the current flash -/
theorem Keeps.get_bind {P E : Flash → Prop} {Q : β → Flash → Prop} {k : Dev → M β}
    (h : ∀ d0 : Dev, Keeps (fun f => P f ∧ f = d0.flash) (k d0) Q E) : Keeps P (get >>= k) Q E := by
  intro d hP
  rw [run_bind, run_get]
  exact h d d ⟨hP, rfl⟩

theorem Keeps.ite {P E : Flash → Prop} {Q : α → Flash → Prop} {c : Prop} [Decidable c] {x y : M α}
    (hx : c → Keeps P x Q E) (hy : ¬ c → Keeps P y Q E) : Keeps P (if c then x else y) Q E := by
  split
  · exact hx ‹_›
  · exact hy ‹_›

/-- a precondition that cannot hold -/
theorem Keeps.false {x : M α} {Q : α → Flash → Prop} {E : Flash → Prop} : Keeps (fun _ => False) x Q E :=
  fun _ h => h.elim

/-! ## the flash primitives -/

/-- the three things `mutate` can do to the flash -/
theorem mutate_flash_cases (op : Op) (d : Dev) :
    (((mutate op).run d).2.flash = d.flash ∧ ∃ e, ((mutate op).run d).1 = .error e) ∨
    (∃ p keep, ((mutate op).run d).2.flash = d.flash.apply (tear p keep op) ∧
      ∃ e, ((mutate op).run d).1 = .error e) ∨
    (((mutate op).run d).2.flash = d.flash.apply op ∧ ((mutate op).run d).1 = .ok ()) := by
  unfold mutate
  dsimp only
  simp only [throw_bind]
  rw [run_bind, run_get]
  dsimp only
  have tail : ∀ x : M Unit, x = (if d.failAt = some d.nmut then do
          set { d with failAt := none }
          throw (MErr.spi SpiErr.custom)
        else
          set { d with flash := d.flash.apply op, ops := op :: d.ops, nmut := d.nmut + 1,
                       needsSet := d.needsSet + (match op with
                          | .program a bs => if d.flash.needsSet a bs then 1 else 0
                          | .erase _ => 0) }) →
      ((x.run d).2.flash = d.flash ∧ ∃ e, (x.run d).1 = .error e) ∨
      (∃ p keep, (x.run d).2.flash = d.flash.apply (tear p keep op) ∧ ∃ e, (x.run d).1 = .error e) ∨
      ((x.run d).2.flash = d.flash.apply op ∧ (x.run d).1 = .ok ()) := by
    intro x hx
    subst hx
    split
    · exact Or.inl ⟨rfl, _, rfl⟩
    · exact Or.inr (Or.inr ⟨rfl, rfl⟩)
  split
  · split
    · split
      · exact Or.inr (Or.inl ⟨_, _, rfl, _, rfl⟩)
      · exact Or.inl ⟨rfl, _, rfl⟩
    · exact tail _ rfl
  · exact tail _ rfl

theorem Keeps.mutate {P E Q : Flash → Prop} (op : Op)
    (h : ∀ f, P f → E f ∧ (∀ p keep, E (f.apply (tear p keep op))) ∧ E (f.apply op) ∧ Q (f.apply op)) :
    Keeps P (mutate op) (fun _ => Q) E := by
  intro d hP
  obtain ⟨h1, h2, h3, h4⟩ := h _ hP
  rcases mutate_flash_cases op d with ⟨hf, e, he⟩ | ⟨p, keep, hf, e, he⟩ | ⟨hf, hr⟩
  · rw [hf, he]; exact ⟨h1, fun a ha => by cases ha⟩
  · rw [hf, he]; exact ⟨h2 p keep, fun a ha => by cases ha⟩
  · rw [hf]; exact ⟨h3, fun _ _ => h4⟩

/-- `write_from`: nothing, a torn program, or the program — the last two only inside the device -/
theorem Keeps.writeFrom {P E Q : Flash → Prop} (a : Nat) (bs : List Nat)
    (h : ∀ f, P f → E f ∧ (a + bs.length ≤ f.size →
      (∀ p keep, E (f.apply (tear p keep (.program a bs)))) ∧ E (f.apply (.program a bs)) ∧
        Q (f.apply (.program a bs)))) :
    Keeps P (writeFrom a bs) (fun _ => Q) E := by
  unfold Fs.writeFrom
  dsimp only
  simp only [throw_bind]
  apply Keeps.get_bind
  intro d0
  apply Keeps.ite
  · intro _; exact Keeps.throw (fun f hf => (h f hf.1).1)
  · intro _
    apply Keeps.ite
    · intro _; exact Keeps.throw (fun f hf => (h f hf.1).1)
    · intro hc
      apply Keeps.mutate
      intro f hf
      obtain ⟨hP, rfl⟩ := hf
      have hin : a + bs.length ≤ d0.flash.size := by
        unfold Flash.canProgram at hc; simpa using hc
      obtain ⟨h1, h2⟩ := h _ hP
      exact ⟨h1, (h2 hin).1, (h2 hin).2.1, (h2 hin).2.2⟩

/-- `erase_block`: nothing, or the erase of an aligned block inside the device -/
theorem Keeps.eraseBlock {P E Q : Flash → Prop} (a : Nat)
    (h : ∀ f, P f → E f ∧ (a % f.block = 0 → a + f.block ≤ f.size →
      E (f.apply (.erase a)) ∧ Q (f.apply (.erase a)))) :
    Keeps P (eraseBlock a) (fun _ => Q) E := by
  unfold Fs.eraseBlock
  dsimp only
  simp only [throw_bind]
  apply Keeps.get_bind
  intro d0
  apply Keeps.ite
  · intro _; exact Keeps.throw (fun f hf => (h f hf.1).1)
  · intro _
    apply Keeps.ite
    · intro _; exact Keeps.throw (fun f hf => (h f hf.1).1)
    · intro hal
      apply Keeps.ite
      · intro _; exact Keeps.throw (fun f hf => (h f hf.1).1)
      · intro hin
        apply Keeps.mutate
        intro f hf
        obtain ⟨hP, rfl⟩ := hf
        have hal' : a % d0.flash.block = 0 := by simpa using hal
        obtain ⟨h1, h2⟩ := h _ hP
        obtain ⟨h3, h4⟩ := h2 hal' (by omega)
        exact ⟨h1, fun _ _ => h3, h3, h4⟩

/-- a read changes nothing; when it succeeds it returns the bytes on flash, from inside the device -/
theorem Keeps.readTo {P E : Flash → Prop} (a len : Nat) (hPE : ∀ f, P f → E f) :
    Keeps P (readTo a len) (fun bs f => P f ∧ bs = f.read a len ∧ a + len ≤ f.size) E := by
  intro d hP
  cases hd : d.dead with
  | true =>
    rw [readTo_run_dead hd]
    exact ⟨hPE _ hP, fun a ha => by cases ha⟩
  | false =>
    rw [readTo_run hd, Firmware.readChecked_eq]
    by_cases hin : a + len ≤ d.flash.size
    · rw [if_pos hin]
      refine ⟨hPE _ hP, ?_⟩
      intro bs hbs
      cases hbs
      exact ⟨hP, rfl, hin⟩
    · rw [if_neg hin]
      exact ⟨hPE _ hP, fun a ha => by cases ha⟩

/-- any computation that leaves the device unchanged when it runs on… — the general rule for read-only code:
    from a footprint that emits nothing -/
theorem Keeps.of_silent {P : Flash → Prop} {R : α → Prop} {x : M α}
    (h : ∀ B, EmitsR B (fun _ => False) R x) : Keeps P x (fun a f => P f ∧ R a) P := by
  intro d hP
  obtain ⟨_, ⟨new, hrep, hq⟩, hr⟩ := h d.flash.block d rfl
  have : new = [] := by
    cases new with
    | nil => rfl
    | cons o os => exact (hq o List.mem_cons_self).elim
  subst this
  have hf : (x.run d).2.flash = d.flash := hrep.flash
  rw [hf]
  exact ⟨hP, fun a ha => ⟨hP, hr a ha⟩⟩

/-- from a footprint: if every emitted operation preserves `J`, the computation keeps `J` -/
theorem Keeps.of_emits {J : Flash → Prop} {B : Nat} {Q : Op → Prop} {R : α → Prop} {x : M α}
    (h : EmitsR B Q R x) (hB : ∀ f, J f → f.block = B) (hJ : ∀ f op, Q op → J f → J (f.apply op)) :
    Keeps J x (fun a f => J f ∧ R a) J := by
  intro d hP
  obtain ⟨_, ⟨new, hrep, hq⟩, hr⟩ := h d (hB _ hP)
  have key : ∀ (l : List Op) (f : Flash), (∀ op ∈ l, Q op) → J f → J (f.applyAll l) := by
    intro l
    induction l with
    | nil => intro f _ hf; exact hf
    | cons o l ih =>
      intro f hl hf
      exact ih _ (fun op hop => hl op (List.mem_cons_of_mem _ hop)) (hJ f o (hl o List.mem_cons_self) hf)
  have hfin : J (x.run d).2.flash := by
    rw [hrep.flash]
    exact key _ _ (fun op hop => hq op (List.mem_reverse.1 hop)) hP
  exact ⟨hfin, fun a ha => ⟨hfin, hr a ha⟩⟩

end Fuota.Crash
