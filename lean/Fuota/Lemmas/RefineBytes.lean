import Fuota.Model.Updater
/-!
# Byte lists as numbers: `bytesToNat`, `natToBytes`, `xorBytes`, `flipBit` (used by the L2 → L0 refinement)
-/
namespace Fuota.Updater

/-- every element is a byte -/
def IsBytes (bs : List Nat) : Prop := ∀ b ∈ bs, b < 256

/-- the empty list is a byte list -/
theorem IsBytes.nil : IsBytes [] := fun _ h => by simp at h

/-- a cons is a byte list when head and tail are -/
theorem isBytes_cons (b : Nat) (bs : List Nat) : IsBytes (b :: bs) ↔ b < 256 ∧ IsBytes bs := by
  simp [IsBytes]

/-! ## `xorBytes` -/

/-- the XOR of two buffers has the length of the first -/
theorem length_xorBytes : ∀ (a b : List Nat), (xorBytes a b).length = a.length
  | [], [] => rfl
  | [], _ :: _ => rfl
  | _ :: _, [] => rfl
  | _ :: as, _ :: bs => by simp [xorBytes, length_xorBytes as bs]

/-- the XOR of two byte lists is a byte list -/
theorem IsBytes.xorBytes : ∀ {a b : List Nat}, IsBytes a → IsBytes b → IsBytes (xorBytes a b)
  | [], [], _, _ => IsBytes.nil
  | [], _ :: _, _, _ => IsBytes.nil
  | _ :: _, [], ha, _ => ha
  | x :: as, y :: bs, ha, hb => by
    rw [isBytes_cons] at ha hb
    simp only [Updater.xorBytes, isBytes_cons]
    exact ⟨Nat.xor_lt_two_pow (n := 8) ha.1 hb.1, IsBytes.xorBytes ha.2 hb.2⟩

/-- low byte and rest XOR independently -/
theorem add_mul_xor (x y A B : Nat) (hx : x < 256) (hy : y < 256) :
    (x + 256 * A) ^^^ (y + 256 * B) = (x ^^^ y) + 256 * (A ^^^ B) := by
  have hxy : x ^^^ y < 2 ^ 8 := Nat.xor_lt_two_pow (n := 8) hx hy
  apply Nat.eq_of_testBit_eq
  intro j
  have e1 : x + 256 * A = 2 ^ 8 * A + x := by omega
  have e2 : y + 256 * B = 2 ^ 8 * B + y := by omega
  have e3 : (x ^^^ y) + 256 * (A ^^^ B) = 2 ^ 8 * (A ^^^ B) + (x ^^^ y) := by omega
  rw [e1, e2, e3, Nat.testBit_xor, Nat.testBit_two_pow_mul_add A (by omega), Nat.testBit_two_pow_mul_add B (by omega),
    Nat.testBit_two_pow_mul_add (A ^^^ B) hxy]
  by_cases hj : j < 8
  · simp [hj]
  · simp [hj]

/-- XOR of buffers of equal length is XOR of their numbers -/
theorem bytesToNat_xorBytes : ∀ {a b : List Nat}, a.length = b.length → IsBytes a → IsBytes b →
    bytesToNat (xorBytes a b) = bytesToNat a ^^^ bytesToNat b
  | [], [], _, _, _ => by simp [xorBytes, bytesToNat]
  | [], _ :: _, h, _, _ => by simp at h
  | _ :: _, [], h, _, _ => by simp at h
  | x :: as, y :: bs, h, ha, hb => by
    rw [isBytes_cons] at ha hb
    simp only [xorBytes, bytesToNat]
    rw [bytesToNat_xorBytes (by simpa using h) ha.2 hb.2, add_mul_xor x y _ _ ha.1 hb.1]

/-! ## `natToBytes` -/

/-- `natToBytes v k` has `k` entries -/
theorem length_natToBytes (v k : Nat) : (natToBytes v k).length = k := by
  induction k generalizing v with
  | zero => rfl
  | succ k ih => simp [natToBytes, ih]

/-- `natToBytes` yields bytes -/
theorem isBytes_natToBytes (v k : Nat) : IsBytes (natToBytes v k) := by
  induction k generalizing v with
  | zero => exact IsBytes.nil
  | succ k ih =>
    simp only [natToBytes, isBytes_cons]
    exact ⟨Nat.mod_lt _ (by omega), ih _⟩

/-- reading back the `k` little-endian bytes of `v` gives `v` modulo `256^k` -/
theorem bytesToNat_natToBytes (v k : Nat) : bytesToNat (natToBytes v k) = v % 256 ^ k := by
  induction k generalizing v with
  | zero => simp [natToBytes, bytesToNat, Nat.mod_one]
  | succ k ih =>
    simp only [natToBytes, bytesToNat, ih]
    rw [Nat.pow_succ, Nat.mul_comm (256 ^ k) 256, Nat.mod_mul]

/-- a list of `k` bytes is a number below `256^k` -/
theorem bytesToNat_lt {bs : List Nat} (h : IsBytes bs) : bytesToNat bs < 256 ^ bs.length := by
  induction bs with
  | nil => simp [bytesToNat]
  | cons b bs ih =>
    rw [isBytes_cons] at h
    have := ih h.2
    simp only [bytesToNat, List.length_cons, Nat.pow_succ]
    omega

/-! ## `flipBit` -/

/-- entry `i` of the flipped buffer -/
theorem getElem?_flipBit (bs : List Nat) (m i : Nat) :
    (flipBit bs m)[i]? = (bs[i]?).map (fun b => if i = m / 8 then b ^^^ 2 ^ (m % 8) else b) := by
  simp only [flipBit, List.getElem?_map, List.getElem?_zipIdx, Option.map_map, Nat.zero_add]
  rfl

/-- flipping keeps the length -/
theorem length_flipBit (bs : List Nat) (m : Nat) : (flipBit bs m).length = bs.length := by
  simp [flipBit]

/-- flipping a bit twice restores the buffer -/
theorem flipBit_flipBit (bs : List Nat) (m : Nat) : flipBit (flipBit bs m) m = bs := by
  apply List.ext_getElem?
  intro i
  rw [getElem?_flipBit, getElem?_flipBit, Option.map_map]
  cases bs[i]? with
  | none => rfl
  | some b =>
    simp only [Option.map_some, Function.comp]
    by_cases h : i = m / 8
    · simp only [h, ↓reduceIte, Nat.xor_assoc, Nat.xor_self, Nat.xor_zero]
    · simp only [h, ↓reduceIte]

/-- flipping a bit of a byte list gives a byte list -/
theorem IsBytes.flipBit {bs : List Nat} (h : IsBytes bs) (m : Nat) : IsBytes (flipBit bs m) := by
  intro b hb
  obtain ⟨i, hi⟩ := List.mem_iff_getElem?.1 hb
  rw [getElem?_flipBit] at hi
  cases hbi : bs[i]? with
  | none => rw [hbi] at hi; simp at hi
  | some c =>
    rw [hbi] at hi
    simp only [Option.map_some, Option.some.injEq] at hi
    have hc : c < 256 := h c (List.mem_of_getElem? hbi)
    subst hi
    split
    · have : 2 ^ (m % 8) < 2 ^ 8 := Nat.pow_lt_pow_right (by omega) (Nat.mod_lt _ (by omega))
      exact Nat.xor_lt_two_pow (n := 8) hc this
    · exact hc

end Fuota.Updater
