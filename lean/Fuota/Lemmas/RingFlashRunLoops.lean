import Fuota.Lemmas.RingFlashRun
/-!
# Ring ↔ flash, part 7: exact runs of the cancel / remediation loops
-/
namespace Fuota.RingRun
open Fuota.Nor Fuota.Fs Fuota.Layout Fuota.Updater Fuota.Ops Fuota.RingFlash Fuota.Slots


theorem cancelFrom_cr {T B : Nat} (S : Nat) : ∀ (l : List (Nat × Header)), (∀ p ∈ l, p.1 * S + 20 ≤ T) →
    CR T B (cancelFrom S l) () (cancelOps S l) := by
  intro l
  induction l with
  | nil => intro _; exact CR.pure ()
  | cons p l ih =>
    intro hin
    obtain ⟨i, hd⟩ := p
    have hi := hin (i, hd) List.mem_cons_self
    have ih' := ih (fun q hq => hin q (List.mem_cons_of_mem _ hq))
    unfold cancelFrom cancelOps
    by_cases he : hd.ext = Ext.inProgress
    · simp only [he, ↓reduceIte, List.filterMap_cons]
      exact CR.bind (o1 := [_]) (writeWord_cr { idx := i, size := S } Consts.EXT_OFFSET _
        (by show i * S + 16 + 4 ≤ _; omega)) ih'
    · simp only [he, ↓reduceIte, List.filterMap_cons]
      exact ih'

theorem remediateAbort_cr {T B : Nat} (S a b : Nat) : ∀ (l : List (Nat × Header)), (∀ p ∈ l, p.1 * S + 20 ≤ T) →
    CR T B (remediateAbort S a b l) () (abortOps S a b l) := by
  intro l
  induction l with
  | nil => intro _; exact CR.pure ()
  | cons p l ih =>
    intro hin
    obtain ⟨i, hd⟩ := p
    have hi := hin (i, hd) List.mem_cons_self
    have ih' := ih (fun q hq => hin q (List.mem_cons_of_mem _ hq))
    unfold abortOps at ih' ⊢
    unfold remediateAbort abortPairs
    by_cases hab : i = a ∨ i = b
    · simp only [hab, ↓reduceIte, List.filterMap_cons]
      exact ih'
    · simp only [hab, ↓reduceIte, List.filterMap_cons]
      by_cases hst : totalStatus hd = TotalStatus.appWriteInProgress
      · simp only [hst, ↓reduceIte, List.map_cons]
        exact CR.bind (o1 := [_]) (writeWord_cr { idx := i, size := S } Consts.EXT_OFFSET _
          (by show i * S + 16 + 4 ≤ _; omega)) ih'
      · simp only [hst, ↓reduceIte]
        unfold abortPairs at ih'
        first
          | exact ih'
          | (have : (match totalStatus hd with
                | TotalStatus.appWriteInProgress => Slot.markExtAborted { idx := i, size := S }
                | _ => (pure () : M Unit)) = pure () := by
              cases h : totalStatus hd <;> simp_all
             rw [this]
             exact CR.bind (o1 := []) (CR.pure ()) ih')

theorem remediateErase_cr {T B : Nat} (S a b : Nat) (hB : 0 < B) (hdiv : S % B = 0) :
    ∀ (l : List (Nat × Header)), (∀ p ∈ l, p.1 * S + S ≤ T) →
    CR T B (remediateErase S a b l) () (clearsOps S B (eraseSlots a b l)) := by
  intro l
  induction l with
  | nil => intro _; exact CR.pure ()
  | cons p l ih =>
    intro hin
    obtain ⟨i, hd⟩ := p
    have hi := hin (i, hd) List.mem_cons_self
    have ih' := ih (fun q hq => hin q (List.mem_cons_of_mem _ hq))
    unfold remediateErase eraseSlots
    by_cases hab : i = a ∨ i = b
    · simp only [hab, ↓reduceIte, List.filterMap_cons]
      exact ih'
    · simp only [hab, ↓reduceIte, List.filterMap_cons]
      unfold eraseSlots at ih'
      have hstep : CR T B (do Slot.clear { idx := i, size := S }; remediateErase S a b l) ()
          (clearsOps S B (i :: List.filterMap (fun p =>
            if p.1 = a ∨ p.1 = b then none
            else if totalStatus p.2 = TotalStatus.bootloadWriteInProgress ∨
                totalStatus p.2 = TotalStatus.invalidNeedsErase then some p.1 else none) l)) := by
        unfold clearsOps
        rw [List.flatMap_cons]
        exact CR.bind (clear_cr { idx := i, size := S } hB hdiv hi) ih'
      cases h : totalStatus hd <;>
        simp only [reduceCtorEq, or_self, or_false, or_true, ↓reduceIte] <;>
        first | exact ih' | exact hstep


end Fuota.RingRun
