import Fuota.Lemmas.ReconSpec
/-!
# Vocabulary for statements about the storage-call log (newest first)
-/
namespace Fuota.Recon

/-- data-store call of index `m` -/
def isDStoreB (m : Nat) : Call → Bool | .dStore m' _ => m' == m | _ => false
/-- parity-store call of index `m` -/
def isPStoreB (m : Nat) : Call → Bool | .pStore m' _ => m' == m | _ => false
/-- matrix-row store call of index `m` -/
def isMSetB (m : Nat) : Call → Bool | .mSet m' _ => m' == m | _ => false

/-- the call is a read -/
def isRead : Call → Bool
  | .dGet _ => true | .pGet _ => true | .mRow _ => true | _ => false

/-- what a call requires of the log below it: reads need an earlier store of the same index, a matrix row is
    written immediately after its parity block -/
def CallOK (c : Call) (rest : List Call) : Prop :=
  match c with
  | .dGet m => ∃ d, Call.dStore m d ∈ rest
  | .pGet m => ∃ d, Call.pStore m d ∈ rest
  | .mRow m => ∃ r, Call.mSet m r ∈ rest
  | .mSet m _ => ∃ d post, rest = Call.pStore m d :: post
  | _ => True

/-- every call in the log satisfies `CallOK` w.r.t. the calls before it -/
def LogOK : List Call → Prop
  | [] => True
  | c :: rest => CallOK c rest ∧ LogOK rest

/-- a satisfied read stays satisfied when more calls come in between -/
theorem CallOK_read_mono (c : Call) (hc : isRead c = true) (R log : List Call) (h : CallOK c log) :
    CallOK c (R ++ log) := by
  cases c <;> simp [isRead] at hc <;> simp only [CallOK] at h ⊢ <;>
    (obtain ⟨d, hd⟩ := h; exact ⟨d, List.mem_append_right _ hd⟩)

/-- putting satisfied reads on top of a well-formed log keeps it well-formed -/
theorem LogOK_append_reads (log : List Call) (hlog : LogOK log) :
    ∀ R : List Call, (∀ c ∈ R, isRead c = true ∧ CallOK c log) → LogOK (R ++ log) := by
  intro R
  induction R with
  | nil => intro _; exact hlog
  | cons c R ih =>
    intro h
    have hc := h c List.mem_cons_self
    exact ⟨CallOK_read_mono c hc.1 R log hc.2, ih (fun c' hc' => h c' (List.mem_cons_of_mem _ hc'))⟩

/-- the property of a well-formed log at an arbitrary position -/
theorem LogOK_split : ∀ (pre : List Call) (log post : List Call) (c : Call),
    LogOK log → log = pre ++ c :: post → CallOK c post := by
  intro pre
  induction pre with
  | nil => intro log post c h e; subst e; exact h.1
  | cons a pre ih => intro log post c h e; subst e; exact ih _ post c h.2 rfl

/-- a predicate that is false on reads counts nothing in a list of reads -/
theorem countP_reads (f : Call → Bool) (hf : ∀ c, isRead c = true → f c = false) (R : List Call)
    (hR : ∀ c ∈ R, isRead c = true) : R.countP f = 0 := by
  rw [List.countP_eq_zero]
  intro c hc
  simp [hf c (hR c hc)]

/-- a read is not a data store -/
theorem isDStoreB_read (m : Nat) (c : Call) (h : isRead c = true) : isDStoreB m c = false := by
  cases c <;> simp_all [isRead, isDStoreB]
/-- a read is not a parity store -/
theorem isPStoreB_read (m : Nat) (c : Call) (h : isRead c = true) : isPStoreB m c = false := by
  cases c <;> simp_all [isRead, isPStoreB]
/-- a read is not a matrix store -/
theorem isMSetB_read (m : Nat) (c : Call) (h : isRead c = true) : isMSetB m c = false := by
  cases c <;> simp_all [isRead, isMSetB]

/-- a non-zero count yields a data-store call of that index -/
theorem exists_dStore_of_countP (m : Nat) (log : List Call) (h : log.countP (isDStoreB m) ≠ 0) :
    ∃ d, Call.dStore m d ∈ log := by
  have : 0 < log.countP (isDStoreB m) := by omega
  obtain ⟨c, hc, hp⟩ := List.countP_pos_iff.1 this
  cases c <;> simp [isDStoreB] at hp
  subst hp; exact ⟨_, hc⟩

/-- a non-zero count yields a parity-store call of that index -/
theorem exists_pStore_of_countP (m : Nat) (log : List Call) (h : log.countP (isPStoreB m) ≠ 0) :
    ∃ d, Call.pStore m d ∈ log := by
  have : 0 < log.countP (isPStoreB m) := by omega
  obtain ⟨c, hc, hp⟩ := List.countP_pos_iff.1 this
  cases c <;> simp [isPStoreB] at hp
  subst hp; exact ⟨_, hc⟩

/-- a non-zero count yields a matrix-store call of that index -/
theorem exists_mSet_of_countP (m : Nat) (log : List Call) (h : log.countP (isMSetB m) ≠ 0) :
    ∃ r, Call.mSet m r ∈ log := by
  have : 0 < log.countP (isMSetB m) := by omega
  obtain ⟨c, hc, hp⟩ := List.countP_pos_iff.1 this
  cases c <;> simp [isMSetB] at hp
  subst hp; exact ⟨_, hc⟩

/-- a non-read call on top of which only reads were pushed was already in the log -/
theorem mem_reads_append {R log : List Call} (hR : ∀ c ∈ R, isRead c = true) {c : Call} (hc : isRead c = false) :
    c ∈ R ++ log ↔ c ∈ log := by
  rw [List.mem_append]
  constructor
  · rintro (h | h)
    · have := hR c h; simp_all
    · exact h
  · exact Or.inr

end Fuota.Recon
