import Fuota.Lemmas.V1Start
import Fuota.Lemmas.V1Monad
import Fuota.Lemmas.CrashGate
/-!
# `app_boot_status` of the deprecated manager on flash (C20): what aborting / erasing a slot does to the parsed
headers, the remediation and cancel loops, and that the status-table reads change nothing
-/
set_option linter.unusedSimpArgs false
namespace Fuota.Orig
open Fuota.Nor Fuota.Fs Fuota.Layout Fuota.FlashAdapters Fuota.Updater

theorem run_tryCatch {α : Type} (x : M α) (h : MErr → M α) (d : Dev) :
    (tryCatch x h).run d = match x.run d with
      | (.ok a, d') => (.ok a, d')
      | (.error e, d') => (h e).run d' := by
  show (ExceptT.tryCatch x h).run d = _
  unfold ExceptT.tryCatch
  simp only [ExceptT.run, ExceptT.mk, bind, StateT.bind]
  generalize (x : StateM Dev (Except MErr α)) d = r
  obtain ⟨r, d'⟩ := r
  cases r <;> rfl

theorem run_map {α β : Type} (f : α → β) (x : M α) (d : Dev) :
    (f <$> x).run d = match x.run d with
      | (.ok a, d') => (.ok (f a), d')
      | (.error e, d') => (.error e, d') := by
  have e : (f <$> x) = (x >>= fun a => pure (f a)) := rfl
  rw [e, run_bind]
  generalize ExceptT.run x d = r
  obtain ⟨r, d'⟩ := r
  cases r <;> rfl

theorem fillBitcache_state (startAddr stride : Nat) : ∀ (fuel addr remain mask : Nat) (d : Dev),
    ((fillBitcache startAddr stride fuel addr remain mask).run d).2 = d := by
  intro fuel
  induction fuel with
  | zero => intro _ _ _ _; rfl
  | succ f ih =>
    intro addr remain mask d
    unfold fillBitcache
    by_cases hr : remain = 0
    · simp [hr, run_pure]
    · simp only [hr, ↓reduceIte, run_bind]
      have hs := V1.readTo_state addr (min remain stride) d
      cases hrd : (readTo addr (min remain stride)).run d with
      | mk r d' =>
        rw [hrd] at hs; simp only at hs; subst hs
        cases r with
        | error e => rfl
        | ok buf =>
          simp only
          by_cases hc : addr - startAddr + min remain stride > MAX_SEGMENTS
          · simp [hc, run_throw, run_bind]
          · simp only [hc, ↓reduceIte, run_bind, run_pure]
            cases fillFrom mask (addr - startAddr) buf with
            | error e => rfl
            | ok m => exact ih _ _ _ _

theorem loadStatus_state (S idx len : Nat) (d : Dev) : ((loadStatus S idx len).run d).2 = d :=
  fillBitcache_state _ _ _ _ _ _ _

/-! ## parsed headers under abort / erase -/

/-- slot `i` does not read "external write in progress" -/
def NotInProg (f : Flash) (S i : Nat) : Prop := ∀ h, hdrAtFlash f S i = some h → h.ext ≠ Ext.inProgress

theorem C_eq_new : C = Codec.new := by
  show Codec.orig = Codec.new
  rw [C11.orig_codec_pinned, C11.new_codec_pinned]

theorem abort_bytes : writeU32 (encExt C .aborted) = [0xAA, 0xAA, 0xAA, 0xAA] := by decide

theorem abort_run (S i : Nat) (d : Dev) (hG : Good d) (hin : i * S + 20 ≤ d.flash.size) :
    (writeExtAborted S i).run d = (.ok (), d.prog (i * S + 16) [0xAA, 0xAA, 0xAA, 0xAA]) := by
  unfold writeExtAborted writeWordAt
  have e : Consts.O_EXT_OFFSET = 16 := rfl
  rw [abort_bytes, e]
  exact writeFrom_run hG _ _ (by simp only [List.length_cons, List.length_nil]; omega)

/-- bytes outside slot `j` unchanged ⇒ every other slot's header reads as before -/
theorem hdr_frame (f f' : Flash) (S i j : Nat) (hS : 28 ≤ S) (hne : i ≠ j)
    (hfr : ∀ x, (x < j * S ∨ j * S + S ≤ x) → f'.byte x = f.byte x) : hdrAtFlash f' S i = hdrAtFlash f S i := by
  unfold hdrAtFlash
  have hap := slots_apart' S hne
  rw [read_congr f' f (i * S) 28 (fun x h1 h2 => hfr x (by omega))]

/-- after the abort program slot `i` does not read in progress, whatever it held -/
theorem notInProg_abort (f : Flash) (S i : Nat) (hwf : WF f) (hin : i * S + 20 ≤ f.size) :
    NotInProg (f.apply (.program (i * S + 16) [0xAA, 0xAA, 0xAA, 0xAA])) S i := by
  intro h hh hext
  unfold hdrAtFlash at hh
  cases hp : parseHeader C ((f.apply (.program (i * S + 16) [0xAA, 0xAA, 0xAA, 0xAA])).read (i * S) 28) with
  | none => rw [hp] at hh; cases hh
  | some pr =>
    obtain ⟨h', rest⟩ := pr
    rw [hp] at hh
    simp only [Option.map_some, Option.some.injEq] at hh
    subst hh
    rw [C_eq_new] at hp
    have hw := (Crash.parse_words _ _ _ _ hp).2.2.2.2.1
    rw [hext] at hw
    have hwf' : Crash.WF (f.apply (.program (i * S + 16) [0xAA, 0xAA, 0xAA, 0xAA])) :=
      fun x => WF_apply_program hwf _ _ x
    have hff := Crash.extFF_of_parse hwf' (i * S) hw 0 (by omega)
    have hb : (f.apply (.program (i * S + 16) [0xAA, 0xAA, 0xAA, 0xAA])).byte (i * S + 16) =
        f.byte (i * S + 16) &&& 0xAA := by
      rw [byte_apply_program_of_mem f (i * S + 16) _ (i * S + 16)
        (by simp only [List.length_cons, List.length_nil]; omega) (by omega)
        (by simp only [List.length_cons, List.length_nil]; omega)]
      simp
    rw [Nat.add_zero, hb] at hff
    have : f.byte (i * S + 16) &&& 0xAA ≤ 0xAA := Nat.and_le_right
    omega

/-- a slot whose first 28 bytes are erased has no header -/
theorem hdr_none_of_erased (f : Flash) (S i : Nat) (h : ∀ x, i * S ≤ x → x < i * S + 28 → f.byte x = 0xFF) :
    hdrAtFlash f S i = none := by
  unfold hdrAtFlash
  rw [C_eq_new, Crash.hdrFF_no_parse (f := f) (base := i * S) (fun j hj => h _ (by omega) (by omega))]
  rfl

/-- one remediation action on slot `j` -/
theorem rem_step (N S j : Nat) (r : Rem) (d : Dev) (hS : 28 ≤ S) (hG : Good d) (hwf : WF d.flash)
    (hb0 : 0 < d.flash.block) (hdiv : S % d.flash.block = 0) (hsz : N * S ≤ d.flash.size) (hj : j < N) :
    ∃ d', (match r with | .abort => writeExtAborted S j | .erase => eraseSlot S j).run d = (.ok (), d') ∧
      Keeps d d' ∧ NotInProg d'.flash S j ∧
      (∀ x, (x < j * S ∨ j * S + S ≤ x) → d'.flash.byte x = d.flash.byte x) := by
  have hin : j * S + S ≤ d.flash.size := by
    have : (j + 1) * S ≤ N * S := Nat.mul_le_mul_right S (by omega)
    rw [Nat.add_mul, Nat.one_mul] at this; omega
  cases r with
  | abort =>
    refine ⟨_, abort_run S j d hG (by omega), Keeps.prog hG _ _, notInProg_abort d.flash S j hwf (by omega), ?_⟩
    intro x hx
    rw [Dev.prog_flash, byte_apply_program_of_not_mem _ _ _ _ (by simp; omega)]
  | erase =>
    obtain ⟨d', hrun, hk, hff, hfr⟩ := eraseSlot_run S j d hG hb0 hdiv hin
    refine ⟨d', hrun, hk, ?_, hfr⟩
    intro h hh
    rw [hdr_none_of_erased d'.flash S j (fun x h1 h2 => hff x h1 (by omega))] at hh
    cases hh

theorem notInProg_frame (f f' : Flash) (S i j : Nat) (hS : 28 ≤ S)
    (hfr : ∀ x, (x < j * S ∨ j * S + S ≤ x) → f'.byte x = f.byte x) (hj : NotInProg f' S j)
    (hi : NotInProg f S i) : NotInProg f' S i := by
  by_cases h : i = j
  · subst h; exact hj
  · intro hd hh
    rw [hdr_frame f f' S i j hS h hfr] at hh
    exact hi hd hh

/-- the remediation loop: every action succeeds, nothing that did not read "in progress" starts to, every slot acted
    on does not read "in progress" afterwards, slots not acted on keep all their bytes -/
theorem runRem_run (N S : Nat) (hS : 28 ≤ S) : ∀ (acts : List (Nat × Rem)) (d : Dev), Good d → WF d.flash →
    0 < d.flash.block → S % d.flash.block = 0 → N * S ≤ d.flash.size → (∀ a ∈ acts, a.1 < N) →
    ∃ d', (runRem S acts).run d = (.ok (), d') ∧ Keeps d d' ∧
      (∀ i, NotInProg d.flash S i → NotInProg d'.flash S i) ∧
      (∀ a ∈ acts, NotInProg d'.flash S a.1) ∧
      (∀ i, (∀ a ∈ acts, a.1 ≠ i) → ∀ x, i * S ≤ x → x < i * S + S → d'.flash.byte x = d.flash.byte x) := by
  intro acts
  induction acts with
  | nil =>
    intro d hG _ _ _ _ _
    exact ⟨d, rfl, Keeps.refl hG, fun _ h => h, fun a ha => by simp at ha, fun _ _ _ _ _ => rfl⟩
  | cons a acts ih =>
    intro d hG hwf hb0 hdiv hsz hall
    obtain ⟨j, r⟩ := a
    have hj : j < N := hall (j, r) (by simp)
    obtain ⟨d1, hrun1, hk1, hn1, hfr1⟩ := rem_step N S j r d hS hG hwf hb0 hdiv hsz hj
    obtain ⟨d2, hrun2, hk2, hpres, hacts, hfr2⟩ := ih d1 hk1.good (hk1.wf hwf) (by rw [hk1.block]; exact hb0)
      (by rw [hk1.block]; exact hdiv) (by rw [hk1.size]; exact hsz) (fun a ha => hall a (by simp [ha]))
    refine ⟨d2, ?_, Keeps.trans hk1 hk2, ?_, ?_, ?_⟩
    · cases r with
      | abort => unfold runRem; rw [run_bind, hrun1]; exact hrun2
      | erase => unfold runRem; rw [run_bind, hrun1]; exact hrun2
    · intro i hi
      exact hpres i (notInProg_frame d.flash d1.flash S i j hS hfr1 hn1 hi)
    · intro a ha
      rcases List.mem_cons.mp ha with rfl | ha'
      · exact hpres _ hn1
      · exact hacts a ha'
    · intro i hi x h1 h2
      have hij : j ≠ i := hi (j, r) (by simp)
      rw [hfr2 i (fun a ha => hi a (by simp [ha])) x h1 h2]
      have := slots_apart' S hij
      exact hfr1 x (by omega)

theorem abortAll_eq (S : Nat) (is : List Nat) : abortAll S is = runRem S (is.map fun i => (i, Rem.abort)) := by
  induction is with
  | nil => rfl
  | cons i is ih => simp only [abortAll, List.map_cons, runRem, ih]

/-! ## the ordered header list has the same elements as the physical one -/

theorem mem_rotateLeft {α : Type} (l : List α) (n : Nat) (x : α) : x ∈ rotateLeft l n ↔ x ∈ l := by
  unfold rotateLeft
  split
  · rfl
  · rw [List.mem_append]
    constructor
    · rintro (h | h)
      · exact List.mem_of_mem_drop h
      · exact List.mem_of_mem_take h
    · intro h
      rw [← List.take_append_drop (n % l.length) l, List.mem_append] at h
      exact h.symm

theorem mem_ordered {hs o : List IH} (h : orderHeaders hs = some o) (x : IH) : x ∈ o ↔ x ∈ hs := by
  unfold orderHeaders at h
  split at h
  · cases h; exact mem_rotateLeft _ _ _
  · split at h
    · cases h; rfl
    · cases h

theorem mem_hdrsOf (f : Flash) (S N : Nat) (ih : IH) :
    ih ∈ hdrsOf f S (List.range N) ↔ ∃ i, i < N ∧ ih = { idx := i, hdr := hdrAtFlash f S i } := by
  unfold hdrsOf
  simp only [List.mem_map, List.mem_range]
  constructor
  · rintro ⟨i, hi, rfl⟩; exact ⟨i, hi, rfl⟩
  · rintro ⟨i, hi, rfl⟩; exact ⟨i, hi, rfl⟩

/-! ## the status-table reads succeed on legal tables -/

theorem fillFrom_ok : ∀ (bs : List Nat) (mask start : Nat), (∀ b ∈ bs, b = 0x33 ∨ b = 0xFF) →
    ∃ m, fillFrom mask start bs = .ok m := by
  intro bs
  induction bs with
  | nil => intro mask _ _; exact ⟨mask, rfl⟩
  | cons b bs ih =>
    intro mask start h
    have hb := h b (by simp)
    have hr : ∀ x ∈ bs, x = 0x33 ∨ x = 0xFF := fun x hx => h x (by simp [hx])
    unfold fillFrom
    have c1 : Consts.O_DATA_WRITTEN = 0x33 := rfl
    have c2 : Consts.O_DATA_NOT_WRITTEN = 0xFF := rfl
    rcases hb with rfl | rfl
    · simp only [c1, ↓reduceIte]; exact ih _ _ hr
    · simp only [c1, c2, show ¬ (255 : Nat) = 51 by decide, ↓reduceIte]; exact ih _ _ hr

/-- the status table of `len` fragments at `start` holds only "written" / "not written" bytes -/
def LegalTable (f : Flash) (start len : Nat) : Prop := ∀ x, start ≤ x → x < start + len → f.byte x = 0x33 ∨ f.byte x = 0xFF

theorem fillBitcache_ok (startAddr : Nat) (d : Dev) (hG : Good d) : ∀ (fuel addr remain mask : Nat),
    remain ≤ fuel → startAddr ≤ addr → addr + remain ≤ d.flash.size → addr - startAddr + remain ≤ MAX_SEGMENTS →
    LegalTable d.flash addr remain →
    ∃ m, (fillBitcache startAddr PARITY_TEMP_LEN fuel addr remain mask).run d = (.ok m, d) := by
  intro fuel
  induction fuel with
  | zero =>
    intro addr remain mask h _ _ _ _
    exact ⟨mask, rfl⟩
  | succ fu ih =>
    intro addr remain mask hf hs hin hmax hleg
    unfold fillBitcache
    by_cases hr : remain = 0
    · exact ⟨mask, by simp [hr, run_pure]⟩
    · have hst : 1 ≤ min remain PARITY_TEMP_LEN := by
        have : PARITY_TEMP_LEN = 128 := rfl
        omega
      have hle : min remain PARITY_TEMP_LEN ≤ remain := Nat.min_le_left _ _
      simp only [hr, ↓reduceIte, run_bind, Fs.readTo_run hG addr (min remain PARITY_TEMP_LEN) (by omega)]
      have hc : ¬ addr - startAddr + min remain PARITY_TEMP_LEN > MAX_SEGMENTS := by omega
      simp only [hc, ↓reduceIte, run_bind, run_pure]
      have hbytes : ∀ b ∈ d.flash.read addr (min remain PARITY_TEMP_LEN), b = 0x33 ∨ b = 0xFF := by
        intro b hb
        simp only [Flash.read, List.mem_map, List.mem_range] at hb
        obtain ⟨j, hj, rfl⟩ := hb
        exact hleg _ (by omega) (by omega)
      obtain ⟨m, hm⟩ := fillFrom_ok _ mask (addr - startAddr) hbytes
      rw [hm]
      simp only
      exact ih _ _ m (by omega) (by omega) (by omega) (by omega) (fun x h1 h2 => hleg x (by omega) (by omega))

theorem loadStatus_ok (S idx len : Nat) (d : Dev) (hG : Good d) (hin : idx * S + WRITTEN_OFFSET + len ≤ d.flash.size)
    (hlen : len ≤ MAX_SEGMENTS) (hleg : LegalTable d.flash (idx * S + WRITTEN_OFFSET) len) :
    ∃ m, (loadStatus S idx len).run d = (.ok m, d) := by
  unfold loadStatus
  exact fillBitcache_ok _ d hG _ _ _ 0 (by omega) (Nat.le_refl _) hin (by omega) hleg

end Fuota.Orig
