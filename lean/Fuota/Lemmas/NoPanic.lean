import Fuota.Model.Updater
/-!
# A weakest-precondition calculus for "does not panic" (device monad `M`)

`wp x Q d`: running `x` on device `d` either returns `a` in a state `d'` with `Q a d'`, or fails with an error
that is **not** `MErr.panic`. Closed under `pure`, `throw e` (`e ≠ panic`), `bind`; the device primitives
(`readTo`, `writeFrom`, `eraseBlock`, `mutate`) never panic, whatever the device state (contents, crash / fault
injection, `dead`).
-/
namespace Fuota.NoPanic
open Fuota.Nor Fuota.Fs Fuota.Layout

/-- the model's `x.run d` with the `Id` wrapper removed -/
def run' {α} (x : M α) (d : Dev) : Except MErr α × Dev := x.run d

def wp {α} (x : M α) (Q : α → Dev → Prop) (d : Dev) : Prop :=
  match run' x d with
  | (.ok a, d') => Q a d'
  | (.error e, _) => e ≠ .panic

/-- never the panic outcome, on any device -/
def NoPanic {α} (x : M α) : Prop := ∀ d, (run' x d).1 ≠ .error .panic

theorem run'_pure {α} (a : α) (d : Dev) : run' (pure a : M α) d = (.ok a, d) := rfl
theorem run'_throw {α} (e : MErr) (d : Dev) : run' (throw e : M α) d = (.error e, d) := rfl
theorem run'_bind {α β} (x : M α) (f : α → M β) (d : Dev) :
    run' (x >>= f) d = match run' x d with
      | (.ok a, d') => run' (f a) d'
      | (.error e, d') => (.error e, d') := by
  simp only [run', bind, ExceptT.bind, ExceptT.run, ExceptT.mk, StateT.bind, ExceptT.bindCont]
  cases h : x d with
  | mk r d' => cases r <;> rfl
theorem run'_get (d : Dev) : run' (get : M Dev) d = (.ok d, d) := rfl
theorem run'_set (d' d : Dev) : run' (set d' : M Unit) d = (.ok (), d') := rfl

theorem wp_pure {α} (a : α) (Q : α → Dev → Prop) (d : Dev) : wp (pure a : M α) Q d ↔ Q a d := Iff.rfl
theorem wp_throw {α} (e : MErr) (Q : α → Dev → Prop) (d : Dev) : wp (throw e : M α) Q d ↔ e ≠ .panic := Iff.rfl
theorem wp_bind {α β} (x : M α) (f : α → M β) (Q : β → Dev → Prop) (d : Dev) :
    wp (x >>= f) Q d ↔ wp x (fun a d' => wp (f a) Q d') d := by
  unfold wp; rw [run'_bind]
  cases h : run' x d with
  | mk r d' => cases r <;> simp
theorem wp_get (Q : Dev → Dev → Prop) (d : Dev) : wp (get : M Dev) Q d ↔ Q d d := Iff.rfl
theorem wp_set (Q : Unit → Dev → Prop) (d' d : Dev) : wp (set d' : M Unit) Q d ↔ Q () d' := Iff.rfl

theorem wp_mono {α} {x : M α} {Q Q' : α → Dev → Prop} {d : Dev} (h : wp x Q d)
    (hq : ∀ a d', Q a d' → Q' a d') : wp x Q' d := by
  unfold wp at *
  cases hr : run' x d with
  | mk r d' =>
    rw [hr] at h
    cases r with
    | ok a => exact hq _ _ h
    | error e => exact h

theorem wp_noPanic {α} {x : M α} {Q : α → Dev → Prop} {d : Dev} (h : wp x Q d) :
    (run' x d).1 ≠ .error .panic := by
  unfold wp at h
  cases hr : run' x d with
  | mk r d' =>
    rw [hr] at h
    cases r with
    | ok a => simp
    | error e => simpa using h

theorem noPanic_of_wp {α} {x : M α} (h : ∀ d, wp x (fun _ _ => True) d) : NoPanic x :=
  fun d => wp_noPanic (h d)

/-- result of a successful run -/
theorem wp_ok {α} {x : M α} {Q : α → Dev → Prop} {d d' : Dev} {a : α} (h : wp x Q d)
    (hr : run' x d = (.ok a, d')) : Q a d' := by
  unfold wp at h; rw [hr] at h; exact h

/-! ## primitives -/

theorem readTo_spec {Q : List Nat → Dev → Prop} {d : Dev} (a len : Nat)
    (h : Q (d.flash.read a len) d) : wp (readTo a len) Q d := by
  unfold readTo
  simp only [wp_bind, wp_get]
  split
  · simp [wp_throw]
  · simp only [Flash.readChecked]
    split <;> rename_i hh
    · simp [wp_throw]
    · split at hh
      · cases hh; simpa [wp_pure] using h
      · cases hh

theorem mutate_spec {Q : Unit → Dev → Prop} {d : Dev} (op : Op)
    (h : ∀ d', d'.flash = d.flash.apply op → Q () d') : wp (mutate op) Q d := by
  unfold mutate
  simp only [wp_bind, wp_get]
  repeat' split
  all_goals simp only [wp_bind, wp_set, wp_throw]
  all_goals first | exact h _ rfl | simp

theorem writeFrom_spec {Q : Unit → Dev → Prop} {d : Dev} (a : Nat) (bs : List Nat)
    (h : ∀ d', d'.flash = d.flash.apply (.program a bs) → Q () d') : wp (writeFrom a bs) Q d := by
  unfold writeFrom
  simp only [wp_bind, wp_get]
  repeat' split
  all_goals try simp only [wp_bind, wp_throw]
  all_goals first | exact mutate_spec _ h | simp

theorem eraseBlock_spec {Q : Unit → Dev → Prop} {d : Dev} (a : Nat)
    (h : a % d.flash.block = 0 → ∀ d', d'.flash = d.flash.apply (.erase a) → Q () d') :
    wp (eraseBlock a) Q d := by
  unfold eraseBlock
  simp only [wp_bind, wp_get]
  repeat' split
  all_goals try simp only [wp_bind, wp_throw]
  all_goals first | (refine mutate_spec _ (h ?_); simp_all) | simp

/-! ## effect of the two mutating operations on the flash array -/

theorem programBytes_size (mem : Array Nat) (a : Nat) (bs : List Nat) : (programBytes mem a bs).size = mem.size := by
  induction bs generalizing mem a with
  | nil => rfl
  | cons b bs ih => simp [programBytes, ih]

theorem fillFF_size (mem : Array Nat) (a k : Nat) : (fillFF mem a k).size = mem.size := by
  induction k generalizing mem a with
  | zero => rfl
  | succ k ih => simp [fillFF, ih]

theorem programBytes_getD (mem : Array Nat) (a : Nat) (bs : List Nat) (x : Nat) (hx : x < a ∨ a + bs.length ≤ x) :
    (programBytes mem a bs).getD x 0xFF = mem.getD x 0xFF := by
  induction bs generalizing mem a with
  | nil => rfl
  | cons b bs ih =>
    simp only [programBytes]
    rw [ih _ _ (by simp only [List.length_cons] at hx; omega)]
    have : a ≠ x := by simp only [List.length_cons] at hx; omega
    simp [Array.getD_eq_getD_getElem?, this]

theorem fillFF_getD (mem : Array Nat) (a k x : Nat) (hx : x < a ∨ a + k ≤ x) :
    (fillFF mem a k).getD x 0xFF = mem.getD x 0xFF := by
  induction k generalizing mem a with
  | zero => rfl
  | succ k ih =>
    simp only [fillFF]
    rw [ih _ _ (by omega)]
    have : a ≠ x := by omega
    simp [Array.getD_eq_getD_getElem?, this]

theorem apply_block (f : Flash) (op : Op) : (f.apply op).block = f.block := by cases op <;> rfl

theorem apply_size (f : Flash) (op : Op) : (f.apply op).size = f.size := by
  cases op <;> simp [Flash.apply, Flash.size, programBytes_size, fillFF_size]

theorem apply_program_byte (f : Flash) (a : Nat) (bs : List Nat) (x : Nat) (hx : x < a ∨ a + bs.length ≤ x) :
    (f.apply (.program a bs)).byte x = f.byte x := by
  simp [Flash.apply, Flash.byte, programBytes_getD _ _ _ _ hx]

theorem apply_erase_byte (f : Flash) (a x : Nat) (hx : x < a ∨ a + f.block ≤ x) :
    (f.apply (.erase a)).byte x = f.byte x := by
  simp [Flash.apply, Flash.byte, fillFF_getD _ _ _ _ hx]

theorem read_length (f : Flash) (a len : Nat) : (f.read a len).length = len := by simp [Flash.read]

/-- a read depends only on the bytes in its range -/
theorem read_congr (f g : Flash) (a len : Nat) (h : ∀ x, a ≤ x → x < a + len → g.byte x = f.byte x) :
    g.read a len = f.read a len := by
  simp only [Flash.read]
  apply List.map_congr_left
  intro i hi
  simp only [List.mem_range] at hi
  exact h _ (by omega) (by omega)

end Fuota.NoPanic
