import Fuota.Lemmas.RingFlashRunLoops
import Fuota.Lemmas.NoPanicRO
/-!
# Ring ↔ flash, part 8: `try_recover_inner` in normal form; its tail is read-only
-/
namespace Fuota.RingRun
open Fuota.Nor Fuota.Fs Fuota.Layout Fuota.Updater Fuota.Ops Fuota.RingFlash Fuota.Slots Fuota.NoPanic



/-- the read-only rest of `try_recover_inner` after the remediation -/
def recTail (S : Nat) (nw sn : Nat × Header) : M (Option Upd) := do
  let fw : Slot := { idx := sn.1, size := S }
  let par : Slot := { idx := nw.1, size := S }
  let n := sn.2.n
  let bs := sn.2.size
  let maxL := nw.2.n
  let matrixOffset := maxL * bs
  let done ← fw.loadStatusArray MAX_SEGMENT_SIZE
  let used ← loadUsed par matrixOffset (List.range maxL) 0
  let cnt := popcount done MAX_SEGMENTS
  if used ≠ 0 ∧ n < cnt then throw .panic
  let l := if used ≠ 0 then n - cnt else 0
  if l > maxL then return none
  return some { fw := fw, par := par, n := n, l := l, bs := bs, done := done, used := used, maxL := maxL,
                matrixOffset := matrixOffset, complete := cnt == n }

/-- `try_recover_inner` = read the headers, take the decision the machine takes, remediate, read the tables -/
theorem tryRecoverInner_eq (nslots S : Nat) (g : Geom) (hg : g.slotSize = S) :
    tryRecoverInner nslots S = (do
      let hs ← loadHeaders nslots S
      match recoverDecision g hs with
      | none => pure none
      | some (nw, sn) => do
        remediate S nw.1 sn.1 (indexed hs)
        recTail S nw sn) := by
  unfold tryRecoverInner
  congr 1
  funext hs
  unfold recoverDecision recTail
  rw [hg]
  dsimp only
  generalize twoNewest (indexed hs) = t
  obtain ⟨o1, o2⟩ := t
  cases o1 with
  | none => rfl
  | some nw =>
    cases o2 with
    | none => rfl
    | some sn =>
      simp only
      split
      · rfl
      split
      · rfl
      split
      · rfl
      split
      · rfl
      split
      · rfl
      split
      · rfl
      cases reasonablySized S sn.2.size sn.2.n <;> rfl



theorem ro_numSegments (s : Slot) : RO s.numSegments := by unfold Slot.numSegments; ro_auto

theorem ro_fillBitcache (startAddr stride : Nat) : ∀ (fuel addr remain mask : Nat),
    RO (fillBitcache startAddr stride fuel addr remain mask) := by
  intro fuel
  induction fuel with
  | zero => intro _ _ _; exact ro_pure _
  | succ fuel ih =>
    intro addr remain mask
    unfold fillBitcache
    ro_auto [ih]

theorem ro_loadStatusArray (s : Slot) (stride : Nat) : RO (s.loadStatusArray stride) := by
  unfold Slot.loadStatusArray; ro_auto [ro_numSegments, ro_fillBitcache]

theorem ro_readRaw (s : Slot) (off len : Nat) : RO (s.readRaw off len) := by unfold Slot.readRaw; ro_auto

theorem ro_loadUsed (par : Slot) (mo : Nat) : ∀ (is : List Nat) (used : Nat), RO (loadUsed par mo is used) := by
  intro is
  induction is with
  | nil => intro _; exact ro_pure _
  | cons i is ih => intro used; unfold loadUsed; ro_auto [ro_readRaw, ih]

theorem ro_recTail (S : Nat) (nw sn : Nat × Header) : RO (recTail S nw sn) := by
  unfold recTail; ro_auto [ro_loadStatusArray, ro_loadUsed]


end Fuota.RingRun
