import Fuota.Lemmas.V1Peel
import Fuota.Lemmas.RefineStart
/-!
# The slot accessors of `fs.rs` on a device without armed injection (used by the naive-updater refinement, C19)

For a slot whose segment size is cached (`set_layout` did that): what `read_segment`, `write_segment`,
`segment_status`, `num_segments` and `load_status_array` return and do, in terms of flash bytes.
-/
set_option linter.unusedSimpArgs false
namespace Fuota.V1
open Fuota.Nor Fuota.Fs Fuota.Layout Fuota.FlashAdapters Fuota.Updater

/-- start of the slot -/
def sBase (s : Slot) : Nat := s.idx * s.size
/-- address of data fragment `i` of `seg` bytes -/
def dAddr (s : Slot) (seg i : Nat) : Nat := s.idx * s.size + (17408 + i * seg)
/-- address of status byte `i` -/
def tAddr (s : Slot) (i : Nat) : Nat := s.idx * s.size + (1024 + i)

theorem readSegment_run (s : Slot) (seg i : Nat) (d : Dev) (hG : Good d) (hc : s.segSize = some seg) (hseg : seg ≠ 0)
    (hi : i ≤ 16384) (hfit : 17408 + i * seg + seg ≤ s.size) (hin : s.idx * s.size + s.size ≤ d.flash.size) :
    (s.readSegment i seg).run d = (.ok (d.flash.read (dAddr s seg i) seg), d) := by
  unfold Slot.readSegment Slot.segmentSize
  have c1 : Fs.MAX_SEGMENTS = 16384 := rfl
  have c2 : Fs.DATA_REGION_OFFSET = 17408 := rfl
  have h1 : ¬ i > 16384 := by omega
  have h2 : ¬ 17408 + i * seg > s.size := by omega
  simp only [c1, c2, h1, ↓reduceIte, hc, run_bind, run_pure, hseg, h2, Nat.min_self]
  rw [Fs.readTo_run hG _ _ (by omega)]
  rfl

/-- the device after `write_segment(i, buf)` -/
def afterWrite (s : Slot) (seg i : Nat) (buf : List Nat) (d : Dev) : Dev :=
  (d.prog (dAddr s seg i) buf).prog (tAddr s i) [0x33]

theorem writeSegment_run (s : Slot) (seg i : Nat) (buf : List Nat) (d : Dev) (hG : Good d) (hc : s.segSize = some seg)
    (hseg : seg ≠ 0) (hlen : buf.length = seg) (hi : i < 16384) (hfit : 17408 + i * seg + seg ≤ s.size)
    (hin : s.idx * s.size + s.size ≤ d.flash.size) :
    (s.writeSegment i buf).run d = (.ok s, afterWrite s seg i buf d) := by
  unfold Slot.writeSegment Slot.segmentSizeMut Slot.markSegmentWritten
  have c1 : Fs.MAX_SEGMENTS = 16384 := rfl
  have c2 : Fs.DATA_REGION_OFFSET = 17408 := rfl
  have c3 : Fs.WRITTEN_OFFSET = 1024 := rfl
  have c4 : Consts.DATA_WRITTEN = 0x33 := rfl
  have h1 : ¬ i > 16384 := by omega
  have h2 : ¬ 17408 + i * seg > s.size := by omega
  have h3 : ¬ seg ≠ buf.length := by omega
  have h4 : ¬ 1024 + i > s.size := by omega
  simp only [c1, c2, c3, c4, h1, ↓reduceIte, hc, run_bind, run_pure, hseg, h2, h3, h4]
  rw [writeFrom_run hG _ _ (by omega)]
  simp only
  rw [writeFrom_run (hG.prog _ _) _ _ (by rw [Dev.prog_size]; simp only [List.length_cons, List.length_nil]; omega)]
  rfl

theorem segmentStatus_run (s : Slot) (i : Nat) (d : Dev) (hG : Good d) (hi : i ≤ 16384) (hfit : 1024 + i < s.size)
    (hin : s.idx * s.size + s.size ≤ d.flash.size) :
    (Naive.segmentStatus s i).run d = (.ok (d.flash.byte (tAddr s i)), d) := by
  unfold Naive.segmentStatus
  have c1 : Fs.MAX_SEGMENTS = 16384 := rfl
  have c3 : Fs.WRITTEN_OFFSET = 1024 := rfl
  have h1 : ¬ i > 16384 := by omega
  have h4 : ¬ 1024 + i > s.size := by omega
  simp only [c1, c3, h1, ↓reduceIte, run_bind, run_pure, h4]
  rw [Fs.readTo_run hG _ _ (by omega)]
  simp [Flash.read, tAddr]

/-! ## the status table as a mask -/

/-- bytes `start .. start+len` encode the bits `off .. off+len` of `a`: written = set, not written = clear -/
def TableIs (f : Flash) (start len off a : Nat) : Prop :=
  ∀ j, j < len → f.byte (start + j) = if a.testBit (off + j) then 0x33 else 0xFF

theorem testBit_clear_mask (s j : Nat) (hs : s < 16384) :
    (2 ^ 16384 - 1 - 2 ^ s).testBit j = (decide (j < 16384) && decide (j ≠ s)) := by
  have hlt : 2 ^ s < 2 ^ 16384 := Nat.pow_lt_pow_right (by omega) hs
  have e : 2 ^ 16384 - 1 - 2 ^ s = 2 ^ 16384 - (2 ^ s + 1) := by omega
  rw [e, Nat.testBit_two_pow_sub_succ hlt, Nat.testBit_two_pow]
  by_cases h : s = j
  · subst h; simp
  · have : ¬ j = s := fun e => h e.symm
    simp [h, this]

/-- `BitCache::fill_from` on bytes that encode the bits of `a`: the bits in the filled range become those of `a`,
    the others stay -/
theorem fillFrom_spec : ∀ (bs : List Nat) (mask start a : Nat), start + bs.length ≤ 16384 →
    (∀ j, j < bs.length → bs.getD j 0 = if a.testBit (start + j) then 0x33 else 0xFF) →
    (∀ j, 16384 ≤ j → mask.testBit j = false) →
    ∃ m, fillFrom mask start bs = .ok m ∧ (∀ j, 16384 ≤ j → m.testBit j = false) ∧
      ∀ j, m.testBit j = if start ≤ j ∧ j < start + bs.length then a.testBit j else mask.testBit j := by
  intro bs
  induction bs with
  | nil =>
    intro mask start a _ _ hm
    exact ⟨mask, rfl, hm, fun j => by simp; intro h1 h2; omega⟩
  | cons b bs ih =>
    intro mask start a hlen hb hm
    have c1 : Consts.DATA_WRITTEN = 0x33 := rfl
    have c2 : Consts.DATA_NOT_WRITTEN = 0xFF := rfl
    have c3 : Fs.MAX_SEGMENTS = 16384 := rfl
    simp only [List.length_cons] at hlen
    have hb0 := hb 0 (by simp)
    have hrest : ∀ j, j < bs.length → bs.getD j 0 = if a.testBit (start + 1 + j) then 0x33 else 0xFF := by
      intro j hj
      have := hb (j + 1) (by simp; omega)
      simp only [List.getD_cons_succ] at this
      rw [this]
      have : start + (j + 1) = start + 1 + j := by omega
      rw [this]
    unfold fillFrom
    by_cases hbit : a.testBit start = true
    · have hb0' : b = 0x33 := by simpa [hbit] using hb0
      subst hb0'
      simp only [c1, ↓reduceIte]
      have hm' : ∀ j, 16384 ≤ j → (mask ||| 2 ^ start).testBit j = false := by
        intro j hj
        rw [testBit_or_pow, hm j hj]
        have : ¬ j = start := by omega
        simp [this]
      obtain ⟨m, hok, hhi, hspec⟩ := ih (mask ||| 2 ^ start) (start + 1) a (by omega) hrest hm'
      refine ⟨m, hok, hhi, ?_⟩
      intro j
      rw [hspec j, testBit_or_pow]
      by_cases hj : j = start
      · subst hj
        simp [hbit]
      · by_cases h1 : start + 1 ≤ j ∧ j < start + 1 + bs.length
        · have : start ≤ j ∧ j < start + (bs.length + 1) := by omega
          simp [h1, this]
        · have : ¬ (start ≤ j ∧ j < start + (bs.length + 1)) := by omega
          simp [h1, this, hj]
    · have hbit' : a.testBit start = false := by simpa using hbit
      have hb0' : b = 0xFF := by simpa [hbit'] using hb0
      subst hb0'
      simp only [c1, c2, c3, show ¬ (255 : Nat) = 51 by decide, ↓reduceIte]
      have hs : start < 16384 := by omega
      have hm' : ∀ j, 16384 ≤ j → (mask &&& (2 ^ 16384 - 1 - 2 ^ start)).testBit j = false := by
        intro j hj
        rw [Nat.testBit_and, hm j hj]; rfl
      obtain ⟨m, hok, hhi, hspec⟩ := ih (mask &&& (2 ^ 16384 - 1 - 2 ^ start)) (start + 1) a (by omega) hrest hm'
      refine ⟨m, hok, hhi, ?_⟩
      intro j
      rw [hspec j, Nat.testBit_and, testBit_clear_mask start j hs]
      by_cases hj : j = start
      · subst hj
        simp [hbit']
      · by_cases h1 : start + 1 ≤ j ∧ j < start + 1 + bs.length
        · have : start ≤ j ∧ j < start + (bs.length + 1) := by omega
          simp [h1, this]
        · have hno : ¬ (start ≤ j ∧ j < start + (255 :: bs).length) := by
            simp only [List.length_cons]; omega
          rw [if_neg h1, if_neg hno]
          by_cases hjj : j < 16384
          · simp [hjj, hj]
          · rw [hm j (by omega)]; rfl

/-- `fill_bitcache` over a table that encodes the bits of `a` -/
theorem fillBitcache_spec (startAddr : Nat) (d : Dev) (hG : Good d) (a : Nat) : ∀ (fuel addr remain mask : Nat),
    remain ≤ fuel → startAddr ≤ addr → addr + remain ≤ d.flash.size → addr - startAddr + remain ≤ 16384 →
    TableIs d.flash addr remain (addr - startAddr) a → (∀ j, 16384 ≤ j → mask.testBit j = false) →
    ∃ m, (Fs.fillBitcache startAddr Naive.PARITY_TEMP_LEN fuel addr remain mask).run d = (.ok m, d) ∧
      (∀ j, 16384 ≤ j → m.testBit j = false) ∧
      ∀ j, m.testBit j =
        if addr - startAddr ≤ j ∧ j < addr - startAddr + remain then a.testBit j else mask.testBit j := by
  intro fuel
  induction fuel with
  | zero =>
    intro addr remain mask h _ _ _ _ hm
    have : remain = 0 := by omega
    subst this
    exact ⟨mask, rfl, hm, fun j => by simp; intro h1 h2; omega⟩
  | succ fu ih =>
    intro addr remain mask hf hs hin hmax htab hm
    unfold Fs.fillBitcache
    by_cases hr : remain = 0
    · subst hr
      exact ⟨mask, by simp [run_pure], hm, fun j => by simp; intro h1 h2; omega⟩
    · have hP : Naive.PARITY_TEMP_LEN = 128 := rfl
      have c3 : Fs.MAX_SEGMENTS = 16384 := rfl
      have hst : 1 ≤ min remain Naive.PARITY_TEMP_LEN := by omega
      have hle : min remain Naive.PARITY_TEMP_LEN ≤ remain := Nat.min_le_left _ _
      simp only [hr, ↓reduceIte, run_bind, Fs.readTo_run hG addr (min remain Naive.PARITY_TEMP_LEN) (by omega)]
      have hc : ¬ addr - startAddr + min remain Naive.PARITY_TEMP_LEN > Fs.MAX_SEGMENTS := by omega
      simp only [hc, ↓reduceIte, run_bind, run_pure]
      have hbytes : ∀ j, j < (d.flash.read addr (min remain Naive.PARITY_TEMP_LEN)).length →
          (d.flash.read addr (min remain Naive.PARITY_TEMP_LEN)).getD j 0 =
            if a.testBit (addr - startAddr + j) then 0x33 else 0xFF := by
        intro j hj
        rw [length_read] at hj
        have hg : (d.flash.read addr (min remain Naive.PARITY_TEMP_LEN))[j]? = some (d.flash.byte (addr + j)) := by
          rw [getElem?_read, if_pos hj]
        rw [List.getD_eq_getElem?_getD, hg, Option.getD_some]
        exact htab j (by omega)
      obtain ⟨m1, hok1, hhi1, hspec1⟩ := fillFrom_spec _ mask (addr - startAddr) a
        (by rw [length_read]; omega) hbytes hm
      rw [hok1]
      simp only
      have e : addr + min remain Naive.PARITY_TEMP_LEN - startAddr =
          addr - startAddr + min remain Naive.PARITY_TEMP_LEN := by omega
      obtain ⟨m, hok, hhi, hspec⟩ := ih (addr + min remain Naive.PARITY_TEMP_LEN)
        (remain - min remain Naive.PARITY_TEMP_LEN) m1 (by omega) (by omega) (by omega) (by omega)
        (by
          intro j hj
          rw [e]
          have := htab (min remain Naive.PARITY_TEMP_LEN + j) (by omega)
          rw [← Nat.add_assoc] at this
          rw [Nat.add_assoc (addr - startAddr)]
          exact this) hhi1
      refine ⟨m, hok, hhi, ?_⟩
      intro j
      rw [hspec j, e, hspec1 j, length_read]
      by_cases h1 : addr - startAddr + min remain Naive.PARITY_TEMP_LEN ≤ j ∧
          j < addr - startAddr + min remain Naive.PARITY_TEMP_LEN + (remain - min remain Naive.PARITY_TEMP_LEN)
      · have : addr - startAddr ≤ j ∧ j < addr - startAddr + remain := by omega
        rw [if_pos h1, if_pos this]
      · rw [if_neg h1]
        by_cases h2 : addr - startAddr ≤ j ∧ j < addr - startAddr + min remain Naive.PARITY_TEMP_LEN
        · have : addr - startAddr ≤ j ∧ j < addr - startAddr + remain := by omega
          rw [if_pos h2, if_pos this]
        · have : ¬ (addr - startAddr ≤ j ∧ j < addr - startAddr + remain) := by omega
          rw [if_neg h2, if_neg this]

/-- a mask without bits at or above `n` -/
def Below (a n : Nat) : Prop := ∀ j, n ≤ j → a.testBit j = false

theorem numSegments_run (s : Slot) (n : Nat) (d : Dev) (hG : Good d) (hin : s.size * s.idx + 16 ≤ d.flash.size)
    (hw : parseNseg Fs.C (Nor.le32 (d.flash.read (s.size * s.idx + 12) 4)) = some n) :
    s.numSegments.run d = (.ok n, d) := by
  unfold Slot.numSegments
  have c : Consts.NSEG_OFFSET = 12 := rfl
  rw [c, run_bind, Fs.readTo_run hG _ _ (by omega)]
  simp only [hw, run_pure]

/-- **`load_status_array` reads the mask**: when the header announces `n` fragments and the status table encodes the
    bits of `a` (which has none at or above `n`), the call returns exactly `(a, n)` and changes nothing -/
theorem loadStatus_run (s : Slot) (n a : Nat) (d : Dev) (hG : Good d) (hn : n ≤ 16384)
    (hfit : 1024 + n ≤ s.size) (hin : s.idx * s.size + s.size ≤ d.flash.size)
    (hw : parseNseg Fs.C (Nor.le32 (d.flash.read (s.size * s.idx + 12) 4)) = some n)
    (htab : TableIs d.flash (s.idx * s.size + 1024) n 0 a) (hb : Below a n) :
    (Naive.loadStatus s).run d = (.ok (a, n), d) := by
  unfold Naive.loadStatus
  have c3 : Fs.WRITTEN_OFFSET = 1024 := rfl
  have e : s.size * s.idx = s.idx * s.size := Nat.mul_comm _ _
  rw [run_bind, numSegments_run s n d hG (by rw [e]; omega) hw]
  simp only [c3, run_bind]
  obtain ⟨m, hok, hhi, hspec⟩ := fillBitcache_spec (s.idx * s.size + 1024) d hG a (n + 1) (s.idx * s.size + 1024) n 0
    (by omega) (Nat.le_refl _) (by omega) (by omega) (by rw [Nat.sub_self]; exact htab) (fun j _ => by simp)
  rw [hok]
  simp only [run_pure]
  have : m = a := by
    apply Nat.eq_of_testBit_eq
    intro j
    rw [hspec j, Nat.sub_self]
    by_cases h : 0 ≤ j ∧ j < 0 + n
    · rw [if_pos h]
    · rw [if_neg h, hb j (by omega)]; simp
  rw [this]

end Fuota.V1
