import Fuota.Model.Hex
import Fuota.Model.Nor
import Fuota.Model.FlashAdapters
/-! Driver part for suite D4 (the three `flash.rs` adapters on a simulated `NorFlash` device, C16). Stateful:
    `new …` configures an adapter on a fresh device (8 KiB, filled with 0x00, erase size 256). -/
open Fuota Fuota.Hex Fuota.Nor Fuota.FlashAdapters
namespace Drv.D4

def DEV_SIZE : Nat := 8192

inductive Kind | none | data | parity | matrix
  deriving DecidableEq

structure S where
  kind : Kind := .none
  cfg : Cfg := { W := 1, R := 1, start := 0, stop := 0, tailReadLen := 1 }
  len : Nat := 0
  flash : Flash := { mem := #[], block := ERASE_SIZE }

def accStr : Acc → String
  | .erase a b => s!"E{a}:{b}"
  | .read a n => s!"R{a}:{n}"
  | .program a bs => s!"W{a}:{toHex bs}"

def logStr (l : List Acc) : String := if l.isEmpty then "-" else ",".intercalate (l.map accStr)

def errStr : Err → String
  | .notAligned => "err:NotAligned"
  | .outOfBounds => "err:OutOfBounds"

def answer (res val : String) (log : List Acc) : String := s!"res={res} ; val={val} ; log={logStr log}"

def panicAns : String := answer "PANIC" "-" []

/-- run mutating accesses through the device checks -/
def mutate (s : S) (accs : List Acc) : S × String :=
  let (log, f, e) := run s.cfg s.flash accs
  match e with
  | some e => ({ s with flash := f }, answer (errStr e) "-" log)
  | none => ({ s with flash := f }, answer "ok" "-" log)

def query (s : S) (accs : List Acc) (val : List Nat) : S × String :=
  let (log, _, e) := run s.cfg s.flash accs
  match e with
  | some e => (s, answer (errStr e) "-" log)
  | none => (s, answer "ok" (toHex val) log)

def mkNew (k : Kind) (c : Cfg) (len : Nat) : S × String :=
  let s : S := { kind := k, cfg := c, len := len, flash := { mem := Array.replicate DEV_SIZE 0, block := ERASE_SIZE } }
  if newPanics c then ({ s with kind := .none }, panicAns) else
  let (s', a) := mutate s (newAccs c)
  (if a.startsWith "res=ok" then s' else { s' with kind := .none }, a)

def tailOf (c : String) (w r : Nat) : Nat := if c = "tail=W" then w else r

def step (s : S) (toks : List String) : Option (S × String) :=
  match toks with
  | ["new", "data", w, r, a, b, len] =>
    some (mkNew .data { W := w.toNat!, R := r.toNat!, start := a.toNat!, stop := b.toNat!, tailReadLen := r.toNat! } len.toNat!)
  | ["new", "parity", w, r, a, b, len, t] =>
    some (mkNew .parity { W := w.toNat!, R := r.toNat!, start := a.toNat!, stop := b.toNat!,
                          tailReadLen := tailOf t w.toNat! r.toNat! } len.toNat!)
  | ["new", "matrix", w, r, a, b, n] =>
    some (mkNew .matrix { W := w.toNat!, R := r.toNat!, start := a.toNat!, stop := b.toNat!, tailReadLen := r.toNat!,
                          N := n.toNat! } 0)
  | ["store", m, h] =>
    let m := m.toNat!
    let d := fromHex h
    match s.kind with
    | .data => some (if dataStorePanics s.cfg m d.length then (s, panicAns) else mutate s (dataStoreAccs s.cfg m d))
    | .parity => some (mutate s (parityStoreAccs s.cfg m d))
    | _ => none
  | ["get", m] =>
    let m := m.toNat!
    match s.kind with
    | .data =>
      some (if dataSplitPanics s.cfg m s.len then (s, panicAns)
            else query s (dataGetAccs s.cfg m s.len) (dataGetVal s.cfg s.flash m s.len))
    | .parity => some (query s (parityGetAccs s.cfg m s.len) (parityGetVal s.cfg s.flash m s.len))
    | _ => none
  | ["setrow", m, h] =>
    let m := m.toNat!
    match s.kind with
    | .matrix => some (if matrixPanics s.cfg m then (s, panicAns) else mutate s (setRowAccs s.cfg m (fromHex h)))
    | _ => none
  | ["getrow", m] =>
    let m := m.toNat!
    match s.kind with
    | .matrix => some (if matrixPanics s.cfg m then (s, panicAns) else query s (rowAccs s.cfg m) (rowVal s.cfg s.flash m))
    | _ => none
  | ["numrows"] =>
    match s.kind with
    | .matrix => some (s, answer "ok" (toString (numRows s.cfg)) [])
    | _ => none
  | _ => none

end Drv.D4
