import Fuota.Model.Hex
import Fuota.Model.Layout
import Fuota.Model.Fs
/-! Driver part for suite D3 (header codec). Stateless. -/
open Fuota Fuota.Hex Fuota.Layout
namespace Drv.D3

def codecOf (s : String) : Codec := if s = "orig" then Codec.orig else Codec.new

def kindIdx : Kind → Nat | .firmware => 0 | .parity => 1
def extIdx : Ext → Nat | .inProgress => 0 | .aborted => 1 | .complete => 2
def intIdx : IntSt → Nat | .inProgress => 0 | .complete => 1
def bootIdx : Boot → Nat | .untested => 0 | .successful => 1 | .unsuccessful => 2

def optNat : Option Nat → String | none => "none" | some v => toString v

def fld (c : Codec) (f : String) (w : Nat) : String :=
  match f with
  | "kind" => optNat ((parseKind c w).map kindIdx)
  | "seq" => optNat (parseSeq c w)
  | "size" => optNat (parseSize c w)
  | "nseg" => optNat (parseNseg c w)
  | "ext" => optNat ((parseExt c w).map extIdx)
  | "int" => optNat ((parseInt c w).map intIdx)
  | "boot" => optNat ((parseBoot c w).map bootIdx)
  | _ => "bad-op"

def enc (c : Codec) (f : String) (i : Nat) : String :=
  match f, i with
  | "kind", 0 => toString (encKind c .firmware) | "kind", 1 => toString (encKind c .parity)
  | "ext", 0 => toString (encExt c .inProgress) | "ext", 1 => toString (encExt c .aborted)
  | "ext", 2 => toString (encExt c .complete)
  | "int", 0 => toString (encInt c .inProgress) | "int", 1 => toString (encInt c .complete)
  | "boot", 0 => toString (encBoot c .untested) | "boot", 1 => toString (encBoot c .successful)
  | "boot", 2 => toString (encBoot c .unsuccessful)
  | _, _ => "bad-op"

def hdr (c : Codec) (bs : List Nat) : String :=
  match parseHeader c bs with
  | none => "none"
  | some (h, rest) =>
    s!"some k={kindIdx h.kind} seq={h.seq} sz={h.size} n={h.n} e={extIdx h.ext} i={intIdx h.ist} b={bootIdx h.boot} rest={rest.length} enc={toHex (encodeHeader c h)} encrest=Some(0)"

def ts (c : Codec) (bs : List Nat) : String :=
  match parseHeader c bs with
  | none => "none"
  | some (h, _) => (totalStatus h).name

/-- observable classification of a header in slot 0 (see harness `new_classify`) -/
def cls (bs : List Nat) : String :=
  let c := Codec.new
  let seq := match takeU32 (bs.drop 4) with | some (w, _) => w | none => 0
  let ph := parseHeader c bs
  let bl := match ph with
    | some (h, _) =>
      if h.kind = Kind.firmware then
        match totalStatus h with
        | .bootloadWriteInProgress => "copy0"
        | .firstBootPendingAck => "unack0"
        | _ => "idle"
      else "idle"
    | none => "idle"
  let fb := match ph with
    | some (h, _) => if totalStatus h = TotalStatus.confirmedImage then "some" else "none"
    | none => "none"
  let rem :=
    if seq ≤ 0xFFFFFFF0 then
      match ph with
      | none => "sess:keep"
      | some (h, _) =>
        match totalStatus h with
        | .appWriteInProgress => s!"sess:w{Consts.EXT_OFFSET}:{toHex (writeU32 (encExt c .aborted))}"
        | .bootloadWriteInProgress | .invalidNeedsErase => "sess:erase"
        | _ => "sess:keep"
    else "skip"
  let can := match ph with
    | some (h, _) =>
      if h.ext = Ext.inProgress then s!"w{Consts.EXT_OFFSET}:{toHex (writeU32 (encExt c .aborted))}" else "keep"
    | none => "keep"
  s!"bl={bl} fb={fb} rem={rem} can={can}"

def mark (name : String) : String :=
  let c := Codec.new
  let w (off v : Nat) := s!"true W{off}:{toHex (writeU32 v)}"
  match name with
  | "aborted" => w Consts.EXT_OFFSET (encExt c .aborted)
  | "complete" => w Consts.EXT_OFFSET (encExt c .complete)
  | "int" => w Consts.INT_OFFSET (encInt c .complete)
  | "ok" => w Consts.BOOT_OFFSET (encBoot c .successful)
  | "bad" => w Consts.BOOT_OFFSET (encBoot c .unsuccessful)
  | _ => "bad-op"


/-- `start_update` on a 4-slot ring whose slot 0 holds a completed, confirmed firmware with sequence number `s`:
the sequence numbers `alloc_slotpair` writes (slots in index order; blank slots are not listed) -/
def alloc (s : Nat) : String :=
  let h : Header := { kind := .firmware, seq := s, size := 32, n := 8, ext := .complete, ist := .complete,
                      boot := .successful }
  match Fuota.Fs.choosePair 4 [some h, none, none, none] with
  | .error _ => "r=false"
  | .ok (a, b, sa, sb) =>
    let one (i : Nat) : String :=
      if i = a then s!" seq{i}={sa}" else if i = b then s!" seq{i}={sb}" else ""
    "r=true" ++ one 1 ++ one 2 ++ one 3

def step (toks : List String) : Option String :=
  match toks with
  | ["fld", c, f, w] => some (match w.toNat? with | some w => fld (codecOf c) f w | none => "bad-op")
  | ["enc", c, f, i] => some (match i.toNat? with | some i => enc (codecOf c) f i | none => "bad-op")
  | ["hdr", c, h] => some (hdr (codecOf c) (fromHex h))
  | ["ts", c, h] => some (ts (codecOf c) (fromHex h))
  | ["cls", _, h] => some (cls (fromHex h))
  | ["mark", n] => some (mark n)
  | ["alloc", s] => some (match s.toNat? with | some s => alloc s | none => "bad-op")
  | _ => none

end Drv.D3
