import Fuota.Model.Hex
import Fuota.Model.Lfdbt
/-! Driver part for suite D2 (parity-row generators, C10). Stateless.
    `row new|orig <M> <N> std|ffr`, `row lfdbt <M> <m>`; answer = hex of the first ⌈M/8⌉ row bytes or `PANIC`.
    Both fragmentation.rs copies are the same function, hence one model for `new` and `orig`. -/
open Fuota Fuota.Hex Fuota.Lfdbt
namespace Drv.D2

def render (M : Nat) : Option Nat → String
  | none => "PANIC"
  | some row => toHex (maskBytes row ((M + 7) / 8))

def step (toks : List String) : Option String :=
  match toks with
  | ["row", g, m, n, cfg] =>
    if g = "new" ∨ g = "orig" then
      some (match m.toNat?, n.toNat? with
        | some m, some n =>
          render m (if g = "orig" then getParityMatrixRowOrig (cfg == "ffr") n m else getParityMatrixRow (cfg == "ffr") n m)
        | _, _ => "bad-op")
    else none
  | ["row", "lfdbt", m, i] =>
    some (match m.toNat?, i.toNat? with
      | some m, some i => render m (lfdbtRow m i)
      | _, _ => "bad-op")
  | _ => none

end Drv.D2
