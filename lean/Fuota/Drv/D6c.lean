import Fuota.Model.Slots
/-! Driver part for the ring closure (model-checking SUPPORT for C05 / C12 / C13):
    `closure <N> [compat] [fuel]` explores `Fuota.Slots.succs` from the blank ring to closure modulo sequence shift
    and answers `states=<k> ok=<bool> transitions=<t> exhausted=<bool> [viol=<first violated check>]`.
    `compat` = hdrsim.py's granularity (atomic cancel / recovery, single-pass remediation, no start-attempt ids);
    `pinned` = single-pass remediation (the code before the remediation-order repair). Stateless. -/
open Fuota Fuota.Slots
namespace Drv.D6c

def run (n : Nat) (compat pinned : Bool) (fuel : Nat) : String :=
  let r := explore { n := n, crashInside := !compat, attempts := !compat, pinnedRemediation := compat || pinned } fuel
  let ok := r.exhausted && r.bad.isEmpty
  let viol := match r.bad with
    | [] => ""
    | b :: _ => s!" viol={b.1.replace " " "_"}"
  s!"states={r.states} ok={ok} transitions={r.transitions} exhausted={r.exhausted}{viol}"

def step (toks : List String) : Option String :=
  match toks with
  | "closure" :: n :: rest =>
    match n.toNat? with
    | none => some "bad-op"
    | some n =>
      if n < 2 then some "bad-op" else
      let compat := rest.contains "compat"
      let fuel := (rest.filterMap String.toNat?).headD 100000000
      some (run n compat (rest.contains "pinned") fuel)
  | _ => none

end Drv.D6c
