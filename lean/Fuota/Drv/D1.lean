import Fuota.Model.Hex
import Fuota.Model.Recon
/-! Driver part for suite D1 (reconstructor over abstract stores, with fault injection). -/
open Fuota Fuota.Hex
namespace Drv.D1

def bytesToNat : List Nat → Nat
  | [] => 0
  | b :: bs => b + 256 * bytesToNat bs

def natToBytes (v : Nat) : Nat → List Nat
  | 0 => []
  | k + 1 => v % 256 :: natToBytes (v / 256) k

partial def natToBytesTrim (v : Nat) : List Nat := if v = 0 then [] else v % 256 :: natToBytesTrim (v / 256)

structure ReconSt where
  s : Recon.St := { n := 0, bs := 0 }
  rows : Array Nat := #[]
  vbits : Nat := 0
  numRows : Nat := 0

def ReconSt.P (r : ReconSt) (m : Nat) : Nat :=
  if m < r.s.n then 2 ^ m else if r.rows.size = 0 then 0 else r.rows[(m - r.s.n) % r.rows.size]!

def callStr (bs : Nat) : Recon.Call → String
  | .dStore m d => s!"dS{m}:{toHex (natToBytes d bs)}"
  | .dGet m => s!"dG{m}"
  | .pStore m d => s!"pS{m}:{toHex (natToBytes d bs)}"
  | .pGet m => s!"pG{m}"
  | .mSet m r => s!"mS{m}:{toHex (natToBytes r (m / 8 + 1))}"
  | .mRow m => s!"mR{m}"

def resStr : Recon.Res → String
  | .needMore => "NeedMore" | .tooMany => "TooManyMissing" | .done k => s!"Done({k})"
  | .err .data => "Err(data)" | .err .parity => "Err(parity)" | .err .matrix => "Err(matrix)" | .panic => "PANIC"

def reconBlk (V : Recon.Variant) (r : ReconSt) (idx : Nat) (bytes : List Nat) (fault : Option Nat) : ReconSt × String :=
  let c0 := r.s.calls
  let F : Nat → Bool := match fault with | none => Recon.noFault | some k => fun c => c == c0 + k
  let (s1, res) := Recon.handleBlock V F r.P r.vbits r.numRows r.s idx (bytesToNat bytes) bytes.length
  let newCalls := (s1.log.take (s1.calls - c0)).reverse
  let cs := if newCalls.isEmpty then "-" else ",".intercalate (newCalls.map (callStr s1.bs))
  let dsts := newCalls.filter (fun c => match c with | .dStore _ _ => true | _ => false)
  let dst := if dsts.isEmpty then "-" else ",".intercalate (dsts.map (callStr s1.bs))
  ({ r with s := s1 },
   s!"res={resStr res} ; calls={cs} ; dst={dst} ; nc={newCalls.length} ; l={s1.l} ; done={toHex (natToBytesTrim s1.done)} ; used={toHex (natToBytesTrim s1.used)}")

def reconEnd (r : ReconSt) : String :=
  let ds := (List.range r.s.n).map fun i =>
    match r.s.ds.lookup i with
    | some v => toHex (natToBytes v r.s.bs)
    | none => "?"
  "ds=" ++ ",".intercalate ds


structure S where
  variant : Recon.Variant := { bitBeforeStore := false }
  recon : ReconSt := {}

def step (st : S) (toks : List String) : Option (S × String) :=
  match toks with
  | ["new", "recon", n, bs, vb, cap] =>
    some ({ st with recon := { s := { n := n.toNat!, bs := bs.toNat! }, vbits := vb.toNat!, numRows := cap.toNat! } }, "ok")
  | ["row", h] => some ({ st with recon := { st.recon with rows := st.recon.rows.push (bytesToNat (fromHex h)) } }, "ok")
  | ["orig", _] => some (st, "ok")
  | ["blk", i, h] => let (r, o) := reconBlk st.variant st.recon i.toNat! (fromHex h) none; some ({ st with recon := r }, o)
  | ["blk", i, h, f] =>
    let (r, o) := reconBlk st.variant st.recon i.toNat! (fromHex h) ((f.drop 1).toNat?); some ({ st with recon := r }, o)
  | ["end"] => some (st, reconEnd st.recon)
  | _ => none

end Drv.D1
