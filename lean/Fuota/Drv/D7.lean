import Fuota.Model.Hex
import Fuota.Model.Firmware
/-! Driver part for suite D7 (firmware validation, C14). Stateless: every line carries the flash it is about. -/
open Fuota Fuota.Hex Fuota.Layout Fuota.Nor Fuota.Crc Fuota.Firmware
namespace Drv.D7

/-- number of slots of the harness' `SlotManager::<4>` (`open` asserts `idx < 4`) -/
def nSlot : Nat := 4

def putBytes (mem : Array Nat) (pos : Nat) : List Nat → Array Nat
  | [] => mem
  | b :: bs => putBytes (mem.setIfInBounds pos b) (pos + 1) bs

/-- `nslots * slot` bytes of 0xFF, `hdr` at the slot's start, `data` at its data region, truncated at the end -/
def build (slot nslots idx : Nat) (hdr data : List Nat) : Flash :=
  let mem := Array.replicate (slot * nslots) 0xFF
  { mem := putBytes (putBytes mem (idx * slot) hdr) (idx * slot + Consts.DATA_REGION_OFFSET) data, block := 4096 }

def flip (f : Flash) (a bit : Nat) : Flash := { f with mem := f.mem.setIfInBounds a (f.byte a ^^^ 2 ^ bit) }

def hex8 (v : Nat) : String := toHex [v / 16777216 % 256, v / 65536 % 256, v / 256 % 256, v % 256]

def hex16 (v : Nat) : String := hex8 (v / 2 ^ 32) ++ hex8 (v % 2 ^ 32)

def fmtReads (r0 : ReadLog) : String :=
  let r := r0.chrono
  if r.isEmpty then "-"
  else if r.length ≤ 6 then ",".intercalate (r.map fun (a, l) => s!"{a}:{l}")
  else
    let h := r.foldl (fun h (a, l) =>
      let h := ((h ^^^ a) * 0x100000001b3) % 2 ^ 64
      ((h ^^^ l) * 0x100000001b3) % 2 ^ 64) 0xcbf29ce484222325
    s!"{r.length}#{hex16 h}"

def fmtOps (ops : List Op) : String :=
  if ops.isEmpty then "-"
  else ",".intercalate (ops.map fun
    | .erase a => s!"E{a}"
    | .program a bs => s!"W{a}:{toHex bs}")

def answer (r : Res × ReadLog) : String := s!"{r.1.name} reads={fmtReads r.2} ops=-"

/-- `SlotManager::new` asserts `slot_size > HEADER_SIZE + MAX_SEGMENTS` -/
def newPanics (slot : Nat) : Bool := slot ≤ Consts.HEADER_SIZE + Consts.MAX_SEGMENTS

def valid (slot nsl idx : Nat) (h d : List Nat) : String :=
  if newPanics slot || idx ≥ nSlot then "PANIC" else answer (isValidFirmware (build slot nsl idx h d) slot idx)

def ovalid (slot nsl idx : Nat) (h d : List Nat) : String :=
  if newPanics slot then "PANIC" else answer (validateFirmwareSlot (build slot nsl idx h d) slot idx)

def occrc (slot nsl idx : Nat) (so no : Option Nat) (h d : List Nat) : String :=
  answer (checkCrcFromIndex (build slot nsl idx h d) so no (idx * slot))

def flipAll (slot nsl idx : Nat) (h d : List Nat) : String := Id.run do
  let f := build slot nsl idx h d
  let base := idx * slot
  let total := match parseHeader Codec.new (f.read base 28) with
    | some (hd, _) => hd.size * hd.n
    | none => 0
  let mut mis : Array Nat := #[0, 0, 0, 0]
  let mut tot : Array Nat := #[0, 0, 0, 0]
  let mut other := 0
  for off in [0:d.length] do
    let region := if off < 4 then 0 else if off < 68 then 1 else if off < total then 2 else 3
    for bit in [0:8] do
      let r := (isValidFirmware (flip f (base + Consts.DATA_REGION_OFFSET + off) bit) slot idx).1
      tot := tot.modify region (· + 1)
      if r = Res.crc32Mismatch then mis := mis.modify region (· + 1)
      else if r ≠ Res.ok then other := other + 1
  return s!"crc={mis[0]!}/{tot[0]!} sig={mis[1]!}/{tot[1]!} cov={mis[2]!}/{tot[2]!} tail={mis[3]!}/{tot[3]!} other={other}"

/-- `-` | `d<off>:<bit>` | `h<off>:<bit>` -/
def corrupt (f : Flash) (fwBase : Nat) (c : String) : Flash :=
  match c.toList with
  | r :: rest =>
    match (String.ofList rest).splitOn ":" with
    | [a, b] =>
      match a.toNat?, b.toNat? with
      | some off, some bit => flip f (fwBase + (if r = 'd' then Consts.DATA_REGION_OFFSET else 0) + off) bit
      | _, _ => f
    | _ => f
  | [] => f

def checkmark (slot n nfeed : Nat) (c : String) (fw par : Nat) (h d : List Nat) : String :=
  let f := corrupt (build slot nSlot fw h d) (fw * slot) c
  let out := checkAndMarkDone f (decide (nfeed ≥ n)) (fw * slot) (par * slot)
  s!"{out.res.name} reads={fmtReads out.reads} ops={fmtOps out.ops}"

def optNat (s : String) : Option Nat := s.toNat?

def step (toks : List String) : Option String :=
  match toks with
  | ["crc", h] => some (hex8 (crcBytes (fromHex h)))
  | ["valid", slot, nsl, idx, h, d] =>
    some (match slot.toNat?, nsl.toNat?, idx.toNat? with
      | some slot, some nsl, some idx => valid slot nsl idx (fromHex h) (fromHex d)
      | _, _, _ => "bad-op")
  | ["ovalid", slot, nsl, idx, h, d] =>
    some (match slot.toNat?, nsl.toNat?, idx.toNat? with
      | some slot, some nsl, some idx => ovalid slot nsl idx (fromHex h) (fromHex d)
      | _, _, _ => "bad-op")
  | ["occrc", slot, nsl, idx, so, no, h, d] =>
    some (match slot.toNat?, nsl.toNat?, idx.toNat? with
      | some slot, some nsl, some idx => occrc slot nsl idx so.toNat? no.toNat? (fromHex h) (fromHex d)
      | _, _, _ => "bad-op")
  | ["flipall", slot, nsl, idx, h, d] =>
    some (match slot.toNat?, nsl.toNat?, idx.toNat? with
      | some slot, some nsl, some idx => flipAll slot nsl idx (fromHex h) (fromHex d)
      | _, _, _ => "bad-op")
  | ["checkmark", slot, _pre, _size, n, nfeed, _image, c, "|", fw, par, h, d] =>
    some (match slot.toNat?, n.toNat?, nfeed.toNat?, fw.toNat?, par.toNat? with
      | some slot, some n, some nfeed, some fw, some par => checkmark slot n nfeed c fw par (fromHex h) (fromHex d)
      | _, _, _, _, _ => "bad-op")
  | _ => none

end Drv.D7
