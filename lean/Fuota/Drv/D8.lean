import Fuota.Model.Hex
import Fuota.Model.Naive
import Fuota.Model.Orig
import Fuota.Drv.D5
/-! Driver part for the V1 suites (D8).

* `stepNaive`: the naive back-end of `flash-algo-new` answers the SAME line protocol as D5 (`harness/src/d5.rs` is
  back-end agnostic); the driver uses it instead of `D5.step` when started with `--naive`.
* `stepOrig`: the deprecated crate has its own lines (`new odev`, `oring`, `ostart`, `oseg`, `owrite`, `orepair`,
  `ocheck`, `oapp`, `obl`, `ocancel`, `omark`, `ovalid`, `odump`, `oreboot`), executed by `harness/src/d8.rs`. -/
open Fuota Fuota.Hex Fuota.Nor Fuota.Fs Fuota.Layout
namespace Drv.D8

/-! ## the two questionable spots of the pinned code (flip when the code is repaired) -/

/-- `naive.rs::start_update` clamps the parity-fragment count to `MAX_SEGMENTS`?  Pinned code: no. -/
def clampParity : Bool := true
/-- `original manager.rs::write_segment_internal`'s `data_in_range` accounts for `DATA_REGION_OFFSET`?
    Pinned code: no. -/
def rangeCheckWithOffset : Bool := true

structure S where
  ffr : Bool := false
  /-- device, geometry and every back-end independent line of D5 -/
  base : D5.S := {}
  nu : Option Naive.Upd := none
  /-- the deprecated crate's device and session -/
  odev : Dev := { flash := Flash.blank 4096 (4 * 20480) }
  onslots : Nat := 4
  oslot : Nat := 20480
  oa : Option Orig.Act := none

def ncfg (st : S) : Naive.Cfg := { ffr := st.ffr, clampParity := clampParity }
def ocfg (st : S) : Orig.Cfg := { ffr := st.ffr, rangeCheckWithOffset := rangeCheckWithOffset }

def counters : Option Naive.Upd → String
  | none => "recv=- ; total=- ; complete=- ; rem=-"
  | some u => s!"recv={u.received} ; total={u.totalFw} ; complete={u.complete} ; rem={u.remFw}"

/-- the naive back-end behind the D5 line protocol -/
def stepNaive (st : S) (toks : List String) : Option (S × String) :=
  let b := st.base
  match toks with
  | ["start", sz, n] =>
    let d := D5.prep b.dev
    let (r, d') := (Naive.startUpdate (ncfg st) b.nslots b.slot sz.toNat! n.toNat!).run d
    let ops := D5.opsStr b.slot d'
    match r with
    | .ok u =>
      some ({ st with base := { b with dev := D5.disarm d' }, nu := some u },
        s!"res=Ok ; ops={ops} ; fw={u.fw.idx} ; par={u.par.idx} ; maxl={u.totalPar}")
    | .error e => some ({ st with base := { b with dev := D5.disarm d' }, nu := none }, s!"res={e.name} ; ops={ops}")
  | ["seg", idx, h] =>
    match st.nu with
    | none => some (st, "res=NoSession")
    | some u =>
      let d := D5.prep b.dev
      let (r, (u', d')) := (Naive.handleSegment (ncfg st) idx.toNat! (fromHex h)).run (u, d)
      let res := D5.resName r fun o => match o with | .consumed => "Consumed" | .complete => "Complete"
      some ({ st with base := { b with dev := D5.disarm d' }, nu := some u' },
        s!"res={res} ; ops={D5.opsStr b.slot d'} ; {counters (some u')}")
  | ["check"] =>
    match st.nu with
    | none => some (st, "res=NoSession")
    | some u =>
      let d := D5.prep b.dev
      let (r, d') := (Naive.checkAndMarkDone u).run d
      some ({ st with base := { b with dev := D5.disarm d' }, nu := none },
        s!"res={D5.resName r fun i => s!"Ok({i})"} ; ops={D5.opsStr b.slot d'}")
  | ["recover"] =>
    let d := D5.prep b.dev
    let (r, d') := (Naive.tryRecover b.nslots b.slot).run d
    let ops := D5.opsStr b.slot d'
    let b' := { b with dev := D5.disarm d' }
    match r with
    | .ok (some u) => some ({ st with base := b', nu := some u }, s!"res=Some ; ops={ops} ; {counters (some u)}")
    | .ok none => some ({ st with base := b', nu := none }, s!"res=None ; ops={ops}")
    | .error e => some ({ st with base := b', nu := none }, s!"res={e.name} ; ops={ops}")
  | _ =>
    match D5.step { b with u := none } toks with
    | none => none
    | some (b', o) =>
      let dropsSession := match toks with
        | "new" :: _ => true | ["reboot"] => true | ["cancel"] => true | _ => false
      some ({ st with base := b', nu := if dropsSession then none else st.nu }, o)

/-! ## the deprecated crate -/

/-- counters and log restart at every call unless a crash was armed just before -/
def oprep (d : Dev) : Dev := D5.prep d

def parseKindTok : String → Kind | "p" => .parity | _ => .firmware
def parseExtTok : String → Ext | "a" => .aborted | "c" => .complete | _ => .inProgress
def parseIntTok : String → IntSt | "c" => .complete | _ => .inProgress
def parseBootTok : String → Boot | "s" => .successful | "x" => .unsuccessful | _ => .untested

/-- `k:seq:size:n:ext:int:boot` -> the 28 header bytes; `-` = blank -/
def ringHeaderBytes (tok : String) : List Nat :=
  match tok.splitOn ":" with
  | [k, seq, size, n, e, i, b] =>
    encodeHeader Orig.C { kind := parseKindTok k, seq := seq.toNat!, size := size.toNat!, n := n.toNat!,
                          ext := parseExtTok e, ist := parseIntTok i, boot := parseBootTok b }
  | _ => []

def pokeRing (mem : Array Nat) (slot : Nat) : Nat → List String → Array Nat
  | _, [] => mem
  | i, t :: ts => pokeRing (D5.pokeBytes mem (i * slot) (ringHeaderBytes t)) slot (i + 1) ts

def actStr (a : Orig.Act) : String :=
  s!"fw={a.fwIdx} ; par={a.parIdx} ; seg={a.segSize} ; total={a.totalFw}/{a.totalPar} ; rem={a.remFw}/{a.remPar}"

def remStr (a : Orig.Act) : String := s!"rem={a.remFw}/{a.remPar}"

def wName : V1.WOutcome → String
  | .consumed => "Consumed" | .maybeParity => "MaybeParity" | .complete => "Complete"

def listStr (l : List Nat) : String := "[" ++ ",".intercalate (l.map toString) ++ "]"

def odump (st : S) : String :=
  " ; ".intercalate ((List.range st.onslots).map fun i =>
    let b := i * st.oslot
    let w := D5.hdrWords st.odev b
    let ws := ".".intercalate (w.map D5.hexNat)
    s!"s{i}={ws}/{D5.hex16 (fnvArray st.odev.flash.mem (b + 0x400) 0x4000)}/{D5.hex16 (fnvArray st.odev.flash.mem (b + 0x4400) (st.oslot - 0x4400))}")

def stepOrig (st : S) (toks : List String) : Option (S × String) :=
  match toks with
  | ["new", "odev", n, slot, block] =>
    let n := n.toNat!; let slot := slot.toNat!; let block := block.toNat!
    some ({ st with odev := { flash := Flash.blank block (n * slot) }, onslots := n, oslot := slot, oa := none }, "ok")
  | ["oimage", _, _, _] => some (st, "ok")
  | "oring" :: hs =>
    let d := st.odev
    let blank := Flash.blank d.flash.block (st.onslots * st.oslot)
    some ({ st with odev := { flash := { blank with mem := pokeRing blank.mem st.oslot 0 hs } }, oa := none }, "ok")
  | ["oreboot"] => some ({ st with oa := none, odev := { D5.disarm st.odev with dead := false } }, "ok")
  | ["ocrash", k] =>
    some ({ st with odev := { st.odev with ops := [], nmut := 0, needsSet := 0, crashAt := some (k.toNat!, none) } }, "ok")
  | ["ostart", sz, n] =>
    let d := oprep st.odev
    let (r, d') := (Orig.start st.onslots st.oslot sz.toNat! n.toNat!).run d
    let ops := D5.opsStr st.oslot d'
    match r with
    | .ok a => some ({ st with odev := D5.disarm d', oa := some a }, s!"res=Ok ; ops={ops} ; {actStr a}")
    | .error e => some ({ st with odev := D5.disarm d', oa := none }, s!"res={e.name} ; ops={ops}")
  | ["oseg", idx, h] =>
    match st.oa with
    | none => some (st, "res=NoSession")
    | some a =>
      let d := oprep st.odev
      let (r, (a', d')) := (Orig.handleSegment (ocfg st) idx.toNat! (fromHex h)).run (a, d)
      let ops := D5.opsStr st.oslot d'
      match r with
      | .ok (w, rep, complete) =>
        some ({ st with odev := D5.disarm d', oa := some a' },
          s!"res={if complete then "Complete" else "Consumed"} ; w={wName w} ; rep={listStr rep} ; ops={ops} ; {remStr a'}")
      | .error e => some ({ st with odev := D5.disarm d', oa := some a' }, s!"res={e.name} ; ops={ops} ; {remStr a'}")
  | ["owrite", idx, h] =>
    match st.oa with
    | none => some (st, "res=NoSession")
    | some a =>
      let d := oprep st.odev
      let (r, (a', d')) := (Orig.writeSegment (ocfg st) idx.toNat! (fromHex h)).run (a, d)
      some ({ st with odev := D5.disarm d', oa := some a' },
        s!"res={D5.resName r wName} ; ops={D5.opsStr st.oslot d'} ; {remStr a'}")
  | ["orepair"] =>
    match st.oa with
    | none => some (st, "res=NoSession")
    | some a =>
      let d := oprep st.odev
      let (r, (a', d')) := (Orig.repairStep (ocfg st)).run (a, d)
      let res := D5.resName r fun o => match o with | none => "None" | some i => s!"Some({i})"
      some ({ st with odev := D5.disarm d', oa := some a' }, s!"res={res} ; ops={D5.opsStr st.oslot d'} ; {remStr a'}")
  | ["ocheck"] =>
    match st.oa with
    | none => some (st, "res=NoSession")
    | some a =>
      let d := oprep st.odev
      let (r, d') := (Orig.checkAndMarkDone a).run d
      some ({ st with odev := D5.disarm d' }, s!"res={D5.resName r fun i => s!"Ok({i})"} ; ops={D5.opsStr st.oslot d'}")
  | ["oapp"] =>
    let d := oprep st.odev
    let (r, d') := (Orig.appBootStatus st.onslots st.oslot).run d
    let ops := D5.opsStr st.oslot d'
    match r with
    | .ok (some a) => some ({ st with odev := D5.disarm d', oa := some a }, s!"res=InProgress ; ops={ops} ; {actStr a}")
    | .ok none => some ({ st with odev := D5.disarm d', oa := none }, s!"res=Idle ; ops={ops}")
    | .error e => some ({ st with odev := D5.disarm d', oa := none }, s!"res={e.name} ; ops={ops}")
  | ["obl"] =>
    let (r, _) := (Orig.blBootStatus st.onslots st.oslot).run st.odev
    some (st, "res=" ++ D5.resName r fun o => match o with
      | none => "Idle" | some (.inl i) => s!"Copy({i})" | some (.inr i) => s!"Unack({i})")
  | ["ocancel"] =>
    let d := oprep st.odev
    let (r, d') := (Orig.cancelAllFromScratch st.onslots st.oslot).run d
    some ({ st with odev := D5.disarm d' }, s!"res={D5.resName r fun _ => "Ok"} ; ops={D5.opsStr st.oslot d'}")
  | ["omark", sl, what] =>
    let d := oprep st.odev
    let i := sl.toNat!
    let act : M Unit := match what with
      | "aborted" => Orig.writeExtAborted st.oslot i | "int" => Orig.writeIntComplete st.oslot i
      | "ok" => Orig.writeBootOk st.oslot i | _ => Orig.writeBootBad st.oslot i
    let (r, d') := act.run d
    some ({ st with odev := D5.disarm d' }, s!"res={D5.resName r fun _ => "Ok"} ; ops={D5.opsStr st.oslot d'}")
  | ["ovalid", sl] =>
    let (r, _) := (Orig.validateFirmwareSlot st.oslot sl.toNat!).run st.odev
    some (st, "res=" ++ D5.resName r fun p => s!"Ok({p.1},{p.2})")
  | ["odump"] => some (st, odump st)
  | _ => none

end Drv.D8
