import Fuota.Model.Hex
import Fuota.Model.Updater
/-! Driver part for the session suites (D5/D6): the updater model on the NOR model, same line protocol as
    `harness/src/d5.rs`. -/
open Fuota Fuota.Hex Fuota.Nor Fuota.Fs Fuota.Updater Fuota.Layout
namespace Drv.D5

structure S where
  ffr : Bool := false
  dev : Dev := { flash := Flash.blank 4096 (4 * 20480) }
  nslots : Nat := 4
  slot : Nat := 20480
  u : Option Upd := none

def hex16 (v : Nat) : String :=
  String.ofList ((List.range 16).reverse.map fun i => hexDigit (v / 16 ^ i % 16))

def opStr (slot : Nat) : Op → String
  | .erase a => s!"E{a / slot}+{a % slot}"
  | .program a d =>
    if d.length ≤ 8 then s!"W{a / slot}+{a % slot}:{toHex d}"
    else s!"W{a / slot}+{a % slot}:{d.length}#{hex16 (fnv d)}"

def opsStr (slot : Nat) (d : Dev) : String :=
  if d.ops.isEmpty then "-" else ",".intercalate (d.ops.reverse.map (opStr slot))

def armed (d : Dev) : Bool := d.crashAt.isSome || d.failAt.isSome

def prep (d : Dev) : Dev := if armed d then d else { d with ops := [], nmut := 0, needsSet := 0 }
def disarm (d : Dev) : Dev := { d with crashAt := none, failAt := none }

def resName {α : Type} (r : Except MErr α) (okName : α → String) : String :=
  match r with
  | .ok a => okName a
  | .error e => e.name

def counters : Option Upd → String
  | none => "recv=- ; total=- ; complete=- ; rem=-"
  | some u => s!"recv={u.received} ; total={u.n} ; complete={u.complete} ; rem={u.n - u.received}"

/-- SplitMix64 of the harness (`util::Rng`) -/
def rngNew (seed : Nat) : Nat := (seed * 0x9E3779B97F4A7C15 + 0x123456789ABCDEF1) % 2 ^ 64
def rngNext (st : Nat) : Nat × Nat :=
  let st := (st + 0x9E3779B97F4A7C15) % 2 ^ 64
  let z := st
  let z := ((z ^^^ (z / 2 ^ 30)) * 0xBF58476D1CE4E5B9) % 2 ^ 64
  let z := ((z ^^^ (z / 2 ^ 27)) * 0x94D049BB133111EB) % 2 ^ 64
  (st, z ^^^ (z / 2 ^ 31))

def fillRandom (mem : Array Nat) (a : Nat) : Nat → Nat → Array Nat
  | 0, _ => mem
  | k + 1, st =>
    let (st', v) := rngNext st
    fillRandom (mem.setIfInBounds a (v % 256)) (a + 1) k st'

def pokeBytes (mem : Array Nat) (a : Nat) : List Nat → Array Nat
  | [] => mem
  | b :: bs => pokeBytes (mem.setIfInBounds a b) (a + 1) bs

def hdrWords (d : Dev) (base : Nat) : List Nat :=
  (List.range 7).map fun i => Nor.le32 (d.flash.read (base + 4 * i) 4)

def hexNat (v : Nat) : String :=
  if v = 0 then "0" else
  let rec go (fuel v : Nat) (acc : List Char) : List Char :=
    match fuel with
    | 0 => acc
    | f + 1 => if v = 0 then acc else go f (v / 16) (hexDigit (v % 16) :: acc)
  String.ofList (go 20 v [])

def dump (st : S) : String :=
  " ; ".intercalate ((List.range st.nslots).map fun i =>
    let b := i * st.slot
    let w := hdrWords st.dev b
    let ws := ".".intercalate (w.map hexNat)
    s!"s{i}={ws}/{hex16 (fnvArray st.dev.flash.mem (b + 0x400) 0x4000)}/{hex16 (fnvArray st.dev.flash.mem (b + 0x4400) (st.slot - 0x4400))}")

def sweep (st : S) : String :=
  let bad := (List.range st.nslots).filter fun i =>
    match parseHeader Fs.C (st.dev.flash.read (i * st.slot) 28) with
    | some (h, _) =>
      if h.kind = Kind.firmware ∧ h.ext = Ext.complete then
        match ((isValidFirmware { idx := i, size := st.slot }).run st.dev).1 with
        | .ok () => false
        | .error _ => true
      else false
    | none => false
  "bad=[" ++ ", ".intercalate (bad.map toString) ++ "]"

def step (st : S) (toks : List String) : Option (S × String) :=
  match toks with
  | ["new", "dev", n, slot, block] =>
    let n := n.toNat!; let slot := slot.toNat!; let block := block.toNat!
    some ({ st with dev := { flash := Flash.blank block (n * slot) }, nslots := n, slot := slot, u := none }, "ok")
  | ["base", _] => some (st, "ok")
  | ["variant", _, _] => some (st, "ok")
  | ["skipbase", _] => some (st, "ok")
  | ["image", _, _, _] => some (st, "ok")
  | ["poke", a, h] =>
    let d := st.dev
    some ({ st with dev := { d with flash := { d.flash with mem := pokeBytes d.flash.mem a.toNat! (fromHex h) } } }, "ok")
  | ["fill", a, len, seed] =>
    let d := st.dev
    some ({ st with dev := { d with flash := { d.flash with mem := fillRandom d.flash.mem a.toNat! len.toNat! (rngNew seed.toNat!) } } }, "ok")
  | ["crash", k] =>
    some ({ st with dev := { st.dev with ops := [], nmut := 0, needsSet := 0, crashAt := some (k.toNat!, none) } }, "ok")
  | ["crash", k, p, keep] =>
    some ({ st with dev := { st.dev with ops := [], nmut := 0, needsSet := 0,
                                          crashAt := some (k.toNat!, some (p.toNat!, keep.toNat!)) } }, "ok")
  | ["fault", k] =>
    some ({ st with dev := { st.dev with ops := [], nmut := 0, needsSet := 0, failAt := some k.toNat! } }, "ok")
  | ["reboot"] => some ({ st with u := none, dev := { disarm st.dev with dead := false } }, "ok")
  | ["start", sz, n] =>
    let d := prep st.dev
    let (r, d') := (startUpdate st.nslots st.slot sz.toNat! n.toNat!).run d
    let ops := opsStr st.slot d'
    match r with
    | .ok u =>
      some ({ st with dev := disarm d', u := some u },
        s!"res=Ok ; ops={ops} ; fw={u.fw.idx} ; par={u.par.idx} ; maxl={u.maxL}")
    | .error e => some ({ st with dev := disarm d', u := none }, s!"res={e.name} ; ops={ops}")
  | ["seg", idx, h] =>
    match st.u with
    | none => some (st, "res=NoSession")
    | some u =>
      let d := prep st.dev
      let (r, (u', d')) := (handleSegment st.ffr idx.toNat! (fromHex h)).run (u, d)
      let res := resName r fun o => match o with | .consumed => "Consumed" | .complete => "Complete"
      some ({ st with dev := disarm d', u := some u' }, s!"res={res} ; ops={opsStr st.slot d'} ; {counters (some u')}")
  | ["check"] =>
    match st.u with
    | none => some (st, "res=NoSession")
    | some u =>
      let d := prep st.dev
      let (r, d') := (checkAndMarkDone u).run d
      some ({ st with dev := disarm d', u := none }, s!"res={resName r fun i => s!"Ok({i})"} ; ops={opsStr st.slot d'}")
  | ["recover"] =>
    let d := prep st.dev
    let (r, d') := (tryRecover st.nslots st.slot).run d
    let ops := opsStr st.slot d'
    match r with
    | .ok (some u) => some ({ st with dev := disarm d', u := some u }, s!"res=Some ; ops={ops} ; {counters (some u)}")
    | .ok none => some ({ st with dev := disarm d', u := none }, s!"res=None ; ops={ops}")
    | .error e => some ({ st with dev := disarm d', u := none }, s!"res={e.name} ; ops={ops}")
  | ["cancel"] =>
    let d := prep st.dev
    let (r, d') := (cancelAll st.nslots st.slot).run d
    some ({ st with dev := disarm d', u := none }, s!"res={resName r fun _ => "Ok"} ; ops={opsStr st.slot d'}")
  | ["mark", sl, what] =>
    let d := prep st.dev
    let s : Slot := { idx := sl.toNat!, size := st.slot }
    let act : M Unit := match what with
      | "aborted" => s.markExtAborted | "complete" => s.markExtComplete | "int" => s.markIntComplete
      | "ok" => s.markBootOk | _ => s.markBootBad
    let (r, d') := act.run d
    some ({ st with dev := disarm d' }, s!"res={resName r fun _ => "Ok"} ; ops={opsStr st.slot d'}")
  | ["bl", _] => step st ["bl"]
  | ["fb", _] => step st ["fb"]
  | ["bl"] =>
    let (r, _) := (blBootStatus st.nslots st.slot).run st.dev
    some (st, "res=" ++ resName r fun o => match o with
      | none => "Idle" | some (.inl i) => s!"Copy({i})" | some (.inr i) => s!"Unack({i})")
  | ["fb"] =>
    let (r, _) := (fallbackFirmware st.nslots st.slot).run st.dev
    some (st, "res=" ++ resName r fun o => match o with | none => "None" | some i => s!"Some({i})")
  | ["valid", sl] =>
    let (r, _) := (isValidFirmware { idx := sl.toNat!, size := st.slot }).run st.dev
    some (st, "res=" ++ resName r fun _ => "Ok")
  | ["sweep"] => some (st, sweep st)
  | ["dump"] => some (st, dump st)
  | _ => none

end Drv.D5
