#!/usr/bin/env python3
"""Markdown table of the seeded changes and which checks caught them (from seeded/<id>/meta.json + result.json)."""
import json, os
R = os.path.join(os.path.dirname(os.path.dirname(os.path.abspath(__file__))), "seeded")
print("| id | file | what was changed | needs | caught by (concrete replay) |")
print("|---|---|---|---|---|")
for sid in sorted(os.listdir(R)):
    d = os.path.join(R, sid)
    if not os.path.isdir(d): continue
    m = json.load(open(os.path.join(d, "meta.json")))
    r = json.load(open(os.path.join(d, "result.json"))) if os.path.exists(os.path.join(d, "result.json")) else {}
    caught = r.get("caught_by", [])
    conc = r.get("caught_with_concrete_replay", [])
    c = ", ".join(f"{x}{' ✓' if x in conc else ' (no-failing-input-found)'}" for x in caught) or "**missed**"
    clip = lambda s, n: (s[:n] + "…") if len(s) > n else s
    print(f"| {sid} | {os.path.basename(m.get('file',''))} | {clip(m.get('summary','').replace('|','/'), 150)} | {clip(m.get('needs','').replace('|','/'), 140)} | {c} |")
