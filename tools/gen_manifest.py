#!/usr/bin/env python3
"""Writes MANIFEST.json from tools/manifest_data.py (kept as code so it stays valid and in step with tools/props.py)."""
import json, os, sys
sys.path.insert(0, os.path.dirname(os.path.abspath(__file__)))
from manifest_data import CLAIMS, NOT_APPLICABLE, NOTES
from props import PROPS
ROOT = os.path.dirname(os.path.dirname(os.path.abspath(__file__)))
checks = []
for pid in sorted(CLAIMS):
    c = CLAIMS[pid]
    assert pid in PROPS, pid
    checks.append({
        "property_id": pid,
        "quick_cmd": f"./check {pid} --tier quick",
        "thorough_cmd": f"./check {pid} --tier thorough",
        "evidence_file": f"/verif/evidence/{pid}.json",
        "replay_cmd_template": f"./check {pid} --replay {{path}}",
        "engine": "lean4-proof+correspondence",
        "level_claimed": {"category": "proof", "text": c["text"], "design_ref": c.get("design_ref", "DESIGN.md section 6")},
        "level_note": c["note"],
        "technique": c.get("technique", "Lean 4 theorems about a hand-written executable model; model tied to the Rust code by a differential correspondence check on every run"),
    })
m = {
    "version": 1,
    "setup_cmd": "./setup.sh",
    "hooks": {
        "guard": "radiator_labs_fuota_fragmentation_rs_verif",
        "enable": "none needed: every observation point is a public trait boundary (SpiFlash, NorFlash, the four reconstructor traits); the harness links the crates as path dependencies",
        "baseline_off_cmd": "cd /repo && cargo test --workspace --no-fail-fast --offline",
        "source_commits": [],
        "add_only": True,
    },
    "engines": [{"name": "lean4-proof+correspondence", "path": "/verif/check",
                 "serves_properties": sorted(CLAIMS),
                 "kind_free_text": "Lean 4.33 theorems over an executable model (lean/Fuota), axiom audit, Rust differential harness (harness/) driving the real crates and the compiled model through a line protocol"}],
    "checks": checks,
    "notes": NOTES,
    "not_applicable": [{"property_id": k, "reason": v} for k, v in sorted(NOT_APPLICABLE.items())],
}
json.dump(m, open(os.path.join(ROOT, "MANIFEST.json"), "w"), indent=1)
print("MANIFEST.json written:", len(checks), "checks,", len(NOT_APPLICABLE), "not claimed")
