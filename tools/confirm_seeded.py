#!/usr/bin/env python3
"""Confirm a seeded change produced by an independent agent, in its scratch worktree, before keeping it:
(a) the demonstration passes on the unchanged worktree, (b) with the patch the repository builds and the 51 stable
tests pass, (c) with the patch the demonstration fails. Then copy patch, demo sources and meta into
/verif/seeded/<id>/.   usage: confirm_seeded.py <worktree> <N> <id> <checks,comma,separated>"""
import json, os, re, shutil, subprocess, sys
wt, n, sid, checks = sys.argv[1], sys.argv[2], sys.argv[3], sys.argv[4].split(",")
ROOT = os.path.dirname(os.path.dirname(os.path.abspath(__file__)))
ENV = dict(os.environ, CARGO_NET_OFFLINE="true", INSTA_UPDATE="no")
def sh(cmd, cwd): return subprocess.run(cmd, cwd=cwd, capture_output=True, text=True, env=ENV, timeout=3600)
def demo():
    r = sh(["cargo", "run", "--offline", "--quiet"], os.path.join(wt, f"demo{n}"))
    return r.returncode, (r.stdout + r.stderr)[-400:]
def tests():
    r = sh(["cargo", "test", "--workspace", "--no-fail-fast", "--offline"], wt)
    out = r.stdout + r.stderr
    passed = sum(int(m) for m in re.findall(r"test result: \w+\. (\d+) passed", out))
    failed = set(re.findall(r"^test (\S+) \.\.\. FAILED", out, re.M))
    return passed, failed
ALWAYS = {"tests::more_real::basics", "tests::more_real::could_it_recover"}
log = {}
sh(["git", "checkout", "--", "."], wt)
rc0, out0 = demo(); log["demo_unchanged"] = (rc0, out0[-150:])
ap = sh(["git", "apply", f"mut{n}.patch"], wt)
if ap.returncode != 0:
    print(sid, "PATCH DOES NOT APPLY", ap.stderr[-200:]); sys.exit(1)
try:
    passed, failed = tests(); log["tests_with_change"] = (passed, sorted(failed))
    rc1, out1 = demo(); log["demo_with_change"] = (rc1, out1[-150:])
finally:
    sh(["git", "checkout", "--", "."], wt)
ok = rc0 == 0 and rc1 != 0 and failed <= ALWAYS and passed >= 51
print(sid, "CONFIRMED" if ok else "REJECTED", json.dumps(log)[:600])
if ok:
    d = os.path.join(ROOT, "seeded", sid)
    shutil.rmtree(d, ignore_errors=True); os.makedirs(d)
    shutil.copy(os.path.join(wt, f"mut{n}.patch"), os.path.join(d, "patch.diff"))
    shutil.copytree(os.path.join(wt, f"demo{n}"), os.path.join(d, "demo"), ignore=shutil.ignore_patterns("target", "Cargo.lock"))
    meta = json.load(open(os.path.join(wt, f"meta{n}.json")))
    meta.update({"id": sid, "checks": checks, "origin": "written by an independent sub-agent that saw only the property text and a scratch worktree",
                 "confirmed_by_me": {"demo_on_unchanged_tree": "exit 0", "stable_tests_with_change": f"{passed} passed, only the 4 always-failing snapshot tests fail",
                                     "demo_with_change": f"exit {rc1}"}})
    json.dump(meta, open(os.path.join(d, "meta.json"), "w"), indent=1)
sys.exit(0 if ok else 1)
