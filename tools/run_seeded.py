#!/usr/bin/env python3
"""Self-test: apply every seeded change (/verif/seeded/<id>/patch.diff) to /repo, run the checks named in its
meta.json (quick tier), record which of them report a VIOLATION, and undo the change straight afterwards.
usage: tools/run_seeded.py [id ...]      (no argument = all)
Writes /verif/seeded/<id>/result.json and prints one line per seeded change."""
import json, os, subprocess, sys, time

ROOT = os.path.dirname(os.path.dirname(os.path.abspath(__file__)))
SEEDED = os.path.join(ROOT, os.environ.get("SEEDED_DIR", "seeded"))


def sh(cmd, **kw):
    return subprocess.run(cmd, capture_output=True, text=True, **kw)


def clean():
    st = sh(["git", "-C", "/repo", "status", "--porcelain", "--untracked-files=no"]).stdout.strip()
    return st == ""


def main():
    ids = sys.argv[1:] or sorted(d for d in os.listdir(SEEDED) if os.path.isdir(os.path.join(SEEDED, d)))
    if not clean():
        print("/repo has uncommitted changes to tracked files; refusing to run")
        sys.exit(2)
    for sid in ids:
        d = os.path.join(SEEDED, sid)
        meta = json.load(open(os.path.join(d, "meta.json")))
        patch = os.path.join(d, "patch.diff")
        checks = meta.get("checks") or [meta["property"]]
        res = {"id": sid, "property": meta["property"], "checks": {}, "applied": False}
        ap = sh(["git", "-C", "/repo", "apply", patch])
        if ap.returncode != 0:
            res["error"] = "patch does not apply: " + ap.stderr[-300:]
            print(f"{sid}: PATCH DOES NOT APPLY")
            json.dump(res, open(os.path.join(d, "result.json"), "w"), indent=1)
            continue
        res["applied"] = True
        try:
            for c in checks:
                t0 = time.time()
                r = sh([os.path.join(ROOT, "check"), c, "--tier", meta.get("tier", "quick")], cwd=ROOT)
                viol = [l for l in r.stdout.splitlines() if l.startswith("VIOLATION")]
                res["checks"][c] = {"rc": r.returncode, "violations": viol[:3],
                                    "summary": [l for l in r.stdout.splitlines() if l.startswith(c + " [")][:1],
                                    "first_reason": next((l.strip() for l in r.stdout.splitlines() if l.startswith("  ")), ""),
                                    "wall_s": round(time.time() - t0, 1)}
        finally:
            sh(["git", "-C", "/repo", "checkout", "--", "."])
        caught = [c for c, v in res["checks"].items() if v["rc"] == 1 and v["violations"]]
        concrete = [c for c in caught if not any("no-failing-input-found" in x for x in res["checks"][c]["violations"][:1])]
        res["caught_by"] = caught
        res["caught_with_concrete_replay"] = concrete
        json.dump(res, open(os.path.join(d, "result.json"), "w"), indent=1)
        print(f"{sid}: property {meta['property']} -> caught by {caught or 'NOTHING'} (concrete replay: {concrete})")
    if not clean():
        print("WARNING: /repo not clean after the run")


if __name__ == "__main__":
    main()
