#!/usr/bin/env python3
"""Regenerate lean/Fuota/Generated/Consts.lean from the constants the compiled Rust code uses.
usage: gen_consts.py <fh-binary> <out.lean>   (rewrites the file only when the contents change)"""
import subprocess, sys, os
def main():
    fh, out = sys.argv[1], sys.argv[2]
    txt = subprocess.run([fh, "consts"], check=True, capture_output=True, text=True).stdout
    lines = ["/-! GENERATED on every run by tools/gen_consts.py from `fh consts` (the values the compiled",
             "    Rust library actually uses). Do not edit. -/", "namespace Fuota.Consts", ""]
    for l in txt.splitlines():
        l = l.strip()
        if not l or l.startswith("WARNING"): continue
        n, v = l.split()
        lines.append(f"def {n} : Nat := {int(v)}")
    lines += ["", "end Fuota.Consts", ""]
    new = "\n".join(lines)
    old = open(out).read() if os.path.exists(out) else None
    if old != new:
        os.makedirs(os.path.dirname(out), exist_ok=True)
        open(out, "w").write(new)
        print("consts: regenerated")
    else:
        print("consts: unchanged")
main()
