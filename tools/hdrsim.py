#!/usr/bin/env python3
"""Throw-away header-level exploration of flash-algo-new's slot ring (design-phase probe).
Slot = None | (kind, seq, ext, int, boot);  kind F/P; ext I/A/C; int I/C; boot U/S/X."""
import sys, itertools, collections
N = int(sys.argv[1]) if len(sys.argv) > 1 else 4
FIXED = (sys.argv[2] in ('fixed','fixed2','fixed3')) if len(sys.argv) > 2 else False
FIXED2 = (len(sys.argv) > 2 and sys.argv[2] == 'fixed2')
FIXED3 = (len(sys.argv) > 2 and sys.argv[2] == 'fixed3')  # always erase the second slot first
LIMIT = int(sys.argv[3]) if len(sys.argv) > 3 else 400000

def total(h):
    k, s, e, i, b = h
    t = (e, i, b)
    return {('I','I','U'):'InProg', ('A','I','U'):'Aborted', ('C','I','U'):'CopyPend',
            ('C','C','U'):'AckPend', ('C','C','S'):'Confirmed', ('C','C','X'):'Rejected'}.get(t, 'Invalid')

def fallback(hs):
    res = None; rs = None
    for i, h in enumerate(hs):
        if h is None: continue
        if total(h) == 'Confirmed' and (rs is None or rs < h[1]):
            res, rs = i, h[1]
    return res

class Panic(Exception): pass

def alloc(hs):
    low = high = None
    for i, h in enumerate(hs):
        if h is None: continue
        if low is None or hs[low][1] > h[1]: low = i
        if high is None or hs[high][1] < h[1]: high = i
    if low is None:
        return 0, 1, 0, 1
    hseq = hs[high][1]
    d = (high + N - low) % N
    c1 = (d + 3 <= N) if FIXED else (d <= N - 2)
    c2 = (d + 2 == N) if FIXED else (d == N - 1)
    if c1:
        return (high+1) % N, (high+2) % N, hseq+1, hseq+2
    elif c2:
        fw = fallback(hs); fw = low if fw is None else fw
        if fw == low: return high, (high+1) % N, hseq, hseq+1
        return (high+1) % N, (high+2) % N, hseq+1, hseq+2
    else:
        fw = fallback(hs); fw = low if fw is None else fw
        if (high+1) % N == fw or (high+2) % N == fw:
            first = (high+N-1) % N
            if hs[first] is None:
                if FIXED: return first, high, hseq-1, hseq
                raise Panic('unwrap on blank slot in alloc')
            return first, high, hs[first][1], hseq
        return (high+1) % N, (high+2) % N, hseq+1, hseq+2

def start_steps(hs):
    """returns list of (slot, newvalue) atomic header-level steps, and (a,b)"""
    a, b, sa, sb = alloc(hs)
    er = [(a, None), (b, None)]
    if FIXED2 and hs[b] is not None and (hs[a] is None or hs[b][1] > hs[a][1]): er = [(b, None), (a, None)]
    if FIXED3: er = [(b, None), (a, None)]
    steps = er + [(a, None), (b, None), (a, ('F', sa, 'I', 'I', 'U')), (b, ('P', sb, 'I', 'I', 'U'))]
    # erase a, erase b, (seq writes keep them unparseable), final field of a makes it parse, final field of b
    return steps, (a, b)

def recover_inner_steps(hs):
    """returns (result_pair_or_None, steps)"""
    used = [(i, h) for i, h in enumerate(hs) if h is not None]
    newest = second = None
    for i, h in used:
        if newest is not None:
            if newest[1][1] < h[1]: second = newest; newest = (i, h)
            elif second is not None:
                if second[1][1] < h[1]: second = (i, h)
            else: second = (i, h)
        else: newest = (i, h)
    if newest is None or second is None: return None, []
    if total(newest[1]) != 'InProg' or newest[1][0] != 'P': return None, []
    if total(second[1]) != 'InProg' or second[1][0] != 'F': return None, []
    steps = []
    for i, h in used:
        if i in (newest[0], second[0]): continue
        t = total(h)
        if t == 'InProg': steps.append((i, (h[0], h[1], 'A', h[3], h[4])))
        elif t in ('CopyPend', 'Invalid'): steps.append((i, None))
    return (second[0], newest[0]), steps

def cancel_steps(hs):
    return [(i, (h[0], h[1], 'A', h[3], h[4])) for i, h in enumerate(hs) if h is not None and h[2] == 'I']

def bl(hs):
    for i, h in enumerate(hs):
        if h is None or h[0] != 'F': continue
        t = total(h)
        if t == 'CopyPend': return ('Incomplete', i)
        if t == 'AckPend': return ('FailedLoad', i)
    return ('Idle', None)

def norm(state):
    hs, sess, live, must, ghost = state
    seqs = [h[1] for h in hs if h is not None]
    m = min(seqs) if seqs else 0
    hs2 = tuple(None if h is None else (h[0], h[1]-m, h[2], h[3], h[4]) for h in hs)
    # ghost: per slot lifecycle + confirm rank
    cr = sorted(set(g[1] for g in ghost if g is not None and g[1] is not None))
    ghost2 = tuple(None if g is None else (g[0], None if g[1] is None else cr.index(g[1])) for g in ghost)
    return (hs2, sess, tuple(sorted(live)), must, ghost2)

viol = collections.OrderedDict()
def report(kind, state, detail):
    if kind not in viol:
        viol[kind] = (state, detail)

def apply(hs, step):
    hs = list(hs); hs[step[0]] = step[1]; return tuple(hs)

def ghost_erase(ghost, i):
    g = list(ghost); g[i] = None; return tuple(g)

def succs(state):
    hs, sess, live, must, ghost = state
    out = []
    # ---- start (all crash prefixes incl. full)
    try:
        steps, (a, b) = start_steps(hs)
        fb = fallback(hs)
        if fb is not None and fb in (a, b):
            report('C05 start touches fallback', state, (a, b, fb))
        cur = hs; g = ghost
        for k, st in enumerate(steps):
            cur = apply(cur, st)
            if st[1] is None: g = ghost_erase(g, st[0])
            full = (k == len(steps) - 1)
            touched = set(s_[0] for s_ in steps[:k+1])
            l2 = tuple(p for p in live if not (set(p) & touched))
            if full:
                g2 = list(g); g2[a] = ('InProg', None); g2[b] = ('Par', None); g = tuple(g2)
                out.append(('start', (cur, (a, b), l2 + ((a, b),), (a, b), g)))
            else:
                out.append(('start-crash%d' % k, (cur, None, l2, None, g)))
    except Panic as e:
        report('PANIC in start', state, str(e))
    # ---- complete (needs session; precondition: no other pending image)
    if sess is not None:
        pend = [i for i, g in enumerate(ghost) if g is not None and g[0] in ('CopyPend', 'AckPend')]
        if not pend:
            f, p = sess
            h = hs[f]; hp = hs[p]
            if h is not None and hp is not None:
                s1 = apply(hs, (f, (h[0], h[1], 'C', h[3], h[4])))
                g1 = list(ghost); g1[f] = ('CopyPend', None); g1 = tuple(g1)
                l2 = tuple(q_ for q_ in live if q_ != (f, p)); m2 = None if must == (f, p) else must
                out.append(('complete-crash', (s1, None, l2, m2, g1)))
                s2 = apply(s1, (p, (hp[0], hp[1], 'C', hp[3], hp[4])))
                out.append(('complete', (s2, None, l2, m2, g1)))
    # ---- cancel
    cs = cancel_steps(hs)
    cur = hs; g = list(ghost)
    for st in cs:
        cur = apply(cur, st)
        if g[st[0]] is not None and g[st[0]][0] == 'InProg': g[st[0]] = ('Aborted', None)
    out.append(('cancel', (cur, None, (), None, tuple(g))))
    chk = [i for i, h in enumerate(cur) if h is not None and h[2] == 'I']
    if chk: report('C13 cancel leaves in-progress', state, chk)
    # ---- reboot + recover
    res, steps = recover_inner_steps(hs)
    cur = hs; g = list(ghost)
    for st in steps:
        t = total(hs[st[0]])
        if t in ('Confirmed', 'Rejected', 'AckPend'): report('C13 recover modifies protected', state, st)
        cur = apply(cur, st)
        if st[1] is None: g[st[0]] = None
        elif g[st[0]] is not None and g[st[0]][0] == 'InProg': g[st[0]] = ('Aborted', None)
    if res is None:
        for st in cancel_steps(cur):
            cur = apply(cur, st)
            if g[st[0]] is not None and g[st[0]][0] == 'InProg': g[st[0]] = ('Aborted', None)
        if must is not None: report('C13 recover returns none though latest start succeeded and is live', state, must)
        ip = [i for i, h in enumerate(cur) if h is not None and h[2] == 'I']
        if ip: report('C13 none leaves in-progress', state, ip)
        out.append(('recover-none', (cur, None, (), None, tuple(g))))
    else:
        if tuple(res) not in live: report('C13 recover returns session not live', state, (res, live))
        if must is not None and tuple(res) != must: report('C13 recover returns other than latest', state, (res, must))
        ip = [i for i, h in enumerate(cur) if h is not None and h[2] == 'I' and i not in res]
        if ip: report('C13 some leaves other in-progress', state, ip)
        out.append(('recover-some', (cur, tuple(res), (tuple(res),), must if must == tuple(res) else None, tuple(g))))
        r2, st2 = recover_inner_steps(cur)
        if r2 != res or st2: report('C13 recover not idempotent', state, (r2, st2))
    # ---- bootloader / app marks driven by bl status
    kind, idx = bl(hs)
    exp = [(g[0], i) for i, g in enumerate(ghost) if g is not None and g[0] in ('CopyPend', 'AckPend')]
    expv = ('Idle', None) if not exp else (('Incomplete', exp[0][1]) if exp[0][0] == 'CopyPend' else ('FailedLoad', exp[0][1]))
    if len(exp) > 1: report('precondition broken (two pending)', state, exp)
    if (kind, idx) != expv: report('C12 bl mismatch', state, ((kind, idx), expv))
    fb = fallback(hs)
    conf = [(g[1], i) for i, g in enumerate(ghost) if g is not None and g[0] == 'Confirmed']
    expfb = max(conf)[1] if conf else None
    if fb != expfb: report('C12 fallback mismatch', state, (fb, expfb))
    if kind == 'Incomplete':
        h = hs[idx]; g = list(ghost); g[idx] = ('AckPend', None)
        out.append(('copy-done', (apply(hs, (idx, (h[0], h[1], h[2], 'C', h[4]))), sess, live, must, tuple(g))))
    if kind == 'FailedLoad':
        h = hs[idx]
        nxt = 1 + max([g[1] for g in ghost if g is not None and g[1] is not None] + [-1])
        g = list(ghost); g[idx] = ('Confirmed', nxt)
        out.append(('confirm', (apply(hs, (idx, (h[0], h[1], h[2], h[3], 'S'))), sess, live, must, tuple(g))))
        g = list(ghost); g[idx] = ('Rejected', None)
        out.append(('reject', (apply(hs, (idx, (h[0], h[1], h[2], h[3], 'X'))), sess, live, must, tuple(g))))
    # ---- plain reboot (drop session)
    if sess is not None: out.append(('reboot', (hs, None, live, must, ghost)))
    return out

init = (tuple([None]*N), None, (), None, tuple([None]*N))
seen = {norm(init): None}
q = collections.deque([norm(init)])
while q and len(seen) < LIMIT:
    s = q.popleft()
    for lbl, t in succs(s):
        # live bookkeeping: cancel/complete kill; start sets
        nt = norm(t)
        if nt not in seen:
            seen[nt] = (s, lbl); q.append(nt)
print('N=%d fixed=%s states=%d exhausted=%s' % (N, FIXED, len(seen), not q))
def path(s):
    p = []
    while seen.get(norm(s) if False else s) is not None:
        prev, lbl = seen[s]; p.append(lbl); s = prev
    return list(reversed(p))
for k, (st, det) in viol.items():
    print('VIOL', k, '| detail', det)
    print('   state', st[0], 'sess', st[1], 'live', st[2], 'must', st[3])
    print('   path ', path(st))
