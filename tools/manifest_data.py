NOTES = ("Every check = lake build of the property's theorem module + #print axioms audit + differential run of the "
         "compiled Lean model against the Rust crates (path dependencies on /repo, rebuilt every run) + the property's "
         "oracle on the implementation. See DESIGN.md. Properties not yet claimed are listed under not_applicable with "
         "the reason 'not built yet' — none is believed to be outside the technique.")

CLAIMS = {
    "C11": dict(
        text="Proved in Lean for every byte string / every legal header / every ordered pair of status codes and every "
             "torn bit pattern: parse-iff-legal, both round trips, pinned offsets and code values (from constants "
             "regenerated out of the compiled crate), one-way transitions, tear-safety, total-status table. The model "
             "codec is compared with both crates' codecs on structured + random headers and field words every run; "
             "torn patterns are additionally enumerated exhaustively on the implementation.",
        note="Trusted: Lean kernel (+propext, Quot.sound), the correspondence harness, NOR AND-programming model. "
             "total_status of the new crate is private: it is observed through bl_boot_status / fallback_firmware / "
             "try_recover remediation on crafted flash.",
        design_ref="DESIGN.md section 6 (C11)"),
}

_TODO = "check not built yet in this session (planned in DESIGN.md section 6); not believed to be outside the technique"
NOT_APPLICABLE = {f"C{i:02d}": _TODO for i in range(1, 21) if f"C{i:02d}" not in CLAIMS}
