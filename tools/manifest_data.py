NOTES = ("Every check = lake build of the property's theorem module + #print axioms audit + differential run of the "
         "compiled Lean model against the Rust crates (path dependencies on /repo, rebuilt every run) + the property's "
         "oracle on the implementation. See DESIGN.md. Properties not yet claimed are listed under not_applicable with "
         "the reason 'not built yet' — none is believed to be outside the technique.")

CLAIMS = {
    "C11": dict(
        text="Proved in Lean for every byte string / every legal header / every ordered pair of status codes and every "
             "torn bit pattern: parse-iff-legal, both round trips, pinned offsets and code values (from constants "
             "regenerated out of the compiled crate), one-way transitions, tear-safety, total-status table. The model "
             "codec is compared with both crates' codecs on structured + random headers and field words every run; "
             "torn patterns are additionally enumerated exhaustively on the implementation; SequenceNumber::next (private) "
             "is compared with the model's seqNext through the sequence numbers start_update writes next to an image "
             "numbered s, for s around 0, 2^31 and the reserved 0xFFFFFFFF, with the oracle that every header the "
             "library encoded parses.",
        note="Trusted: Lean kernel (+propext, Quot.sound), the correspondence harness, NOR AND-programming model. "
             "total_status of the new crate is private: it is observed through bl_boot_status / fallback_firmware / "
             "try_recover remediation on crafted flash.",
        design_ref="DESIGN.md section 6 (C11)"),
    "C15": dict(
        text="Proved in Lean for every (size, count) in u32 x u32 and every slot size: the geometry check accepts iff "
             "1<=size<=256, 1<=count<=16384, size*count <= slot-0x4400 (accept_iff); a rejected start returns the error "
             "with the device untouched (start_rejects_untouched); the binary search returns the largest l<2048 that "
             "fits (capacity_spec), which is at least the README bound (capacity_ge_readme); all blocks and rows lie "
             "inside the slot and do not overlap (capacity_fits). The model's start_update is compared with the real "
             "one on boundary classes and near-fit geometries and on whole sessions at L and L+1 losses; the oracle "
             "checks accept-iff-legal, no flash access before an error, no panic on the implementation. C15b gives the behavioural clause at flash level as corollaries: complete_at_full_rank_L2 (from a "
             "lawful stage-1 state with at most capacity(slot, size) data fragments missing, FirmwareComplete is answered "
             "at exactly the first delivery after which the accepted rows span the missing fragments), "
             "refuse_iff_over_capacity_L2 (a coded fragment in stage 1 is refused, with updater, device and abstraction "
             "unchanged, iff more fragments are missing than the capacity; otherwise it is accepted) and "
             "tolerates_up_to_capacity_L2 (any loss of at most the capacity is tolerated once the delivered rows span it).",
        note="Trusted: Lean kernel, harness/NOR simulator, correspondence. The behavioural part 'tolerates any L losses, "
             "completes at full rank' rests on C03's theorems plus the session correspondence (D5), not on a separate "
             "theorem here. Defect fixed in /repo: size 0 / count 0 / count > 16384 were accepted.",
        design_ref="DESIGN.md section 6 (C15)"),
    "C18": dict(
        text="Proved in Lean on the reconstructor model with a fault oracle: fault_retry / fault_retry_any_oracle (a "
             "failed storage call that leaves the session incomplete, followed by redelivery, yields the same result "
             "and an equivalent state as the fault-free delivery), fault_retry_seq (any finite sequence of such "
             "episodes), handleBlock_congr; plus decide-witnesses for the two ways it fails: the pinned store order "
             "(repaired in /repo) and a fault inside finish (known finding). Checked against the implementation by "
             "injecting one fault at each storage-call index of random sessions and redelivering.",
        note="C18b transports this to the flash-level model: fault_retry_L2 (a transient failure of flash operation k "
             "of a fragment's handling, every k outside finish: the call returns the error, the state satisfies "
             "LawfulUpTo, redelivery gives the same outcome as the fault-free delivery and an equivalent abstraction; "
             "re-programming identical bytes is idempotent), fault_retry_continue_L2, fault_retry_seq_L2 (any sequence "
             "of such episodes). C18c adds failing flash READS: read_fault_retry_L2 / flash_fault_retry_L2 — over a copy of "
             "handle_segment in which every flash read of the strip and elimination loops is gated by a fault counter "
             "(handleSegmentC_none: with no fault pending the copy IS the model's function), a failed read outside finish "
             "returns the error with the device untouched, and the redelivery is the very run that never failed. Not "
             "covered by C18c: reads inside finish, the header read that fills an empty segment-size cache, reads of "
             "try_recover. Known finding fault-site=finish (no small safe repair). On the real code: one fault at each "
             "mutating-operation index + redelivery, sequences of up to 3 faulted fragments with up to 3 failures each "
             "(d5f), and faults on any operation incl. reads (d5fr, oracle only, because read counts are not part of the "
             "contract).",
        design_ref="DESIGN.md section 6 (C18)"),
    "C02": dict(
        text="recon_sound is proved in Lean for every N, block size, original data, contract-respecting matrix, "
             "capacity, both store orders and every finite delivery sequence (induction over the sequence with the "
             "invariant Inv: stored data = originals; stored pivots are echelon rows whose parity blocks are the "
             "matching XOR-combinations of the unknown originals): every data-store call carries the original block, "
             "Done implies length N*bs and the store holds exactly the originals, no panic/error in fault-free runs. "
             "The model is the executable transcription of lib.rs and is compared call by call with the real "
             "Reconstructor on random and exhaustively enumerated small sessions every run.",
        note="Trusted: Lean kernel (+propext, Classical.choice, Quot.sound), the correspondence harness (instrumented "
             "stores, generators), bitvec. Blocks are numbers under XOR in the model (bytes in the code); the driver "
             "converts.",
        design_ref="DESIGN.md section 6 (C02)"),
    "C03": dict(
        text="Proved in Lean: done_iff_span (from any stage-2 entry state, the last delivery reports Done iff the "
             "projected rows of the delivered blocks span every unit vector of the unknown space — echelon invariant), "
             "done_determines (Done implies the received blocks determine the data; corollary of C02), "
             "done_then_complete + done_sticky (once Done, every call returns Done and the state/log is unchanged), "
             "refuse_iff + refuse_noop (TooManyMissing exactly when a parity-range block meets more unknowns than the "
             "capacity, and it changes nothing). Checked against the implementation with an independent GF(2) rank "
             "oracle, including refusal ladders.",
        note="Trusted: as C02. 'First block after which...' follows because the theorem quantifies over every sequence "
             "(hence every prefix).",
        design_ref="DESIGN.md section 6 (C03)"),
    "C09": dict(
        text="contract_log proved in Lean for the same space of runs as C02: each data / parity / matrix index stored at "
             "most once (all N data indices exactly once by Done), stored rows have their own bit set, no higher bit, "
             "index below vbits and num_rows, parity block immediately before its row, reads only after the matching "
             "store. The full call log of every handle_block is compared between model and implementation; the "
             "harness' stores monitor the contract (incl. buffer lengths, which the model cannot express).",
        note="Trusted: as C02. Buffer lengths are checked only by the monitors of the harness (blocks are numbers in "
             "the model). Under storage faults 'at most once' is not claimed (C18).",
        design_ref="DESIGN.md section 6 (C09)"),
    "C10": dict(
        text="Proved in Lean: the model of get_parity_matrix_row (both crates), LfdbtParity::row and UpdaterMatrix::row "
             "equals Spec.matrixLine (written from the TS004 pseudo-code) for M <= 16384 (loop level: M <= 2^16) and every "
             "N with 1+1001N < 2^32 (row_new_eq_spec, row_orig_eq_spec, row_lfdbt_eq_spec, updater_matrix_row); rows "
             "< 2^M (row_bounds), non-empty for M >= 2, force-full-r rows have exactly M/2 bits (row_fullr_card); "
             "termination for every M and every u32 seed without force-full-r with an explicit bound of 38 PRBS steps per "
             "draw (terminates; mod-(2^k+1) argument for powers of two); the TS004 spec itself is pinned to the crate's "
             "interop vectors by decide (interop_vectors). All three Rust generators are compared with the model "
             "(exhaustive M,N <= 64 + random up to 16384 in quick; exhaustive 512x128 and every M in thorough) in both "
             "cfgs, with an independent Rust transcription of matrix_line as oracle.",
        note="terminates_fullr_partial: termination under force-full-r is proved only under an explicit orbit hypothesis "
             "(the PRBS23 orbit visits M/2 distinct residues); without it the exhaustive runs are tests. Finding outside "
             "the property's N range: with force-full-r, cap_n = 1240005543 wraps the seed to 0 (PRBS fixed point) and "
             "get_parity_matrix_row never returns (fullr_diverges_seed_zero).",
        design_ref="DESIGN.md section 6 (C10)"),
    "C16": dict(
        text="Proved in Lean for every write size W in {1,2,4,8,16,32}, read size R | W, W-aligned range, any block "
             "length / bit-array width and any set of distinct indices stored in any order on an erased range: "
             "data/parity/matrix round trip and frame (other indices unchanged), contiguous data layout, order "
             "independence (any two programs commute), every program aligned to and a multiple of W and every read of R, "
             "all accesses inside the configured range, no program needs a 0->1 transition, num_rows fits the range and "
             "is <= 8N, closed form of the row addresses, every `as u32` cast and u32 address addition of flash.rs exact (range end < 2^32 "
             "by type: u32_accesses_exact, u32_offsets_exact); plus a decide-witness for the tail-read defect of the pinned "
             "parity adapter (repaired in /repo). The three real adapters run on a simulated NorFlash device and are "
             "compared with the model on returned bytes and the complete access log (all 21 (W,R) pairs, lengths 1..64, "
             "all permutations of up to 4 (quick) / 5 (thorough) indices).",
        note="Trusted: Lean kernel, the in-memory NorFlash device of the harness, NOR AND-programming. Addresses are "
             "unbounded naturals in the model; the `as u32` casts are proved exact rather than modelled. Outside the property: FlashDataStorage::get panics for block "
             "lengths below W; indices at or above the capacity are the caller's contract.",
        design_ref="DESIGN.md section 6 (C16)"),
    "C07": dict(
        text="Proved in Lean at the storage-trait level (L0): recovery rebuilds the reconstructor state by `rehydrate` "
             "(l recomputed from used/done); StageInv is an invariant of handle_block under every fault oracle; "
             "rehydrate_equiv + reboot_transparent: outside the corner 'parity processing began but no row stored', "
             "the rehydrated state is equivalent, so every later delivery has the same result and an equivalent state "
             "(any number of reboots: rehydrate_idempotent; counters_agree); reboot_transparent_corner: in that corner "
             "the rehydrated (stage-1) state completes at exactly the same fragment (rank argument through "
             "done_iff_span and stage1_done_iff). Checked on the real SlotManager/Updater by twin runs with reboots at "
             "(sampled) every position, comparing outcomes, counters, final check and final flash image. C07c closes the stage corner (parity processing begun, no row stored yet; reachable: corner_reachable) at "
             "flash level: recover_refines_corner_L2 (recovery returns a stage-1 updater with the same received set, "
             "flash untouched, abstraction = rehydrate) and reboot_transparent_corner_L2 (every later delivery is answered "
             "exactly as without the reboot; with a coded fragment next also the same final abstraction).",
        note="C07b ties this to the flash-level model: recover_refines (for a Lawful session whose two headers are the "
             "newest pair and with no other slot needing remediation, try_recover_inner returns — reading only — an updater "
             "with the same slots, geometry, used mask, done mask = status bytes, l recomputed, whose abstraction is "
             "Equiv to rehydrate of the abstraction before the reboot; same received counter; after completion: complete "
             "and received = n), reboot_transparent_L2 / reboot_transparent_corner_L2 (after reboot + recovery every later "
             "fragment gets the same outcome, hence completion at the same fragment, with equivalent final abstractions), "
             "recover_hyps_after_start (non-vacuity from start_update on a blank device). The hypotheses NewestPair / "
             "OthersSettled are the header-level facts proved for reachable ring states in C13 (recover_returns_latest). "
             "Defect fixed in /repo: counters after recovering a completed-but-unmarked session.",
        design_ref="DESIGN.md section 6 (C07)"),
    "C06": dict(
        text="Proved in Lean at L0 for the repaired store order: crashDuring = rehydrate of the state after the first "
             "failing storage call; crash_resume_resend / crash_resume_lost (crash outside finish, fragment re-sent or "
             "lost: same results and equivalent state — up to orphan parity blocks — as the fault-free run), "
             "crash_resume_seq (any finite history of deliveries, crashes, reboots) and crash_resume_sound (a final Done "
             "then means the store holds the originals, via C02); decide-witnesses for the two ways it fails: "
             "crash_in_finish_witness and orphan_block_restored_witness (a parity index is stored twice with different "
             "data after a crash between block and row: harmless on map-like stores, corrupting on NOR). On the real "
             "code: power loss at every mutating-op boundary of sampled sessions, recovery, completion, exact image.",
        note="C06b transports this to the flash-level model: crash_resume_resend_L2 / crash_resume_continue_L2 (for a "
             "Lawful session whose headers are the newest pair: power lost before flash operation k of a fragment's "
             "handling, for every k outside finish; reboot; try_recover_inner returns a session; the fragment re-sent and "
             "any continuation give the same outcomes and an equivalent final abstraction as the uninterrupted session — "
             "the interrupted state satisfies the relaxed invariant LawfulUpTo: one segment programmed without its "
             "status byte, or one orphan parity block), crash_resume_lost_clean_L2 (k = 0). Not proved at flash level: "
             "several power losses in one session, the interrupted fragment lost after one of its programs took effect "
             "(the orphan case is the known finding), power loss inside start_update (header level: C13). Known findings "
             "(no small safe repair): crash-site=finish, crash-site=row-lost. A crash after the firmware slot's final "
             "mark leaves a completed, validating slot and recovery reports none: accepted. Liveness of the final full "
             "pass is checked by the harness, not proved.",
        design_ref="DESIGN.md section 6 (C06)"),
    "C14": dict(
        text="Proved in Lean (model Fuota.Firmware / Fuota.Crc, a byte-accurate transcription of crc_valid incl. its read "
             "sequence): segLoop_spec / crc_loop_spec (for every size and count the segment loop digests exactly the "
             "data-region bytes 68 .. n*size, nothing when n*size <= 68), valid_iff (validation = header parses, kind "
             "firmware, ext complete, reads in range, LE32 of the first word = CRC-32/CKSUM of the covered bytes) with "
             "one lemma per failing conjunct giving the exact error, check_gate / check_fail_unmodified / "
             "check_gate_same_test (check_and_mark_done programs nothing unless the same test passed, and then exactly "
             "the two Complete words), crc_single_bit / check_single_bit (any single flipped bit of the covered bytes or "
             "of the stored CRC word makes validation fail: xor-linearity of the register and shift1_ne_zero), "
             "check_value (0x765E7680), orig_valid_iff for the deprecated crate. Compared with both crates on crafted "
             "slots for every fragment size 1..=256, exhaustive single-bit sweeps and real sessions with one-bit "
             "corruption; verdict, exact read log and mutating-op log are compared.",
        note="Trusted: crate crc as compiled (compared with the model and two independent implementations). Assumption of "
             "check_fail_unmodified: the parity slot's status word lies inside the device. Observations outside the "
             "property: images of at most 68 bytes validate vacuously against erased flash; crc_valid does not compare "
             "n*size with the slot capacity.",
        design_ref="DESIGN.md section 6 (C14)"),
    "C08": dict(
        text="Proved in Lean over the L2 model for every device state (any flash contents, any crash point incl. torn "
             "programs, any fault): an operation-footprint calculus (EmitsR/EmitsU/Replay) and with it slot_ops_in_slot "
             "(every slot accessor stays inside its slot; write_segment needs exactly the bound the accepted geometry "
             "provides), start_ops_in_pair (start_update touches only the two slots chosen by alloc, both < nslots, "
             "incl. wrap-around at the last slot), segment_ops_in_pair / check_ops_in_pair (fragments and the final check "
             "touch only the session's firmware and parity slot; session geometry is preserved), "
             "recover_cancel_mark_ops_in_one_slot, header_area_clean (programs below 0x400 are the seven 4-byte fields, "
             "torn or not), regions_disjoint (segments, status bytes, header words, parity blocks, matrix rows), "
             "no_zero_to_one at flash level and start_crash_free (start_update on a healthy device emits exactly the "
             "expected erases and eight header words and needs no 0->1). The complete op log of every API call is "
             "compared between model and implementation over sessions, malformed inputs, arbitrary flash and ring "
             "histories; the oracle checks the same statements on the implementation.",
        note="C08b discharges the crash-free 'no 0->1' clause from the session invariant Lawful of C01: "
             "segment_no_zero_to_one (every program of handle_segment lands on erased or identical bytes — Discipline — "
             "and reads back what was written), session_no_zero_to_one, needsSet_from_start (from start_update through "
             "any session the device's 0->1 counter never moves); the NOR simulator counts 0->1 needs on every run. "
             "Model-level observations: write_segment's own bound check omits the buffer length and "
             "mark_segment_written compares with > instead of >= (both unreachable under the accepted geometry).",
        design_ref="DESIGN.md section 6 (C08)"),
    "C05": dict(
        text="Proved in Lean for every slot count N >= 4 on the header-level machine Fuota.Slots (whose transitions are "
             "defined through the validated model functions choosePair / fallbackSlot / blStatus / twoNewest): "
             "alloc_spares_fallback (under ArcInv the pair chosen by alloc_slotpair never contains the newest confirmed "
             "slot), alloc_never_panics, start_spares_fallback (no crash prefix of start addresses that slot; the "
             "fallback answer is unchanged after every prefix), arc_preserved + reachable_ringInv (ArcInv and the "
             "sequence-order invariant are preserved by every transition: start, complete, cancel, recover incl. crash "
             "prefixes, copy-done, confirm, reject), hence start_spares_fallback_reachable for every reachable state; "
             "alloc_destroys_fallback_witness (decide) documents the defect of the pinned guards (repaired in /repo). "
             "On the real code: ring histories on 4..6 slots with the fallback slot compared byte for byte across every "
             "start, incl. starts that lose power or have invalid parameters.",
        note="No-wrap assumption SeqRoom (sequence numbers stay 2 allocations below 0xFFFFFFFF). The machine is tied to the "
             "flash-level model by theorem (Props/RingRefine.lean): start_refines (after every prefix of start_update's "
             "exact flash operation list the headers read from flash are the machine's header effects up to a monotone "
             "index map), cancel_refines, recover_refines, complete_refines, copyDone/bootMark_refines, "
             "flash_reachable_ringInv (along any flash-level history of those operation lists with crashes at operation "
             "boundaries the on-flash headers are a Reachable machine state), flash_alloc_spares_fallback. Exact M-level "
             "operation lists are proved for start_update, cancel_all and the marks; for try_recover's resumable branch "
             "and check_and_mark_done the operation lists are mirrored definitions bounded by C08's footprint theorems. "
             "That start_update's flash operations stay inside the chosen pair is C08's start_ops_in_pair. A native closure of the machine (driver command `closure N`) is model-checking support: "
             "3805 / 46283 / 222954 reachable states for N = 4 / 5 / 6, all predicates hold.",
        design_ref="DESIGN.md section 6 (C05)"),
    "C12": dict(
        text="Proved in Lean for every N >= 4 and every reachable state of the header-level machine Fuota.Slots (whose "
             "transitions are defined through the validated model functions; crash prefixes of start, complete, cancel and "
             "recovery included): life_refines (the bootloader query answers copy-incomplete for exactly the CopyPending "
             "firmware slot, load-unacknowledged for the AckPending one, idle otherwise; the fallback query returns the "
             "most recently confirmed slot or none), via the inductive invariant Inv1 (lifeInv_preserved, "
             "reachable_lifeInv: ghost lifecycle = headers, at most one pending image, pending newer than every confirmed "
             "image), seq_orders_confirmation_reachable (confirmation order = sequence order); for all header "
             "arrangements: fallback_ignores / blStatus_ignores / fallback_only_confirmed / blStatus_only_pending (parity, "
             "in-progress, aborted, rejected slots never influence either query). On the real code: after every step of "
             "the ring histories both queries (the fallback slot observed through the returned handle) are compared "
             "with a lifecycle oracle kept by the harness.",
        note="No-wrap assumption SeqRoom. The machine enforces the property's proviso (an update is completed only when "
             "nothing is pending). fallback_firmware_slot does not look at the header kind (no reachable state has a "
             "confirmed parity slot). Native closure of the machine (N = 4..6 per run) remains as model-checking support.",
        design_ref="DESIGN.md section 6 (C12)"),
    "C13": dict(
        text="Proved in Lean. For every N and every header arrangement: cancel_no_pending, recover_none_no_pending, "
             "recover_some_only_pair, recover_preserves_images / cancel_preserves_images (no crash prefix addresses a "
             "confirmed, rejected or ack-pending slot), recover_idempotent / cancel_idempotent. For every N >= 4 and every "
             "reachable state of the machine (two-pass remediation, erase-newer-first start; crash prefixes everywhere): "
             "the inductive invariant Inv2 (pairInv_preserved, reachable_inv2), no_chimera (the returned pair was written "
             "by one start attempt), recover_only_live_session (a returned session is a live one and equals the latest "
             "successful start if that is live), recover_returns_latest / recover_iff_live_session (if the latest start "
             "succeeded and was neither completed nor cancelled, recovery returns exactly that pair). "
             "remediation_order_chimera_witness (decide, N = 6) shows the pinned single-pass remediation violates it; "
             "remediation_order_repaired. On the real code: ring histories and crash-inside-every-operation scenarios "
             "with header post-condition, protected-slot and no-chimera oracles, and the oracle 'latest start succeeded "
             "and neither completed nor cancelled => recovery returns a session' on clean-reboot scripts (wrapped pairs, "
             "exact-fit geometries); the ring histories also run on the single-erasure back-end; the chimera path is a "
             "corpus scenario. Tie to the flash level (Props/RingRefine): tryRecover_runs / check_runs (the flash-level "
             "try_recover and check_and_mark_done emit exactly recoverOps [+ the cancel-all tail when the status tables "
             "are inconsistent] / completeOps, and every power-loss prefix of them), recover_complete_refines / "
             "recover_crash_refines / check_complete_refines / cancelAll_complete_refines / start_complete_refines (the "
             "calls and their crash prefixes act on the parsed headers as the machine's steps), flash_recover_no_chimera.",
        note="No-wrap assumption SeqRoom; GeomOK (accepted geometry, capacity <= 2048) for the 'returns latest' direction. "
             "Without a 'latest successful start' recovery may legitimately return an older live pair (e.g. after an "
             "interrupted reuse-start); hence the two halves instead of a literal iff. Defect found by the machine's "
             "closure, replayed on the real code and repaired in /repo: remediation erased before it aborted (matrix back-end "
             "9c50581; the same loop in the single-erasure back-end was found later by the thorough tier of C19 and "
             "repaired in f374795).",
        design_ref="DESIGN.md section 6 (C13)"),
    "C17": dict(
        text="Proved in Lean over the L2 model, in which every Rust panic site is the outcome `panic`: "
             "index_zero_rejected (index 0 returns OutOfBounds with updater and device unchanged: rfl) and "
             "session_survives; handleSegment_no_panic_and_wf / session_never_panics (for every index < 2^32, every "
             "device state incl. crash and fault injection, every updater satisfying UpdWF, no delivery panics and "
             "UpdWF is preserved; UpdWF is established by start_update and by try_recover); robust_calls (for every "
             "device state whose erase-block size divides the slot size, try_recover, bl_boot_status, fallback_firmware, "
             "is_valid_firmware, cancel_all and start_update never panic); status_calls_read_only; "
             "recovered_session_never_panics. On the real code: malformed indices at every session stage and arbitrary "
             "flash contents, in release and overflow-checked builds, under catch_unwind.",
        note="Relative to the model's enumeration of panic sites (validated by the catch_unwind correspondence). Row "
             "generation must return: discharged by C10's termination theorem without force-full-r (rowsDefined_std); "
             "with force-full-r it is the hypothesis RowsDefined (coded fragment 1240005543 never returns there). "
             "Payload length must equal the fragment size (documented assert). 'Inside slot boundaries' is C08. Defects "
             "fixed in /repo: index 0, seed overflow, >2048 parity rows, recovered l > max_l.",
        design_ref="DESIGN.md section 6 (C17)"),
    "C01": dict(
        text="Proved in Lean end to end on the models: simulation_step / session_refines (for crash-free, fault-free "
             "sessions the flash-backed updater Updater.handleBlock refines the abstract reconstructor Recon.handleBlock "
             "under the invariant Lawful: geometry, erased-until-written, status bytes = done, stored rows in echelon "
             "form; abstraction read off the flash), data/parity/matrix_store_lawful (write-then-read on an erased place, "
             "other indices unchanged), startUpdate_lawful (start_update establishes the invariant on any healthy "
             "device, any prior flash content), update_exact / update_exact_from_start / update_exact_std (for every "
             "accepted geometry, image, delivery list of consistent fragments: no delivery fails, and when a fragment "
             "reports FirmwareComplete the firmware slot's data region equals the image block by block at offset "
             "0x4400 + m*size and every status byte is 0x33 — from C02's recon_sound through the refinement, rows via "
             "C10), counters / counters_flash / received_abs (the received counter is monotone, at most n, equal to n "
             "exactly at completion; the clamp is the identity). Checked on the real code over random geometries, ring "
             "positions, loss sets, orders, duplicates, in both force-full-r configurations, comparing per-fragment "
             "outcomes, counters, final check and the flash digests; oracle = the property itself.",
        note="The validation / Complete-mark conjunct is C14's theorem (check_gate) and is not re-proved here; the header "
             "fields written by start_update are part of start_crash_free (C08). With force-full-r the theorem needs "
             "RowsDefined for the delivered indices (C10's termination is proved without force-full-r).",
        design_ref="DESIGN.md section 6 (C01)"),
    "C04": dict(
        text="Proved in Lean over the L2 model for EVERY device state — i.e. at every operation index and every torn "
             "outcome, because the device state carries the crash point (crashAt with an optional tear) and the flash "
             "after the run is the replay of the logged operations: the word-level invariant CVW (every slot whose kind "
             "word is firmware and whose external-status word is the Complete code has fitting geometry words, in-range "
             "data and a matching CRC) holds on a blank device and is preserved by start_update, handle_segment, "
             "check_and_mark_done, try_recover, cancel_all, the status marks and the read-only calls (start_preserves … "
             "status_calls_preserve, session_preserves, start_crash_prefix); CVW implies CompleteValid (every header that "
             "parses as completed firmware passes Firmware.isValidFirmware); check_gate_L2 (Complete is programmed only "
             "after the CRC test passed on the same flash), torn_complete_is_complete (a torn external-status program "
             "reads Complete only if it is the Complete code), clear_kills_header_first, bl_designates_valid / "
             "bl_call_designates_valid (the bootloader query only designates validating slots), valid_bridge (the "
             "session model's validation = the C14 model's). Panic-freedom of the post-reboot calls is C17's robust_calls. "
             "C06c transports the resume theorem to TORN programs at flash level: crash_resume_resend_torn_first_L2 "
             "(a tear inside the first program of a delivery — every data program and every parity-block program — any "
             "prefix, any bit subset: recovery succeeds and the fragment sent again is answered as uninterrupted, with the "
             "same abstraction), crash_resume_resend_torn_L2_partial / crash_resume_continue_torn_L2_partial (any torn "
             "program outside finish, provided the written-mark bytes and the matrix diagonal bytes read as before — the "
             "two excluded cases are real: torn_mark_hazard, torn_row_hazard). C06d proves the NEGATION for the torn "
             "matrix-row case with a concrete machine-checked witness at the flash-level model: torn_row_breaks_resume "
             "(two 32 KiB slots, image [[7],[9]], coded fragment 3, tear of the row program keeping bit 0: recovery "
             "returns a session, the fragment sent again answers FirmwareComplete, and fragment 0 reads [0] instead of "
             "[7]) and torn_row_not_repaired (the conclusion of the _partial theorem fails without hdiags) - the same "
             "scenario that is replayed on the real code (corpus/d5t.txt, known finding). "
             "On the real code: crash and torn-write enumeration inside every operation kind with post-reboot sweep (d5w), "
             "and torn programs inside fragment handling followed by reboot, recovery, the rest of the transmission and the "
             "final check, with the losses placed in the 64 bytes the CRC does not cover (d5t).",
        note="Hypotheses: slot size >= 17412, erase block >= 28 bytes, at least 2 slots. The clause 'if written by the "
             "interrupted session, equals the transmitted image' is checked by the harness (sweep compares the session's "
             "slot with the image) and follows from C01/C06 outside the two known crash windows; inside them only the CRC "
             "protects the image (CRC is not injective), so equality is not claimed there. KNOWN FINDINGS (genuine, "
             "replayed on the real code, no small safe repair; known_findings.json): torn-site=row-diagonal-byte (a tear "
             "of the matrix row's last byte leaves a different row reading as present), torn-site=finish and "
             "torn-site=parity-block-lost (the C06/C18 findings) yield a falsely complete image when the wrongly rebuilt "
             "fragments lie in image bytes 4..68. Model-level observations: "
             "CompleteValid alone is not preserved by the status marks (hence the word-level invariant); "
             "check_and_mark_done does not check the header kind (the session invariant supplies it).",
        design_ref="DESIGN.md section 6 (C04)"),
    "C19": dict(
        text="Proved in Lean: repair_exact / naive_repair_exact / orig_repair_exact (whatever a repair step of either "
             "updater computes is the original fragment, given that the stored fragments are the originals / the row "
             "XORs), dup_noop_naive / dup_consumed_naive / dup_noop_orig / dup_consumed_orig (a duplicate issues no "
             "program and changes no counter), peel_confluent + run_is_closure + complete_iff_peel_partial (on the "
             "mask-level machine Abs, completion holds exactly when the single-missing-fragment peeling closure of the "
             "received data and coded rows covers everything; the closure is unique), naive_step_is_abs / "
             "orig_step_is_abs (one repair decision of either flash-level model = one step of Abs on the masks the status "
             "tables read as), same_rows, naive_eq_orig_partial (both implementations' mask machines agree on every "
             "prefix within both accepted ranges), naive_parity_count_le / naive_parity_header_parses (after the repair). "
             "Both real crates are fed the same sessions (losses, orders, duplicates, reboots) and compared with both "
             "models call by call; the oracle is an independent peeling decoder; the naive back-end additionally with a "
             "power loss at every mutating-op boundary.",
        note="Flash level, naive back-end: naive_start_establishes + naive_handle_segment_refines + complete_iff_peel / "
             "complete_iff_peel_session are full theorems (every genuine fragment is accepted, the session invariant NInv "
             "is kept, completion exactly at the peeling closure). Deprecated crate at flash level: orig_start_establishes "
             "+ orig_handle_segment_refines (its write_segment + repair loop refines the same mask machine, invariant "
             "OInv) and naive_eq_orig (FULL: both flash-level models, started on their devices, succeed on every delivery "
             "of a sequence of genuine fragments inside both scans, report completion at the same deliveries and end with "
             "the same data-region contents); the earlier _partial forms are kept beside it. Row existence is a hypothesis of the session "
             "theorems (C10's termination provides it without force-full-r). Defects fixed in /repo: naive parity count "
             "not clamped; deprecated crate's duplicate check read 256 bytes.",
        design_ref="DESIGN.md section 6 (C19)"),
    "C20": dict(
        text="Proved in Lean for every ring size 3..6, rotation, fill level and start value (sequence numbers modulo "
             "2^32-1, so the wrap-around is covered): next_seq_never_reserved / next_seq_injective / "
             "next_seq_closed_form, ordered_headers_spec / ordered_headers_blank / no_assert (get_ordered_headers rotates "
             "to the position after the newest; the assert is unreachable on consistent states), plan_first / "
             "start_places_partial (the two positions after the newest, numbered next_seq and next_seq^2, never "
             "0xFFFFFFFF), app_pair_spec / app_status_resumes_partial / appBootStatus_eq (the application status resumes "
             "exactly the newest in-progress firmware/parity pair with plausible geometry, otherwise idle), "
             "remediate_covers / cancel_covers (every other in-progress slot is aborted or erased), reasonable_iff / "
             "start_rejects_unrepresentable / start_rejects_untouched, write_in_slot / plan_in_slot (every operation of "
             "an accepted fragment write, for any device state incl. crash and tear, lies inside the fragment's own "
             "slot), plus decide-witnesses for the two pinned defects (write_beyond_slot_witness, "
             "app_status_error_witness). On the real code: every consistent ring state for N = 3..6 x 8 start values, "
             "power loss at every operation of start, fragment indices swept over the accepted range.",
        note="start_places and app_status_resumes are full flash-level theorems (erase + header program read back through "
             "C11's round trip; abort / erase leave nothing in progress); the 'resumes when there is one' direction needs "
             "the two status tables to hold only 0x33 / 0xFF bytes (the code reports idle on a corrupt table). Defects "
             "fixed in /repo: range check ignoring the data-region offset; app_boot_status "
             "returning an error forever after a power loss inside start; start accepting unrepresentable geometries.",
        design_ref="DESIGN.md section 6 (C20)"),
}

_TODO = "check not built yet in this session (planned in DESIGN.md section 6); not believed to be outside the technique"
NOT_APPLICABLE = {f"C{i:02d}": _TODO for i in range(1, 21) if f"C{i:02d}" not in CLAIMS}
