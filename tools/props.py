"""Per-property configuration of ./check: theorem modules, differential suites, projections."""

PROPS = {
    "C11": dict(
        modules=["Fuota.Props.C11"],
        suites=[dict(name="d3", cfg="matrix")],
        rule="query = one codec call (field / header / classification / status mark) answered by the Rust codec of "
             "both crates and by the Lean model; torn-word patterns are enumerated exhaustively on the implementation "
             "(oracle) and counted under input_distribution; distinct = distinct query text",
        trusted=["crate bitvec / core as compiled"],
        assumptions=["NOR program = bitwise AND; a torn program clears any subset of the bits to clear"],
    ),
    "C15": dict(
        modules=["Fuota.Props.C15"],
        suites=[dict(name="d5g", cfg="matrix"),
                dict(name="d5s", cfg="matrix", keys=["res", "maxl", "fw", "par"])],
        rule="d5g: one start_update call per (fragment size, count, slot size) boundary class or near-fit geometry; "
             "d5s: whole sessions with loss sets at, below and above the parity capacity; distinct = distinct query text",
        trusted=["crate bitvec / core as compiled"],
        assumptions=["u32 arguments (the API type)"],
    ),
    "C18": dict(
        modules=["Fuota.Props.C18", "Fuota.Props.C03a"],
        suites=[dict(name="d1f", cfg="matrix")],
        rule="one scenario per (session, storage-call index): the call fails once without effect, the same block is "
             "redelivered, the session is continued; the reconstructor runs on instrumented in-memory stores",
        trusted=["crate bitvec / core as compiled"],
        assumptions=["a failed storage operation has no effect on the medium"],
    ),
}
