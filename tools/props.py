"""Per-property configuration of ./check: theorem modules, differential suites, projections."""

PROPS = {
    "C11": dict(
        modules=["Fuota.Props.C11"],
        suites=[dict(name="d3", cfg="matrix")],
        rule="query = one codec call (field / header / classification / status mark) answered by the Rust codec of "
             "both crates and by the Lean model; torn-word patterns are enumerated exhaustively on the implementation "
             "(oracle) and counted under input_distribution; `alloc s` = start_update on a ring whose only image is "
             "confirmed with sequence number s, answer = the sequence numbers written (model: choosePair / seqNext), "
             "oracle = every written header parses; distinct = distinct query text",
        trusted=["crate bitvec / core as compiled"],
        assumptions=["NOR program = bitwise AND; a torn program clears any subset of the bits to clear"],
    ),
    "C15": dict(
        modules=["Fuota.Props.C15", "Fuota.Props.C15b"],
        suites=[dict(name="d5g", cfg="matrix"),
                dict(name="d5s", cfg="matrix", keys=["res", "maxl", "fw", "par"])],
        rule="d5g: one start_update call per (fragment size, count, slot size) boundary class or near-fit geometry; "
             "d5s: whole sessions with loss sets at, below and above the parity capacity; distinct = distinct query text",
        trusted=["crate bitvec / core as compiled"],
        assumptions=["u32 arguments (the API type)"],
    ),
    "C18": dict(
        modules=["Fuota.Props.C18", "Fuota.Props.C18b", "Fuota.Props.C18c"],
        suites=[dict(name="d1f", cfg="matrix"),
                dict(name="d5f", cfg="matrix", keys=["res", "ops", "recv", "total", "complete"]),
                dict(name="d5fr", cfg="matrix", oracle_only=True)],
        rule="d1f: one scenario per (session, storage-call index): the call fails once without effect, the same block "
             "is redelivered, the session is continued (reconstructor on instrumented in-memory stores); d5f: the same "
             "at flash level through SlotManager/Updater on the NOR simulator (fault on each mutating SpiFlash op of each "
             "fragment, redelivery, completion, final check with exact image); d5fr: faults on any op incl. reads "
             "(implementation oracle only); d5f also: sequences of up to 3 faulted fragments with up to 3 failures each",
        trusted=["crate bitvec / core as compiled"],
        assumptions=["a failed storage operation has no effect on the medium"],
    ),
    "C02": dict(
        modules=["Fuota.Props.C02"],
        suites=[dict(name="d1", cfg="matrix", keys=["res", "dst", "ds"])],
        rule="scenario = (N, block size, capacity, contract-respecting matrix, original data, delivery sequence); one "
             "evaluation = one handle_block call answered by the Rust reconstructor (instrumented in-memory stores) "
             "and by the model; plus every sequence of length <= 4 (quick) / 6 (thorough) over N <= 3 with a fixed "
             "6-row matrix; distinct = distinct query text",
        trusted=["crate bitvec / core as compiled"],
        assumptions=["received blocks are consistent with the original data and the matrix (the property's premise)"],
    ),
    "C03": dict(
        modules=["Fuota.Props.C03"],
        suites=[dict(name="d1", cfg="matrix", keys=["res", "nc", "l"])],
        rule="same scenarios as C02; the oracle is an independent GF(2) elimination over u64 words in the harness "
             "(rank of the rows accepted since parity processing began, over the frozen unknown columns) and the "
             "refusal condition unknown > min(bits(V), num_rows)",
        trusted=["crate bitvec / core as compiled"],
        assumptions=[],
    ),
    "C09": dict(
        modules=["Fuota.Props.C09"],
        suites=[dict(name="d1", cfg="matrix", keys=["calls"])],
        rule="same scenarios as C02; the projection is the full storage-call log of every handle_block call; the "
             "harness' stores are contract monitors (stored twice / read before store / row shape / parity-before-row / "
             "index below capacity / buffer length)",
        trusted=["crate bitvec / core as compiled"],
        assumptions=["fault-free storage (faults are C18)"],
    ),
    "C10": dict(
        modules=["Fuota.Props.C10"],
        suites=[dict(name="d2", cfg="matrix"), dict(name="d2", cfg="matrix-ffr")],
        rule="query = one row request (generator, M, N or matrix row index, cfg) answered by the Rust generator and by "
             "the Lean model, compared on the first ceil(M/8) row bytes (or PANIC); the oracle compares every row "
             "with an independent Rust transcription of TS004 matrix_line and checks bounds / non-emptiness / "
             "force-full-r weight; with force-full-r the coded-fragment numbers that need the most PRBS draws (found with the "
             "independent generator, for each M with many factors of 2) are queried explicitly; `!sweep` lines (thorough) "
             "are oracle-only; distinct = distinct query text per cfg",
        trusted=["crate bitvec / core as compiled", "Lean kernel `decide` on 384-bit Nat literals (interop vectors)"],
        assumptions=["UpdaterMatrix is private: its index mapping is covered by the theorem updater_matrix_row and "
                     "end to end by D5 (the session model uses the same generator), not by D2",
                     "release arithmetic (wrapping seed)"],
    ),
    "C16": dict(
        modules=["Fuota.Props.C16"],
        suites=[dict(name="d4", cfg="matrix")],
        rule="query = one call of one of the three flash.rs adapters (new / store / get / set_row / row / num_rows) on a "
             "simulated embedded-storage NorFlash device, answered by the Rust adapter and by the Lean model with the "
             "returned bytes and the complete device access log; the property oracle (shadow map round trip, frame, "
             "contiguous layout, alignment, range, no 0->1, no re-programming on non-multiwrite devices, num_rows fit) "
             "runs on the implementation; distinct = distinct query text",
        trusted=["crate bitvec / embedded-storage-async traits as compiled", "the in-memory NorFlash device of harness/src/d4.rs"],
        assumptions=["NOR program = bitwise AND (MultiwriteNorFlash semantics for the data adapter)",
                     "addresses below 2^32 (the `as u32` casts of flash.rs are not modelled)",
                     "range start/end multiples of the write size (implied by a successful erase in `new`)"],
    ),
    "C07": dict(
        modules=["Fuota.Props.C07", "Fuota.Props.C07b", "Fuota.Props.C07c"],
        suites=[dict(name="d5r", cfg="matrix", keys=["res", "recv", "total", "complete", "s0", "s1", "s2", "s3", "s4", "s5"])],
        rule="per generated session: the uninterrupted run is recorded, then for every position between two operations "
             "(sampled in quick tier; always incl. before the first fragment and after completion before the mark) a twin "
             "run with 1..3 reboot+try_recover at that position; outcomes of every later fragment, counters after "
             "recovery, final check and the final flash digests are compared with the uninterrupted run",
        trusted=["crate bitvec / core as compiled"],
        assumptions=["geometries with parity capacity >= 1 (with capacity 0 the parity header never parses)"],
    ),
    "C06": dict(
        modules=["Fuota.Props.C06", "Fuota.Props.C06b"],
        suites=[dict(name="d5c", cfg="matrix", keys=["res", "recv", "total", "complete", "s0", "s1", "s2", "s3", "s4", "s5"])],
        rule="per generated session: power loss before mutating flash operation k of operation j, for every (j, k) of "
             "start_update, every handle_segment and check_and_mark_done (sampled in quick tier, every site class "
             "kept); reboot, try_recover, the interrupted fragment lost or re-sent, the rest of the transmission, one "
             "full pass of the data, final check with exact image; crash sites are classified from the operation's "
             "address (start / data / status / parity-block / row / row-lost / finish / mark)",
        trusted=["crate bitvec / core as compiled"],
        assumptions=["power loss = the device refuses every operation from the crash point on; erase is atomic per block"],
    ),
    "C14": dict(
        modules=["Fuota.Props.C14", "Fuota.Lemmas.Crc", "Fuota.Lemmas.CrcLoop"],
        # the read log (how the bytes are fetched) is compared but is not part of the property's projection:
        # a difference confined to it is recorded as drift_outside_projection
        suites=[dict(name="d7", cfg="matrix", strip=r" reads=\S+"), dict(name="d7", cfg="naive", thorough_only=True, strip=r" reads=\S+")],
        rule="query = one validation call on a crafted flash (is_valid_firmware / validate_firmware_slot / "
             "check_crc_from_index), one exhaustive single-bit sweep of a slot's data bytes (flipall: every bit of the "
             "CRC word, signature, covered bytes and a few bytes beyond), one check_and_mark_done at the end of a real "
             "session (start_update + handle_segment, optional one-bit corruption), or one checksum of crate crc; "
             "compared: verdict, exact read log (addresses, lengths), mutating-op log; distinct = distinct query text",
        trusted=["crate crc as compiled (compared with the model and two independent implementations on every crc line)"],
        assumptions=["both slots of a session lie inside the device (otherwise the second status program can fail "
                     "after the first one took effect)"],
    ),
    "C08": dict(
        modules=["Fuota.Props.C08", "Fuota.Props.C08b"],
        suites=[dict(name="d5s", cfg="matrix", keys=["ops"]),
                dict(name="d5m", cfg="matrix", keys=["ops"]),
                dict(name="d6", cfg="matrix", keys=["ops"]),
                dict(name="d5r", cfg="matrix", keys=["ops"])],
        rule="one evaluation = one API call (start / fragment / check / recover / cancel / mark) with the complete log "
             "of its erase and program operations (slot, offset, length, payload digest); sessions over random "
             "geometries incl. the last slot of the device and loss beyond capacity, malformed inputs, arbitrary flash "
             "contents, ring histories; the oracle checks in-one-slot, in-session-slots, header-area, needs-0->1",
        trusted=["crate bitvec / core as compiled"],
        assumptions=["the NOR simulator counts a program that would need a 0->1 transition"],
    ),
    "C05": dict(
        modules=["Fuota.Props.C05", "Fuota.Props.RingRefine"],
        closure=dict(quick=[4, 5], thorough=[4, 5, 6]),
        suites=[dict(name="d6", cfg="matrix", keys=["res", "ops", "fw", "par"])],
        rule="ring histories: random interleavings of start (also starting over a live session, with invalid "
             "parameters, or losing power at a random operation), deliver, complete, cancel, reboot+recover, copy-done, "
             "confirm, reject on 4, 5 and 6 slots, marks driven by what bl_boot_status reports; before every start the "
             "oracle snapshots the slot holding the most recently confirmed image (lifecycle oracle) and compares it "
             "byte for byte afterwards; the fallback query must answer that slot; corpus scenarios run first",
        trusted=["crate bitvec / core as compiled"],
        assumptions=["no sequence-number wrap-around (2^32-2 updates)"],
    ),
    "C12": dict(
        modules=["Fuota.Props.C12", "Fuota.Props.RingRefine"],
        closure=dict(quick=[4, 5], thorough=[4, 5, 6]),
        suites=[dict(name="d6", cfg="matrix", keys=["res"])],
        rule="same ring histories as C05; after every step bl_boot_status and fallback_firmware are compared with the "
             "lifecycle oracle kept by the harness (per slot: in progress / aborted / copy pending / ack pending / "
             "confirmed with rank / rejected, updated from API results and from erase operations) and with the model",
        trusted=["crate bitvec / core as compiled"],
        assumptions=["at most one image awaiting copy or acknowledgement (the generator completes an update only when "
                     "the bootloader status is idle)"],
    ),
    "C13": dict(
        modules=["Fuota.Props.C13", "Fuota.Props.RingRefine"],
        closure=dict(quick=[4, 5], thorough=[4, 5, 6]),
        suites=[dict(name="d6", cfg="matrix", keys=["res", "ops"]),
                dict(name="d5w", cfg="matrix", keys=["res", "ops"]),
                dict(name="d5r", cfg="matrix", keys=["res", "ops"]),
                dict(name="d6", cfg="naive", keys=["res", "ops"], driver_args=["--naive"])],
        rule="ring histories (d6; also on the single-erasure back-end), crash-inside-every-operation scenarios (d5w) and clean reboots of live sessions at "
             "sampled positions incl. wrapped pairs and exact-fit geometries (d5r); after every try_recover / "
             "cancel_all the oracle checks the parsed headers (only the returned pair in progress / nothing in "
             "progress), that no confirmed / rejected / ack-pending slot was touched, that the returned pair was written "
             "by one and the same start attempt (no chimera), and repeated recovery is compared for idempotence",
        trusted=["crate bitvec / core as compiled"],
        assumptions=["geometries with parity capacity >= 1"],
    ),
    "C17": dict(
        modules=["Fuota.Props.C17"],
        suites=[dict(name="d5m", cfg="matrix", keys=["res", "ops", "recv", "rem"]),
                dict(name="d5m", cfg="checked", keys=["res", "ops", "recv", "rem"])],
        rule="malformed fragment indices (0, n+1240005543, 2^14, 2^16, 2^32-1, ...) delivered at sampled positions of "
             "sessions (before the first fragment, stage 1, stage 2, after completion) with consistent payloads; "
             "arbitrary flash contents (legal codes in illegal combinations, duplicate / extreme sequence numbers, "
             "oversize geometry, random bytes, random status tables) followed by validation, status, fallback, "
             "recovery (twice) and start; release and overflow-checked builds; every call under catch_unwind",
        trusted=["crate bitvec / core as compiled"],
        assumptions=["payload length = fragment size (a wrong length is a documented assert)",
                     "erase-block size divides the slot size (documented assert of Slot::clear)"],
    ),
    "C01": dict(
        modules=["Fuota.Props.C01"],
        suites=[dict(name="d5s", cfg="matrix", keys=["res", "recv", "total", "complete", "s0", "s1", "s2", "s3", "s4", "s5"]),
                dict(name="d5s", cfg="matrix-ffr", driver_args=["--ffr"],
                     keys=["res", "recv", "total", "complete", "s0", "s1", "s2", "s3", "s4", "s5"])],
        rule="one scenario = device geometry (4..6 slots, slot size from the minimum upward, erase block dividing it), "
             "ring position (preceding completed / cancelled updates), image with valid CRC, fragment size incl. sizes "
             "straddling the 68-byte prefix, loss set up to and beyond capacity, delivery order (in order, shuffled, "
             "coded first, duplicates, interleaved), number of coded fragments, coded-fragment numbers from 1 or late in the "
             "transmission (around 2^14 - M, 8380/8381, 16000+), firmware-like contents (0xFF padding, zero / repeated / "
             "FF-prefixed fragments), losses inside the 64 bytes the CRC does not cover; compared per fragment: outcome and "
             "counters; at the end: check result and digests of every slot; oracle: data region = image, validation, "
             "header, counters monotone / bounded / exact at completion",
        trusted=["crate bitvec / core as compiled"],
        assumptions=["fragments consistent with the image (coded fragment k = XOR selected by row k)"],
    ),
    "C19": dict(
        modules=["Fuota.Props.C19"],
        suites=[dict(name="d8s", cfg="naive", driver_args=["--naive"]),
                dict(name="d8c", cfg="naive", driver_args=["--naive"]),
                dict(name="d8s", cfg="naive-ffr", driver_args=["--naive", "--ffr"], thorough_only=True),
                # the back-end agnostic D5 generators on the naive back-end (correspondence only: their oracles belong
                # to other properties): malformed indices / crafted flash, clean reboots, torn-program crash sweep
                dict(name="d5m", cfg="naive", driver_args=["--naive"], thorough_only=True, search_thorough=False),
                dict(name="d5r", cfg="naive", driver_args=["--naive"], thorough_only=True, search_thorough=False),
                dict(name="d5w", cfg="naive", driver_args=["--naive"], thorough_only=True, search_thorough=False)],
        rule="d8s: whole sessions (image, geometry, loss pattern, delivery order, duplicates, optional clean reboot) fed "
             "fragment by fragment to BOTH crates (naive Updater of flash-algo-new built without matrixreconstructor, "
             "ActiveStatus of original-flash-algo) and to both Lean models; one evaluation = one API call answered with "
             "outcome, complete flash-operation log and counters; d8c: the naive back-end with a power loss at every "
             "mutating-operation boundary of start / fragments (incl. repair writes) / check, then reboot, recovery, "
             "continuation, final check; the oracle (harness) is an independent peeling decoder over TS004 rows: "
             "expected completion point, exact set and contents of the fragments each call may program, no program on "
             "a duplicate, exact image, same completion point in both crates; distinct = distinct query text per cfg",
        trusted=["crate bitvec / core as compiled", "TS004 matrix_line transcription in harness/src/d8.rs (oracle rows)"],
        assumptions=["received fragments are genuine (data fragments of the image, coded fragments = XOR of the rows)",
                     "crash-free runs for the peeling clauses; operation-boundary power loss (no torn program) for the "
                     "resume clause",
                     "the theorems marked _partial are about the mask-level machine; the flash-level refinement is "
                     "checked by this correspondence suite, not proved"],
    ),
    "C20": dict(
        modules=["Fuota.Props.C20"],
        suites=[dict(name="d8r", cfg="matrix")],
        rule="every consistent ring state for N = 3..6 (rotation x fill x 8 start values incl. those around 2^32-1) x "
             "status variants: `start` (placement / numbering / other slots untouched oracle), `bl_boot_status`, "
             "`app_boot_status` (resume-exactly-the-newest-pair / nothing else left in progress oracle), power loss at "
             "every mutating-operation boundary of `start` followed by the boot-time calls, and fragment indices swept "
             "over the accepted range for 7 (fragment size, slot size) pairs with the in-slot oracle, rings whose in-progress "
             "pair announces an image that does not fit the slot followed by writes at and beyond the slot end; one evaluation = "
             "one API call of original-flash-algo answered by the crate and by the Lean model (outcome, operation log, "
             "session fields, header words and region digests)",
        trusted=["crate bitvec / core as compiled"],
        assumptions=["consistent ring states (the property's quantifier); headers whose geometry fits the slot"],
    ),
    "C04": dict(
        modules=["Fuota.Props.C04", "Fuota.Props.C06c", "Fuota.Props.C06d"],
        suites=[dict(name="d5w", cfg="matrix", keys=["res", "ops", "bad", "s0", "s1", "s2", "s3", "s4", "s5"]),
                dict(name="d5t", cfg="matrix", keys=["res", "ops", "bad", "s0", "s1", "s2", "s3", "s4", "s5"])],
        rule="per generated session: power loss before / during (torn: byte prefix and partially programmed byte) "
             "mutating operation k of operation j, for start, fragments (incl. back-substitution), the final mark, and "
             "then inside the bootloader / application marks, recovery (remediation), cancel-all and a start-over; after "
             "the reboot: validation sweep of every slot that reads as completed firmware (and comparison with the "
             "transmitted image for the session's slot), try_recover, bl_boot_status (designated slot must validate), "
             "fallback_firmware, start_update, sweep again; every call under catch_unwind; d5t: a torn program (or a "
             "power loss) inside fragment handling, then reboot, recovery, the interrupted fragment again or lost, the rest "
             "of the transmission, a full pass of the data and the final check, with all losses inside image bytes 4..68 "
             "(outside the CRC) so that a wrongly rebuilt fragment shows as a wrongly completed image; failures are keyed "
             "by the torn operation's site class",
        trusted=["crate bitvec / core as compiled"],
        assumptions=["erase is atomic per erase block; a torn program clears a byte prefix plus any subset of the bits "
                     "of one more byte", "erase-block size >= 28 bytes (header in the first block)"],
    ),
}
