"""Per-property configuration of ./check: theorem modules, differential suites, projections."""

PROPS = {
    "C11": dict(
        modules=["Fuota.Props.C11"],
        suites=[dict(name="d3", cfg="matrix")],
        rule="query = one codec call (field / header / classification / status mark) answered by the Rust codec of "
             "both crates and by the Lean model; torn-word patterns are enumerated exhaustively on the implementation "
             "(oracle) and counted under input_distribution; distinct = distinct query text",
        trusted=["crate bitvec / core as compiled"],
        assumptions=["NOR program = bitwise AND; a torn program clears any subset of the bits to clear"],
    ),
}
